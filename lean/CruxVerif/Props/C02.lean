/-
C02 — a response reaches exactly the task that asked, with the declared arity.
Model: core/resolve.rs (`resolveReq`), context.rs request channels (leaves), request_serde.rs (`M.Bridge.resume`).
-/
import CruxVerif.Lemmas.Resolve
import CruxVerif.Lemmas.Bridge
import CruxVerif.Lemmas.Deliver
import CruxVerif.Lemmas.K2
import CruxVerif.Lemmas.Refs
import CruxVerif.Lemmas.OwnRun
import CruxVerif.Lemmas.GRun
import CruxVerif.Lemmas.GCoreHosts
namespace Props.C02
open M.Rt

/-- a notification accepts no resolution, and nothing happens -/
theorem never_rejected (v : Val) (w : World) : resolveReq .never v w = (.never, .never, w) := resolve_never v w

/-- a one-shot request accepts one resolution and is `Never` afterwards -/
theorem once_accepts_one (l : Nat) (v : Val) (w : World) :
    (resolveReq (.once l) v w).1 = .never ∧ (resolveReq (.once l) v w).2.1 = .ok := resolve_once_consumes l v w

/-- a second resolution is rejected with an error and has no effect -/
theorem once_second_rejected (l : Nat) (v v' : Val) (w : World) :
    let (r, _, w1) := resolveReq (.once l) v w
    resolveReq r v' w1 = (.never, .never, w1) := resolve_once_second_rejected l v v' w

/-- a stream request accepts a resolution iff its consumer still exists; a rejected one delivers nothing -/
theorem many_until_consumer_gone (l : Nat) (v : Val) (w : World) :
    ((resolveReq (.many l) v w).2.1 = .ok ↔ (w.leaf l).receiverAlive = true) ∧
    ((w.leaf l).receiverAlive = false → resolveReq (.many l) v w = (.many l, .finished, w)) := resolve_many_iff l v w

/-- an accepted resolution appends exactly the value, unchanged, to the issuing request's own channel (in order) -/
theorem delivered_unchanged_in_order (l : Nat) (v : Val) (w : World) (hl : l < w.leaves.length)
    (h : (w.leaf l).receiverAlive = true) :
    ((resolveReq (.many l) v w).2.2.leaf l).queue = (w.leaf l).queue ++ [v] ∧
    ((resolveReq (.once l) v w).2.2.leaf l).queue = (w.leaf l).queue ++ [v] :=
  ⟨(resolve_many_appends l v w hl h).2, resolve_once_delivers l v w hl h⟩

/-- each request owns a private channel: the leaf allocated for a new request differs from every existing leaf, and
    existing leaves are untouched by the allocation -/
theorem delivery_channel_private (w : World) (wk : Option Waker) (legacy : Bool) :
    (w.newLeaf wk legacy).1 = w.leaves.length ∧ (w.newLeaf wk legacy).2.leaves.length = w.leaves.length + 1 ∧
    ∀ l, l < w.leaves.length → (w.newLeaf wk legacy).2.leaves[l]? = w.leaves[l]? := newLeaf_fresh w wk legacy

/-- the serialized path resolves exactly the stored resolve with the decoded value -/
theorem serialized_agrees (reg : M.Slab Resolve) (id : Nat) (v : Val) (w : World) (r : Resolve)
    (hg : reg.get? id = some r) :
    (M.Bridge.resume reg id (some v) w).2.2 = (resolveReq r v w).2.2 ∧
    ((M.Bridge.resume reg id (some v) w).1 = .ok ↔ (resolveReq r v w).2.1 = .ok) :=
  M.Bridge.resume_exact reg id v w r hg

/-- END TO END, one request: a task block that a poll with waker `wk` left suspended at the one-shot request of leaf `l`
    (`ParkedB`, which every poll of a host-free block establishes — `Props.C07.poll_parks`) and whose consumer is alive:
    resolving that request with `v` is accepted, puts exactly `v` into that request's own channel, leaves EVERY other request's
    channel as it was, wakes exactly the asking task's waker, and the task's next poll (under any waker) continues with `v`
    bound to the request's variable. -/
theorem response_reaches_exactly_the_asker (pn : Waker → Nat → World → Option (NextRes × World)) (f : Nat) (wk wk2 : Waker)
    (sink : Sink) (env : Env) (x l : Nat) (rest : List Instr) (w : World) (v : Val)
    (hpark : ParkedB wk w (.mk env (.req x l) rest)) (halive : (w.leaf l).receiverAlive = true)
    (hempty : (w.leaf l).queue = []) :
    let w' := (resolveReq (.once l) v w).2.2
    (resolveReq (.once l) v w).2.1 = .ok ∧
    (w'.leaf l).queue = [v] ∧
    (∀ l', l ≠ l' → w'.leaf l' = w.leaf l') ∧
    wokenBy wk w' ∧
    pollBlock pn (f + 1) wk2 sink (.mk env (.req x l) rest) w' =
      pollBlock pn f wk2 sink (.mk (env.set x v) .idle rest) (w'.dropReceiver l) := by
  simp only [ParkedB, ParkedP] at hpark
  obtain ⟨hl, hwk⟩ := hpark
  have hq : ((resolveReq (.once l) v w).2.2.leaf l).queue = [v] := by
    rw [resolve_once_delivers l v w hl halive, hempty]; rfl
  refine ⟨(resolve_once_consumes l v w).2, hq, ?_, ?_, ?_⟩
  · intro l' hne; exact resolve_other_leaves (.once l) l (Or.inl rfl) v w l' hne
  · exact resolve_wakes_asker (.once l) l (Or.inl rfl) v w wk hwk halive
  · exact poll_binds_value pn f wk2 sink env x l rest _ v [] hq

/-- the same for a stream item: accepted while the consumer is alive, appended in order to that stream's own channel, no
    other channel touched, the consumer's waker woken -/
theorem stream_item_reaches_exactly_the_consumer (wk : Waker) (env : Env) (x l count limit : Nat) (body rest : List Instr)
    (w : World) (v : Val) (hpark : ParkedB wk w (.mk env (.streamWait x l count limit body) rest))
    (halive : (w.leaf l).receiverAlive = true) :
    let w' := (resolveReq (.many l) v w).2.2
    (resolveReq (.many l) v w).2.1 = .ok ∧
    (w'.leaf l).queue = (w.leaf l).queue ++ [v] ∧
    (∀ l', l ≠ l' → w'.leaf l' = w.leaf l') ∧
    wokenBy wk w' := by
  simp only [ParkedB, ParkedP] at hpark
  obtain ⟨hl, hwk⟩ := hpark
  refine ⟨(resolve_many_iff l v w).1.mpr halive, (resolve_many_appends l v w hl halive).2, ?_, ?_⟩
  · intro l' hne; exact resolve_other_leaves (.many l) l (Or.inr rfl) v w l' hne
  · exact resolve_wakes_asker (.many l) l (Or.inr rfl) v w wk hwk halive

/-- the consumer's next poll takes exactly the oldest undelivered item and leaves the rest queued, in order -/
theorem stream_items_consumed_in_order (pn : Waker → Nat → World → Option (NextRes × World)) (f : Nat) (wk : Waker)
    (sink : Sink) (env : Env) (x l count limit : Nat) (body rest : List Instr) (w : World) (v : Val) (q : List Val)
    (hq : (w.leaf l).queue = v :: q) (hlim : ¬ (limit > 0 ∧ count ≥ limit)) :
    pollBlock pn (f + 1) wk sink (.mk env (.streamWait x l count limit body) rest) w =
      pollBlock pn f wk sink (.mk env (.streamBody x l count limit body (.mk (env.set x v) .idle body)) rest)
        (w.modLeaf l fun lf => { lf with queue := q }) :=
  poll_stream_binds_value pn f wk sink env x l count limit body rest w v q hq hlim

/-- NO ALIASING, one poll: if before a poll of a host-free block every request channel is referenced at most once by the
    block and the tasks waiting in its spawn queue (and none of them mentions a channel that does not exist yet), then the
    same holds afterwards for the continuation and the spawn queue — including the requests created and the tasks spawned
    during the poll (`handoff` gives a new request to exactly one new task). Any fuel, any world. -/
theorem poll_keeps_channels_unshared (pn : Waker → Nat → World → Option (NextRes × World)) (f : Nat) (wk : Waker)
    (sink : Sink) (b : Block) (w : World) (r : PollRes) (w' : World)
    (h : pollBlock pn f wk sink b w = some (r, w')) (hf : hostFreeB b = true)
    (hone : ∀ l, (refsB b).count l + (spawnRefs sink w).count l ≤ 1)
    (hex : ∀ l, w.leaves.length ≤ l → (refsB b).count l + (spawnRefs sink w).count l = 0) :
    ∀ l, (resRefs r).count l + (spawnRefs sink w').count l ≤ 1 := by
  intro l
  have hle := (pollBlock_linear pn f wk sink b w r w' h hf).cnt l
  unfold fresh at hle
  by_cases hl : w.leaves.length ≤ l
  · have := hex l hl
    split at hle <;> omega
  · have := hone l
    have : ¬ (w.leaves.length ≤ l ∧ l < w'.leaves.length) := fun c => hl c.1
    simp only [this, if_false] at hle
    omega

/-- … and a poll never makes a task (or a task it spawns) wait on an EXISTING request it did not already wait on: a channel
    of another task stays the other task's alone. -/
theorem poll_never_adopts_foreign_channel (pn : Waker → Nat → World → Option (NextRes × World)) (f : Nat) (wk : Waker)
    (sink : Sink) (b : Block) (w : World) (r : PollRes) (w' : World)
    (h : pollBlock pn f wk sink b w = some (r, w')) (hf : hostFreeB b = true) (l : Nat) (hl : l < w.leaves.length)
    (hnot : l ∉ refsB b) (hnots : l ∉ spawnRefs sink w) : l ∉ resRefs r ∧ l ∉ spawnRefs sink w' := by
  have hle := (pollBlock_linear pn f wk sink b w r w' h hf).cnt l
  have h1 : (refsB b).count l = 0 := List.count_eq_zero_of_not_mem hnot
  have h2 : (spawnRefs sink w).count l = 0 := List.count_eq_zero_of_not_mem hnots
  have h3 : fresh w w' l = 0 := by unfold fresh; rw [if_neg]; intro c; omega
  rw [h1, h2, h3] at hle
  constructor
  · intro hm; have := List.count_pos_iff.mpr hm; omega
  · intro hm; have := List.count_pos_iff.mpr hm; omega

/-- OVER WHOLE RUNS (`…_partial`: task programs without combinators, held directly by a test; the full statement also
    covers commands nested by `then / and / all / map_*` and the Core and Bridge hosts): for EVERY host-free task program —
    any number of spawned tasks, `join!`, `select!`, streams, hand-offs, self-aborts — and EVERY history of resolutions,
    drops, aborts and polls, in the world reached
    (1) every request channel is referenced by AT MOST ONE suspended or queued task of the command — so a value resolved on a
        request can be received by the task that waits on that request and by no other (with `response_reaches_exactly_the_asker`);
    (2) no task references a channel that does not exist; every stored task is host-free (so K2 / `poll_parks` applies to it).
    Global invariant `Own`, Lemmas/Own*.lean + TasksFrame + SlabSum (≈1000 lines): run_task (poll, then store / remove the
    entry), spawning, finishing, aborting, settling, the shell's operations. -/
theorem channels_unshared_over_runs_partial (is : List Instr) (hf : hostFreeIs is = true) (canon : Bool)
    (acts : List M.Hosts.Action) (os : List M.Hosts.Obs) (d : M.Hosts.Direct)
    (h : M.Hosts.runDirect (.task is) canon acts = some (os, d)) :
    (∀ l, cmdCnt l (d.w.cmd d.cid) ≤ 1) ∧ (∀ l, d.w.leaves.length ≤ l → cmdCnt l (d.w.cmd d.cid) = 0) ∧
    (∀ t ∈ (d.w.cmd d.cid).tasks.values, hostFreeB t.fut = true) :=
  let o := M.Hosts.runDirect_own is hf canon acts os d h
  ⟨o.one, o.rng, o.hft⟩

/-- non-vacuity (kernel-evaluated; longer histories exhaust the kernel's memory on the fuel-driven loops and are exercised
    by the correspondence check instead): a run exists, and its suspended task holds the one reference to channel 0 -/
example : ∃ os d, M.Hosts.runDirect (.task [.req 1 1 (.lit 0)]) false [] = some (os, d) ∧ cmdCnt 0 (d.w.cmd d.cid) = 1 := by
  refine ⟨_, _, rfl, ?_⟩
  decide

/-- OVER WHOLE RUNS, EVERY COMMAND: for every command whose task bodies are host-free — any nesting of `then`, `and`, `all`,
    `map_effect`, `map_event`, `abortable`, builder chains, tasks with `spawn`, `join!`, `select!`, streams, hand-offs,
    self-aborts — held directly by a test, and EVERY history of resolutions, drops, aborts and polls, in the world reached,
    summed over ALL commands of the world (the command itself, every command it hosts at any depth, their task slabs and
    their spawn queues):
    (1) every request channel is referenced by AT MOST ONE suspended or queued task — in particular no task of a sibling or
        hosted command can wait on, and so receive, the response to a request another task issued;
    (2) no task references a channel that does not exist.
    Global invariant `GOwn` = hosting order `HL` (C06, Lemmas/HostLt*.lean) + the measure `G l w = Σ_cmds cmdCnt l` bounded
    by `bnd` (Lemmas/G*.lean ≈ 900 lines): the hosting order makes `drop` of a hosted command decrease the measure of
    smaller-indexed commands only, which is what lets the poll of a host be accounted for while its own entry is out of
    the slab. -/
theorem channels_unshared_over_runs (c : Cmd) (hc : cmdHF c = true) (canon : Bool)
    (acts : List M.Hosts.Action) (os : List M.Hosts.Obs) (d : M.Hosts.Direct)
    (h : M.Hosts.runDirect c canon acts = some (os, d)) :
    (∀ l, (d.w.cmds.map (cmdCnt l)).sum ≤ 1) ∧
    (∀ l, d.w.leaves.length ≤ l → (d.w.cmds.map (cmdCnt l)).sum = 0) := by
  have o := M.Hosts.runDirect_gown c hc canon acts os d h
  constructor
  · intro l
    have := o.bound l
    unfold bnd at this; unfold G at this
    split at this <;> omega
  · intro l hl
    have := o.bound l
    unfold bnd at this; unfold G at this
    rw [if_neg (by omega)] at this
    omega

/-- … so two DIFFERENT commands of a reachable world never both reference one channel (a hosted command and its host, two
    siblings under `and` / `all`, …). -/
theorem commands_never_share_a_channel (c : Cmd) (hc : cmdHF c = true) (canon : Bool)
    (acts : List M.Hosts.Action) (os : List M.Hosts.Obs) (d : M.Hosts.Direct)
    (h : M.Hosts.runDirect c canon acts = some (os, d)) (i j : Nat) (hij : i < j) (hj : j < d.w.cmds.length) (l : Nat) :
    cmdCnt l (d.w.cmd i) + cmdCnt l (d.w.cmd j) ≤ 1 := by
  have h1 := (channels_unshared_over_runs c hc canon acts os d h).1 l
  have le_sum : ∀ (L : List CmdSt) (j : Nat), cmdCnt l (L[j]?.getD {}) ≤ (L.map (cmdCnt l)).sum := by
    intro L
    induction L with
    | nil => intro j; simp [cmdCnt_default]
    | cons x xs ih =>
      intro j
      cases j with
      | zero => simp
      | succ j =>
        simp only [List.getElem?_cons_succ, List.map_cons, List.sum_cons]
        have := ih j
        omega
  have key : ∀ (L : List CmdSt) (i j : Nat), i < j → j < L.length →
      cmdCnt l (L[i]?.getD {}) + cmdCnt l (L[j]?.getD {}) ≤ (L.map (cmdCnt l)).sum := by
    intro L
    induction L with
    | nil => intro i j _ hj; simp at hj
    | cons x xs ih =>
      intro i j hij hj
      cases j with
      | zero => omega
      | succ j =>
        cases i with
        | zero =>
          simp only [List.getElem?_cons_zero, Option.getD_some, List.getElem?_cons_succ, List.map_cons, List.sum_cons]
          have : cmdCnt l (xs[j]?.getD {}) ≤ (xs.map (cmdCnt l)).sum := by
            have hj' : j < xs.length := by simpa using hj
            exact le_sum xs j
          omega
        | succ i =>
          simp only [List.getElem?_cons_succ, List.map_cons, List.sum_cons]
          have := ih i j (by omega) (by simpa using hj)
          omega
  have := key d.w.cmds i j hij hj
  unfold World.cmd
  omega

/-- non-vacuity for a nested command (kernel-evaluated; `and` / `all` of requests exhaust the kernel's memory on the
    fuel-driven loops and are exercised by the correspondence check instead): a mapped request — the world reached holds
    two commands (the host and the hosted one) and channel 0 is referenced exactly once over both -/
example : ∃ os d, M.Hosts.runDirect (.mapEv 0 (.req 1 (.lit 0) 1)) false [] = some (os, d) ∧
    cmdHF (.mapEv 0 (.req 1 (.lit 0) 1)) = true ∧ (d.w.cmds.map (cmdCnt 0)).sum = 1 ∧ d.w.cmds.length = 2 := by
  refine ⟨_, _, rfl, rfl, ?_, ?_⟩ <;> decide

/-- UNDER THE CORE HOST: for every app whose commands have host-free task bodies (any nesting of combinators) and whose legacy
    capability tasks are host-free, after EVERY history of events, resolutions, drops, aborts and probes, every request
    channel is referenced by AT MOST ONE suspended or queued task — summed over all commands of the world (at any hosting
    depth, slabs and spawn queues), the QueuingExecutor's legacy tasks and its spawn queue — and no task references a
    channel that does not exist. Invariant `CInv` (Lemmas/XFrame, CoreFrame, GCore, GCoreHosts ≈ 900 lines): the executor's
    run_all / run_task, the CommandSpawner loop, `update` + spawn, the event loop, resolve / drop / abort from the shell. -/
theorem channels_unshared_under_core (prog : M.Hosts.Prog) (hp : progHF prog) (canon : Bool) (acts : List M.Hosts.Action)
    (os : List M.Hosts.Obs) (h : M.Hosts.CoreHost) (hr : M.Hosts.runCore prog canon acts = some (os, h)) (l : Nat) :
    (h.k.w.cmds.map (cmdCnt l)).sum + ecnt l h.k.execTasks.values + ecnt l h.k.w.execSpawn
      ≤ (if l < h.k.w.leaves.length then 1 else 0) := by
  have := (M.Hosts.runCore_c prog hp canon acts os h hr).bound l
  unfold E bnd G at this
  omega

/-- non-vacuity: an app satisfying `progHF` with a nested command and a legacy task -/
example : progHF [(1, .andC (.req 1 (.lit 0) 1) (.mapEv 0 (.req 2 (.lit 0) 2)), [[.req 1 3 (.lit 0)]])] := by
  intro p hp
  simp only [List.mem_singleton] at hp
  subst hp
  exact ⟨rfl, by intro is his; simp only [List.mem_singleton] at his; subst his; rfl⟩

/-! Not proved here: the same invariant for the Bridge host (the bridge's registry around the same Core); covered by the
    correspondence check (unique payloads, look-alike operations). -/

example : (resolveReq (.once 0) 5 { leaves := [{}] }).2.1 = .ok := by decide
example : (resolveReq (.many 0) 5 { leaves := [{ receiverAlive := false }] }).2.1 = .finished := by decide

end Props.C02
