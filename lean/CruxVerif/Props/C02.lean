/-
C02 — a response reaches exactly the task that asked, with the declared arity.
Model: core/resolve.rs (`resolveReq`), context.rs request channels (leaves), request_serde.rs (`M.Bridge.resume`).
-/
import CruxVerif.Lemmas.Resolve
import CruxVerif.Lemmas.Bridge
namespace Props.C02
open M.Rt

/-- a notification accepts no resolution, and nothing happens -/
theorem never_rejected (v : Val) (w : World) : resolveReq .never v w = (.never, .never, w) := resolve_never v w

/-- a one-shot request accepts one resolution and is `Never` afterwards -/
theorem once_accepts_one (l : Nat) (v : Val) (w : World) :
    (resolveReq (.once l) v w).1 = .never ∧ (resolveReq (.once l) v w).2.1 = .ok := resolve_once_consumes l v w

/-- a second resolution is rejected with an error and has no effect -/
theorem once_second_rejected (l : Nat) (v v' : Val) (w : World) :
    let (r, _, w1) := resolveReq (.once l) v w
    resolveReq r v' w1 = (.never, .never, w1) := resolve_once_second_rejected l v v' w

/-- a stream request accepts a resolution iff its consumer still exists; a rejected one delivers nothing -/
theorem many_until_consumer_gone (l : Nat) (v : Val) (w : World) :
    ((resolveReq (.many l) v w).2.1 = .ok ↔ (w.leaf l).receiverAlive = true) ∧
    ((w.leaf l).receiverAlive = false → resolveReq (.many l) v w = (.many l, .finished, w)) := resolve_many_iff l v w

/-- an accepted resolution appends exactly the value, unchanged, to the issuing request's own channel (in order) -/
theorem delivered_unchanged_in_order (l : Nat) (v : Val) (w : World) (hl : l < w.leaves.length)
    (h : (w.leaf l).receiverAlive = true) :
    ((resolveReq (.many l) v w).2.2.leaf l).queue = (w.leaf l).queue ++ [v] ∧
    ((resolveReq (.once l) v w).2.2.leaf l).queue = (w.leaf l).queue ++ [v] :=
  ⟨(resolve_many_appends l v w hl h).2, resolve_once_delivers l v w hl h⟩

/-- each request owns a private channel: the leaf allocated for a new request differs from every existing leaf, and
    existing leaves are untouched by the allocation -/
theorem delivery_channel_private (w : World) (wk : Option Waker) (legacy : Bool) :
    (w.newLeaf wk legacy).1 = w.leaves.length ∧ (w.newLeaf wk legacy).2.leaves.length = w.leaves.length + 1 ∧
    ∀ l, l < w.leaves.length → (w.newLeaf wk legacy).2.leaves[l]? = w.leaves[l]? := newLeaf_fresh w wk legacy

/-- the serialized path resolves exactly the stored resolve with the decoded value -/
theorem serialized_agrees (reg : M.Slab Resolve) (id : Nat) (v : Val) (w : World) (r : Resolve)
    (hg : reg.get? id = some r) :
    (M.Bridge.resume reg id (some v) w).2.2 = (resolveReq r v w).2.2 ∧
    ((M.Bridge.resume reg id (some v) w).1 = .ok ↔ (resolveReq r v w).2.1 = .ok) :=
  M.Bridge.resume_exact reg id v w r hg

/-! Not proved here: over whole runs, that the values received by the task that issued request `r` are exactly those
    resolved on `r` and no other task receives them. That is the global invariant "leaf ids held by live blocks are
    pairwise distinct", of which `delivery_channel_private` is the allocation step; it is covered by the correspondence
    check (unique payloads, look-alike operations) and listed under `stated_not_proved` in the evidence. -/

example : (resolveReq (.once 0) 5 { leaves := [{}] }).2.1 = .ok := by decide
example : (resolveReq (.many 0) 5 { leaves := [{ receiverAlive := false }] }).2.1 = .finished := by decide

end Props.C02
