/-
C16 — HTTP middleware wraps requests in order; redirects are bounded and exact.

All theorems are about the model M.Mw of crux_http's `Next::run`, `Client::send`, `Redirect::handle` and the
three sending APIs, for every stack (any length, any mix of kinds), every server (an arbitrary function of
the URL — any redirect graph), arbitrary `parse`/`join`, every attempt limit and every request.

Two clauses of the property do not hold for the code as it is (model parameter `fixed = false`, API `cmd`):

  * `redirect_relative`  — relative Locations are joined to the last *absolute* URL, not the current one
                            (redirect.rs:111-122; key `redirect-relative-base`). Full statement
                            `redirect_relative fixed`; refuted for `false` (`redirect_relative_false`), proved for
                            every world without a relative hop after a relative hop (`redirect_relative_partial`),
                            and proved in full for the repaired loop (`redirect_relative_fixed`).
  * `mw_all_apis`        — the command API never runs per-request middleware (command.rs:583-609; key
                            `command-api-ignores-middleware`). Refuted (`mw_all_apis_false`), proved for the two
                            capability APIs and for the empty stack (`mw_all_apis_partial`).

`C16_full` is soundness of the model against the specification oracle S.Mw.ok; it is refuted for both values of
`fixed` (`C16_full_false`, by the command API), proved as `C16_partial` (code as it is) and `C16_fixed`
(after the repair of redirect.rs). Only property statements live here; lemmas are in Lemmas/Mw.lean.
-/
import CruxVerif.Lemmas.Mw
namespace Props.C16
open M.Mw S.Mw

/-! ## order -/

/-- Pass-through client middleware `c₁…cₙ` and request middleware `r₁…rₘ`:
    `enter c₁ … enter cₙ enter r₁ … enter rₘ  SHELL  exit rₘ … exit r₁ exit cₙ … exit c₁`,
    the shell sees the request unchanged and its answer comes back unchanged. -/
theorem mw_order (w : World) (fixed : Bool) (cs rs : List Nat) (req : Req) :
    send w fixed (cs.map .pass) (rs.map .pass) req =
      (cs.map .enter ++ rs.map .enter ++ [.shell req] ++ rs.reverse.map .exit ++ cs.reverse.map .exit,
        w.srv req.url) := by
  have hpt : ∀ m ∈ cs.map Mw.pass ++ rs.map Mw.pass, passThrough m = true := by
    intro m hm
    simp only [List.mem_append, List.mem_map] at hm
    rcases hm with ⟨k, _, rfl⟩ | ⟨k, _, rfl⟩ <;> rfl
  have hfold : ∀ (l : List Nat) (r : Req), (l.map Mw.pass).foldl (fun r m => onReq m r) r = r := by
    intro l
    induction l with
    | nil => intro r; rfl
    | cons k l ih => intro r; simpa [onReq] using ih r
  rw [send, L.Mw.run_passThrough w fixed _ req hpt, ← List.map_append, hfold]
  simp [ident, List.map_reverse, Function.comp_def]

/-- The same for any pass-through stack (also middleware that changes the request on the way in):
    every middleware sees what the ones before it made of the request; the shell sees the result. -/
theorem mw_order_passThrough (w : World) (fixed : Bool) (client reqMw : List Mw) (req : Req)
    (h : ∀ m ∈ client ++ reqMw, passThrough m = true) :
    send w fixed client reqMw req =
      ((client ++ reqMw).map (fun m => Ev.enter (ident m)) ++
        [.shell ((client ++ reqMw).foldl (fun r m => onReq m r) req)] ++
        (client ++ reqMw).reverse.map (fun m => Ev.exit (ident m)), w.srv req.url) :=
  L.Mw.run_passThrough w fixed _ req h

/-! ## the shell is reached exactly once per invocation of the rest of the chain -/

/-- `next.run` on an empty remainder: exactly one request reaches the shell — the one passed in, body included —
    and the shell's answer is the result. -/
theorem endpoint_once (w : World) (fixed : Bool) (req : Req) :
    run w fixed [] req = ([.shell req], w.srv req.url) := rfl

/-- A request sent through the client a middleware is handed (`client.get(u).await`, the probes of Redirect) goes
    straight to the shell, once: that client's stack is empty (client.rs:126-132). -/
theorem endpoint_once_inner_client (w : World) (fixed : Bool) (u : Url) :
    issued w fixed u none = ([.shell (getReq u)], w.srv u) ∧ send w fixed [] [] (getReq u) = issued w fixed u none :=
  ⟨rfl, rfl⟩

/-- A pass-through stack reaches the shell exactly once. -/
theorem endpoint_once_passThrough (w : World) (fixed : Bool) (st : List Mw) (req : Req)
    (h : ∀ m ∈ st, passThrough m = true) : shells (run w fixed st req).1 = 1 := by
  rw [L.Mw.run_passThrough w fixed st req h]
  exact L.Mw.shells_passThrough_trace st _

/-- Any stack of middleware that send nothing themselves reaches the shell once per invocation of `next.run`
    all the way down: `mult` = 1, doubled by every `twice`, 0 below a short-circuit. -/
theorem endpoint_count (w : World) (fixed : Bool) (st : List Mw) (req : Req)
    (h : ∀ m ∈ st, isLocal m = true) : shells (run w fixed st req).1 = mult st :=
  L.Mw.shells_local w fixed st req h

/-- Below a short-circuit nothing runs: whatever follows it in the stack — of any kind — is unobservable,
    whatever precedes it. -/
theorem endpoint_zero_below_short (w : World) (fixed : Bool) (pre : List Mw) (k s : Nat) (rest : List Mw) (req : Req) :
    run w fixed (pre ++ .short k s :: rest) req = run w fixed (pre ++ [.short k s]) req ∧
    run w fixed (.short k s :: rest) req = ([.enter k], .ok ⟨s, [], [k]⟩) :=
  ⟨L.Mw.run_cut_short w fixed pre k s rest req, rfl⟩

theorem endpoint_zero_below_fail (w : World) (fixed : Bool) (pre : List Mw) (k : Nat) (rest : List Mw) (req : Req) :
    run w fixed (pre ++ .fail k :: rest) req = run w fixed (pre ++ [.fail k]) req ∧
    shells (run w fixed (.fail k :: rest) req).1 = 0 :=
  ⟨L.Mw.run_cut_fail w fixed pre k rest req, rfl⟩

/-! ## the redirect middleware -/

/-- At most `attempts` probes, each a body-less copy of the request (same method and headers). -/
theorem redirect_bounded (w : World) (fixed : Bool) (attempts : Nat) (req : Req) :
    (redirectLoop w fixed attempts req req.url).1.length ≤ attempts ∧
    ∀ e ∈ (redirectLoop w fixed attempts req req.url).1, IsProbeOf req e :=
  ⟨L.Mw.loop_length w fixed attempts req req.url,
   (L.Mw.loop_probes w fixed attempts req req req.url ⟨rfl, rfl, rfl⟩).1⟩

/-- No probe after the first answer that is not one of the five redirect statuses (or is an error). -/
theorem redirect_stops (w : World) (fixed : Bool) (attempts : Nat) (req : Req) (pre : Trace) (p : Req) (post : Trace)
    (h : (redirectLoop w fixed attempts req req.url).1 = pre ++ .shell p :: post)
    (hp : ¬ redirecting w p.url) : post = [] :=
  L.Mw.loop_stops w fixed attempts req req.url pre p post h hp

/-- After the probes the rest of the chain runs exactly once, on the original request — method, headers and
    body — with only the URL replaced; if the loop failed nothing more is sent. With nothing below Redirect:
    exactly one non-probe request. -/
theorem redirect_final (w : World) (fixed : Bool) (attempts : Nat) (rest : List Mw) (req : Req) :
    (∀ r, (redirectLoop w fixed attempts req req.url).2 = .ok r →
      SameButUrl r req ∧
      run w fixed (.redirect attempts :: rest) req =
        ((redirectLoop w fixed attempts req req.url).1 ++ (run w fixed rest r).1, (run w fixed rest r).2) ∧
      run w fixed [.redirect attempts] req =
        ((redirectLoop w fixed attempts req req.url).1 ++ [.shell r], w.srv r.url)) ∧
    (∀ e, (redirectLoop w fixed attempts req req.url).2 = .err e →
      run w fixed (.redirect attempts :: rest) req = ((redirectLoop w fixed attempts req req.url).1, .err e)) := by
  refine ⟨fun r hr => ⟨?_, ?_, ?_⟩, fun e he => ?_⟩
  · exact (L.Mw.loop_probes w fixed attempts req req req.url ⟨rfl, rfl, rfl⟩).2 r hr
  · simp only [run]
    cases hl : redirectLoop w fixed attempts req req.url with
    | mk t res => rw [hl] at hr; simp only at hr; subst hr; rfl
  · simp only [run]
    cases hl : redirectLoop w fixed attempts req req.url with
    | mk t res => rw [hl] at hr; simp only at hr; subst hr; rfl
  · simp only [run]
    cases hl : redirectLoop w fixed attempts req req.url with
    | mk t res => rw [hl] at he; simp only at he; subst he; rfl

/-- … and the URL of that request is the last one the documented walk computes (for the repaired loop;
    for the code as it is see `redirect_relative_partial`). -/
theorem redirect_final_url (w : World) (attempts : Nat) (req : Req) (r : Req)
    (h : (redirectLoop w true attempts req req.url).2 = .ok r) :
    (walk w attempts req.url).2 = .final r.url := by
  rw [L.Mw.loop_fixed_walk] at h
  simp only at h
  cases hw : (walk w attempts req.url).2 with
  | final u => rw [hw] at h; simp only [LoopRes.ok.injEq] at h; rw [← h]
  | fail e => rw [hw] at h; simp at h

/-- Full statement: the probes and the final URL are those of the walk in which every Location is resolved
    against the URL it was served from. -/
def redirect_relative (fixed : Bool) : Prop :=
  ∀ (w : World) (attempts : Nat) (req : Req),
    redirectLoop w fixed attempts req req.url =
      ((walk w attempts req.url).1.map (probe req),
        match (walk w attempts req.url).2 with
        | .final u => .ok { req with url := u }
        | .fail e => .err e)

/-- holds for redirect.rs with `base_url` assigned the joined URL -/
theorem redirect_relative_fixed : redirect_relative true :=
  fun w a req => L.Mw.loop_fixed_walk w a req

/-- witness: `/x/y` —"z/"→ `/x/z/` —"w"→ should end at `/x/z/w`; the code goes to `/x/w` -/
def witnessWorld : World where
  srv u :=
    if u = "http://a.test/x/y" then .ok ⟨302, ["z/"], []⟩
    else if u = "http://a.test/x/z/" then .ok ⟨302, ["w"], []⟩
    else .ok ⟨200, [], []⟩
  parse _ := some .rel
  join b l :=
    if b = "http://a.test/x/y" ∧ l = "z/" then some (.ok "http://a.test/x/z/")
    else if b = "http://a.test/x/z/" ∧ l = "w" then some (.ok "http://a.test/x/z/w")
    else if b = "http://a.test/x/y" ∧ l = "w" then some (.ok "http://a.test/x/w")
    else none

def witnessReq : Req := ⟨"POST", "http://a.test/x/y", [], [1, 2]⟩

/-- does not hold for redirect.rs as it is -/
theorem redirect_relative_false : ¬ redirect_relative false :=
  fun h => absurd (h witnessWorld 3 witnessReq) (by decide)

/-- holds for redirect.rs as it is on every server that never answers a relative Location at a URL that was
    itself reached through a relative Location -/
theorem redirect_relative_partial (w : World) (hw : NoRelAfterRel w) (attempts : Nat) (req : Req) :
    redirectLoop w false attempts req req.url =
      ((walk w attempts req.url).1.map (probe req),
        match (walk w attempts req.url).2 with
        | .final u => .ok { req with url := u }
        | .fail e => .err e) := by
  rw [L.Mw.loop_unfixed_eq w hw attempts req req.url (Or.inl rfl)]
  exact L.Mw.loop_fixed_walk w attempts req

/-! ## every API -/

/-- Full statement: through every API the marks log and the shell see what `Client::send` with the request's
    stack produces. -/
def mw_all_apis (fixed : Bool) : Prop :=
  ∀ (w : World) (api : Api) (stack : List Mw) (req : Req),
    (runCase w fixed api [] stack req).1 = (send w fixed [] stack req).1

/-- refuted by the command API with one pass-through middleware: no mark is ever recorded -/
theorem mw_all_apis_false (fixed : Bool) : ¬ mw_all_apis fixed :=
  fun h => absurd (h witnessWorld .cmd [.pass 1] witnessReq) (by cases fixed <;> decide)

/-- holds for both capability APIs, and for the command API when there is no middleware -/
theorem mw_all_apis_partial (w : World) (fixed : Bool) (api : Api) (stack : List Mw) (req : Req)
    (h : api ≠ .cmd ∨ stack = []) :
    (runCase w fixed api [] stack req).1 = (send w fixed [] stack req).1 ∧
    (api = .cmd → runCase w fixed api [] stack req = runCase w fixed .send [] stack req) := by
  cases api with
  | send => exact ⟨rfl, fun h => by cases h⟩
  | async => exact ⟨rfl, fun h => by cases h⟩
  | cmd =>
    rcases h with h | h
    · exact absurd rfl h
    · subst h; exact ⟨rfl, fun _ => rfl⟩

/-! ## soundness against the specification oracle -/

/-- Full statement of C16 on the model: the specification accepts every observation the model produces. -/
def C16_full (fixed : Bool) : Prop :=
  ∀ (w : World) (api : Api) (client stack : List Mw) (req : Req),
    S.Mw.ok w api client stack req (runCase w fixed api client stack req) = true

/-- refuted, with or without the repair of redirect.rs, by the command API -/
theorem C16_full_false (fixed : Bool) : ¬ C16_full fixed :=
  fun h => absurd (h witnessWorld .cmd [] [.pass 1] witnessReq) (by cases fixed <;> decide)

/-- refuted for the code as it is also through the capability API, by the relative-redirect witness -/
theorem C16_full_false_redirect :
    ¬ ∀ (w : World) (client stack : List Mw) (req : Req),
      S.Mw.ok w .send client stack req (runCase w false .send client stack req) = true :=
  fun h => absurd (h witnessWorld [] [.redirect 3] witnessReq) (by decide)

/-- After the repair of redirect.rs: sound for every stack, server, limit and request through the capability
    APIs, and through the command API without middleware. -/
theorem C16_fixed (w : World) (api : Api) (client stack : List Mw) (req : Req)
    (h : api ≠ .cmd ∨ (client = [] ∧ stack = [])) :
    S.Mw.ok w api client stack req (runCase w true api client stack req) = true := by
  simp only [S.Mw.ok, beq_iff_eq]
  cases api with
  | send => simp [runCase, expected, L.Mw.send_fixed_chain]
  | async => simp [runCase, expected, L.Mw.send_fixed_chain]
  | cmd =>
    rcases h with h | ⟨rfl, rfl⟩
    · exact absurd rfl h
    · rfl

/-- The code as it is: sound under the same restriction on the API and on servers without a relative hop after
    a relative hop. -/
theorem C16_partial (w : World) (hw : NoRelAfterRel w) (api : Api) (client stack : List Mw) (req : Req)
    (h : api ≠ .cmd ∨ (client = [] ∧ stack = [])) :
    S.Mw.ok w api client stack req (runCase w false api client stack req) = true := by
  have : runCase w false api client stack req = runCase w true api client stack req := by
    cases api <;> simp [runCase, send, L.Mw.run_unfixed_eq w hw]
  rw [this]
  exact C16_fixed w api client stack req h

/-! ## non-vacuity (tests by evaluation) -/

/-- a world with a relative hop that satisfies the hypothesis of the partial theorems -/
def oneRelWorld : World where
  srv u := if u = "http://a.test/x/y" then .ok ⟨307, ["z/"], []⟩ else .ok ⟨200, [], []⟩
  parse _ := some .rel
  join b l := if b = "http://a.test/x/y" ∧ l = "z/" then some (.ok "http://a.test/x/z/") else none

example : NoRelAfterRel oneRelWorld := by
  intro b loc u hj res hs hr
  simp only [oneRelWorld] at hj hs
  split at hj
  · simp only [Option.some.injEq, JRes.ok.injEq] at hj
    subst hj
    simp at hs
    subst hs
    simp [isRedirect] at hr
  · simp at hj

-- the relative hop is followed, one probe, then the request with its body
example : run oneRelWorld false [.redirect 3] witnessReq =
    ([.shell ⟨"POST", "http://a.test/x/y", [], []⟩, .shell ⟨"POST", "http://a.test/x/z/", [], []⟩,
      .shell ⟨"POST", "http://a.test/x/z/", [], [1, 2]⟩], .ok ⟨200, [], []⟩) := by decide
-- the defect, and the repaired loop, on the witness
example : (redirectLoop witnessWorld false 3 witnessReq witnessReq.url).2 =
    .ok { witnessReq with url := "http://a.test/x/w" } := by decide
example : (redirectLoop witnessWorld true 3 witnessReq witnessReq.url).2 =
    .ok { witnessReq with url := "http://a.test/x/z/w" } := by decide
-- attempts = 1 stops after one probe although the answer was a redirect
example : (redirectLoop witnessWorld false 1 witnessReq witnessReq.url).1.length = 1 := by decide
-- the oracle rejects what the code does, and names the clause
example : S.Mw.rejectKey witnessWorld [("http://a.test/x/y", "w"), ("http://a.test/x/z/", "w")] .send [] [.redirect 3]
    witnessReq (runCase witnessWorld false .send [] [.redirect 3] witnessReq) = "redirect-relative-base" := by decide
example : S.Mw.rejectKey witnessWorld [] .cmd [] [.pass 1] witnessReq
    (runCase witnessWorld false .cmd [] [.pass 1] witnessReq) = "command-api-ignores-middleware" := by decide
-- a stack mixing all kinds: order of marks and requests
example : (run witnessWorld true [.pass 1, .twice 2, .tag 3] ⟨"GET", "u", [], [7]⟩).1 =
    [.enter 1, .enter 2, .enter 3, .shell ⟨"GET", "u", [("x-mw", "3")], []⟩, .exit 3, .mid 2,
     .enter 3, .shell ⟨"GET", "u", [("x-mw", "3")], [7]⟩, .exit 3, .exit 2, .exit 1] := by decide

end Props.C16
