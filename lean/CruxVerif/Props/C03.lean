/-
C03 — events are applied one at a time, exactly once, in emission order.
Model: `M.Rt.processLoop` / `update` (core/mod.rs:127-143), `sinkEvent` (FIFO channels).
Non-re-entrancy is structural in the model (`update` is a pure function that cannot call `process`); on the
implementation it is monitored by a re-entrancy flag in the harness app (oracle key `reentrant-update`).
-/
import CruxVerif.Lemmas.RtCore
namespace Props.C03
open M.Rt

/-- `update` applies exactly one event: the log grows by that event and nothing else of it changes -/
theorem update_applies_one (ev : Ev) (k : Core) : (update ev k).log = k.log ++ [ev] := update_log ev k

/-- running tasks never touches the app's model: only `update` does -/
theorem tasks_do_not_touch_model (f : Nat) (k k' : Core) (h : runAll f k = some k') : k'.log = k.log :=
  (runAll_log f k k' h).1

/-- the event loop only appends to the log (nothing already applied is lost, duplicated or reordered) and the event at
    the head of the channel is the next one applied (FIFO, one at a time) -/
theorem events_fifo_once (f : Nat) (k k' : Core) (h : processLoop f k = some k') :
    ∃ evs, k'.log = k.log ++ evs ∧ (∀ ev rest, k.w.coreEvents = ev :: rest → ∃ evs', evs = ev :: evs') :=
  processLoop_log f k k' h

/-- emission is FIFO: an emitted event goes to the back of its channel -/
theorem emission_fifo (w : World) (ev : Ev) (cid : Nat) :
    (w.sinkEvent .core ev).coreEvents = w.coreEvents ++ [ev] ∧
    (cid < w.cmds.length → ((w.sinkEvent (.cmd cid) ev).cmd cid).events = (w.cmd cid).events ++ [ev]) := by
  refine ⟨rfl, ?_⟩
  intro h
  simp only [World.sinkEvent, World.pushEvent]
  rw [World.cmd_modCmd_self]
  have : w.cmds[cid]? = some w.cmds[cid] := by simp [h]
  simp [this, World.cmd]

/-- when the call returns, every emitted event has been applied (the view read afterwards reflects all of them) -/
theorem all_applied_at_return (k k' : Core) (effs : List Eff) (h : process k = some (effs, k')) :
    k'.w.coreEvents = [] := (process_post k k' effs h).2.1

end Props.C03
