/-
C03 — events are applied one at a time, exactly once, in emission order.
Model: `M.Rt.processLoop` / `update` (core/mod.rs:127-143), `sinkEvent` (FIFO channels).
Non-re-entrancy is structural in the model (`update` is a pure function that cannot call `process`); on the
implementation it is monitored by a re-entrancy flag in the harness app (oracle key `reentrant-update`).
-/
import CruxVerif.Lemmas.RtCore
import CruxVerif.Lemmas.EvOrder
namespace Props.C03
open M.Rt

/-- `update` applies exactly one event: the log grows by that event and nothing else of it changes -/
theorem update_applies_one (ev : Ev) (k : Core) : (update ev k).log = k.log ++ [ev] := update_log ev k

/-- running tasks never touches the app's model: only `update` does -/
theorem tasks_do_not_touch_model (f : Nat) (k k' : Core) (h : runAll f k = some k') : k'.log = k.log :=
  (runAll_log f k k' h).1

/-- the event loop only appends to the log (nothing already applied is lost, duplicated or reordered) and the event at
    the head of the channel is the next one applied (FIFO, one at a time) -/
theorem events_fifo_once (f : Nat) (k k' : Core) (h : processLoop f k = some k') :
    ∃ evs, k'.log = k.log ++ evs ∧ (∀ ev rest, k.w.coreEvents = ev :: rest → ∃ evs', evs = ev :: evs') :=
  processLoop_log f k k' h

/-- emission is FIFO: an emitted event goes to the back of its channel -/
theorem emission_fifo (w : World) (ev : Ev) (cid : Nat) :
    (w.sinkEvent .core ev).coreEvents = w.coreEvents ++ [ev] ∧
    (cid < w.cmds.length → ((w.sinkEvent (.cmd cid) ev).cmd cid).events = (w.cmd cid).events ++ [ev]) := by
  refine ⟨rfl, ?_⟩
  intro h
  simp only [World.sinkEvent, World.pushEvent]
  rw [World.cmd_modCmd_self]
  have : w.cmds[cid]? = some w.cmds[cid] := by simp [h]
  simp [this, World.cmd]

/-- when the call returns, every emitted event has been applied (the view read afterwards reflects all of them) -/
theorem all_applied_at_return (k k' : Core) (effs : List Eff) (h : process k = some (effs, k')) :
    k'.w.coreEvents = [] := (process_post k k' effs h).2.1

/-- **EVENTS ARE APPLIED IN THE ORDER IN WHICH THEY WERE ENQUEUED, EACH EXACTLY ONCE — through a whole call.** The history
    `HQ k = k.log ++ k.w.coreEvents` (what `update` has applied, followed by what waits in the event channel) only ever grows
    at its END during `Core::process`: `update` moves the head of the channel to the end of the log, which leaves the history
    unchanged, and every emission — by the CommandSpawner forwarding a command's events, by a legacy capability task at any
    point of its poll — appends to the channel. Nothing applied or waiting is ever lost, duplicated or reordered, for EVERY
    app, world and fuel (frame `CEA` over one poll of ANY legacy block by a single `grind` call; commands never touch the
    channel: `command_never_writes_core_queues`; Lemmas/EvOrder.lean). -/
theorem history_append_only (k : Core) (es : List Eff) (k' : Core) (h : process k = some (es, k')) :
    ∃ s, k'.log ++ k'.w.coreEvents = k.log ++ k.w.coreEvents ++ s :=
  process_ha k es k' h

/-- … so when the call returns the log is the old log, then everything that was waiting, in channel order, then the events
    enqueued during the call, in the order in which they were enqueued -/
theorem waiting_events_applied_first_in_order (k : Core) (es : List Eff) (k' : Core) (h : process k = some (es, k')) :
    k'.w.coreEvents = [] ∧ ∃ s, k'.log = k.log ++ k.w.coreEvents ++ s :=
  M.Hosts.process_log_ext k es k' h

/-- the shell's own event is applied first in its call (between calls the channel is empty: `channel_empty_between_calls`) -/
theorem shell_event_applied_first (ev : Ev) (k : Core) (es : List Eff) (k' : Core) (h : processEvent ev k = some (es, k'))
    (h0 : k.w.coreEvents = []) : k'.w.coreEvents = [] ∧ ∃ s, k'.log = k.log ++ ev :: s :=
  M.Hosts.processEvent_log_ext ev k es k' h h0

/-- OVER WHOLE RUNS of a Core running ANY app: between calls the event channel is empty (every emitted event has been
    applied — the view read after a call reflects all of them), and a further call only EXTENDS the log: what has been
    applied is never revised -/
theorem channel_empty_between_calls (prog : M.Hosts.Prog) (canon : Bool) (acts : List M.Hosts.Action)
    (os : List M.Hosts.Obs) (h : M.Hosts.CoreHost) (hr : M.Hosts.runCore prog canon acts = some (os, h)) :
    h.k.w.coreEvents = [] :=
  M.Hosts.runCore_channel_empty prog canon acts os h hr

theorem applied_events_never_revised (prog : M.Hosts.Prog) (canon : Bool) (acts : List M.Hosts.Action)
    (os : List M.Hosts.Obs) (h : M.Hosts.CoreHost) (hr : M.Hosts.runCore prog canon acts = some (os, h))
    (a : M.Hosts.Action) (o : M.Hosts.Obs) (h' : M.Hosts.CoreHost) (hs : h.step a = some (o, h')) :
    ∃ s, h'.k.log = h.k.log ++ s :=
  (M.Hosts.CoreHost.step_log h a o h' hs (M.Hosts.runCore_channel_empty prog canon acts os h hr)).2

end Props.C03
