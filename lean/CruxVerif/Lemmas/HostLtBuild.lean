/- Building commands establishes the index order of the hosting forest; the shell's operations keep it. -/
import CruxVerif.Lemmas.HostLtExec
namespace M.Rt

-- the user-written task bodies of a command host nothing (only the combinators create hosting tasks)
mutual
def cmdHF : Cmd → Bool
  | .task is => hostFreeIs is
  | .thenC a b => cmdHF a && cmdHF b
  | .andC a b => cmdHF a && cmdHF b
  | .all cs => cmdsHF cs
  | .mapEf _ c => cmdHF c
  | .mapEv _ c => cmdHF c
  | .abortable _ c => cmdHF c
  | _ => true
def cmdsHF : List Cmd → Bool
  | [] => true
  | c :: cs => cmdHF c && cmdsHF cs
end

theorem chainInstrs_free (tag : Nat) : ∀ (stages : List Stage) (x : Nat) (cur : Expr), hostFreeIs (chainInstrs tag x cur stages) = true
  | [], x, cur => by simp [chainInstrs, hostFreeIs, hostFreeI]
  | .map k :: ss, x, cur => by simp only [chainInstrs]; exact chainInstrs_free tag ss x _
  | .thenReq n :: ss, x, cur => by
    simp only [chainInstrs, hostFreeIs, hostFreeI, Bool.true_and]; exact chainInstrs_free tag ss _ _
  | .thenStream n :: ss, x, cur => by
    simp only [chainInstrs, hostFreeIs, hostFreeI, Bool.and_true]; exact chainInstrs_free tag ss _ _

theorem chainStart_free (isStream : Bool) (n : Nat) (e : Expr) (stages : List Stage) (tag : Nat) :
    hostFreeIs (chainStart isStream n e stages tag) = true := by
  unfold chainStart
  split
  · simp only [hostFreeIs, hostFreeI, Bool.and_true]; exact chainInstrs_free tag stages _ _
  · simp only [hostFreeIs, hostFreeI, Bool.true_and]; exact chainInstrs_free tag stages _ _

/-- what building a command guarantees -/
structure Built (w : World) (cid : Nat) (w' : World) : Prop where
  hl : HL w'
  lo : w.cmds.length ≤ cid
  hi : cid < w'.cmds.length
  len : w.cmds.length ≤ w'.cmds.length

theorem cmd_append_lt (cs : List CmdSt) (x : CmdSt) (q : Nat) (h : q < cs.length) : (cs ++ [x])[q]?.getD {} = cs[q]?.getD {} := by
  rw [List.getElem?_append_left h]

theorem newCmd_built (env : Env) (is : List Instr) (w : World) (hw : HL w) (his : hostsLtIs w.cmds.length is = true) :
    Built w (newCmd env is w).1 (newCmd env is w).2 := by
  unfold newCmd
  simp only
  refine ⟨?_, Nat.le_refl _, by simp [World.newMeta], by simp [World.newMeta]⟩
  have hcmd : ∀ q, q < w.cmds.length → ({ w.newMeta.2 with cmds := w.newMeta.2.cmds ++
      [{ tasks := ((Slab.empty : Slab Task).insert ⟨w.newMeta.1, .mk env .idle is⟩).2, ready := [0], abortFlag := w.newMeta.1 }] } : World).cmd q
      = w.cmd q := by
    intro q hq
    simp only [World.cmd, World.newMeta]
    exact cmd_append_lt _ _ q hq
  refine ⟨?_, ?_⟩
  · intro q t ht
    rcases Nat.lt_trichotomy q w.cmds.length with hq | hq | hq
    · rw [hcmd q hq] at ht; exact hw.tasks q t ht
    · subst hq
      simp [World.cmd, World.newMeta, Slab.insert, Slab.empty, Slab.values] at ht
      subst ht
      simp [hostsLtB, hostsLtP, his]
    · have : ({ w.newMeta.2 with cmds := w.newMeta.2.cmds ++
          [{ tasks := ((Slab.empty : Slab Task).insert ⟨w.newMeta.1, .mk env .idle is⟩).2, ready := [0], abortFlag := w.newMeta.1 }] } : World).cmds[q]? = none := by
        apply List.getElem?_eq_none; simp [World.newMeta]; omega
      simp [World.cmd, this, Slab.values] at ht
  · intro q t ht
    rcases Nat.lt_trichotomy q w.cmds.length with hq | hq | hq
    · rw [hcmd q hq] at ht; exact hw.spawn q t ht
    · subst hq
      simp [World.cmd, World.newMeta] at ht
    · have : ({ w.newMeta.2 with cmds := w.newMeta.2.cmds ++
          [{ tasks := ((Slab.empty : Slab Task).insert ⟨w.newMeta.1, .mk env .idle is⟩).2, ready := [0], abortFlag := w.newMeta.1 }] } : World).cmds[q]? = none := by
        apply List.getElem?_eq_none; simp [World.newMeta]; omega
      simp [World.cmd, this] at ht

theorem spawnOn_hl (cid : Nat) (env : Env) (is : List Instr) (w : World) (hw : HL w) (his : hostsLtIs cid is = true) :
    HL (spawnOn cid env is w) ∧ (spawnOn cid env is w).cmds.length = w.cmds.length := by
  unfold spawnOn
  simp only
  refine ⟨?_, by simp [World.modCmd, World.newMeta, modifyNth_length]⟩
  have f0 : TK0 w w.newMeta.2 := tk_of_cmds rfl
  refine (hw.tk0 f0).modCmd_gen cid _ ?_ ?_
  · intro x t ht; exact Or.inl ht
  · intro x t ht
    simp only [List.mem_append, List.mem_singleton] at ht
    rcases ht with ht | rfl
    · exact Or.inl ht
    · exact Or.inr (by simp [hostsLtB, hostsLtP, his])

theorem newCmd_free_built (env : Env) (is : List Instr) (w : World) (hw : HL w) (his : hostFreeIs is = true) :
    Built w (newCmd env is w).1 (newCmd env is w).2 :=
  newCmd_built env is w hw (hostsLtIs_of_free _ is his)

theorem Built.trans_len {w w1 : World} {c : Nat} {w2 : World} (h : w.cmds.length ≤ w1.cmds.length) (b : Built w1 c w2) :
    w.cmds.length ≤ w2.cmds.length := Nat.le_trans h b.len

/-- `all`: every child is hosted by a task spawned on the new command, whose index is above all of them -/
theorem spawn_children_hl (c0 : Nat) (env : Env) : ∀ (l : List Nat) (W : World), HL W → (∀ ci ∈ l, ci < c0) →
    HL (l.foldl (fun w ci => spawnOn c0 env [.host ci .id] w) W) ∧
    (l.foldl (fun w ci => spawnOn c0 env [.host ci .id] w) W).cmds.length = W.cmds.length
  | [], W, hW, _ => ⟨hW, rfl⟩
  | x :: l, W, hW, hl => by
    simp only [List.foldl_cons]
    have s1 := spawnOn_hl c0 env [.host x .id] W hW (by
      simp only [hostsLtIs, hostsLtI, Bool.and_true, decide_eq_true_eq]; exact hl x (by simp))
    have := spawn_children_hl c0 env l _ s1.1 (fun y hy => hl y (by simp [hy]))
    exact ⟨this.1, this.2.trans s1.2⟩

/-- `and`: the (already built, lower) command `cb` is hosted by a task spawned on `ca`; abort handles are only re-ordered -/
theorem built_and (w w2 : World) (ca cb : Nat) (env : Env) (l : List (Nat × Nat)) (hl2 : HL w2) (hcb : cb < ca)
    (hlo : w.cmds.length ≤ ca) (hhi : ca < w2.cmds.length) (hlen : w.cmds.length ≤ w2.cmds.length) :
    Built w ca (spawnOn ca env [.host cb .id] ({ w2 with aborts := l } : World)) := by
  have f0 : TK0 w2 ({ w2 with aborts := l } : World) := tk_of_cmds rfl
  have hlt : hostsLtIs ca [.host cb .id] = true := by
    simp only [hostsLtIs, hostsLtI, Bool.and_true, decide_eq_true_eq]; exact hcb
  have s1 := spawnOn_hl ca env [.host cb .id] _ (hl2.tk0 f0) hlt
  refine ⟨s1.1, hlo, ?_, ?_⟩
  · rw [s1.2]; exact hhi
  · rw [s1.2]; exact hlen

mutual
theorem instantiate_built (env : Env) : (c : Cmd) → (w : World) → cmdHF c = true → HL w →
    Built w (instantiate env c w).1 (instantiate env c w).2
  | .done, w, _, hw => by simp only [instantiate]; exact newCmd_free_built env _ w hw rfl
  | .event _ _, w, _, hw => by simp only [instantiate]; exact newCmd_free_built env _ w hw (by simp [hostFreeIs, hostFreeI])
  | .notify _ _, w, _, hw => by simp only [instantiate]; exact newCmd_free_built env _ w hw (by simp [hostFreeIs, hostFreeI])
  | .req _ _ _, w, _, hw => by simp only [instantiate]; exact newCmd_free_built env _ w hw (by simp [hostFreeIs, hostFreeI])
  | .stream _ _ _, w, _, hw => by simp only [instantiate]; exact newCmd_free_built env _ w hw (by simp [hostFreeIs, hostFreeI])
  | .chain s n e st tag, w, _, hw => by
    simp only [instantiate]; exact newCmd_free_built env _ w hw (chainStart_free s n e st tag)
  | .task is, w, h, hw => by simp only [instantiate]; simp only [cmdHF] at h; exact newCmd_free_built env is w hw h
  | .thenC a b, w, h, hw => by
    simp only [cmdHF, Bool.and_eq_true] at h
    simp only [instantiate]
    have b1 := instantiate_built env a w h.1 hw
    have b2 := instantiate_built env b _ h.2 b1.hl
    have hlt : hostsLtIs (instantiate env b (instantiate env a w).2).2.cmds.length
        [.host (instantiate env a w).1 .id, .host (instantiate env b (instantiate env a w).2).1 .id] = true := by
      simp only [hostsLtIs, hostsLtI, Bool.and_true, Bool.and_eq_true, decide_eq_true_eq]
      exact ⟨Nat.lt_of_lt_of_le b1.hi b2.len, b2.hi⟩
    have b3 := newCmd_built env _ _ b2.hl hlt
    exact ⟨b3.hl, Nat.le_trans (Nat.le_trans b1.len b2.len) b3.lo, b3.hi, Nat.le_trans (Nat.le_trans b1.len b2.len) b3.len⟩
  | .andC a b, w, h, hw => by
    simp only [cmdHF, Bool.and_eq_true] at h
    simp only [instantiate]
    have b1 := instantiate_built env b w h.2 hw
    have b2 := instantiate_built env a _ h.1 b1.hl
    exact built_and w _ _ _ env _ b2.hl (Nat.lt_of_lt_of_le b1.hi b2.lo) (Nat.le_trans b1.len b2.lo) b2.hi
      (Nat.le_trans b1.len b2.len)
  | .all cs, w, h, hw => by
    simp only [cmdHF] at h
    simp only [instantiate]
    have b1 := instantiateAll_built env cs w h hw
    have b2 := newCmd_free_built env [] _ b1.1 rfl
    have hch : ∀ ci ∈ (instantiateAll env cs w).1, ci < (newCmd env [] (instantiateAll env cs w).2).1 := by
      intro ci hci
      exact Nat.lt_of_lt_of_le (b1.2.1 ci hci) b2.lo
    have := spawn_children_hl (newCmd env [] (instantiateAll env cs w).2).1 env _ _ b2.hl hch
    refine ⟨this.1, Nat.le_trans b1.2.2 b2.lo, ?_, ?_⟩
    · rw [this.2]; exact b2.hi
    · rw [this.2]; exact Nat.le_trans b1.2.2 b2.len
  | .mapEf k c, w, h, hw => by
    simp only [cmdHF] at h
    simp only [instantiate]
    have b1 := instantiate_built env c w h hw
    have hlt : hostsLtIs (instantiate env c w).2.cmds.length [.host (instantiate env c w).1 (.ef k)] = true := by
      simp only [hostsLtIs, hostsLtI, Bool.and_true, decide_eq_true_eq]; exact b1.hi
    have b3 := newCmd_built env _ _ b1.hl hlt
    exact ⟨b3.hl, Nat.le_trans b1.len b3.lo, b3.hi, Nat.le_trans b1.len b3.len⟩
  | .mapEv k c, w, h, hw => by
    simp only [cmdHF] at h
    simp only [instantiate]
    have b1 := instantiate_built env c w h hw
    have hlt : hostsLtIs (instantiate env c w).2.cmds.length [.host (instantiate env c w).1 (.ev k)] = true := by
      simp only [hostsLtIs, hostsLtI, Bool.and_true, decide_eq_true_eq]; exact b1.hi
    have b3 := newCmd_built env _ _ b1.hl hlt
    exact ⟨b3.hl, Nat.le_trans b1.len b3.lo, b3.hi, Nat.le_trans b1.len b3.len⟩
  | .abortable name c, w, h, hw => by
    simp only [cmdHF] at h
    simp only [instantiate]
    have b1 := instantiate_built env c w h hw
    have f0 : TK0 (instantiate env c w).2 ({ (instantiate env c w).2 with
        aborts := (instantiate env c w).2.aborts ++ [(name, (instantiate env c w).1)] } : World) := tk_of_cmds rfl
    exact ⟨b1.hl.tk0 f0, b1.lo, b1.hi, b1.len⟩
theorem instantiateAll_built (env : Env) : (cs : List Cmd) → (w : World) → cmdsHF cs = true → HL w →
    HL (instantiateAll env cs w).2 ∧ (∀ ci ∈ (instantiateAll env cs w).1, ci < (instantiateAll env cs w).2.cmds.length) ∧
      w.cmds.length ≤ (instantiateAll env cs w).2.cmds.length
  | [], w, _, hw => by simp only [instantiateAll]; exact ⟨hw, (fun _ h => by cases h), Nat.le_refl _⟩
  | c :: cs, w, h, hw => by
    simp only [cmdsHF, Bool.and_eq_true] at h
    simp only [instantiateAll]
    have b1 := instantiate_built env c w h.1 hw
    have b2 := instantiateAll_built env cs _ h.2 b1.hl
    refine ⟨b2.1, ?_, Nat.le_trans b1.len b2.2.2⟩
    intro ci hci
    simp only [List.mem_cons] at hci
    rcases hci with rfl | hci
    · exact Nat.lt_of_lt_of_le b1.hi b2.2.2
    · exact b2.2.1 ci hci
end

end M.Rt
