/- Frame lemmas for `spawnRefs`: which world operations leave the spawn queues alone. -/
import CruxVerif.Lemmas.RefsDefs
namespace M.Rt

theorem sr_of_cmds {sink : Sink} {w w' : World} (hc : w'.cmds = w.cmds) (he : w'.execSpawn = w.execSpawn) :
    spawnRefs sink w' = spawnRefs sink w := by
  cases sink with
  | cmd c => simp only [spawnRefs, World.cmd, hc]
  | core => simp only [spawnRefs, he]

theorem sr_modLeaf (sink : Sink) (w : World) (l : Nat) (f : Leaf → Leaf) : spawnRefs sink (w.modLeaf l f) = spawnRefs sink w :=
  sr_of_cmds rfl rfl
theorem sr_modMeta (sink : Sink) (w : World) (s : Nat) (f : Meta → Meta) : spawnRefs sink (w.modMeta s f) = spawnRefs sink w :=
  sr_of_cmds rfl rfl
theorem sr_newMeta (sink : Sink) (w : World) : spawnRefs sink w.newMeta.2 = spawnRefs sink w := sr_of_cmds rfl rfl
theorem sr_newLeaf (sink : Sink) (w : World) (wk : Option Waker) (lg : Bool) :
    spawnRefs sink (w.newLeaf wk lg).2 = spawnRefs sink w := sr_of_cmds rfl rfl
theorem sr_dropReceiver (sink : Sink) (w : World) (l : Nat) : spawnRefs sink (w.dropReceiver l) = spawnRefs sink w :=
  sr_of_cmds rfl rfl

theorem sr_modCmd (sink : Sink) (w : World) (c : Nat) (f : CmdSt → CmdSt) (hf : ∀ x, (f x).spawnQ = x.spawnQ) :
    spawnRefs sink (w.modCmd c f) = spawnRefs sink w := by
  cases sink with
  | cmd c' =>
    simp only [spawnRefs]
    by_cases h : c = c'
    · subst h; rw [World.cmd_modCmd_spawnQ_keep w c f hf]
    · rw [World.cmd_modCmd_other w c c' f h]
  | core => rfl

theorem sr_sinkEvent (sink s : Sink) (w : World) (e : Ev) : spawnRefs sink (w.sinkEvent s e) = spawnRefs sink w := by
  cases s with
  | cmd c => exact sr_modCmd sink w c _ (fun _ => rfl)
  | core => exact sr_of_cmds rfl rfl

theorem sr_sinkEffect (sink s : Sink) (w : World) (e : Eff) : spawnRefs sink (w.sinkEffect s e) = spawnRefs sink w := by
  cases s with
  | cmd c => exact sr_modCmd sink w c _ (fun _ => rfl)
  | core => exact sr_of_cmds rfl rfl

theorem sr_woken (sink : Sink) (W : World) (l : List Nat) : spawnRefs sink ({ W with woken := l } : World) = spawnRefs sink W :=
  sr_of_cmds rfl rfl

theorem sr_modCmd' (sink : Sink) (w : World) (c : Nat) (f : CmdSt → CmdSt) (hf : ∀ x, (f x).spawnQ = x.spawnQ)
    {R : List Nat} (h : spawnRefs sink w = R) : spawnRefs sink (w.modCmd c f) = R := (sr_modCmd sink w c f hf).trans h

theorem sr_woken' (sink : Sink) (W : World) (l : List Nat) {R : List Nat} (h : spawnRefs sink W = R) :
    spawnRefs sink ({ W with woken := l } : World) = R := (sr_woken sink W l).trans h

theorem sr_wake (sink : Sink) : ∀ (f : Nat) (wk : Waker) (w : World), spawnRefs sink (wake f wk w) = spawnRefs sink w := by
  intro f
  induction f with
  | zero => intro wk w; cases wk <;> exact sr_of_cmds rfl rfl
  | succ f ih =>
    intro wk w
    cases wk with
    | root e => exact sr_of_cmds rfl rfl
    | task cid tid serial =>
      unfold wake
      simp only
      split
      · split
        · refine sr_woken' sink _ _ ?_
          refine sr_modCmd' sink _ cid _ ?_ rfl
          intro _; rfl
        · exact sr_woken sink _ _
      · rename_i pw _
        rw [ih pw]
        split
        · refine sr_modCmd' sink _ cid _ ?_ ?_
          · intro _; rfl
          · refine sr_woken' sink _ _ ?_
            refine sr_modCmd' sink _ cid _ ?_ rfl
            intro _; rfl
        · refine sr_modCmd' sink _ cid _ ?_ ?_
          · intro _; rfl
          · exact sr_woken sink _ _

theorem sr_World_wake (sink : Sink) (w : World) (wk : Waker) : spawnRefs sink (w.wake wk) = spawnRefs sink w :=
  sr_wake sink _ wk w

theorem sr_abortCmd (sink : Sink) (w : World) (c : Nat) : spawnRefs sink (w.abortCmd c) = spawnRefs sink w := by
  unfold World.abortCmd
  simp only
  split
  · exact sr_modMeta sink w _ _
  · rw [sr_World_wake]
    refine sr_modCmd' sink _ c _ ?_ ?_
    · intro _; rfl
    · exact sr_modMeta sink w _ _

theorem len_wake (w : World) (wk : Waker) : (w.wake wk).leaves.length = w.leaves.length := by rw [World.wake_leaves]

theorem len_abortCmd (w : World) (c : Nat) : (w.abortCmd c).leaves.length = w.leaves.length := by
  unfold World.abortCmd
  simp only
  split
  · rfl
  · rw [len_wake]; rfl

theorem len_dropReceiver (w : World) (l : Nat) : (w.dropReceiver l).leaves.length = w.leaves.length := by
  simp [World.dropReceiver, World.modLeaf, modifyNth_length]

mutual
theorem dropBlock_same (sink : Sink) (dc : Nat → World → World) : (b : Block) → (w : World) → hostFreeB b = true →
    spawnRefs sink (dropBlock dc b w) = spawnRefs sink w ∧ (dropBlock dc b w).leaves.length = w.leaves.length
  | .mk env cur rest, w, h => by
    simp only [hostFreeB, Bool.and_eq_true] at h
    simp only [dropBlock]
    have h2 : ∀ (g : World → Instr → World), (∀ w i, hostFreeI i = true → g w i = w) →
        ∀ (is : List Instr) (w : World), hostFreeIs is = true → is.foldl g w = w := by
      intro g hg is
      induction is with
      | nil => intro w _; rfl
      | cons i is ih =>
        intro w hi
        simp only [hostFreeIs, Bool.and_eq_true] at hi
        simp only [List.foldl_cons]
        rw [hg w i hi.1]; exact ih w hi.2
    rw [h2 _ (by intro w i hi; cases i <;> simp_all [hostFreeI]) rest _ h.2]
    exact dropPend_same sink dc cur w h.1
theorem dropPend_same (sink : Sink) (dc : Nat → World → World) : (p : Pend) → (w : World) → hostFreeP p = true →
    spawnRefs sink (dropPend dc p w) = spawnRefs sink w ∧ (dropPend dc p w).leaves.length = w.leaves.length
  | .idle, w, _ => by simp only [dropPend]; exact ⟨trivial, trivial⟩
  | .reqDead, w, _ => by simp only [dropPend]; exact ⟨trivial, trivial⟩
  | .await _, w, _ => by simp only [dropPend]; exact ⟨trivial, trivial⟩
  | .selfwake _, w, _ => by simp only [dropPend]; exact ⟨trivial, trivial⟩
  | .req _ l, w, _ => by simp only [dropPend]; exact ⟨sr_dropReceiver sink w l, len_dropReceiver w l⟩
  | .streamWait _ l _ _ _, w, _ => by simp only [dropPend]; exact ⟨sr_dropReceiver sink w l, len_dropReceiver w l⟩
  | .streamBody _ l _ _ _ inner, w, h => by
    simp only [hostFreeP, Bool.and_eq_true] at h
    simp only [dropPend]
    have := dropBlock_same sink dc inner w h.2
    exact ⟨(sr_dropReceiver sink _ l).trans this.1, (len_dropReceiver _ l).trans this.2⟩
  | .join a b ad bd, w, h => by
    simp only [hostFreeP, Bool.and_eq_true] at h
    simp only [dropPend]
    cases ad <;> cases bd <;> simp only [Bool.false_eq_true, if_false, if_true]
    · have h1 := dropBlock_same sink dc a w h.1
      have h2 := dropBlock_same sink dc b (dropBlock dc a w) h.2
      exact ⟨h2.1.trans h1.1, h2.2.trans h1.2⟩
    · exact dropBlock_same sink dc a w h.1
    · exact dropBlock_same sink dc b w h.2
    · exact ⟨trivial, trivial⟩
  | .select a b, w, h => by
    simp only [hostFreeP, Bool.and_eq_true] at h
    simp only [dropPend]
    have h1 := dropBlock_same sink dc a w h.1
    have h2 := dropBlock_same sink dc b (dropBlock dc a w) h.2
    exact ⟨h2.1.trans h1.1, h2.2.trans h1.2⟩
  | .host _ _, w, h => by simp [hostFreeP] at h
end

theorem World.dropBlock_same (sink : Sink) (w : World) (b : Block) (h : hostFreeB b = true) :
    spawnRefs sink (w.dropBlock b) = spawnRefs sink w ∧ (w.dropBlock b).leaves.length = w.leaves.length :=
  M.Rt.dropBlock_same sink _ b w h

end M.Rt
