/-
Helper lemmas for C20 about the filter stage of M.Codegen (reachability per crate, crate loading).
-/
import CruxVerif.Lemmas.Codegen
namespace Lemmas.Codegen
open M.Codegen S.Codegen

/-! ### every node of an edge is an item of its crate; ids unique per crate ⇒ the edge relation is functional -/

theorem nodupNat_spec : ∀ {l : List Nat}, nodupNat l = true → l.Nodup
  | [], _ => List.nodup_nil
  | a :: l, h => by
    simp only [nodupNat, Bool.and_eq_true, Bool.not_eq_true', List.contains_eq_mem, decide_eq_false_iff_not] at h
    exact List.nodup_cons.mpr ⟨h.1, nodupNat_spec h.2⟩

theorem nodupStr_spec : ∀ {l : List String}, nodupStr l = true → l.Nodup
  | [], _ => List.nodup_nil
  | a :: l, h => by
    simp only [nodupStr, Bool.and_eq_true, Bool.not_eq_true', List.contains_eq_mem, decide_eq_false_iff_not] at h
    exact List.nodup_cons.mpr ⟨h.1, nodupStr_spec h.2⟩

theorem eq_of_nodup_map {α β : Type} (f : α → β) : ∀ {l : List α}, (l.map f).Nodup → ∀ a ∈ l, ∀ b ∈ l, f a = f b → a = b
  | [], _, a, ha, _, _, _ => by simp at ha
  | x :: l, h, a, ha, b, hb, hab => by
    simp only [List.map_cons, List.nodup_cons, List.mem_map, not_exists, not_and] at h
    simp only [List.mem_cons] at ha hb
    rcases ha with rfl | ha <;> rcases hb with rfl | hb
    · rfl
    · exact absurd hab.symm (h.1 b hb)
    · exact absurd hab (h.1 a ha)
    · exact eq_of_nodup_map f h.2 a ha b hb hab

section sub
variable (c : Crate)

theorem succ_sub {x y : Item} (h : y ∈ c.succ x) : y ∈ c.items := by
  simp only [Crate.succ, List.mem_filter] at h; exact h.1

theorem assocTypes_sub {imp : Item} {nm : String} {t : Item} (h : t ∈ c.assocTypes imp nm) : t ∈ c.items := by
  simp only [Crate.assocTypes, List.mem_flatMap, List.mem_filter] at h
  obtain ⟨_, _, h, _⟩ := h; exact h

theorem roots_sub {r : Item} (h : r ∈ c.roots) : r ∈ c.items := by
  simp only [Crate.roots, List.mem_append, Crate.viewModels, Crate.events, Crate.effects, Crate.outputs,
    Crate.operations, List.mem_flatMap, List.mem_map, List.mem_filter] at h
  rcases h with (((⟨_, _, h⟩ | ⟨_, _, h⟩) | ⟨_, _, eff, _, h⟩) | ⟨p, ⟨op, ⟨hop, _⟩, imp, _, rfl⟩, rfl⟩) | ⟨_, _, h⟩
  · exact assocTypes_sub c h
  · exact assocTypes_sub c h
  · split at h
    · simp only [List.mem_flatMap, List.mem_filter] at h
      obtain ⟨_, _, h⟩ := h
      exact assocTypes_sub c h
    · simp at h
  · exact hop
  · exact assocTypes_sub c h

theorem dedup_sub : ∀ {l seen : List Item} {y : Item}, y ∈ Crate.dedup seen l → y ∈ l
  | [], _, _, h => by simp [Crate.dedup] at h
  | a :: l, seen, y, h => by
    simp only [Crate.dedup] at h
    split at h
    · exact List.mem_cons_of_mem _ (dedup_sub h)
    · rcases List.mem_cons.mp h with rfl | h
      · simp
      · exact List.mem_cons_of_mem _ (dedup_sub h)

theorem reach_sub : ∀ (fuel : Nat) {frontier seen : List Item}, (∀ x ∈ frontier, x ∈ c.items) → (∀ x ∈ seen, x ∈ c.items) →
    ∀ y ∈ c.reach fuel frontier seen, y ∈ c.items
  | 0, _, _, _, hs, y, hy => hs y (by simpa [Crate.reach] using hy)
  | fuel + 1, frontier, seen, hf, hs, y, hy => by
    simp only [Crate.reach] at hy
    have hnew : ∀ x ∈ Crate.dedup seen (frontier.flatMap c.succ), x ∈ c.items := by
      intro x hx
      obtain ⟨_, _, h⟩ := List.mem_flatMap.mp (dedup_sub hx)
      exact succ_sub c h
    split at hy
    · exact hs y hy
    · exact reach_sub fuel hnew (fun x hx => by
        rcases List.mem_append.mp hx with h | h
        · exact hs x h
        · exact hnew x h) y hy

theorem reachable_sub {y : Item} (h : y ∈ c.reachable) : y ∈ c.items := by
  have hr : ∀ x ∈ Crate.dedup [] c.roots, x ∈ c.items := fun x hx => roots_sub c (dedup_sub hx)
  exact reach_sub c _ hr hr y h

theorem edges_sub {e : Item × Item} (h : e ∈ c.edges) : e.1 ∈ c.items ∧ e.2 ∈ c.items := by
  simp only [Crate.edges, List.mem_append, List.mem_map, List.mem_filter, List.mem_flatMap] at h
  rcases h with ⟨r, ⟨hr, _⟩, rfl⟩ | ⟨x, hx, y, hy, rfl⟩
  · exact ⟨roots_sub c hr, roots_sub c hr⟩
  · exact ⟨reachable_sub c hx, succ_sub c hy⟩

end sub

theorem functional_of_wf {loaded : List Crate} (hids : ∀ c ∈ loaded, c.idsUnique = true)
    (hnames : (loaded.map (·.name)).Nodup) : Functional (loaded.flatMap nodeEdges) := by
  intro a b ha hb hk hid
  simp only [List.mem_map, List.mem_flatMap, nodeEdges] at ha hb
  obtain ⟨_, ⟨ca, hca, ea, hea, rfl⟩, rfl⟩ := ha
  obtain ⟨_, ⟨cb, hcb, eb, heb, rfl⟩, rfl⟩ := hb
  simp only at hk hid
  have hc : ca = cb := eq_of_nodup_map (·.name) hnames ca hca cb hcb hk
  subst hc
  have hn : (ca.items.map (·.id)).Nodup := nodupNat_spec (by simpa [Crate.idsUnique] using hids ca hca)
  have := eq_of_nodup_map (·.id) hn ea.2 (edges_sub ca hea).2 eb.2 (edges_sub ca heb).2 hid
  simp [this]

theorem load_inv (avail : List Crate) : ∀ (fuel : Nat) (loaded L : List Crate), load avail fuel loaded = some L →
    (loaded.map (·.name)).Nodup → (∀ c ∈ loaded, c ∈ avail) → (L.map (·.name)).Nodup ∧ ∀ c ∈ L, c ∈ avail
  | 0, _, _, h, _, _ => by simp [load] at h
  | fuel + 1, loaded, L, h, hn, hs => by
    simp only [load] at h
    split at h
    · simp only [Option.some.injEq] at h; subst h; exact ⟨hn, hs⟩
    · rename_i n rest hp
      split at h
      · simp at h
      · rename_i a ha
        have hmem : n ∈ List.filter (fun n => !(loaded.any fun l => l.name == n)) (loaded.flatMap Crate.wanted) := by
          rw [hp]; simp
        simp only [List.mem_filter, Bool.not_eq_true', List.any_eq_false, beq_iff_eq] at hmem
        have han : a.name = n := by simpa using List.find?_some ha
        refine load_inv avail fuel _ L h ?_ ?_
        · simp only [List.map_append, List.map_cons, List.map_nil]
          rw [List.nodup_append]
          refine ⟨hn, by simp, ?_⟩
          intro x hx y hy
          simp only [List.mem_singleton] at hy
          subst hy
          obtain ⟨l, hl, rfl⟩ := List.mem_map.mp hx
          rw [han]
          exact fun e => hmem.2 l hl e
        · intro c hc
          rcases List.mem_append.mp hc with h | h
          · exact hs c h
          · simp only [List.mem_singleton] at h; subst h; exact List.mem_of_find?_eq_some ha

/-- ids unique per crate and distinct crate names (`cratesWF`, decidable, evaluated on every case) make the edge
    relation `run` hands to the formatter functional -/
theorem loadedEdges_functional {avail : List Crate} {root : String} {E : Edges} (hwf : cratesWF avail = true)
    (h : loadedEdges avail root = some E) : Functional E := by
  unfold loadedEdges at h
  split at h
  · simp at h
  · rename_i r hr
    obtain ⟨L, hL, rfl⟩ := Option.map_eq_some_iff.mp h
    simp only [cratesWF, Bool.and_eq_true, List.all_eq_true] at hwf
    have hra : r ∈ avail := List.mem_of_find?_eq_some hr
    obtain ⟨hn, hs⟩ := load_inv avail _ [r] L hL (by simp) (by simpa using hra)
    exact functional_of_wf (fun c hc => hwf.1 c (hs c hc)) hn

/-! ### consistent renumbering commutes with the filter stage -/

theorem beq_inj {σ : Nat → Nat} (hσ : Injective σ) (a b : Nat) : (σ a == σ b) = (a == b) := by
  apply Bool.eq_iff_iff.mpr
  simp only [beq_iff_eq]
  exact ⟨fun e => hσ a b e, fun e => by rw [e]⟩

mutual
theorem mentions_ren {σ : Nat → Nat} (hσ : Injective σ) (pid : Nat) (r : Bool) :
    ∀ t : Ty, (renTy σ t).mentions (σ pid) r = t.mentions pid r
  | .path p id k as => by
    simp only [renTy, Ty.mentions, beq_inj hσ, anyM_ren hσ pid r as]
  | .qpath n self k as => by
    simp only [renTy, Ty.mentions, mentions_ren hσ pid r self, anyM_ren hσ pid r as]
  | .prim n => rfl
  | .tuple ts => by simp only [renTy, Ty.mentions, anyM_ren hσ pid r ts]
  | .slice t => by simp only [renTy, Ty.mentions, mentions_ren hσ pid r t]
  | .array t => by simp only [renTy, Ty.mentions, mentions_ren hσ pid r t]
  | .other => rfl
  | .nonType => rfl
theorem anyM_ren {σ : Nat → Nat} (hσ : Injective σ) (pid : Nat) (r : Bool) :
    ∀ l : List Ty, Ty.mentions.anyM (σ pid) r (renTy.many σ l) = Ty.mentions.anyM pid r l
  | [] => rfl
  | t :: l => by simp only [renTy.many, Ty.mentions.anyM, mentions_ren hσ pid r t, anyM_ren hσ pid r l]
end

section renFilter
variable {σ : Nat → Nat} (hσ : Injective σ)
include hσ

theorem isOfType_ren (f : Item) (tid : Nat) (r : Bool) : isOfType (renItem σ f) (σ tid) r = isOfType f tid r := by
  rcases f with ⟨id, nm, at_, k⟩
  cases k with
  | field t => simp [isOfType, renItem, renKind, mentions_ren hσ]
  | assocType t => cases t <;> simp [isOfType, renItem, renKind, beq_inj hσ]
  | _ => simp [isOfType, renItem, renKind]

theorem isImplFor_ren (imp x : Item) (tr : String) : isImplFor (renItem σ imp) (renItem σ x) tr = isImplFor imp x tr := by
  rcases imp with ⟨id, nm, at_, k⟩
  cases k with
  | impl t f items => cases f <;> simp [isImplFor, renItem, renKind, beq_inj hσ]
  | _ => simp [isImplFor, renItem, renKind]

theorem hasAssoc_ren (imp a : Item) (nm : String) : hasAssoc (renItem σ imp) (renItem σ a) nm = hasAssoc imp a nm := by
  rcases imp with ⟨id, nm', at_, k⟩
  cases k with
  | impl t f items => simp only [hasAssoc, renItem, renKind, contains_map_inj σ hσ]
  | _ => simp [hasAssoc, renItem, renKind]

omit hσ in
@[simp] theorem isStruct_ren (i : Item) : (renItem σ i).isStruct = i.isStruct := by
  rcases i with ⟨id, nm, at_, k⟩
  cases k <;> simp [Item.isStruct, renItem, renKind]

omit hσ in
@[simp] theorem isStructUnit_ren (i : Item) : (renItem σ i).isStructUnit = i.isStructUnit := by
  rcases i with ⟨id, nm, at_, k⟩
  cases k <;> simp [Item.isStructUnit, renItem, renKind]

theorem variantP_ren (x v : Item) : variantP (renItem σ x) (renItem σ v) = variantP x v := by
  simp only [variantP, renItem_isEnum, hasVariant_ren σ hσ]

theorem localTypeP_ren (f t : Item) : localTypeP (renItem σ f) (renItem σ t) = localTypeP f t := by
  simp only [localTypeP, renItem_id, isOfType_ren hσ]

end renFilter

def renPair (σ : Nat → Nat) (p : Item × Item) : Item × Item := (renItem σ p.1, renItem σ p.2)
@[simp] theorem renPair_fst (σ) (p : Item × Item) : (renPair σ p).1 = renItem σ p.1 := rfl
@[simp] theorem renPair_snd (σ) (p : Item × Item) : (renPair σ p).2 = renItem σ p.2 := rfl
@[simp] theorem renCrate_items (σ) (c : Crate) : (renCrate σ c).items = c.items.map (renItem σ) := rfl
@[simp] theorem renCrate_summaries (σ) (c : Crate) :
    (renCrate σ c).summaries = c.summaries.map fun s => { s with id := σ s.id } := rfl
@[simp] theorem renCrate_ext (σ) (c : Crate) : (renCrate σ c).ext = c.ext := rfl
@[simp] theorem renCrate_name (σ) (c : Crate) : (renCrate σ c).name = c.name := rfl

section renCrate
variable {σ : Nat → Nat} (hσ : Injective σ)
include hσ

theorem isVariantMember_ren (c : Crate) (v : Item) :
    (renCrate σ c).isVariantMember (renItem σ v) = c.isVariantMember v := by
  simp only [Crate.isVariantMember, renCrate_items, List.any_map, Function.comp_def, renItem_isEnum, hasVariant_ren σ hσ]

theorem fieldP_ren (c : Crate) (x f : Item) : (renCrate σ c).fieldP (renItem σ x) (renItem σ f) = c.fieldP x f := by
  simp only [Crate.fieldP, hasField_ren σ hσ, isStruct_ren, isVariantMember_ren hσ]

theorem apps_ren (c : Crate) : (renCrate σ c).apps = c.apps.map (renPair σ) := by
  simp only [Crate.apps, renCrate_items, List.filter_map, List.flatMap_map, List.map_flatMap, List.map_map,
    Function.comp_def, isStruct_ren, isImplFor_ren hσ, renPair]

theorem isApp_ren (c : Crate) (x : Item) : (renCrate σ c).isApp (renItem σ x) = c.isApp x := by
  simp only [Crate.isApp, apps_ren hσ, List.any_map, Function.comp_def, renPair_snd, renItem_id, beq_inj hσ]

theorem parentP_ren (c : Crate) (p ch : Item) :
    (renCrate σ c).parentP (renItem σ p) (renItem σ ch) = c.parentP p ch := by
  simp only [Crate.parentP, isApp_ren hσ, renCrate_items, List.any_map, Function.comp_def, localTypeP_ren hσ,
    fieldP_ren hσ]

theorem rootApps_ren (c : Crate) : (renCrate σ c).rootApps = c.rootApps.map (renPair σ) := by
  simp only [Crate.rootApps, apps_ren hσ, List.filter_map, renCrate_items, List.any_map, Function.comp_def,
    renPair_snd, parentP_ren hσ]

theorem assocTypes_ren (c : Crate) (imp : Item) (nm : String) :
    (renCrate σ c).assocTypes (renItem σ imp) nm = (c.assocTypes imp nm).map (renItem σ) := by
  simp only [Crate.assocTypes, renCrate_items, List.filter_map, List.flatMap_map, List.map_flatMap, Function.comp_def,
    hasAssoc_ren hσ, localTypeP_ren hσ]

theorem sameModule_ren (c : Crate) (a b : Item) :
    (renCrate σ c).sameModule (renItem σ a) (renItem σ b) = c.sameModule a b := by
  simp only [Crate.sameModule, renCrate_summaries, List.any_map, Function.comp_def, renItem_id, beq_inj hσ]

theorem viewModels_ren (c : Crate) : (renCrate σ c).viewModels = c.viewModels.map (renItem σ) := by
  simp only [Crate.viewModels, rootApps_ren hσ, List.flatMap_map, List.map_flatMap, renPair_fst, assocTypes_ren hσ]

theorem events_ren (c : Crate) : (renCrate σ c).events = c.events.map (renItem σ) := by
  simp only [Crate.events, rootApps_ren hσ, List.flatMap_map, List.map_flatMap, renPair_fst, assocTypes_ren hσ]

theorem effects_ren (c : Crate) : (renCrate σ c).effects = c.effects.map (renItem σ) := by
  simp only [Crate.effects, rootApps_ren hσ, renCrate_items, List.filter_map, List.flatMap_map, List.map_flatMap,
    Function.comp_def, renPair_snd, renItem_isEnum, sameModule_ren hσ, isImplFor_ren hσ, assocTypes_ren hσ]
  congr 1; funext p; congr 1; funext eff
  by_cases h : c.sameModule p.2 eff = true
  · simp only [h, if_true, List.map_flatMap]
  · simp [h]

theorem operations_ren (c : Crate) : (renCrate σ c).operations = c.operations.map (renPair σ) := by
  simp only [Crate.operations, renCrate_items, List.filter_map, List.flatMap_map, List.map_flatMap, List.map_map,
    Function.comp_def, isStruct_ren, renItem_isEnum, isImplFor_ren hσ, renPair]

theorem outputs_ren (c : Crate) : (renCrate σ c).outputs = c.outputs.map (renItem σ) := by
  simp only [Crate.outputs, operations_ren hσ, List.flatMap_map, List.map_flatMap, renPair_fst, assocTypes_ren hσ]

theorem roots_ren (c : Crate) : (renCrate σ c).roots = c.roots.map (renItem σ) := by
  simp only [Crate.roots, viewModels_ren hσ, events_ren hσ, effects_ren hσ, operations_ren hσ, outputs_ren hσ,
    List.map_append, List.map_map, Function.comp_def, renPair_snd]

theorem succ_ren (c : Crate) (x : Item) : (renCrate σ c).succ (renItem σ x) = (c.succ x).map (renItem σ) := by
  simp only [Crate.succ, renCrate_items, List.filter_map, Function.comp_def, isStruct_ren, isVariantMember_ren hσ,
    hasField_ren σ hσ, variantP_ren hσ, localTypeP_ren hσ]

theorem seenIn_ren (seen : List Item) (y : Item) :
    Crate.seenIn (seen.map (renItem σ)) (renItem σ y) = Crate.seenIn seen y := by
  simp only [Crate.seenIn, List.any_map, Function.comp_def, renItem_id, beq_inj hσ]

theorem dedup_ren : ∀ (l seen : List Item),
    Crate.dedup (seen.map (renItem σ)) (l.map (renItem σ)) = (Crate.dedup seen l).map (renItem σ)
  | [], _ => rfl
  | y :: l, seen => by
    simp only [List.map_cons, Crate.dedup, seenIn_ren hσ]
    split
    · exact dedup_ren l seen
    · have := dedup_ren l (y :: seen)
      simp only [List.map_cons] at this
      simp only [List.map_cons, this]

theorem reach_ren (c : Crate) : ∀ (fuel : Nat) (frontier seen : List Item),
    (renCrate σ c).reach fuel (frontier.map (renItem σ)) (seen.map (renItem σ)) = (c.reach fuel frontier seen).map (renItem σ)
  | 0, _, _ => rfl
  | fuel + 1, frontier, seen => by
    simp only [Crate.reach]
    have hnew : Crate.dedup (seen.map (renItem σ)) ((frontier.map (renItem σ)).flatMap (renCrate σ c).succ)
        = (Crate.dedup seen (frontier.flatMap c.succ)).map (renItem σ) := by
      rw [← dedup_ren hσ]
      simp only [List.flatMap_map, List.map_flatMap, succ_ren hσ]
    rw [hnew, List.isEmpty_map]
    split
    · rfl
    · rw [← List.map_append, reach_ren c fuel]

theorem reachable_ren (c : Crate) : (renCrate σ c).reachable = c.reachable.map (renItem σ) := by
  simp only [Crate.reachable, roots_ren hσ, renCrate_items, List.length_map]
  have := dedup_ren hσ c.roots []
  simp only [List.map_nil] at this
  rw [this, reach_ren hσ]

theorem edges_ren (c : Crate) : (renCrate σ c).edges = c.edges.map (renPair σ) := by
  simp only [Crate.edges, roots_ren hσ, reachable_ren hσ, List.filter_map, List.map_append, List.map_map,
    List.flatMap_map, List.map_flatMap, Function.comp_def, isStructUnit_ren, succ_ren hσ, renPair]

theorem wanted_ren (c : Crate) : (renCrate σ c).wanted = c.wanted := by
  simp only [Crate.wanted, edges_ren hσ, renCrate_summaries, renCrate_ext, List.flatMap_map, List.filter_map,
    Function.comp_def, renPair_snd, isOfType_ren hσ]

end renCrate

/-- every crate renumbered by its own map -/
def renCrates (σ : String → Nat → Nat) (cs : List Crate) : List Crate := cs.map fun c => renCrate (σ c.name) c

section renAll
variable (σ : String → Nat → Nat) (hσ : ∀ c, Injective (σ c))
include hσ

theorem nodeEdges_ren (c : Crate) : nodeEdges (renCrate (σ c.name) c) = renEdges σ (nodeEdges c) := by
  simp only [nodeEdges, renEdges, edges_ren (hσ c.name), List.map_map, Function.comp_def, renCrate_name, renPair_fst,
    renPair_snd, renNode]

theorem wantedAll_ren (loaded : List Crate) :
    (renCrates σ loaded).flatMap Crate.wanted = loaded.flatMap Crate.wanted := by
  simp only [renCrates, List.flatMap_map, wanted_ren (hσ _)]

omit hσ in
theorem anyName_ren (loaded : List Crate) (n : String) :
    ((renCrates σ loaded).any fun l => l.name == n) = loaded.any fun l => l.name == n := by
  simp only [renCrates, List.any_map, Function.comp_def, renCrate_name]

omit hσ in
theorem findName_ren (avail : List Crate) (n : String) :
    (renCrates σ avail).find? (fun a => a.name == n) = (avail.find? fun a => a.name == n).map fun c => renCrate (σ c.name) c := by
  simp only [renCrates, List.find?_map, Function.comp_def, renCrate_name]

theorem load_ren (avail : List Crate) : ∀ (fuel : Nat) (loaded : List Crate),
    load (renCrates σ avail) fuel (renCrates σ loaded) = (load avail fuel loaded).map (renCrates σ)
  | 0, _ => rfl
  | fuel + 1, loaded => by
    simp only [load, wantedAll_ren σ hσ, anyName_ren σ]
    split
    · rfl
    · rename_i n rest _
      rw [findName_ren σ]
      cases hf : avail.find? fun a => a.name == n with
      | none => rfl
      | some a =>
        simp only [Option.map_some]
        have : renCrates σ loaded ++ [renCrate (σ a.name) a] = renCrates σ (loaded ++ [a]) := by
          simp [renCrates]
        rw [this, load_ren avail fuel]

theorem loadedEdges_ren (avail : List Crate) (root : String) :
    loadedEdges (renCrates σ avail) root = (loadedEdges avail root).map (renEdges σ) := by
  simp only [loadedEdges, findName_ren σ]
  cases hf : avail.find? fun a => a.name == root with
  | none => rfl
  | some r =>
    simp only [Option.map_some]
    have h1 : [renCrate (σ r.name) r] = renCrates σ [r] := by simp [renCrates]
    have h2 : (renCrates σ avail).length = avail.length := by simp [renCrates]
    rw [h1, h2, load_ren σ hσ]
    cases load avail (avail.length + 1) [r] with
    | none => rfl
    | some L =>
      simp only [Option.map_some, renCrates, List.flatMap_map, nodeEdges_ren σ hσ]
      simp only [renEdges, List.map_flatMap]

theorem registry_ren (avail : List Crate) (root : String) : registry (renCrates σ avail) root = registry avail root := by
  simp only [registry, loadedEdges_ren σ hσ]
  cases loadedEdges avail root with
  | none => rfl
  | some E => simp only [Option.map_some, panics_ren σ hσ, containers_ren σ hσ]

end renAll

end Lemmas.Codegen
