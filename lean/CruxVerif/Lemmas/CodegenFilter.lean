/-
Helper lemmas for C20 about the filter stage of M.Codegen (reachability per crate, crate loading).
-/
import CruxVerif.Lemmas.Codegen
namespace Lemmas.Codegen
open M.Codegen S.Codegen

/-! ### every node of an edge is an item of its crate; ids unique per crate ⇒ the edge relation is functional -/

theorem nodupNat_spec : ∀ {l : List Nat}, nodupNat l = true → l.Nodup
  | [], _ => List.nodup_nil
  | a :: l, h => by
    simp only [nodupNat, Bool.and_eq_true, Bool.not_eq_true', List.contains_eq_mem, decide_eq_false_iff_not] at h
    exact List.nodup_cons.mpr ⟨h.1, nodupNat_spec h.2⟩

theorem nodupStr_spec : ∀ {l : List String}, nodupStr l = true → l.Nodup
  | [], _ => List.nodup_nil
  | a :: l, h => by
    simp only [nodupStr, Bool.and_eq_true, Bool.not_eq_true', List.contains_eq_mem, decide_eq_false_iff_not] at h
    exact List.nodup_cons.mpr ⟨h.1, nodupStr_spec h.2⟩

theorem eq_of_nodup_map {α β : Type} (f : α → β) : ∀ {l : List α}, (l.map f).Nodup → ∀ a ∈ l, ∀ b ∈ l, f a = f b → a = b
  | [], _, a, ha, _, _, _ => by simp at ha
  | x :: l, h, a, ha, b, hb, hab => by
    simp only [List.map_cons, List.nodup_cons, List.mem_map, not_exists, not_and] at h
    simp only [List.mem_cons] at ha hb
    rcases ha with rfl | ha <;> rcases hb with rfl | hb
    · rfl
    · exact absurd hab.symm (h.1 b hb)
    · exact absurd hab (h.1 a ha)
    · exact eq_of_nodup_map f h.2 a ha b hb hab

section sub
variable (c : Crate)

theorem succ_sub {x y : Item} (h : y ∈ c.succ x) : y ∈ c.items := by
  simp only [Crate.succ, List.mem_filter] at h; exact h.1

theorem assocTypes_sub {imp : Item} {nm : String} {t : Item} (h : t ∈ c.assocTypes imp nm) : t ∈ c.items := by
  simp only [Crate.assocTypes, List.mem_flatMap, List.mem_filter] at h
  obtain ⟨_, _, h, _⟩ := h; exact h

theorem roots_sub {r : Item} (h : r ∈ c.roots) : r ∈ c.items := by
  simp only [Crate.roots, List.mem_append, Crate.viewModels, Crate.events, Crate.effects, Crate.outputs,
    Crate.operations, List.mem_flatMap, List.mem_map, List.mem_filter] at h
  rcases h with (((⟨_, _, h⟩ | ⟨_, _, h⟩) | ⟨_, _, eff, _, h⟩) | ⟨p, ⟨op, ⟨hop, _⟩, imp, _, rfl⟩, rfl⟩) | ⟨_, _, h⟩
  · exact assocTypes_sub c h
  · exact assocTypes_sub c h
  · split at h
    · simp only [List.mem_flatMap, List.mem_filter] at h
      obtain ⟨_, _, h⟩ := h
      exact assocTypes_sub c h
    · simp at h
  · exact hop
  · exact assocTypes_sub c h

theorem dedup_sub : ∀ {l seen : List Item} {y : Item}, y ∈ Crate.dedup seen l → y ∈ l
  | [], _, _, h => by simp [Crate.dedup] at h
  | a :: l, seen, y, h => by
    simp only [Crate.dedup] at h
    split at h
    · exact List.mem_cons_of_mem _ (dedup_sub h)
    · rcases List.mem_cons.mp h with rfl | h
      · simp
      · exact List.mem_cons_of_mem _ (dedup_sub h)

theorem reach_sub : ∀ (fuel : Nat) {frontier seen : List Item}, (∀ x ∈ frontier, x ∈ c.items) → (∀ x ∈ seen, x ∈ c.items) →
    ∀ y ∈ c.reach fuel frontier seen, y ∈ c.items
  | 0, _, _, _, hs, y, hy => hs y (by simpa [Crate.reach] using hy)
  | fuel + 1, frontier, seen, hf, hs, y, hy => by
    simp only [Crate.reach] at hy
    have hnew : ∀ x ∈ Crate.dedup seen (frontier.flatMap c.succ), x ∈ c.items := by
      intro x hx
      obtain ⟨_, _, h⟩ := List.mem_flatMap.mp (dedup_sub hx)
      exact succ_sub c h
    split at hy
    · exact hs y hy
    · exact reach_sub fuel hnew (fun x hx => by
        rcases List.mem_append.mp hx with h | h
        · exact hs x h
        · exact hnew x h) y hy

theorem reachable_sub {y : Item} (h : y ∈ c.reachable) : y ∈ c.items := by
  have hr : ∀ x ∈ Crate.dedup [] c.roots, x ∈ c.items := fun x hx => roots_sub c (dedup_sub hx)
  exact reach_sub c _ hr hr y h

theorem edges_sub {e : Item × Item} (h : e ∈ c.edges) : e.1 ∈ c.items ∧ e.2 ∈ c.items := by
  simp only [Crate.edges, List.mem_append, List.mem_map, List.mem_filter, List.mem_flatMap] at h
  rcases h with ⟨r, ⟨hr, _⟩, rfl⟩ | ⟨x, hx, y, hy, rfl⟩
  · exact ⟨roots_sub c hr, roots_sub c hr⟩
  · exact ⟨reachable_sub c hx, succ_sub c hy⟩

end sub

theorem functional_of_wf {loaded : List Crate} (hids : ∀ c ∈ loaded, c.idsUnique = true)
    (hnames : (loaded.map (·.name)).Nodup) : Functional (loaded.flatMap nodeEdges) := by
  intro a b ha hb hk hid
  simp only [List.mem_map, List.mem_flatMap, nodeEdges] at ha hb
  obtain ⟨_, ⟨ca, hca, ea, hea, rfl⟩, rfl⟩ := ha
  obtain ⟨_, ⟨cb, hcb, eb, heb, rfl⟩, rfl⟩ := hb
  simp only at hk hid
  have hc : ca = cb := eq_of_nodup_map (·.name) hnames ca hca cb hcb hk
  subst hc
  have hn : (ca.items.map (·.id)).Nodup := nodupNat_spec (by simpa [Crate.idsUnique] using hids ca hca)
  have := eq_of_nodup_map (·.id) hn ea.2 (edges_sub ca hea).2 eb.2 (edges_sub ca heb).2 hid
  simp [this]

theorem load_inv (avail : List Crate) : ∀ (fuel : Nat) (loaded L : List Crate), load avail fuel loaded = some L →
    (loaded.map (·.name)).Nodup → (∀ c ∈ loaded, c ∈ avail) → (L.map (·.name)).Nodup ∧ ∀ c ∈ L, c ∈ avail
  | 0, _, _, h, _, _ => by simp [load] at h
  | fuel + 1, loaded, L, h, hn, hs => by
    simp only [load] at h
    split at h
    · simp only [Option.some.injEq] at h; subst h; exact ⟨hn, hs⟩
    · rename_i n rest hp
      split at h
      · simp at h
      · rename_i a ha
        have hmem : n ∈ List.filter (fun n => !(loaded.any fun l => l.name == n)) (loaded.flatMap Crate.wanted) := by
          rw [hp]; simp
        simp only [List.mem_filter, Bool.not_eq_true', List.any_eq_false, beq_iff_eq] at hmem
        have han : a.name = n := by simpa using List.find?_some ha
        refine load_inv avail fuel _ L h ?_ ?_
        · simp only [List.map_append, List.map_cons, List.map_nil]
          rw [List.nodup_append]
          refine ⟨hn, by simp, ?_⟩
          intro x hx y hy
          simp only [List.mem_singleton] at hy
          subst hy
          obtain ⟨l, hl, rfl⟩ := List.mem_map.mp hx
          rw [han]
          exact fun e => hmem.2 l hl e
        · intro c hc
          rcases List.mem_append.mp hc with h | h
          · exact hs c h
          · simp only [List.mem_singleton] at h; subst h; exact List.mem_of_find?_eq_some ha

/-- ids unique per crate and distinct crate names (`cratesWF`, decidable, evaluated on every case) make the edge
    relation `run` hands to the formatter functional -/
theorem loadedEdges_functional {avail : List Crate} {root : String} {E : Edges} (hwf : cratesWF avail = true)
    (h : loadedEdges avail root = some E) : Functional E := by
  unfold loadedEdges at h
  split at h
  · simp at h
  · rename_i r hr
    obtain ⟨L, hL, rfl⟩ := Option.map_eq_some_iff.mp h
    simp only [cratesWF, Bool.and_eq_true, List.all_eq_true] at hwf
    have hra : r ∈ avail := List.mem_of_find?_eq_some hr
    obtain ⟨hn, hs⟩ := load_inv avail _ [r] L hL (by simp) (by simpa using hra)
    exact functional_of_wf (fun c hc => hwf.1 c (hs c hc)) hn

/-! ### consistent renumbering commutes with the filter stage -/

theorem beq_inj {σ : Nat → Nat} (hσ : Injective σ) (a b : Nat) : (σ a == σ b) = (a == b) := by
  apply Bool.eq_iff_iff.mpr
  simp only [beq_iff_eq]
  exact ⟨fun e => hσ a b e, fun e => by rw [e]⟩

mutual
theorem mentions_ren {σ : Nat → Nat} (hσ : Injective σ) (pid : Nat) (r : Bool) :
    ∀ t : Ty, (renTy σ t).mentions (σ pid) r = t.mentions pid r
  | .path p id k as => by
    simp only [renTy, Ty.mentions, beq_inj hσ, anyM_ren hσ pid r as]
  | .qpath n self k as => by
    simp only [renTy, Ty.mentions, mentions_ren hσ pid r self, anyM_ren hσ pid r as]
  | .prim n => rfl
  | .tuple ts => by simp only [renTy, Ty.mentions, anyM_ren hσ pid r ts]
  | .slice t => by simp only [renTy, Ty.mentions, mentions_ren hσ pid r t]
  | .array t => by simp only [renTy, Ty.mentions, mentions_ren hσ pid r t]
  | .other => rfl
  | .nonType => rfl
theorem anyM_ren {σ : Nat → Nat} (hσ : Injective σ) (pid : Nat) (r : Bool) :
    ∀ l : List Ty, Ty.mentions.anyM (σ pid) r (renTy.many σ l) = Ty.mentions.anyM pid r l
  | [] => rfl
  | t :: l => by simp only [renTy.many, Ty.mentions.anyM, mentions_ren hσ pid r t, anyM_ren hσ pid r l]
end

section renFilter
variable {σ : Nat → Nat} (hσ : Injective σ)
include hσ

theorem isOfType_ren (f : Item) (tid : Nat) (r : Bool) : isOfType (renItem σ f) (σ tid) r = isOfType f tid r := by
  rcases f with ⟨id, nm, at_, k⟩
  cases k with
  | field t => simp [isOfType, renItem, renKind, mentions_ren hσ]
  | assocType t => cases t <;> simp [isOfType, renItem, renKind, beq_inj hσ]
  | _ => simp [isOfType, renItem, renKind]

theorem isImplFor_ren (imp x : Item) (tr : String) : isImplFor (renItem σ imp) (renItem σ x) tr = isImplFor imp x tr := by
  rcases imp with ⟨id, nm, at_, k⟩
  cases k with
  | impl t f items => cases f <;> simp [isImplFor, renItem, renKind, beq_inj hσ]
  | _ => simp [isImplFor, renItem, renKind]

theorem hasAssoc_ren (imp a : Item) (nm : String) : hasAssoc (renItem σ imp) (renItem σ a) nm = hasAssoc imp a nm := by
  rcases imp with ⟨id, nm', at_, k⟩
  cases k with
  | impl t f items => simp only [hasAssoc, renItem, renKind, contains_map_inj σ hσ]
  | _ => simp [hasAssoc, renItem, renKind]

omit hσ in
@[simp] theorem isStruct_ren (i : Item) : (renItem σ i).isStruct = i.isStruct := by
  rcases i with ⟨id, nm, at_, k⟩
  cases k <;> simp [Item.isStruct, renItem, renKind]

omit hσ in
@[simp] theorem isStructUnit_ren (i : Item) : (renItem σ i).isStructUnit = i.isStructUnit := by
  rcases i with ⟨id, nm, at_, k⟩
  cases k <;> simp [Item.isStructUnit, renItem, renKind]

theorem variantP_ren (x v : Item) : variantP (renItem σ x) (renItem σ v) = variantP x v := by
  simp only [variantP, renItem_isEnum, hasVariant_ren σ hσ]

theorem localTypeP_ren (f t : Item) : localTypeP (renItem σ f) (renItem σ t) = localTypeP f t := by
  simp only [localTypeP, renItem_id, isOfType_ren hσ]

end renFilter

end Lemmas.Codegen
