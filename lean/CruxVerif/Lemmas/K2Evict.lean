/- K2, conclusion: a host-free task that `run_task` evicts is suspended only at requests whose channel has closed. -/
import CruxVerif.Lemmas.K2
import CruxVerif.Lemmas.RtTask
namespace M.Rt

theorem pollBlock_good (pn) : ∀ f, Good pn f
  | 0 => good_zero pn
  | f + 1 => good_succ pn f (pollBlock_good pn f)

theorem filter_length_pos {α : Type} (p : α → Bool) (l : List α) (a : α) (ha : a ∈ l) (hp : p a = true) :
    0 < (l.filter p).length := by
  have : a ∈ l.filter p := List.mem_filter.mpr ⟨ha, hp⟩
  exact List.length_pos_of_mem this

theorem sum_map_pos {α : Type} (g : α → Nat) : ∀ (l : List α) (a : α), a ∈ l → 0 < g a → 0 < (l.map g).sum
  | [], _, h, _ => by cases h
  | b :: l, a, h, hp => by
    simp only [List.map_cons, List.sum_cons]
    rcases List.mem_cons.mp h with rfl | h
    · omega
    · have := sum_map_pos g l a h hp; omega

/-- a registered leaf waker counts as a holder -/
theorem holders_of_leaf (w w0 : World) (e : w0.leaves = w.leaves) (c t s l : Nat) (hl : l < w.leaves.length)
    (h : (w.leaf l).waker = some (.task c t s)) : 0 < w0.holders s := by
  have hget : w.leaves[l]? = some w.leaves[l] := by simp [hl]
  have hmem : w.leaves[l] ∈ w.leaves := List.getElem_mem hl
  simp only [World.leaf, hget, Option.getD_some] at h
  have := filter_length_pos (fun lf => isSerial s lf.waker) w.leaves _ hmem (by simp [h, isSerial])
  unfold World.holders; rw [e]; omega

/-- a waker queued at a join handle counts as a holder -/
theorem holders_of_join (w w0 : World) (e : w0.metas = w.metas) (c t s s' : Nat)
    (h : Waker.task c t s ∈ (w.getMeta s').joinWakers) : 0 < w0.holders s := by
  simp only [World.getMeta] at h
  cases hm : w.metas[s']? with
  | none => simp [hm] at h
  | some m =>
    simp only [hm, Option.getD_some] at h
    have hmem : m ∈ w.metas := List.mem_of_getElem? hm
    have h1 := filter_length_pos (fun k => isSerial s (some k)) m.joinWakers _ h (by simp [isSerial])
    have := sum_map_pos (fun m : Meta => (m.joinWakers.filter fun k => isSerial s (some k)).length) w.metas m hmem h1
    unfold World.holders; rw [e]; omega

mutual
theorem parked_unheld_dead (w w0 : World) (el : w0.leaves = w.leaves) (em : w0.metas = w.metas) (c t s : Nat) (h0 : w0.holders s = 0) (hw : s ∉ w.woken) :
    (b : Block) → ParkedB (.task c t s) w b → deadOnlyB b = true
  | .mk _ cur _, h => by simp only [ParkedB] at h; simp only [deadOnlyB]; exact parkedP_unheld_dead w w0 el em c t s h0 hw cur h
theorem parkedP_unheld_dead (w w0 : World) (el : w0.leaves = w.leaves) (em : w0.metas = w.metas) (c t s : Nat) (h0 : w0.holders s = 0) (hw : s ∉ w.woken) :
    (p : Pend) → ParkedP (.task c t s) w p → deadOnlyP p = true
  | .idle, h => by simp [ParkedP] at h
  | .reqDead, _ => rfl
  | .host _ _, _ => rfl
  | .req _ l, h => by
    simp only [ParkedP] at h
    have := holders_of_leaf w w0 el c t s l h.1 h.2; omega
  | .streamWait _ l _ _ _, h => by
    simp only [ParkedP] at h
    have := holders_of_leaf w w0 el c t s l h.1 h.2; omega
  | .streamBody _ _ _ _ _ inner, h => by
    simp only [ParkedP] at h; simp only [deadOnlyP]; exact parked_unheld_dead w w0 el em c t s h0 hw inner h
  | .await s', h => by
    simp only [ParkedP] at h
    have := holders_of_join w w0 em c t s s' h; omega
  | .join a b ad bd, h => by
    simp only [ParkedP] at h
    simp only [deadOnlyP, Bool.and_eq_true, Bool.or_eq_true]
    refine ⟨?_, ?_⟩
    · cases ad with
      | true => exact Or.inl rfl
      | false => exact Or.inr (parked_unheld_dead w w0 el em c t s h0 hw a (h.1 rfl))
    · cases bd with
      | true => exact Or.inl rfl
      | false => exact Or.inr (parked_unheld_dead w w0 el em c t s h0 hw b (h.2 rfl))
  | .select a b, h => by
    simp only [ParkedP] at h
    simp only [deadOnlyP, Bool.and_eq_true]
    exact ⟨parked_unheld_dead w w0 el em c t s h0 hw a h.1, parked_unheld_dead w w0 el em c t s h0 hw b h.2⟩
  | .selfwake _, h => by
    simp only [ParkedP, wokenBy] at h
    exact absurd h hw
end

theorem runTaskF_cancelled_frame (poll : Waker → Sink → Block → World → Option (PollRes × World)) (cid tid : Nat) (w w' : World)
    (h : runTaskF poll cid tid w = some (.cancelled, w')) :
    ∃ t b w1, (w.cmd cid).tasks.get? tid = some t ∧
      poll (.task cid tid w.nextSerial) (.cmd cid) t.fut { w with nextSerial := w.nextSerial + 1 } = some (.pending b, w1) ∧
      w1.woken.contains w.nextSerial = false ∧ w'.holders w.nextSerial = 0 ∧ w'.leaves = w1.leaves ∧ w'.metas = w1.metas := by
  unfold runTaskF at h
  split at h
  · cases h
  · rename_i t hg
    split at h
    · cases h
    · dsimp only at h
      split at h
      · cases h
      · cases h
      · rename_i b w1 hp
        split at h
        · rename_i hc
          cases h
          simp only [Bool.and_eq_true, Bool.not_eq_true', beq_iff_eq] at hc
          exact ⟨t, b, w1, hg, hp, hc.1, hc.2, rfl, rfl⟩
        · cases h

/-- **Eviction is sound.** If `run_task` discards a task as `Cancelled`, and the task's future is a host-free block whose
    leaf and join-handle ids exist, then the future is suspended *only* at requests whose channel has closed
    (`deadOnlyB`): no request, stream, join handle or self-wake it waits on is still able to wake it. For every fuel,
    every `pollNext` of nested commands, every world. -/
theorem evicted_task_is_dead (pn : Waker → Nat → World → Option (NextRes × World)) (f : Nat) (cid tid : Nat) (w w' : World)
    (h : runTaskF (pollBlock pn f) cid tid w = some (.cancelled, w')) :
    ∃ t b w1, (w.cmd cid).tasks.get? tid = some t ∧
      pollBlock pn f (.task cid tid w.nextSerial) (.cmd cid) t.fut { w with nextSerial := w.nextSerial + 1 } = some (.pending b, w1) ∧
      (hostFreeB t.fut = true → inRangeB w.leaves.length w.metas.length t.fut = true → deadOnlyB b = true) := by
  obtain ⟨t, b, w1, hg, hp, hwk, h0, el, em⟩ := runTaskF_cancelled_frame _ cid tid w w' h
  refine ⟨t, b, w1, hg, hp, ?_⟩
  intro hf hr
  have hgood := pollBlock_good pn f _ _ _ _ _ _ hp hf hr
  have hpk : ParkedB (.task cid tid w.nextSerial) w1 b := hgood.2.1
  have hnw : w.nextSerial ∉ w1.woken := by
    intro hc
    have : w1.woken.contains w.nextSerial = true := List.contains_iff_mem.mpr hc
    rw [hwk] at this; cases this
  exact parked_unheld_dead w1 w' el em cid tid w.nextSerial h0 hnw b hpk

end M.Rt
