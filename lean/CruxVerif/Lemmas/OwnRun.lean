/- Ownership over whole runs of the direct host of a host-free task command. -/
import CruxVerif.Lemmas.OwnExec
import CruxVerif.Model.Hosts
import CruxVerif.Lemmas.FreshHosts
namespace M.Rt

theorem drainReady_own (pn : Waker → Nat → World → Option (NextRes × World)) (pf : Nat) (cid : Nat) :
    ∀ (f : Nat) (w w' : World), drainReady (runTaskF (pollBlock pn pf)) f cid w = some w' → Own cid w → Own cid w' := by
  intro f
  induction f with
  | zero => intro w w' h; simp [drainReady] at h
  | succ f ih =>
    intro w w' h hw
    unfold drainReady at h
    split at h
    · simp only [Option.some.injEq] at h; subst h; exact hw
    · rename_i tid rest _
      have h0 : Own cid (w.modCmd cid fun c => { c with ready := rest }) :=
        hw.frame (fr_modCmd cid w cid _ (fun _ => rfl) (fun _ => rfl))
      simp only at h
      split at h
      · cases h
      · rename_i w1 hrt
        exact ih w1 w' h (runTaskF_own pn pf cid tid _ _ w1 hrt h0)
      · rename_i w1 hrt
        exact ih w1 w' h (runTaskF_own pn pf cid tid _ _ w1 hrt h0)
      · rename_i w1 hrt
        obtain ⟨t, hst⟩ := runTaskF_own pn pf cid tid _ _ w1 hrt h0
        exact ih _ w' h (finishTask_own_stale cid tid w1 t hst)
      · rename_i w1 hrt
        have := runTaskF_own pn pf cid tid _ _ w1 hrt h0
        exact ih _ w' h (finishTask_own cid tid w1 this)

theorem settleLoop_own (pn : Waker → Nat → World → Option (NextRes × World)) (pf : Nat) (cid : Nat) :
    ∀ (f : Nat) (w w' : World), settleLoop (runTaskF (pollBlock pn pf)) f cid w = some w' → Own cid w → Own cid w' := by
  intro f
  induction f with
  | zero => intro w w' h; simp [settleLoop] at h
  | succ f ih =>
    intro w w' h hw
    unfold settleLoop at h
    simp only at h
    have k0 := spawnNewTasks_own cid w hw
    split at h
    · simp only [Option.some.injEq] at h; subst h; exact k0
    · split at h
      · cases h
      · rename_i w1 hd
        exact ih w1 w' h (drainReady_own pn pf cid _ _ w1 hd k0)

theorem runUntilSettledF_own (pn : Waker → Nat → World → Option (NextRes × World)) (pf : Nat) (cid : Nat) (w w' : World)
    (h : runUntilSettledF (runTaskF (pollBlock pn pf)) cid w = some w') (hw : Own cid w) : Own cid w' := by
  unfold runUntilSettledF at h
  split at h
  · simp only [Option.some.injEq] at h
    subst h
    -- abort: every task is dropped, the slab cleared
    have hP : ∀ (l : List Task) (W : World), (∀ t ∈ l, hostFreeB t.fut = true) → Own cid W →
        Own cid (l.foldl (fun w t => w.dropTask t) W) := by
      intro l
      induction l with
      | nil => intro W _ h; exact h
      | cons t l ih =>
        intro W hl h
        simp only [List.foldl_cons]
        exact ih _ (fun x hx => hl x (by simp [hx])) (h.frame (fr_dropTask cid W t (hl t (by simp))))
    have h1 := hP (w.cmd cid).tasks.values w hw.hft hw
    generalize (List.foldl (fun w t => w.dropTask t) w (w.cmd cid).tasks.values) = W at h1 ⊢
    cases hc : W.cmds[cid]? with
    | none => exact h1.of_cmd_eq (cmd_modCmd_out _ cid _ hc) rfl
    | some c =>
      have hm := cmd_modCmd_in W cid (fun c => { c with tasks := ({} : Slab Task) }) c hc
      apply Own.of_bound
      · rw [hm.1]; intro t ht; simp [Slab.values] at ht
      · rw [hm.1]; exact h1.hfs
      · intro l
        rw [hm.1]
        have := h1.bound l
        unfold cmdCnt at this
        show cnt l (({} : Slab Task)).values + cnt l (W.cmd cid).spawnQ ≤ bnd W l
        have hz : cnt l (({} : Slab Task)).values = 0 := rfl
        rw [hz]
        omega
  · exact settleLoop_own pn pf cid _ w w' h hw

/-- the executor as instantiated: `runUntilSettled` -/
theorem runUntilSettled_own (cid : Nat) (w w' : World) (h : runUntilSettled cid w = some w') (hw : Own cid w) : Own cid w' :=
  runUntilSettledF_own _ loopFuel cid w w' h hw

theorem takeEffects_own (cid : Nat) (w : World) (es : List Eff) (w' : World) (h : takeEffects cid w = some (es, w'))
    (hw : Own cid w) : Own cid w' := by
  unfold takeEffects at h
  split at h
  · cases h
  · rename_i w1 hs
    simp only [Option.some.injEq, Prod.mk.injEq] at h
    obtain ⟨_, rfl⟩ := h
    exact (runUntilSettled_own cid w w1 hs hw).frame (fr_modCmd cid w1 cid _ (fun _ => rfl) (fun _ => rfl))

theorem takeEvents_own (cid : Nat) (w : World) (es : List Ev) (w' : World) (h : takeEvents cid w = some (es, w'))
    (hw : Own cid w) : Own cid w' := by
  unfold takeEvents at h
  split at h
  · cases h
  · rename_i w1 hs
    simp only [Option.some.injEq, Prod.mk.injEq] at h
    obtain ⟨_, rfl⟩ := h
    exact (runUntilSettled_own cid w w1 hs hw).frame (fr_modCmd cid w1 cid _ (fun _ => rfl) (fun _ => rfl))

theorem isDone_own (cid : Nat) (w : World) (d : Bool) (w' : World) (h : isDone cid w = some (d, w')) (hw : Own cid w) :
    Own cid w' := by
  unfold isDone at h
  split at h
  · cases h
  · rename_i w1 hs
    simp only [Option.some.injEq, Prod.mk.injEq] at h
    obtain ⟨_, rfl⟩ := h
    exact runUntilSettled_own cid w w1 hs hw

end M.Rt

namespace M.Hosts
open M.Rt

theorem Direct.observe_own (res : String) (d : Direct) (o : Obs) (d' : Direct) (h : d.observe res = some (o, d'))
    (hw : Own d.cid d.w) : Own d'.cid d'.w := by
  unfold Direct.observe at h
  cases h1 : takeEffects d.cid d.w with
  | none => simp [h1] at h
  | some p1 =>
    obtain ⟨effs, w1⟩ := p1
    have k1 := takeEffects_own _ _ _ _ h1 hw
    cases h2 : takeEvents d.cid w1 with
    | none => simp [h1, h2] at h
    | some p2 =>
      obtain ⟨evs, w2⟩ := p2
      have k2 := takeEvents_own _ _ _ _ h2 k1
      cases h3 : isDone d.cid w2 with
      | none => simp [h1, h2, h3] at h
      | some p3 =>
        obtain ⟨dn, w3⟩ := p3
        have k3 := isDone_own _ _ _ _ h3 k2
        simp [h1, h2, h3] at h
        obtain ⟨_, rfl⟩ := h
        exact k3

theorem Direct.step_own (d : Direct) (a : Action) (o : Obs) (d' : Direct) (h : d.step a = some (o, d'))
    (hw : Own d.cid d.w) : Own d'.cid d'.w := by
  unfold Direct.step at h
  cases a with
  | res k v =>
    simp only at h
    split at h
    · exact Direct.observe_own _ _ _ _ h hw
    · rename_i reqs res w1 hr
      unfold shellResolve at hr
      split at hr
      · cases hr
      · rename_i e _
        simp only [Option.some.injEq, Prod.mk.injEq] at hr
        obtain ⟨_, _, rfl⟩ := hr
        exact Direct.observe_own _ _ _ _ h (hw.frame (fr_resolveReq d.cid e.res v d.w))
  | drop k =>
    simp only at h
    split at h
    · exact Direct.observe_own _ _ _ _ h hw
    · rename_i reqs w1 hr
      unfold shellDrop at hr
      split at hr
      · cases hr
      · rename_i e _
        simp only [Option.some.injEq, Prod.mk.injEq] at hr
        obtain ⟨_, rfl⟩ := hr
        exact Direct.observe_own _ _ _ _ h (hw.frame (fr_dropReq d.cid e.res d.w))
  | abort n =>
    simp only at h
    refine Direct.observe_own _ _ _ _ h ?_
    show Own d.cid (doAbort n d.w)
    unfold doAbort
    split
    · exact hw.frame (fr_abortCmd d.cid d.w _)
    · exact hw
  | poll => exact Direct.observe_own _ _ _ _ h hw
  | ev _ _ => simp at h
  | rawRes _ _ _ => simp at h
  | rawEv _ _ => simp at h

/-- **Every request channel has at most one waiting task, over whole runs.** For every task program without combinators
    (host-free: any number of spawned tasks, `join!`, `select!`, streams, hand-offs, aborts) held directly by a test, after
    EVERY history of resolutions, drops, aborts and polls: every leaf channel is referenced by at most one suspended or
    queued task of the command, and no task references a channel that does not exist. -/
theorem runDirect_own (is : List Instr) (hf : hostFreeIs is = true) (canon : Bool) (acts : List Action) (os : List Obs)
    (d : Direct) (h : runDirect (.task is) canon acts = some (os, d)) : Own d.cid d.w := by
  unfold runDirect at h
  have h0 : Own (Direct.new (.task is) canon).cid (Direct.new (.task is) canon).w := by
    unfold Direct.new
    simp only [instantiate, newCmd, World.newMeta]
    apply Own.of_bound
    · intro t ht
      simp [World.cmd, Slab.insert, Slab.empty, Slab.values] at ht
      subst ht
      simp [hostFreeB, hostFreeP, hf]
    · intro t ht; simp [World.cmd] at ht
    · intro l
      simp [World.cmd, cmdCnt, cnt, Slab.insert, Slab.empty, Slab.values, taskRefs, refsB, refsP]
  cases h1 : (Direct.new (.task is) canon).observe "-" with
  | none => simp [h1] at h
  | some p1 =>
    obtain ⟨o, d1⟩ := p1
    have k1 := Direct.observe_own _ _ _ _ h1 h0
    cases h2 : runSteps Direct.step d1 acts with
    | none => simp [h1, h2] at h
    | some p2 =>
      obtain ⟨os2, d2⟩ := p2
      simp [h1, h2] at h
      obtain ⟨_, rfl⟩ := h
      exact runSteps_inv Direct.step (fun d => Own d.cid d.w) Direct.step_own acts d1 os2 _ h2 k1

end M.Hosts
