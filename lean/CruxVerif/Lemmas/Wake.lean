/- `wake_reaches_root`: waking a task of a command nested at ANY depth re-queues every hosting task on the way up
   and finally the executor task at the root (CommandWaker::wake_by_ref + AtomicWaker + TaskWaker). -/
import CruxVerif.Lemmas.RtBasic
namespace M.Rt

/-- a hosting chain in world `w`: the woken task (cid, tid, serial), then the task of the hosting command that
    polled it (its token sits in the hosted command's AtomicWaker), and so on; the outermost command's AtomicWaker
    holds `top` (a root waker when hosted in the Core, or nothing when held directly by a test) -/
inductive Chain (w : World) : List (Nat × Nat × Nat) → Option Waker → Prop where
  | last (cid tid serial : Nat) (top : Option Waker) (h : (w.cmd cid).waker = top) :
      Chain w [(cid, tid, serial)] top
  | cons (cid tid serial : Nat) (p : Nat × Nat × Nat) (rest : List (Nat × Nat × Nat)) (top : Option Waker)
      (h : (w.cmd cid).waker = some (.task p.1 p.2.1 p.2.2)) (tl : Chain w (p :: rest) top) :
      Chain w ((cid, tid, serial) :: p :: rest) top

theorem cmd_waker_modCmd_other (w : World) (cid c : Nat) (f : CmdSt → CmdSt) (h : cid ≠ c) :
    ((w.modCmd cid f).cmd c).waker = (w.cmd c).waker := by rw [World.cmd_modCmd_other _ _ _ _ h]

/-- changing command `cid` does not disturb a chain that does not pass through `cid` -/
theorem Chain.frame {w : World} {l : List (Nat × Nat × Nat)} {top : Option Waker} (hc : Chain w l top)
    (cid : Nat) (f : CmdSt → CmdSt) (hnot : ∀ p ∈ l, p.1 ≠ cid) (woken : List Nat) :
    Chain { (w.modCmd cid f) with woken := woken } l top := by
  induction hc with
  | last c t s top h =>
    refine Chain.last c t s top ?_
    have : cid ≠ c := fun e => hnot (c, t, s) (by simp) e.symm
    show ((w.modCmd cid f).cmd c).waker = top
    rw [cmd_waker_modCmd_other _ _ _ _ this]; exact h
  | cons c t s p rest top h tl ih =>
    refine Chain.cons c t s p rest top ?_ (ih (fun q hq => hnot q (by simp [hq])))
    have : cid ≠ c := fun e => hnot (c, t, s) (by simp) e.symm
    show ((w.modCmd cid f).cmd c).waker = _
    rw [cmd_waker_modCmd_other _ _ _ _ this]; exact h

/-- the ready queue of `c` after waking along a chain: every command on the chain gets its task id appended (if it is
    alive); here: the executor's ready queue receives the root task id -/
theorem wake_reaches_root : ∀ (l : List (Nat × Nat × Nat)) (w : World) (etid : Nat) (fuel : Nat),
    Chain w l (some (.root etid)) → (l.map (·.1)).Nodup → l.length ≤ fuel →
    ∀ p ∈ l.head?, (wake fuel (.task p.1 p.2.1 p.2.2) w).execReady = w.execReady ++ [etid] := by
  intro l
  induction l with
  | nil => intro w etid fuel hc; cases hc
  | cons q rest ih =>
    intro w etid fuel hc hnd hlen p hp
    simp only [List.head?_cons, Option.mem_def, Option.some.injEq] at hp
    subst hp
    obtain ⟨cid, tid, serial⟩ := q
    cases fuel with
    | zero => simp at hlen
    | succ fuel =>
      cases hc with
      | last _ _ _ _ h =>
        unfold wake
        simp only [h]
        cases fuel <;> simp [wake, World.modCmd] <;> split <;> simp
      | cons _ _ _ p' rest' _ h tl =>
        unfold wake
        simp only [h]
        have hnd' : ((p' :: rest').map (·.1)).Nodup := (List.nodup_cons.mp hnd).2
        have hnot : ∀ r ∈ p' :: rest', r.1 ≠ cid := by
          intro r hr e
          have := (List.nodup_cons.mp hnd).1
          exact this (List.mem_map.mpr ⟨r, hr, e⟩)
        have hlen' : (p' :: rest').length ≤ fuel := by simp at hlen ⊢; omega
        -- the world the parent is woken in: command `cid` modified twice, `woken` extended
        split
        · have hch := (Chain.frame (Chain.frame tl cid (fun c => { c with ready := c.ready ++ [tid] }) hnot w.woken)
            cid (fun c => { c with waker := none }) hnot (serial :: w.woken))
          have := ih _ etid fuel hch hnd' hlen' p' (by simp)
          simpa [World.modCmd] using this
        · have hch := Chain.frame tl cid (fun c => { c with waker := none }) hnot (serial :: w.woken)
          have := ih _ etid fuel hch hnd' hlen' p' (by simp)
          simpa [World.modCmd] using this

end M.Rt
