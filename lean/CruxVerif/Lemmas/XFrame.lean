/-
The Core-side queues (executor spawn queue, effect channel, event channel) are untouched by everything that happens
inside a command: polls with a command sink at every nesting depth, run_task, run_until_settled, poll_next, drops, wakes.
Only the Core's own spawner / legacy tasks write them.
-/
import CruxVerif.Lemmas.GRun
namespace M.Rt

/-- the Core-side queues of a world -/
def X (w : World) : List ExecTask × List Eff × List Ev := (w.execSpawn, w.coreEffects, w.coreEvents)

@[simp] theorem X_modCmd (w : World) (c : Nat) (f : CmdSt → CmdSt) : X (w.modCmd c f) = X w := rfl
@[simp] theorem X_modLeaf (w : World) (c : Nat) (f : Leaf → Leaf) : X (w.modLeaf c f) = X w := rfl
@[simp] theorem X_modMeta (w : World) (c : Nat) (f : Meta → Meta) : X (w.modMeta c f) = X w := rfl
@[simp] theorem X_newLeaf (w : World) (k : Option Waker) (lg : Bool) : X (w.newLeaf k lg).2 = X w := rfl
@[simp] theorem X_newMeta (w : World) : X w.newMeta.2 = X w := rfl
@[simp] theorem X_pushEffect (w : World) (c : Nat) (e : Eff) : X (w.pushEffect c e) = X w := rfl
@[simp] theorem X_pushEvent (w : World) (c : Nat) (e : Ev) : X (w.pushEvent c e) = X w := rfl
@[simp] theorem X_sinkEffect (w : World) (c : Nat) (e : Eff) : X (w.sinkEffect (.cmd c) e) = X w := rfl
@[simp] theorem X_sinkEvent (w : World) (c : Nat) (e : Ev) : X (w.sinkEvent (.cmd c) e) = X w := rfl
@[simp] theorem X_anomaly (w : World) (s : String) : X (w.anomaly s) = X w := rfl
@[simp] theorem X_dropReceiver (w : World) (l : Nat) : X (w.dropReceiver l) = X w := rfl
@[simp] theorem X_forward (w : World) (c : Nat) (o : Output) : X (w.forward c o) = X w := by cases o <;> rfl

theorem X_of_fields {w w' : World} (h1 : w'.execSpawn = w.execSpawn) (h2 : w'.coreEffects = w.coreEffects)
    (h3 : w'.coreEvents = w.coreEvents) : X w' = X w := by simp [X, h1, h2, h3]

@[simp] theorem X_wake : ∀ (f : Nat) (wk : Waker) (w : World), X (wake f wk w) = X w := by
  intro f
  induction f with
  | zero => intro wk w; cases wk <;> rfl
  | succ f ih =>
    intro wk w
    cases wk with
    | root e => rfl
    | task c t s =>
      simp only [wake]
      split
      · split <;> rfl
      · rw [ih]; split <;> rfl

@[simp] theorem X_World_wake (w : World) (wk : Waker) : X (w.wake wk) = X w := X_wake _ wk w

@[simp] theorem X_wakeAll (wks : List Waker) : ∀ (w : World), X (w.wakeAll wks) = X w := by
  induction wks with
  | nil => intro w; rfl
  | cons k ks ih => intro w; simp only [World.wakeAll, List.foldl_cons] at ih ⊢; rw [ih]; exact X_World_wake w k

@[simp] theorem X_abortCmd (w : World) (c : Nat) : X (w.abortCmd c) = X w := by
  unfold World.abortCmd
  simp only
  split
  · rfl
  · rw [X_World_wake]; rfl

@[simp] theorem X_dropSender (w : World) (l : Nat) : X (w.dropSender l) = X w := by
  unfold World.dropSender
  simp only
  split
  · rfl
  · split
    · rw [X_World_wake]; rfl
    · rfl

@[simp] theorem X_dropEff (w : World) (e : Eff) : X (dropEff w e) = X w := by
  unfold dropEff
  split <;> simp

theorem X_foldl {α : Type} (g : World → α → World) (hg : ∀ W a, X (g W a) = X W) : ∀ (l : List α) (W : World), X (l.foldl g W) = X W
  | [], W => rfl
  | a :: l, W => by simp only [List.foldl_cons]; rw [X_foldl g hg l, hg]

mutual
theorem X_dropBlock (dc : Nat → World → World) (hdc : ∀ c w, X (dc c w) = X w) : (b : Block) → (w : World) → X (dropBlock dc b w) = X w
  | .mk env cur rest, w => by
    simp only [dropBlock]
    rw [X_foldl _ (fun W i => by cases i <;> simp [hdc])]
    exact X_dropPend dc hdc cur w
theorem X_dropPend (dc : Nat → World → World) (hdc : ∀ c w, X (dc c w) = X w) : (p : Pend) → (w : World) → X (dropPend dc p w) = X w
  | .idle, w => by simp only [dropPend]
  | .reqDead, w => by simp only [dropPend]
  | .await _, w => by simp only [dropPend]
  | .selfwake _, w => by simp only [dropPend]
  | .req _ l, w => by simp only [dropPend, X_dropReceiver]
  | .streamWait _ l _ _ _, w => by simp only [dropPend, X_dropReceiver]
  | .streamBody _ l _ _ _ inner, w => by simp only [dropPend, X_dropReceiver]; exact X_dropBlock dc hdc inner w
  | .join a b ad bd, w => by
    simp only [dropPend]
    cases ad <;> cases bd <;> simp only [if_true, Bool.false_eq_true, if_false]
    · rw [X_dropBlock dc hdc b, X_dropBlock dc hdc a]
    · exact X_dropBlock dc hdc a w
    · exact X_dropBlock dc hdc b w
  | .select a b, w => by simp only [dropPend]; rw [X_dropBlock dc hdc b, X_dropBlock dc hdc a]
  | .host c _, w => by simp only [dropPend]; exact hdc c w
end

theorem X_dropTask (dc : Nat → World → World) (hdc : ∀ c w, X (dc c w) = X w) (t : Task) (w : World) : X (dropTask dc t w) = X w := by
  unfold dropTask
  simp only
  rw [X_dropBlock dc hdc]; rfl

end M.Rt

namespace M.Rt

@[simp] theorem X_dropCmdAt : ∀ (f c : Nat) (w : World), X (dropCmdAt f c w) = X w := by
  intro f
  induction f with
  | zero => intro c w; rfl
  | succ f ih =>
    intro c w
    simp only [dropCmdAt]
    split
    · rfl
    · rw [X_foldl _ (fun W t => X_dropTask _ ih t W), X_foldl _ (fun W t => X_dropTask _ ih t W)]
      split
      · rfl
      · rw [X_anomaly, X_foldl _ (fun W e => X_dropEff W e)]; rfl

@[simp] theorem X_World_dropCmd (w : World) (c : Nat) : X (w.dropCmd c) = X w := X_dropCmdAt _ c w
@[simp] theorem X_World_dropBlock (w : World) (b : Block) : X (w.dropBlock b) = X w := X_dropBlock _ (fun c w => X_World_dropCmd w c) b w
@[simp] theorem X_World_dropTask (w : World) (t : Task) : X (w.dropTask t) = X w := X_dropTask _ (fun c w => X_World_dropCmd w c) t w

def PnX (pn : Waker → Nat → World → Option (NextRes × World)) : Prop :=
  ∀ wk c w r w', pn wk c w = some (r, w') → X w' = X w

theorem hostLoop_x (pn) (hpn : PnX pn) : ∀ (f : Nat) (wk : Waker) (me c : Nat) (m : Mapper) (w : World) (d : Bool)
    (w' : World), hostLoop pn f wk me c m w = some (d, w') → X w' = X w := by
  intro f
  induction f with
  | zero => intro wk me c m w d w' h; simp [hostLoop] at h
  | succ f ih =>
    intro wk me c m w d w' h
    unfold hostLoop at h
    cases hp : pn wk c w with
    | none => simp [hp] at h
    | some res =>
      obtain ⟨nr, w1⟩ := res
      have hk := hpn wk c w nr w1 hp
      cases nr with
      | item o =>
        simp only [hp] at h
        rw [ih _ _ _ _ _ _ _ h, X_forward, hk]
      | finished =>
        simp only [hp, Option.some.injEq, Prod.mk.injEq] at h
        obtain ⟨_, rfl⟩ := h
        exact hk
      | pending =>
        simp only [hp, Option.some.injEq, Prod.mk.injEq] at h
        obtain ⟨_, rfl⟩ := h
        exact hk

def XGood (pn : Waker → Nat → World → Option (NextRes × World)) (f : Nat) : Prop :=
  ∀ wk p b w r w', pollBlock pn f wk (.cmd p) b w = some (r, w') → X w' = X w

theorem xgood_succ (pn) (hpn : PnX pn) (f : Nat) (ih : XGood pn f) : XGood pn (f + 1) := by
  intro wk p b w r w' h
  obtain ⟨env, cur, rest⟩ := b
  have hl := hostLoop_x pn hpn f wk
  unfold pollBlock at h
  simp only at h
  unfold XGood at ih
  grind [X_modCmd, X_modLeaf, X_modMeta, X_newLeaf, X_newMeta, X_sinkEffect, X_sinkEvent, X_dropReceiver, X_World_wake,
    X_abortCmd, X_World_dropCmd, X_World_dropBlock]

end M.Rt

namespace M.Rt

theorem pollBlock_xgood (pn) (hpn : PnX pn) : ∀ f, XGood pn f
  | 0 => by intro wk p b w r w' h; simp [pollBlock] at h
  | f + 1 => xgood_succ pn hpn f (pollBlock_xgood pn hpn f)

def PollX (poll : Waker → Sink → Block → World → Option (PollRes × World)) : Prop :=
  ∀ wk p b w r w', poll wk (.cmd p) b w = some (r, w') → X w' = X w
def RunX (runTask : Nat → Nat → World → Option (TaskState × World)) : Prop :=
  ∀ c tid w st w', runTask c tid w = some (st, w') → X w' = X w
def SettleX (settle : Nat → World → Option World) : Prop :=
  ∀ c w w', settle c w = some w' → X w' = X w

@[simp] theorem X_nextSerial (w : World) (n : Nat) : X ({ w with nextSerial := n } : World) = X w := rfl
@[simp] theorem X_woken (w : World) (l : List Nat) : X ({ w with woken := l } : World) = X w := rfl

theorem runTaskF_x (poll) (hp : PollX poll) : RunX (runTaskF poll) := by
  intro c tid w st w' h
  unfold runTaskF at h
  unfold PollX at hp
  grind [X_modCmd, X_nextSerial, X_woken]

@[simp] theorem X_spawnNewTasks (c : Nat) (w : World) : X (spawnNewTasks c w) = X w := by
  unfold spawnNewTasks
  rw [X_foldl _ (fun W t => X_modCmd W c _)]
  rfl

@[simp] theorem X_finishTask (c tid : Nat) (w : World) : X (finishTask c tid w) = X w := by
  unfold finishTask
  simp only
  split
  · rfl
  · simp

theorem drainReady_x (runTask) (hr : RunX runTask) : ∀ (f c : Nat) (w w' : World), drainReady runTask f c w = some w' → X w' = X w := by
  intro f
  induction f with
  | zero => intro c w w' h; simp [drainReady] at h
  | succ f ih =>
    intro c w w' h
    unfold drainReady at h
    unfold RunX at hr
    grind [X_modCmd, X_finishTask]

theorem settleLoop_x (runTask) (hr : RunX runTask) : ∀ (f c : Nat) (w w' : World), settleLoop runTask f c w = some w' → X w' = X w := by
  intro f
  induction f with
  | zero => intro c w w' h; simp [settleLoop] at h
  | succ f ih =>
    intro c w w' h
    unfold settleLoop at h
    have hd := drainReady_x runTask hr (f + 1) c
    grind [X_spawnNewTasks]

theorem runUntilSettledF_x (runTask) (hr : RunX runTask) : SettleX (runUntilSettledF runTask) := by
  intro c w w' h
  unfold runUntilSettledF at h
  split at h
  · simp only [Option.some.injEq] at h
    subst h
    rw [X_modCmd, X_foldl _ (fun W t => X_World_dropTask W t)]
  · exact settleLoop_x runTask hr _ c w w' h

theorem pollNextF_x (settle) (hs : SettleX settle) : PnX (pollNextF settle) := by
  intro wk c w r w' h
  unfold pollNextF at h
  unfold SettleX at hs
  grind [X_modCmd]

theorem pollAt_x : ∀ d, PollX (pollAt d)
  | 0 => by intro wk p b w r w' h; simp [pollAt] at h
  | d + 1 => by
    intro wk p b w r w' h
    exact pollBlock_xgood _ (pollNextF_x _ (runUntilSettledF_x _ (runTaskF_x _ (pollAt_x d)))) loopFuel wk p b w r w' h

theorem runTask_x : RunX runTask := runTaskF_x _ (pollAt_x depthFuel)
theorem runUntilSettled_x : SettleX runUntilSettled := runUntilSettledF_x _ runTask_x
theorem pollNext_x : PnX pollNext := pollNextF_x _ runUntilSettled_x

end M.Rt
