/- The hosting forest stays ordered by index in every world the direct host of any command reaches. -/
import CruxVerif.Lemmas.HostLtBuild
import CruxVerif.Lemmas.FreshHosts
namespace M.Rt

theorem tk0_resolveReq (r : Resolve) (v : Val) (w : World) : TK0 w (resolveReq r v w).2.2 := by
  unfold resolveReq
  cases r with
  | never => exact TKp.refl w
  | gone => exact TKp.refl w
  | once l =>
    simp only
    split
    · split
      · exact TKp.trans (TKp.trans (w2 := w.modLeaf l fun lf => { lf with queue := lf.queue ++ [v], waker := none })
          (tk_of_cmds rfl) (tk_World_wake _ _)) (tk0_dropSender _ l)
      · exact TKp.trans (w2 := w.modLeaf l fun lf => { lf with queue := lf.queue ++ [v], waker := none })
          (tk_of_cmds rfl) (tk0_dropSender _ l)
    · exact tk0_dropSender w l
  | many l =>
    simp only
    split
    · split
      · exact TKp.trans (w2 := w.modLeaf l fun lf => { lf with queue := lf.queue ++ [v], waker := none })
          (tk_of_cmds rfl) (tk_World_wake _ _)
      · exact tk_of_cmds rfl
    · exact TKp.refl w

theorem tk0_dropReq (r : Resolve) (w : World) : TK0 w (dropReq r w).2 := by
  unfold dropReq
  split
  · exact tk0_dropSender w _
  · exact tk0_dropSender w _
  · exact TKp.refl w
  · exact TKp.refl w

theorem takeEffects_hl (cid : Nat) (w : World) (es : List Eff) (w' : World) (h : takeEffects cid w = some (es, w'))
    (hw : HL w) : HL w' := by
  unfold takeEffects at h
  split at h
  · cases h
  · rename_i w1 hs
    simp only [Option.some.injEq, Prod.mk.injEq] at h
    obtain ⟨_, rfl⟩ := h
    have f0 : TK0 w1 (w1.modCmd cid fun c => { c with effects := [] }) := tk_modCmd w1 cid _ (fun _ => rfl) (fun _ => rfl)
    exact (runUntilSettled_hl cid w w1 hs hw).1.tk0 f0

theorem takeEvents_hl (cid : Nat) (w : World) (es : List Ev) (w' : World) (h : takeEvents cid w = some (es, w'))
    (hw : HL w) : HL w' := by
  unfold takeEvents at h
  split at h
  · cases h
  · rename_i w1 hs
    simp only [Option.some.injEq, Prod.mk.injEq] at h
    obtain ⟨_, rfl⟩ := h
    have f0 : TK0 w1 (w1.modCmd cid fun c => { c with events := [] }) := tk_modCmd w1 cid _ (fun _ => rfl) (fun _ => rfl)
    exact (runUntilSettled_hl cid w w1 hs hw).1.tk0 f0

theorem isDone_hl (cid : Nat) (w : World) (d : Bool) (w' : World) (h : isDone cid w = some (d, w')) (hw : HL w) : HL w' := by
  unfold isDone at h
  split at h
  · cases h
  · rename_i w1 hs
    simp only [Option.some.injEq, Prod.mk.injEq] at h
    obtain ⟨_, rfl⟩ := h
    exact (runUntilSettled_hl cid w w1 hs hw).1

end M.Rt

namespace M.Hosts
open M.Rt

theorem Direct.observe_hl (res : String) (d : Direct) (o : Obs) (d' : Direct) (h : d.observe res = some (o, d'))
    (hw : HL d.w) : HL d'.w := by
  unfold Direct.observe at h
  cases h1 : takeEffects d.cid d.w with
  | none => simp [h1] at h
  | some p1 =>
    obtain ⟨effs, w1⟩ := p1
    have k1 := takeEffects_hl _ _ _ _ h1 hw
    cases h2 : takeEvents d.cid w1 with
    | none => simp [h1, h2] at h
    | some p2 =>
      obtain ⟨evs, w2⟩ := p2
      have k2 := takeEvents_hl _ _ _ _ h2 k1
      cases h3 : isDone d.cid w2 with
      | none => simp [h1, h2, h3] at h
      | some p3 =>
        obtain ⟨dn, w3⟩ := p3
        have k3 := isDone_hl _ _ _ _ h3 k2
        simp [h1, h2, h3] at h
        obtain ⟨_, rfl⟩ := h
        exact k3

theorem Direct.step_hl (d : Direct) (a : Action) (o : Obs) (d' : Direct) (h : d.step a = some (o, d'))
    (hw : HL d.w) : HL d'.w := by
  unfold Direct.step at h
  cases a with
  | res k v =>
    simp only at h
    split at h
    · exact Direct.observe_hl _ _ _ _ h hw
    · rename_i reqs res w1 hr
      unfold shellResolve at hr
      split at hr
      · cases hr
      · rename_i e _
        simp only [Option.some.injEq, Prod.mk.injEq] at hr
        obtain ⟨_, _, rfl⟩ := hr
        exact Direct.observe_hl _ _ _ _ h (hw.tk0 (tk0_resolveReq e.res v d.w))
  | drop k =>
    simp only at h
    split at h
    · exact Direct.observe_hl _ _ _ _ h hw
    · rename_i reqs w1 hr
      unfold shellDrop at hr
      split at hr
      · cases hr
      · rename_i e _
        simp only [Option.some.injEq, Prod.mk.injEq] at hr
        obtain ⟨_, rfl⟩ := hr
        exact Direct.observe_hl _ _ _ _ h (hw.tk0 (tk0_dropReq e.res d.w))
  | abort n =>
    simp only at h
    refine Direct.observe_hl _ _ _ _ h ?_
    show HL (doAbort n d.w)
    unfold doAbort
    split
    · exact hw.tk0 (tk_abortCmd d.w _)
    · exact hw
  | poll => exact Direct.observe_hl _ _ _ _ h hw
  | ev _ _ => simp at h
  | rawRes _ _ _ => simp at h
  | rawEv _ _ => simp at h

theorem HL_empty : HL ({} : World) := by
  refine ⟨?_, ?_⟩ <;> (intro q t ht; simp [World.cmd, Slab.values] at ht)

/-- for EVERY command built from host-free task bodies with any nesting of combinators, and EVERY history: in the world
    the direct host reaches, every stored task hosts only commands with an index below its own command's -/
theorem runDirect_hl (c : Cmd) (hc : cmdHF c = true) (canon : Bool) (acts : List Action) (os : List Obs) (d : Direct)
    (h : runDirect c canon acts = some (os, d)) : HL d.w := by
  unfold runDirect at h
  have h0 : HL (Direct.new c canon).w := by
    unfold Direct.new
    exact (instantiate_built {} c {} hc HL_empty).hl
  cases h1 : (Direct.new c canon).observe "-" with
  | none => simp [h1] at h
  | some p1 =>
    obtain ⟨o, d1⟩ := p1
    have k1 := Direct.observe_hl _ _ _ _ h1 h0
    cases h2 : runSteps Direct.step d1 acts with
    | none => simp [h1, h2] at h
    | some p2 =>
      obtain ⟨os2, d2⟩ := p2
      simp [h1, h2] at h
      obtain ⟨_, rfl⟩ := h
      exact runSteps_inv Direct.step (fun d => HL d.w) Direct.step_hl acts d1 os2 _ h2 k1

end M.Hosts
