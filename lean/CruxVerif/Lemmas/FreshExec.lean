/- Freshness through the command executor: run_task, run_until_settled, poll_next, and the knot on the nesting depth. -/
import CruxVerif.Lemmas.FreshPoll
namespace M.Rt

def PollOk (poll : Waker → Sink → Block → World → Option (PollRes × World)) : Prop :=
  ∀ wk sink b w r w', poll wk sink b w = some (r, w') → wkB w.nextSerial wk → SOk w → Keeps w w'

def RunOk (runTask : Nat → Nat → World → Option (TaskState × World)) : Prop :=
  ∀ cid tid w st w', runTask cid tid w = some (st, w') → SOk w → Keeps w w'

def SettleOk (settle : Nat → World → Option World) : Prop :=
  ∀ cid w w', settle cid w = some w' → SOk w → Keeps w w'

theorem Keeps.trans {w1 w2 w3 : World} (h12 : Keeps w1 w2) (h23 : Keeps w2 w3) : Keeps w1 w3 :=
  ⟨h23.1, Nat.le_trans h12.2 h23.2⟩

theorem Keeps.of_step {w w1 : World} (h : SOk w) (hn : w1.nextSerial = w.nextSerial) (hs : SOkN w.nextSerial w1) :
    Keeps w w1 := h.step hn hs

/-- `run_task` hands out a FRESH serial: the counter itself, which nothing in a good world mentions -/
theorem runTaskF_ok (poll) (hp : PollOk poll) : RunOk (runTaskF poll) := by
  intro cid tid w st w' h hw
  unfold runTaskF at h
  split at h
  · simp only [Option.some.injEq, Prod.mk.injEq] at h; obtain ⟨_, rfl⟩ := h; exact Keeps.refl hw
  · rename_i t hg
    split at h
    · simp only [Option.some.injEq, Prod.mk.injEq] at h; obtain ⟨_, rfl⟩ := h; exact Keeps.refl hw
    · dsimp only at h
      have hw0 : SOk ({ w with nextSerial := w.nextSerial + 1 } : World) := by
        have : SOkN (w.nextSerial + 1) w := SOkN.mono (Nat.le_succ _) hw
        exact this.of_same rfl rfl rfl rfl
      have hwk : wkB ({ w with nextSerial := w.nextSerial + 1 } : World).nextSerial (.task cid tid w.nextSerial) :=
        Nat.lt_succ_self _
      split at h
      · cases h
      · rename_i env1 w1 hpoll
        simp only [Option.some.injEq, Prod.mk.injEq] at h
        obtain ⟨_, rfl⟩ := h
        have k := hp _ _ _ _ _ _ hpoll hwk hw0
        exact ⟨k.1, Nat.le_trans (Nat.le_succ _) k.2⟩
      · rename_i b w1 hpoll
        have k := hp _ _ _ _ _ _ hpoll hwk hw0
        have k0 : w.nextSerial ≤ w1.nextSerial := Nat.le_trans (Nat.le_succ _) k.2
        have h2 : SOk (w1.modCmd cid fun c => { c with tasks := c.tasks.set tid { t with fut := b } }) := by
          refine k.1.keep rfl ?_
          refine SOkN.modCmd k.1 cid _ ?_
          intro _ hx; exact hx
        have h3 : ∀ (W : World) (p : Nat → Bool), SOk W → SOk ({ W with woken := W.woken.filter p } : World) := by
          intro W p hW
          exact ⟨hW.leaves, hW.metas, hW.cmds, fun s hs => hW.woken s (List.mem_filter.mp hs).1⟩
        split at h
        · simp only [Option.some.injEq, Prod.mk.injEq] at h; obtain ⟨_, rfl⟩ := h
          exact ⟨h3 _ _ h2, k0⟩
        · simp only [Option.some.injEq, Prod.mk.injEq] at h; obtain ⟨_, rfl⟩ := h
          exact ⟨h3 _ _ h2, k0⟩

theorem spawnNewTasks_keeps (cid : Nat) (w : World) (hw : SOk w) : Keeps w (spawnNewTasks cid w) := by
  unfold spawnNewTasks
  have hP : ∀ (l : List Task) (W : World), SOk W ∧ W.nextSerial = w.nextSerial →
      SOk (l.foldl (fun w t => w.modCmd cid fun c =>
        let (tid, tasks) := c.tasks.insert t
        { c with tasks := tasks, ready := c.ready ++ [tid] }) W) ∧
      (l.foldl (fun w t => w.modCmd cid fun c =>
        let (tid, tasks) := c.tasks.insert t
        { c with tasks := tasks, ready := c.ready ++ [tid] }) W).nextSerial = w.nextSerial := by
    intro l
    induction l with
    | nil => intro W h; exact h
    | cons t l ih =>
      intro W h
      simp only [List.foldl_cons]
      apply ih
      refine ⟨?_, h.2⟩
      refine h.1.keep rfl ?_
      refine SOkN.modCmd h.1 cid _ ?_
      intro _ hx; exact hx
  have h0 : SOk (w.modCmd cid fun c => { c with spawnQ := [] }) := by
    refine hw.keep rfl ?_
    refine SOkN.modCmd hw cid _ ?_
    intro _ hx; exact hx
  have := hP (w.cmd cid).spawnQ _ ⟨h0, rfl⟩
  exact ⟨this.1, by rw [this.2]; exact Nat.le_refl _⟩

theorem finishTask_keeps (cid tid : Nat) (w : World) (hw : SOk w) : Keeps w (finishTask cid tid w) := by
  unfold finishTask
  simp only
  split
  · exact Keeps.refl hw
  · rename_i t tasks _
    have hN : SOkN w.nextSerial w := hw
    have h1 : SOkN w.nextSerial (w.modCmd cid fun c => { c with tasks := tasks }) := by
      refine SOkN.modCmd hN cid _ ?_
      intro _ hx; exact hx
    have hks := h1.meta_wakers t.serial
    have h2 : SOkN w.nextSerial ((w.modCmd cid fun c => { c with tasks := tasks }).modMeta t.serial fun m =>
        { m with finished := true, joinWakers := [] }) := by
      refine h1.modMeta t.serial _ ?_
      intro _ _ k hk; cases hk
    have h3 := SOkN.wakeAll _ _ h2 hks
    have h4 := SOkN.World_dropTask h3 t
    refine Keeps.of_step hw ?_ h4
    rw [ns_World_dropTask, ns_wakeAll]; rfl

theorem drainReady_keeps (runTask) (hr : RunOk runTask) : ∀ (f cid : Nat) (w w' : World),
    drainReady runTask f cid w = some w' → SOk w → Keeps w w' := by
  intro f
  induction f with
  | zero => intro cid w w' h; simp [drainReady] at h
  | succ f ih =>
    intro cid w w' h hw
    unfold drainReady at h
    split at h
    · simp only [Option.some.injEq] at h; subst h; exact Keeps.refl hw
    · rename_i tid rest _
      have h0 : Keeps w (w.modCmd cid fun c => { c with ready := rest }) := by
        refine Keeps.of_step hw rfl ?_
        refine SOkN.modCmd hw cid _ ?_
        intro _ hx; exact hx
      simp only at h
      split at h
      · cases h
      · rename_i w1 hrt
        have k1 := hr _ _ _ _ _ hrt h0.1
        exact (h0.trans k1).trans (ih cid w1 w' h k1.1)
      · rename_i w1 hrt
        have k1 := hr _ _ _ _ _ hrt h0.1
        exact (h0.trans k1).trans (ih cid w1 w' h k1.1)
      · rename_i w1 hrt
        have k1 := hr _ _ _ _ _ hrt h0.1
        have k2 := finishTask_keeps cid tid w1 k1.1
        exact ((h0.trans k1).trans k2).trans (ih cid _ w' h k2.1)
      · rename_i w1 hrt
        have k1 := hr _ _ _ _ _ hrt h0.1
        have k2 := finishTask_keeps cid tid w1 k1.1
        exact ((h0.trans k1).trans k2).trans (ih cid _ w' h k2.1)

theorem settleLoop_keeps (runTask) (hr : RunOk runTask) : ∀ (f cid : Nat) (w w' : World),
    settleLoop runTask f cid w = some w' → SOk w → Keeps w w' := by
  intro f
  induction f with
  | zero => intro cid w w' h; simp [settleLoop] at h
  | succ f ih =>
    intro cid w w' h hw
    unfold settleLoop at h
    simp only at h
    have k0 := spawnNewTasks_keeps cid w hw
    split at h
    · simp only [Option.some.injEq] at h; subst h; exact k0
    · split at h
      · cases h
      · rename_i w1 hd
        have k1 := drainReady_keeps runTask hr _ cid _ w1 hd k0.1
        exact (k0.trans k1).trans (ih cid w1 w' h k1.1)

theorem runUntilSettledF_ok (runTask) (hr : RunOk runTask) : SettleOk (runUntilSettledF runTask) := by
  intro cid w w' h hw
  unfold runUntilSettledF at h
  split at h
  · simp only [Option.some.injEq] at h
    subst h
    have hP : ∀ (l : List Task) (W : World), SOk W ∧ W.nextSerial = w.nextSerial →
        SOk (l.foldl (fun w t => w.dropTask t) W) ∧ (l.foldl (fun w t => w.dropTask t) W).nextSerial = w.nextSerial := by
      intro l
      induction l with
      | nil => intro W h; exact h
      | cons t l ih =>
        intro W h
        simp only [List.foldl_cons]
        apply ih
        exact ⟨h.1.keep (ns_World_dropTask W t) (SOkN.World_dropTask h.1 t), (ns_World_dropTask W t).trans h.2⟩
    have := hP (w.cmd cid).tasks.values w ⟨hw, rfl⟩
    refine ⟨?_, ?_⟩
    · refine this.1.keep rfl ?_
      refine SOkN.modCmd this.1 cid _ ?_
      intro _ hx; exact hx
    · show w.nextSerial ≤ (List.foldl (fun w t => w.dropTask t) w (w.cmd cid).tasks.values).nextSerial
      rw [this.2]; exact Nat.le_refl _
  · exact settleLoop_keeps runTask hr _ cid w w' h hw

theorem pollNextF_ok (settle) (hs : SettleOk settle) : PnOk (pollNextF settle) := by
  intro wk cid w r w' h hwk hw
  unfold pollNextF at h
  simp only at h
  have k0 : Keeps w (w.modCmd cid fun c => { c with waker := some wk }) := by
    refine Keeps.of_step hw rfl ?_
    refine SOkN.modCmd hw cid _ ?_
    intro _ _; exact hwk
  split at h
  · cases h
  · rename_i w1 hs1
    have k1 := hs _ _ _ hs1 k0.1
    have k01 := k0.trans k1
    split at h
    · simp only [Option.some.injEq, Prod.mk.injEq] at h
      obtain ⟨_, rfl⟩ := h
      refine k01.trans (Keeps.of_step k1.1 rfl ?_)
      refine SOkN.modCmd k1.1 cid _ ?_
      intro _ hx; exact hx
    · split at h
      · simp only [Option.some.injEq, Prod.mk.injEq] at h
        obtain ⟨_, rfl⟩ := h
        refine k01.trans (Keeps.of_step k1.1 rfl ?_)
        refine SOkN.modCmd k1.1 cid _ ?_
        intro _ hx; exact hx
      · split at h
        · cases h
        · rename_i w2 hs2
          have k2 := hs _ _ _ hs2 k1.1
          split at h <;> (simp only [Option.some.injEq, Prod.mk.injEq] at h; obtain ⟨_, rfl⟩ := h; exact k01.trans k2)

/-- the knot: at every nesting depth -/
theorem pollAt_ok : ∀ d, PollOk (pollAt d)
  | 0 => by intro wk sink b w r w' h; simp [pollAt] at h
  | d + 1 => by
    intro wk sink b w r w' h hwk hw
    have hpn : PnOk (pollNextF (runUntilSettledF (runTaskF (pollAt d)))) :=
      pollNextF_ok _ (runUntilSettledF_ok _ (runTaskF_ok _ (pollAt_ok d)))
    exact pollBlock_fgood _ hpn loopFuel wk sink b w r w' h hwk hw

theorem runTask_ok : RunOk runTask := runTaskF_ok _ (pollAt_ok depthFuel)
theorem runUntilSettled_ok : SettleOk runUntilSettled := runUntilSettledF_ok _ runTask_ok
theorem pollNext_ok : PnOk pollNext := pollNextF_ok _ runUntilSettled_ok

end M.Rt
