/-
Linearity of request channels through a poll ("no aliasing"), definitions.

`refsB b` = the leaf channels the suspended block `b` waits on (completed sides of a `join!` no longer count);
`spawnRefs sink w` = those of the tasks waiting in the spawn queue the block's spawns go to.
`Le sink (w, X) (w', X')`: from world `w` with references `X` held by the block under consideration to world `w'` with `X'`:
for EVERY leaf id, the number of references (block + spawn queue) does not grow — except by at most ONE for a leaf allocated
in between. Reflexive and transitive; the frame rule adds the same bystanders on both sides.
-/
import CruxVerif.Lemmas.K2Steps
namespace M.Rt

mutual
def refsB : Block → List Nat
  | .mk _ cur _ => refsP cur
def refsP : Pend → List Nat
  | .req _ l => [l]
  | .streamWait _ l _ _ _ => [l]
  | .streamBody _ l _ _ _ inner => l :: refsB inner
  | .join a b ad bd => (if ad then [] else refsB a) ++ (if bd then [] else refsB b)
  | .select a b => refsB a ++ refsB b
  | _ => []
end

def execRefs : ExecTask → List Nat
  | .legacy b => refsB b
  | .cmd _ => []

def spawnRefs (sink : Sink) (w : World) : List Nat :=
  match sink with
  | .cmd c => ((w.cmd c).spawnQ.map fun t => refsB t.fut).flatten
  | .core => (w.execSpawn.map execRefs).flatten

/-- 1 for a leaf allocated between `w` and `w'`, else 0 -/
def fresh (w w' : World) (l : Nat) : Nat := if w.leaves.length ≤ l ∧ l < w'.leaves.length then 1 else 0

structure Le (sink : Sink) (w : World) (X : List Nat) (w' : World) (X' : List Nat) : Prop where
  len : w.leaves.length ≤ w'.leaves.length
  cnt : ∀ l, X'.count l + (spawnRefs sink w').count l ≤ X.count l + (spawnRefs sink w).count l + fresh w w' l

theorem Le.refl (sink : Sink) (w : World) (X : List Nat) : Le sink w X w X :=
  ⟨Nat.le_refl _, fun l => Nat.le_add_right _ _⟩

theorem fresh_add (w1 w2 w3 : World) (h12 : w1.leaves.length ≤ w2.leaves.length) (h23 : w2.leaves.length ≤ w3.leaves.length)
    (l : Nat) : fresh w1 w2 l + fresh w2 w3 l = fresh w1 w3 l := by
  unfold fresh
  by_cases a : w1.leaves.length ≤ l <;> by_cases b : l < w2.leaves.length <;> by_cases c : l < w3.leaves.length <;>
    by_cases d : w2.leaves.length ≤ l <;> simp [a, b, c, d] <;> omega

theorem Le.trans {sink : Sink} {w1 w2 w3 : World} {X1 X2 X3 : List Nat} (h12 : Le sink w1 X1 w2 X2)
    (h23 : Le sink w2 X2 w3 X3) : Le sink w1 X1 w3 X3 := by
  refine ⟨Nat.le_trans h12.len h23.len, ?_⟩
  intro l
  have a := h12.cnt l
  have b := h23.cnt l
  have c := fresh_add w1 w2 w3 h12.len h23.len l
  omega

/-- bystanders: the same references on both sides -/
theorem Le.frame {sink : Sink} {w w' : World} {X X' : List Nat} (h : Le sink w X w' X') (Y Z : List Nat) :
    Le sink w (Y ++ X ++ Z) w' (Y ++ X' ++ Z) := by
  refine ⟨h.len, ?_⟩
  intro l
  have := h.cnt l
  simp only [List.count_append]
  omega

/-- the block gives references up -/
theorem Le.drop {sink : Sink} {w w' : World} {X X' X'' : List Nat} (h : Le sink w X w' X')
    (hs : ∀ l, X''.count l ≤ X'.count l) : Le sink w X w' X'' := by
  refine ⟨h.len, ?_⟩
  intro l
  have := h.cnt l
  have := hs l
  omega

/-- a world change that touches neither the spawn queue nor the number of leaves -/
theorem Le.of_same {sink : Sink} {w w' : World} (X : List Nat) (hs : spawnRefs sink w' = spawnRefs sink w)
    (hl : w'.leaves.length = w.leaves.length) : Le sink w X w' X := by
  refine ⟨by rw [hl]; exact Nat.le_refl _, ?_⟩
  intro l; rw [hs]; exact Nat.le_add_right _ _

end M.Rt
