/-
Helper lemmas for C20: the filter stage and the crate loading loop do not depend on the order of items, summaries,
external crates, nor on the order in which pending crates are loaded.
-/
import CruxVerif.Lemmas.CodegenSet
namespace Lemmas.Codegen
open M.Codegen S.Codegen

/-! ### the filter stage does not depend on the order of items, summaries, external crates -/

/-- the same crate description with its three maps listed in another order -/
structure SameCrate (c c' : Crate) : Prop where
  name : c.name = c'.name
  items : c.items.Perm c'.items
  summaries : SameSet c.summaries c'.summaries
  ext : SameSet c.ext c'.ext

section sameCrate
variable {c c' : Crate} (h : SameCrate c c')
include h

theorem SameCrate.itemsSet : SameSet c.items c'.items := SameSet.of_perm h.items

theorem isVariantMember_same (v : Item) : c.isVariantMember v = c'.isVariantMember v := h.itemsSet.any _

theorem fieldP_same : c.fieldP = c'.fieldP := by
  funext x f; simp only [Crate.fieldP, isVariantMember_same h]

theorem apps_same : SameSet c.apps c'.apps :=
  (h.itemsSet.filter _).flatMap fun _ => (h.itemsSet.filter _).map _

theorem isApp_same : c.isApp = c'.isApp := by
  funext x; exact (apps_same h).any _

theorem parentP_same : c.parentP = c'.parentP := by
  funext p ch
  simp only [Crate.parentP, isApp_same h, fieldP_same h]
  congr 1
  exact h.itemsSet.any _

theorem rootApps_same : SameSet c.rootApps c'.rootApps := by
  have : (fun p : Item × Item => !(c.items.any fun q => c.parentP q p.2)) = fun p => !(c'.items.any fun q => c'.parentP q p.2) := by
    funext p; rw [parentP_same h, h.itemsSet.any]
  simp only [Crate.rootApps, this]
  exact (apps_same h).filter _

theorem assocTypes_same (imp : Item) (nm : String) : SameSet (c.assocTypes imp nm) (c'.assocTypes imp nm) :=
  (h.itemsSet.filter _).flatMap fun _ => h.itemsSet.filter _

theorem sameModule_same : c.sameModule = c'.sameModule := by
  funext a b
  simp only [Crate.sameModule]
  rw [h.summaries.any]
  congr 1; funext sa; congr 1
  exact h.summaries.any _

theorem viewModels_same : SameSet c.viewModels c'.viewModels :=
  (rootApps_same h).flatMap fun _ => assocTypes_same h _ _

theorem events_same : SameSet c.events c'.events :=
  (rootApps_same h).flatMap fun _ => assocTypes_same h _ _

theorem effects_same : SameSet c.effects c'.effects := by
  unfold Crate.effects
  refine (rootApps_same h).flatMap fun p => (h.itemsSet.filter _).flatMap fun eff => ?_
  rw [sameModule_same h]
  split
  · exact (h.itemsSet.filter _).flatMap fun _ => assocTypes_same h _ _
  · exact SameSet.refl _

theorem operations_same : SameSet c.operations c'.operations :=
  (h.itemsSet.filter _).flatMap fun _ => (h.itemsSet.filter _).map _

theorem outputs_same : SameSet c.outputs c'.outputs :=
  (operations_same h).flatMap fun _ => assocTypes_same h _ _

theorem roots_same : SameSet c.roots c'.roots :=
  ((((viewModels_same h).append (events_same h)).append (effects_same h)).append ((operations_same h).map _)).append
    (outputs_same h)

theorem succ_same (x : Item) : SameSet (c.succ x) (c'.succ x) := by
  simp only [Crate.succ, isVariantMember_same h]
  exact h.itemsSet.filter _

end sameCrate

/-- ids determine items (true of the items of a crate whose ids are unique) -/
def IdsDetermine (l : List Item) : Prop := ∀ a ∈ l, ∀ b ∈ l, a.id = b.id → a = b

theorem mem_dedup : ∀ {l seen : List Item} (_ : IdsDetermine l) {y : Item},
    y ∈ Crate.dedup seen l ↔ y ∈ l ∧ Crate.seenIn seen y = false
  | [], _, _, _ => by simp [Crate.dedup]
  | a :: l, seen, hu, y => by
    have hu' : IdsDetermine l := fun p hp q hq e => hu p (List.mem_cons_of_mem _ hp) q (List.mem_cons_of_mem _ hq) e
    simp only [Crate.dedup]
    by_cases hs : Crate.seenIn seen a = true
    · simp only [hs, if_true, mem_dedup hu', List.mem_cons]
      constructor
      · exact fun ⟨h1, h2⟩ => ⟨Or.inr h1, h2⟩
      · rintro ⟨rfl | h1, h2⟩
        · rw [hs] at h2; exact absurd h2 (by simp)
        · exact ⟨h1, h2⟩
    · simp only [Bool.not_eq_true] at hs
      simp only [hs, Bool.false_eq_true, if_false, List.mem_cons, mem_dedup hu']
      have hcons : Crate.seenIn (a :: seen) y = ((a.id == y.id) || Crate.seenIn seen y) := by
        simp [Crate.seenIn, List.any_cons]
      rw [hcons]
      constructor
      · rintro (rfl | ⟨h1, h2⟩)
        · exact ⟨Or.inl rfl, hs⟩
        · simp only [Bool.or_eq_false_iff] at h2
          exact ⟨Or.inr h1, h2.2⟩
      · rintro ⟨rfl | h1, h2⟩
        · exact Or.inl rfl
        · by_cases hid : a.id = y.id
          · exact Or.inl (hu y (List.mem_cons_of_mem _ h1) a (by simp) hid.symm)
          · exact Or.inr ⟨h1, by simp [h2, hid]⟩

theorem seenIn_same {seen seen' : List Item} (h : SameSet seen seen') (y : Item) :
    Crate.seenIn seen y = Crate.seenIn seen' y := h.any _

theorem IdsDetermine.sub {l m : List Item} (hm : IdsDetermine m) (h : ∀ x ∈ l, x ∈ m) : IdsDetermine l :=
  fun a ha b hb e => hm a (h a ha) b (h b hb) e

theorem reach_same {c c' : Crate} (h : SameCrate c c') (hu : IdsDetermine c.items) (hu' : IdsDetermine c'.items) :
    ∀ (fuel : Nat) {frontier frontier' seen seen' : List Item}, SameSet frontier frontier' → SameSet seen seen' →
      (∀ x ∈ frontier, x ∈ c.items) → (∀ x ∈ frontier', x ∈ c'.items) →
      SameSet (c.reach fuel frontier seen) (c'.reach fuel frontier' seen')
  | 0, _, _, _, _, _, hs, _, _ => hs
  | fuel + 1, frontier, frontier', seen, seen', hf, hs, hfi, hfi' => by
    simp only [Crate.reach]
    have hl : ∀ x ∈ frontier.flatMap c.succ, x ∈ c.items := fun x hx => by
      obtain ⟨_, _, hx⟩ := List.mem_flatMap.mp hx; exact succ_sub c hx
    have hl' : ∀ x ∈ frontier'.flatMap c'.succ, x ∈ c'.items := fun x hx => by
      obtain ⟨_, _, hx⟩ := List.mem_flatMap.mp hx; exact succ_sub c' hx
    have hnew : SameSet (Crate.dedup seen (frontier.flatMap c.succ)) (Crate.dedup seen' (frontier'.flatMap c'.succ)) := by
      intro y
      rw [mem_dedup (hu.sub hl), mem_dedup (hu'.sub hl'), seenIn_same hs, (hf.flatMap (succ_same h)) y]
    rw [hnew.isEmpty]
    split
    · exact hs
    · exact reach_same h hu hu' fuel hnew (hs.append hnew) (fun x hx => hl x (dedup_sub hx)) (fun x hx => hl' x (dedup_sub hx))

theorem reachable_same {c c' : Crate} (h : SameCrate c c') (hu : IdsDetermine c.items) (hu' : IdsDetermine c'.items) :
    SameSet c.reachable c'.reachable := by
  simp only [Crate.reachable, h.items.length_eq]
  have hr : SameSet (Crate.dedup [] c.roots) (Crate.dedup [] c'.roots) := by
    intro y
    rw [mem_dedup (hu.sub fun x hx => roots_sub c hx), mem_dedup (hu'.sub fun x hx => roots_sub c' hx), (roots_same h) y]
  exact reach_same h hu hu' _ hr hr (fun x hx => roots_sub c (dedup_sub hx)) (fun x hx => roots_sub c' (dedup_sub hx))

/-- the `edge` relation of a crate is the same set whatever the order of its items and summaries -/
theorem edges_same {c c' : Crate} (h : SameCrate c c') (hu : IdsDetermine c.items) (hu' : IdsDetermine c'.items) :
    SameSet c.edges c'.edges := by
  unfold Crate.edges
  exact (((roots_same h).filter _).map _).append ((reachable_same h hu hu').flatMap fun x => (succ_same h x).map _)

theorem wanted_same {c c' : Crate} (h : SameCrate c c') (hu : IdsDetermine c.items) (hu' : IdsDetermine c'.items) :
    SameSet c.wanted c'.wanted := by
  unfold Crate.wanted
  exact (edges_same h hu hu').flatMap fun e => (h.summaries.filter _).flatMap fun s => (h.ext.filter _).map _

theorem idsDetermine_of_unique {c : Crate} (h : c.idsUnique = true) : IdsDetermine c.items :=
  fun a ha b hb e => eq_of_nodup_map (·.id) (nodupNat_spec (by simpa [Crate.idsUnique] using h)) a ha b hb e

theorem IdsDetermine.perm {l l' : List Item} (h : IdsDetermine l) (hp : l.Perm l') : IdsDetermine l' :=
  fun a ha b hb e => h a (hp.mem_iff.mpr ha) b (hp.mem_iff.mpr hb) e

/-! ### which crates get loaded does not depend on the order of loading -/

abbrev lookupCrate (avail : List Crate) (n : String) : Option Crate := avail.find? fun a => a.name == n

/-- reachable from the crates `S` by following `wanted` names through the loader -/
inductive Gen (avail : List Crate) (S : List Crate) : Crate → Prop where
  | base {c : Crate} : c ∈ S → Gen avail S c
  | step {c d : Crate} {n : String} : Gen avail S c → n ∈ c.wanted → lookupCrate avail n = some d → Gen avail S d

theorem lookupCrate_name {avail : List Crate} {n : String} {a : Crate} (h : lookupCrate avail n = some a) : a.name = n := by
  simpa using List.find?_some h

theorem load_spec (avail : List Crate) : ∀ (fuel : Nat) (loaded L : List Crate), load avail fuel loaded = some L →
    (∀ c ∈ loaded, lookupCrate avail c.name = some c) →
    (∀ c ∈ loaded, c ∈ L) ∧ (∀ c ∈ L, lookupCrate avail c.name = some c) ∧
    (∀ c ∈ L, ∀ n ∈ c.wanted, ∃ d ∈ L, d.name = n) ∧ (∀ d ∈ L, Gen avail loaded d)
  | 0, _, _, h, _ => by simp [load] at h
  | fuel + 1, loaded, L, h, hl => by
    simp only [load] at h
    split at h
    · rename_i hp
      simp only [Option.some.injEq] at h; subst h
      refine ⟨fun _ hc => hc, hl, ?_, fun d hd => Gen.base hd⟩
      intro c hc n hn
      rw [List.filter_eq_nil_iff] at hp
      have := hp n (List.mem_flatMap.mpr ⟨c, hc, hn⟩)
      simp only [Bool.not_eq_true, Bool.not_eq_false', List.any_eq_true, beq_iff_eq] at this
      exact this
    · rename_i n rest hp
      split at h
      · simp at h
      · rename_i a ha
        have hmem : n ∈ List.filter (fun n => !(loaded.any fun l => l.name == n)) (loaded.flatMap Crate.wanted) := by
          rw [hp]; simp
        simp only [List.mem_filter, List.mem_flatMap] at hmem
        obtain ⟨⟨c0, hc0, hn0⟩, _⟩ := hmem
        have han : a.name = n := lookupCrate_name ha
        have hla : lookupCrate avail a.name = some a := by rw [han]; exact ha
        obtain ⟨h1, h2, h3, h4⟩ := load_spec avail fuel (loaded ++ [a]) L h (by
          intro c hc
          rcases List.mem_append.mp hc with hc | hc
          · exact hl c hc
          · simp only [List.mem_singleton] at hc; subst hc; exact hla)
        refine ⟨fun c hc => h1 c (List.mem_append_left _ hc), h2, h3, ?_⟩
        have conv : ∀ d, Gen avail (loaded ++ [a]) d → Gen avail loaded d := by
          intro d hg
          induction hg with
          | base hc =>
            rcases List.mem_append.mp hc with hc | hc
            · exact Gen.base hc
            · simp only [List.mem_singleton] at hc; subst hc
              exact Gen.step (Gen.base hc0) hn0 ha
          | step _ hn hd ih => exact Gen.step ih hn hd
        exact fun d hd => conv d (h4 d hd)

/-- the two loaders hand out corresponding crates under every name -/
def SameAvail (avail avail' : List Crate) : Prop :=
  ∀ n, match lookupCrate avail n, lookupCrate avail' n with
    | some c, some c' => SameCrate c c'
    | none, none => True
    | _, _ => False

theorem SameAvail.some {avail avail' : List Crate} (h : SameAvail avail avail') {n : String} {c c' : Crate}
    (hc : lookupCrate avail n = some c) (hc' : lookupCrate avail' n = some c') : SameCrate c c' := by
  have := h n; rw [hc, hc'] at this; exact this

theorem SameCrate.symm {c c' : Crate} (h : SameCrate c c') : SameCrate c' c :=
  ⟨h.name.symm, h.items.symm, h.summaries.symm, h.ext.symm⟩

theorem SameAvail.symm {avail avail' : List Crate} (h : SameAvail avail avail') : SameAvail avail' avail := by
  intro n
  have := h n
  cases h1 : lookupCrate avail n <;> cases h2 : lookupCrate avail' n <;> simp_all
  exact SameCrate.symm this

theorem idsDetermine_of_wf {avail : List Crate} (hwf : cratesWF avail = true) {c : Crate} {n : String}
    (h : lookupCrate avail n = some c) : IdsDetermine c.items := by
  simp only [cratesWF, Bool.and_eq_true, List.all_eq_true] at hwf
  exact idsDetermine_of_unique (hwf.1 c (List.mem_of_find?_eq_some h))

/-- one direction: every crate the first run loads has its counterpart among those the second run loads -/
theorem loaded_sub {avail avail' : List Crate} (hs : SameAvail avail avail') (hwf : cratesWF avail = true)
    (hwf' : cratesWF avail' = true) {r r' : Crate} {root : String} (hr : lookupCrate avail root = some r)
    (hr' : lookupCrate avail' root = some r') {fuel fuel' : Nat} {L L' : List Crate}
    (hL : load avail fuel [r] = some L) (hL' : load avail' fuel' [r'] = some L') :
    ∀ d ∈ L, ∃ d' ∈ L', SameCrate d d' := by
  have hrn : r.name = root := lookupCrate_name hr
  have hrn' : r'.name = root := lookupCrate_name hr'
  obtain ⟨_, _, _, h4⟩ := load_spec avail fuel [r] L hL (by simpa [hrn] using hr)
  obtain ⟨g1, g2, g3, _⟩ := load_spec avail' fuel' [r'] L' hL' (by simpa [hrn'] using hr')
  have key : ∀ d, Gen avail [r] d → (∃ m, lookupCrate avail m = some d) ∧ ∃ d' ∈ L', SameCrate d d' := by
    intro d hg
    induction hg with
    | base hc =>
      simp only [List.mem_singleton] at hc; subst hc
      exact ⟨⟨root, hr⟩, r', g1 r' (by simp), hs.some hr hr'⟩
    | @step c d n _ hn hlk ih =>
      obtain ⟨⟨m, hm⟩, c', hc', hsc⟩ := ih
      have hn' : n ∈ c'.wanted :=
        (wanted_same hsc (idsDetermine_of_wf hwf hm) (idsDetermine_of_wf hwf' (g2 c' hc')) n).mp hn
      obtain ⟨d', hd', hdn⟩ := g3 c' hc' n hn'
      have hlk' : lookupCrate avail' n = some d' := by rw [← hdn]; exact g2 d' hd'
      exact ⟨⟨n, hlk⟩, d', hd', hs.some hlk hlk'⟩
  exact fun d hd => (key d (h4 d hd)).2

theorem nodeEdges_same {c c' : Crate} (h : SameCrate c c') (hu : IdsDetermine c.items) (hu' : IdsDetermine c'.items) :
    SameSet (nodeEdges c) (nodeEdges c') := by
  unfold nodeEdges
  rw [h.name]
  exact (edges_same h hu hu').map _

/-- Both runs complete ⇒ they hand the same set of edges to the formatter. -/
theorem loadedEdges_same {avail avail' : List Crate} (hs : SameAvail avail avail') (hwf : cratesWF avail = true)
    (hwf' : cratesWF avail' = true) {root : String} {E E' : Edges} (h : loadedEdges avail root = some E)
    (h' : loadedEdges avail' root = some E') : SameSet E E' := by
  unfold loadedEdges at h h'
  split at h
  · simp at h
  · rename_i r hr
    split at h'
    · simp at h'
    · rename_i r' hr'
      obtain ⟨L, hL, rfl⟩ := Option.map_eq_some_iff.mp h
      obtain ⟨L', hL', rfl⟩ := Option.map_eq_some_iff.mp h'
      have hrn : r.name = root := lookupCrate_name hr
      have hrn' : r'.name = root := lookupCrate_name hr'
      obtain ⟨_, l2, _, _⟩ := load_spec avail _ [r] L hL (by simpa [hrn] using hr)
      obtain ⟨_, l2', _, _⟩ := load_spec avail' _ [r'] L' hL' (by simpa [hrn'] using hr')
      have one : ∀ {A A' : List Crate} {K K' : List Crate}, (∀ d ∈ K, ∃ d' ∈ K', SameCrate d d') →
          (∀ c ∈ K, lookupCrate A c.name = some c) → (∀ c ∈ K', lookupCrate A' c.name = some c) →
          cratesWF A = true → cratesWF A' = true → ∀ e ∈ K.flatMap nodeEdges, e ∈ K'.flatMap nodeEdges := by
        intro A A' K K' hsub hk hk' wA wA' e he
        obtain ⟨d, hd, hed⟩ := List.mem_flatMap.mp he
        obtain ⟨d', hd', hsd⟩ := hsub d hd
        exact List.mem_flatMap.mpr ⟨d', hd',
          (nodeEdges_same hsd (idsDetermine_of_wf wA (hk d hd)) (idsDetermine_of_wf wA' (hk' d' hd')) e).mp hed⟩
      intro e
      exact ⟨one (loaded_sub hs hwf hwf' hr hr' hL hL') l2 l2' hwf hwf' e,
        one (loaded_sub hs.symm hwf' hwf hr' hr hL' hL) l2' l2 hwf' hwf e⟩

/-- what is pending after `loaded` (mod.rs:86-88, 96): wanted and not loaded yet -/
def pendingOf (loaded : List Crate) : List String :=
  (loaded.flatMap Crate.wanted).filter fun n => !(loaded.any fun l => l.name == n)

/-- A completed run of the loop of `run` (mod.rs:85-98) in which the next crate is ANY pending one
    (`next.pop()` yields whichever the hash-based relation happens to list last). -/
inductive Run (avail : List Crate) : List Crate → List Crate → Prop where
  | done {loaded : List Crate} : pendingOf loaded = [] → Run avail loaded loaded
  | step {loaded L : List Crate} {n : String} {a : Crate} : n ∈ pendingOf loaded → lookupCrate avail n = some a →
      Run avail (loaded ++ [a]) L → Run avail loaded L

theorem run_spec {avail : List Crate} {loaded L : List Crate} (h : Run avail loaded L) :
    (∀ c ∈ loaded, lookupCrate avail c.name = some c) →
    (∀ c ∈ loaded, c ∈ L) ∧ (∀ c ∈ L, lookupCrate avail c.name = some c) ∧
    (∀ c ∈ L, ∀ n ∈ c.wanted, ∃ d ∈ L, d.name = n) ∧ (∀ d ∈ L, Gen avail loaded d) := by
  induction h with
  | @done loaded hp =>
    intro hl
    refine ⟨fun _ hc => hc, hl, ?_, fun d hd => Gen.base hd⟩
    intro c hc n hn
    simp only [pendingOf, List.filter_eq_nil_iff] at hp
    have := hp n (List.mem_flatMap.mpr ⟨c, hc, hn⟩)
    simp only [Bool.not_eq_true, Bool.not_eq_false', List.any_eq_true, beq_iff_eq] at this
    exact this
  | @step loaded L n a hn ha _ ih =>
    intro hl
    simp only [pendingOf, List.mem_filter, List.mem_flatMap] at hn
    obtain ⟨⟨c0, hc0, hn0⟩, _⟩ := hn
    have han : a.name = n := lookupCrate_name ha
    have hla : lookupCrate avail a.name = some a := by rw [han]; exact ha
    obtain ⟨h1, h2, h3, h4⟩ := ih (by
      intro c hc
      rcases List.mem_append.mp hc with hc | hc
      · exact hl c hc
      · simp only [List.mem_singleton] at hc; subst hc; exact hla)
    refine ⟨fun c hc => h1 c (List.mem_append_left _ hc), h2, h3, ?_⟩
    have conv : ∀ d, Gen avail (loaded ++ [a]) d → Gen avail loaded d := by
      intro d hg
      induction hg with
      | base hc =>
        rcases List.mem_append.mp hc with hc | hc
        · exact Gen.base hc
        · simp only [List.mem_singleton] at hc; subst hc
          exact Gen.step (Gen.base hc0) hn0 ha
      | step _ hn hd ih => exact Gen.step ih hn hd
    exact fun d hd => conv d (h4 d hd)

/-- the model's own loop is one such run -/
theorem load_run (avail : List Crate) : ∀ (fuel : Nat) (loaded L : List Crate), load avail fuel loaded = some L →
    Run avail loaded L
  | 0, _, _, h => by simp [load] at h
  | fuel + 1, loaded, L, h => by
    simp only [load] at h
    split at h
    · rename_i hp
      simp only [Option.some.injEq] at h; subst h
      exact Run.done hp
    · rename_i n rest hp
      split at h
      · simp at h
      · rename_i a ha
        exact Run.step (n := n) (by simp only [pendingOf]; rw [hp]; simp) ha (load_run avail fuel _ L h)

/-- Whatever order pending crates are loaded in, a completed run has loaded the same crates. -/
theorem run_same {avail : List Crate} {root : String} {r : Crate} (hr : lookupCrate avail root = some r)
    {L L' : List Crate} (h : Run avail [r] L) (h' : Run avail [r] L') : SameSet L L' := by
  have hrn : r.name = root := lookupCrate_name hr
  have one : ∀ {K K' : List Crate}, Run avail [r] K → Run avail [r] K' → ∀ d ∈ K, d ∈ K' := by
    intro K K' hK hK' d hd
    obtain ⟨_, _, _, h4⟩ := run_spec hK (by simpa [hrn] using hr)
    obtain ⟨g1, g2, g3, _⟩ := run_spec hK' (by simpa [hrn] using hr)
    have := h4 d hd
    clear hd
    induction this with
    | base hc => simp only [List.mem_singleton] at hc; subst hc; exact g1 _ (by simp)
    | @step c d n _ hn hlk ih =>
      obtain ⟨d', hd', hdn⟩ := g3 c ih n hn
      have : lookupCrate avail n = some d' := by rw [← hdn]; exact g2 d' hd'
      rw [hlk] at this
      simp only [Option.some.injEq] at this
      rw [this]; exact hd'
  exact fun d => ⟨one h h' d, one h' h d⟩

theorem SameCrate.refl (c : Crate) : SameCrate c c := ⟨rfl, List.Perm.refl _, SameSet.refl _, SameSet.refl _⟩

/-- two listings of the same crates, each crate with its maps in another order, names distinct -/
theorem sameAvail_of_corresponding {avail avail' : List Crate}
    (hn' : (avail'.map (·.name)).Nodup) (h : ∀ c ∈ avail, ∃ c' ∈ avail', SameCrate c c')
    (h' : ∀ c' ∈ avail', ∃ c ∈ avail, SameCrate c c') : SameAvail avail avail' := by
  intro n
  cases h1 : lookupCrate avail n with
  | none =>
    cases h2 : lookupCrate avail' n with
    | none => trivial
    | some c' =>
      obtain ⟨c, hc, hsc⟩ := h' c' (List.mem_of_find?_eq_some h2)
      have : c.name = n := hsc.name.trans (lookupCrate_name h2)
      rw [List.find?_eq_none] at h1
      exact absurd (h1 c hc) (by simp [this])
  | some c =>
    obtain ⟨c', hc', hsc⟩ := h c (List.mem_of_find?_eq_some h1)
    have hcn : c'.name = n := hsc.name.symm.trans (lookupCrate_name h1)
    cases h2 : lookupCrate avail' n with
    | none =>
      rw [List.find?_eq_none] at h2
      exact absurd (h2 c' hc') (by simp [hcn])
    | some c'' =>
      have : c'' = c' := eq_of_nodup_map (·.name) hn' c'' (List.mem_of_find?_eq_some h2) c' hc'
        ((lookupCrate_name h2).trans hcn.symm)
      show SameCrate c c''
      rw [this]; exact hsc


/-- every loaded crate is the loader's crate of its name, ids are unique per crate ⇒ the edge relation is functional -/
theorem functional_of_lookup {avail L : List Crate} (hwf : cratesWF avail = true)
    (hl : ∀ c ∈ L, lookupCrate avail c.name = some c) : Functional (L.flatMap nodeEdges) := by
  intro a b ha hb hk hid
  simp only [List.mem_map, List.mem_flatMap, nodeEdges] at ha hb
  obtain ⟨_, ⟨ca, hca, ea, hea, rfl⟩, rfl⟩ := ha
  obtain ⟨_, ⟨cb, hcb, eb, heb, rfl⟩, rfl⟩ := hb
  simp only at hk hid
  have hc : ca = cb := by
    have h1 := hl ca hca
    have h2 := hl cb hcb
    rw [hk, h2] at h1
    exact (Option.some.inj h1).symm
  subst hc
  have := idsDetermine_of_wf hwf (hl ca hca) ea.2 (edges_sub ca hea).2 eb.2 (edges_sub ca heb).2 hid
  simp [this]

/-! ### a run completes iff the re-ordered run does -/

theorem gen_append {avail loaded : List Crate} {a c0 : Crate} {n : String} (hc0 : c0 ∈ loaded) (hn0 : n ∈ c0.wanted)
    (ha : lookupCrate avail n = some a) : ∀ d, Gen avail (loaded ++ [a]) d → Gen avail loaded d := by
  intro d hg
  induction hg with
  | base hc =>
    rcases List.mem_append.mp hc with hc | hc
    · exact Gen.base hc
    · simp only [List.mem_singleton] at hc; subst hc
      exact Gen.step (Gen.base hc0) hn0 ha
  | step _ hn hd ih => exact Gen.step ih hn hd

theorem nodup_of_nodup_map {α β : Type} (f : α → β) : ∀ {l : List α}, (l.map f).Nodup → l.Nodup
  | [], _ => List.nodup_nil
  | a :: l, h => by
    simp only [List.map_cons, List.nodup_cons, List.mem_map, not_exists, not_and] at h
    exact List.nodup_cons.mpr ⟨fun ha => h.1 a ha rfl, nodup_of_nodup_map f h.2⟩

/-- the loop does not run out of fuel, and does not fail, when every name it can come to ask for is available -/
theorem load_complete (avail : List Crate) : ∀ (fuel : Nat) (loaded : List Crate),
    (∀ d, Gen avail loaded d → ∀ n ∈ d.wanted, (lookupCrate avail n).isSome = true) →
    (loaded.map (·.name)).Nodup → (∀ c ∈ loaded, lookupCrate avail c.name = some c) →
    avail.length < fuel + loaded.length → ∃ L, load avail fuel loaded = some L
  | 0, loaded, _, hn, hl, hlt => by
    exfalso
    have hsub : loaded ⊆ avail := fun c hc => List.mem_of_find?_eq_some (hl c hc)
    have hnd : loaded.Nodup := nodup_of_nodup_map _ hn
    have := hnd.length_le_of_subset hsub
    omega
  | fuel + 1, loaded, hA, hn, hl, hlt => by
    simp only [load]
    split
    · exact ⟨loaded, rfl⟩
    · rename_i n rest hp
      have hmem : n ∈ List.filter (fun n => !(loaded.any fun l => l.name == n)) (loaded.flatMap Crate.wanted) := by
        rw [hp]; simp
      simp only [List.mem_filter, List.mem_flatMap, Bool.not_eq_true', List.any_eq_false, beq_iff_eq] at hmem
      obtain ⟨⟨c0, hc0, hn0⟩, hnot⟩ := hmem
      obtain ⟨a, ha⟩ := Option.isSome_iff_exists.mp (hA c0 (Gen.base hc0) n hn0)
      have ha' : avail.find? (fun a => a.name == n) = some a := ha
      rw [ha']
      have han : a.name = n := lookupCrate_name ha
      apply load_complete avail fuel (loaded ++ [a])
      · exact fun d hd => hA d (gen_append hc0 hn0 ha d hd)
      · simp only [List.map_append, List.map_cons, List.map_nil]
        rw [List.nodup_append]
        refine ⟨hn, by simp, ?_⟩
        intro x hx y hy
        simp only [List.mem_singleton] at hy
        subst hy
        obtain ⟨l, hl', rfl⟩ := List.mem_map.mp hx
        rw [han]
        exact fun e => hnot l hl' e
      · intro c hc
        rcases List.mem_append.mp hc with hc | hc
        · exact hl c hc
        · simp only [List.mem_singleton] at hc; subst hc; rw [han]; exact ha
      · simp only [List.length_append, List.length_singleton]; omega

/-- if the first run completes, the re-ordered one has every crate it can come to ask for -/
theorem available_of_completed {avail avail' : List Crate} (hs : SameAvail avail avail') (hwf : cratesWF avail = true)
    (hwf' : cratesWF avail' = true) {r r' : Crate} {root : String} (hr : lookupCrate avail root = some r)
    (hr' : lookupCrate avail' root = some r') {L : List Crate} (hL : Run avail [r] L) :
    ∀ d', Gen avail' [r'] d' → ∀ n ∈ d'.wanted, (lookupCrate avail' n).isSome = true := by
  have hrn : r.name = root := lookupCrate_name hr
  obtain ⟨g1, g2, g3, _⟩ := run_spec hL (by simpa [hrn] using hr)
  have key : ∀ d', Gen avail' [r'] d' → (∃ m, lookupCrate avail' m = some d') ∧ ∃ d ∈ L, SameCrate d d' := by
    intro d' hg
    induction hg with
    | base hc =>
      simp only [List.mem_singleton] at hc; subst hc
      exact ⟨⟨root, hr'⟩, r, g1 r (by simp), hs.some hr hr'⟩
    | @step c' d' n _ hn hlk ih =>
      obtain ⟨⟨m, hm⟩, c, hc, hsc⟩ := ih
      have hn' : n ∈ c.wanted :=
        (wanted_same hsc (idsDetermine_of_wf hwf (g2 c hc)) (idsDetermine_of_wf hwf' hm) n).mpr hn
      obtain ⟨d, hd, hdn⟩ := g3 c hc n hn'
      have hlk0 : lookupCrate avail n = some d := by rw [← hdn]; exact g2 d hd
      exact ⟨⟨n, hlk⟩, d, hd, hs.some hlk0 hlk⟩
  intro d' hg n hn
  obtain ⟨⟨m, hm⟩, d, hd, hsd⟩ := key d' hg
  have hn' : n ∈ d.wanted :=
    (wanted_same hsd (idsDetermine_of_wf hwf (g2 d hd)) (idsDetermine_of_wf hwf' hm) n).mpr hn
  obtain ⟨e, he, hen⟩ := g3 d hd n hn'
  have hlk0 : lookupCrate avail n = some e := by rw [← hen]; exact g2 e he
  have := hs n
  rw [hlk0] at this
  cases h2 : lookupCrate avail' n with
  | none => rw [h2] at this; exact absurd this (by simp)
  | some _ => rfl

theorem loadedEdges_complete {avail avail' : List Crate} (hs : SameAvail avail avail') (hwf : cratesWF avail = true)
    (hwf' : cratesWF avail' = true) {root : String} {E : Edges} (h : loadedEdges avail root = some E) :
    ∃ E', loadedEdges avail' root = some E' := by
  unfold loadedEdges at h ⊢
  split at h
  · simp at h
  · rename_i r hr
    obtain ⟨L, hL, _⟩ := Option.map_eq_some_iff.mp h
    have hsr := hs root
    have hr0 : lookupCrate avail root = some r := hr
    rw [hr0] at hsr
    cases hr' : lookupCrate avail' root with
    | none => rw [hr'] at hsr; exact absurd hsr (by simp)
    | some r' =>
      have hr'' : avail'.find? (fun a => a.name == root) = some r' := hr'
      rw [hr'']
      have hrn' : r'.name = root := lookupCrate_name hr'
      obtain ⟨L', hL'⟩ := load_complete avail' (avail'.length + 1) [r']
        (available_of_completed hs hwf hwf' hr0 hr' (load_run avail _ _ L hL)) (by simp)
        (by simpa [hrn'] using hr') (by simp only [List.length_singleton]; omega)
      exact ⟨L'.flatMap nodeEdges, by simp only [hL', Option.map_some]⟩


end Lemmas.Codegen
