/- Dropping blocks, tasks and commands stays below: it only reaches commands hosted (transitively) by what is dropped. -/
import CruxVerif.Lemmas.HostLtDefs
import CruxVerif.Lemmas.SlabSum
namespace M.Rt

theorem PT.toRT {p : Nat} {w w' : World} (h : PT p w w') : RT p w w' :=
  ⟨fun q hq => h.tasks q (by omega), fun q t hq ht => by
    rcases h.spawn q t (by omega) ht with ht | ht
    · exact ht
    · omega⟩

/-- any change confined to command `c` itself -/
theorem rt_modCmd (w : World) (c : Nat) (f : CmdSt → CmdSt) : RT c w (w.modCmd c f) :=
  ⟨fun q hq => by rw [World.cmd_modCmd_other w c q f (by omega)],
   fun q t hq ht => by rw [World.cmd_modCmd_other w c q f (by omega)] at ht; exact ht⟩

/-- `HL` depends on the commands' slabs and spawn queues only -/
theorem HL.of_cmd {w w' : World} (h : HL w) (ht : ∀ q, ∀ t ∈ (w'.cmd q).tasks.values, t ∈ (w.cmd q).tasks.values)
    (hs : ∀ q, ∀ t ∈ (w'.cmd q).spawnQ, t ∈ (w.cmd q).spawnQ) : HL w' :=
  ⟨fun q t hm => h.tasks q t (ht q t hm), fun q t hm => h.spawn q t (hs q t hm)⟩

def DropOk (dc : Nat → World → World) (p : Nat) : Prop := ∀ c w, c < p → HL w → HL (dc c w) ∧ RT c w (dc c w)

theorem tk0_dropReceiver (w : World) (l : Nat) : TK0 w (w.dropReceiver l) := tk_dropReceiver w l

mutual
theorem dropBlock_hl (dc : Nat → World → World) (p : Nat) (hdc : DropOk dc p) : (b : Block) → (w : World) →
    hostsLtB p b = true → HL w → HL (dropBlock dc b w) ∧ PT p w (dropBlock dc b w)
  | .mk env cur rest, w, h, hw => by
    simp only [hostsLtB, Bool.and_eq_true] at h
    simp only [dropBlock]
    have h1 := dropPend_hl dc p hdc cur w h.1 hw
    have h2 : ∀ (is : List Instr) (W : World), hostsLtIs p is = true → HL W →
        HL (is.foldl (fun w i => match i with | .host c _ => dc c w | _ => w) W) ∧
        PT p W (is.foldl (fun w i => match i with | .host c _ => dc c w | _ => w) W) := by
      intro is
      induction is with
      | nil => intro W _ hW; exact ⟨hW, PT.refl p W⟩
      | cons i is ih =>
        intro W hi hW
        simp only [hostsLtIs, Bool.and_eq_true] at hi
        simp only [List.foldl_cons]
        cases i with
        | host c m =>
          simp only [hostsLtI, decide_eq_true_eq] at hi
          have hd := hdc c W hi.1 hW
          have := ih (dc c W) hi.2 hd.1
          exact ⟨this.1, (hd.2.toPT hi.1).trans this.2⟩
        | _ => exact ih W hi.2 hW
    have := h2 rest _ h.2 h1.1
    exact ⟨this.1, h1.2.trans this.2⟩
theorem dropPend_hl (dc : Nat → World → World) (p : Nat) (hdc : DropOk dc p) : (pd : Pend) → (w : World) →
    hostsLtP p pd = true → HL w → HL (dropPend dc pd w) ∧ PT p w (dropPend dc pd w)
  | .idle, w, _, hw => by simp only [dropPend]; exact ⟨hw, PT.refl p w⟩
  | .reqDead, w, _, hw => by simp only [dropPend]; exact ⟨hw, PT.refl p w⟩
  | .await _, w, _, hw => by simp only [dropPend]; exact ⟨hw, PT.refl p w⟩
  | .selfwake _, w, _, hw => by simp only [dropPend]; exact ⟨hw, PT.refl p w⟩
  | .req _ l, w, _, hw => by
    simp only [dropPend]
    exact ⟨hw.tk0 (tk0_dropReceiver w l), (tk0_dropReceiver w l).toPT (fun _ _ x => x.elim)⟩
  | .streamWait _ l _ _ _, w, _, hw => by
    simp only [dropPend]
    exact ⟨hw.tk0 (tk0_dropReceiver w l), (tk0_dropReceiver w l).toPT (fun _ _ x => x.elim)⟩
  | .streamBody _ l _ _ _ inner, w, h, hw => by
    simp only [hostsLtP, Bool.and_eq_true] at h
    simp only [dropPend]
    have h1 := dropBlock_hl dc p hdc inner w h.2 hw
    exact ⟨h1.1.tk0 (tk0_dropReceiver _ l), h1.2.trans ((tk0_dropReceiver _ l).toPT (fun _ _ x => x.elim))⟩
  | .join a b ad bd, w, h, hw => by
    simp only [hostsLtP, Bool.and_eq_true] at h
    simp only [dropPend]
    cases ad <;> cases bd <;> simp only [Bool.false_eq_true, if_false, if_true]
    · have h1 := dropBlock_hl dc p hdc a w h.1 hw
      have h2 := dropBlock_hl dc p hdc b _ h.2 h1.1
      exact ⟨h2.1, h1.2.trans h2.2⟩
    · exact dropBlock_hl dc p hdc a w h.1 hw
    · exact dropBlock_hl dc p hdc b w h.2 hw
    · exact ⟨hw, PT.refl p w⟩
  | .select a b, w, h, hw => by
    simp only [hostsLtP, Bool.and_eq_true] at h
    simp only [dropPend]
    have h1 := dropBlock_hl dc p hdc a w h.1 hw
    have h2 := dropBlock_hl dc p hdc b _ h.2 h1.1
    exact ⟨h2.1, h1.2.trans h2.2⟩
  | .host c _, w, h, hw => by
    simp only [hostsLtP, decide_eq_true_eq] at h
    simp only [dropPend]
    have hd := hdc c w h hw
    exact ⟨hd.1, hd.2.toPT h⟩
end

theorem dropTask_hl (dc : Nat → World → World) (p : Nat) (hdc : DropOk dc p) (t : Task) (w : World)
    (h : hostsLtB p t.fut = true) (hw : HL w) : HL (dropTask dc t w) ∧ PT p w (dropTask dc t w) := by
  unfold dropTask
  simp only
  have f0 : TK0 w (w.modMeta t.serial fun m => { m with taskAlive := false, joinWakers := [] }) := tk_of_cmds rfl
  have h1 := dropBlock_hl dc p hdc t.fut _ h (hw.tk0 f0)
  exact ⟨h1.1, (f0.toPT (fun _ _ x => x.elim)).trans h1.2⟩

theorem tk0_dropSender (w : World) (l : Nat) : TK0 w (w.dropSender l) := by
  unfold World.dropSender
  simp only
  split
  · exact tk_of_cmds rfl
  · split
    · exact TKp.trans (w2 := w.modLeaf l fun lf => { lf with senderAlive := false, waker := none }) (tk_of_cmds rfl)
        (tk_World_wake _ _)
    · exact tk_of_cmds rfl

theorem tk0_dropEff (w : World) (e : Eff) : TK0 w (dropEff w e) := by
  unfold dropEff
  split
  · exact tk0_dropSender w _
  · exact tk0_dropSender w _
  · exact TKp.refl w

/-- a fold of steps each within `PT p` and keeping `HL` -/
theorem foldl_hl_pt {α : Type} (p : Nat) (g : World → α → World) (P : α → Prop)
    (hg : ∀ W a, P a → HL W → HL (g W a) ∧ PT p W (g W a)) :
    ∀ (l : List α) (W : World), (∀ a ∈ l, P a) → HL W → HL (l.foldl g W) ∧ PT p W (l.foldl g W)
  | [], W, _, hW => ⟨hW, PT.refl p W⟩
  | a :: l, W, hl, hW => by
    simp only [List.foldl_cons]
    have h1 := hg W a (hl a (by simp)) hW
    have h2 := foldl_hl_pt p g P hg l (g W a) (fun x hx => hl x (by simp [hx])) h1.1
    exact ⟨h2.1, h1.2.trans h2.2⟩

/-- a change of command `c` that only removes stored tasks keeps `HL` -/
theorem HL.modCmd_sub {w : World} (h : HL w) (c : Nat) (g : CmdSt → CmdSt)
    (hgt : ∀ x, ∀ t ∈ (g x).tasks.values, t ∈ x.tasks.values) (hgs : ∀ x, ∀ t ∈ (g x).spawnQ, t ∈ x.spawnQ) :
    HL (w.modCmd c g) := by
  refine ⟨?_, ?_⟩
  · intro q t ht
    by_cases e : c = q
    · subst e
      rw [World.cmd_modCmd_self] at ht
      cases hc : w.cmds[c]? with
      | none => simp [hc, Slab.values] at ht
      | some x =>
        simp only [hc] at ht
        have := hgt x t ht
        exact h.tasks c t (by simp only [World.cmd, hc]; exact this)
    · rw [World.cmd_modCmd_other w c q _ e] at ht; exact h.tasks q t ht
  · intro q t ht
    by_cases e : c = q
    · subst e
      rw [World.cmd_modCmd_self] at ht
      cases hc : w.cmds[c]? with
      | none => simp [hc] at ht
      | some x =>
        simp only [hc] at ht
        have := hgs x t ht
        exact h.spawn c t (by simp only [World.cmd, hc]; exact this)
    · rw [World.cmd_modCmd_other w c q _ e] at ht; exact h.spawn q t ht

theorem dropCmd_rest (f c : Nat) (ih : ∀ (c : Nat) (w : World), HL w → HL (dropCmdAt f c w) ∧ RT c w (dropCmdAt f c w))
    (w W1 : World) (hw : HL w) (h1 : HL W1) (r1 : RT c w W1) :
    HL (List.foldl (fun w t => dropTask (dropCmdAt f) t w)
        (List.foldl (fun w t => dropTask (dropCmdAt f) t w)
          (if (w.cmd c).effects.isEmpty = true then W1 else
            ((w.cmd c).effects.foldl dropEff W1).anomaly "command dropped with queued effects")
          (w.cmd c).spawnQ) (w.cmd c).tasks.values) ∧
    RT c w (List.foldl (fun w t => dropTask (dropCmdAt f) t w)
        (List.foldl (fun w t => dropTask (dropCmdAt f) t w)
          (if (w.cmd c).effects.isEmpty = true then W1 else
            ((w.cmd c).effects.foldl dropEff W1).anomaly "command dropped with queued effects")
          (w.cmd c).spawnQ) (w.cmd c).tasks.values) := by
  have hdc : DropOk (dropCmdAt f) c := fun c' W _ hW => ih c' W hW
  have hts : ∀ t ∈ (w.cmd c).tasks.values, hostsLtB c t.fut = true := hw.tasks c
  have hsp : ∀ t ∈ (w.cmd c).spawnQ, hostsLtB c t.fut = true := hw.spawn c
  have h2 : HL (if (w.cmd c).effects.isEmpty = true then W1 else
      ((w.cmd c).effects.foldl dropEff W1).anomaly "command dropped with queued effects") ∧
      PT c W1 (if (w.cmd c).effects.isEmpty = true then W1 else
      ((w.cmd c).effects.foldl dropEff W1).anomaly "command dropped with queued effects") := by
    split
    · exact ⟨h1, PT.refl c W1⟩
    · have := foldl_hl_pt c dropEff (fun _ => True)
        (fun W a _ hW => ⟨hW.tk0 (tk0_dropEff W a), (tk0_dropEff W a).toPT (fun _ _ x => x.elim)⟩)
        (w.cmd c).effects W1 (fun _ _ => trivial) h1
      have f0 : TK0 ((w.cmd c).effects.foldl dropEff W1)
          (((w.cmd c).effects.foldl dropEff W1).anomaly "command dropped with queued effects") := tk_of_cmds rfl
      exact ⟨this.1.tk0 f0, this.2.trans (f0.toPT (fun _ _ x => x.elim))⟩
  have h3 := foldl_hl_pt c (fun w t => dropTask (dropCmdAt f) t w) (fun t => hostsLtB c t.fut = true)
    (fun W t ht hW => dropTask_hl (dropCmdAt f) c hdc t W ht hW) (w.cmd c).spawnQ _ hsp h2.1
  have h4 := foldl_hl_pt c (fun w t => dropTask (dropCmdAt f) t w) (fun t => hostsLtB c t.fut = true)
    (fun W t ht hW => dropTask_hl (dropCmdAt f) c hdc t W ht hW) (w.cmd c).tasks.values _ hts h3.1
  exact ⟨h4.1, r1.trans (((h2.2.trans h3.2).trans h4.2).toRT)⟩

theorem dropCmdAt_hl : ∀ (f c : Nat) (w : World), HL w → HL (dropCmdAt f c w) ∧ RT c w (dropCmdAt f c w) := by
  intro f
  induction f with
  | zero =>
    intro c w hw
    have f0 : TK0 w (dropCmdAt 0 c w) := tk_of_cmds rfl
    exact ⟨hw.tk0 f0, f0.toRT (fun _ _ x => x)⟩
  | succ f ih =>
    intro c w hw
    unfold dropCmdAt
    simp only
    split
    · exact ⟨hw, RT.refl c w⟩
    · refine dropCmd_rest f c ih w _ hw ?_ (rt_modCmd w c _)
      refine hw.modCmd_sub c _ ?_ ?_
      · intro x t ht; simp [Slab.values] at ht
      · intro x t ht; simp at ht

theorem World_dropCmd_hl (w : World) (c : Nat) (hw : HL w) : HL (w.dropCmd c) ∧ RT c w (w.dropCmd c) :=
  dropCmdAt_hl _ c w hw

theorem dropOk_World (p : Nat) : DropOk (fun c w => w.dropCmd c) p := fun c w _ hw => World_dropCmd_hl w c hw

theorem World_dropBlock_hl (p : Nat) (w : World) (b : Block) (h : hostsLtB p b = true) (hw : HL w) :
    HL (w.dropBlock b) ∧ PT p w (w.dropBlock b) := dropBlock_hl _ p (dropOk_World p) b w h hw

theorem World_dropTask_hl (p : Nat) (w : World) (t : Task) (h : hostsLtB p t.fut = true) (hw : HL w) :
    HL (w.dropTask t) ∧ PT p w (w.dropTask t) := dropTask_hl _ p (dropOk_World p) t w h hw

end M.Rt
