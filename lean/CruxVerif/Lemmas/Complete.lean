/-
Completeness of eviction for SIMPLE task programs (tasks that wait only on shell requests and streams; no select, no handoff,
no join handles, no abort handles, no hosted commands), under the direct host, over whole runs:
  SPc   every stored or spawned task is simple;
  ND    a stored task suspended only at closed requests is on the ready queue (it is evicted by the poll that leaves it so,
        unless that poll woke it — then it is queued and evicted by the next one).
-/
import CruxVerif.Lemmas.NoAbort
namespace M.Rt

/-- every stored task of command `c` is simple -/
structure SPc (c : Nat) (w : World) : Prop where
  t : ∀ t ∈ (w.cmd c).tasks.values, simpleB t.fut = true
  s : ∀ t ∈ (w.cmd c).spawnQ, simpleB t.fut = true

theorem SPc.tk {c : Nat} {w w' : World} (h : SPc c w) (f : SK w w') : SPc c w' :=
  ⟨fun t ht => h.t t (by rw [← f.tasks c]; exact ht), fun t ht => (f.spawn c t ht).elim (h.s t) id⟩

theorem SPc.tk0 {c : Nat} {w w' : World} (h : SPc c w) (f : TK0 w w') : SPc c w' := h.tk (f.imp (fun _ _ x => x.elim))

theorem SPc.modCmd {c : Nat} {w : World} (h : SPc c w) (g : CmdSt → CmdSt)
    (hgt : ∀ x, ∀ t ∈ (g x).tasks.values, t ∈ x.tasks.values ∨ simpleB t.fut = true)
    (hgs : ∀ x, ∀ t ∈ (g x).spawnQ, t ∈ x.spawnQ ∨ simpleB t.fut = true) : SPc c (w.modCmd c g) := by
  refine ⟨?_, ?_⟩
  · intro t ht
    rw [World.cmd_modCmd_self] at ht
    cases hc : w.cmds[c]? with
    | none => simp [hc, Slab.values] at ht
    | some x =>
      simp only [hc] at ht
      rcases hgt x t ht with hm | hm
      · exact h.t t (by simp only [World.cmd, hc]; exact hm)
      · exact hm
  · intro t ht
    rw [World.cmd_modCmd_self] at ht
    cases hc : w.cmds[c]? with
    | none => simp [hc] at ht
    | some x =>
      simp only [hc] at ht
      rcases hgs x t ht with hm | hm
      · exact h.s t (by simp only [World.cmd, hc]; exact hm)
      · exact hm

theorem runTaskF_sp (pn) (f : Nat) (c tid : Nat) (w : World) (st : TaskState) (w' : World)
    (h : runTaskF (pollBlock pn f) c tid w = some (st, w')) (hw : HFc c w) (hs : SPc c w) : SPc c w' := by
  unfold runTaskF at h
  split at h
  · simp only [Option.some.injEq, Prod.mk.injEq] at h; obtain ⟨_, rfl⟩ := h; exact hs
  · rename_i t hg
    have htf : hostFreeB t.fut = true := hw.t t (Slab.mem_values_of_get _ _ _ hg)
    have hts : simpleB t.fut = true := hs.t t (Slab.mem_values_of_get _ _ _ hg)
    split at h
    · simp only [Option.some.injEq, Prod.mk.injEq] at h; obtain ⟨_, rfl⟩ := h; exact hs
    · dsimp only at h
      have h0 : SPc c ({ w with nextSerial := w.nextSerial + 1 } : World) := hs.tk0 (tk_of_cmds rfl)
      split at h
      · cases h
      · rename_i env1 w1 hpoll
        simp only [Option.some.injEq, Prod.mk.injEq] at h
        obtain ⟨_, rfl⟩ := h
        exact h0.tk (pollBlock_sgood pn _ f _ _ _ _ _ _ hpoll htf hts (TKp.refl _)).1
      · rename_i b w1 hpoll
        have pg := pollBlock_sgood pn _ f _ _ _ _ _ _ hpoll htf hts (TKp.refl _)
        have h1 : SPc c w1 := h0.tk pg.1
        have hb : simpleB b = true := pg.2
        have h2 : SPc c (w1.modCmd c fun x => { x with tasks := x.tasks.set tid { t with fut := b } }) := by
          refine h1.modCmd _ ?_ ?_
          · intro x t' ht'
            rcases Slab.mem_values_set _ _ _ _ ht' with rfl | hm
            · exact Or.inr hb
            · exact Or.inl hm
          · intro x t' ht'; exact Or.inl ht'
        split at h
        · simp only [Option.some.injEq, Prod.mk.injEq] at h; obtain ⟨_, rfl⟩ := h; exact h2.tk0 (tk_of_cmds rfl)
        · simp only [Option.some.injEq, Prod.mk.injEq] at h; obtain ⟨_, rfl⟩ := h; exact h2.tk0 (tk_of_cmds rfl)

theorem dropTask_sp (c : Nat) (w : World) (t : Task) (ht : hostFreeB t.fut = true) (hs : SPc c w) : SPc c (w.dropTask t) := by
  unfold World.dropTask M.Rt.dropTask
  simp only
  have h1 : SPc c (w.modMeta t.serial fun m => { m with taskAlive := false, joinWakers := [] }) := hs.tk0 (tk_of_cmds rfl)
  exact h1.tk (tk_World_dropBlock _ t.fut ht)

theorem finishTask_sp (c tid : Nat) (w : World) (hw : HFc c w) (hs : SPc c w) : SPc c (finishTask c tid w) := by
  unfold finishTask
  simp only
  split
  · exact hs
  · rename_i t tasks hr
    have htm : t ∈ (w.cmd c).tasks.values := by
      have : (w.cmd c).tasks.get? tid = some t := by
        cases hg : (w.cmd c).tasks.get? tid with
        | none => rw [Slab.remove_none _ _ hg] at hr; cases hr
        | some t' =>
          have := (Slab.remove_get _ _ _ hg).1
          rw [hr] at this; simp only [Option.some.injEq] at this; rw [this]
      exact Slab.mem_values_of_get _ _ _ this
    have htf := hw.t t htm
    have hT : tasks = ((w.cmd c).tasks.remove tid).2 := by rw [hr]
    have h1 : SPc c (w.modCmd c fun x => { x with tasks := tasks }) := by
      refine hs.modCmd _ ?_ ?_
      · intro x t' ht'
        have : t' ∈ (w.cmd c).tasks.values := by
          simp only at ht'; rw [hT] at ht'; exact Slab.mem_values_remove _ _ _ ht'
        exact Or.inr (hs.t t' this)
      · intro x t' ht'; exact Or.inl ht'
    generalize (w.modCmd c fun x => { x with tasks := tasks }) = w1 at h1 ⊢
    have h2 : SPc c (w1.modMeta t.serial fun m => { m with finished := true, joinWakers := [] }) := h1.tk0 (tk_of_cmds rfl)
    generalize (w1.modMeta t.serial fun m => { m with finished := true, joinWakers := [] }) = w2 at h2 ⊢
    exact dropTask_sp c _ t htf (h2.tk0 (tk0_wakeAll _ w2))

theorem spawnNewTasks_sp (c : Nat) (w : World) (hs : SPc c w) : SPc c (spawnNewTasks c w) := by
  unfold spawnNewTasks
  have h0 : SPc c (w.modCmd c fun x => { x with spawnQ := [] }) := by
    refine hs.modCmd _ ?_ ?_
    · intro x t' ht'; exact Or.inl ht'
    · intro x t' ht'; cases ht'
  have hP : ∀ (l : List Task) (W : World), (∀ t ∈ l, simpleB t.fut = true) → SPc c W →
      SPc c (l.foldl (fun w t => w.modCmd c fun x => { x with tasks := (x.tasks.insert t).2, ready := x.ready ++ [(x.tasks.insert t).1] }) W) := by
    intro l
    induction l with
    | nil => intro W _ h; exact h
    | cons t l ih =>
      intro W hl h
      simp only [List.foldl_cons]
      refine ih _ (fun x hx => hl x (by simp [hx])) ?_
      refine h.modCmd _ ?_ ?_
      · intro x t' ht'
        rcases Slab.mem_values_insert _ _ _ ht' with rfl | hm
        · exact Or.inr (hl _ (by simp))
        · exact Or.inl hm
      · intro x t' ht'; exact Or.inl ht'
  exact hP (w.cmd c).spawnQ _ hs.s h0


/-! ### nothing is aborted (simple programs have no handles) -/

theorem runTaskF_na (pn) (f : Nat) (c tid : Nat) (w : World) (st : TaskState) (w' : World)
    (h : runTaskF (pollBlock pn f) c tid w = some (st, w')) (hw : HFc c w) (hs : SPc c w) (hq : NAb w) : NAb w' := by
  unfold runTaskF at h
  split at h
  · simp only [Option.some.injEq, Prod.mk.injEq] at h; obtain ⟨_, rfl⟩ := h; exact hq
  · rename_i t hg
    have htf : hostFreeB t.fut = true := hw.t t (Slab.mem_values_of_get _ _ _ hg)
    have hts : simpleB t.fut = true := hs.t t (Slab.mem_values_of_get _ _ _ hg)
    split at h
    · simp only [Option.some.injEq, Prod.mk.injEq] at h; obtain ⟨_, rfl⟩ := h; exact hq
    · dsimp only at h
      have q0 : NAb ({ w with nextSerial := w.nextSerial + 1 } : World) := hq.of_same rfl rfl
      split at h
      · cases h
      · rename_i env1 w1 hpoll
        simp only [Option.some.injEq, Prod.mk.injEq] at h
        obtain ⟨_, rfl⟩ := h
        exact pollBlock_nagood pn f _ _ _ _ _ _ hpoll htf hts q0
      · rename_i b w1 hpoll
        have q1 : NAb w1 := pollBlock_nagood pn f _ _ _ _ _ _ hpoll htf hts q0
        split at h
        · simp only [Option.some.injEq, Prod.mk.injEq] at h; obtain ⟨_, rfl⟩ := h; exact q1.of_same rfl rfl
        · simp only [Option.some.injEq, Prod.mk.injEq] at h; obtain ⟨_, rfl⟩ := h; exact q1.of_same rfl rfl

theorem dropTask_na (w : World) (t : Task) (ht : hostFreeB t.fut = true) (hq : NAb w) : NAb (w.dropTask t) := by
  unfold World.dropTask M.Rt.dropTask
  simp only
  exact nab_dropBlock (w := w.modMeta t.serial fun m => { m with taskAlive := false, joinWakers := [] }) t.fut ht
    (nab_modMeta _ _ (fun _ hm => hm) hq)

theorem finishTask_na (c tid : Nat) (w : World) (hw : HFc c w) (hq : NAb w) : NAb (finishTask c tid w) := by
  unfold finishTask
  simp only
  split
  · exact hq
  · rename_i t tasks hr
    have htm : t ∈ (w.cmd c).tasks.values := by
      have : (w.cmd c).tasks.get? tid = some t := by
        cases hg : (w.cmd c).tasks.get? tid with
        | none => rw [Slab.remove_none _ _ hg] at hr; cases hr
        | some t' =>
          have := (Slab.remove_get _ _ _ hg).1
          rw [hr] at this; simp only [Option.some.injEq] at this; rw [this]
      exact Slab.mem_values_of_get _ _ _ this
    have htf := hw.t t htm
    refine dropTask_na _ t htf (nab_wakeAll _ _ ?_)
    exact nab_modMeta _ _ (fun _ hm => hm) (nab_modCmd _ _ hq)

theorem spawnNewTasks_na (c : Nat) (w : World) (hq : NAb w) : NAb (spawnNewTasks c w) := by
  unfold spawnNewTasks
  have : ∀ (l : List Task) (W : World), NAb W → NAb (l.foldl (fun w t => w.modCmd c fun x =>
      { x with tasks := (x.tasks.insert t).2, ready := x.ready ++ [(x.tasks.insert t).1] }) W) := by
    intro l
    induction l with
    | nil => intro W h; exact h
    | cons t l ih => intro W h; simp only [List.foldl_cons]; exact ih _ (nab_modCmd _ _ h)
  exact this _ _ (nab_modCmd _ _ hq)

/-! ### a stored task suspended only at closed requests is queued -/

def ND (c : Nat) (ex : Option Nat) (w : World) : Prop :=
  ∀ tid t, (w.cmd c).tasks.get? tid = some t → some tid ≠ ex → deadOnlyB t.fut = true → tid ∈ (w.cmd c).ready

theorem NoReg_of_sok {w : World} (h : SOk w) : NoReg w.nextSerial ({ w with nextSerial := w.nextSerial + 1 } : World) :=
  ⟨fun lf hlf => isSerial_of_below _ _ (h.leaves lf hlf),
   fun m hm k hk => isSerial_of_below _ (some k) (h.metas m hm k hk),
   fun c hc => isSerial_of_below _ _ (h.cmds c hc)⟩

/-- what one `run_task` of task `tid` does to the OTHER tasks' blocks and to the ready queue: nothing, and it only grows -/
theorem runTaskF_frame (pn) (f : Nat) (c tid : Nat) (w : World) (st : TaskState) (w' : World)
    (h : runTaskF (pollBlock pn f) c tid w = some (st, w')) (hw : HFc c w) :
    (∀ tid', tid' ≠ tid → (w'.cmd c).tasks.get? tid' = (w.cmd c).tasks.get? tid') ∧ (∀ x, RD c x w → RD c x w') := by
  unfold runTaskF at h
  split at h
  · simp only [Option.some.injEq, Prod.mk.injEq] at h; obtain ⟨_, rfl⟩ := h; exact ⟨fun _ _ => rfl, fun _ hx => hx⟩
  · rename_i t hg
    have htf : hostFreeB t.fut = true := hw.t t (Slab.mem_values_of_get _ _ _ hg)
    split at h
    · simp only [Option.some.injEq, Prod.mk.injEq] at h; obtain ⟨_, rfl⟩ := h; exact ⟨fun _ _ => rfl, fun _ hx => hx⟩
    · dsimp only at h
      have pollfacts : ∀ (r : PollRes) (w1 : World),
          pollBlock pn f (.task c tid w.nextSerial) (.cmd c) t.fut ({ w with nextSerial := w.nextSerial + 1 } : World) = some (r, w1) →
          (w1.cmd c).tasks = (w.cmd c).tasks ∧ (∀ x, RD c x w → RD c x w1) := by
        intro r w1 hp
        have tk := pollBlock_tgood pn f (fun _ t => hostFreeB t.fut = true) _ _ _ _ _ _ hp htf (fun _ _ _ x => x)
        refine ⟨by rw [tk.tasks c]; rfl, ?_⟩
        intro x hx
        exact (pollBlock_jrgood pn 0 (.root 0) c x f _ _ _ _ _ _ hp htf).2 (rd_of_cmds (w := w) rfl hx)
      split at h
      · cases h
      · rename_i env1 w1 hpoll
        simp only [Option.some.injEq, Prod.mk.injEq] at h
        obtain ⟨_, rfl⟩ := h
        obtain ⟨pt, pr⟩ := pollfacts _ _ hpoll
        exact ⟨fun _ _ => by rw [pt], pr⟩
      · rename_i b w1 hpoll
        obtain ⟨pt, pr⟩ := pollfacts _ _ hpoll
        have fin : ∀ (pf : Nat → Bool),
            (∀ tid', tid' ≠ tid → ((({ (w1.modCmd c fun x => { x with tasks := x.tasks.set tid { t with fut := b } })
              with woken := (w1.modCmd c fun x => { x with tasks := x.tasks.set tid { t with fut := b } }).woken.filter pf } : World).cmd c).tasks.get? tid'
                = (w.cmd c).tasks.get? tid')) ∧
            (∀ x, RD c x w → RD c x ({ (w1.modCmd c fun x => { x with tasks := x.tasks.set tid { t with fut := b } })
              with woken := (w1.modCmd c fun x => { x with tasks := x.tasks.set tid { t with fut := b } }).woken.filter pf } : World)) := by
          intro pf
          constructor
          · intro tid' hne
            show ((w1.modCmd c fun x => { x with tasks := x.tasks.set tid { t with fut := b } }).cmd c).tasks.get? tid' = _
            rw [World.cmd_modCmd_self]
            cases hc : w1.cmds[c]? with
            | none =>
              have : w1.cmd c = {} := by simp [World.cmd, hc]
              rw [← pt, this]
            | some x1 =>
              simp only
              rw [Slab.get_set_other _ _ _ _ hne, ← pt]
              simp [World.cmd, hc]
          · intro x hx
            exact rd_of_cmds (w := w1.modCmd c fun x => { x with tasks := x.tasks.set tid { t with fut := b } }) rfl
              (rd_modCmd_keep c _ (fun _ => rfl) (pr x hx))
        split at h
        · simp only [Option.some.injEq, Prod.mk.injEq] at h; obtain ⟨_, rfl⟩ := h; exact fin _
        · simp only [Option.some.injEq, Prod.mk.injEq] at h; obtain ⟨_, rfl⟩ := h; exact fin _

/-- a simple task that `run_task` keeps as `Suspended` although it is suspended only at closed requests was woken during
    its poll, hence is queued: nothing holds the waker of a poll that ends so (`NRGood`) -/
theorem runTaskF_dead_queued (pn) (f : Nat) (c tid : Nat) (w : World) (w' : World)
    (h : runTaskF (pollBlock pn f) c tid w = some (.suspended, w')) (hw : HFc c w) (hs : SPc c w) (sok : SOk w)
    (hal : (w.cmd c).alive = true) (hin : c < w.cmds.length) :
    ∀ t, (w'.cmd c).tasks.get? tid = some t → deadOnlyB t.fut = true → tid ∈ (w'.cmd c).ready := by
  unfold runTaskF at h
  split at h
  · simp at h
  · rename_i t hg
    have htf : hostFreeB t.fut = true := hw.t t (Slab.mem_values_of_get _ _ _ hg)
    have hts : simpleB t.fut = true := hs.t t (Slab.mem_values_of_get _ _ _ hg)
    split at h
    · simp at h
    · dsimp only at h
      split at h
      · cases h
      · simp at h
      · rename_i b w1 hpoll
        have hlen : w1.cmds.length = w.cmds.length := (pollBlock_qs _ _ _ _ _ _ _ _ hpoll htf).len
        obtain ⟨x1, hx1⟩ : ∃ x, w1.cmds[c]? = some x := ⟨_, List.getElem?_eq_getElem (by omega)⟩
        split at h
        · simp at h
        · rename_i hcond
          simp only [Option.some.injEq, Prod.mk.injEq, true_and] at h
          subst h
          intro t2 hg2 hd
          have et : ((w1.modCmd c fun x => { x with tasks := x.tasks.set tid { t with fut := b } }).cmd c).tasks =
              (w1.cmd c).tasks.set tid { t with fut := b } := by
            rw [World.cmd_modCmd_self]; simp [hx1, World.cmd]
          have er : ((w1.modCmd c fun x => { x with tasks := x.tasks.set tid { t with fut := b } }).cmd c).ready = (w1.cmd c).ready := by
            refine cmd_modCmd_keep (·.ready) w1 c _ ?_; intro _; rfl
          have tk := pollBlock_tgood pn f (fun _ t => hostFreeB t.fut = true) _ _ _ _ _ _ hpoll htf (fun _ _ _ x => x)
          have pt : (w1.cmd c).tasks = (w.cmd c).tasks := by rw [tk.tasks c]; rfl
          change ((w1.modCmd c fun x => { x with tasks := x.tasks.set tid { t with fut := b } }).cmd c).tasks.get? tid = some t2 at hg2
          rw [et, Slab.get_set_self _ _ _ t (by rw [pt]; exact hg)] at hg2
          cases hg2
          -- nothing holds the poll's serial
          have nr1 : NoReg w.nextSerial w1 := pollBlock_nrgood pn w.nextSerial f c tid _ _ _ _ _ hpoll htf hts (NoReg_of_sok sok) hd
          have nr2 : NoReg w.nextSerial (w1.modCmd c fun x => { x with tasks := x.tasks.set tid { t with fut := b } }) :=
            nr1.modCmd c _ (fun _ hx => hx)
          have hh : ({ (w1.modCmd c fun x => { x with tasks := x.tasks.set tid { t with fut := b } })
              with woken := (w1.modCmd c fun x => { x with tasks := x.tasks.set tid { t with fut := b } }).woken.filter (· != w.nextSerial) } : World).holders
                w.nextSerial = 0 := (nr2.of_same rfl rfl rfl).holders
          rw [hh] at hcond
          have hwk : w1.woken.contains w.nextSerial = true := by
            cases hc : w1.woken.contains w.nextSerial with
            | true => rfl
            | false =>
              exfalso; apply hcond
              show (!(w1.woken.contains w.nextSerial) && (0 == 0)) = true
              rw [hc]; rfl
          have := woken_means_queued pn f c tid w _ _ w1 hpoll htf sok hal hin (List.contains_iff_mem.mp hwk)
          show tid ∈ ((w1.modCmd c fun x => { x with tasks := x.tasks.set tid { t with fut := b } }).cmd c).ready
          rw [er]; exact this


theorem runTaskF_missing_gone (poll) (c tid : Nat) (w w' : World) (h : runTaskF poll c tid w = some (.missing, w')) :
    (w'.cmd c).tasks.get? tid = none := by
  unfold runTaskF at h
  split at h
  · rename_i hn; simp only [Option.some.injEq, Prod.mk.injEq, true_and] at h; subst h; exact hn
  · split at h
    · simp at h
    · dsimp only at h
      split at h
      · cases h
      · simp at h
      · split at h <;> simp at h

/-- removing task `tid`: the others keep their blocks, the ready queue only grows -/
theorem finishTask_frame (c tid : Nat) (w : World) (hw : HFc c w) (hin : c < w.cmds.length) :
    (∀ tid' t', ((finishTask c tid w).cmd c).tasks.get? tid' = some t' → (w.cmd c).tasks.get? tid' = some t' ∧
      ((w.cmd c).tasks.get? tid ≠ none → tid' ≠ tid)) ∧
    (∀ x, RD c x w → RD c x (finishTask c tid w)) := by
  unfold finishTask
  simp only
  split
  · exact ⟨fun tid' t' h => ⟨h, fun hne e => by
      rename_i hr
      subst e
      cases hg : (w.cmd c).tasks.get? tid' with
      | none => exact hne hg
      | some a =>
        have := (Slab.remove_get _ _ _ hg).1
        rw [hr] at this; cases this⟩, fun _ hx => hx⟩
  · rename_i t tasks hr
    have hgt : (w.cmd c).tasks.get? tid = some t := by
      cases hg : (w.cmd c).tasks.get? tid with
      | none => rw [Slab.remove_none _ _ hg] at hr; cases hr
      | some t' =>
        have := (Slab.remove_get _ _ _ hg).1
        rw [hr] at this; simp only [Option.some.injEq] at this; rw [this]
    have htf := hw.t t (Slab.mem_values_of_get _ _ _ hgt)
    have hT : tasks = ((w.cmd c).tasks.remove tid).2 := by rw [hr]
    obtain ⟨x0, hx0⟩ : ∃ x, w.cmds[c]? = some x := ⟨_, List.getElem?_eq_getElem hin⟩
    -- the world after the slab update, then metas / wakes / drop: cmds' tasks untouched, ready grows
    have e1 : ((w.modCmd c fun x => { x with tasks := tasks }).cmd c).tasks = tasks := by
      rw [World.cmd_modCmd_self]; simp [hx0]
    have r1 : ∀ x, RD c x w → RD c x (w.modCmd c fun x => { x with tasks := tasks }) :=
      fun x hx => rd_modCmd_keep c _ (fun _ => rfl) hx
    generalize (w.modCmd c fun x => { x with tasks := tasks }) = w1 at e1 r1 ⊢
    have e2 : ((w1.modMeta t.serial fun m => { m with finished := true, joinWakers := [] }).cmd c).tasks = tasks := e1
    have r2 : ∀ x, RD c x w → RD c x (w1.modMeta t.serial fun m => { m with finished := true, joinWakers := [] }) :=
      fun x hx => rd_modMeta _ _ (r1 x hx)
    generalize (w1.modMeta t.serial fun m => { m with finished := true, joinWakers := [] }) = w2 at e2 r2 ⊢
    have tk3 : TK0 w2 (w2.wakeAll (w1.getMeta t.serial).joinWakers) := tk0_wakeAll _ w2
    have r3 : ∀ x, RD c x w → RD c x (w2.wakeAll (w1.getMeta t.serial).joinWakers) := fun x hx => rd_wakeAll _ _ (r2 x hx)
    have e3 : ((w2.wakeAll (w1.getMeta t.serial).joinWakers).cmd c).tasks = tasks := by rw [tk3.tasks c]; exact e2
    generalize (w2.wakeAll (w1.getMeta t.serial).joinWakers) = w3 at e3 r3 ⊢
    have tk4 : TK0 w3 (w3.dropTask t) := by
      unfold World.dropTask M.Rt.dropTask
      simp only
      exact TKp.trans (w2 := w3.modMeta t.serial fun m => { m with taskAlive := false, joinWakers := [] }) (tk_of_cmds rfl)
        (tk_World_dropBlock _ t.fut htf)
    have r4 : ∀ x, RD c x w → RD c x (w3.dropTask t) := by
      intro x hx
      unfold World.dropTask M.Rt.dropTask
      simp only
      exact rd_dropBlock (w := w3.modMeta t.serial fun m => { m with taskAlive := false, joinWakers := [] }) t.fut htf
        (rd_modMeta _ _ (r3 x hx))
    refine ⟨?_, r4⟩
    intro tid' t' hg'
    rw [tk4.tasks c, e3, hT] at hg'
    have rg := Slab.remove_get _ _ _ hgt
    by_cases e : tid' = tid
    · subst e; rw [rg.2.1] at hg'; cases hg'
    · rw [rg.2.2 tid' e] at hg'; exact ⟨hg', fun _ => e⟩

theorem spawnNewTasks_nd (c : Nat) (w : World) (hin : c < w.cmds.length) (hn : ND c none w) : ND c none (spawnNewTasks c w) := by
  unfold spawnNewTasks
  have h0 : ND c none (w.modCmd c fun x => { x with spawnQ := [] }) := by
    intro tid t hg hne hd
    have et : ((w.modCmd c fun x => { x with spawnQ := [] }).cmd c).tasks = (w.cmd c).tasks := by
      refine cmd_modCmd_keep (·.tasks) w c _ ?_; intro _; rfl
    have er : ((w.modCmd c fun x => { x with spawnQ := [] }).cmd c).ready = (w.cmd c).ready := by
      refine cmd_modCmd_keep (·.ready) w c _ ?_; intro _; rfl
    rw [et] at hg; rw [er]; exact hn tid t hg hne hd
  have hlen0 : c < (w.modCmd c fun x => { x with spawnQ := [] }).cmds.length := by
    simp only [World.modCmd, modifyNth_length]; exact hin
  have hP : ∀ (l : List Task) (W : World), c < W.cmds.length → ND c none W →
      ND c none (l.foldl (fun w t => w.modCmd c fun x => { x with tasks := (x.tasks.insert t).2, ready := x.ready ++ [(x.tasks.insert t).1] }) W) := by
    intro l
    induction l with
    | nil => intro W _ h; exact h
    | cons t l ih =>
      intro W hW h
      simp only [List.foldl_cons]
      refine ih _ (by simp only [World.modCmd, modifyNth_length]; exact hW) ?_
      obtain ⟨x0, hx0⟩ : ∃ x, W.cmds[c]? = some x := ⟨_, List.getElem?_eq_getElem hW⟩
      have ec : W.cmd c = x0 := by simp [World.cmd, hx0]
      intro tid' t' hg hne hd
      rw [World.cmd_modCmd_self] at hg ⊢
      simp only [hx0] at hg ⊢
      by_cases e : tid' = (x0.tasks.insert t).1
      · rw [e]; simp
      · rw [Slab.get_insert_other _ _ _ e] at hg
        have := h tid' t' (by rw [ec]; exact hg) hne hd
        rw [ec] at this
        simp [this]
  exact hP _ _ hlen0 h0

/-- what the completeness argument carries through a run -/
structure CL (c : Nat) (w : World) : Prop where
  sok : SOk w
  alive : (w.cmd c).alive = true
  inr : c < w.cmds.length
  hf : HFc c w
  sp : SPc c w
  na : NAb w
  nd : ND c none w

theorem drainReady_cl (c : Nat) : ∀ (f : Nat) (w w' : World), drainReady runTask f c w = some w' → CL c w → CL c w' := by
  intro f
  induction f with
  | zero => intro w w' h; simp [drainReady] at h
  | succ f ih =>
    intro w w' h hw
    unfold drainReady at h
    split at h
    · simp only [Option.some.injEq] at h; subst h; exact hw
    · rename_i tid rest hrd
      generalize hw0 : (w.modCmd c fun x => { x with ready := rest }) = w0 at h
      have e0t : (w0.cmd c).tasks = (w.cmd c).tasks := by subst hw0; refine cmd_modCmd_keep (·.tasks) w c _ ?_; intro _; rfl
      obtain ⟨x0, hx0⟩ : ∃ x, w.cmds[c]? = some x := ⟨_, List.getElem?_eq_getElem hw.inr⟩
      have e0r : (w0.cmd c).ready = rest := by subst hw0; rw [World.cmd_modCmd_self]; simp [hx0]
      have sok0 : SOk w0 := by
        subst hw0
        have hsk : SOkN w.nextSerial (w.modCmd c fun x => { x with ready := rest }) := by
          refine SOkN.modCmd hw.sok c _ ?_; intro _ hx; exact hx
        exact (SOk.step (w1 := w.modCmd c fun x => { x with ready := rest }) hw.sok rfl hsk).1
      have al0 : (w0.cmd c).alive = true := by
        subst hw0
        rw [show ((w.modCmd c fun x => { x with ready := rest }).cmd c).alive = (w.cmd c).alive from by
          refine cmd_modCmd_keep (·.alive) w c _ ?_; intro _; rfl]; exact hw.alive
      have in0 : c < w0.cmds.length := by subst hw0; simp only [World.modCmd, modifyNth_length]; exact hw.inr
      have hf0 : HFc c w0 := by subst hw0; exact hw.hf.modCmd _ (fun _ _ h => Or.inl h) (fun _ _ h => Or.inl h)
      have sp0 : SPc c w0 := by subst hw0; exact hw.sp.modCmd _ (fun _ _ h => Or.inl h) (fun _ _ h => Or.inl h)
      have na0 : NAb w0 := by subst hw0; exact nab_modCmd _ _ hw.na
      have nd0 : ND c (some tid) w0 := by
        intro tid' t' hg' hne hd
        rw [e0t] at hg'
        have hne' : tid' ≠ tid := fun e => hne (by rw [e])
        have := hw.nd tid' t' hg' (fun e => by cases e) hd
        rw [hrd] at this
        simp only [List.mem_cons] at this
        rw [e0r]
        rcases this with h1 | h1
        · exact absurd h1 hne'
        · exact h1
      -- after the task has run
      have after : ∀ (st : TaskState) (w1 : World), runTask c tid w0 = some (st, w1) →
          SOk w1 ∧ (w1.cmd c).alive = true ∧ c < w1.cmds.length ∧ HFc c w1 ∧ SPc c w1 ∧ NAb w1 ∧ ND c (some tid) w1 := by
        intro st w1 hrt
        have hrt' : runTaskF (pollBlock (pollNextF (runUntilSettledF (runTaskF (pollAt 63)))) loopFuel) c tid w0 = some (st, w1) := by
          rw [← runTask_eq]; exact hrt
        have q := runTaskF_q _ _ c tid w0 st w1 hrt' hf0
        have fr := runTaskF_frame _ _ c tid w0 st w1 hrt' hf0
        refine ⟨(runTask_ok c tid w0 st w1 hrt sok0).1, by rw [q.1.alive c]; exact al0, by rw [q.1.len]; exact in0, q.2,
          runTaskF_sp _ _ c tid w0 st w1 hrt' hf0 sp0, runTaskF_na _ _ c tid w0 st w1 hrt' hf0 sp0 na0, ?_⟩
        intro tid' t' hg' hne hd
        have hne' : tid' ≠ tid := fun e => hne (by rw [e])
        rw [fr.1 tid' hne'] at hg'
        exact fr.2 tid' (nd0 tid' t' hg' hne hd)
      have fin : ∀ (st : TaskState) (w1 : World), runTask c tid w0 = some (st, w1) → CL c (finishTask c tid w1) := by
        intro st w1 hrt
        obtain ⟨a1, a2, a3, a4, a5, a7, a6⟩ := after st w1 hrt
        have q := finishTask_q c tid w1 a4
        have fr := finishTask_frame c tid w1 a4 a3
        refine ⟨(finishTask_keeps c tid w1 a1).1, by rw [q.1.alive c]; exact a2, by rw [q.1.len]; exact a3, q.2,
          finishTask_sp c tid w1 a4 a5, finishTask_na c tid w1 a4 a7, ?_⟩
        intro tid' t' hg' _ hd
        obtain ⟨hg1, hne1⟩ := fr.1 tid' t' hg'
        by_cases e : tid' = tid
        · subst e
          exact absurd rfl (hne1 (by rw [hg1]; simp))
        · exact fr.2 tid' (a6 tid' t' hg1 (fun e' => e (Option.some.inj e')) hd)
      simp only at h
      split at h
      · cases h
      · rename_i w1 hrt
        obtain ⟨a1, a2, a3, a4, a5, a7, a6⟩ := after _ w1 hrt
        refine ih w1 w' h ⟨a1, a2, a3, a4, a5, a7, ?_⟩
        intro tid' t' hg' _ hd
        by_cases e : tid' = tid
        · subst e
          have := runTaskF_missing_gone _ c tid' w0 w1 (by rw [← runTask_eq]; exact hrt)
          rw [this] at hg'; cases hg'
        · exact a6 tid' t' hg' (fun e' => e (Option.some.inj e')) hd
      · rename_i w1 hrt
        obtain ⟨a1, a2, a3, a4, a5, a7, a6⟩ := after _ w1 hrt
        refine ih w1 w' h ⟨a1, a2, a3, a4, a5, a7, ?_⟩
        intro tid' t' hg' _ hd
        by_cases e : tid' = tid
        · subst e
          exact runTaskF_dead_queued _ _ c tid' w0 w1 (by rw [← runTask_eq]; exact hrt) hf0 sp0 sok0 al0 in0 t' hg' hd
        · exact a6 tid' t' hg' (fun e' => e (Option.some.inj e')) hd
      · rename_i w1 hrt
        exact ih _ w' h (fin _ w1 hrt)
      · rename_i w1 hrt
        exact ih _ w' h (fin _ w1 hrt)


theorem settleLoop_cl (c : Nat) : ∀ (f : Nat) (w w' : World), settleLoop runTask f c w = some w' → CL c w → CL c w' := by
  intro f
  induction f with
  | zero => intro w w' h; simp [settleLoop] at h
  | succ f ih =>
    intro w w' h hw
    unfold settleLoop at h
    simp only at h
    have q := spawnNewTasks_q c w hw.hf
    have k0 : CL c (spawnNewTasks c w) :=
      ⟨(spawnNewTasks_keeps c w hw.sok).1, by rw [q.1.alive c]; exact hw.alive, by rw [q.1.len]; exact hw.inr, q.2,
        spawnNewTasks_sp c w hw.sp, spawnNewTasks_na c w hw.na, spawnNewTasks_nd c w hw.inr hw.nd⟩
    split at h
    · simp only [Option.some.injEq] at h; subst h; exact k0
    · split at h
      · cases h
      · rename_i w1 hd
        exact ih w1 w' h (drainReady_cl c _ _ w1 hd k0)

theorem runUntilSettled_cl (c : Nat) (w w' : World) (h : runUntilSettled c w = some w') (hw : CL c w) : CL c w' := by
  have hsok := (runUntilSettled_ok c w w' h hw.sok).1
  have q := runUntilSettledF_q _ _ c w w' h hw.hf
  unfold runUntilSettled runUntilSettledF at h
  split at h
  · simp only [Option.some.injEq] at h
    subst h
    have hP : ∀ (l : List Task) (W : World), (∀ t ∈ l, hostFreeB t.fut = true) → SPc c W →
        SPc c (l.foldl (fun w t => w.dropTask t) W) := by
      intro l
      induction l with
      | nil => intro W _ h; exact h
      | cons t l ih =>
        intro W hl h
        simp only [List.foldl_cons]
        exact ih _ (fun x hx => hl x (by simp [hx])) (dropTask_sp c W t (hl t (by simp)) h)
    have h1 := hP (w.cmd c).tasks.values w hw.hf.t hw.sp
    obtain ⟨x0, hx0⟩ : ∃ x, (List.foldl (fun w t => w.dropTask t) w (w.cmd c).tasks.values).cmds[c]? = some x := by
      refine ⟨_, List.getElem?_eq_getElem ?_⟩
      have := q.1.len
      simp only [World.modCmd, modifyNth_length] at this
      rw [this]; exact hw.inr
    have hN : ∀ (l : List Task) (W : World), (∀ t ∈ l, hostFreeB t.fut = true) → NAb W →
        NAb (l.foldl (fun w t => w.dropTask t) W) := by
      intro l
      induction l with
      | nil => intro W _ h; exact h
      | cons t l ih =>
        intro W hl h
        simp only [List.foldl_cons]
        exact ih _ (fun x hx => hl x (by simp [hx])) (dropTask_na W t (hl t (by simp)) h)
    refine ⟨hsok, by rw [q.1.alive c]; exact hw.alive, by rw [q.1.len]; exact hw.inr, q.2, ?_,
      nab_modCmd _ _ (hN (w.cmd c).tasks.values w hw.hf.t hw.na), ?_⟩
    · refine h1.modCmd _ ?_ ?_
      · intro x t' ht'; simp [Slab.values] at ht'
      · intro x t' ht'; exact Or.inl ht'
    · intro tid t hg _ _
      rw [World.cmd_modCmd_self] at hg
      simp [hx0, Slab.get?] at hg
  · exact settleLoop_cl c _ w w' h hw

/-- a change of the command's own output queues -/
theorem CL.modCmd_out {c : Nat} {w : World} (h : CL c w) (f : CmdSt → CmdSt) (ht : ∀ x, (f x).tasks = x.tasks)
    (hs : ∀ x, (f x).spawnQ = x.spawnQ) (hr : ∀ x, (f x).ready = x.ready) (ha : ∀ x, (f x).alive = x.alive)
    (hwk : ∀ x, (f x).waker = x.waker) : CL c (w.modCmd c f) := by
  have et : ((w.modCmd c f).cmd c).tasks = (w.cmd c).tasks := cmd_modCmd_keep (·.tasks) w c f ht
  have er : ((w.modCmd c f).cmd c).ready = (w.cmd c).ready := cmd_modCmd_keep (·.ready) w c f hr
  have hsk : SOkN w.nextSerial (w.modCmd c f) := h.sok.modCmd c f (fun x hx => by rw [hwk]; exact hx)
  refine ⟨(SOk.step (w1 := w.modCmd c f) h.sok rfl hsk).1, by rw [cmd_modCmd_keep (·.alive) w c f ha]; exact h.alive,
    by simp only [World.modCmd, modifyNth_length]; exact h.inr,
    h.hf.modCmd _ (fun x t hx => Or.inl (by rw [ht] at hx; exact hx)) (fun x t hx => Or.inl (by rw [hs] at hx; exact hx)),
    h.sp.modCmd _ (fun x t hx => Or.inl (by rw [ht] at hx; exact hx)) (fun x t hx => Or.inl (by rw [hs] at hx; exact hx)),
    nab_modCmd _ _ h.na, ?_⟩
  intro tid t hg hne hd
  rw [et] at hg; rw [er]; exact h.nd tid t hg hne hd

theorem takeEffects_cl (c : Nat) (w : World) (es : List Eff) (w' : World) (h : takeEffects c w = some (es, w'))
    (hw : CL c w) : CL c w' := by
  unfold takeEffects at h
  split at h
  · cases h
  · rename_i w1 hs
    simp only [Option.some.injEq, Prod.mk.injEq] at h
    obtain ⟨_, rfl⟩ := h
    exact (runUntilSettled_cl c w w1 hs hw).modCmd_out _ (fun _ => rfl) (fun _ => rfl) (fun _ => rfl) (fun _ => rfl) (fun _ => rfl)

theorem takeEvents_cl (c : Nat) (w : World) (es : List Ev) (w' : World) (h : takeEvents c w = some (es, w'))
    (hw : CL c w) : CL c w' := by
  unfold takeEvents at h
  split at h
  · cases h
  · rename_i w1 hs
    simp only [Option.some.injEq, Prod.mk.injEq] at h
    obtain ⟨_, rfl⟩ := h
    exact (runUntilSettled_cl c w w1 hs hw).modCmd_out _ (fun _ => rfl) (fun _ => rfl) (fun _ => rfl) (fun _ => rfl) (fun _ => rfl)

theorem isDone_cl (c : Nat) (w : World) (d : Bool) (w' : World) (h : isDone c w = some (d, w')) (hw : CL c w) : CL c w' := by
  unfold isDone at h
  split at h
  · cases h
  · rename_i w1 hs
    simp only [Option.some.injEq, Prod.mk.injEq] at h
    obtain ⟨_, rfl⟩ := h
    exact runUntilSettled_cl c w w1 hs hw

/-! the shell's side: blocks untouched, the ready queue only grows -/

theorem rd_dropSender {c x : Nat} {w : World} (l : Nat) (h : RD c x w) : RD c x (w.dropSender l) := by
  unfold World.dropSender
  simp only
  split
  · exact rd_modLeaf _ _ h
  · split
    · exact rd_World_wake _ (rd_modLeaf _ _ h)
    · exact rd_modLeaf _ _ h

theorem rd_resolveReq {c x : Nat} {w : World} (r : Resolve) (v : Val) (h : RD c x w) : RD c x (resolveReq r v w).2.2 := by
  have h2 : ∀ l, RD c x (match (w.leaf l).waker with
      | some wk => (w.modLeaf l fun lf => { lf with queue := lf.queue ++ [v], waker := none }).wake wk
      | none => w.modLeaf l fun lf => { lf with queue := lf.queue ++ [v], waker := none }) := by
    intro l
    split
    · exact rd_World_wake _ (rd_modLeaf _ _ h)
    · exact rd_modLeaf _ _ h
  unfold resolveReq
  cases r with
  | never => exact h
  | gone => exact h
  | once l =>
    simp only
    split
    · exact rd_dropSender l (h2 l)
    · exact rd_dropSender l h
  | many l =>
    simp only
    split
    · exact h2 l
    · exact h

theorem rd_dropReq {c x : Nat} {w : World} (r : Resolve) (h : RD c x w) : RD c x (dropReq r w).2 := by
  unfold dropReq
  cases r with
  | never => exact h
  | gone => exact h
  | once l => exact rd_dropSender l h
  | many l => exact rd_dropSender l h

theorem nab_dropSender (w : World) (l : Nat) (h : NAb w) : NAb (w.dropSender l) := by
  unfold World.dropSender
  simp only
  split
  · exact nab_modLeaf _ _ h
  · split
    · exact nab_wake _ (nab_modLeaf _ _ h)
    · exact nab_modLeaf _ _ h

theorem nab_resolveReq (r : Resolve) (v : Val) (w : World) (h : NAb w) : NAb (resolveReq r v w).2.2 := by
  have h2 : ∀ l, NAb (match (w.leaf l).waker with
      | some wk => (w.modLeaf l fun lf => { lf with queue := lf.queue ++ [v], waker := none }).wake wk
      | none => w.modLeaf l fun lf => { lf with queue := lf.queue ++ [v], waker := none }) := by
    intro l
    split
    · exact nab_wake _ (nab_modLeaf _ _ h)
    · exact nab_modLeaf _ _ h
  unfold resolveReq
  cases r with
  | never => exact h
  | gone => exact h
  | once l =>
    simp only
    split
    · exact nab_dropSender _ l (h2 l)
    · exact nab_dropSender _ l h
  | many l =>
    simp only
    split
    · exact h2 l
    · exact h

theorem nab_dropReq (r : Resolve) (w : World) (h : NAb w) : NAb (dropReq r w).2 := by
  unfold dropReq
  cases r with
  | never => exact h
  | gone => exact h
  | once l => exact nab_dropSender w l h
  | many l => exact nab_dropSender w l h

/-- a step of the shell that leaves every task slab and spawn queue alone (`TK0`) and only adds to ready queues -/
theorem CL.shell {c : Nat} {w w' : World} (h : CL c w) (sk : SOk w') (q : QS none w w') (tk : TK0 w w')
    (rd : ∀ x, RD c x w → RD c x w') (na : NAb w') : CL c w' := by
  refine ⟨sk, by rw [q.alive c]; exact h.alive, by rw [q.len]; exact h.inr, h.hf.of_qs_none q, h.sp.tk0 tk, na, ?_⟩
  intro tid t hg hne hd
  rw [tk.tasks c] at hg
  exact rd tid (h.nd tid t hg hne hd)

end M.Rt

namespace M.Hosts
open M.Rt

theorem Direct.observe_cl (res : String) (d : Direct) (o : Obs) (d' : Direct) (h : d.observe res = some (o, d'))
    (hw : CL d.cid d.w) : CL d'.cid d'.w := by
  unfold Direct.observe at h
  cases h1 : takeEffects d.cid d.w with
  | none => simp [h1] at h
  | some p1 =>
    obtain ⟨effs, w1⟩ := p1
    have k1 := takeEffects_cl _ _ _ _ h1 hw
    cases h2 : takeEvents d.cid w1 with
    | none => simp [h1, h2] at h
    | some p2 =>
      obtain ⟨evs, w2⟩ := p2
      have k2 := takeEvents_cl _ _ _ _ h2 k1
      cases h3 : isDone d.cid w2 with
      | none => simp [h1, h2, h3] at h
      | some p3 =>
        obtain ⟨dn, w3⟩ := p3
        have k3 := isDone_cl _ _ _ _ h3 k2
        simp [h1, h2, h3] at h
        obtain ⟨_, rfl⟩ := h
        exact k3

theorem Direct.step_cl (d : Direct) (a : Action) (o : Obs) (d' : Direct) (h : d.step a = some (o, d'))
    (hw : CL d.cid d.w) : CL d'.cid d'.w := by
  unfold Direct.step at h
  cases a with
  | res k v =>
    simp only at h
    split at h
    · exact Direct.observe_cl _ _ _ _ h hw
    · rename_i reqs res w1 hr
      unfold shellResolve at hr
      split at hr
      · cases hr
      · rename_i e _
        simp only [Option.some.injEq, Prod.mk.injEq] at hr
        obtain ⟨_, _, rfl⟩ := hr
        exact Direct.observe_cl _ _ _ _ h
          (hw.shell (resolveReq_keeps e.res v d.w hw.sok).1 (resolveReq_qs none e.res v d.w) (tk0_resolveReq e.res v d.w)
            (fun x hx => rd_resolveReq e.res v hx) (nab_resolveReq e.res v d.w hw.na))
  | drop k =>
    simp only at h
    split at h
    · exact Direct.observe_cl _ _ _ _ h hw
    · rename_i reqs w1 hr
      unfold shellDrop at hr
      split at hr
      · cases hr
      · rename_i e _
        simp only [Option.some.injEq, Prod.mk.injEq] at hr
        obtain ⟨_, rfl⟩ := hr
        exact Direct.observe_cl _ _ _ _ h
          (hw.shell (dropReq_keeps e.res d.w hw.sok).1 (dropReq_qs none e.res d.w) (tk0_dropReq e.res d.w)
            (fun x hx => rd_dropReq e.res hx) (nab_dropReq e.res d.w hw.na))
  | abort n =>
    simp only at h
    refine Direct.observe_cl _ _ _ _ h ?_
    show CL d.cid (doAbort n d.w)
    unfold doAbort
    split
    · rename_i hfind
      rw [hw.na.2] at hfind
      simp at hfind
    · exact hw
  | poll => exact Direct.observe_cl _ _ _ _ h hw
  | ev _ _ => simp at h
  | rawRes _ _ _ => simp at h
  | rawEv _ _ => simp at h

end M.Hosts

namespace M.Hosts
open M.Rt

theorem CL_init (is : List Instr) (hf : hostFreeIs is = true) (hs : simpleIs is = true) (canon : Bool) :
    CL (Direct.new (.task is) canon).cid (Direct.new (.task is) canon).w := by
  have g := GInv_init is hf canon
  refine ⟨g.ctx.sok, g.ctx.alive, g.ctx.inr, g.ctx.own.hfc, ?_, ?_, ?_⟩
  rotate_left
  · constructor
    · intro m hm
      unfold Direct.new at hm
      simp [instantiate, newCmd, World.newMeta] at hm
      subst hm; rfl
    · unfold Direct.new
      simp [instantiate, newCmd, World.newMeta]
  rotate_right
  · constructor
    · intro t ht
      unfold Direct.new at ht
      simp [instantiate, newCmd, World.newMeta, World.cmd, Slab.insert, Slab.empty, Slab.values] at ht
      subst ht
      simp [simpleB, simpleP, hs]
    · intro t ht
      unfold Direct.new at ht
      simp [instantiate, newCmd, World.newMeta, World.cmd] at ht
  · intro tid t hg _ hd
    -- the only stored task is idle, hence not suspended at closed requests only
    unfold Direct.new at hg
    simp only [instantiate, newCmd, World.newMeta, World.cmd, List.nil_append, List.length_nil, List.getElem?_cons_zero,
      Option.getD_some] at hg
    have : tid = 0 := by
      simp only [Slab.insert, Slab.empty, Slab.get?] at hg
      by_cases e : tid = 0
      · exact e
      · rw [List.getElem?_eq_none (by simp; omega)] at hg; simp at hg
    subst this
    simp [Slab.insert, Slab.empty, Slab.get?] at hg
    subst hg
    simp [deadOnlyB, deadOnlyP] at hd

/-- the completeness invariants over whole runs of the direct host of a simple task program -/
theorem runDirect_cl (is : List Instr) (hf : hostFreeIs is = true) (hs : simpleIs is = true) (canon : Bool)
    (acts : List Action) (os : List Obs) (d : Direct) (h : runDirect (.task is) canon acts = some (os, d)) : CL d.cid d.w := by
  unfold runDirect at h
  have h0 := CL_init is hf hs canon
  cases h1 : (Direct.new (.task is) canon).observe "-" with
  | none => simp [h1] at h
  | some p1 =>
    obtain ⟨o, d1⟩ := p1
    have k1 := Direct.observe_cl _ _ _ _ h1 h0
    cases h2 : runSteps Direct.step d1 acts with
    | none => simp [h1, h2] at h
    | some p2 =>
      obtain ⟨os2, d2⟩ := p2
      simp [h1, h2] at h
      obtain ⟨_, rfl⟩ := h
      exact runSteps_inv Direct.step (fun d => CL d.cid d.w) Direct.step_cl acts d1 os2 _ h2 k1

end M.Hosts

namespace M.Rt

/-- a simple block that waits at no request or stream the shell could answer waits only at closed requests -/
theorem deadOnly_of_goneOnly : ∀ (b : Block), simpleB b = true → goneOnlyB b = true → deadOnlyB b = true := by
  have key : ∀ n (b : Block), sizeOf b ≤ n → simpleB b = true → goneOnlyB b = true → deadOnlyB b = true := by
    intro n
    induction n with
    | zero => intro b hb; cases b; simp at hb
    | succ n ih =>
      intro b hb hs hg
      obtain ⟨env, cur, rest⟩ := b
      simp only [Block.mk.sizeOf_spec] at hb
      simp only [simpleB, Bool.and_eq_true] at hs
      simp only [goneOnlyB] at hg
      simp only [deadOnlyB]
      cases cur with
      | idle => simp [goneOnlyP] at hg
      | reqDead => simp [deadOnlyP]
      | await s => simp [simpleP] at hs
      | selfwake s => simp [goneOnlyP] at hg
      | req x l => simp [goneOnlyP] at hg
      | streamWait x l c lim body => simp [goneOnlyP] at hg
      | streamBody x l c lim body inner =>
        simp only [simpleP, Bool.and_eq_true] at hs
        simp only [goneOnlyP] at hg
        simp only [deadOnlyP]
        simp only [Pend.streamBody.sizeOf_spec] at hb
        exact ih inner (by omega) hs.1.2 hg
      | join a b ad bd =>
        simp only [simpleP, Bool.and_eq_true] at hs
        simp only [goneOnlyP, Bool.and_eq_true, Bool.or_eq_true] at hg
        simp only [deadOnlyP, Bool.and_eq_true, Bool.or_eq_true]
        simp only [Pend.join.sizeOf_spec] at hb
        exact ⟨hg.1.imp id (ih a (by omega) hs.1.1), hg.2.imp id (ih b (by omega) hs.1.2)⟩
      | select a b => simp [simpleP] at hs
      | host c m => simp [simpleP] at hs
  intro b
  exact key _ b (Nat.le_refl _)

end M.Rt

namespace M.Rt

theorem settleLoop_ready (rt) (c : Nat) : ∀ (f : Nat) (w w' : World), settleLoop rt f c w = some w' → (w'.cmd c).ready = [] := by
  intro f
  induction f with
  | zero => intro w w' h; simp [settleLoop] at h
  | succ f ih =>
    intro w w' h
    unfold settleLoop at h
    simp only at h
    split at h
    · rename_i he
      simp only [Option.some.injEq] at h; subst h
      simpa using he
    · split at h
      · cases h
      · exact ih _ w' h

theorem isDone_ready (c : Nat) (w : World) (d : Bool) (w' : World) (h : isDone c w = some (d, w')) (hq : NAb w) :
    (w'.cmd c).ready = [] := by
  unfold isDone at h
  split at h
  · cases h
  · rename_i w1 hs
    simp only [Option.some.injEq, Prod.mk.injEq] at h
    obtain ⟨_, rfl⟩ := h
    unfold runUntilSettled runUntilSettledF at hs
    split at hs
    · rename_i hab
      unfold World.aborted at hab
      rw [hq.getMeta] at hab
      cases hab
    · exact settleLoop_ready _ c _ w w1 hs

end M.Rt

namespace M.Hosts
open M.Rt

theorem Direct.observe_ready (res : String) (d : Direct) (o : Obs) (d' : Direct) (h : d.observe res = some (o, d'))
    (hw : CL d.cid d.w) : (d'.w.cmd d'.cid).ready = [] := by
  unfold Direct.observe at h
  cases h1 : takeEffects d.cid d.w with
  | none => simp [h1] at h
  | some p1 =>
    obtain ⟨effs, w1⟩ := p1
    have k1 := takeEffects_cl _ _ _ _ h1 hw
    cases h2 : takeEvents d.cid w1 with
    | none => simp [h1, h2] at h
    | some p2 =>
      obtain ⟨evs, w2⟩ := p2
      have k2 := takeEvents_cl _ _ _ _ h2 k1
      cases h3 : isDone d.cid w2 with
      | none => simp [h1, h2, h3] at h
      | some p3 =>
        obtain ⟨dn, w3⟩ := p3
        have k3 := isDone_ready _ _ _ _ h3 k2.na
        simp [h1, h2, h3] at h
        obtain ⟨_, rfl⟩ := h
        exact k3

end M.Hosts

namespace M.Hosts
open M.Rt

theorem Direct.step_obs (d : Direct) (a : Action) (o : Obs) (d' : Direct) (h : d.step a = some (o, d'))
    (hw : CL d.cid d.w) : ∃ res d0, CL (Direct.cid d0) (Direct.w d0) ∧ Direct.observe res d0 = some (o, d') := by
  unfold Direct.step at h
  cases a with
  | res k v =>
    simp only at h
    split at h
    · exact ⟨_, _, hw, h⟩
    · rename_i reqs res w1 hr
      unfold shellResolve at hr
      split at hr
      · cases hr
      · rename_i e _
        simp only [Option.some.injEq, Prod.mk.injEq] at hr
        obtain ⟨_, _, rfl⟩ := hr
        refine ⟨_, _, ?_, h⟩
        exact (hw.shell (resolveReq_keeps e.res v d.w hw.sok).1 (resolveReq_qs none e.res v d.w) (tk0_resolveReq e.res v d.w)
            (fun x hx => rd_resolveReq e.res v hx) (nab_resolveReq e.res v d.w hw.na))
  | drop k =>
    simp only at h
    split at h
    · exact ⟨_, _, hw, h⟩
    · rename_i reqs w1 hr
      unfold shellDrop at hr
      split at hr
      · cases hr
      · rename_i e _
        simp only [Option.some.injEq, Prod.mk.injEq] at hr
        obtain ⟨_, rfl⟩ := hr
        refine ⟨_, _, ?_, h⟩
        exact (hw.shell (dropReq_keeps e.res d.w hw.sok).1 (dropReq_qs none e.res d.w) (tk0_dropReq e.res d.w)
            (fun x hx => rd_dropReq e.res hx) (nab_dropReq e.res d.w hw.na))
  | abort n =>
    simp only at h
    refine ⟨_, _, ?_, h⟩
    show CL d.cid (doAbort n d.w)
    unfold doAbort
    split
    · rename_i hfind
      rw [hw.na.2] at hfind
      simp at hfind
    · exact hw
  | poll => exact ⟨_, _, hw, h⟩
  | ev _ _ => simp at h
  | rawRes _ _ _ => simp at h
  | rawEv _ _ => simp at h

/-- the invariants and the empty ready queue after every step -/
theorem Direct.step_clr (d : Direct) (a : Action) (o : Obs) (d' : Direct) (h : d.step a = some (o, d'))
    (hw : CL d.cid d.w ∧ (d.w.cmd d.cid).ready = []) : CL d'.cid d'.w ∧ (d'.w.cmd d'.cid).ready = [] := by
  obtain ⟨res, d0, h0, ho⟩ := Direct.step_obs d a o d' h hw.1
  exact ⟨Direct.observe_cl _ _ _ _ ho h0, Direct.observe_ready _ _ _ _ ho h0⟩

theorem runDirect_ready (is : List Instr) (hf : hostFreeIs is = true) (hs : simpleIs is = true) (canon : Bool)
    (acts : List Action) (os : List Obs) (d : Direct) (h : runDirect (.task is) canon acts = some (os, d)) :
    (d.w.cmd d.cid).ready = [] := by
  unfold runDirect at h
  have h0 := CL_init is hf hs canon
  cases h1 : (Direct.new (.task is) canon).observe "-" with
  | none => simp [h1] at h
  | some p1 =>
    obtain ⟨o, d1⟩ := p1
    have k1 : CL d1.cid d1.w ∧ (d1.w.cmd d1.cid).ready = [] :=
      ⟨Direct.observe_cl _ _ _ _ h1 h0, Direct.observe_ready _ _ _ _ h1 h0⟩
    cases h2 : runSteps Direct.step d1 acts with
    | none => simp [h1, h2] at h
    | some p2 =>
      obtain ⟨os2, d2⟩ := p2
      simp [h1, h2] at h
      obtain ⟨_, rfl⟩ := h
      exact (runSteps_inv Direct.step (fun d => CL d.cid d.w ∧ (d.w.cmd d.cid).ready = []) Direct.step_clr acts d1 os2 _ h2 k1).2

end M.Hosts
