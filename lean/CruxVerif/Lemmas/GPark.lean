/-
Global parking: in every reachable world of the direct host of a task command, every stored task is queued to run,
aborted, or parked at live registrations of its last waker. Part 1: auxiliary facts.
-/
import CruxVerif.Lemmas.Park
import CruxVerif.Lemmas.OwnRun
namespace M.Rt

/-- what the parking invariant says about one stored task -/
def Pk (cid : Nat) (w : World) (tid : Nat) (t : Task) : Prop :=
  tid ∈ (w.cmd cid).ready ∨ (w.getMeta t.serial).aborted = true ∨ ∃ s, LPB (.task cid tid s) w t.fut

/-- every stored task of `cid`, except the one being run -/
def GP (cid : Nat) (ex : Option Nat) (w : World) : Prop :=
  ∀ tid t, (w.cmd cid).tasks.get? tid = some t → some tid ≠ ex → Pk cid w tid t

/-- live parking reads only the leaves' wakers, their number and the join queues -/
theorem LPB.of_same (wk : Waker) {w w' : World} (hl : w'.leaves = w.leaves) (hm : w'.metas = w.metas) (b : Block)
    (h : LPB wk w b) : LPB wk w' b :=
  LPB.frame wk w w' (by rw [hl]; exact Nat.le_refl _) (fun s hs => by rw [getMeta_of_metas hm]; exact hs) b
    (fun l _ => by rw [pleaf_of_leaves hl]) h

/-- clearing one join queue: a block stays live-parked unless its waker was in that queue -/
theorem LPB.clearJoin (wk : Waker) (w w' : World) (s0 : Nat) (hlen : w.leaves.length ≤ w'.leaves.length)
    (hlf : ∀ l, (w'.leaf l).waker = (w.leaf l).waker)
    (hj : ∀ s, s ≠ s0 → wk ∈ (w.getMeta s).joinWakers → wk ∈ (w'.getMeta s).joinWakers)
    (hn : wk ∉ (w.getMeta s0).joinWakers) : ∀ (b : Block), LPB wk w b → LPB wk w' b := by
  intro b hb
  refine LPB.frame wk w w' hlen ?_ b (fun l _ => hlf l) hb
  intro s hs
  by_cases e : s = s0
  · subst e; exact absurd hs hn
  · exact hj s e hs

/-- taking the waker of one leaf: a block stays live-parked unless that waker was its own -/
theorem LPB.clearLeaf (wk : Waker) (w w' : World) (l0 : Nat) (hlen : w.leaves.length ≤ w'.leaves.length)
    (hlf : ∀ l, l ≠ l0 → (w'.leaf l).waker = (w.leaf l).waker)
    (hj : ∀ s, wk ∈ (w.getMeta s).joinWakers → wk ∈ (w'.getMeta s).joinWakers)
    (hn : (w.leaf l0).waker ≠ some wk) : ∀ (b : Block), LPB wk w b → LPB wk w' b := by
  have key : ∀ n (b : Block), sizeOf b ≤ n → LPB wk w b → LPB wk w' b := by
    intro n
    induction n with
    | zero => intro b hb; cases b; simp at hb
    | succ n ih =>
      intro b hb hp
      obtain ⟨env, cur, rest⟩ := b
      simp only [Block.mk.sizeOf_spec] at hb
      simp only [LPB] at hp ⊢
      cases cur with
      | idle => simp [LPP] at hp
      | reqDead => simp [LPP]
      | await s => simp only [LPP] at hp ⊢; exact hj s hp
      | selfwake s => simp [LPP] at hp
      | req x l =>
        simp only [LPP] at hp ⊢
        have : l ≠ l0 := by intro e; subst e; exact hn hp.2
        exact ⟨Nat.lt_of_lt_of_le hp.1 hlen, (hlf l this).trans hp.2⟩
      | streamWait x l c lim body =>
        simp only [LPP] at hp ⊢
        have : l ≠ l0 := by intro e; subst e; exact hn hp.2
        exact ⟨Nat.lt_of_lt_of_le hp.1 hlen, (hlf l this).trans hp.2⟩
      | streamBody x l c lim body inner =>
        simp only [LPP] at hp ⊢
        simp only [Pend.streamBody.sizeOf_spec] at hb
        exact ih inner (by omega) hp
      | join a b ad bd =>
        simp only [LPP] at hp ⊢
        simp only [Pend.join.sizeOf_spec] at hb
        exact ⟨fun e => ih a (by omega) (hp.1 e), fun e => ih b (by omega) (hp.2 e)⟩
      | select a b =>
        simp only [LPP] at hp ⊢
        simp only [Pend.select.sizeOf_spec] at hb
        exact ⟨ih a (by omega) hp.1, ih b (by omega) hp.2⟩
      | host c m => simp [LPP]
  intro b
  exact key _ b (Nat.le_refl _)

/-- a wake of a task waker of a live, existing command puts the task id on its ready queue -/
theorem wake_queues (c t s : Nat) (w : World) (hal : (w.cmd c).alive = true) (hin : c < w.cmds.length) :
    RD c t (w.wake (.task c t s)) := by
  unfold World.wake
  show RD c t (wake (w.cmds.length + 1) (.task c t s) w)
  simp only [wake]
  have h1 : RD c t (if (w.cmd c).alive = true then w.modCmd c fun y => { y with ready := y.ready ++ [t] } else w) := by
    rw [if_pos hal]
    unfold RD
    rw [World.cmd_modCmd_self]
    cases hc : w.cmds[c]? with
    | none => rw [List.getElem?_eq_none_iff] at hc; omega
    | some x => simp only [List.mem_append, List.mem_singleton, or_true]
  split
  · exact rd_of_cmds rfl h1
  · exact rd_wake c t _ _ _ (rd_modCmd_keep c _ (fun _ => rfl) (rd_of_cmds rfl h1))

theorem alive_wake (w : World) (k : Waker) (c : Nat) : ((w.wake k).cmd c).alive = (w.cmd c).alive ∧ (w.wake k).cmds.length = w.cmds.length :=
  let q := World_wake_qs none w k
  ⟨q.alive c, q.len⟩

theorem wakeAll_queues (c t s : Nat) : ∀ (ks : List Waker) (w : World), (w.cmd c).alive = true → c < w.cmds.length →
    Waker.task c t s ∈ ks → RD c t (w.wakeAll ks) := by
  intro ks
  induction ks with
  | nil => intro w _ _ h; cases h
  | cons k ks ih =>
    intro w hal hin hm
    simp only [World.wakeAll, List.foldl_cons] at ih ⊢
    have a := alive_wake w k c
    simp only [List.mem_cons] at hm
    rcases hm with rfl | hm
    · have h1 := wake_queues c t s w hal hin
      -- the rest only adds
      have mono : ∀ (ks : List Waker) (W : World), RD c t W → RD c t (ks.foldl World.wake W) := by
        intro ks
        induction ks with
        | nil => intro W h; exact h
        | cons k ks ih2 => intro W h; simp only [List.foldl_cons]; exact ih2 _ (rd_World_wake k h)
      exact mono ks _ h1
    · exact ih (w.wake k) (by rw [a.1]; exact hal) (by rw [a.2]; exact hin) hm

theorem rd_wakeAll {c x : Nat} : ∀ (ks : List Waker) (W : World), RD c x W → RD c x (W.wakeAll ks) := by
  intro ks
  induction ks with
  | nil => intro W h; exact h
  | cons k ks ih => intro W h; simp only [World.wakeAll, List.foldl_cons] at ih ⊢; exact ih _ (rd_World_wake k h)

/-- two tasks stored under different ids reference different channels (ownership: every channel is referenced at most once) -/
theorem Own.disjoint {cid : Nat} {w : World} (h : Own cid w) (tid tid' : Nat) (t t' : Task) (hne : tid ≠ tid')
    (hg : (w.cmd cid).tasks.get? tid = some t) (hg' : (w.cmd cid).tasks.get? tid' = some t') :
    ∀ l ∈ refsB t'.fut, l ∉ refsB t.fut := by
  intro l hl hl2
  have one := h.one l
  unfold cmdCnt cnt at one
  have r := Slab.sum_remove (fun t => (taskRefs t).count l) (w.cmd cid).tasks tid t hg
  have hg2 : ((w.cmd cid).tasks.remove tid).2.get? tid' = some t' := by
    rw [(Slab.remove_get _ _ _ hg).2.2 tid' (Ne.symm hne)]; exact hg'
  have hm := Slab.mem_values_of_get _ _ _ hg2
  have le : (taskRefs t').count l ≤ (((w.cmd cid).tasks.remove tid).2.values.map fun t => (taskRefs t).count l).sum := by
    generalize ((w.cmd cid).tasks.remove tid).2.values = vs at hm
    induction vs with
    | nil => cases hm
    | cons v vs ih =>
      simp only [List.mem_cons] at hm
      simp only [List.map_cons, List.sum_cons]
      rcases hm with rfl | hm
      · omega
      · have := ih hm; omega
  have c1 : 0 < (taskRefs t).count l := List.count_pos_iff.mpr hl2
  have c2 : 0 < (taskRefs t').count l := List.count_pos_iff.mpr hl
  omega

end M.Rt

namespace M.Slab
variable {α : Type}
theorem get_set_self (s : Slab α) (k : Nat) (a x : α) (h : s.get? k = some x) : (s.set k a).get? k = some a := by
  unfold set
  simp only [h]
  simp only [get?] at h ⊢
  by_cases hlt : k < s.entries.length
  · simp [hlt]
  · rw [List.getElem?_eq_none (by omega)] at h; cases h
end M.Slab

namespace M.Rt

/-- the context the parking invariant lives in -/
structure Ctx (cid : Nat) (w : World) : Prop where
  own : Own cid w
  sok : SOk w
  wfw : WFw w
  alive : (w.cmd cid).alive = true
  inr : cid < w.cmds.length

theorem Pk.of_same {cid : Nat} {w w' : World} {tid : Nat} {t : Task} (h : Pk cid w tid t) (hl : w'.leaves = w.leaves)
    (hm : w'.metas = w.metas) (hr : ∀ x, x ∈ (w.cmd cid).ready → x ∈ (w'.cmd cid).ready) : Pk cid w' tid t := by
  rcases h with h | h | ⟨s, h⟩
  · exact Or.inl (hr tid h)
  · exact Or.inr (Or.inl (by rw [getMeta_of_metas hm]; exact h))
  · exact Or.inr (Or.inr ⟨s, LPB.of_same _ hl hm _ h⟩)

theorem pollAt_eq (wk : Waker) (sink : Sink) (b : Block) (w : World) :
    pollAt depthFuel wk sink b w = pollBlock (pollNextF (runUntilSettledF (runTaskF (pollAt 63)))) loopFuel wk sink b w := rfl

/-- one `run_task`: every OTHER stored task keeps its status; a task that stays `Suspended` is queued or parked -/
theorem runTask_gp (cid tid : Nat) (w : World) (st : TaskState) (w' : World) (h : runTask cid tid w = some (st, w'))
    (hc : Ctx cid w) (hg : GP cid (some tid) w) :
    GP cid (some tid) w' ∧ (st = .suspended → ∀ t, (w'.cmd cid).tasks.get? tid = some t → Pk cid w' tid t) ∧
    (st = .missing → (w'.cmd cid).tasks.get? tid = none) := by
  unfold runTask runTaskF at h
  split at h
  · rename_i hnone
    simp only [Option.some.injEq, Prod.mk.injEq] at h; obtain ⟨rfl, rfl⟩ := h
    exact ⟨hg, fun e => (by cases e), fun _ => hnone⟩
  · rename_i t hget
    have htf : hostFreeB t.fut = true := hc.own.hft t (Slab.mem_values_of_get _ _ _ hget)
    have htr : inRangeB w.leaves.length w.metas.length t.fut = true := hc.wfw.t cid t (Slab.mem_values_of_get _ _ _ hget)
    split at h
    · simp only [Option.some.injEq, Prod.mk.injEq] at h; obtain ⟨rfl, rfl⟩ := h
      exact ⟨hg, fun e => (by cases e), fun e => (by cases e)⟩
    · dsimp only at h
      generalize hw0 : ({ w with nextSerial := w.nextSerial + 1 } : World) = w0 at h
      have e0l : w0.leaves = w.leaves := by subst hw0; rfl
      have e0m : w0.metas = w.metas := by subst hw0; rfl
      have e0c : w0.cmds = w.cmds := by subst hw0; rfl
      -- facts about the poll, for any outcome
      have pollfacts : ∀ (r : PollRes) (w1 : World), pollAt depthFuel (.task cid tid w.nextSerial) (.cmd cid) t.fut w0 = some (r, w1) →
          (w1.cmd cid).tasks = (w.cmd cid).tasks ∧
          (∀ tid' t', (w.cmd cid).tasks.get? tid' = some t' → tid' ≠ tid → Pk cid w tid' t' → Pk cid w1 tid' t') := by
        intro r w1 hp
        rw [pollAt_eq] at hp
        have tk := pollBlock_tgood _ _ (fun _ t => hostFreeB t.fut = true) _ _ _ _ _ _ hp htf (fun _ _ _ x => x)
        have q := pollBlock_qs _ _ _ _ _ _ _ _ hp htf
        refine ⟨by rw [tk.tasks cid, cmd_of_cmds e0c], ?_⟩
        intro tid' t' hg' hne hpk
        rcases hpk with hpk | hpk | ⟨s, hpk⟩
        · refine Or.inl ?_
          have : RD cid tid' w0 := by unfold RD; rw [cmd_of_cmds e0c]; exact hpk
          exact (pollBlock_jrgood _ 0 (.root 0) cid tid' _ _ _ _ _ _ _ hp htf).2 this
        · refine Or.inr (Or.inl ?_)
          exact q.metaA _ (by rw [getMeta_of_metas e0m]; exact hpk)
        · refine Or.inr (Or.inr ⟨s, ?_⟩)
          have hr' : inRangeB w0.leaves.length w0.metas.length t'.fut = true := by
            rw [e0l, e0m]; exact hc.wfw.t cid t' (Slab.mem_values_of_get _ _ _ hg')
          exact poll_keeps_others_parked _ _ _ _ _ _ _ _ hp htf _ t'.fut hr'
            (hc.own.disjoint tid tid' t t' (Ne.symm hne) hget hg') (LPB.of_same _ e0l e0m _ hpk)
      split at h
      · cases h
      · rename_i env1 w1 hpoll
        simp only [Option.some.injEq, Prod.mk.injEq] at h
        obtain ⟨rfl, rfl⟩ := h
        obtain ⟨pt, pp⟩ := pollfacts _ _ hpoll
        refine ⟨?_, fun e => (by cases e), fun e => (by cases e)⟩
        intro tid' t' hg' hne
        have hne' : tid' ≠ tid := fun e => hne (by rw [e])
        rw [pt] at hg'
        exact pp tid' t' hg' hne' (hg tid' t' hg' hne)
      · rename_i b w1 hpoll
        obtain ⟨pt, pp⟩ := pollfacts _ _ hpoll
        have hp2 := hpoll
        rw [pollAt_eq] at hp2
        have k2 := pollBlock_good _ _ _ _ _ _ _ _ hp2 htf (by rw [← hw0]; exact htr)
        generalize hW : (w1.modCmd cid fun c => { c with tasks := c.tasks.set tid { t with fut := b } }) = W1 at h
        have eWl : W1.leaves = w1.leaves := by subst hW; rfl
        have eWm : W1.metas = w1.metas := by subst hW; rfl
        have hcin : ∃ x, w1.cmds[cid]? = some x := by
          have := (pollBlock_qs _ _ _ _ _ _ _ _ hp2 htf).len
          have h2 := hc.inr
          rw [← e0c] at h2
          exact ⟨_, List.getElem?_eq_getElem (by omega)⟩
        obtain ⟨x1, hx1⟩ := hcin
        have eWt : (W1.cmd cid).tasks = (w1.cmd cid).tasks.set tid { t with fut := b } := by
          subst hW; rw [World.cmd_modCmd_self]; simp [hx1, World.cmd]
        have eWr : (W1.cmd cid).ready = (w1.cmd cid).ready := by
          subst hW; refine cmd_modCmd_keep (·.ready) w1 cid _ ?_; intro _; rfl
        -- the final world differs from `W1` only in `woken`
        have fin : ∀ (pf : Nat → Bool) (st0 : TaskState), (st0 = .suspended → (w1.woken.contains w.nextSerial = true ∨ ¬ wokenBy (.task cid tid w.nextSerial) w1)) →
            GP cid (some tid) ({ W1 with woken := W1.woken.filter pf } : World) ∧
            (st0 = .suspended → ∀ t2, (({ W1 with woken := W1.woken.filter pf } : World).cmd cid).tasks.get? tid = some t2 →
              Pk cid ({ W1 with woken := W1.woken.filter pf } : World) tid t2) := by
          intro pf st0 hst
          have eFc : ∀ c, (({ W1 with woken := W1.woken.filter pf } : World).cmd c) = W1.cmd c := fun _ => rfl
          constructor
          · intro tid' t' hg' hne
            have hne' : tid' ≠ tid := fun e => hne (by rw [e])
            rw [eFc, eWt, Slab.get_set_other _ _ _ _ hne', pt] at hg'
            have := pp tid' t' hg' hne' (hg tid' t' hg' hne)
            exact this.of_same eWl eWm (fun x hx => by rw [eFc, eWr]; exact hx)
          · intro hs t2 hg2
            rw [eFc, eWt, Slab.get_set_self _ _ _ t (by rw [pt]; exact hget)] at hg2
            cases hg2
            rcases hst hs with hwk | hnw
            · refine Or.inl ?_
              rw [eFc, eWr]
              have hwm : w.nextSerial ∈ w1.woken := List.contains_iff_mem.mp hwk
              rw [← hw0] at hp2
              exact woken_means_queued _ _ cid tid w _ _ w1 hp2 htf hc.sok hc.alive hc.inr hwm
            · refine Or.inr (Or.inr ⟨w.nextSerial, ?_⟩)
              have lp := LPB_of_parked _ w1 hnw b k2.2.1
              have lp1 : LPB (.task cid tid w.nextSerial) W1 b := LPB.of_same _ (w := w1) eWl eWm _ lp
              exact LPB.of_same _ (w := W1) (w' := ({ W1 with woken := W1.woken.filter pf } : World)) rfl rfl b lp1
        split at h
        · simp only [Option.some.injEq, Prod.mk.injEq] at h; obtain ⟨rfl, rfl⟩ := h
          have := fin (fun x => x != w.nextSerial) .cancelled (fun e => by cases e)
          exact ⟨this.1, fun e => (by cases e), fun e => (by cases e)⟩
        · rename_i hcond
          simp only [Option.some.injEq, Prod.mk.injEq] at h; obtain ⟨rfl, rfl⟩ := h
          refine ⟨(fin (fun x => x != w.nextSerial) .suspended ?_).1, (fin (fun x => x != w.nextSerial) .suspended ?_).2, fun e => (by cases e)⟩ <;>
          · intro _
            by_cases hwk : w1.woken.contains w.nextSerial = true
            · exact Or.inl hwk
            · refine Or.inr ?_
              simp only [wokenBy]
              intro hm
              exact hwk (List.contains_iff_mem.mpr hm)

end M.Rt

namespace M.Rt

theorem wakeAll_lm : ∀ (ks : List Waker) (W : World), (W.wakeAll ks).leaves = W.leaves ∧ (W.wakeAll ks).metas = W.metas := by
  intro ks
  induction ks with
  | nil => intro W; exact ⟨rfl, rfl⟩
  | cons k ks ih =>
    intro W
    simp only [World.wakeAll, List.foldl_cons] at ih ⊢
    have := ih (W.wake k)
    exact ⟨this.1.trans (World.wake_leaves W k), this.2.trans (wake_metas _ k W)⟩

theorem wakeAll_alive : ∀ (ks : List Waker) (W : World) (c : Nat),
    ((W.wakeAll ks).cmd c).alive = (W.cmd c).alive ∧ (W.wakeAll ks).cmds.length = W.cmds.length := by
  intro ks W c
  have q := wakeAll_qs none ks W
  exact ⟨q.alive c, q.len⟩

/-- dropping a host-free block keeps every leaf's waker, the metas and the number of leaves -/
theorem dropBlock_keeps (dc : Nat → World → World) (b : Block) (w : World) (hb : hostFreeB b = true) :
    (∀ l, ((dropBlock dc b w).leaf l).waker = (w.leaf l).waker) ∧ (dropBlock dc b w).metas = w.metas ∧
    (dropBlock dc b w).leaves.length = w.leaves.length ∧ (dropBlock dc b w).cmds = w.cmds := by
  refine dropBlock_hf_ind (fun W => (∀ l, (W.leaf l).waker = (w.leaf l).waker) ∧ W.metas = w.metas ∧
    W.leaves.length = w.leaves.length ∧ W.cmds = w.cmds) ?_ dc b w hb ⟨fun _ => rfl, rfl, rfl, rfl⟩
  intro W l ⟨h1, h2, h3, h4⟩
  refine ⟨?_, h2, by rw [len_dropReceiver]; exact h3, h4⟩
  intro l'
  rw [← h1 l']
  by_cases e : l = l'
  · subst e
    unfold World.dropReceiver
    rw [World.leaf_modLeaf_self]
    cases hl : W.leaves[l]? with
    | none => simp [World.leaf, hl]
    | some x => simp [World.leaf, hl]
  · rw [pleaf_dropReceiver_ne W l l' e]

theorem finishTask_gp (cid tid : Nat) (w : World) (hal : (w.cmd cid).alive = true) (hin : cid < w.cmds.length)
    (hft : ∀ t ∈ (w.cmd cid).tasks.values, hostFreeB t.fut = true) (hg : GP cid (some tid) w) :
    GP cid none (finishTask cid tid w) := by
  unfold finishTask
  simp only
  split
  · rename_i tasks heq
    -- not stored: nothing to do
    have hnone : (w.cmd cid).tasks.get? tid = none := by
      cases hgt : (w.cmd cid).tasks.get? tid with
      | none => rfl
      | some t => have := (Slab.remove_get _ _ _ hgt).1; rw [heq] at this; cases this
    intro tid' t' hg' _
    refine hg tid' t' hg' ?_
    intro e; cases e; rw [hnone] at hg'; cases hg'
  · rename_i t tasks heq
    have hget : (w.cmd cid).tasks.get? tid = some t := by
      cases hgt : (w.cmd cid).tasks.get? tid with
      | none => rw [Slab.remove_none _ _ hgt] at heq; cases heq
      | some t' =>
        have := (Slab.remove_get _ _ _ hgt).1
        rw [heq] at this; simp only [Option.some.injEq] at this; rw [this]
    have htf := hft t (Slab.mem_values_of_get _ _ _ hget)
    have rg := Slab.remove_get _ _ _ hget
    have hT : tasks = ((w.cmd cid).tasks.remove tid).2 := by rw [heq]
    obtain ⟨x0, hx0⟩ : ∃ x, w.cmds[cid]? = some x := ⟨_, List.getElem?_eq_getElem hin⟩
    generalize hw1 : (w.modCmd cid fun x => { x with tasks := tasks }) = w1
    have e1l : w1.leaves = w.leaves := by subst hw1; rfl
    have e1m : w1.metas = w.metas := by subst hw1; rfl
    have e1t : (w1.cmd cid).tasks = tasks := by subst hw1; rw [World.cmd_modCmd_self]; simp [hx0]
    have e1r : (w1.cmd cid).ready = (w.cmd cid).ready := by subst hw1; refine cmd_modCmd_keep (·.ready) w cid _ ?_; intro _; rfl
    have e1a : (w1.cmd cid).alive = true := by
      subst hw1; rw [show ((w.modCmd cid fun x => { x with tasks := tasks }).cmd cid).alive = (w.cmd cid).alive from by
        refine cmd_modCmd_keep (·.alive) w cid _ ?_; intro _; rfl]; exact hal
    have e1n : cid < w1.cmds.length := by subst hw1; simp only [World.modCmd, modifyNth_length]; exact hin
    generalize hks : (w1.getMeta t.serial).joinWakers = ks
    generalize hw2 : (w1.modMeta t.serial fun m => { m with finished := true, joinWakers := [] }) = w2
    have e2l : w2.leaves = w1.leaves := by subst hw2; rfl
    have e2c : w2.cmds = w1.cmds := by subst hw2; rfl
    have e2j : (w2.getMeta t.serial).joinWakers = [] := by
      subst hw2
      rw [getMeta_modMeta w1 t.serial t.serial _ (Or.inr trivial)]
      simp only [if_true]
      cases w1.metas[t.serial]? <;> rfl
    have e2o : ∀ s, s ≠ t.serial → w2.getMeta s = w1.getMeta s := by
      intro s hs; subst hw2
      rw [getMeta_modMeta w1 t.serial s _ (Or.inr trivial), if_neg (Ne.symm hs)]
    have e2ab : ∀ s, (w1.getMeta s).aborted = true → (w2.getMeta s).aborted = true := by
      intro s hs
      by_cases e : s = t.serial
      · subst e; subst hw2
        rw [getMeta_modMeta w1 t.serial t.serial _ (Or.inr trivial)]
        simp only [if_true]
        unfold World.getMeta at hs
        cases hm : w1.metas[t.serial]? with
        | none => simp [hm] at hs
        | some m => simp only [hm, Option.getD_some] at hs ⊢; exact hs
      · rw [e2o s e]; exact hs
    generalize hw3 : w2.wakeAll ks = w3
    have e3 := wakeAll_lm ks w2
    rw [hw3] at e3
    have e3a := wakeAll_alive ks w2 cid
    rw [hw3] at e3a
    -- the last step: the task itself is dropped
    have e4 : ∀ (tid' : Nat) (t' : Task), Pk cid w3 tid' t' → (∀ s, Waker.task cid tid' s ∉ (w3.getMeta t.serial).joinWakers) →
        Pk cid (w3.dropTask t) tid' t' := by
      intro tid' t' hpk hnj
      unfold World.dropTask M.Rt.dropTask
      simp only
      generalize hw5 : (w3.modMeta t.serial fun m => { m with taskAlive := false, joinWakers := [] }) = w5
      have k := dropBlock_keeps (fun c w => w.dropCmd c) t.fut w5 htf
      have e5l : w5.leaves = w3.leaves := by subst hw5; rfl
      have e5c : w5.cmds = w3.cmds := by subst hw5; rfl
      rcases hpk with hpk | hpk | ⟨s, hpk⟩
      · refine Or.inl ?_
        rw [cmd_of_cmds k.2.2.2, cmd_of_cmds e5c]; exact hpk
      · refine Or.inr (Or.inl ?_)
        rw [getMeta_of_metas k.2.1]
        subst hw5
        rw [getMeta_modMeta w3 t.serial t'.serial _ (Or.inr trivial)]
        split
        · rename_i e
          unfold World.getMeta at hpk
          rw [← e] at hpk
          cases hm : w3.metas[t.serial]? with
          | none => simp [hm] at hpk
          | some m => simp only [hm, Option.getD_some] at hpk ⊢; exact hpk
        · exact hpk
      · refine Or.inr (Or.inr ⟨s, ?_⟩)
        have h5 : LPB (.task cid tid' s) w5 t'.fut := by
          refine LPB.clearJoin _ w3 w5 t.serial (by rw [e5l]; exact Nat.le_refl _) (fun l => by rw [pleaf_of_leaves e5l]) ?_ (hnj s) _ hpk
          intro s' hs' hm
          subst hw5
          rw [getMeta_modMeta w3 t.serial s' _ (Or.inr trivial), if_neg (Ne.symm hs')]; exact hm
        exact LPB.frame _ w5 _ (by rw [k.2.2.1]; exact Nat.le_refl _) (fun s' hs' => by rw [getMeta_of_metas k.2.1]; exact hs') _
          (fun l _ => k.1 l) h5
    intro tid' t' hg' _
    have e3t : (w3.cmd cid).tasks = tasks := by
      have tk := tk0_wakeAll ks w2
      rw [hw3] at tk
      rw [tk.tasks cid, cmd_of_cmds e2c]; exact e1t
    have e4t : ((w3.dropTask t).cmd cid).tasks = tasks := by
      unfold World.dropTask M.Rt.dropTask
      simp only
      have k := dropBlock_keeps (fun c w => w.dropCmd c) t.fut (w3.modMeta t.serial fun m => { m with taskAlive := false, joinWakers := [] }) htf
      rw [cmd_of_cmds k.2.2.2]
      exact e3t
    rw [e4t, hT] at hg'
    have hne : tid' ≠ tid := by intro e; subst e; rw [rg.2.1] at hg'; cases hg'
    rw [rg.2.2 tid' hne] at hg'
    have hpk := hg tid' t' hg' (fun e => hne (Option.some.inj e))
    have e3j : (w3.getMeta t.serial).joinWakers = [] := by rw [getMeta_of_metas e3.2]; exact e2j
    -- queued by the join-handle wake-up?
    by_cases hq : ∃ s, Waker.task cid tid' s ∈ ks
    · obtain ⟨s, hs⟩ := hq
      have r3 : RD cid tid' w3 := by
        rw [← hw3]
        exact wakeAll_queues cid tid' s ks w2 (by rw [cmd_of_cmds e2c]; exact e1a) (by rw [e2c]; exact e1n) hs
      exact e4 tid' t' (Or.inl r3) (fun s' => by rw [e3j]; simp)
    · have hq' : ∀ s, Waker.task cid tid' s ∉ (w1.getMeta t.serial).joinWakers := by
        intro s hs; rw [hks] at hs; exact hq ⟨s, hs⟩
      refine e4 tid' t' ?_ (fun s' => by rw [e3j]; simp)
      rcases hpk with hpk | hpk | ⟨s, hpk⟩
      · refine Or.inl ?_
        have : RD cid tid' w2 := by unfold RD; rw [cmd_of_cmds e2c, e1r]; exact hpk
        rw [← hw3]; exact rd_wakeAll ks w2 this
      · refine Or.inr (Or.inl ?_)
        rw [getMeta_of_metas e3.2]
        exact e2ab _ (by rw [getMeta_of_metas e1m]; exact hpk)
      · refine Or.inr (Or.inr ⟨s, ?_⟩)
        have l1 : LPB (.task cid tid' s) w1 t'.fut := LPB.of_same _ e1l e1m _ hpk
        have l2 : LPB (.task cid tid' s) w2 t'.fut :=
          LPB.clearJoin _ w1 w2 t.serial (by rw [e2l]; exact Nat.le_refl _) (fun l => by rw [pleaf_of_leaves e2l])
            (fun s' hs' hm => by rw [e2o s' hs']; exact hm) (hq' s) _ l1
        exact LPB.of_same _ e3.1 e3.2 _ l2

end M.Rt

namespace M.Rt

theorem runTask_swf (cid tid : Nat) (w : World) (st : TaskState) (w' : World) (h : runTask cid tid w = some (st, w'))
    (hft : ∀ t ∈ (w.cmd cid).tasks.values, hostFreeB t.fut = true) (hin : cid < w.cmds.length)
    (hs : Slab.WF (w.cmd cid).tasks) : Slab.WF (w'.cmd cid).tasks := by
  unfold runTask runTaskF at h
  split at h
  · simp only [Option.some.injEq, Prod.mk.injEq] at h; obtain ⟨_, rfl⟩ := h; exact hs
  · rename_i t hget
    have htf : hostFreeB t.fut = true := hft t (Slab.mem_values_of_get _ _ _ hget)
    split at h
    · simp only [Option.some.injEq, Prod.mk.injEq] at h; obtain ⟨_, rfl⟩ := h; exact hs
    · dsimp only at h
      have pollfacts : ∀ (r : PollRes) (w1 : World), pollAt depthFuel (.task cid tid w.nextSerial) (.cmd cid) t.fut
          ({ w with nextSerial := w.nextSerial + 1 } : World) = some (r, w1) →
          (w1.cmd cid).tasks = (w.cmd cid).tasks ∧ cid < w1.cmds.length := by
        intro r w1 hp
        rw [pollAt_eq] at hp
        have tk := pollBlock_tgood _ _ (fun _ t => hostFreeB t.fut = true) _ _ _ _ _ _ hp htf (fun _ _ _ x => x)
        have q := pollBlock_qs _ _ _ _ _ _ _ _ hp htf
        exact ⟨by rw [tk.tasks cid]; rfl, by rw [q.len]; exact hin⟩
      split at h
      · cases h
      · rename_i env1 w1 hpoll
        simp only [Option.some.injEq, Prod.mk.injEq] at h
        obtain ⟨_, rfl⟩ := h
        rw [(pollfacts _ _ hpoll).1]; exact hs
      · rename_i b w1 hpoll
        obtain ⟨pt, pin⟩ := pollfacts _ _ hpoll
        obtain ⟨x1, hx1⟩ : ∃ x, w1.cmds[cid]? = some x := ⟨_, List.getElem?_eq_getElem pin⟩
        have eWt : ((w1.modCmd cid fun c => { c with tasks := c.tasks.set tid { t with fut := b } }).cmd cid).tasks =
            (w1.cmd cid).tasks.set tid { t with fut := b } := by
          rw [World.cmd_modCmd_self]; simp [hx1, World.cmd]
        have fin : Slab.WF ((w1.modCmd cid fun c => { c with tasks := c.tasks.set tid { t with fut := b } }).cmd cid).tasks := by
          rw [eWt, pt]; exact Slab.wf_set _ _ _ hs
        split at h
        · simp only [Option.some.injEq, Prod.mk.injEq] at h; obtain ⟨_, rfl⟩ := h; exact fin
        · simp only [Option.some.injEq, Prod.mk.injEq] at h; obtain ⟨_, rfl⟩ := h; exact fin

theorem finishTask_swf (cid tid : Nat) (w : World) (hin : cid < w.cmds.length)
    (hft : ∀ t ∈ (w.cmd cid).tasks.values, hostFreeB t.fut = true) (hs : Slab.WF (w.cmd cid).tasks) :
    Slab.WF ((finishTask cid tid w).cmd cid).tasks := by
  unfold finishTask
  simp only
  split
  · exact hs
  · rename_i t tasks heq
    have hget : (w.cmd cid).tasks.get? tid = some t := by
      cases hgt : (w.cmd cid).tasks.get? tid with
      | none => rw [Slab.remove_none _ _ hgt] at heq; cases heq
      | some t' =>
        have := (Slab.remove_get _ _ _ hgt).1
        rw [heq] at this; simp only [Option.some.injEq] at this; rw [this]
    have htf := hft t (Slab.mem_values_of_get _ _ _ hget)
    have hT : tasks = ((w.cmd cid).tasks.remove tid).2 := by rw [heq]
    obtain ⟨x0, hx0⟩ : ∃ x, w.cmds[cid]? = some x := ⟨_, List.getElem?_eq_getElem hin⟩
    have e1t : ((w.modCmd cid fun x => { x with tasks := tasks }).cmd cid).tasks = tasks := by
      rw [World.cmd_modCmd_self]; simp [hx0]
    generalize (w.modCmd cid fun x => { x with tasks := tasks }) = w1 at e1t ⊢
    unfold World.dropTask M.Rt.dropTask
    simp only
    have k := dropBlock_keeps (fun c w => w.dropCmd c) t.fut
      (((w1.modMeta t.serial fun m => { m with finished := true, joinWakers := [] }).wakeAll (w1.getMeta t.serial).joinWakers).modMeta t.serial
        fun m => { m with taskAlive := false, joinWakers := [] }) htf
    rw [cmd_of_cmds k.2.2.2]
    have tk := tk0_wakeAll (w1.getMeta t.serial).joinWakers (w1.modMeta t.serial fun m => { m with finished := true, joinWakers := [] })
    show Slab.WF (((w1.modMeta t.serial fun m => { m with finished := true, joinWakers := [] }).wakeAll (w1.getMeta t.serial).joinWakers).cmd cid).tasks
    rw [tk.tasks cid]
    show Slab.WF (w1.cmd cid).tasks
    rw [e1t, hT]
    exact Slab.wf_remove _ _ hs

/-- `spawn_new_tasks`: every inserted task is queued; the others keep their ids -/
theorem spawnNewTasks_gp (cid : Nat) (ex : Option Nat) (w : World) (hin : cid < w.cmds.length) (hs : Slab.WF (w.cmd cid).tasks)
    (hg : GP cid ex w) : GP cid ex (spawnNewTasks cid w) ∧ Slab.WF ((spawnNewTasks cid w).cmd cid).tasks := by
  unfold spawnNewTasks
  have h0 : GP cid ex (w.modCmd cid fun x => { x with spawnQ := [] }) ∧ Slab.WF ((w.modCmd cid fun x => { x with spawnQ := [] }).cmd cid).tasks ∧
      cid < (w.modCmd cid fun x => { x with spawnQ := [] }).cmds.length := by
    have et : ((w.modCmd cid fun x => { x with spawnQ := [] }).cmd cid).tasks = (w.cmd cid).tasks := by
      refine cmd_modCmd_keep (·.tasks) w cid _ ?_; intro _; rfl
    have er : ((w.modCmd cid fun x => { x with spawnQ := [] }).cmd cid).ready = (w.cmd cid).ready := by
      refine cmd_modCmd_keep (·.ready) w cid _ ?_; intro _; rfl
    refine ⟨?_, by rw [et]; exact hs, by simp only [World.modCmd, modifyNth_length]; exact hin⟩
    intro tid t hg' hne
    rw [et] at hg'
    exact (hg tid t hg' hne).of_same rfl rfl (fun x hx => by rw [er]; exact hx)
  generalize (w.modCmd cid fun x => { x with spawnQ := [] }) = W0 at h0
  have fold : ∀ (l : List Task) (W : World), GP cid ex W → Slab.WF (W.cmd cid).tasks → cid < W.cmds.length →
      GP cid ex (l.foldl (fun w t => w.modCmd cid fun x => { x with tasks := (x.tasks.insert t).2, ready := x.ready ++ [(x.tasks.insert t).1] }) W) ∧
      Slab.WF ((l.foldl (fun w t => w.modCmd cid fun x => { x with tasks := (x.tasks.insert t).2, ready := x.ready ++ [(x.tasks.insert t).1] }) W).cmd cid).tasks := by
    intro l
    induction l with
    | nil => intro W h1 h2 _; exact ⟨h1, h2⟩
    | cons t l ih =>
      intro W h1 h2 h3
      simp only [List.foldl_cons]
      obtain ⟨x0, hx0⟩ : ∃ x, W.cmds[cid]? = some x := ⟨_, List.getElem?_eq_getElem h3⟩
      have hx0' : W.cmd cid = x0 := by simp [World.cmd, hx0]
      have ec : (W.modCmd cid fun x => { x with tasks := (x.tasks.insert t).2, ready := x.ready ++ [(x.tasks.insert t).1] }).cmd cid =
          { x0 with tasks := (x0.tasks.insert t).2, ready := x0.ready ++ [(x0.tasks.insert t).1] } := by
        rw [World.cmd_modCmd_self]; simp [hx0]
      refine ih _ ?_ (by rw [ec]; rw [hx0'] at h2; exact Slab.wf_insert _ _ h2) (by simp only [World.modCmd, modifyNth_length]; exact h3)
      intro tid' t' hg' hne
      rw [ec] at hg'
      simp only at hg'
      by_cases e : tid' = (x0.tasks.insert t).1
      · refine Or.inl ?_
        rw [ec]; simp [e]
      · rw [Slab.get_insert_other _ _ _ e] at hg'
        rw [← hx0'] at hg'
        refine (h1 tid' t' hg' hne).of_same rfl rfl ?_
        intro x hx
        rw [ec]; rw [hx0'] at hx
        exact List.mem_append_left _ hx
  exact fold _ W0 h0.1 h0.2.1 h0.2.2

end M.Rt

namespace M.Rt

/-- the invariant of whole runs -/
structure GInv (cid : Nat) (w : World) : Prop where
  ctx : Ctx cid w
  swf : Slab.WF (w.cmd cid).tasks
  gp : GP cid none w

theorem Own.hfc {cid : Nat} {w : World} (h : Own cid w) : HFc cid w := ⟨h.hft, h.hfs⟩

theorem runTask_eq (cid tid : Nat) (w : World) :
    runTask cid tid w = runTaskF (pollBlock (pollNextF (runUntilSettledF (runTaskF (pollAt 63)))) loopFuel) cid tid w := rfl

theorem drainReady_gp (cid : Nat) : ∀ (f : Nat) (w w' : World), drainReady runTask f cid w = some w' → GInv cid w → GInv cid w' := by
  intro f
  induction f with
  | zero => intro w w' h; simp [drainReady] at h
  | succ f ih =>
    intro w w' h hw
    unfold drainReady at h
    split at h
    · simp only [Option.some.injEq] at h; subst h; exact hw
    · rename_i tid rest hrd
      generalize hw0 : (w.modCmd cid fun c => { c with ready := rest }) = w0 at h
      have e0t : (w0.cmd cid).tasks = (w.cmd cid).tasks := by subst hw0; refine cmd_modCmd_keep (·.tasks) w cid _ ?_; intro _; rfl
      obtain ⟨x0, hx0⟩ : ∃ x, w.cmds[cid]? = some x := ⟨_, List.getElem?_eq_getElem hw.ctx.inr⟩
      have e0r : (w0.cmd cid).ready = rest := by subst hw0; rw [World.cmd_modCmd_self]; simp [hx0]
      have c0 : Ctx cid w0 := by
        subst hw0
        have hsk : SOkN w.nextSerial (w.modCmd cid fun c => { c with ready := rest }) := by
          refine SOkN.modCmd hw.ctx.sok cid _ ?_; intro _ hx; exact hx
        refine ⟨hw.ctx.own.frame (fr_modCmd cid w cid _ (fun _ => rfl) (fun _ => rfl)),
          (SOk.step (w1 := w.modCmd cid fun c => { c with ready := rest }) hw.ctx.sok rfl hsk).1,
          hw.ctx.wfw.modCmd_gen cid _ (fun _ _ h => Or.inl h) (fun _ _ h => Or.inl h), ?_, ?_⟩
        · rw [show ((w.modCmd cid fun c => { c with ready := rest }).cmd cid).alive = (w.cmd cid).alive from by
            refine cmd_modCmd_keep (·.alive) w cid _ ?_; intro _; rfl]; exact hw.ctx.alive
        · simp only [World.modCmd, modifyNth_length]; exact hw.ctx.inr
      have s0 : Slab.WF (w0.cmd cid).tasks := by rw [e0t]; exact hw.swf
      have g0 : GP cid (some tid) w0 := by
        intro tid' t' hg' hne
        rw [e0t] at hg'
        have hne' : tid' ≠ tid := fun e => hne (by rw [e])
        rcases hw.gp tid' t' hg' (fun e => by cases e) with hpk | hpk | ⟨s, hpk⟩
        · refine Or.inl ?_
          rw [e0r]; rw [hrd] at hpk
          simp only [List.mem_cons] at hpk
          rcases hpk with hpk | hpk
          · exact absurd hpk hne'
          · exact hpk
        · exact Or.inr (Or.inl (by subst hw0; exact hpk))
        · exact Or.inr (Or.inr ⟨s, by subst hw0; exact LPB.of_same _ (w := w) (w' := w.modCmd cid fun c => { c with ready := rest }) rfl rfl _ hpk⟩)
      -- after the task has run
      have after : ∀ (st : TaskState) (w1 : World), runTask cid tid w0 = some (st, w1) →
          SOk w1 ∧ WFw w1 ∧ (w1.cmd cid).alive = true ∧ cid < w1.cmds.length ∧ Slab.WF (w1.cmd cid).tasks ∧
          GP cid (some tid) w1 ∧ (st = .suspended → ∀ t, (w1.cmd cid).tasks.get? tid = some t → Pk cid w1 tid t) ∧
          (st = .missing → (w1.cmd cid).tasks.get? tid = none) ∧ RunPost cid tid st w1 := by
        intro st w1 hrt
        have g := runTask_gp cid tid w0 st w1 hrt c0 g0
        have q := (runTaskF_q _ _ cid tid w0 st w1 (by rw [← runTask_eq]; exact hrt) c0.own.hfc).1
        have o := runTaskF_own _ _ cid tid w0 st w1 (by rw [← runTask_eq]; exact hrt) c0.own
        exact ⟨(runTask_ok cid tid w0 st w1 hrt c0.sok).1, (runTask_w cid tid w0 st w1 hrt c0.wfw).1,
          by rw [q.alive cid]; exact c0.alive, by rw [q.len]; exact c0.inr,
          runTask_swf cid tid w0 st w1 hrt c0.own.hft c0.inr s0, g.1, g.2.1, g.2.2, o⟩
      -- finishing
      have fin : ∀ (st : TaskState) (w1 : World), runTask cid tid w0 = some (st, w1) → Own cid (finishTask cid tid w1) →
          HFc cid w1 → GInv cid (finishTask cid tid w1) := by
        intro st w1 hrt hown hfc
        obtain ⟨a1, a2, a3, a4, a5, a6, _, _, _⟩ := after st w1 hrt
        have q := (finishTask_q cid tid w1 hfc).1
        exact ⟨⟨hown, (finishTask_keeps cid tid w1 a1).1, (finishTask_w cid tid w1 a2).1, by rw [q.alive cid]; exact a3,
          by rw [q.len]; exact a4⟩, finishTask_swf cid tid w1 a4 hfc.t a5, finishTask_gp cid tid w1 a3 a4 hfc.t a6⟩
      simp only at h
      split at h
      · cases h
      · rename_i w1 hrt
        obtain ⟨a1, a2, a3, a4, a5, a6, _, a8, a9⟩ := after _ w1 hrt
        refine ih w1 w' h ⟨⟨a9, a1, a2, a3, a4⟩, a5, ?_⟩
        intro tid' t' hg' _
        by_cases e : tid' = tid
        · subst e; rw [a8 rfl] at hg'; cases hg'
        · exact a6 tid' t' hg' (fun e' => e (Option.some.inj e'))
      · rename_i w1 hrt
        obtain ⟨a1, a2, a3, a4, a5, a6, a7, _, a9⟩ := after _ w1 hrt
        refine ih w1 w' h ⟨⟨a9, a1, a2, a3, a4⟩, a5, ?_⟩
        intro tid' t' hg' _
        by_cases e : tid' = tid
        · subst e; exact a7 rfl t' hg'
        · exact a6 tid' t' hg' (fun e' => e (Option.some.inj e'))
      · rename_i w1 hrt
        obtain ⟨_, _, _, _, _, _, _, _, a9⟩ := after _ w1 hrt
        obtain ⟨t, hst⟩ := a9
        exact ih _ w' h (fin _ w1 hrt (finishTask_own_stale cid tid w1 t hst) ⟨hst.hft, hst.hfs⟩)
      · rename_i w1 hrt
        obtain ⟨_, _, _, _, _, _, _, _, a9⟩ := after _ w1 hrt
        exact ih _ w' h (fin _ w1 hrt (finishTask_own cid tid w1 a9) a9.hfc)

end M.Rt

namespace M.Rt

theorem settleLoop_gp (cid : Nat) : ∀ (f : Nat) (w w' : World), settleLoop runTask f cid w = some w' → GInv cid w → GInv cid w' := by
  intro f
  induction f with
  | zero => intro w w' h; simp [settleLoop] at h
  | succ f ih =>
    intro w w' h hw
    unfold settleLoop at h
    simp only at h
    have q := (spawnNewTasks_q cid w hw.ctx.own.hfc).1
    have sp := spawnNewTasks_gp cid none w hw.ctx.inr hw.swf hw.gp
    have k0 : GInv cid (spawnNewTasks cid w) :=
      ⟨⟨spawnNewTasks_own cid w hw.ctx.own, (spawnNewTasks_keeps cid w hw.ctx.sok).1, (spawnNewTasks_w cid w hw.ctx.wfw).1,
        by rw [q.alive cid]; exact hw.ctx.alive, by rw [q.len]; exact hw.ctx.inr⟩, sp.2, sp.1⟩
    split at h
    · simp only [Option.some.injEq] at h; subst h; exact k0
    · split at h
      · cases h
      · rename_i w1 hd
        exact ih w1 w' h (drainReady_gp cid _ _ w1 hd k0)

theorem runUntilSettled_gp (cid : Nat) (w w' : World) (h : runUntilSettled cid w = some w') (hw : GInv cid w) : GInv cid w' := by
  have hown := runUntilSettled_own cid w w' h hw.ctx.own
  have hsok := (runUntilSettled_ok cid w w' h hw.ctx.sok).1
  have hwf := (runUntilSettled_w cid w w' h hw.ctx.wfw).1
  have q := (runUntilSettledF_q _ _ cid w w' h hw.ctx.own.hfc).1
  have hctx : Ctx cid w' := ⟨hown, hsok, hwf, by rw [q.alive cid]; exact hw.ctx.alive, by rw [q.len]; exact hw.ctx.inr⟩
  unfold runUntilSettled runUntilSettledF at h
  split at h
  · simp only [Option.some.injEq] at h
    subst h
    obtain ⟨x0, hx0⟩ : ∃ x, (List.foldl (fun w t => w.dropTask t) w (w.cmd cid).tasks.values).cmds[cid]? = some x := by
      refine ⟨_, List.getElem?_eq_getElem ?_⟩
      have := hctx.inr
      simp only [World.modCmd, modifyNth_length] at this
      exact this
    have et : (((List.foldl (fun w t => w.dropTask t) w (w.cmd cid).tasks.values).modCmd cid fun c => { c with tasks := {} }).cmd cid).tasks = {} := by
      rw [World.cmd_modCmd_self]; simp [hx0]
    refine ⟨hctx, by rw [et]; exact Slab.wf_empty, ?_⟩
    intro tid t hg _
    rw [et] at hg
    simp [Slab.get?] at hg
  · have := settleLoop_gp cid _ w w' h hw
    exact this

end M.Rt

namespace M.Rt

/-- the parking invariant with what its wake-ups need -/
structure GPa (cid : Nat) (w : World) : Prop where
  gp : GP cid none w
  alive : (w.cmd cid).alive = true
  inr : cid < w.cmds.length

theorem GPa.of_qs_same {cid : Nat} {w w' : World} (h : GPa cid w) (q : QS none w w') (ht : (w'.cmd cid).tasks = (w.cmd cid).tasks)
    (hp : ∀ tid t, Pk cid w tid t → Pk cid w' tid t) : GPa cid w' :=
  ⟨fun tid t hg hne => hp tid t (h.gp tid t (by rw [← ht]; exact hg) hne), by rw [q.alive cid]; exact h.alive, by rw [q.len]; exact h.inr⟩

/-- a change of one leaf that keeps its waker -/
theorem GPa.modLeaf_keep {cid : Nat} {w : World} (h : GPa cid w) (l : Nat) (f : Leaf → Leaf) (hf : ∀ x, (f x).waker = x.waker) :
    GPa cid (w.modLeaf l f) := by
  refine h.of_qs_same (QS.modLeaf w l f) rfl ?_
  intro tid t hpk
  rcases hpk with hpk | hpk | ⟨s, hpk⟩
  · exact Or.inl hpk
  · exact Or.inr (Or.inl hpk)
  · refine Or.inr (Or.inr ⟨s, LPB.frame _ w (w.modLeaf l f) (by rw [len_modLeaf]; exact Nat.le_refl _) (fun _ hs => hs) _ ?_ hpk⟩)
    intro l' _
    by_cases e : l = l'
    · subst e
      rw [World.leaf_modLeaf_self]
      cases hl : w.leaves[l]? with
      | none => simp [World.leaf, hl]
      | some x => simp [World.leaf, hl, hf]
    · rw [pleaf_modLeaf_ne w l f l' e]

/-- taking the waker registered in one leaf and waking it -/
theorem GPa.take_wake {cid : Nat} {w : World} (h : GPa cid w) (l : Nat) (f : Leaf → Leaf) (hf : ∀ x, (f x).waker = none) :
    GPa cid (match (w.leaf l).waker with | some wk => (w.modLeaf l f).wake wk | none => w.modLeaf l f) := by
  have q1 : QS none w (w.modLeaf l f) := QS.modLeaf w l f
  have hl1 : ∀ l', l' ≠ l → ((w.modLeaf l f).leaf l').waker = (w.leaf l').waker := by
    intro l' hne; rw [pleaf_modLeaf_ne w l f l' (Ne.symm hne)]
  -- a task parked elsewhere stays parked; one parked here is the one that gets woken
  have step1 : ∀ tid t, Pk cid w tid t → Pk cid (w.modLeaf l f) tid t ∨ ∃ s, (w.leaf l).waker = some (.task cid tid s) := by
    intro tid t hpk
    rcases hpk with hpk | hpk | ⟨s, hpk⟩
    · exact Or.inl (Or.inl hpk)
    · exact Or.inl (Or.inr (Or.inl hpk))
    · by_cases e : (w.leaf l).waker = some (.task cid tid s)
      · exact Or.inr ⟨s, e⟩
      · exact Or.inl (Or.inr (Or.inr ⟨s, LPB.clearLeaf _ w (w.modLeaf l f) l (by rw [len_modLeaf]; exact Nat.le_refl _) hl1 (fun _ hs => hs) e _ hpk⟩))
  cases hk : (w.leaf l).waker with
  | none =>
    simp only
    refine h.of_qs_same q1 rfl ?_
    intro tid t hpk
    rcases step1 tid t hpk with h1 | ⟨s, h1⟩
    · exact h1
    · rw [hk] at h1; cases h1
  | some wk =>
    simp only
    have q2 := q1.trans (World_wake_qs none (w.modLeaf l f) wk)
    have tk := tk_World_wake (New := fun _ _ => False) (w.modLeaf l f) wk
    refine h.of_qs_same q2 (by rw [tk.tasks cid]; rfl) ?_
    intro tid t hpk
    rcases step1 tid t hpk with h1 | ⟨s, h1⟩
    · rcases h1 with h1 | h1 | ⟨s, h1⟩
      · exact Or.inl (rd_World_wake wk h1)
      · exact Or.inr (Or.inl (by unfold World.wake; rw [getMeta_of_metas (wake_metas _ wk _)]; exact h1))
      · exact Or.inr (Or.inr ⟨s, LPB.of_same _ (World.wake_leaves _ wk) (by unfold World.wake; exact wake_metas _ wk _) _ h1⟩)
    · rw [hk] at h1
      cases h1
      exact Or.inl (wake_queues cid tid s (w.modLeaf l f) h.alive h.inr)

theorem GPa.dropSender {cid : Nat} {w : World} (h : GPa cid w) (l : Nat) : GPa cid (w.dropSender l) := by
  unfold World.dropSender
  simp only
  split
  · exact h.modLeaf_keep l _ (fun _ => rfl)
  · have := h.take_wake l (fun lf => { lf with senderAlive := false, waker := none }) (fun _ => rfl)
    exact this

theorem GPa.resolveReq {cid : Nat} {w : World} (h : GPa cid w) (r : Resolve) (v : Val) : GPa cid (resolveReq r v w).2.2 := by
  unfold M.Rt.resolveReq
  split
  · exact h
  · exact h
  · simp only
    split
    · rename_i l _
      have := h.take_wake l (fun lf => { lf with queue := lf.queue ++ [v], waker := none }) (fun _ => rfl)
      exact GPa.dropSender this _
    · exact h.dropSender _
  · simp only
    split
    · rename_i l _
      exact h.take_wake l (fun lf => { lf with queue := lf.queue ++ [v], waker := none }) (fun _ => rfl)
    · exact h

theorem GPa.dropReq {cid : Nat} {w : World} (h : GPa cid w) (r : Resolve) : GPa cid (dropReq r w).2 := by
  unfold M.Rt.dropReq
  split
  · exact h.dropSender _
  · exact h.dropSender _
  · exact h
  · exact h

theorem GPa.abortCmd {cid : Nat} {w : World} (h : GPa cid w) (c : Nat) : GPa cid (w.abortCmd c) := by
  have q := abortCmd_qs none w c
  have tk := tk_abortCmd (New := fun _ _ => False) w c
  refine h.of_qs_same q (tk.tasks cid) ?_
  intro tid t hpk
  have hl : (w.abortCmd c).leaves = w.leaves := by
    unfold World.abortCmd; simp only; split
    · rfl
    · rw [World.wake_leaves]; rfl
  rcases hpk with hpk | hpk | ⟨s, hpk⟩
  · exact Or.inl (rd_abortCmd c hpk)
  · exact Or.inr (Or.inl (q.metaA _ hpk))
  · refine Or.inr (Or.inr ⟨s, LPB.frame _ w _ (by rw [hl]; exact Nat.le_refl _) (fun s' hs' => jw_abortCmd c hs') _ ?_ hpk⟩)
    intro l _
    rw [pleaf_of_leaves hl]

end M.Rt

namespace M.Rt

theorem GInv.gpa {cid : Nat} {w : World} (h : GInv cid w) : GPa cid w := ⟨h.gp, h.ctx.alive, h.ctx.inr⟩

/-- a change of the command's own output queues -/
theorem GInv.modCmd_out {cid : Nat} {w : World} (h : GInv cid w) (f : CmdSt → CmdSt) (ht : ∀ x, (f x).tasks = x.tasks)
    (hs : ∀ x, (f x).spawnQ = x.spawnQ) (hr : ∀ x, (f x).ready = x.ready) (ha : ∀ x, (f x).alive = x.alive)
    (hw : ∀ x, (f x).waker = x.waker) : GInv cid (w.modCmd cid f) := by
  have et : ((w.modCmd cid f).cmd cid).tasks = (w.cmd cid).tasks := cmd_modCmd_keep (·.tasks) w cid f ht
  have er : ((w.modCmd cid f).cmd cid).ready = (w.cmd cid).ready := cmd_modCmd_keep (·.ready) w cid f hr
  have hsk : SOkN w.nextSerial (w.modCmd cid f) := h.ctx.sok.modCmd cid f (fun x hx => by rw [hw]; exact hx)
  refine ⟨⟨h.ctx.own.frame (fr_modCmd cid w cid f ht hs), (SOk.step (w1 := w.modCmd cid f) h.ctx.sok rfl hsk).1,
    h.ctx.wfw.modCmd_gen cid f (fun x t hx => Or.inl (by rw [ht] at hx; exact hx)) (fun x t hx => Or.inl (by rw [hs] at hx; exact hx)),
    by rw [cmd_modCmd_keep (·.alive) w cid f ha]; exact h.ctx.alive, by simp only [World.modCmd, modifyNth_length]; exact h.ctx.inr⟩,
    by rw [et]; exact h.swf, ?_⟩
  intro tid t hg hne
  rw [et] at hg
  exact (h.gp tid t hg hne).of_same rfl rfl (fun x hx => by rw [er]; exact hx)

theorem takeEffects_gp (cid : Nat) (w : World) (es : List Eff) (w' : World) (h : takeEffects cid w = some (es, w'))
    (hw : GInv cid w) : GInv cid w' := by
  unfold takeEffects at h
  split at h
  · cases h
  · rename_i w1 hs
    simp only [Option.some.injEq, Prod.mk.injEq] at h
    obtain ⟨_, rfl⟩ := h
    exact (runUntilSettled_gp cid w w1 hs hw).modCmd_out _ (fun _ => rfl) (fun _ => rfl) (fun _ => rfl) (fun _ => rfl) (fun _ => rfl)

theorem takeEvents_gp (cid : Nat) (w : World) (es : List Ev) (w' : World) (h : takeEvents cid w = some (es, w'))
    (hw : GInv cid w) : GInv cid w' := by
  unfold takeEvents at h
  split at h
  · cases h
  · rename_i w1 hs
    simp only [Option.some.injEq, Prod.mk.injEq] at h
    obtain ⟨_, rfl⟩ := h
    exact (runUntilSettled_gp cid w w1 hs hw).modCmd_out _ (fun _ => rfl) (fun _ => rfl) (fun _ => rfl) (fun _ => rfl) (fun _ => rfl)

theorem isDone_gp (cid : Nat) (w : World) (d : Bool) (w' : World) (h : isDone cid w = some (d, w')) (hw : GInv cid w) :
    GInv cid w' := by
  unfold isDone at h
  split at h
  · cases h
  · rename_i w1 hs
    simp only [Option.some.injEq, Prod.mk.injEq] at h
    obtain ⟨_, rfl⟩ := h
    exact runUntilSettled_gp cid w w1 hs hw

end M.Rt

namespace M.Hosts
open M.Rt

theorem GInv.shell {cid : Nat} {w w' : World} (h : GInv cid w) (fr : Fr cid w w') (sk : SOk w') (tk : TK0 w w') (hl : LL w' = LL w)
    (g : GPa cid w') : GInv cid w' :=
  ⟨⟨h.ctx.own.frame fr, sk, h.ctx.wfw.tk0_eq tk hl, g.alive, g.inr⟩, by rw [tk.tasks cid]; exact h.swf, g.gp⟩

theorem Direct.observe_gp (res : String) (d : Direct) (o : Obs) (d' : Direct) (h : d.observe res = some (o, d'))
    (hw : GInv d.cid d.w) : GInv d'.cid d'.w := by
  unfold Direct.observe at h
  cases h1 : takeEffects d.cid d.w with
  | none => simp [h1] at h
  | some p1 =>
    obtain ⟨effs, w1⟩ := p1
    have k1 := takeEffects_gp _ _ _ _ h1 hw
    cases h2 : takeEvents d.cid w1 with
    | none => simp [h1, h2] at h
    | some p2 =>
      obtain ⟨evs, w2⟩ := p2
      have k2 := takeEvents_gp _ _ _ _ h2 k1
      cases h3 : isDone d.cid w2 with
      | none => simp [h1, h2, h3] at h
      | some p3 =>
        obtain ⟨dn, w3⟩ := p3
        have k3 := isDone_gp _ _ _ _ h3 k2
        simp [h1, h2, h3] at h
        obtain ⟨_, rfl⟩ := h
        exact k3

theorem Direct.step_gp (d : Direct) (a : Action) (o : Obs) (d' : Direct) (h : d.step a = some (o, d'))
    (hw : GInv d.cid d.w) : GInv d'.cid d'.w := by
  unfold Direct.step at h
  cases a with
  | res k v =>
    simp only at h
    split at h
    · exact Direct.observe_gp _ _ _ _ h hw
    · rename_i reqs res w1 hr
      unfold shellResolve at hr
      split at hr
      · cases hr
      · rename_i e _
        simp only [Option.some.injEq, Prod.mk.injEq] at hr
        obtain ⟨_, _, rfl⟩ := hr
        exact Direct.observe_gp _ _ _ _ h
          (GInv.shell hw (fr_resolveReq d.cid e.res v d.w) (resolveReq_keeps e.res v d.w hw.ctx.sok).1 (tk0_resolveReq e.res v d.w)
            (LL_resolveReq e.res v d.w) (hw.gpa.resolveReq e.res v))
  | drop k =>
    simp only at h
    split at h
    · exact Direct.observe_gp _ _ _ _ h hw
    · rename_i reqs w1 hr
      unfold shellDrop at hr
      split at hr
      · cases hr
      · rename_i e _
        simp only [Option.some.injEq, Prod.mk.injEq] at hr
        obtain ⟨_, rfl⟩ := hr
        exact Direct.observe_gp _ _ _ _ h
          (GInv.shell hw (fr_dropReq d.cid e.res d.w) (dropReq_keeps e.res d.w hw.ctx.sok).1 (tk0_dropReq e.res d.w)
            (LL_dropReq e.res d.w) (hw.gpa.dropReq e.res))
  | abort n =>
    simp only at h
    refine Direct.observe_gp _ _ _ _ h ?_
    show GInv d.cid (doAbort n d.w)
    unfold doAbort
    split
    · exact GInv.shell hw (fr_abortCmd d.cid d.w _) (Keeps.of_step hw.ctx.sok (ns_abortCmd d.w _) (SOkN.abortCmd hw.ctx.sok _)).1
        (tk_abortCmd d.w _) (LL_abortCmd d.w _) (hw.gpa.abortCmd _)
    · exact hw
  | poll => exact Direct.observe_gp _ _ _ _ h hw
  | ev _ _ => simp at h
  | rawRes _ _ _ => simp at h
  | rawEv _ _ => simp at h

end M.Hosts

namespace M.Hosts
open M.Rt

theorem GInv_init (is : List Instr) (hf : hostFreeIs is = true) (canon : Bool) :
    GInv (Direct.new (.task is) canon).cid (Direct.new (.task is) canon).w := by
  have hown : Own (Direct.new (.task is) canon).cid (Direct.new (.task is) canon).w := by
    unfold Direct.new
    simp only [instantiate, newCmd, World.newMeta]
    apply Own.of_bound
    · intro t ht
      simp [World.cmd, Slab.insert, Slab.empty, Slab.values] at ht
      subst ht
      simp [hostFreeB, hostFreeP, hf]
    · intro t ht; simp [World.cmd] at ht
    · intro l
      simp [World.cmd, cmdCnt, cnt, Slab.insert, Slab.empty, Slab.values, taskRefs, refsB, refsP]
  have hsok : SOk (Direct.new (.task is) canon).w := (instantiate_keeps {} (.task is) {} SOk_empty).1
  have hwf : WFw (Direct.new (.task is) canon).w := (instantiate_bw {} (.task is) {} WFw_empty rfl).wf
  refine ⟨⟨hown, hsok, hwf, ?_, ?_⟩, ?_, ?_⟩
  · unfold Direct.new; simp [instantiate, newCmd, World.newMeta, World.cmd]
  · unfold Direct.new; simp [instantiate, newCmd, World.newMeta]
  · unfold Direct.new
    simp only [instantiate, newCmd, World.newMeta, World.cmd, List.nil_append, List.length_nil, List.getElem?_cons_zero,
      Option.getD_some]
    exact Slab.wf_insert _ _ Slab.wf_empty
  · intro tid t hg _
    refine Or.inl ?_
    unfold Direct.new at hg ⊢
    simp only [instantiate, newCmd, World.newMeta, World.cmd, List.nil_append, List.length_nil, List.getElem?_cons_zero,
      Option.getD_some] at hg ⊢
    -- the only stored task has id 0, which is on the ready queue
    have : tid = 0 := by
      simp only [Slab.insert, Slab.empty, Slab.get?] at hg
      by_cases e : tid = 0
      · exact e
      · rw [List.getElem?_eq_none (by simp; omega)] at hg; simp at hg
    subst this
    simp

/-- **Every stored task is queued or parked.** For every host-free task program held directly by a test, after every
    history of resolutions, drops, aborts and polls, every task in the command's slab is on the ready queue, aborted, or
    LIVE-PARKED: the waker of its last poll is registered at every request / stream leaf and join-handle queue the task is
    suspended at. -/
theorem runDirect_gp (is : List Instr) (hf : hostFreeIs is = true) (canon : Bool) (acts : List Action) (os : List Obs)
    (d : Direct) (h : runDirect (.task is) canon acts = some (os, d)) : GInv d.cid d.w := by
  unfold runDirect at h
  have h0 := GInv_init is hf canon
  cases h1 : (Direct.new (.task is) canon).observe "-" with
  | none => simp [h1] at h
  | some p1 =>
    obtain ⟨o, d1⟩ := p1
    have k1 := Direct.observe_gp _ _ _ _ h1 h0
    cases h2 : runSteps Direct.step d1 acts with
    | none => simp [h1, h2] at h
    | some p2 =>
      obtain ⟨os2, d2⟩ := p2
      simp [h1, h2] at h
      obtain ⟨_, rfl⟩ := h
      exact runSteps_inv Direct.step (fun d => GInv d.cid d.w) Direct.step_gp acts d1 os2 _ h2 k1

end M.Hosts
