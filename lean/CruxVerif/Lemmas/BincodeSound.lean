/-
Helper lemmas for C10, direction "every accepted encoding is canonical and denotes a well-typed value":
`dec … bs = some (v, rest) → enc v ++ rest = bs ∧ wt R f v`, by induction on the fuel (outer) and structural
recursion on the format (inner).
-/
import CruxVerif.Lemmas.BincodePrim
namespace Lemmas.Bincode
open M.Schema M.Bincode S.Codec

/-- what a decoder must satisfy to be sound for a set `P` of values -/
def SoundFor (d : Dec) (P : Value → Prop) : Prop :=
  ∀ bs v rest, d bs = some (v, rest) → enc v ++ rest = bs ∧ P v

theorem mapFst_some {α β γ : Type} {f : α → β} {o : Option (α × γ)} {b : β} {c : γ}
    (e : mapFst f o = some (b, c)) : ∃ a, o = some (a, c) ∧ f a = b := by
  cases o with
  | none => cases e
  | some p =>
    obtain ⟨a, c'⟩ := p
    simp only [mapFst, Option.some.injEq, Prod.mk.injEq] at e
    exact ⟨a, by rw [e.2], e.1⟩

theorem decListWith_sound {d : Dec} {P : Value → Prop} (hd : SoundFor d P) :
    ∀ (n : Nat) (bs : Bytes) (vs : List Value) (rest : Bytes), decListWith d n bs = some (vs, rest) →
      encAll vs ++ rest = bs ∧ vs.length = n ∧ ∀ v ∈ vs, P v := by
  intro n
  induction n with
  | zero =>
    intro bs vs rest e
    simp only [decListWith, Option.some.injEq, Prod.mk.injEq] at e
    obtain ⟨rfl, rfl⟩ := e
    simp [encAll]
  | succ n ih =>
    intro bs vs rest e
    unfold decListWith at e
    split at e
    · cases e
    · rename_i v bs' hv
      split at e
      · cases e
      · rename_i vs' bs'' hvs
        simp only [Option.some.injEq, Prod.mk.injEq] at e
        obtain ⟨rfl, rfl⟩ := e
        obtain ⟨h1, h2⟩ := hd _ _ _ hv
        obtain ⟨h3, h4, h5⟩ := ih _ _ _ hvs
        refine ⟨?_, by simp [h4], ?_⟩
        · simp only [encAll, List.append_assoc, h3, h1]
        · intro w hw
          cases hw with
          | head => exact h2
          | tail _ hw => exact h5 w hw

theorem wtAll_of_forall {R : Registry} {f : Format} : ∀ {vs : List Value}, (∀ v ∈ vs, wt R f v = true) → wtAll R f vs = true
  | [], _ => by simp [wtAll]
  | v :: vs, h => by
    simp only [wtAll, Bool.and_eq_true]
    exact ⟨h v (by simp), wtAll_of_forall (fun w hw => h w (by simp [hw]))⟩

theorem wtPairs_of_forall {R : Registry} {k f : Format} : ∀ {vs : List Value},
    (∀ v ∈ vs, ∃ a b, v = .tuple [a, b] ∧ wt R k a = true ∧ wt R f b = true) → wtPairs R k f vs = true
  | [], _ => by simp [wtPairs]
  | v :: vs, h => by
    obtain ⟨a, b, rfl, ha, hb⟩ := h v (by simp)
    simp only [wtPairs, Bool.and_eq_true]
    exact ⟨⟨ha, hb⟩, wtPairs_of_forall (fun w hw => h w (by simp [hw]))⟩

theorem decPair_sound {dk dv : Dec} {P Q : Value → Prop} (hk : SoundFor dk P) (hv : SoundFor dv Q) :
    SoundFor (decPair dk dv) (fun v => ∃ a b, v = .tuple [a, b] ∧ P a ∧ Q b) := by
  intro bs v rest e
  unfold decPair at e
  split at e
  · cases e
  · rename_i a bs' ha
    split at e
    · cases e
    · rename_i b bs'' hb
      simp only [Option.some.injEq, Prod.mk.injEq] at e
      obtain ⟨rfl, rfl⟩ := e
      obtain ⟨h1, h2⟩ := hk _ _ _ ha
      obtain ⟨h3, h4⟩ := hv _ _ _ hb
      refine ⟨?_, a, b, rfl, h2, h4⟩
      simp only [enc, encAll, List.append_nil, List.append_assoc, h3, h1]

/-- the name handler is sound for `TypeName` formats -/
def NameSound (R : Registry) (dn : String → Dec) : Prop :=
  ∀ n, SoundFor (dn n) (fun v => wt R (.typeName n) v = true)

mutual
theorem decF_sound {R : Registry} {dn : String → Dec} (hn : NameSound R dn) :
    ∀ (f : Format), SoundFor (decF dn f) (fun v => wt R f v = true)
  | .typeName n => by
    intro bs v rest e
    simp only [decF] at e
    exact hn n _ _ _ e
  | .unit => by
    intro bs v rest e
    simp only [decF, Option.some.injEq, Prod.mk.injEq] at e
    obtain ⟨rfl, rfl⟩ := e
    simp [enc, encAll, wt]
  | .bool => by
    intro bs v rest e
    simp only [decF] at e
    split at e
    · cases e
    · rename_i b r
      split at e
      · simp only [Option.some.injEq, Prod.mk.injEq] at e
        obtain ⟨rfl, rfl⟩ := e
        simp [enc, wt, *]
      · split at e
        · simp only [Option.some.injEq, Prod.mk.injEq] at e
          obtain ⟨rfl, rfl⟩ := e
          simp [enc, wt, *]
        · cases e
  | .num t => by
    intro bs v rest e
    simp only [decF] at e
    obtain ⟨n, rfl, h1, h2⟩ := decNum_some e
    simp [enc, wt, h1, h2]
  | .char => by
    intro bs v rest e
    simp only [decF] at e
    obtain ⟨c, rfl, h1, h2⟩ := decChar_some e
    simp [enc, wt, h1, h2]
  | .str => by
    intro bs v rest e
    simp only [decF] at e
    split at e
    · rename_i s r hs
      split at e
      · simp only [Option.some.injEq, Prod.mk.injEq] at e
        obtain ⟨rfl, rfl⟩ := e
        obtain ⟨h1, h2⟩ := decLenBytes_some hs
        simp [enc, wt, *]
      · cases e
    · cases e
  | .bytes => by
    intro bs v rest e
    simp only [decF] at e
    obtain ⟨s, hs, rfl⟩ := mapFst_some e
    obtain ⟨h1, h2⟩ := decLenBytes_some hs
    simp [enc, wt, h1, h2]
  | .option f => by
    intro bs v rest e
    simp only [decF] at e
    split at e
    · cases e
    · rename_i b r
      split at e
      · simp only [Option.some.injEq, Prod.mk.injEq] at e
        obtain ⟨rfl, rfl⟩ := e
        simp [enc, wt, *]
      · split at e
        · obtain ⟨w, hw, rfl⟩ := mapFst_some e
          obtain ⟨h1, h2⟩ := decF_sound hn f _ _ _ hw
          simp [enc, wt, *]
        · cases e
  | .seq f => by
    intro bs v rest e
    simp only [decF] at e
    split at e
    · rename_i n r hn'
      obtain ⟨vs, hvs, rfl⟩ := mapFst_some e
      obtain ⟨h1, h2⟩ := decNat_some hn'
      obtain ⟨h3, h4, h5⟩ := decListWith_sound (decF_sound hn f) _ _ _ _ hvs
      subst h4
      refine ⟨?_, ?_⟩
      · simp only [enc, List.append_assoc, h3, h1]
      · simp only [wt, Bool.and_eq_true, decide_eq_true_eq]
        exact ⟨by simpa using h2, wtAll_of_forall h5⟩
    · cases e
  | .map k f => by
    intro bs v rest e
    simp only [decF] at e
    split at e
    · rename_i n r hn'
      obtain ⟨vs, hvs, rfl⟩ := mapFst_some e
      obtain ⟨h1, h2⟩ := decNat_some hn'
      obtain ⟨h3, h4, h5⟩ :=
        decListWith_sound (decPair_sound (decF_sound hn k) (decF_sound hn f)) _ _ _ _ hvs
      subst h4
      refine ⟨?_, ?_⟩
      · simp only [enc, List.append_assoc, h3, h1]
      · simp only [wt, Bool.and_eq_true, decide_eq_true_eq]
        exact ⟨by simpa using h2, wtPairs_of_forall h5⟩
    · cases e
  | .tuple fs => by
    intro bs v rest e
    simp only [decF] at e
    obtain ⟨vs, hvs, rfl⟩ := mapFst_some e
    obtain ⟨h1, h2⟩ := decT_sound hn fs _ _ _ hvs
    simp [enc, wt, h1, h2]
  | .tupleArray f n => by
    intro bs v rest e
    simp only [decF] at e
    obtain ⟨vs, hvs, rfl⟩ := mapFst_some e
    obtain ⟨h3, h4, h5⟩ := decListWith_sound (decF_sound hn f) _ _ _ _ hvs
    simp [enc, wt, h3, h4, wtAll_of_forall h5]
theorem decT_sound {R : Registry} {dn : String → Dec} (hn : NameSound R dn) :
    ∀ (fs : List Format) (bs : Bytes) (vs : List Value) (rest : Bytes), decT dn fs bs = some (vs, rest) →
      encAll vs ++ rest = bs ∧ wtT R fs vs = true
  | [] => by
    intro bs vs rest e
    simp only [decT, Option.some.injEq, Prod.mk.injEq] at e
    obtain ⟨rfl, rfl⟩ := e
    simp [encAll, wtT]
  | f :: fs => by
    intro bs vs rest e
    simp only [decT] at e
    split at e
    · cases e
    · rename_i v bs' hv
      split at e
      · cases e
      · rename_i vs' bs'' hvs
        simp only [Option.some.injEq, Prod.mk.injEq] at e
        obtain ⟨rfl, rfl⟩ := e
        obtain ⟨h1, h2⟩ := decF_sound hn f _ _ _ hv
        obtain ⟨h3, h4⟩ := decT_sound hn fs _ _ _ hvs
        simp [encAll, wtT, h1, h2, h3, h4]
end

theorem decC_sound {R : Registry} {dn : String → Dec} (hn : NameSound R dn) {n : String} {c : ContainerFormat}
    (hc : lookup n R = some c) : SoundFor (decC dn c) (fun v => wt R (.typeName n) v = true) := by
  intro bs v rest e
  unfold decC at e
  split at e
  · -- enum
    rename_i variants
    split at e
    · rename_i i r hi
      split at e
      · rename_i vf hvf
        obtain ⟨vs, hvs, rfl⟩ := mapFst_some e
        obtain ⟨h1, h2⟩ := decNat_some hi
        obtain ⟨h3, h4⟩ := decT_sound hn _ _ _ _ hvs
        refine ⟨?_, ?_⟩
        · simp only [enc, List.append_assoc, h3, h1]
        · simp only [wt, hc, hvf, h4, Bool.and_eq_true, decide_eq_true_eq, and_true]
          simpa using h2
      · cases e
    · cases e
  · -- struct kinds
    split at e
    · rename_i fs hfs
      obtain ⟨vs, hvs, rfl⟩ := mapFst_some e
      obtain ⟨h3, h4⟩ := decT_sound hn _ _ _ _ hvs
      refine ⟨by simp only [enc, h3], ?_⟩
      simp only [wt, hc, hfs, h4]
    · cases e

theorem decName_sound (R : Registry) : ∀ fuel, NameSound R (decName R fuel)
  | 0 => by
    intro n bs v rest e
    simp [decName] at e
  | fuel + 1 => by
    intro n bs v rest e
    simp only [decName] at e
    split at e
    · rename_i c hc
      exact decC_sound (decName_sound R fuel) hc _ _ _ e
    · cases e

theorem dec_sound {fuel : Nat} {R : Registry} {f : Format} {bs rest : Bytes} {v : Value}
    (e : dec fuel R f bs = some (v, rest)) : enc v ++ rest = bs ∧ wt R f v = true :=
  decF_sound (decName_sound R fuel) f _ _ _ e

end Lemmas.Bincode
