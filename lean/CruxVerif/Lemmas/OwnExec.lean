/- Ownership through the command executor (host-free command): run_task, finishing a task, spawning, settling. -/
import CruxVerif.Lemmas.OwnDefs
import CruxVerif.Lemmas.Slab
namespace M.Rt

/-- the bound in one formula: at most one reference to an existing leaf, none to a leaf that does not exist -/
def bnd (w : World) (l : Nat) : Nat := if l < w.leaves.length then 1 else 0

theorem Own.bound {cid : Nat} {w : World} (h : Own cid w) (l : Nat) : cmdCnt l (w.cmd cid) ≤ bnd w l := by
  unfold bnd
  split
  · exact h.one l
  · rw [h.rng l (by omega)]; exact Nat.le_refl _

theorem Own.of_bound {cid : Nat} {w : World} (hft : ∀ t ∈ (w.cmd cid).tasks.values, hostFreeB t.fut = true)
    (hfs : ∀ t ∈ (w.cmd cid).spawnQ, hostFreeB t.fut = true) (hb : ∀ l, cmdCnt l (w.cmd cid) ≤ bnd w l) : Own cid w := by
  refine ⟨hft, hfs, ?_, ?_⟩
  · intro l; have := hb l; unfold bnd at this; split at this <;> omega
  · intro l hl; have := hb l; unfold bnd at this; rw [if_neg (by omega)] at this; omega

theorem cmd_modCmd_of_get (w : World) (cid tid : Nat) (t : Task) (f : CmdSt → CmdSt)
    (h : (w.cmd cid).tasks.get? tid = some t) : (w.modCmd cid f).cmd cid = f (w.cmd cid) := by
  rw [World.cmd_modCmd_self]
  simp only [World.cmd] at h ⊢
  cases hc : w.cmds[cid]? with
  | none => simp [hc, Slab.get?] at h
  | some c => simp

/-- the world after a poll, before the executor stores the result: the stale entry of the polled task is still in the slab -/
structure Stale (cid tid : Nat) (t : Task) (X : List Nat) (w' : World) : Prop where
  get : (w'.cmd cid).tasks.get? tid = some t
  hft : ∀ t' ∈ (w'.cmd cid).tasks.values, hostFreeB t'.fut = true
  hfs : ∀ t' ∈ (w'.cmd cid).spawnQ, hostFreeB t'.fut = true
  /-- counting the continuation's references `X` instead of the stale entry's, the bound holds -/
  bound : ∀ l, X.count l + cmdCnt l (w'.cmd cid) ≤ (taskRefs t).count l + bnd w' l

theorem fresh_bnd (w w' : World) (hlen : w.leaves.length ≤ w'.leaves.length) (l n : Nat)
    (h : n ≤ bnd w l) : n + fresh w w' l ≤ bnd w' l := by
  unfold bnd at h ⊢
  unfold fresh
  by_cases a : l < w.leaves.length <;> by_cases b : l < w'.leaves.length <;> by_cases c : w.leaves.length ≤ l <;>
    simp only [a, b, c, and_self, and_true, and_false, if_true, if_false] at h ⊢ <;> omega

/-- one poll of a stored host-free task -/
theorem poll_stale (pn : Waker → Nat → World → Option (NextRes × World)) (f : Nat) (wk : Waker) (cid tid : Nat) (t : Task)
    (w w1 : World) (res : PollRes) (hown : Own cid w) (hg : (w.cmd cid).tasks.get? tid = some t)
    (hp : pollBlock pn f wk (.cmd cid) t.fut w = some (res, w1)) : Stale cid tid t (resRefs res) w1 ∧ hfRes res := by
  have hft : hostFreeB t.fut = true := hown.hft t (Slab.mem_values_of_get _ _ _ hg)
  have hl := pollBlock_lgood pn f wk (.cmd cid) t.fut w res w1 hp hft
  have htk : TK w w1 := pollBlock_tgood pn f _ wk (.cmd cid) t.fut w res w1 hp hft (fun _ _ _ h => h)
  have hT := htk.tasks cid
  refine ⟨⟨by rw [hT]; exact hg, by rw [hT]; exact hown.hft, ?_, ?_⟩, hl.2⟩
  · intro t' hm
    rcases htk.spawn cid t' hm with hm | hm
    · exact hown.hfs t' hm
    · exact hm
  · intro l
    have hle := hl.1.cnt l
    rw [spawnRefs_cnt, spawnRefs_cnt] at hle
    have hb := hown.bound l
    unfold cmdCnt at hb ⊢
    rw [hT]
    have := fresh_bnd w w1 hl.1.len l _ hb
    show (resRefs res).count l + (cnt l (w.cmd cid).tasks.values + cnt l (w1.cmd cid).spawnQ) ≤
      (refsB t.fut).count l + bnd w1 l
    omega

/-- storing the continuation restores ownership -/
theorem Stale.store {cid tid : Nat} {t : Task} {b : Block} {w1 : World} (h : Stale cid tid t (refsB b) w1)
    (hb : hostFreeB b = true) :
    Own cid (w1.modCmd cid fun c => { c with tasks := c.tasks.set tid { t with fut := b } }) := by
  have hc := cmd_modCmd_of_get w1 cid tid t (fun c => { c with tasks := c.tasks.set tid { t with fut := b } }) h.get
  apply Own.of_bound
  · rw [hc]
    intro t' hm
    rcases Slab.mem_values_set _ _ _ _ hm with rfl | hm
    · exact hb
    · exact h.hft t' hm
  · rw [hc]; exact h.hfs
  · intro l
    rw [hc]
    have hs := Slab.sum_set (fun t' => (taskRefs t').count l) (w1.cmd cid).tasks tid t { t with fut := b } h.get
    have hbd := h.bound l
    unfold cmdCnt cnt at hbd ⊢
    have hl : (w1.modCmd cid fun c => { c with tasks := c.tasks.set tid { t with fut := b } }).leaves.length =
        w1.leaves.length := rfl
    have hbn : bnd (w1.modCmd cid fun c => { c with tasks := c.tasks.set tid { t with fut := b } }) l = bnd w1 l := by
      unfold bnd; rw [hl]
    rw [hbn]
    simp only [taskRefs] at hs hbd ⊢
    omega

/-- removing the stale entry of a task that completed restores ownership -/
theorem Stale.remove {cid tid : Nat} {t : Task} {w1 : World} (h : Stale cid tid t [] w1) :
    Own cid (w1.modCmd cid fun c => { c with tasks := (c.tasks.remove tid).2 }) := by
  have hc := cmd_modCmd_of_get w1 cid tid t (fun c => { c with tasks := (c.tasks.remove tid).2 }) h.get
  apply Own.of_bound
  · rw [hc]
    intro t' hm
    exact h.hft t' (Slab.mem_values_remove _ _ _ hm)
  · rw [hc]; exact h.hfs
  · intro l
    rw [hc]
    have hs := Slab.sum_remove (fun t' => (taskRefs t').count l) (w1.cmd cid).tasks tid t h.get
    have hbd := h.bound l
    unfold cmdCnt cnt at hbd ⊢
    have hbn : bnd (w1.modCmd cid fun c => { c with tasks := (c.tasks.remove tid).2 }) l = bnd w1 l := rfl
    rw [hbn]
    simp only [List.count_nil, Nat.zero_add] at hbd
    dsimp only at hs hbd ⊢
    omega

/-- a stored task in a good world is trivially "stale with its own references" -/
theorem Own.stale_self {cid tid : Nat} {t : Task} {w : World} (h : Own cid w) (hg : (w.cmd cid).tasks.get? tid = some t) :
    Stale cid tid t (refsB t.fut) w :=
  ⟨hg, h.hft, h.hfs, fun l => by have := h.bound l; simp only [taskRefs]; omega⟩

theorem Stale.weaken {cid tid : Nat} {t : Task} {X : List Nat} {w : World} (h : Stale cid tid t X w) : Stale cid tid t [] w :=
  ⟨h.get, h.hft, h.hfs, fun l => by have := h.bound l; simp only [List.count_nil, Nat.zero_add]; omega⟩

end M.Rt

namespace M.Rt

theorem Stale.remove' {cid tid : Nat} {t : Task} {w1 : World} (h : Stale cid tid t [] w1) (T : Slab Task)
    (hT : T = ((w1.cmd cid).tasks.remove tid).2) : Own cid (w1.modCmd cid fun c => { c with tasks := T }) := by
  have hc := cmd_modCmd_of_get w1 cid tid t (fun c => { c with tasks := T }) h.get
  have hc2 := cmd_modCmd_of_get w1 cid tid t (fun c => { c with tasks := (c.tasks.remove tid).2 }) h.get
  have hown := h.remove
  have heq : (w1.modCmd cid fun c => { c with tasks := T }).cmd cid =
      (w1.modCmd cid fun c => { c with tasks := (c.tasks.remove tid).2 }).cmd cid := by rw [hc, hc2, hT]
  exact ⟨by rw [heq]; exact hown.hft, by rw [heq]; exact hown.hfs, by intro l; rw [heq]; exact hown.one l,
    by intro l hl; rw [heq]; exact hown.rng l hl⟩

/-- what `run_task` leaves behind -/
def RunPost (cid tid : Nat) (st : TaskState) (w' : World) : Prop :=
  match st with
  | .completed => ∃ t, Stale cid tid t [] w'
  | _ => Own cid w'

theorem runTaskF_own (pn : Waker → Nat → World → Option (NextRes × World)) (f : Nat) (cid tid : Nat) (w : World)
    (st : TaskState) (w' : World) (h : runTaskF (pollBlock pn f) cid tid w = some (st, w')) (hown : Own cid w) :
    RunPost cid tid st w' := by
  unfold runTaskF at h
  split at h
  · simp only [Option.some.injEq, Prod.mk.injEq] at h; obtain ⟨rfl, rfl⟩ := h; exact hown
  · rename_i t hg
    split at h
    · simp only [Option.some.injEq, Prod.mk.injEq] at h; obtain ⟨rfl, rfl⟩ := h
      exact ⟨t, (hown.stale_self hg).weaken⟩
    · dsimp only at h
      have hown0 : Own cid ({ w with nextSerial := w.nextSerial + 1 } : World) := hown.frame (fr_of_cmds rfl rfl rfl)
      split at h
      · cases h
      · rename_i env1 w1 hpoll
        simp only [Option.some.injEq, Prod.mk.injEq] at h
        obtain ⟨rfl, rfl⟩ := h
        have := poll_stale pn f _ cid tid t _ w1 _ hown0 hg hpoll
        exact ⟨t, this.1⟩
      · rename_i b w1 hpoll
        have hps := poll_stale pn f _ cid tid t _ w1 _ hown0 hg hpoll
        have hst := hps.1.store hps.2
        have hfin : ∀ (p : Nat → Bool), Own cid ({ (w1.modCmd cid fun c => { c with tasks := c.tasks.set tid { t with fut := b } })
            with woken := (w1.modCmd cid fun c => { c with tasks := c.tasks.set tid { t with fut := b } }).woken.filter p } : World) :=
          fun p => hst.frame (fr_of_cmds rfl rfl rfl)
        split at h
        · simp only [Option.some.injEq, Prod.mk.injEq] at h; obtain ⟨rfl, rfl⟩ := h; exact hfin _
        · simp only [Option.some.injEq, Prod.mk.injEq] at h; obtain ⟨rfl, rfl⟩ := h; exact hfin _

theorem finishTask_own_stale (cid tid : Nat) (w : World) (t : Task) (h : Stale cid tid t [] w) :
    Own cid (finishTask cid tid w) := by
  unfold finishTask
  simp only
  have hr := (Slab.remove_get (w.cmd cid).tasks tid t h.get).1
  split
  · rename_i heq; rw [heq] at hr; cases hr
  · rename_i t' tasks heq
    rw [heq] at hr
    simp only [Option.some.injEq] at hr
    have hT : tasks = ((w.cmd cid).tasks.remove tid).2 := by rw [heq]
    have h1 := h.remove' tasks hT
    have htf : hostFreeB t'.fut = true := by rw [hr]; exact h.hft t (Slab.mem_values_of_get _ _ _ h.get)
    exact h1.frame (((fr_modMeta cid _ _ _).trans (fr_wakeAll cid _ _)).trans (fr_dropTask cid _ t' htf))

theorem finishTask_own (cid tid : Nat) (w : World) (h : Own cid w) : Own cid (finishTask cid tid w) := by
  cases hg : (w.cmd cid).tasks.get? tid with
  | none =>
    unfold finishTask
    simp only
    rw [Slab.remove_none _ _ hg]
    exact h
  | some t => exact finishTask_own_stale cid tid w t (h.stale_self hg).weaken

end M.Rt

namespace M.Rt

theorem Own.of_cmd_eq {cid : Nat} {w w' : World} (h : Own cid w) (hc : w'.cmd cid = w.cmd cid)
    (hl : w'.leaves.length = w.leaves.length) : Own cid w' :=
  ⟨by rw [hc]; exact h.hft, by rw [hc]; exact h.hfs, by intro l; rw [hc]; exact h.one l,
   by intro l hl'; rw [hc]; exact h.rng l (by rw [← hl]; exact hl')⟩

theorem cmd_modCmd_in (w : World) (cid : Nat) (f : CmdSt → CmdSt) (c : CmdSt) (h : w.cmds[cid]? = some c) :
    (w.modCmd cid f).cmd cid = f (w.cmd cid) ∧ (w.modCmd cid f).cmds[cid]? = some (f c) := by
  constructor
  · rw [World.cmd_modCmd_self]; simp [World.cmd, h]
  · simp [World.modCmd, modifyNth_get_self, h]

theorem cmd_modCmd_out (w : World) (cid : Nat) (f : CmdSt → CmdSt) (h : w.cmds[cid]? = none) :
    (w.modCmd cid f).cmd cid = w.cmd cid := by
  rw [World.cmd_modCmd_self]; simp [World.cmd, h]

theorem cnt_cons (l : Nat) (t : Task) (ts : List Task) : cnt l (t :: ts) = (taskRefs t).count l + cnt l ts := by
  simp [cnt]

/-- the spawn loop: inserting the remaining tasks `rem` one by one -/
theorem spawn_fold (cid : Nat) : ∀ (rem : List Task) (W : World) (c : CmdSt), W.cmds[cid]? = some c →
    (∀ t ∈ (W.cmd cid).tasks.values, hostFreeB t.fut = true) → (∀ t ∈ rem, hostFreeB t.fut = true) →
    (W.cmd cid).spawnQ = [] → (∀ l, cnt l (W.cmd cid).tasks.values + cnt l rem ≤ bnd W l) →
    Own cid (rem.foldl (fun w t => w.modCmd cid fun c =>
      let (tid, tasks) := c.tasks.insert t
      { c with tasks := tasks, ready := c.ready ++ [tid] }) W) := by
  intro rem
  induction rem with
  | nil =>
    intro W c _ hft _ hsq hb
    apply Own.of_bound hft
    · rw [hsq]; intro t ht; cases ht
    · intro l; have := hb l; unfold cmdCnt; rw [hsq]; simpa [cnt] using this
  | cons t rem ih =>
    intro W c hin hft hrem hsq hb
    simp only [List.foldl_cons]
    have hc := cmd_modCmd_in W cid (fun c =>
      let (tid, tasks) := c.tasks.insert t
      { c with tasks := tasks, ready := c.ready ++ [tid] }) c hin
    refine ih _ _ hc.2 ?_ (fun x hx => hrem x (by simp [hx])) ?_ ?_
    · rw [hc.1]
      intro x hx
      rcases Slab.mem_values_insert _ _ _ hx with rfl | hx
      · exact hrem _ (by simp)
      · exact hft x hx
    · rw [hc.1]; exact hsq
    · intro l
      rw [hc.1]
      have h1 := Slab.sum_insert_le (fun t' => (taskRefs t').count l) (W.cmd cid).tasks t
      have h2 := hb l
      rw [cnt_cons] at h2
      show cnt l ((W.cmd cid).tasks.insert t).2.values + cnt l rem ≤ bnd W l
      unfold cnt at h1 h2 ⊢
      omega

theorem spawnNewTasks_own (cid : Nat) (w : World) (h : Own cid w) : Own cid (spawnNewTasks cid w) := by
  unfold spawnNewTasks
  cases hc : w.cmds[cid]? with
  | none =>
    have hsq : (w.cmd cid).spawnQ = [] := by simp [World.cmd, hc]
    rw [hsq]
    simp only [List.foldl_nil]
    exact h.of_cmd_eq (cmd_modCmd_out w cid _ hc) rfl
  | some c =>
    have hm := cmd_modCmd_in w cid (fun c => { c with spawnQ := [] }) c hc
    refine spawn_fold cid _ _ _ hm.2 ?_ h.hfs ?_ ?_
    · rw [hm.1]; exact h.hft
    · rw [hm.1]
    · intro l
      rw [hm.1]
      have := h.bound l
      unfold cmdCnt at this
      exact this

end M.Rt
