/-
Events are applied in the order in which they were enqueued, each exactly once — over whole calls.
`HQ k := k.log ++ k.w.coreEvents` (what has been applied, then what is waiting) only ever grows at its END:
`update` moves the head of the channel to the end of the log (HQ unchanged), emission appends to the channel.
-/
import CruxVerif.Lemmas.GParkCore
namespace M.Rt

/-- the channel only grows at its end -/
def CEA (w w' : World) : Prop := ∃ s, w'.coreEvents = w.coreEvents ++ s

theorem CEA.refl (w : World) : CEA w w := ⟨[], by simp⟩
theorem CEA.trans {w1 w2 w3 : World} (a : CEA w1 w2) (b : CEA w2 w3) : CEA w1 w3 := by
  obtain ⟨s1, h1⟩ := a
  obtain ⟨s2, h2⟩ := b
  exact ⟨s1 ++ s2, by rw [h2, h1, List.append_assoc]⟩
theorem CEA.of_eq {w w' : World} (h : w'.coreEvents = w.coreEvents) : CEA w w' := ⟨[], by simp [h]⟩
theorem ce_of_X {w w' : World} (h : X w' = X w) : w'.coreEvents = w.coreEvents := congrArg (·.2.2) h

section
variable {w0 w : World}
theorem ya_sinkEvent (e : Ev) (h : CEA w0 w) : CEA w0 (w.sinkEvent .core e) := h.trans ⟨[e], rfl⟩
theorem ya_sinkEffect (e : Eff) (h : CEA w0 w) : CEA w0 (w.sinkEffect .core e) := h.trans (CEA.of_eq rfl)
theorem ya_modLeaf (l : Nat) (f : Leaf → Leaf) (h : CEA w0 w) : CEA w0 (w.modLeaf l f) := h.trans (CEA.of_eq rfl)
theorem ya_modMeta (l : Nat) (f : Meta → Meta) (h : CEA w0 w) : CEA w0 (w.modMeta l f) := h.trans (CEA.of_eq rfl)
theorem ya_modCmd (l : Nat) (f : CmdSt → CmdSt) (h : CEA w0 w) : CEA w0 (w.modCmd l f) := h.trans (CEA.of_eq rfl)
theorem ya_newLeaf (k : Option Waker) (lg : Bool) (h : CEA w0 w) : CEA w0 (w.newLeaf k lg).2 := h.trans (CEA.of_eq rfl)
theorem ya_newMeta (h : CEA w0 w) : CEA w0 w.newMeta.2 := h.trans (CEA.of_eq rfl)
theorem ya_dropReceiver (l : Nat) (h : CEA w0 w) : CEA w0 (w.dropReceiver l) := h.trans (CEA.of_eq rfl)
theorem ya_wake (k : Waker) (h : CEA w0 w) : CEA w0 (w.wake k) := h.trans (CEA.of_eq (ce_of_X (X_World_wake w k)))
theorem ya_abortCmd (c : Nat) (h : CEA w0 w) : CEA w0 (w.abortCmd c) := h.trans (CEA.of_eq (ce_of_X (X_abortCmd w c)))
theorem ya_dropBlock (b : Block) (h : CEA w0 w) : CEA w0 (w.dropBlock b) := h.trans (CEA.of_eq (ce_of_X (X_World_dropBlock w b)))
theorem ya_execSpawn (xs : List ExecTask) (h : CEA w0 w) : CEA w0 ({ w with execSpawn := w.execSpawn ++ xs } : World) :=
  h.trans (CEA.of_eq rfl)
end

/-- one poll of ANY legacy block (sink = Core): the event channel only grows at its end -/
def CEGood (pn : Waker → Nat → World → Option (NextRes × World)) (w0 : World) (f : Nat) : Prop :=
  ∀ wk b w r w', pollBlock pn f wk .core b w = some (r, w') → CEA w0 w → CEA w0 w'

theorem cegood_succ (pn) (w0 : World) (f : Nat) (ih : CEGood pn w0 f) : CEGood pn w0 (f + 1) := by
  intro wk b w r w' h hq
  obtain ⟨env, cur, rest⟩ := b
  unfold pollBlock at h
  simp only [addJoinWaker_eq, addSpawn_eq] at h
  unfold CEGood at ih
  grind (gen := 20) (splits := 40) [ya_sinkEvent, ya_sinkEffect, ya_modLeaf, ya_modMeta, ya_modCmd, ya_newLeaf, ya_newMeta,
    ya_dropReceiver, ya_wake, ya_abortCmd, ya_dropBlock, ya_execSpawn]

theorem pollBlock_cegood (pn) (w0 : World) : ∀ f, CEGood pn w0 f
  | 0 => by intro wk b w r w' h; simp [pollBlock] at h
  | f + 1 => cegood_succ pn w0 f (pollBlock_cegood pn w0 f)

end M.Rt
