/-
Events are applied in the order in which they were enqueued, each exactly once — over whole calls.
`HQ k := k.log ++ k.w.coreEvents` (what has been applied, then what is waiting) only ever grows at its END:
`update` moves the head of the channel to the end of the log (HQ unchanged), emission appends to the channel.
-/
import CruxVerif.Lemmas.GParkCore
import CruxVerif.Lemmas.RtCore
namespace M.Rt

/-- the channel only grows at its end -/
def CEA (w w' : World) : Prop := ∃ s, w'.coreEvents = w.coreEvents ++ s

theorem CEA.refl (w : World) : CEA w w := ⟨[], by simp⟩
theorem CEA.trans {w1 w2 w3 : World} (a : CEA w1 w2) (b : CEA w2 w3) : CEA w1 w3 := by
  obtain ⟨s1, h1⟩ := a
  obtain ⟨s2, h2⟩ := b
  exact ⟨s1 ++ s2, by rw [h2, h1, List.append_assoc]⟩
theorem CEA.of_eq {w w' : World} (h : w'.coreEvents = w.coreEvents) : CEA w w' := ⟨[], by simp [h]⟩
theorem ce_of_X {w w' : World} (h : X w' = X w) : w'.coreEvents = w.coreEvents := congrArg (·.2.2) h

section
variable {w0 w : World}
theorem ya_sinkEvent (e : Ev) (h : CEA w0 w) : CEA w0 (w.sinkEvent .core e) := h.trans ⟨[e], rfl⟩
theorem ya_sinkEffect (e : Eff) (h : CEA w0 w) : CEA w0 (w.sinkEffect .core e) := h.trans (CEA.of_eq rfl)
theorem ya_modLeaf (l : Nat) (f : Leaf → Leaf) (h : CEA w0 w) : CEA w0 (w.modLeaf l f) := h.trans (CEA.of_eq rfl)
theorem ya_modMeta (l : Nat) (f : Meta → Meta) (h : CEA w0 w) : CEA w0 (w.modMeta l f) := h.trans (CEA.of_eq rfl)
theorem ya_modCmd (l : Nat) (f : CmdSt → CmdSt) (h : CEA w0 w) : CEA w0 (w.modCmd l f) := h.trans (CEA.of_eq rfl)
theorem ya_newLeaf (k : Option Waker) (lg : Bool) (h : CEA w0 w) : CEA w0 (w.newLeaf k lg).2 := h.trans (CEA.of_eq rfl)
theorem ya_newMeta (h : CEA w0 w) : CEA w0 w.newMeta.2 := h.trans (CEA.of_eq rfl)
theorem ya_dropReceiver (l : Nat) (h : CEA w0 w) : CEA w0 (w.dropReceiver l) := h.trans (CEA.of_eq rfl)
theorem ya_wake (k : Waker) (h : CEA w0 w) : CEA w0 (w.wake k) := h.trans (CEA.of_eq (ce_of_X (X_World_wake w k)))
theorem ya_abortCmd (c : Nat) (h : CEA w0 w) : CEA w0 (w.abortCmd c) := h.trans (CEA.of_eq (ce_of_X (X_abortCmd w c)))
theorem ya_dropBlock (b : Block) (h : CEA w0 w) : CEA w0 (w.dropBlock b) := h.trans (CEA.of_eq (ce_of_X (X_World_dropBlock w b)))
theorem ya_execSpawn (xs : List ExecTask) (h : CEA w0 w) : CEA w0 ({ w with execSpawn := w.execSpawn ++ xs } : World) :=
  h.trans (CEA.of_eq rfl)
end

/-- one poll of ANY legacy block (sink = Core): the event channel only grows at its end -/
def CEGood (pn : Waker → Nat → World → Option (NextRes × World)) (w0 : World) (f : Nat) : Prop :=
  ∀ wk b w r w', pollBlock pn f wk .core b w = some (r, w') → CEA w0 w → CEA w0 w'

theorem cegood_succ (pn) (w0 : World) (f : Nat) (ih : CEGood pn w0 f) : CEGood pn w0 (f + 1) := by
  intro wk b w r w' h hq
  obtain ⟨env, cur, rest⟩ := b
  unfold pollBlock at h
  simp only [addJoinWaker_eq, addSpawn_eq] at h
  unfold CEGood at ih
  grind (gen := 20) (splits := 40) [ya_sinkEvent, ya_sinkEffect, ya_modLeaf, ya_modMeta, ya_modCmd, ya_newLeaf, ya_newMeta,
    ya_dropReceiver, ya_wake, ya_abortCmd, ya_dropBlock, ya_execSpawn]

theorem pollBlock_cegood (pn) (w0 : World) : ∀ f, CEGood pn w0 f
  | 0 => by intro wk b w r w' h; simp [pollBlock] at h
  | f + 1 => cegood_succ pn w0 f (pollBlock_cegood pn w0 f)

end M.Rt

namespace M.Rt

theorem spawnerLoop_cea : ∀ (f etid cid : Nat) (w : World) (d : Bool) (w' : World),
    spawnerLoop f etid cid w = some (d, w') → CEA w w' := by
  intro f
  induction f with
  | zero => intro etid cid w d w' h; simp [spawnerLoop] at h
  | succ f ih =>
    intro etid cid w d w' h
    unfold spawnerLoop at h
    split at h
    · cases h
    · rename_i e w1 hp
      have a : CEA w w1 := CEA.of_eq (ce_of_X (pollNext_x _ _ _ _ _ hp))
      exact (ya_sinkEffect e a).trans (ih _ _ _ _ _ h)
    · rename_i e w1 hp
      have a : CEA w w1 := CEA.of_eq (ce_of_X (pollNext_x _ _ _ _ _ hp))
      exact (ya_sinkEvent e a).trans (ih _ _ _ _ _ h)
    · rename_i w1 hp
      simp only [Option.some.injEq, Prod.mk.injEq] at h
      obtain ⟨_, rfl⟩ := h
      exact (CEA.of_eq (ce_of_X (pollNext_x _ _ _ _ _ hp))).trans (CEA.of_eq (ce_of_X (X_World_dropCmd w1 cid)))
    · rename_i w1 hp
      simp only [Option.some.injEq, Prod.mk.injEq] at h
      obtain ⟨_, rfl⟩ := h
      exact CEA.of_eq (ce_of_X (pollNext_x _ _ _ _ _ hp))

theorem execRunTask_cea (etid : Nat) (k : Core) (st : RunTask) (k' : Core) (h : execRunTask etid k = some (st, k')) :
    CEA k.w k'.w := by
  unfold execRunTask at h
  split at h
  · simp only [Option.some.injEq, Prod.mk.injEq] at h; obtain ⟨_, rfl⟩ := h; exact CEA.refl _
  · split at h
    · cases h
    · rename_i w1 hs
      simp only [Option.some.injEq, Prod.mk.injEq] at h; obtain ⟨_, rfl⟩ := h
      exact spawnerLoop_cea _ _ _ _ _ _ hs
    · rename_i w1 hs
      simp only [Option.some.injEq, Prod.mk.injEq] at h; obtain ⟨_, rfl⟩ := h
      exact spawnerLoop_cea _ _ _ _ _ _ hs
  · rename_i b _
    have common : ∀ (r : PollRes) (w1 : World), pollAt depthFuel (.root etid) .core b k.w = some (r, w1) → CEA k.w w1 := by
      intro r w1 hp
      have hp' : pollBlock (pollNextF (runUntilSettledF (runTaskF (pollAt 63)))) loopFuel (.root etid) .core b k.w = some (r, w1) := hp
      exact pollBlock_cegood _ k.w _ _ _ _ _ _ hp' (CEA.refl _)
    split at h
    · cases h
    · rename_i env1 w1 hp
      simp only [Option.some.injEq, Prod.mk.injEq] at h; obtain ⟨_, rfl⟩ := h
      exact common _ w1 hp
    · rename_i b' w1 hp
      simp only [Option.some.injEq, Prod.mk.injEq] at h; obtain ⟨_, rfl⟩ := h
      exact common _ w1 hp

theorem execDrainSpawn_cea : ∀ (f : Nat) (k : Core) (d : Bool) (k' : Core) (d' : Bool),
    execDrainSpawn f k d = some (k', d') → CEA k.w k'.w := by
  intro f
  induction f with
  | zero => intro k d k' d' h; simp [execDrainSpawn] at h
  | succ f ih =>
    intro k d k' d' h
    unfold execDrainSpawn at h
    split at h
    · simp only [Option.some.injEq, Prod.mk.injEq] at h; obtain ⟨rfl, _⟩ := h; exact CEA.refl _
    · simp only at h
      split at h
      · cases h
      · rename_i st k1 hr
        exact ((CEA.of_eq rfl).trans (execRunTask_cea _ _ _ _ hr)).trans (ih k1 true k' d' h)

theorem execDrainReady_cea : ∀ (f : Nat) (k : Core) (d : Bool) (k' : Core) (d' : Bool),
    execDrainReady f k d = some (k', d') → CEA k.w k'.w := by
  intro f
  induction f with
  | zero => intro k d k' d' h; simp [execDrainReady] at h
  | succ f ih =>
    intro k d k' d' h
    unfold execDrainReady at h
    split at h
    · simp only [Option.some.injEq, Prod.mk.injEq] at h; obtain ⟨rfl, _⟩ := h; exact CEA.refl _
    · split at h
      · cases h
      · rename_i k1 hr
        exact ((CEA.of_eq rfl).trans (execRunTask_cea _ _ _ _ hr)).trans (ih k1 d k' d' h)
      · rename_i st k1 _ hr
        exact ((CEA.of_eq rfl).trans (execRunTask_cea _ _ _ _ hr)).trans (ih k1 true k' d' h)

theorem runAll_cea : ∀ (f : Nat) (k k' : Core), runAll f k = some k' → CEA k.w k'.w := by
  intro f
  induction f with
  | zero => intro k k' h; simp [runAll] at h
  | succ f ih =>
    intro k k' h
    unfold runAll at h
    split at h
    · cases h
    · rename_i k1 d1 h1
      split at h
      · cases h
      · rename_i k2 d2 h2
        have a := (execDrainSpawn_cea _ _ _ _ _ h1).trans (execDrainReady_cea _ _ _ _ _ h2)
        split at h
        · exact a.trans (ih k2 k' h)
        · simp only [Option.some.injEq] at h; subst h; exact a

/-- what has been applied, followed by what is waiting to be applied -/
def HQ (k : Core) : List Ev := k.log ++ k.w.coreEvents

/-- the history only grows at its end -/
def HA (k k' : Core) : Prop := ∃ s, HQ k' = HQ k ++ s

theorem HA.refl (k : Core) : HA k k := ⟨[], by simp⟩
theorem HA.trans {k1 k2 k3 : Core} (a : HA k1 k2) (b : HA k2 k3) : HA k1 k3 := by
  obtain ⟨s1, h1⟩ := a
  obtain ⟨s2, h2⟩ := b
  exact ⟨s1 ++ s2, by rw [h2, h1, List.append_assoc]⟩

theorem HA.of_cea {k k' : Core} (hl : k'.log = k.log) (c : CEA k.w k'.w) : HA k k' := by
  obtain ⟨s, hs⟩ := c
  exact ⟨s, by unfold HQ; rw [hl, hs, List.append_assoc]⟩

theorem runAll_ha (f : Nat) (k k' : Core) (h : runAll f k = some k') : HA k k' :=
  HA.of_cea (runAll_log f k k' h).1 (runAll_cea f k k' h)

theorem update_ce (ev : Ev) (k : Core) : (update ev k).w.coreEvents = k.w.coreEvents := by
  unfold update
  simp only
  split
  · exact (ce_of_X (X_instantiate _ _ _)).trans rfl
  · exact (ce_of_X (X_instantiate _ _ _)).trans rfl

/-- the event loop: the head of the channel moves to the end of the log — the history is unchanged by that — and the tasks
    that run afterwards append -/
theorem processLoop_ha : ∀ (f : Nat) (k k' : Core), processLoop f k = some k' → HA k k' := by
  intro f
  induction f with
  | zero => intro k k' h; simp [processLoop] at h
  | succ f ih =>
    intro k k' h
    unfold processLoop at h
    split at h
    · simp only [Option.some.injEq] at h; subst h; exact HA.refl _
    · rename_i ev rest he
      split at h
      · cases h
      · rename_i k1 hr
        have a : HA k (update ev { k with w := { k.w with coreEvents := rest } }) := by
          refine ⟨[], ?_⟩
          unfold HQ
          rw [update_log, update_ce, he]
          simp
        exact (a.trans (runAll_ha _ _ _ hr)).trans (ih k1 k' h)

theorem process_ha (k : Core) (es : List Eff) (k' : Core) (h : process k = some (es, k')) : HA k k' := by
  unfold process at h
  split at h
  · cases h
  · rename_i k1 h1
    split at h
    · cases h
    · rename_i k2 h2
      simp only [Option.some.injEq, Prod.mk.injEq] at h
      obtain ⟨_, rfl⟩ := h
      exact ((runAll_ha _ _ _ h1).trans (processLoop_ha _ _ _ h2)).trans (HA.of_cea rfl (CEA.of_eq rfl))

/-- a shell event is applied first, ahead of nothing: between calls the channel is empty -/
theorem processEvent_ha (ev : Ev) (k : Core) (es : List Eff) (k' : Core) (h : processEvent ev k = some (es, k'))
    (h0 : k.w.coreEvents = []) : ∃ s, HQ k' = HQ k ++ ev :: s := by
  have a : HQ (update ev k) = HQ k ++ [ev] := by
    unfold HQ
    rw [update_log, update_ce, h0]; simp
  obtain ⟨s, hs⟩ := process_ha _ _ _ h
  exact ⟨s, by rw [hs, a, List.append_assoc]; rfl⟩

end M.Rt

namespace M.Hosts
open M.Rt

theorem process_log_ext (k : Core) (es : List Eff) (k' : Core) (h : process k = some (es, k')) :
    k'.w.coreEvents = [] ∧ ∃ s, k'.log = k.log ++ k.w.coreEvents ++ s := by
  have e := (process_post k k' es h).2.1
  obtain ⟨s, hs⟩ := process_ha k es k' h
  refine ⟨e, s, ?_⟩
  unfold HQ at hs
  rw [e, List.append_nil] at hs
  exact hs

theorem processEvent_log_ext (ev : Ev) (k : Core) (es : List Eff) (k' : Core) (h : processEvent ev k = some (es, k'))
    (h0 : k.w.coreEvents = []) : k'.w.coreEvents = [] ∧ ∃ s, k'.log = k.log ++ ev :: s := by
  have e := (process_post _ k' es h).2.1
  obtain ⟨s, hs⟩ := processEvent_ha ev k es k' h h0
  refine ⟨e, s, ?_⟩
  unfold HQ at hs
  rw [e, h0, List.append_nil, List.append_nil] at hs
  exact hs

theorem CoreHost.afterCall_log (res : String) (effs : List Eff) (oldLen : Nat) (trigger : Option Ev) (h : CoreHost)
    (o : Obs) (h' : CoreHost) (hc : CoreHost.afterCall res effs oldLen trigger h = some (o, h')) (h0 : h.k.w.coreEvents = []) :
    h'.k.w.coreEvents = [] ∧ ∃ s, h'.k.log = h.k.log ++ s := by
  unfold CoreHost.afterCall at hc
  simp only [CoreHost.record] at hc
  cases hp : processEvent ⟨probeTag, 0⟩ h.k with
  | none => simp [hp] at hc
  | some p =>
    obtain ⟨peffs, k⟩ := p
    simp [hp] at hc
    obtain ⟨_, rfl⟩ := hc
    have := processEvent_log_ext _ _ _ _ hp h0
    exact ⟨this.1, by obtain ⟨s, hs⟩ := this.2; exact ⟨_, hs⟩⟩

/-- one step of the Core host from a state with an empty event channel: the channel is empty again, and the log has only
    been extended -/
theorem CoreHost.step_log (h : CoreHost) (a : Action) (o : Obs) (h' : CoreHost) (hs : h.step a = some (o, h'))
    (h0 : h.k.w.coreEvents = []) : h'.k.w.coreEvents = [] ∧ ∃ s, h'.k.log = h.k.log ++ s := by
  unfold CoreHost.step at hs
  simp only at hs
  have ext : ∀ (k : Core), k.w.coreEvents = [] → (∃ s, k.log = h.k.log ++ s) → ∀ res effs oldLen trig (hh : CoreHost),
      hh.k = k → CoreHost.afterCall res effs oldLen trig hh = some (o, h') →
      h'.k.w.coreEvents = [] ∧ ∃ s, h'.k.log = h.k.log ++ s := by
    intro k hk0 hkl res effs oldLen trig hh ek hc
    have := CoreHost.afterCall_log res effs oldLen trig hh o h' hc (by rw [ek]; exact hk0)
    obtain ⟨s1, h1⟩ := hkl
    obtain ⟨s2, h2⟩ := this.2
    exact ⟨this.1, s1 ++ s2, by rw [h2, ek, h1, List.append_assoc]⟩
  cases a with
  | ev tag v =>
    simp only at hs
    cases hp : processEvent ⟨tag, v⟩ h.k with
    | none => simp [hp] at hs
    | some p =>
      obtain ⟨effs, k⟩ := p
      simp [hp] at hs
      have := processEvent_log_ext _ _ _ _ hp h0
      exact ext k this.1 (by obtain ⟨s, e⟩ := this.2; exact ⟨_, e⟩) _ _ _ _ _ rfl hs
  | res kk v =>
    simp only at hs
    split at hs
    · exact ext h.k h0 ⟨[], by simp⟩ _ _ _ _ _ rfl hs
    · rename_i reqs res w1 hr
      have e1 : w1.coreEvents = [] := by
        unfold shellResolve at hr
        split at hr
        · cases hr
        · rename_i e _
          simp only [Option.some.injEq, Prod.mk.injEq] at hr
          obtain ⟨_, _, rfl⟩ := hr
          rw [ce_of_X (X_resolveReq e.res v h.k.w)]; exact h0
      split at hs
      · split at hs
        · cases hs
        · rename_i effs k2 hpr
          have := process_log_ext _ _ _ hpr
          simp only [e1, List.append_nil] at this
          exact ext k2 this.1 this.2 _ _ _ _ _ rfl hs
      · exact ext { h.k with w := w1 } e1 ⟨[], by simp⟩ _ _ _ _ _ rfl hs
  | drop kk =>
    simp only at hs
    split at hs
    · exact ext h.k h0 ⟨[], by simp⟩ _ _ _ _ _ rfl hs
    · rename_i reqs w1 hr
      have e1 : w1.coreEvents = [] := by
        unfold shellDrop at hr
        split at hr
        · cases hr
        · rename_i e _
          simp only [Option.some.injEq, Prod.mk.injEq] at hr
          obtain ⟨_, rfl⟩ := hr
          rw [ce_of_X (X_dropReq e.res h.k.w)]; exact h0
      exact ext { h.k with w := w1 } e1 ⟨[], by simp⟩ _ _ _ _ _ rfl hs
  | abort n =>
    simp only at hs
    exact ext { h.k with w := doAbort n h.k.w } (by show (doAbort n h.k.w).coreEvents = []; rw [ce_of_X (X_doAbort n h.k.w)]; exact h0)
      ⟨[], by simp⟩ _ _ _ _ _ rfl hs
  | poll => exact ext h.k h0 ⟨[], by simp⟩ _ _ _ _ _ rfl hs
  | rawRes _ _ _ => simp at hs
  | rawEv _ _ => simp at hs

/-- between calls the event channel of a Core is empty -/
theorem runCore_channel_empty (prog : Prog) (canon : Bool) (acts : List Action) (os : List Obs) (h : CoreHost)
    (hr : runCore prog canon acts = some (os, h)) : h.k.w.coreEvents = [] := by
  unfold runCore at hr
  exact runSteps_inv CoreHost.step (fun h => h.k.w.coreEvents = []) (fun s a o s' hs hp => (CoreHost.step_log s a o s' hs hp).1)
    acts _ os h hr rfl

end M.Hosts
