/- Channel ownership over whole runs, for EVERY command (any nesting of combinators), direct host. -/
import CruxVerif.Lemmas.GExec
namespace M.Rt

theorem G_append_cmd (l : Nat) (w : World) (x : CmdSt) : G l ({ w with cmds := w.cmds ++ [x] } : World) = G l w + cmdCnt l x := by
  simp [G, List.map_append]

theorem cmdCnt_single (l s : Nat) (env : Env) (is : List Instr) (x : CmdSt)
    (hx : x = { tasks := ((Slab.empty : Slab Task).insert ⟨s, .mk env .idle is⟩).2, ready := [0], abortFlag := s }) :
    cmdCnt l x = 0 := by
  subst hx
  simp [cmdCnt, cnt, Slab.insert, Slab.empty, Slab.values, taskRefs, refsB, refsP]

theorem dec_newCmd (env : Env) (is : List Instr) (w : World) : Dec w (newCmd env is w).2 := by
  unfold newCmd
  simp only
  refine ⟨?_, rfl⟩
  intro l
  rw [G_append_cmd, cmdCnt_single l _ env is _ rfl]
  have : G l w.newMeta.2 = G l w := G_of_cmds rfl
  omega

theorem dec_spawnOn (cid : Nat) (env : Env) (is : List Instr) (w : World) : Dec w (spawnOn cid env is w) := by
  unfold spawnOn
  simp only
  refine ⟨?_, rfl⟩
  intro l
  have := G_spawn l w.newMeta.2 cid ⟨w.newMeta.1, .mk env .idle is⟩
  rw [refs_idle] at this
  have h2 : G l w.newMeta.2 = G l w := G_of_cmds rfl
  simp only [List.count_nil, Nat.add_zero] at this
  omega

mutual
theorem dec_instantiate (env : Env) : (c : Cmd) → (w : World) → Dec w (instantiate env c w).2
  | .done, w => by simp only [instantiate]; exact dec_newCmd env _ w
  | .event _ _, w => by simp only [instantiate]; exact dec_newCmd env _ w
  | .notify _ _, w => by simp only [instantiate]; exact dec_newCmd env _ w
  | .req _ _ _, w => by simp only [instantiate]; exact dec_newCmd env _ w
  | .stream _ _ _, w => by simp only [instantiate]; exact dec_newCmd env _ w
  | .chain _ _ _ _ _, w => by simp only [instantiate]; exact dec_newCmd env _ w
  | .task _, w => by simp only [instantiate]; exact dec_newCmd env _ w
  | .thenC a b, w => by
    simp only [instantiate]
    exact ((dec_instantiate env a w).trans (dec_instantiate env b _)).trans (dec_newCmd env _ _)
  | .andC a b, w => by
    simp only [instantiate]
    refine ((dec_instantiate env b w).trans (dec_instantiate env a _)).trans ?_
    refine Dec.trans (w2 := { (instantiate env a (instantiate env b w).2).2 with aborts := _ }) ?_ (dec_spawnOn _ env _ _)
    exact Dec.of_eq (fun _ => G_of_cmds rfl) rfl
  | .all cs, w => by
    simp only [instantiate]
    refine ((dec_instantiateAll env cs w).trans (dec_newCmd env [] _)).trans ?_
    exact foldl_dec _ (fun W ci => dec_spawnOn _ env _ W) _ _
  | .mapEf _ c, w => by
    simp only [instantiate]
    exact (dec_instantiate env c w).trans (dec_newCmd env _ _)
  | .mapEv _ c, w => by
    simp only [instantiate]
    exact (dec_instantiate env c w).trans (dec_newCmd env _ _)
  | .abortable name c, w => by
    simp only [instantiate]
    exact (dec_instantiate env c w).trans (Dec.of_eq (fun _ => G_of_cmds rfl) rfl)
theorem dec_instantiateAll (env : Env) : (cs : List Cmd) → (w : World) → Dec w (instantiateAll env cs w).2
  | [], w => by simp only [instantiateAll]; exact Dec.refl w
  | c :: cs, w => by
    simp only [instantiateAll]
    exact (dec_instantiate env c w).trans (dec_instantiateAll env cs _)
end

/-- the invariant of whole runs -/
structure GOwn (w : World) : Prop where
  hl : HL w
  bound : ∀ l, G l w ≤ bnd w l

theorem GOwn.step {w w' : World} (h : GOwn w) (hl' : HL w') (g : GLe w [] w' []) : GOwn w' := by
  refine ⟨hl', ?_⟩
  intro l
  have a := g.cnt l
  simp only [List.count_nil, Nat.zero_add] at a
  have b := fresh_bnd w w' g.len l (G l w) (h.bound l)
  omega

theorem GOwn.same {w w' : World} (h : GOwn w) (f : TK0 w w') (hg : ∀ l, G l w' = G l w)
    (hlen : w'.leaves.length = w.leaves.length) : GOwn w' :=
  h.step (h.hl.tk0 f) (GLe.of_same [] hg hlen)

theorem takeEffects_gown (cid : Nat) (w : World) (es : List Eff) (w' : World) (h : takeEffects cid w = some (es, w'))
    (hw : GOwn w) : GOwn w' := by
  unfold takeEffects at h
  split at h
  · cases h
  · rename_i w1 hs
    simp only [Option.some.injEq, Prod.mk.injEq] at h
    obtain ⟨_, rfl⟩ := h
    have k1 := hw.step (runUntilSettled_hl cid w w1 hs hw.hl).1 (runUntilSettled_g cid w w1 hs hw.hl)
    exact k1.same (tk_modCmd w1 cid _ (fun _ => rfl) (fun _ => rfl))
      (fun l => G_modCmd_same l w1 cid _ (fun _ => rfl) (fun _ => rfl)) rfl

theorem takeEvents_gown (cid : Nat) (w : World) (es : List Ev) (w' : World) (h : takeEvents cid w = some (es, w'))
    (hw : GOwn w) : GOwn w' := by
  unfold takeEvents at h
  split at h
  · cases h
  · rename_i w1 hs
    simp only [Option.some.injEq, Prod.mk.injEq] at h
    obtain ⟨_, rfl⟩ := h
    have k1 := hw.step (runUntilSettled_hl cid w w1 hs hw.hl).1 (runUntilSettled_g cid w w1 hs hw.hl)
    exact k1.same (tk_modCmd w1 cid _ (fun _ => rfl) (fun _ => rfl))
      (fun l => G_modCmd_same l w1 cid _ (fun _ => rfl) (fun _ => rfl)) rfl

theorem isDone_gown (cid : Nat) (w : World) (d : Bool) (w' : World) (h : isDone cid w = some (d, w')) (hw : GOwn w) :
    GOwn w' := by
  unfold isDone at h
  split at h
  · cases h
  · rename_i w1 hs
    simp only [Option.some.injEq, Prod.mk.injEq] at h
    obtain ⟨_, rfl⟩ := h
    exact hw.step (runUntilSettled_hl cid w w1 hs hw.hl).1 (runUntilSettled_g cid w w1 hs hw.hl)

theorem len_resolveReq (r : Resolve) (v : Val) (w : World) : (resolveReq r v w).2.2.leaves.length = w.leaves.length :=
  (fr_resolveReq 0 r v w).len
theorem len_dropReq (r : Resolve) (w : World) : (dropReq r w).2.leaves.length = w.leaves.length :=
  (fr_dropReq 0 r w).len

end M.Rt

namespace M.Hosts
open M.Rt

theorem Direct.observe_gown (res : String) (d : Direct) (o : Obs) (d' : Direct) (h : d.observe res = some (o, d'))
    (hw : GOwn d.w) : GOwn d'.w := by
  unfold Direct.observe at h
  cases h1 : takeEffects d.cid d.w with
  | none => simp [h1] at h
  | some p1 =>
    obtain ⟨effs, w1⟩ := p1
    have k1 := takeEffects_gown _ _ _ _ h1 hw
    cases h2 : takeEvents d.cid w1 with
    | none => simp [h1, h2] at h
    | some p2 =>
      obtain ⟨evs, w2⟩ := p2
      have k2 := takeEvents_gown _ _ _ _ h2 k1
      cases h3 : isDone d.cid w2 with
      | none => simp [h1, h2, h3] at h
      | some p3 =>
        obtain ⟨dn, w3⟩ := p3
        have k3 := isDone_gown _ _ _ _ h3 k2
        simp [h1, h2, h3] at h
        obtain ⟨_, rfl⟩ := h
        exact k3

theorem Direct.step_gown (d : Direct) (a : Action) (o : Obs) (d' : Direct) (h : d.step a = some (o, d'))
    (hw : GOwn d.w) : GOwn d'.w := by
  unfold Direct.step at h
  cases a with
  | res k v =>
    simp only at h
    split at h
    · exact Direct.observe_gown _ _ _ _ h hw
    · rename_i reqs res w1 hr
      unfold shellResolve at hr
      split at hr
      · cases hr
      · rename_i e _
        simp only [Option.some.injEq, Prod.mk.injEq] at hr
        obtain ⟨_, _, rfl⟩ := hr
        exact Direct.observe_gown _ _ _ _ h
          (hw.same (tk0_resolveReq e.res v d.w) (fun l => G_resolveReq l e.res v d.w) (len_resolveReq e.res v d.w))
  | drop k =>
    simp only at h
    split at h
    · exact Direct.observe_gown _ _ _ _ h hw
    · rename_i reqs w1 hr
      unfold shellDrop at hr
      split at hr
      · cases hr
      · rename_i e _
        simp only [Option.some.injEq, Prod.mk.injEq] at hr
        obtain ⟨_, rfl⟩ := hr
        exact Direct.observe_gown _ _ _ _ h
          (hw.same (tk0_dropReq e.res d.w) (fun l => G_dropReq l e.res d.w) (len_dropReq e.res d.w))
  | abort n =>
    simp only at h
    refine Direct.observe_gown _ _ _ _ h ?_
    show GOwn (doAbort n d.w)
    unfold doAbort
    split
    · exact hw.same (tk_abortCmd d.w _) (fun l => G_abortCmd l d.w _) (len_abortCmd d.w _)
    · exact hw
  | poll => exact Direct.observe_gown _ _ _ _ h hw
  | ev _ _ => simp at h
  | rawRes _ _ _ => simp at h
  | rawEv _ _ => simp at h

/-- **Every request channel has at most one waiting task — for EVERY command and EVERY history.** For every command built
    from host-free task bodies with ANY nesting of `then`, `and`, `all`, `map_effect`, `map_event`, `abortable`, held directly
    by a test, after every history of resolutions, drops, aborts and polls: summed over ALL commands (the command, everything
    it hosts at any depth, their task slabs and spawn queues) every leaf channel is referenced by at most one suspended or
    queued task, and none references a channel that does not exist. -/
theorem runDirect_gown (c : Cmd) (hc : cmdHF c = true) (canon : Bool) (acts : List Action) (os : List Obs) (d : Direct)
    (h : runDirect c canon acts = some (os, d)) : GOwn d.w := by
  unfold runDirect at h
  have h0 : GOwn (Direct.new c canon).w := by
    show GOwn (instantiate {} c {}).2
    refine ⟨(instantiate_built {} c {} hc HL_empty).hl, ?_⟩
    intro l
    have := (dec_instantiate {} c {}).g l
    have h0 : G l ({} : World) = 0 := rfl
    omega
  cases h1 : (Direct.new c canon).observe "-" with
  | none => simp [h1] at h
  | some p1 =>
    obtain ⟨o, d1⟩ := p1
    have k1 := Direct.observe_gown _ _ _ _ h1 h0
    cases h2 : runSteps Direct.step d1 acts with
    | none => simp [h1, h2] at h
    | some p2 =>
      obtain ⟨os2, d2⟩ := p2
      simp [h1, h2] at h
      obtain ⟨_, rfl⟩ := h
      exact runSteps_inv Direct.step (fun d => GOwn d.w) Direct.step_gown acts d1 os2 _ h2 k1

end M.Hosts
