/-
Frames of a poll of a HOST-FREE block whose sink is the Core (a legacy capability task on the QueuingExecutor):
  * `T`: no command's task slab or spawn queue changes;
  * `XH`: whatever it adds to the executor's spawn queue is a host-free legacy task.
-/
import CruxVerif.Lemmas.XFrame
namespace M.Rt

/-- the task slabs and spawn queues of all commands -/
def T (w : World) : List (Slab Task × List Task) := w.cmds.map fun c => (c.tasks, c.spawnQ)

theorem T_of_cmds {w w' : World} (h : w'.cmds = w.cmds) : T w' = T w := by unfold T; rw [h]

theorem map_modifyNth_same {α β : Type} (g : α → β) (f : α → α) (hf : ∀ a, g (f a) = g a) :
    ∀ (l : List α) (i : Nat), (modifyNth l i f).map g = l.map g
  | [], _ => rfl
  | a :: as, 0 => by simp [modifyNth, hf]
  | a :: as, i + 1 => by simp [modifyNth, map_modifyNth_same g f hf as i]

theorem T_modCmd (w : World) (c : Nat) (f : CmdSt → CmdSt) (hf : ∀ x, (f x).tasks = x.tasks)
    (hs : ∀ x, (f x).spawnQ = x.spawnQ) : T (w.modCmd c f) = T w := by
  unfold T World.modCmd
  exact map_modifyNth_same _ f (fun a => by simp [hf, hs]) w.cmds c

@[simp] theorem T_modLeaf (w : World) (c : Nat) (f : Leaf → Leaf) : T (w.modLeaf c f) = T w := rfl
@[simp] theorem T_modMeta (w : World) (c : Nat) (f : Meta → Meta) : T (w.modMeta c f) = T w := rfl
@[simp] theorem T_newLeaf (w : World) (k : Option Waker) (lg : Bool) : T (w.newLeaf k lg).2 = T w := rfl
@[simp] theorem T_newMeta (w : World) : T w.newMeta.2 = T w := rfl
@[simp] theorem T_sinkEffect (w : World) (e : Eff) : T (w.sinkEffect .core e) = T w := rfl
@[simp] theorem T_sinkEvent (w : World) (e : Ev) : T (w.sinkEvent .core e) = T w := rfl
@[simp] theorem T_dropReceiver (w : World) (l : Nat) : T (w.dropReceiver l) = T w := rfl
@[simp] theorem T_execSpawn (w : World) (l : List ExecTask) : T ({ w with execSpawn := l } : World) = T w := rfl

theorem T_modCmd' {w1 : World} {t : List (Slab Task × List Task)} (c : Nat) (f : CmdSt → CmdSt) (h1 : T w1 = t)
    (hf : ∀ x, (f x).tasks = x.tasks) (hs : ∀ x, (f x).spawnQ = x.spawnQ) : T (w1.modCmd c f) = t :=
  (T_modCmd w1 c f hf hs).trans h1

@[simp] theorem T_woken (w : World) (l : List Nat) : T ({ w with woken := l } : World) = T w := rfl

@[simp] theorem T_wake : ∀ (f : Nat) (wk : Waker) (w : World), T (wake f wk w) = T w := by
  intro f
  induction f with
  | zero => intro wk w; cases wk <;> rfl
  | succ f ih =>
    intro wk w
    cases wk with
    | root e => rfl
    | task c t s =>
      have h0 : T (if (w.cmd c).alive = true then w.modCmd c fun c => { c with ready := c.ready ++ [t] } else w) = T w := by
        split
        · refine T_modCmd' c _ rfl ?_ ?_ <;> (intro _; rfl)
        · rfl
      simp only [wake]
      split
      · rw [T_woken]; exact h0
      · rw [ih]
        refine T_modCmd' c _ ?_ ?_ ?_
        · rw [T_woken]; exact h0
        · intro _; rfl
        · intro _; rfl

@[simp] theorem T_World_wake (w : World) (wk : Waker) : T (w.wake wk) = T w := T_wake _ wk w

@[simp] theorem T_abortCmd (w : World) (c : Nat) : T (w.abortCmd c) = T w := by
  unfold World.abortCmd
  simp only
  split
  · rfl
  · rw [T_World_wake]
    refine T_modCmd' c _ rfl ?_ ?_ <;> (intro _; rfl)

theorem foldl_hostFree (g : World → Instr → World) (hg : ∀ w i, hostFreeI i = true → g w i = w) :
    ∀ (is : List Instr) (w : World), hostFreeIs is = true → is.foldl g w = w := by
  intro is
  induction is with
  | nil => intro w _; rfl
  | cons i is ih =>
    intro w hi
    simp only [hostFreeIs, Bool.and_eq_true] at hi
    simp only [List.foldl_cons]
    rw [hg w i hi.1]; exact ih w hi.2

mutual
theorem cmds_dropBlock (dc : Nat → World → World) : (b : Block) → (w : World) → hostFreeB b = true → (dropBlock dc b w).cmds = w.cmds
  | .mk env cur rest, w, h => by
    simp only [hostFreeB, Bool.and_eq_true] at h
    simp only [dropBlock]
    rw [foldl_hostFree _ (by intro w i hi; cases i <;> simp_all [hostFreeI]) rest _ h.2]
    exact cmds_dropPend dc cur w h.1
theorem cmds_dropPend (dc : Nat → World → World) : (p : Pend) → (w : World) → hostFreeP p = true → (dropPend dc p w).cmds = w.cmds
  | .idle, w, _ => by simp only [dropPend]
  | .reqDead, w, _ => by simp only [dropPend]
  | .await _, w, _ => by simp only [dropPend]
  | .selfwake _, w, _ => by simp only [dropPend]
  | .req _ l, w, _ => by simp only [dropPend]; rfl
  | .streamWait _ l _ _ _, w, _ => by simp only [dropPend]; rfl
  | .streamBody _ l _ _ _ inner, w, h => by
    simp only [hostFreeP, Bool.and_eq_true] at h
    simp only [dropPend]
    exact (cmds_dropBlock dc inner w h.2)
  | .join a b ad bd, w, h => by
    simp only [hostFreeP, Bool.and_eq_true] at h
    simp only [dropPend]
    cases ad <;> cases bd <;> simp only [Bool.false_eq_true, if_false, if_true]
    · rw [cmds_dropBlock dc b _ h.2, cmds_dropBlock dc a w h.1]
    · exact cmds_dropBlock dc a w h.1
    · exact cmds_dropBlock dc b w h.2
  | .select a b, w, h => by
    simp only [hostFreeP, Bool.and_eq_true] at h
    simp only [dropPend]
    rw [cmds_dropBlock dc b _ h.2, cmds_dropBlock dc a w h.1]
  | .host _ _, w, h => by simp [hostFreeP] at h
end

theorem T_World_dropBlock (w : World) (b : Block) (h : hostFreeB b = true) : T (w.dropBlock b) = T w :=
  T_of_cmds (cmds_dropBlock _ b w h)

/-! host-freeness in a form `grind` can use: one unconditional equation per constructor -/
theorem hfB_eq (env : Env) (cur : Pend) (rest : List Instr) : hostFreeB (.mk env cur rest) = (hostFreeP cur && hostFreeIs rest) := by
  simp [hostFreeB]
theorem hfP_idle : hostFreeP .idle = true := by simp [hostFreeP]
theorem hfP_reqDead : hostFreeP .reqDead = true := by simp [hostFreeP]
theorem hfP_req (x l : Nat) : hostFreeP (.req x l) = true := by simp [hostFreeP]
theorem hfP_await (s : Nat) : hostFreeP (.await s) = true := by simp [hostFreeP]
theorem hfP_selfwake (s : Nat) : hostFreeP (.selfwake s) = true := by simp [hostFreeP]
theorem hfP_streamWait (x l c lim : Nat) (body : List Instr) : hostFreeP (.streamWait x l c lim body) = hostFreeIs body := by
  simp [hostFreeP]
theorem hfP_streamBody (x l c lim : Nat) (body : List Instr) (inner : Block) :
    hostFreeP (.streamBody x l c lim body inner) = (hostFreeIs body && hostFreeB inner) := by simp [hostFreeP]
theorem hfP_join (a b : Block) (ad bd : Bool) : hostFreeP (.join a b ad bd) = (hostFreeB a && hostFreeB b) := by simp [hostFreeP]
theorem hfP_select (a b : Block) : hostFreeP (.select a b) = (hostFreeB a && hostFreeB b) := by simp [hostFreeP]
theorem hfP_host (c : Nat) (m : Mapper) : hostFreeP (.host c m) = false := by simp [hostFreeP]
theorem hfIs_nil : hostFreeIs [] = true := by simp [hostFreeIs]
theorem hfIs_cons (i : Instr) (is : List Instr) : hostFreeIs (i :: is) = (hostFreeI i && hostFreeIs is) := by simp [hostFreeIs]
theorem hfI_host (c : Nat) (m : Mapper) : hostFreeI (.host c m) = false := by simp [hostFreeI]
theorem hfI_stream (x n : Nat) (e : Expr) (lim : Nat) (body : List Instr) : hostFreeI (.stream x n e lim body) = hostFreeIs body := by
  simp [hostFreeI]
theorem hfI_spawn (h : Nat) (body : List Instr) : hostFreeI (.spawn h body) = hostFreeIs body := by simp [hostFreeI]
theorem hfI_handoff (x n : Nat) (e : Expr) (body : List Instr) : hostFreeI (.handoff x n e body) = hostFreeIs body := by
  simp [hostFreeI]
theorem hfI_join (a b : List Instr) : hostFreeI (.join a b) = (hostFreeIs a && hostFreeIs b) := by simp [hostFreeI]
theorem hfI_select (a b : List Instr) : hostFreeI (.select a b) = (hostFreeIs a && hostFreeIs b) := by simp [hostFreeI]
theorem hfRes_pending (b : Block) : hfRes (.pending b) = (hostFreeB b = true) := by simp [hfRes]

def TGoodC (pn : Waker → Nat → World → Option (NextRes × World)) (f : Nat) : Prop :=
  ∀ wk b w r w', pollBlock pn f wk .core b w = some (r, w') → hostFreeB b = true → T w' = T w

theorem tgoodc_succ (pn) (f : Nat) (ih : TGoodC pn f) : TGoodC pn (f + 1) := by
  intro wk b w r w' h hf
  obtain ⟨env, cur, rest⟩ := b
  have hres := fun wk b w r w' h hf => (pollBlock_lgood pn f wk .core b w r w' h hf).2
  unfold pollBlock at h
  simp only at h
  unfold TGoodC at ih
  grind [T_modLeaf, T_modMeta, T_newLeaf, T_newMeta, T_sinkEffect, T_sinkEvent, T_dropReceiver, T_execSpawn, T_World_wake,
    T_abortCmd, T_World_dropBlock, hfB_eq, hfP_idle, hfP_reqDead, hfP_req, hfP_await, hfP_selfwake, hfP_streamWait,
    hfP_streamBody, hfP_join, hfP_select, hfP_host, hfIs_nil, hfIs_cons, hfI_host, hfI_stream, hfI_spawn, hfI_handoff,
    hfI_join, hfI_select, hfRes_pending]

theorem pollBlock_tgoodc (pn) : ∀ f, TGoodC pn f
  | 0 => by intro wk b w r w' h; simp [pollBlock] at h
  | f + 1 => tgoodc_succ pn f (pollBlock_tgoodc pn f)

end M.Rt

namespace M.Rt

def execHF : ExecTask → Bool
  | .cmd _ => true
  | .legacy b => hostFreeB b

theorem execHF_legacy (b : Block) : execHF (.legacy b) = hostFreeB b := rfl

/-- whatever is new in the executor's spawn queue is a host-free legacy task -/
def XH (w w' : World) : Prop := ∀ t, t ∈ w'.execSpawn → t ∈ w.execSpawn ∨ execHF t = true

theorem XH.refl (w : World) : XH w w := fun _ h => Or.inl h
theorem XH.trans {w1 w2 w3 : World} (h12 : XH w1 w2) (h23 : XH w2 w3) : XH w1 w3 := by
  intro t ht
  rcases h23 t ht with h | h
  · exact h12 t h
  · exact Or.inr h
theorem XH.of_eq {w w' : World} (h : w'.execSpawn = w.execSpawn) : XH w w' := by
  intro t ht; rw [h] at ht; exact Or.inl ht

theorem es_of_X {w w' : World} (h : X w' = X w) : w'.execSpawn = w.execSpawn := congrArg (·.1) h

theorem es_modLeaf (w : World) (c : Nat) (f : Leaf → Leaf) : (w.modLeaf c f).execSpawn = w.execSpawn := rfl
theorem es_modMeta (w : World) (c : Nat) (f : Meta → Meta) : (w.modMeta c f).execSpawn = w.execSpawn := rfl
theorem es_newLeaf (w : World) (k : Option Waker) (lg : Bool) : (w.newLeaf k lg).2.execSpawn = w.execSpawn := rfl
theorem es_sinkEffect (w : World) (e : Eff) : (w.sinkEffect .core e).execSpawn = w.execSpawn := rfl
theorem es_sinkEvent (w : World) (e : Ev) : (w.sinkEvent .core e).execSpawn = w.execSpawn := rfl
theorem es_dropReceiver (w : World) (l : Nat) : (w.dropReceiver l).execSpawn = w.execSpawn := rfl
theorem es_wake (w : World) (wk : Waker) : (w.wake wk).execSpawn = w.execSpawn := es_of_X (X_World_wake w wk)
theorem es_abortCmd (w : World) (c : Nat) : (w.abortCmd c).execSpawn = w.execSpawn := es_of_X (X_abortCmd w c)
theorem es_dropBlock (w : World) (b : Block) : (w.dropBlock b).execSpawn = w.execSpawn := es_of_X (X_World_dropBlock w b)

theorem mem_es_spawn (l : List ExecTask) (b : Block) (t : ExecTask) (h : t ∈ l ++ [ExecTask.legacy b]) :
    t ∈ l ∨ t = .legacy b := by simpa using h

def XHGood (pn : Waker → Nat → World → Option (NextRes × World)) (f : Nat) : Prop :=
  ∀ wk b w r w', pollBlock pn f wk .core b w = some (r, w') → hostFreeB b = true → XH w w'

theorem xhgood_succ (pn) (f : Nat) (ih : XHGood pn f) : XHGood pn (f + 1) := by
  intro wk b w r w' h hf
  obtain ⟨env, cur, rest⟩ := b
  have hres := fun wk b w r w' h hf => (pollBlock_lgood pn f wk .core b w r w' h hf).2
  unfold pollBlock at h
  simp only at h
  unfold XHGood at ih
  unfold XH at ih ⊢
  intro t ht
  grind [mem_es_spawn, es_modLeaf, es_modMeta, es_newLeaf, es_sinkEffect, es_sinkEvent, es_dropReceiver, es_wake, es_abortCmd,
    es_dropBlock, execHF_legacy, hfB_eq, hfP_idle, hfP_reqDead, hfP_req, hfP_await, hfP_selfwake, hfP_streamWait,
    hfP_streamBody, hfP_join, hfP_select, hfP_host, hfIs_nil, hfIs_cons, hfI_host, hfI_stream, hfI_spawn, hfI_handoff,
    hfI_join, hfI_select, hfRes_pending]

theorem pollBlock_xhgood (pn) : ∀ f, XHGood pn f
  | 0 => by intro wk b w r w' h; simp [pollBlock] at h
  | f + 1 => xhgood_succ pn f (pollBlock_xhgood pn f)

end M.Rt

namespace M.Rt

/-- a host-free legacy task (what a legacy task's own `spawn` may add to the executor's spawn queue) -/
def legacyHF : ExecTask → Bool
  | .cmd _ => false
  | .legacy b => hostFreeB b

theorem legacyHF_legacy (b : Block) : legacyHF (.legacy b) = hostFreeB b := rfl

def XL (w w' : World) : Prop := ∀ t, t ∈ w'.execSpawn → t ∈ w.execSpawn ∨ legacyHF t = true

def XLGood (pn : Waker → Nat → World → Option (NextRes × World)) (f : Nat) : Prop :=
  ∀ wk b w r w', pollBlock pn f wk .core b w = some (r, w') → hostFreeB b = true → XL w w'

theorem xlgood_succ (pn) (f : Nat) (ih : XLGood pn f) : XLGood pn (f + 1) := by
  intro wk b w r w' h hf
  obtain ⟨env, cur, rest⟩ := b
  have hres := fun wk b w r w' h hf => (pollBlock_lgood pn f wk .core b w r w' h hf).2
  unfold pollBlock at h
  simp only at h
  unfold XLGood at ih
  unfold XL at ih ⊢
  intro t ht
  grind [mem_es_spawn, es_modLeaf, es_modMeta, es_newLeaf, es_sinkEffect, es_sinkEvent, es_dropReceiver, es_wake, es_abortCmd,
    es_dropBlock, legacyHF_legacy, hfB_eq, hfP_idle, hfP_reqDead, hfP_req, hfP_await, hfP_selfwake, hfP_streamWait,
    hfP_streamBody, hfP_join, hfP_select, hfP_host, hfIs_nil, hfIs_cons, hfI_host, hfI_stream, hfI_spawn, hfI_handoff,
    hfI_join, hfI_select, hfRes_pending]

theorem pollBlock_xlgood (pn) : ∀ f, XLGood pn f
  | 0 => by intro wk b w r w' h; simp [pollBlock] at h
  | f + 1 => xlgood_succ pn f (pollBlock_xlgood pn f)

end M.Rt
