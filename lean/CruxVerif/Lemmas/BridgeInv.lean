/-
Lifting an invariant of the Core to every state the serialized Bridge reaches: the Bridge is a registry around the same
Core — every path through `BridgeHost.step` is a composition of `process_event`, `process`, a resolve, a sender drop and an
abort on the Core's world.
-/
import CruxVerif.Lemmas.QHosts
namespace M.Hosts
open M.Rt M.Bridge

structure CoreOps (P : Core → Prop) : Prop where
  pe : ∀ ev k es k', M.Rt.processEvent ev k = some (es, k') → P k → P k'
  pr : ∀ k es k', process k = some (es, k') → P k → P k'
  res : ∀ k r v, P k → P { k with w := (resolveReq r v k.w).2.2 }
  ds : ∀ k l, P k → P { k with w := k.w.dropSender l }
  ab : ∀ k n, P k → P { k with w := doAbort n k.w }

variable {P : Core → Prop}

theorem Bridge.processEvent_inv (ops : CoreOps P) (b : Bridge) (d : Option Ev) (r) (b' : Bridge)
    (h : M.Bridge.processEvent b d = some (r, b')) (hp : P b.core) : P b'.core := by
  unfold M.Bridge.processEvent at h
  split at h
  · simp only [Option.some.injEq, Prod.mk.injEq] at h; obtain ⟨_, rfl⟩ := h; exact hp
  · split at h
    · cases h
    · rename_i effs core hpe
      simp only [Option.some.injEq, Prod.mk.injEq] at h; obtain ⟨_, rfl⟩ := h
      exact ops.pe _ _ _ _ hpe hp

theorem resume_inv (ops : CoreOps P) (k : Core) (reg : Slab Resolve) (id : Nat) (d : Option Val) (hp : P k) :
    P { k with w := (resume reg id d k.w).2.2 } := by
  unfold resume
  split
  · exact hp
  · exact hp
  · exact hp
  · split
    · exact ops.ds k _ hp
    · exact ops.res k _ _ hp
  · split
    · exact hp
    · exact ops.res k _ _ hp

theorem handleResponse_inv (ops : CoreOps P) (b : Bridge) (id : Nat) (d : Option Val) (r) (b' : Bridge)
    (h : handleResponse b id d = some (r, b')) (hp : P b.core) : P b'.core := by
  unfold handleResponse at h
  have hr := resume_inv ops b.core b.registry id d hp
  split at h
  · simp only [Option.some.injEq, Prod.mk.injEq] at h; obtain ⟨_, rfl⟩ := h; exact hp
  · rename_i e reg w heq
    simp only [Option.some.injEq, Prod.mk.injEq] at h; obtain ⟨_, rfl⟩ := h
    rw [heq] at hr; exact hr
  · rename_i reg w heq
    rw [heq] at hr
    split at h
    · cases h
    · rename_i effs core hpr
      simp only [Option.some.injEq, Prod.mk.injEq] at h; obtain ⟨_, rfl⟩ := h
      exact ops.pr _ _ _ hpr hr

theorem BridgeHost.record_b (h : BridgeHost) (reqs : List (Nat × Eff)) : (h.record reqs).2.b = h.b := by
  unfold BridgeHost.record
  simp only
  generalize canonOrder h.canon (fun (r : Nat × Eff) => viewOf r.2) reqs = l
  induction l generalizing h with
  | nil => rfl
  | cons x xs ih => simp only [List.foldl_cons]; rw [ih]

theorem BridgeHost.afterCall_inv (ops : CoreOps P) (res : String) (reqs : List (Nat × Eff)) (oldLen : Nat) (trigger : Option Ev)
    (h : BridgeHost) (o : Obs) (h' : BridgeHost) (hc : BridgeHost.afterCall res reqs oldLen trigger h = some (o, h'))
    (hp : P h.b.core) : P h'.b.core := by
  unfold BridgeHost.afterCall at hc
  simp only at hc
  cases hpe : M.Bridge.processEvent (h.record reqs).2.b (some ⟨probeTag, 0⟩) with
  | none => simp [hpe] at hc
  | some p =>
    obtain ⟨r, b⟩ := p
    simp [hpe] at hc
    obtain ⟨_, rfl⟩ := hc
    rw [BridgeHost.record_b]
    exact Bridge.processEvent_inv ops _ _ _ _ hpe (by rw [BridgeHost.record_b]; exact hp)

end M.Hosts

namespace M.Hosts
open M.Rt M.Bridge
variable {P : Core → Prop}

theorem BridgeHost.respond_inv (ops : CoreOps P) (h : BridgeHost) (k : Nat) (d : Option Val) (oldLen : Nat) (o : Obs)
    (h' : BridgeHost) (hc : h.respond k d oldLen = some (o, h')) (hp : P h.b.core) : P h'.b.core := by
  unfold BridgeHost.respond at hc
  split at hc
  · exact BridgeHost.afterCall_inv ops _ _ _ _ _ _ _ hc hp
  · simp only at hc
    split at hc
    · exact BridgeHost.afterCall_inv ops _ _ _ _ _ _ _ hc hp
    · split at hc
      · cases hc
      · rename_i reqs b hr
        exact BridgeHost.afterCall_inv ops _ _ _ _ _ _ _ hc (handleResponse_inv ops _ _ _ _ _ hr hp)
      · rename_i e b hr
        exact BridgeHost.afterCall_inv ops _ _ _ _ _ _ _ hc (handleResponse_inv ops _ _ _ _ _ hr hp)
      · rename_i b hr
        exact BridgeHost.afterCall_inv ops _ _ _ _ _ _ _ hc (handleResponse_inv ops _ _ _ _ _ hr hp)

theorem BridgeHost.event_inv (ops : CoreOps P) (h : BridgeHost) (d : Option Ev) (oldLen : Nat) (trigger : Option Ev) (o : Obs)
    (h' : BridgeHost) (hc : h.event d oldLen trigger = some (o, h')) (hp : P h.b.core) : P h'.b.core := by
  unfold BridgeHost.event at hc
  cases hpe : M.Bridge.processEvent h.b d with
  | none => simp [hpe] at hc
  | some p =>
    obtain ⟨r, b⟩ := p
    simp only [hpe, Option.bind_eq_bind, Option.bind_some] at hc
    have hb := Bridge.processEvent_inv ops _ _ _ _ hpe hp
    split at hc
    · exact BridgeHost.afterCall_inv ops _ _ _ _ _ _ _ hc hb
    · exact BridgeHost.afterCall_inv ops _ _ _ _ _ _ _ hc hb

theorem BridgeHost.step_inv (ops : CoreOps P) (h : BridgeHost) (a : Action) (o : Obs) (h' : BridgeHost)
    (hs : h.step a = some (o, h')) (hp : P h.b.core) : P h'.b.core := by
  unfold BridgeHost.step at hs
  simp only at hs
  cases a with
  | ev tag v => exact BridgeHost.event_inv ops _ _ _ _ _ _ hs hp
  | rawEv bytes dec => exact BridgeHost.event_inv ops _ _ _ _ _ _ hs hp
  | res k v => exact BridgeHost.respond_inv ops _ _ _ _ _ _ hs hp
  | rawRes k bytes dec => exact BridgeHost.respond_inv ops _ _ _ _ _ _ hs hp
  | drop _ => exact BridgeHost.afterCall_inv ops _ _ _ _ _ _ _ hs hp
  | abort n => exact BridgeHost.afterCall_inv ops _ _ _ _ _ _ _ hs (ops.ab _ n hp)
  | poll => exact BridgeHost.afterCall_inv ops _ _ _ _ _ _ _ hs hp

/-- an invariant of the Core that its own operations preserve holds in every state the Bridge reaches -/
theorem runBridge_inv (ops : CoreOps P) (prog : Prog) (h0 : P ({ prog := prog } : Core)) (canon : Bool) (acts : List Action)
    (os : List Obs) (h : BridgeHost) (hr : runBridge prog canon acts = some (os, h)) : P h.b.core := by
  unfold runBridge at hr
  exact runSteps_inv BridgeHost.step (fun h => P h.b.core) (BridgeHost.step_inv ops) acts _ os h hr h0

/-! instances -/

theorem CInv_ops : CoreOps CInv where
  pe := fun ev k es k' h hk => processEvent_c ev k es k' h hk
  pr := fun k es k' h hk => process_c k es k' h hk
  res := fun k r v hk => hk.same _ (tk0_resolveReq r v k.w) (fun l => G_resolveReq l r v k.w) (len_resolveReq r v k.w)
    (es_of_X (X_resolveReq r v k.w))
  ds := fun k l hk => hk.same _ (tk0_dropSender k.w l) (fun x => G_dropSender x k.w l) (len_dropSender k.w l)
    (es_of_X (X_dropSender k.w l))
  ab := fun k n hk => by
    refine hk.same _ ?_ ?_ ?_ (es_of_X (X_doAbort n k.w))
    · unfold doAbort; split
      · exact tk_abortCmd _ _
      · exact TKp.refl _
    · intro l; unfold doAbort; split
      · exact G_abortCmd l _ _
      · rfl
    · unfold doAbort; split
      · exact len_abortCmd _ _
      · rfl

theorem QI_ops : CoreOps (fun k => QI k none) where
  pe := fun ev k es k' h hk => (processEvent_q ev k es k' h hk).1
  pr := fun k es k' h hk => (process_q k es k' h hk).1
  res := fun k r v hk => hk.step_none _ (resolveReq_qs none r v k.w) (es_of_X (X_resolveReq r v k.w))
  ds := fun k l hk => hk.step_none _ (dropSender_qs none k.w l) (es_of_X (X_dropSender k.w l))
  ab := fun k n hk => by
    refine hk.step_none _ ?_ (es_of_X (X_doAbort n k.w))
    unfold doAbort; split
    · exact abortCmd_qs none _ _
    · exact QS.refl _ _

end M.Hosts

namespace M.Hosts
open M.Rt M.Bridge

theorem SOk_ops : CoreOps (fun k => SOk k.w) where
  pe := fun ev k es k' h hk => (processEvent_keeps ev k es k' h hk).1
  pr := fun k es k' h hk => (process_keeps k es k' h hk).1
  res := fun k r v hk => (resolveReq_keeps r v k.w hk).1
  ds := fun k l hk => (Keeps.of_step hk (ns_dropSender k.w l) (SOkN.dropSender hk l)).1
  ab := fun k n hk => (doAbort_keeps n k.w hk).1

/-- freshness of waker serials behind the Bridge -/
theorem runBridge_fresh (prog : Prog) (canon : Bool) (acts : List Action) (os : List Obs) (h : BridgeHost)
    (hr : runBridge prog canon acts = some (os, h)) : SOk h.b.core.w :=
  runBridge_inv SOk_ops prog SOk_empty canon acts os h hr

end M.Hosts
