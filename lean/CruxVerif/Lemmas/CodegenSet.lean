/-
Helper lemmas for C20: invariance of the formatter stage under any change of the edge relation that keeps it the same set.
-/
import CruxVerif.Lemmas.CodegenFilter
namespace Lemmas.Codegen
open M.Codegen S.Codegen

/-! ### invariance under any change of the edge relation that keeps it the same *set* -/

/-- the two lists have the same elements (order and multiplicity may differ) -/
def SameSet {α : Type} (l l' : List α) : Prop := ∀ x, x ∈ l ↔ x ∈ l'

theorem SameSet.refl {α : Type} (l : List α) : SameSet l l := fun _ => Iff.rfl
theorem SameSet.symm {α : Type} {l l' : List α} (h : SameSet l l') : SameSet l' l := fun x => (h x).symm
theorem SameSet.of_perm {α : Type} {l l' : List α} (h : l.Perm l') : SameSet l l' := fun _ => h.mem_iff

theorem SameSet.filter {α : Type} {l l' : List α} (h : SameSet l l') (p : α → Bool) : SameSet (l.filter p) (l'.filter p) := by
  intro x; simp only [List.mem_filter, h x]

theorem SameSet.map {α β : Type} {l l' : List α} (h : SameSet l l') (f : α → β) : SameSet (l.map f) (l'.map f) := by
  intro x; simp only [List.mem_map, h _]

theorem SameSet.filterMap {α β : Type} {l l' : List α} (h : SameSet l l') (f : α → Option β) :
    SameSet (l.filterMap f) (l'.filterMap f) := by
  intro x; simp only [List.mem_filterMap, h _]

theorem SameSet.append {α : Type} {l₁ l₁' l₂ l₂' : List α} (h₁ : SameSet l₁ l₁') (h₂ : SameSet l₂ l₂') :
    SameSet (l₁ ++ l₂) (l₁' ++ l₂') := by
  intro x; simp only [List.mem_append, h₁ x, h₂ x]

theorem SameSet.flatMap {α β : Type} {l l' : List α} (h : SameSet l l') {f g : α → List β} (hfg : ∀ a, SameSet (f a) (g a)) :
    SameSet (l.flatMap f) (l'.flatMap g) := by
  intro x; simp only [List.mem_flatMap, h _, hfg _ x]

theorem SameSet.any {α : Type} {l l' : List α} (h : SameSet l l') (p : α → Bool) : l.any p = l'.any p := by
  apply Bool.eq_iff_iff.mpr
  simp only [List.any_eq_true, h _]

theorem SameSet.isEmpty {α : Type} {l l' : List α} (h : SameSet l l') : l.isEmpty = l'.isEmpty := by
  cases l with
  | nil =>
    cases l' with
    | nil => rfl
    | cons a l' => exact absurd ((h a).mpr (by simp)) (by simp)
  | cons a l =>
    cases l' with
    | nil => exact absurd ((h a).mp (by simp)) (by simp)
    | cons b l' => rfl

theorem find?_sameSet_unique {α : Type} (p : α → Bool) {l l' : List α} (h : SameSet l l')
    (hu : ∀ a ∈ l, ∀ b ∈ l, p a = true → p b = true → a = b) : l.find? p = l'.find? p := by
  cases hl : l.find? p with
  | none =>
    symm
    rw [List.find?_eq_none] at hl ⊢
    intro x hx
    exact hl x ((h x).mpr hx)
  | some a =>
    have ha : a ∈ l := List.mem_of_find?_eq_some hl
    have hpa : p a = true := List.find?_some hl
    cases hl' : l'.find? p with
    | none =>
      rw [List.find?_eq_none] at hl'
      exact absurd hpa (by simpa using hl' a ((h a).mp ha))
    | some b =>
      have hb : b ∈ l := (h b).mpr (List.mem_of_find?_eq_some hl')
      rw [hu a ha b hb hpa (List.find?_some hl')]

theorem orderedFields_sameSet {E E' : Edges} (h : SameSet E E') (hf : Functional E) (x : Node) :
    orderedFields E x = orderedFields E' x := by
  unfold orderedFields
  congr 1
  funext id
  apply find?_sameSet_unique _ ((h.filter _).map _)
  intro a ha b hb pa pb
  simp only [Bool.and_eq_true, beq_iff_eq] at pa pb
  exact hf a b (fieldSet_target ha) (fieldSet_target hb) ((fieldSet_krate ha).trans (fieldSet_krate hb).symm)
    (pa.2.trans pb.2.symm)

theorem orderedVariants_sameSet {E E' : Edges} (h : SameSet E E') (hf : Functional E) (x : Node) :
    orderedVariants E x = orderedVariants E' x := by
  unfold orderedVariants
  congr 1
  funext id
  apply find?_sameSet_unique _ ((h.filter _).map _)
  intro a ha b hb pa pb
  simp only [Bool.and_eq_true, beq_iff_eq] at pa pb
  exact hf a b (variantSet_target ha) (variantSet_target hb) ((variantSet_krate ha).trans (variantSet_krate hb).symm)
    (pa.2.trans pb.2.symm)

theorem containerOf_sameSet {E E' : Edges} (h : SameSet E E') (hf : Functional E) (x : Node) :
    containerOf E x = containerOf E' x := by
  have hF : ∀ y, fmtList E y = fmtList E' y := fun y => by simp only [fmtList, orderedFields_sameSet h hf]
  have hN : ∀ y, namedList E y = namedList E' y := fun y => by simp only [namedList, orderedFields_sameSet h hf]
  have hV : ∀ e v, variantFormat E e v = variantFormat E' e v := fun e v => by simp only [variantFormat, hF, hN]
  have hM : enumMap E x = enumMap E' x := by
    simp only [enumMap, orderedVariants_sameSet h hf]
    congr 1; funext p; rw [hV]
  have hE : (variantSet E x).isEmpty = (variantSet E' x).isEmpty := ((h.filter _).map _).isEmpty
  simp only [containerOf, hF, hN, hM, hE]

theorem containers_sameSet {E E' : Edges} (h : SameSet E E') (hf : Functional E) : SameSet (containers E) (containers E') := by
  unfold containers
  have hc : containerOf E = containerOf E' := funext (containerOf_sameSet h hf)
  rw [hc]
  exact (((h.map _).filterMap _).append (h.filterMap _)).append (SameSet.refl _)

theorem panics_sameSet {E E' : Edges} (h : SameSet E E') : panics E = panics E' := h.any _

theorem lookup_sameSet {r r' : List (String × Container)} (h : SameSet r r') (hc : NoClash r) (n : String) :
    lookup r n = lookup r' n := by
  unfold lookup
  have hrev : SameSet r.reverse r'.reverse := fun x => by simp only [List.mem_reverse, h x]
  cases hl : r.reverse.find? (fun e => e.1 == n) with
  | none =>
    have : r'.reverse.find? (fun e => e.1 == n) = none := by
      rw [List.find?_eq_none] at hl ⊢
      intro x hx; exact hl x ((hrev x).mpr hx)
    rw [this]
  | some a =>
    have ha : a ∈ r := by simpa using List.mem_of_find?_eq_some hl
    have hpa : (a.1 == n) = true := List.find?_some (p := fun (e : String × Container) => e.1 == n) hl
    cases hl' : r'.reverse.find? (fun e => e.1 == n) with
    | none =>
      rw [List.find?_eq_none] at hl'
      exact absurd hpa (hl' a ((hrev a).mp (List.mem_of_find?_eq_some hl)))
    | some b =>
      have hb : b ∈ r := (h b).mpr (by simpa using List.mem_of_find?_eq_some hl')
      have hpb : (b.1 == n) = true := List.find?_some (p := fun (e : String × Container) => e.1 == n) hl'
      simp only [beq_iff_eq] at hpa hpb
      simp [hc a ha b hb (hpa.trans hpb.symm)]

end Lemmas.Codegen
