/-
Well-formedness of stored blocks — a GLOBAL invariant: every leaf id and every join-handle id mentioned by any stored task
of any command exists (`inRangeB`). It is the hypothesis of the parking invariant K2 (C07 `evict_sound`); here it is shown
to hold in every reachable world, for ALL blocks (also those hosting commands), by `grind` over `pollBlock`.
-/
import CruxVerif.Lemmas.QHosts
namespace M.Rt

/-- the two lengths a block's ids are measured against -/
def LL (w : World) : Nat × Nat := (w.leaves.length, w.metas.length)

def LLe (a b : Nat × Nat) : Prop := a.1 ≤ b.1 ∧ a.2 ≤ b.2
theorem LLe.refl (a : Nat × Nat) : LLe a a := ⟨Nat.le_refl _, Nat.le_refl _⟩
theorem LLe.trans {a b c : Nat × Nat} (h1 : LLe a b) (h2 : LLe b c) : LLe a c := ⟨Nat.le_trans h1.1 h2.1, Nat.le_trans h1.2 h2.2⟩

@[simp] theorem LL_modCmd (w : World) (c : Nat) (f : CmdSt → CmdSt) : LL (w.modCmd c f) = LL w := rfl
@[simp] theorem LL_modLeaf (w : World) (c : Nat) (f : Leaf → Leaf) : LL (w.modLeaf c f) = LL w := by
  simp [LL, World.modLeaf, modifyNth_length]
@[simp] theorem LL_modMeta (w : World) (c : Nat) (f : Meta → Meta) : LL (w.modMeta c f) = LL w := by
  simp [LL, World.modMeta, modifyNth_length]
theorem LL_newLeaf (w : World) (k : Option Waker) (lg : Bool) : LL (w.newLeaf k lg).2 = ((LL w).1 + 1, (LL w).2) := by
  simp [LL, World.newLeaf]
theorem newLeaf_fst (w : World) (k : Option Waker) (lg : Bool) : (w.newLeaf k lg).1 = (LL w).1 := rfl
theorem LL_newMeta (w : World) : LL w.newMeta.2 = ((LL w).1, (LL w).2 + 1) := by simp [LL, World.newMeta]
theorem newMeta_fst (w : World) : w.newMeta.1 = (LL w).2 := rfl
@[simp] theorem LL_sinkEffect (w : World) (s : Sink) (e : Eff) : LL (w.sinkEffect s e) = LL w := by cases s <;> rfl
@[simp] theorem LL_sinkEvent (w : World) (s : Sink) (e : Ev) : LL (w.sinkEvent s e) = LL w := by cases s <;> rfl
@[simp] theorem LL_dropReceiver (w : World) (l : Nat) : LL (w.dropReceiver l) = LL w := LL_modLeaf w l _
@[simp] theorem LL_forward (w : World) (c : Nat) (o : Output) : LL (w.forward c o) = LL w := by cases o <;> rfl
@[simp] theorem LL_execSpawn (w : World) (l : List ExecTask) : LL ({ w with execSpawn := l } : World) = LL w := rfl
@[simp] theorem LL_anomaly (w : World) (s : String) : LL (w.anomaly s) = LL w := rfl

@[simp] theorem LL_wake : ∀ (f : Nat) (wk : Waker) (w : World), LL (wake f wk w) = LL w := by
  intro f
  induction f with
  | zero => intro wk w; cases wk <;> rfl
  | succ f ih =>
    intro wk w
    cases wk with
    | root e => rfl
    | task c t s =>
      simp only [wake]
      split
      · split <;> rfl
      · rw [ih]; split <;> rfl

@[simp] theorem LL_World_wake (w : World) (wk : Waker) : LL (w.wake wk) = LL w := LL_wake _ wk w

@[simp] theorem LL_wakeAll (wks : List Waker) : ∀ (w : World), LL (w.wakeAll wks) = LL w := by
  induction wks with
  | nil => intro w; rfl
  | cons k ks ih => intro w; simp only [World.wakeAll, List.foldl_cons] at ih ⊢; rw [ih]; exact LL_World_wake w k

@[simp] theorem LL_abortCmd (w : World) (c : Nat) : LL (w.abortCmd c) = LL w := by
  unfold World.abortCmd
  simp only
  split
  · exact LL_modMeta w _ _
  · rw [LL_World_wake, LL_modCmd]; exact LL_modMeta w _ _

@[simp] theorem LL_dropSender (w : World) (l : Nat) : LL (w.dropSender l) = LL w := by
  unfold World.dropSender
  simp only
  split
  · exact LL_modLeaf w l _
  · split
    · rw [LL_World_wake]; exact LL_modLeaf w l _
    · exact LL_modLeaf w l _

@[simp] theorem LL_dropEff (w : World) (e : Eff) : LL (dropEff w e) = LL w := by
  unfold dropEff
  split <;> simp

theorem LL_foldl {α : Type} (g : World → α → World) (hg : ∀ W a, LL (g W a) = LL W) : ∀ (l : List α) (W : World), LL (l.foldl g W) = LL W
  | [], W => rfl
  | a :: l, W => by simp only [List.foldl_cons]; rw [LL_foldl g hg l, hg]

mutual
theorem LL_dropBlock (dc : Nat → World → World) (hdc : ∀ c w, LL (dc c w) = LL w) : (b : Block) → (w : World) → LL (dropBlock dc b w) = LL w
  | .mk env cur rest, w => by
    simp only [dropBlock]
    rw [LL_foldl _ (fun W i => by cases i <;> simp [hdc])]
    exact LL_dropPend dc hdc cur w
theorem LL_dropPend (dc : Nat → World → World) (hdc : ∀ c w, LL (dc c w) = LL w) : (p : Pend) → (w : World) → LL (dropPend dc p w) = LL w
  | .idle, w => by simp only [dropPend]
  | .reqDead, w => by simp only [dropPend]
  | .await _, w => by simp only [dropPend]
  | .selfwake _, w => by simp only [dropPend]
  | .req _ l, w => by simp only [dropPend, LL_dropReceiver]
  | .streamWait _ l _ _ _, w => by simp only [dropPend, LL_dropReceiver]
  | .streamBody _ l _ _ _ inner, w => by simp only [dropPend, LL_dropReceiver]; exact LL_dropBlock dc hdc inner w
  | .join a b ad bd, w => by
    simp only [dropPend]
    cases ad <;> cases bd <;> simp only [if_true, Bool.false_eq_true, if_false]
    · rw [LL_dropBlock dc hdc b, LL_dropBlock dc hdc a]
    · exact LL_dropBlock dc hdc a w
    · exact LL_dropBlock dc hdc b w
  | .select a b, w => by simp only [dropPend]; rw [LL_dropBlock dc hdc b, LL_dropBlock dc hdc a]
  | .host c _, w => by simp only [dropPend]; exact hdc c w
end

theorem LL_dropTask (dc : Nat → World → World) (hdc : ∀ c w, LL (dc c w) = LL w) (t : Task) (w : World) : LL (dropTask dc t w) = LL w := by
  unfold dropTask
  simp only
  rw [LL_dropBlock dc hdc]; exact LL_modMeta w _ _

@[simp] theorem LL_dropCmdAt : ∀ (f c : Nat) (w : World), LL (dropCmdAt f c w) = LL w := by
  intro f
  induction f with
  | zero => intro c w; rfl
  | succ f ih =>
    intro c w
    simp only [dropCmdAt]
    split
    · rfl
    · rw [LL_foldl _ (fun W t => LL_dropTask _ ih t W), LL_foldl _ (fun W t => LL_dropTask _ ih t W)]
      split
      · rfl
      · rw [LL_anomaly, LL_foldl _ (fun W e => LL_dropEff W e)]; rfl

@[simp] theorem LL_World_dropCmd (w : World) (c : Nat) : LL (w.dropCmd c) = LL w := LL_dropCmdAt _ c w
@[simp] theorem LL_World_dropBlock (w : World) (b : Block) : LL (w.dropBlock b) = LL w := LL_dropBlock _ (fun c w => LL_World_dropCmd w c) b w
@[simp] theorem LL_World_dropTask (w : World) (t : Task) : LL (w.dropTask t) = LL w := LL_dropTask _ (fun c w => LL_World_dropCmd w c) t w

/-- in range w.r.t. a pair of lengths -/
def inR (n : Nat × Nat) (b : Block) : Prop := inRangeB n.1 n.2 b = true

theorem inR.mono {a b : Nat × Nat} (h : LLe a b) {bl : Block} (hb : inR a bl) : inR b bl := inRangeB_mono h.1 h.2 bl hb

/-- every stored task of every command is in range -/
structure WFw (w : World) : Prop where
  t : ∀ c, ∀ t ∈ (w.cmd c).tasks.values, inR (LL w) t.fut
  s : ∀ c, ∀ t ∈ (w.cmd c).spawnQ, inR (LL w) t.fut

end M.Rt

namespace M.Rt

theorem WFw.tk0 {w w' : World} (h : WFw w) (f : TK0 w w') (hl : LLe (LL w) (LL w')) : WFw w' :=
  ⟨fun c t ht => (h.t c t (by rw [← f.tasks c]; exact ht)).mono hl,
   fun c t ht => (f.spawn c t ht).elim (fun hm => (h.s c t hm).mono hl) (fun x => x.elim)⟩

theorem WFw.tk0_eq {w w' : World} (h : WFw w) (f : TK0 w w') (hl : LL w' = LL w) : WFw w' :=
  h.tk0 f (by rw [hl]; exact LLe.refl _)

/-- a change of one command whose stored tasks afterwards are old ones or in range -/
theorem WFw.modCmd_gen {w : World} (h : WFw w) (c : Nat) (g : CmdSt → CmdSt)
    (hgt : ∀ x, ∀ t ∈ (g x).tasks.values, t ∈ x.tasks.values ∨ inR (LL w) t.fut)
    (hgs : ∀ x, ∀ t ∈ (g x).spawnQ, t ∈ x.spawnQ ∨ inR (LL w) t.fut) : WFw (w.modCmd c g) := by
  refine ⟨?_, ?_⟩
  · intro q t ht
    rw [LL_modCmd]
    by_cases e : c = q
    · subst e
      rw [World.cmd_modCmd_self] at ht
      cases hc : w.cmds[c]? with
      | none => simp [hc, Slab.values] at ht
      | some x =>
        simp only [hc] at ht
        rcases hgt x t ht with hm | hm
        · exact h.t c t (by simp only [World.cmd, hc]; exact hm)
        · exact hm
    · rw [World.cmd_modCmd_other w c q _ e] at ht; exact h.t q t ht
  · intro q t ht
    rw [LL_modCmd]
    by_cases e : c = q
    · subst e
      rw [World.cmd_modCmd_self] at ht
      cases hc : w.cmds[c]? with
      | none => simp [hc] at ht
      | some x =>
        simp only [hc] at ht
        rcases hgs x t ht with hm | hm
        · exact h.s c t (by simp only [World.cmd, hc]; exact hm)
        · exact hm
    · rw [World.cmd_modCmd_other w c q _ e] at ht; exact h.s q t ht

/-! dropping -/

theorem WFw_dropEffs : ∀ (l : List Eff) (W : World), WFw W → WFw (l.foldl dropEff W) := by
  intro l
  induction l with
  | nil => intro W h; exact h
  | cons e l ih =>
    intro W h
    simp only [List.foldl_cons]
    refine ih _ (h.tk0_eq ?_ (LL_dropEff W e))
    unfold dropEff
    split
    · exact tk0_dropSender W _
    · exact tk0_dropSender W _
    · exact TKp.refl W

theorem WFw_foldl {α : Type} (g : World → α → World) (hg : ∀ W a, WFw W → WFw (g W a)) : ∀ (l : List α) (W : World), WFw W → WFw (l.foldl g W)
  | [], W, h => h
  | a :: l, W, h => by simp only [List.foldl_cons]; exact WFw_foldl g hg l _ (hg W a h)

mutual
theorem WFw_dropBlock (dc : Nat → World → World) (hdc : ∀ c w, WFw w → WFw (dc c w)) : (b : Block) → (w : World) → WFw w → WFw (dropBlock dc b w)
  | .mk env cur rest, w, h => by
    simp only [dropBlock]
    refine WFw_foldl _ ?_ rest _ (WFw_dropPend dc hdc cur w h)
    intro W i hW
    cases i <;> first | exact hW | exact hdc _ _ hW
theorem WFw_dropPend (dc : Nat → World → World) (hdc : ∀ c w, WFw w → WFw (dc c w)) : (p : Pend) → (w : World) → WFw w → WFw (dropPend dc p w)
  | .idle, w, h => by simp only [dropPend]; exact h
  | .reqDead, w, h => by simp only [dropPend]; exact h
  | .await _, w, h => by simp only [dropPend]; exact h
  | .selfwake _, w, h => by simp only [dropPend]; exact h
  | .req _ l, w, h => by simp only [dropPend]; exact h.tk0_eq (tk_dropReceiver w l) (LL_dropReceiver w l)
  | .streamWait _ l _ _ _, w, h => by simp only [dropPend]; exact h.tk0_eq (tk_dropReceiver w l) (LL_dropReceiver w l)
  | .streamBody _ l _ _ _ inner, w, h => by
    simp only [dropPend]
    exact (WFw_dropBlock dc hdc inner w h).tk0_eq (tk_dropReceiver _ l) (LL_dropReceiver _ l)
  | .join a b ad bd, w, h => by
    simp only [dropPend]
    cases ad <;> cases bd <;> simp only [if_true, Bool.false_eq_true, if_false]
    · exact WFw_dropBlock dc hdc b _ (WFw_dropBlock dc hdc a w h)
    · exact WFw_dropBlock dc hdc a w h
    · exact WFw_dropBlock dc hdc b w h
    · exact h
  | .select a b, w, h => by simp only [dropPend]; exact WFw_dropBlock dc hdc b _ (WFw_dropBlock dc hdc a w h)
  | .host c _, w, h => by simp only [dropPend]; exact hdc c w h
end

theorem WFw_dropTask (dc : Nat → World → World) (hdc : ∀ c w, WFw w → WFw (dc c w)) (t : Task) (w : World) (h : WFw w) :
    WFw (dropTask dc t w) := by
  unfold dropTask
  simp only
  exact WFw_dropBlock dc hdc t.fut _ (h.tk0_eq (tk_of_cmds rfl) (LL_modMeta w _ _))

theorem WFw_dropCmdAt : ∀ (f c : Nat) (w : World), WFw w → WFw (dropCmdAt f c w) := by
  intro f
  induction f with
  | zero => intro c w h; exact h.tk0_eq (tk_of_cmds rfl) rfl
  | succ f ih =>
    intro c w h
    simp only [dropCmdAt]
    split
    · exact h
    · refine WFw_foldl _ (fun W t hW => WFw_dropTask _ ih t W hW) _ _ (WFw_foldl _ (fun W t hW => WFw_dropTask _ ih t W hW) _ _ ?_)
      have h1 : WFw (w.modCmd c fun c => { c with alive := false, effects := [], events := [], spawnQ := [], tasks := {}, ready := [] }) := by
        refine h.modCmd_gen c _ ?_ ?_
        · intro x t ht; simp [Slab.values] at ht
        · intro x t ht; cases ht
      split
      · exact h1
      · exact (WFw_dropEffs _ _ h1).tk0_eq (tk_of_cmds rfl) rfl

theorem WFw_World_dropCmd (w : World) (c : Nat) (h : WFw w) : WFw (w.dropCmd c) := WFw_dropCmdAt _ c w h
theorem WFw_World_dropBlock (w : World) (b : Block) (h : WFw w) : WFw (w.dropBlock b) :=
  WFw_dropBlock _ (fun c w h => WFw_World_dropCmd w c h) b w h
theorem WFw_World_dropTask (w : World) (t : Task) (h : WFw w) : WFw (w.dropTask t) :=
  WFw_dropTask _ (fun c w h => WFw_World_dropCmd w c h) t w h

end M.Rt
