/-
Channel ownership and hosting order under the CORE host (QueuingExecutor + CommandSpawner + legacy capability tasks):
the invariant `CInv` over every reachable state of a Core running an app whose commands have host-free task bodies
and whose legacy capability tasks are host-free.
-/
import CruxVerif.Lemmas.CoreFrame
namespace M.Rt

def ecnt (l : Nat) (ts : List ExecTask) : Nat := (ts.map fun t => (execRefs t).count l).sum

/-- references to leaf `l` held by the executor's tasks and its spawn queue -/
def E (l : Nat) (k : Core) : Nat := ecnt l k.execTasks.values + ecnt l k.w.execSpawn

def progHF (prog : List (Nat × Cmd × List (List Instr))) : Prop :=
  ∀ p ∈ prog, cmdHF p.2.1 = true ∧ ∀ is ∈ p.2.2, hostFreeIs is = true

structure CInv (k : Core) : Prop where
  hl : HL k.w
  th : ∀ t ∈ k.execTasks.values, execHF t = true
  sh : ∀ t ∈ k.w.execSpawn, execHF t = true
  bound : ∀ l, G l k.w + E l k ≤ bnd k.w l
  ph : progHF k.prog

theorem count_spawnRefs_core (l : Nat) (w : World) : (spawnRefs .core w).count l = ecnt l w.execSpawn := by
  unfold spawnRefs ecnt
  simp only
  induction w.execSpawn with
  | nil => rfl
  | cons t ts ih => simp only [List.map_cons, List.flatten_cons, List.count_append, List.sum_cons, ih]

theorem G_of_T {w w' : World} (h : T w' = T w) (l : Nat) : G l w' = G l w := by
  have key : ∀ W : World, G l W = ((T W).map fun p => cnt l p.1.values + cnt l p.2).sum := by
    intro W
    unfold G T
    rw [List.map_map]
    rfl
  rw [key, key, h]

/-- a step that changes only the world, keeps the executor's spawn queue, and is accounted for by `GLe` -/
theorem CInv.world {k : Core} (h : CInv k) (w' : World) (hl' : HL w') (g : GLe k.w [] w' [])
    (hs : w'.execSpawn = k.w.execSpawn) : CInv { k with w := w' } := by
  refine ⟨hl', h.th, by simp only [hs]; exact h.sh, ?_, h.ph⟩
  intro l
  have a := g.cnt l
  simp only [List.count_nil, Nat.zero_add] at a
  have b := fresh_bnd k.w w' g.len l _ (h.bound l)
  unfold E at b ⊢
  simp only [hs]
  omega

theorem CInv.same {k : Core} (h : CInv k) (w' : World) (f : TK0 k.w w') (hg : ∀ l, G l w' = G l k.w)
    (hlen : w'.leaves.length = k.w.leaves.length) (hs : w'.execSpawn = k.w.execSpawn) : CInv { k with w := w' } :=
  h.world w' (h.hl.tk0 f) (GLe.of_same [] hg hlen) hs

theorem pollNext_g : PnG pollNext := pollNextF_g _ runUntilSettled_hl runUntilSettled_g

theorem spawnerLoop_c : ∀ (f etid cid : Nat) (w : World) (d : Bool) (w' : World),
    spawnerLoop f etid cid w = some (d, w') → HL w → HL w' ∧ GLe w [] w' [] ∧ w'.execSpawn = w.execSpawn := by
  intro f
  induction f with
  | zero => intro etid cid w d w' h; simp [spawnerLoop] at h
  | succ f ih =>
    intro etid cid w d w' h hw
    unfold spawnerLoop at h
    split at h
    · cases h
    · rename_i e w1 hp
      have k1 := pollNext_hl _ _ _ _ _ hp hw
      have g1 := pollNext_g _ _ _ _ _ hp hw
      have x1 := es_of_X (pollNext_x _ _ _ _ _ hp)
      have := ih etid cid _ d w' h (k1.1.tk0 (w' := w1.sinkEffect .core e) (tk_of_cmds rfl))
      refine ⟨this.1, (g1.trans (GLe.of_same (w' := w1.sinkEffect .core e) [] (fun _ => G_of_cmds rfl) rfl)).trans this.2.1, ?_⟩
      rw [this.2.2]; exact x1
    · rename_i e w1 hp
      have k1 := pollNext_hl _ _ _ _ _ hp hw
      have g1 := pollNext_g _ _ _ _ _ hp hw
      have x1 := es_of_X (pollNext_x _ _ _ _ _ hp)
      have := ih etid cid _ d w' h (k1.1.tk0 (w' := w1.sinkEvent .core e) (tk_of_cmds rfl))
      refine ⟨this.1, (g1.trans (GLe.of_same (w' := w1.sinkEvent .core e) [] (fun _ => G_of_cmds rfl) rfl)).trans this.2.1, ?_⟩
      rw [this.2.2]; exact x1
    · rename_i w1 hp
      have k1 := pollNext_hl _ _ _ _ _ hp hw
      have g1 := pollNext_g _ _ _ _ _ hp hw
      have x1 := es_of_X (pollNext_x _ _ _ _ _ hp)
      simp only [Option.some.injEq, Prod.mk.injEq] at h
      obtain ⟨_, rfl⟩ := h
      refine ⟨(World_dropCmd_hl w1 cid k1.1).1, g1.trans ((dec_World_dropCmd w1 cid).toGLe []), ?_⟩
      rw [es_of_X (X_World_dropCmd w1 cid)]; exact x1
    · rename_i w1 hp
      have k1 := pollNext_hl _ _ _ _ _ hp hw
      have g1 := pollNext_g _ _ _ _ _ hp hw
      have x1 := es_of_X (pollNext_x _ _ _ _ _ hp)
      simp only [Option.some.injEq, Prod.mk.injEq] at h
      obtain ⟨_, rfl⟩ := h
      exact ⟨k1.1, g1, x1⟩

end M.Rt

namespace M.Rt

theorem pollAt_core (wk : Waker) (b : Block) (w : World) (r : PollRes) (w' : World)
    (h : pollAt depthFuel wk .core b w = some (r, w')) (hf : hostFreeB b = true) :
    TK0 w w' ∧ T w' = T w ∧ Le .core w (refsB b) w' (resRefs r) ∧ XH w w' ∧ hfRes r := by
  have h' : pollBlock (pollNextF (runUntilSettledF (runTaskF (pollAt 63)))) loopFuel wk .core b w = some (r, w') := h
  have l := pollBlock_lgood _ _ _ _ _ _ _ _ h' hf
  exact ⟨pollBlock_tgood _ _ _ _ _ _ _ _ _ h' hf (fun _ _ hc => by cases hc), pollBlock_tgoodc _ _ _ _ _ _ _ h' hf, l.1,
    pollBlock_xhgood _ _ _ _ _ _ _ h' hf, l.2⟩

theorem ecnt_values_remove (l : Nat) (s : Slab ExecTask) (etid : Nat) (t : ExecTask) (h : s.get? etid = some t) :
    ecnt l (s.remove etid).2.values + (execRefs t).count l = ecnt l s.values :=
  Slab.sum_remove (fun t => (execRefs t).count l) s etid t h

theorem ecnt_values_set (l : Nat) (s : Slab ExecTask) (etid : Nat) (t t' : ExecTask) (h : s.get? etid = some t) :
    ecnt l (s.set etid t').values + (execRefs t).count l = ecnt l s.values + (execRefs t').count l :=
  Slab.sum_set (fun t => (execRefs t).count l) s etid t t' h

theorem ecnt_values_insert (l : Nat) (s : Slab ExecTask) (t : ExecTask) :
    ecnt l (s.insert t).2.values ≤ ecnt l s.values + (execRefs t).count l :=
  Slab.sum_insert_le (fun t => (execRefs t).count l) s t

theorem CInv.remove {k : Core} (h : CInv k) (etid : Nat) (t : ExecTask) (hg : k.execTasks.get? etid = some t) :
    CInv { k with execTasks := (k.execTasks.remove etid).2 } := by
  refine ⟨h.hl, fun t ht => h.th t (Slab.mem_values_remove _ _ _ ht), h.sh, ?_, h.ph⟩
  intro l
  have a := ecnt_values_remove l k.execTasks etid t hg
  have b := h.bound l
  unfold E at b ⊢
  simp only
  omega

theorem execRunTask_c (etid : Nat) (k : Core) (st : RunTask) (k' : Core) (h : execRunTask etid k = some (st, k'))
    (hk : CInv k) : CInv k' := by
  unfold execRunTask at h
  split at h
  · simp only [Option.some.injEq, Prod.mk.injEq] at h; obtain ⟨_, rfl⟩ := h; exact hk
  · rename_i cid hg
    split at h
    · cases h
    · rename_i w1 hs
      simp only [Option.some.injEq, Prod.mk.injEq] at h; obtain ⟨_, rfl⟩ := h
      have s := spawnerLoop_c _ _ _ _ _ _ hs hk.hl
      exact (hk.world w1 s.1 s.2.1 s.2.2).remove etid _ hg
    · rename_i w1 hs
      simp only [Option.some.injEq, Prod.mk.injEq] at h; obtain ⟨_, rfl⟩ := h
      have s := spawnerLoop_c _ _ _ _ _ _ hs hk.hl
      exact hk.world w1 s.1 s.2.1 s.2.2
  · rename_i b hg
    have hfb : hostFreeB b = true := hk.th _ (Slab.mem_values_of_get _ _ _ hg)
    split at h
    · cases h
    · rename_i env1 w1 hp
      simp only [Option.some.injEq, Prod.mk.injEq] at h; obtain ⟨_, rfl⟩ := h
      obtain ⟨f1, f2, f3, f4, _⟩ := pollAt_core _ _ _ _ _ hp hfb
      refine ⟨hk.hl.tk0 f1, fun t ht => hk.th t (Slab.mem_values_remove _ _ _ ht), ?_, ?_, hk.ph⟩
      · intro t ht
        rcases f4 t ht with h | h
        · exact hk.sh t h
        · exact h
      · intro l
        have a := ecnt_values_remove l k.execTasks etid _ hg
        have b1 := hk.bound l
        have c := f3.cnt l
        rw [count_spawnRefs_core, count_spawnRefs_core] at c
        have d := fresh_bnd k.w w1 f3.len l _ b1
        unfold E at b1 d ⊢
        simp only [execRefs, resRefs, List.count_nil, G_of_T f2 l] at a c d ⊢
        omega
    · rename_i b' w1 hp
      simp only [Option.some.injEq, Prod.mk.injEq] at h; obtain ⟨_, rfl⟩ := h
      obtain ⟨f1, f2, f3, f4, f5⟩ := pollAt_core _ _ _ _ _ hp hfb
      refine ⟨hk.hl.tk0 f1, ?_, ?_, ?_, hk.ph⟩
      · intro t ht
        rcases Slab.mem_values_set _ _ _ _ ht with rfl | h
        · exact f5
        · exact hk.th t h
      · intro t ht
        rcases f4 t ht with h | h
        · exact hk.sh t h
        · exact h
      · intro l
        have a := ecnt_values_set l k.execTasks etid _ (.legacy b') hg
        have b1 := hk.bound l
        have c := f3.cnt l
        rw [count_spawnRefs_core, count_spawnRefs_core] at c
        have d := fresh_bnd k.w w1 f3.len l _ b1
        unfold E at b1 d ⊢
        simp only [execRefs, resRefs, G_of_T f2 l] at a c d ⊢
        omega

end M.Rt

namespace M.Rt

theorem CInv.of_fields {k k' : Core} (h : CInv k) (hc : k'.w.cmds = k.w.cmds) (hl : k'.w.leaves = k.w.leaves)
    (hs : k'.w.execSpawn = k.w.execSpawn) (ht : k'.execTasks = k.execTasks) (hp : k'.prog = k.prog) : CInv k' := by
  refine ⟨h.hl.tk0 (tk_of_cmds hc), by rw [ht]; exact h.th, by rw [hs]; exact h.sh, ?_, by rw [hp]; exact h.ph⟩
  intro l
  have b := h.bound l
  unfold E bnd at *
  rw [G_of_cmds (w := k.w) hc, hs, ht, hl]
  exact b

theorem execDrainSpawn_c : ∀ (f : Nat) (k : Core) (d : Bool) (k' : Core) (d' : Bool),
    execDrainSpawn f k d = some (k', d') → CInv k → CInv k' := by
  intro f
  induction f with
  | zero => intro k d k' d' h; simp [execDrainSpawn] at h
  | succ f ih =>
    intro k d k' d' h hk
    unfold execDrainSpawn at h
    split at h
    · simp only [Option.some.injEq, Prod.mk.injEq] at h; obtain ⟨rfl, _⟩ := h; exact hk
    · rename_i t rest hsp
      simp only at h
      split at h
      · cases h
      · rename_i st k1 hr
        refine ih k1 true k' d' h (execRunTask_c _ _ _ _ hr ?_)
        have ht : execHF t = true := hk.sh t (by rw [hsp]; simp)
        refine ⟨hk.hl.tk0 (tk_of_cmds rfl), ?_, ?_, ?_, hk.ph⟩
        · intro x hx
          rcases Slab.mem_values_insert _ _ _ hx with rfl | hx
          · exact ht
          · exact hk.th x hx
        · intro x hx
          exact hk.sh x (by rw [hsp]; simp [hx])
        · intro l
          have a := ecnt_values_insert l k.execTasks t
          have b := hk.bound l
          unfold E bnd at *
          rw [hsp] at b
          simp only [ecnt, List.map_cons, List.sum_cons] at a b ⊢
          have : G l ({ k.w with execSpawn := rest } : World) = G l k.w := G_of_cmds rfl
          rw [this]
          omega

theorem execDrainReady_c : ∀ (f : Nat) (k : Core) (d : Bool) (k' : Core) (d' : Bool),
    execDrainReady f k d = some (k', d') → CInv k → CInv k' := by
  intro f
  induction f with
  | zero => intro k d k' d' h; simp [execDrainReady] at h
  | succ f ih =>
    intro k d k' d' h hk
    unfold execDrainReady at h
    split at h
    · simp only [Option.some.injEq, Prod.mk.injEq] at h; obtain ⟨rfl, _⟩ := h; exact hk
    · rename_i etid rest _
      have k0 : CInv { k with w := { k.w with execReady := rest } } := hk.of_fields rfl rfl rfl rfl rfl
      split at h
      · cases h
      · rename_i k1 hr
        exact ih k1 d k' d' h (execRunTask_c _ _ _ _ hr k0)
      · rename_i st k1 _ hr
        exact ih k1 true k' d' h (execRunTask_c _ _ _ _ hr k0)

theorem runAll_c : ∀ (f : Nat) (k k' : Core), runAll f k = some k' → CInv k → CInv k' := by
  intro f
  induction f with
  | zero => intro k k' h; simp [runAll] at h
  | succ f ih =>
    intro k k' h hk
    unfold runAll at h
    split at h
    · cases h
    · rename_i k1 d1 h1
      have s1 := execDrainSpawn_c _ _ _ _ _ h1 hk
      split at h
      · cases h
      · rename_i k2 d2 h2
        have s2 := execDrainReady_c _ _ _ _ _ h2 s1
        split at h
        · exact ih k2 k' h s2
        · simp only [Option.some.injEq] at h; subst h; exact s2

theorem X_newCmd (env : Env) (is : List Instr) (w : World) : X (newCmd env is w).2 = X w := rfl
theorem X_spawnOn (cid : Nat) (env : Env) (is : List Instr) (w : World) : X (spawnOn cid env is w) = X w := rfl

mutual
theorem X_instantiate (env : Env) : (c : Cmd) → (w : World) → X (instantiate env c w).2 = X w
  | .done, w => by simp only [instantiate]; exact X_newCmd env _ w
  | .event _ _, w => by simp only [instantiate]; exact X_newCmd env _ w
  | .notify _ _, w => by simp only [instantiate]; exact X_newCmd env _ w
  | .req _ _ _, w => by simp only [instantiate]; exact X_newCmd env _ w
  | .stream _ _ _, w => by simp only [instantiate]; exact X_newCmd env _ w
  | .chain _ _ _ _ _, w => by simp only [instantiate]; exact X_newCmd env _ w
  | .task _, w => by simp only [instantiate]; exact X_newCmd env _ w
  | .thenC a b, w => by
    simp only [instantiate]
    rw [X_newCmd, X_instantiate env b, X_instantiate env a]
  | .andC a b, w => by
    simp only [instantiate]
    rw [X_spawnOn]
    exact (X_of_fields rfl rfl rfl).trans ((X_instantiate env a _).trans (X_instantiate env b w))
  | .all cs, w => by
    simp only [instantiate]
    rw [X_foldl _ (fun W ci => X_spawnOn _ env _ W), X_newCmd, X_instantiateAll env cs]
  | .mapEf _ c, w => by
    simp only [instantiate]
    rw [X_newCmd, X_instantiate env c]
  | .mapEv _ c, w => by
    simp only [instantiate]
    rw [X_newCmd, X_instantiate env c]
  | .abortable name c, w => by
    simp only [instantiate]
    exact (X_of_fields rfl rfl rfl).trans (X_instantiate env c w)
theorem X_instantiateAll (env : Env) : (cs : List Cmd) → (w : World) → X (instantiateAll env cs w).2 = X w
  | [], w => by simp only [instantiateAll]
  | c :: cs, w => by
    simp only [instantiateAll]
    rw [X_instantiateAll env cs, X_instantiate env c]
end

theorem ecnt_append (l : Nat) (a b : List ExecTask) : ecnt l (a ++ b) = ecnt l a + ecnt l b := by
  simp [ecnt, List.map_append, List.sum_append]

theorem ecnt_idle (l : Nat) (env : Env) (ls : List (List Instr)) :
    ecnt l (ls.map fun is => ExecTask.legacy (.mk env .idle is)) = 0 := by
  induction ls with
  | nil => rfl
  | cons a as ih =>
    simp only [ecnt, List.map_cons, List.sum_cons, execRefs, refs_idle, List.count_nil, Nat.zero_add] at ih ⊢
    exact ih

theorem G_set_execSpawn (l : Nat) (w : World) (xs : List ExecTask) : G l ({ w with execSpawn := xs } : World) = G l w :=
  G_of_cmds rfl

theorem update_body_c (k : Core) (ev : Ev) (env : Env) (cmd : Cmd) (ls : List (List Instr)) (hk : CInv k)
    (hc : cmdHF cmd = true) (hls : ∀ is ∈ ls, hostFreeIs is = true) :
    CInv { k with
      w := { (instantiate env cmd { k.w with execSpawn := k.w.execSpawn ++ ls.map fun is => ExecTask.legacy (.mk env .idle is) }).2 with
        execSpawn := (instantiate env cmd { k.w with execSpawn := k.w.execSpawn ++ ls.map fun is => ExecTask.legacy (.mk env .idle is) }).2.execSpawn ++
          [.cmd (instantiate env cmd { k.w with execSpawn := k.w.execSpawn ++ ls.map fun is => ExecTask.legacy (.mk env .idle is) }).1] },
      log := k.log ++ [ev] } := by
  generalize hw0 : ({ k.w with execSpawn := k.w.execSpawn ++ ls.map fun is => ExecTask.legacy (.mk env .idle is) } : World) = w0
  have hl0 : HL w0 := by subst hw0; exact hk.hl.tk0 (tk_of_cmds rfl)
  have bi := instantiate_built env cmd w0 hc hl0
  have di := dec_instantiate env cmd w0
  have xi := es_of_X (X_instantiate env cmd w0)
  have hes : w0.execSpawn = k.w.execSpawn ++ ls.map fun is => ExecTask.legacy (.mk env .idle is) := by subst hw0; rfl
  have hle : w0.leaves = k.w.leaves := by subst hw0; rfl
  have hg0 : ∀ l, G l w0 = G l k.w := by intro l; subst hw0; exact G_of_cmds rfl
  refine ⟨bi.hl.tk0 (tk_of_cmds rfl), hk.th, ?_, ?_, hk.ph⟩
  · intro t ht
    simp only [List.mem_append, List.mem_singleton] at ht
    rcases ht with ht | rfl
    · rw [xi, hes] at ht
      simp only [List.mem_append, List.mem_map] at ht
      rcases ht with ht | ⟨is, his, rfl⟩
      · exact hk.sh t ht
      · simp [execHF, hostFreeB, hostFreeP, hls is his]
    · rfl
  · intro l
    have b := hk.bound l
    have d := di.g l
    have dl := di.len
    unfold E bnd at *
    simp only [xi, hes, ecnt_append, ecnt_idle, dl, hle, G_set_execSpawn]
    rw [hg0] at d
    have : ecnt l [ExecTask.cmd (instantiate env cmd w0).1] = 0 := by simp [ecnt, execRefs]
    omega

theorem update_c (ev : Ev) (k : Core) (hk : CInv k) : CInv (update ev k) := by
  unfold update
  simp only
  split
  · rename_i tag c ls hf
    have hm := List.mem_of_find?_eq_some hf
    have := hk.ph _ hm
    exact update_body_c k ev _ c ls hk this.1 this.2
  · exact update_body_c k ev _ .done [] hk rfl (by intro _ h; cases h)

theorem processLoop_c : ∀ (f : Nat) (k k' : Core), processLoop f k = some k' → CInv k → CInv k' := by
  intro f
  induction f with
  | zero => intro k k' h; simp [processLoop] at h
  | succ f ih =>
    intro k k' h hk
    unfold processLoop at h
    split at h
    · simp only [Option.some.injEq] at h; subst h; exact hk
    · rename_i ev rest _
      split at h
      · cases h
      · rename_i k1 hr
        have k0 : CInv { k with w := { k.w with coreEvents := rest } } := hk.of_fields rfl rfl rfl rfl rfl
        exact ih k1 k' h (runAll_c _ _ _ hr (update_c ev _ k0))

theorem process_c (k : Core) (es : List Eff) (k' : Core) (h : process k = some (es, k')) (hk : CInv k) : CInv k' := by
  unfold process at h
  split at h
  · cases h
  · rename_i k1 h1
    split at h
    · cases h
    · rename_i k2 h2
      simp only [Option.some.injEq, Prod.mk.injEq] at h
      obtain ⟨_, rfl⟩ := h
      exact (processLoop_c _ _ _ h2 (runAll_c _ _ _ h1 hk)).of_fields rfl rfl rfl rfl rfl

theorem processEvent_c (ev : Ev) (k : Core) (es : List Eff) (k' : Core) (h : processEvent ev k = some (es, k'))
    (hk : CInv k) : CInv k' := process_c _ _ _ h (update_c ev k hk)

end M.Rt
