/- In-range-ness over whole runs of the direct host of ANY command. -/
import CruxVerif.Lemmas.RExec
namespace M.Rt

theorem newCmd_w (env : Env) (is : List Instr) (w : World) (hw : WFw w) (he : envOk (LL w).2 env = true) :
    WFw (newCmd env is w).2 ∧ LL (newCmd env is w).2 = ((LL w).1, (LL w).2 + 1) := by
  unfold newCmd
  simp only
  refine ⟨⟨?_, ?_⟩, by simp [LL, World.newMeta]⟩
  · intro c t ht
    have hll : LL ({ w.newMeta.2 with cmds := w.newMeta.2.cmds ++ [freshCmd env w.newMeta.1 is] } : World) = ((LL w).1, (LL w).2 + 1) := by
      simp [LL, World.newMeta]
    show inR (LL ({ w.newMeta.2 with cmds := w.newMeta.2.cmds ++ [freshCmd env w.newMeta.1 is] } : World)) t.fut
    rw [hll]
    have hcmds : w.newMeta.2.cmds = w.cmds := rfl
    simp only [World.cmd, hcmds] at ht
    by_cases hc : c < w.cmds.length
    · rw [cmd_append_lt _ _ _ hc] at ht
      exact inR.mono (a := LL w) (b := ((LL w).1, (LL w).2 + 1)) ⟨Nat.le_refl _, Nat.le_succ _⟩ (hw.t c t ht)
    · by_cases e : c = w.cmds.length
      · subst e
        simp only [List.getElem?_concat_length, Option.getD_some, freshCmd, Slab.insert, Slab.empty, Slab.values, List.nil_append,
          List.filterMap_cons, id, List.filterMap_nil, List.mem_singleton] at ht
        subst ht
        show inRangeB _ _ _ = true
        simp only [inRangeB, inRangeP, Bool.and_true]
        exact envOk_mono (Nat.le_succ _) env he
      · rw [List.getElem?_eq_none (by simp; omega)] at ht
        simp [Slab.values] at ht
  · intro c t ht
    have hll : LL ({ w.newMeta.2 with cmds := w.newMeta.2.cmds ++ [freshCmd env w.newMeta.1 is] } : World) = ((LL w).1, (LL w).2 + 1) := by
      simp [LL, World.newMeta]
    show inR (LL ({ w.newMeta.2 with cmds := w.newMeta.2.cmds ++ [freshCmd env w.newMeta.1 is] } : World)) t.fut
    rw [hll]
    have hcmds : w.newMeta.2.cmds = w.cmds := rfl
    simp only [World.cmd, hcmds] at ht
    by_cases hc : c < w.cmds.length
    · rw [cmd_append_lt _ _ _ hc] at ht
      exact inR.mono (a := LL w) (b := ((LL w).1, (LL w).2 + 1)) ⟨Nat.le_refl _, Nat.le_succ _⟩ (hw.s c t ht)
    · by_cases e : c = w.cmds.length
      · subst e
        simp [freshCmd] at ht
      · rw [List.getElem?_eq_none (by simp; omega)] at ht
        simp at ht

end M.Rt

namespace M.Rt

/-- what building does: in-range-ness kept, no leaf added, metas only grow -/
structure BW (w w' : World) : Prop where
  wf : WFw w'
  l : (LL w').1 = (LL w).1
  m : (LL w).2 ≤ (LL w').2

theorem BW.trans {w1 w2 w3 : World} (a : BW w1 w2) (b : BW w2 w3) : BW w1 w3 := ⟨b.wf, b.l.trans a.l, Nat.le_trans a.m b.m⟩

theorem newCmd_bw (env : Env) (is : List Instr) (w : World) (hw : WFw w) (he : envOk (LL w).2 env = true) : BW w (newCmd env is w).2 := by
  have := newCmd_w env is w hw he
  exact ⟨this.1, by rw [this.2], by rw [this.2]; exact Nat.le_succ _⟩

theorem spawnOn_bw (cid : Nat) (env : Env) (is : List Instr) (w : World) (hw : WFw w) (he : envOk (LL w).2 env = true) :
    BW w (spawnOn cid env is w) := by
  unfold spawnOn
  simp only
  have h1 : WFw w.newMeta.2 := yw_newMeta hw
  refine ⟨?_, by rw [LL_modCmd, LL_newMeta], by rw [LL_modCmd, LL_newMeta]; exact Nat.le_succ _⟩
  refine h1.modCmd_gen cid _ ?_ ?_
  · intro x t ht; exact Or.inl ht
  · intro x t ht
    simp only [List.mem_append, List.mem_singleton] at ht
    rcases ht with ht | rfl
    · exact Or.inl ht
    · refine Or.inr ?_
      show inRangeB _ _ _ = true
      rw [LL_newMeta]
      simp only [inRangeB, inRangeP, Bool.and_true]
      exact envOk_mono (Nat.le_succ _) env he

theorem BW.of_same {w w' : World} (hw : WFw w) (hc : w'.cmds = w.cmds) (hl : LL w' = LL w) : BW w w' :=
  ⟨hw.same hc hl, by rw [hl], by rw [hl]; exact Nat.le_refl _⟩

mutual
theorem instantiate_bw (env : Env) : (c : Cmd) → (w : World) → WFw w → envOk (LL w).2 env = true → BW w (instantiate env c w).2
  | .done, w, hw, he => by simp only [instantiate]; exact newCmd_bw env _ w hw he
  | .event _ _, w, hw, he => by simp only [instantiate]; exact newCmd_bw env _ w hw he
  | .notify _ _, w, hw, he => by simp only [instantiate]; exact newCmd_bw env _ w hw he
  | .req _ _ _, w, hw, he => by simp only [instantiate]; exact newCmd_bw env _ w hw he
  | .stream _ _ _, w, hw, he => by simp only [instantiate]; exact newCmd_bw env _ w hw he
  | .chain _ _ _ _ _, w, hw, he => by simp only [instantiate]; exact newCmd_bw env _ w hw he
  | .task _, w, hw, he => by simp only [instantiate]; exact newCmd_bw env _ w hw he
  | .thenC a b, w, hw, he => by
    simp only [instantiate]
    have h1 := instantiate_bw env a w hw he
    have h2 := instantiate_bw env b _ h1.wf (envOk_mono h1.m env he)
    exact (h1.trans h2).trans (newCmd_bw env _ _ h2.wf (envOk_mono (Nat.le_trans h1.m h2.m) env he))
  | .andC a b, w, hw, he => by
    simp only [instantiate]
    have h1 := instantiate_bw env b w hw he
    have h2 := instantiate_bw env a _ h1.wf (envOk_mono h1.m env he)
    generalize hW : ({ (instantiate env a (instantiate env b w).2).2 with
      aborts := (instantiate env a (instantiate env b w).2).2.aborts.take w.aborts.length ++
        (instantiate env a (instantiate env b w).2).2.aborts.drop (instantiate env b w).2.aborts.length ++
        ((instantiate env a (instantiate env b w).2).2.aborts.drop w.aborts.length).take ((instantiate env b w).2.aborts.length - w.aborts.length) } : World) = W
    have h3 : BW (instantiate env a (instantiate env b w).2).2 W := by subst hW; exact BW.of_same h2.wf rfl rfl
    refine ((h1.trans h2).trans h3).trans (spawnOn_bw _ env _ W h3.wf ?_)
    exact envOk_mono (Nat.le_trans (Nat.le_trans h1.m h2.m) h3.m) env he
  | .all cs, w, hw, he => by
    simp only [instantiate]
    have h1 := instantiateAll_bw env cs w hw he
    have h2 := newCmd_bw env [] _ h1.wf (envOk_mono h1.m env he)
    refine (h1.trans h2).trans ?_
    generalize (newCmd env [] (instantiateAll env cs w).2).1 = c0 at *
    have fold : ∀ (l : List Nat) (W : World), WFw W → envOk (LL W).2 env = true →
        BW W (l.foldl (fun w ci => spawnOn c0 env [.host ci .id] w) W) := by
      intro l
      induction l with
      | nil => intro W hW _; exact BW.of_same hW rfl rfl
      | cons ci l ih =>
        intro W hW heW
        simp only [List.foldl_cons]
        have s := spawnOn_bw c0 env [.host ci .id] W hW heW
        exact s.trans (ih _ s.wf (envOk_mono s.m env heW))
    exact fold _ _ h2.wf (envOk_mono (Nat.le_trans h1.m h2.m) env he)
  | .mapEf _ c, w, hw, he => by
    simp only [instantiate]
    have h1 := instantiate_bw env c w hw he
    exact h1.trans (newCmd_bw env _ _ h1.wf (envOk_mono h1.m env he))
  | .mapEv _ c, w, hw, he => by
    simp only [instantiate]
    have h1 := instantiate_bw env c w hw he
    exact h1.trans (newCmd_bw env _ _ h1.wf (envOk_mono h1.m env he))
  | .abortable name c, w, hw, he => by
    simp only [instantiate]
    have h1 := instantiate_bw env c w hw he
    exact h1.trans (BW.of_same h1.wf rfl rfl)
theorem instantiateAll_bw (env : Env) : (cs : List Cmd) → (w : World) → WFw w → envOk (LL w).2 env = true → BW w (instantiateAll env cs w).2
  | [], w, hw, _ => by simp only [instantiateAll]; exact BW.of_same hw rfl rfl
  | c :: cs, w, hw, he => by
    simp only [instantiateAll]
    have h1 := instantiate_bw env c w hw he
    exact h1.trans (instantiateAll_bw env cs _ h1.wf (envOk_mono h1.m env he))
end

end M.Rt

namespace M.Rt

theorem LL_resolveReq (r : Resolve) (v : Val) (w : World) : LL (resolveReq r v w).2.2 = LL w := by
  unfold resolveReq
  split
  · rfl
  · rfl
  · simp only
    split
    · rw [LL_dropSender]
      split
      · rw [LL_World_wake]; exact LL_modLeaf w _ _
      · exact LL_modLeaf w _ _
    · exact LL_dropSender w _
  · simp only
    split
    · split
      · rw [LL_World_wake]; exact LL_modLeaf w _ _
      · exact LL_modLeaf w _ _
    · rfl

theorem LL_dropReq (r : Resolve) (w : World) : LL (dropReq r w).2 = LL w := by
  unfold dropReq
  split
  · exact LL_dropSender w _
  · exact LL_dropSender w _
  · rfl
  · rfl

theorem WFw_empty : WFw ({} : World) :=
  ⟨fun c t ht => by simp [World.cmd, Slab.values] at ht, fun c t ht => by simp [World.cmd] at ht⟩

theorem takeEffects_w (cid : Nat) (w : World) (es : List Eff) (w' : World) (h : takeEffects cid w = some (es, w')) (hw : WFw w) :
    WFw w' := by
  unfold takeEffects at h
  split at h
  · cases h
  · rename_i w1 hs
    simp only [Option.some.injEq, Prod.mk.injEq] at h
    obtain ⟨_, rfl⟩ := h
    exact (runUntilSettled_w cid w w1 hs hw).1.modCmd_gen cid _ (fun _ _ h => Or.inl h) (fun _ _ h => Or.inl h)

theorem takeEvents_w (cid : Nat) (w : World) (es : List Ev) (w' : World) (h : takeEvents cid w = some (es, w')) (hw : WFw w) :
    WFw w' := by
  unfold takeEvents at h
  split at h
  · cases h
  · rename_i w1 hs
    simp only [Option.some.injEq, Prod.mk.injEq] at h
    obtain ⟨_, rfl⟩ := h
    exact (runUntilSettled_w cid w w1 hs hw).1.modCmd_gen cid _ (fun _ _ h => Or.inl h) (fun _ _ h => Or.inl h)

theorem isDone_w (cid : Nat) (w : World) (d : Bool) (w' : World) (h : isDone cid w = some (d, w')) (hw : WFw w) : WFw w' := by
  unfold isDone at h
  split at h
  · cases h
  · rename_i w1 hs
    simp only [Option.some.injEq, Prod.mk.injEq] at h
    obtain ⟨_, rfl⟩ := h
    exact (runUntilSettled_w cid w w1 hs hw).1

end M.Rt

namespace M.Hosts
open M.Rt

theorem Direct.observe_w (res : String) (d : Direct) (o : Obs) (d' : Direct) (h : d.observe res = some (o, d'))
    (hw : WFw d.w) : WFw d'.w := by
  unfold Direct.observe at h
  cases h1 : takeEffects d.cid d.w with
  | none => simp [h1] at h
  | some p1 =>
    obtain ⟨effs, w1⟩ := p1
    have k1 := takeEffects_w _ _ _ _ h1 hw
    cases h2 : takeEvents d.cid w1 with
    | none => simp [h1, h2] at h
    | some p2 =>
      obtain ⟨evs, w2⟩ := p2
      have k2 := takeEvents_w _ _ _ _ h2 k1
      cases h3 : isDone d.cid w2 with
      | none => simp [h1, h2, h3] at h
      | some p3 =>
        obtain ⟨dn, w3⟩ := p3
        have k3 := isDone_w _ _ _ _ h3 k2
        simp [h1, h2, h3] at h
        obtain ⟨_, rfl⟩ := h
        exact k3

theorem Direct.step_w (d : Direct) (a : Action) (o : Obs) (d' : Direct) (h : d.step a = some (o, d'))
    (hw : WFw d.w) : WFw d'.w := by
  unfold Direct.step at h
  cases a with
  | res k v =>
    simp only at h
    split at h
    · exact Direct.observe_w _ _ _ _ h hw
    · rename_i reqs res w1 hr
      unfold shellResolve at hr
      split at hr
      · cases hr
      · rename_i e _
        simp only [Option.some.injEq, Prod.mk.injEq] at hr
        obtain ⟨_, _, rfl⟩ := hr
        exact Direct.observe_w _ _ _ _ h (hw.tk0_eq (tk0_resolveReq e.res v d.w) (LL_resolveReq e.res v d.w))
  | drop k =>
    simp only at h
    split at h
    · exact Direct.observe_w _ _ _ _ h hw
    · rename_i reqs w1 hr
      unfold shellDrop at hr
      split at hr
      · cases hr
      · rename_i e _
        simp only [Option.some.injEq, Prod.mk.injEq] at hr
        obtain ⟨_, rfl⟩ := hr
        exact Direct.observe_w _ _ _ _ h (hw.tk0_eq (tk0_dropReq e.res d.w) (LL_dropReq e.res d.w))
  | abort n =>
    simp only at h
    refine Direct.observe_w _ _ _ _ h ?_
    show WFw (doAbort n d.w)
    unfold doAbort
    split
    · exact yw_abortCmd _ hw
    · exact hw
  | poll => exact Direct.observe_w _ _ _ _ h hw
  | ev _ _ => simp at h
  | rawRes _ _ _ => simp at h
  | rawEv _ _ => simp at h

/-- **Every stored block is well-formed in every reachable world.** For ANY command (any nesting of combinators, any task
    bodies) held directly by a test, after every history of resolutions, drops, aborts and polls: every leaf id and every
    join-handle id mentioned by any stored or queued task of any command exists. -/
theorem runDirect_wf (c : Cmd) (canon : Bool) (acts : List Action) (os : List Obs) (d : Direct)
    (h : runDirect c canon acts = some (os, d)) : WFw d.w := by
  unfold runDirect at h
  have h0 : WFw (Direct.new c canon).w := by
    show WFw (instantiate {} c {}).2
    exact (instantiate_bw {} c {} WFw_empty rfl).wf
  cases h1 : (Direct.new c canon).observe "-" with
  | none => simp [h1] at h
  | some p1 =>
    obtain ⟨o, d1⟩ := p1
    have k1 := Direct.observe_w _ _ _ _ h1 h0
    cases h2 : runSteps Direct.step d1 acts with
    | none => simp [h1, h2] at h
    | some p2 =>
      obtain ⟨os2, d2⟩ := p2
      simp [h1, h2] at h
      obtain ⟨_, rfl⟩ := h
      exact runSteps_inv Direct.step (fun d => WFw d.w) Direct.step_w acts d1 os2 _ h2 k1

end M.Hosts
