/-
Global ownership of request channels: the measure `G l w` = number of references to leaf `l` held by ALL stored tasks of
ALL commands (task slabs and spawn queues), the relation `GLe` (as `Le`, RefsDefs, with the global measure), and the
operations that do not change the measure.
-/
import CruxVerif.Lemmas.OwnExec
import CruxVerif.Lemmas.HostLtRun
namespace M.Rt

def G (l : Nat) (w : World) : Nat := (w.cmds.map (cmdCnt l)).sum

theorem cmdCnt_default (l : Nat) : cmdCnt l ({} : CmdSt) = 0 := rfl

theorem sum_modifyNth (g : CmdSt → Nat) (hd : g {} = 0) (f : CmdSt → CmdSt) : ∀ (L : List CmdSt) (i : Nat),
    ((modifyNth L i f).map g).sum + g (L[i]?.getD {}) = (L.map g).sum + g ((modifyNth L i f)[i]?.getD {})
  | [], i => by simp [modifyNth]
  | x :: L, 0 => by simp [modifyNth]; omega
  | x :: L, i + 1 => by
    have := sum_modifyNth g hd f L i
    simp only [modifyNth, List.map_cons, List.sum_cons, List.getElem?_cons_succ]
    omega

/-- changing command `c`: the measure changes by exactly the change of `c`'s own count (in or out of range) -/
theorem G_modCmd (l : Nat) (w : World) (c : Nat) (f : CmdSt → CmdSt) :
    G l (w.modCmd c f) + cmdCnt l (w.cmd c) = G l w + cmdCnt l ((w.modCmd c f).cmd c) :=
  sum_modifyNth (cmdCnt l) (cmdCnt_default l) f w.cmds c

theorem G_of_cmds {l : Nat} {w w' : World} (h : w'.cmds = w.cmds) : G l w' = G l w := by unfold G; rw [h]

/-- a change of `c` that keeps its slab and spawn queue -/
theorem G_modCmd_same (l : Nat) (w : World) (c : Nat) (f : CmdSt → CmdSt) (hf : ∀ x, (f x).tasks = x.tasks)
    (hs : ∀ x, (f x).spawnQ = x.spawnQ) : G l (w.modCmd c f) = G l w := by
  have h := G_modCmd l w c f
  have : cmdCnt l ((w.modCmd c f).cmd c) = cmdCnt l (w.cmd c) := by
    rw [World.cmd_modCmd_self]
    simp only [World.cmd]
    cases w.cmds[c]? with
    | none => rfl
    | some x => simp [cmdCnt, hf, hs]
  omega

theorem G_sinkEvent (l : Nat) (w : World) (s : Sink) (e : Ev) : G l (w.sinkEvent s e) = G l w := by
  cases s with
  | cmd c => exact G_modCmd_same l w c _ (fun _ => rfl) (fun _ => rfl)
  | core => exact G_of_cmds rfl

theorem G_sinkEffect (l : Nat) (w : World) (s : Sink) (e : Eff) : G l (w.sinkEffect s e) = G l w := by
  cases s with
  | cmd c => exact G_modCmd_same l w c _ (fun _ => rfl) (fun _ => rfl)
  | core => exact G_of_cmds rfl

theorem G_modCmd_same' (l : Nat) (w : World) (c : Nat) (f : CmdSt → CmdSt) (hf : ∀ x, (f x).tasks = x.tasks)
    (hs : ∀ x, (f x).spawnQ = x.spawnQ) {R : Nat} (h : G l w = R) : G l (w.modCmd c f) = R :=
  (G_modCmd_same l w c f hf hs).trans h

theorem G_woken' (l : Nat) (W : World) (x : List Nat) {R : Nat} (h : G l W = R) : G l ({ W with woken := x } : World) = R :=
  (G_of_cmds rfl).trans h

theorem G_wake (l : Nat) : ∀ (f : Nat) (k : Waker) (w : World), G l (wake f k w) = G l w := by
  intro f
  induction f with
  | zero => intro k w; cases k <;> exact G_of_cmds rfl
  | succ f ih =>
    intro k w
    cases k with
    | root e => exact G_of_cmds rfl
    | task cid tid serial =>
      unfold wake
      simp only
      split
      · split
        · refine G_woken' l _ _ ?_
          refine G_modCmd_same' l w cid _ ?_ ?_ rfl <;> (intro _; rfl)
        · exact G_woken' l _ _ rfl
      · rename_i pw _
        rw [ih pw]
        split
        · refine G_modCmd_same' l _ cid _ ?_ ?_ ?_
          · intro _; rfl
          · intro _; rfl
          · refine G_woken' l _ _ ?_
            refine G_modCmd_same' l w cid _ ?_ ?_ rfl <;> (intro _; rfl)
        · refine G_modCmd_same' l _ cid _ ?_ ?_ ?_
          · intro _; rfl
          · intro _; rfl
          · exact G_woken' l _ _ rfl

theorem G_World_wake (l : Nat) (w : World) (k : Waker) : G l (w.wake k) = G l w := G_wake l _ k w

theorem G_wakeAll (l : Nat) : ∀ (ks : List Waker) (w : World), G l (w.wakeAll ks) = G l w
  | [], _ => rfl
  | k :: ks, w => by
    simp only [World.wakeAll, List.foldl_cons]
    exact (G_wakeAll l ks (w.wake k)).trans (G_World_wake l w k)

theorem G_dropSender (l : Nat) (w : World) (x : Nat) : G l (w.dropSender x) = G l w := by
  unfold World.dropSender
  simp only
  split
  · exact G_of_cmds rfl
  · split
    · rw [G_World_wake]; exact G_of_cmds rfl
    · exact G_of_cmds rfl

theorem G_abortCmd (l : Nat) (w : World) (c : Nat) : G l (w.abortCmd c) = G l w := by
  unfold World.abortCmd
  simp only
  split
  · exact G_of_cmds rfl
  · rw [G_World_wake]
    refine G_modCmd_same' l _ c _ ?_ ?_ (G_of_cmds rfl) <;> (intro _; rfl)

theorem G_resolveReq (l : Nat) (r : Resolve) (v : Val) (w : World) : G l (resolveReq r v w).2.2 = G l w := by
  unfold resolveReq
  cases r with
  | never => rfl
  | gone => rfl
  | once x =>
    simp only
    split
    · split
      · rw [G_dropSender, G_World_wake]; exact G_of_cmds rfl
      · rw [G_dropSender]; exact G_of_cmds rfl
    · exact G_dropSender l w x
  | many x =>
    simp only
    split
    · split
      · rw [G_World_wake]; exact G_of_cmds rfl
      · exact G_of_cmds rfl
    · rfl

theorem G_dropReq (l : Nat) (r : Resolve) (w : World) : G l (dropReq r w).2 = G l w := by
  unfold dropReq
  split
  · exact G_dropSender l w _
  · exact G_dropSender l w _
  · rfl
  · rfl

/-! the relation -/

structure GLe (w : World) (X : List Nat) (w' : World) (X' : List Nat) : Prop where
  len : w.leaves.length ≤ w'.leaves.length
  cnt : ∀ l, X'.count l + G l w' ≤ X.count l + G l w + fresh w w' l

theorem GLe.refl (w : World) (X : List Nat) : GLe w X w X := ⟨Nat.le_refl _, fun l => Nat.le_add_right _ _⟩

theorem GLe.trans {w1 w2 w3 : World} {X1 X2 X3 : List Nat} (h12 : GLe w1 X1 w2 X2) (h23 : GLe w2 X2 w3 X3) :
    GLe w1 X1 w3 X3 := by
  refine ⟨Nat.le_trans h12.len h23.len, ?_⟩
  intro l
  have a := h12.cnt l
  have b := h23.cnt l
  have c := fresh_add w1 w2 w3 h12.len h23.len l
  omega

theorem GLe.frame {w w' : World} {X X' : List Nat} (h : GLe w X w' X') (Y Z : List Nat) :
    GLe w (Y ++ X ++ Z) w' (Y ++ X' ++ Z) := by
  refine ⟨h.len, ?_⟩
  intro l
  have := h.cnt l
  simp only [List.count_append]
  omega

theorem GLe.drop {w w' : World} {X X' X'' : List Nat} (h : GLe w X w' X') (hs : ∀ l, X''.count l ≤ X'.count l) :
    GLe w X w' X'' := by
  refine ⟨h.len, ?_⟩
  intro l
  have := h.cnt l
  have := hs l
  omega

/-- the measure and the number of leaves unchanged -/
theorem GLe.of_same {w w' : World} (X : List Nat) (hg : ∀ l, G l w' = G l w) (hl : w'.leaves.length = w.leaves.length) :
    GLe w X w' X := by
  refine ⟨by rw [hl]; exact Nat.le_refl _, ?_⟩
  intro l; rw [hg l]; exact Nat.le_add_right _ _

theorem GLe.same_drop {w w' : World} (X : List Nat) (hg : ∀ l, G l w' = G l w) (hl : w'.leaves.length = w.leaves.length) :
    GLe w X w' [] := (GLe.of_same X hg hl).drop (fun l => by simp)

/-- the measure only shrinks, the leaves stay -/
theorem GLe.of_le {w w' : World} (X : List Nat) (hg : ∀ l, G l w' ≤ G l w) (hl : w'.leaves.length = w.leaves.length) :
    GLe w X w' X := by
  refine ⟨by rw [hl]; exact Nat.le_refl _, ?_⟩
  intro l; have := hg l; omega

end M.Rt
