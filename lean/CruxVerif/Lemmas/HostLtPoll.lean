/- One poll of ANY block of command `p` (hosting blocks included) stays within `PT p` and keeps `HL`. -/
import CruxVerif.Lemmas.HostLtDrop
namespace M.Rt

def PnT (pn : Waker → Nat → World → Option (NextRes × World)) : Prop :=
  ∀ wk c w r w', pn wk c w = some (r, w') → HL w → HL w' ∧ RT c w w'

def hostsLtRes (p : Nat) : PollRes → Prop
  | .pending b' => hostsLtB p b' = true
  | .ready _ => True

def HGood (pn : Waker → Nat → World → Option (NextRes × World)) (f : Nat) : Prop :=
  ∀ wk p b w r w', pollBlock pn f wk (.cmd p) b w = some (r, w') → HL w → hostsLtB p b = true →
    HL w' ∧ hostsLtRes p r ∧ PT p w w'

abbrev NewP (p : Nat) : Nat → Task → Prop := fun q t => q = p ∧ hostsLtB p t.fut = true

theorem hgood_zero (pn) : HGood pn 0 := by
  intro wk p b w r w' h; simp [pollBlock] at h

theorem HGood.via {pn f} (ih : HGood pn f) {wk : Waker} {p : Nat} {b : Block} {w w1 : World} {r : PollRes} {w' : World}
    (hw1 : HL w1) (pt : PT p w w1) (hb : hostsLtB p b = true) (h : pollBlock pn f wk (.cmd p) b w1 = some (r, w')) :
    HL w' ∧ hostsLtRes p r ∧ PT p w w' := by
  have := ih wk p b w1 r w' h hw1 hb
  exact ⟨this.1, this.2.1, pt.trans this.2.2⟩

/-- a frame step of the poll -/
theorem HGood.tk {pn f} (ih : HGood pn f) {wk : Waker} {p : Nat} {b : Block} {w w1 : World} {r : PollRes} {w' : World}
    (hw : HL w) (f1 : TKp (NewP p) w w1) (hb : hostsLtB p b = true) (h : pollBlock pn f wk (.cmd p) b w1 = some (r, w')) :
    HL w' ∧ hostsLtRes p r ∧ PT p w w' :=
  ih.via (hw.tk f1 (fun q t hn => by rw [hn.1]; exact hn.2)) (f1.toPT (fun _ _ hn => hn)) hb h

theorem done_tk {p : Nat} {w w1 : World} (hw : HL w) (f1 : TKp (NewP p) w w1) : HL w1 ∧ PT p w w1 :=
  ⟨hw.tk f1 (fun q t hn => by rw [hn.1]; exact hn.2), f1.toPT (fun _ _ hn => hn)⟩

theorem hostLoop_hl (pn) (hpn : PnT pn) : ∀ (f : Nat) (wk : Waker) (me c : Nat) (m : Mapper) (w : World) (d : Bool)
    (w' : World), hostLoop pn f wk me c m w = some (d, w') → c < me → HL w → HL w' ∧ PT me w w' := by
  intro f
  induction f with
  | zero => intro wk me c m w d w' h; simp [hostLoop] at h
  | succ f ih =>
    intro wk me c m w d w' h hc hw
    unfold hostLoop at h
    cases hp : pn wk c w with
    | none => simp [hp] at h
    | some res =>
      obtain ⟨nr, w1⟩ := res
      have hk := hpn wk c w nr w1 hp hw
      cases nr with
      | item o =>
        simp only [hp] at h
        have f1 : TKp (NewP me) w1 (w1.forward me (applyMapper m o)) := by
          cases (applyMapper m o) with
          | effect e => exact tk_modCmd w1 me _ (fun _ => rfl) (fun _ => rfl)
          | event e => exact tk_modCmd w1 me _ (fun _ => rfl) (fun _ => rfl)
        have d1 := done_tk hk.1 f1
        have := ih wk me c m _ d w' h hc d1.1
        exact ⟨this.1, ((hk.2.toPT hc).trans d1.2).trans this.2⟩
      | finished =>
        simp only [hp, Option.some.injEq, Prod.mk.injEq] at h
        obtain ⟨_, rfl⟩ := h
        exact ⟨hk.1, hk.2.toPT hc⟩
      | pending =>
        simp only [hp, Option.some.injEq, Prod.mk.injEq] at h
        obtain ⟨_, rfl⟩ := h
        exact ⟨hk.1, hk.2.toPT hc⟩

theorem hgood_succ (pn) (hpn : PnT pn) (f : Nat) (ih : HGood pn f) : HGood pn (f + 1) := by
  intro wk p b w r w' h hw hb
  obtain ⟨env, cur, rest⟩ := b
  unfold pollBlock at h
  simp only at h
  simp only [hostsLtB, Bool.and_eq_true] at hb
  obtain ⟨hbc, hbr⟩ := hb
  have hidle : ∀ (e : Env) (is : List Instr), hostsLtIs p is = true → hostsLtB p (.mk e .idle is) = true := by
    intro e is h; simp [hostsLtB, hostsLtP, h]
  cases cur with
  | idle =>
    cases rest with
    | nil =>
      simp only [Option.some.injEq, Prod.mk.injEq] at h
      obtain ⟨rfl, rfl⟩ := h
      exact ⟨hw, trivial, PT.refl p w⟩
    | cons i rest' =>
      simp only [hostsLtIs, Bool.and_eq_true] at hbr
      obtain ⟨hbi, hbr'⟩ := hbr
      cases i with
      | emit tag e => exact ih.tk hw (tk_sinkEvent w (.cmd p) _) (hidle _ _ hbr') h
      | notify n e => exact ih.tk hw (tk_sinkEffect w (.cmd p) _) (hidle _ _ hbr') h
      | req x n e =>
        simp only [Option.some.injEq, Prod.mk.injEq] at h
        obtain ⟨rfl, rfl⟩ := h
        have d := done_tk (p := p) hw (tk_newLeaf_sinkEffect w (some wk) false (.cmd p)
          ⟨⟨n, env.eval e⟩, .once (w.newLeaf (some wk) false).1⟩)
        exact ⟨d.1, by simp [hostsLtRes, hostsLtB, hostsLtP, hbr'], d.2⟩
      | stream x n e limit body =>
        simp only [Option.some.injEq, Prod.mk.injEq] at h
        obtain ⟨rfl, rfl⟩ := h
        simp only [hostsLtI] at hbi
        have d := done_tk (p := p) hw (tk_newLeaf_sinkEffect w (some wk) false (.cmd p)
          ⟨⟨n, env.eval e⟩, .many (w.newLeaf (some wk) false).1⟩)
        exact ⟨d.1, by simp [hostsLtRes, hostsLtB, hostsLtP, hbr', hbi], d.2⟩
      | spawn hd body =>
        simp only at h
        simp only [hostsLtI] at hbi
        refine ih.tk hw (w1 := _) ?_ (hidle _ _ hbr') h
        refine tk_newMeta_spawn w p _ ?_
        exact ⟨rfl, by simp [hostsLtB, hostsLtP, hbi]⟩
      | handoff x n e body =>
        simp only at h
        simp only [hostsLtI] at hbi
        refine ih.tk hw (w1 := _) ?_ (hidle _ _ hbr') h
        refine TKp.trans (tk_newLeaf_sinkEffect w (some wk) false (.cmd p) _) (tk_newMeta_spawn _ p _ ?_)
        exact ⟨rfl, by simp [hostsLtB, hostsLtP, hbi]⟩
      | await hd =>
        cases hh : env.handle hd with
        | none => simp only [hh] at h; exact ih.via hw (PT.refl p w) (hidle _ _ hbr') h
        | some s => simp only [hh] at h; exact ih.via hw (PT.refl p w) (by simp [hostsLtB, hostsLtP, hbr']) h
      | abortTask hd =>
        cases hh : env.handle hd with
        | none => simp only [hh] at h; exact ih.via hw (PT.refl p w) (hidle _ _ hbr') h
        | some s =>
          simp only [hh] at h
          refine ih.tk hw (w1 := _) ?_ (hidle _ _ hbr') h
          exact tk_of_cmds rfl
      | join a b =>
        simp only [hostsLtI, Bool.and_eq_true] at hbi
        exact ih.via hw (PT.refl p w) (by simp [hostsLtB, hostsLtP, hbr', hbi.1, hbi.2]) h
      | select a b =>
        simp only [hostsLtI, Bool.and_eq_true] at hbi
        exact ih.via hw (PT.refl p w) (by simp [hostsLtB, hostsLtP, hbr', hbi.1, hbi.2]) h
      | selfwake k => exact ih.via hw (PT.refl p w) (by simp [hostsLtB, hostsLtP, hbr']) h
      | abortCmd name =>
        simp only at h
        split at h
        · exact ih.tk hw (tk_abortCmd w _) (hidle _ _ hbr') h
        · exact ih.via hw (PT.refl p w) (hidle _ _ hbr') h
      | host c m =>
        simp only [hostsLtI] at hbi
        exact ih.via hw (PT.refl p w) (by simp [hostsLtB, hostsLtP, hbr', hbi]) h
  | req x l =>
    simp only at h
    split at h
    · exact ih.tk hw (tk_dropReceiver w l) (hidle _ _ hbr) h
    · split at h
      · simp only [Option.some.injEq, Prod.mk.injEq] at h
        obtain ⟨rfl, rfl⟩ := h
        have d := done_tk (p := p) hw (tk_dropReceiver w l)
        exact ⟨d.1, by simp [hostsLtRes, hostsLtB, hostsLtP, hbr], d.2⟩
      · simp only [Option.some.injEq, Prod.mk.injEq] at h
        obtain ⟨rfl, rfl⟩ := h
        have d := done_tk (p := p) (w1 := w.modLeaf l fun lf => { lf with waker := some wk }) hw (tk_of_cmds rfl)
        exact ⟨d.1, by simp [hostsLtRes, hostsLtB, hostsLtP, hbr], d.2⟩
  | reqDead =>
    simp only [Option.some.injEq, Prod.mk.injEq] at h
    obtain ⟨rfl, rfl⟩ := h
    exact ⟨hw, by simp [hostsLtRes, hostsLtB, hostsLtP, hbr], PT.refl p w⟩
  | streamWait x l count limit body =>
    simp only [hostsLtP] at hbc
    simp only at h
    split at h
    · exact ih.tk hw (tk_dropReceiver w l) (hidle _ _ hbr) h
    · split at h
      · refine ih.tk hw (w1 := _) ?_ (by simp [hostsLtB, hostsLtP, hbr, hbc]) h
        exact tk_of_cmds rfl
      · split at h
        · exact ih.tk hw (tk_dropReceiver w l) (hidle _ _ hbr) h
        · simp only [Option.some.injEq, Prod.mk.injEq] at h
          obtain ⟨rfl, rfl⟩ := h
          have d := done_tk (p := p) (w1 := w.modLeaf l fun lf => { lf with waker := some wk }) hw (tk_of_cmds rfl)
          exact ⟨d.1, by simp [hostsLtRes, hostsLtB, hostsLtP, hbr, hbc], d.2⟩
  | streamBody x l count limit body inner =>
    simp only [hostsLtP, Bool.and_eq_true] at hbc
    simp only at h
    cases hp : pollBlock pn f wk (.cmd p) inner w with
    | none => simp [hp] at h
    | some res =>
      obtain ⟨ri, w1⟩ := res
      have hi := ih wk p inner w ri w1 hp hw hbc.2
      cases ri with
      | pending inner' =>
        simp only [hp, Option.some.injEq, Prod.mk.injEq] at h
        obtain ⟨rfl, rfl⟩ := h
        have hh : hostsLtB p inner' = true := hi.2.1
        exact ⟨hi.1, by simp [hostsLtRes, hostsLtB, hostsLtP, hbr, hbc.1, hh], hi.2.2⟩
      | ready env' =>
        simp only [hp] at h
        exact ih.via hi.1 hi.2.2 (by simp [hostsLtB, hostsLtP, hbr, hbc.1]) h
  | await s =>
    simp only at h
    split at h
    · exact ih.via hw (PT.refl p w) (hidle _ _ hbr) h
    · split at h
      · simp only [Option.some.injEq, Prod.mk.injEq] at h
        obtain ⟨rfl, rfl⟩ := h
        have d := done_tk (p := p) (w1 := w.modMeta s fun m => { m with joinWakers := m.joinWakers ++ [wk] }) hw (tk_of_cmds rfl)
        exact ⟨d.1, by simp [hostsLtRes, hostsLtB, hostsLtP, hbr], d.2⟩
      · exact ih.via hw (PT.refl p w) (hidle _ _ hbr) h
  | join a b ad bd =>
    simp only [hostsLtP, Bool.and_eq_true] at hbc
    simp only at h
    split at h
    · simp at h
    · rename_i ra w1 hra
      split at h
      · simp at h
      · rename_i rb w2 hrb
        have k1 : HL w1 ∧ PT p w w1 ∧ (∀ a', ra = .pending a' → hostsLtB p a' = true) := by
          cases ad with
          | true =>
            simp only [if_true, Option.some.injEq, Prod.mk.injEq] at hra
            obtain ⟨rfl, rfl⟩ := hra
            exact ⟨hw, PT.refl p w, fun _ hc => by cases hc⟩
          | false =>
            simp only [Bool.false_eq_true, if_false] at hra
            have := ih wk p a w ra w1 hra hw hbc.1
            exact ⟨this.1, this.2.2, fun a' ha => by subst ha; exact this.2.1⟩
        have k2 : HL w2 ∧ PT p w w2 ∧ (∀ b', rb = .pending b' → hostsLtB p b' = true) := by
          cases bd with
          | true =>
            simp only [if_true, Option.some.injEq, Prod.mk.injEq] at hrb
            obtain ⟨rfl, rfl⟩ := hrb
            exact ⟨k1.1, k1.2.1, fun _ hc => by cases hc⟩
          | false =>
            simp only [Bool.false_eq_true, if_false] at hrb
            have := ih wk p b w1 rb w2 hrb k1.1 hbc.2
            exact ⟨this.1, k1.2.1.trans this.2.2, fun b' hb' => by subst hb'; exact this.2.1⟩
        cases ra with
        | pending a' =>
          have ha := k1.2.2 a' rfl
          cases rb with
          | pending b' =>
            have hb' := k2.2.2 b' rfl
            simp only [Bool.and_self, Bool.false_eq_true, if_false, Option.some.injEq, Prod.mk.injEq] at h
            obtain ⟨rfl, rfl⟩ := h
            exact ⟨k2.1, by simp [hostsLtRes, hostsLtB, hostsLtP, hbr, ha, hb'], k2.2.1⟩
          | ready envb =>
            simp only [Bool.false_and, Bool.false_eq_true, if_false, Option.some.injEq, Prod.mk.injEq] at h
            obtain ⟨rfl, rfl⟩ := h
            exact ⟨k2.1, by simp [hostsLtRes, hostsLtB, hostsLtP, hbr, ha, hbc.2], k2.2.1⟩
        | ready enva =>
          cases rb with
          | pending b' =>
            have hb' := k2.2.2 b' rfl
            simp only [Bool.and_false, Bool.false_eq_true, if_false, Option.some.injEq, Prod.mk.injEq] at h
            obtain ⟨rfl, rfl⟩ := h
            exact ⟨k2.1, by simp [hostsLtRes, hostsLtB, hostsLtP, hbr, hb', hbc.1], k2.2.1⟩
          | ready envb =>
            simp only [Bool.and_self, if_true] at h
            exact ih.via k2.1 k2.2.1 (hidle _ _ hbr) h
  | select a b =>
    simp only [hostsLtP, Bool.and_eq_true] at hbc
    simp only at h
    cases hp : pollBlock pn f wk (.cmd p) a w with
    | none => simp [hp] at h
    | some res =>
      obtain ⟨ra, w1⟩ := res
      have k1 := ih wk p a w ra w1 hp hw hbc.1
      cases ra with
      | ready enva =>
        simp only [hp] at h
        have hd := World_dropBlock_hl p w1 b hbc.2 k1.1
        exact ih.via hd.1 (k1.2.2.trans hd.2) (hidle _ _ hbr) h
      | pending a' =>
        simp only [hp] at h
        have ha : hostsLtB p a' = true := k1.2.1
        cases hq : pollBlock pn f wk (.cmd p) b w1 with
        | none => simp [hq] at h
        | some res2 =>
          obtain ⟨rb, w2⟩ := res2
          have k2 := ih wk p b w1 rb w2 hq k1.1 hbc.2
          cases rb with
          | ready envb =>
            simp only [hq] at h
            have hd := World_dropBlock_hl p w2 a' ha k2.1
            exact ih.via hd.1 ((k1.2.2.trans k2.2.2).trans hd.2) (hidle _ _ hbr) h
          | pending b' =>
            simp only [hq, Option.some.injEq, Prod.mk.injEq] at h
            obtain ⟨rfl, rfl⟩ := h
            have hb' : hostsLtB p b' = true := k2.2.1
            exact ⟨k2.1, by simp [hostsLtRes, hostsLtB, hostsLtP, hbr, ha, hb'], k1.2.2.trans k2.2.2⟩
  | selfwake k =>
    simp only at h
    split at h
    · exact ih.via hw (PT.refl p w) (hidle _ _ hbr) h
    · simp only [Option.some.injEq, Prod.mk.injEq] at h
      obtain ⟨rfl, rfl⟩ := h
      have d := done_tk (p := p) hw (tk_World_wake w wk)
      exact ⟨d.1, by simp [hostsLtRes, hostsLtB, hostsLtP, hbr], d.2⟩
  | host c m =>
    simp only [hostsLtP, decide_eq_true_eq] at hbc
    simp only at h
    cases hl : hostLoop pn f wk p c m w with
    | none => simp [hl] at h
    | some res =>
      obtain ⟨d, w1⟩ := res
      have k1 := hostLoop_hl pn hpn f wk p c m w d w1 hl hbc hw
      cases d with
      | true =>
        simp only [hl] at h
        have hd := World_dropCmd_hl w1 c k1.1
        exact ih.via hd.1 (k1.2.trans (hd.2.toPT hbc)) (hidle _ _ hbr) h
      | false =>
        simp only [hl, Option.some.injEq, Prod.mk.injEq] at h
        obtain ⟨rfl, rfl⟩ := h
        exact ⟨k1.1, by simp [hostsLtRes, hostsLtB, hostsLtP, hbr, hbc], k1.2⟩

theorem pollBlock_hgood (pn) (hpn : PnT pn) : ∀ f, HGood pn f
  | 0 => hgood_zero pn
  | f + 1 => hgood_succ pn hpn f (pollBlock_hgood pn hpn f)

end M.Rt
