/- `HL` and the frame `RT c` through the command executor and the knot on the nesting depth. -/
import CruxVerif.Lemmas.HostLtPoll
import CruxVerif.Lemmas.Slab
namespace M.Rt

def PollT (poll : Waker → Sink → Block → World → Option (PollRes × World)) : Prop :=
  ∀ wk p b w r w', poll wk (.cmd p) b w = some (r, w') → HL w → hostsLtB p b = true →
    HL w' ∧ hostsLtRes p r ∧ PT p w w'

def RunT (runTask : Nat → Nat → World → Option (TaskState × World)) : Prop :=
  ∀ c tid w st w', runTask c tid w = some (st, w') → HL w → HL w' ∧ RT c w w'

def SettleT (settle : Nat → World → Option World) : Prop :=
  ∀ c w w', settle c w = some w' → HL w → HL w' ∧ RT c w w'

/-- a change of command `c` whose new stored tasks are old ones or host below `c` -/
theorem HL.modCmd_gen {w : World} (h : HL w) (c : Nat) (g : CmdSt → CmdSt)
    (hgt : ∀ x, ∀ t ∈ (g x).tasks.values, t ∈ x.tasks.values ∨ hostsLtB c t.fut = true)
    (hgs : ∀ x, ∀ t ∈ (g x).spawnQ, t ∈ x.spawnQ ∨ hostsLtB c t.fut = true) : HL (w.modCmd c g) := by
  refine ⟨?_, ?_⟩
  · intro q t ht
    by_cases e : c = q
    · subst e
      rw [World.cmd_modCmd_self] at ht
      cases hc : w.cmds[c]? with
      | none => simp [hc, Slab.values] at ht
      | some x =>
        simp only [hc] at ht
        rcases hgt x t ht with hm | hm
        · exact h.tasks c t (by simp only [World.cmd, hc]; exact hm)
        · exact hm
    · rw [World.cmd_modCmd_other w c q _ e] at ht; exact h.tasks q t ht
  · intro q t ht
    by_cases e : c = q
    · subst e
      rw [World.cmd_modCmd_self] at ht
      cases hc : w.cmds[c]? with
      | none => simp [hc] at ht
      | some x =>
        simp only [hc] at ht
        rcases hgs x t ht with hm | hm
        · exact h.spawn c t (by simp only [World.cmd, hc]; exact hm)
        · exact hm
    · rw [World.cmd_modCmd_other w c q _ e] at ht; exact h.spawn q t ht

theorem tk0_same (W : World) (W' : World) (hc : W'.cmds = W.cmds) : TK0 W W' := tk_of_cmds hc

theorem runTaskF_hl (poll) (hp : PollT poll) : RunT (runTaskF poll) := by
  intro c tid w st w' h hw
  unfold runTaskF at h
  split at h
  · simp only [Option.some.injEq, Prod.mk.injEq] at h; obtain ⟨_, rfl⟩ := h; exact ⟨hw, RT.refl c w⟩
  · rename_i t hg
    have htl : hostsLtB c t.fut = true := hw.tasks c t (Slab.mem_values_of_get _ _ _ hg)
    split at h
    · simp only [Option.some.injEq, Prod.mk.injEq] at h; obtain ⟨_, rfl⟩ := h; exact ⟨hw, RT.refl c w⟩
    · dsimp only at h
      have f0 : TK0 w ({ w with nextSerial := w.nextSerial + 1 } : World) := tk_of_cmds rfl
      have hw0 := hw.tk0 f0
      split at h
      · cases h
      · rename_i env1 w1 hpoll
        simp only [Option.some.injEq, Prod.mk.injEq] at h
        obtain ⟨_, rfl⟩ := h
        have k := hp _ _ _ _ _ _ hpoll hw0 htl
        exact ⟨k.1, (f0.toRT (fun _ _ x => x)).trans k.2.2.toRT⟩
      · rename_i b w1 hpoll
        have k := hp _ _ _ _ _ _ hpoll hw0 htl
        have hb : hostsLtB c b = true := k.2.1
        have h2 : HL (w1.modCmd c fun x => { x with tasks := x.tasks.set tid { t with fut := b } }) := by
          refine k.1.modCmd_gen c _ ?_ ?_
          · intro x t' ht'
            rcases Slab.mem_values_set _ _ _ _ ht' with rfl | hm
            · exact Or.inr hb
            · exact Or.inl hm
          · intro x t' ht'; exact Or.inl ht'
        have r2 : RT c w (w1.modCmd c fun x => { x with tasks := x.tasks.set tid { t with fut := b } }) :=
          ((f0.toRT (fun _ _ x => x)).trans k.2.2.toRT).trans (rt_modCmd w1 c _)
        have fin : ∀ (pf : Nat → Bool), HL ({ (w1.modCmd c fun x => { x with tasks := x.tasks.set tid { t with fut := b } })
            with woken := (w1.modCmd c fun x => { x with tasks := x.tasks.set tid { t with fut := b } }).woken.filter pf } : World) ∧
            RT c w ({ (w1.modCmd c fun x => { x with tasks := x.tasks.set tid { t with fut := b } })
            with woken := (w1.modCmd c fun x => { x with tasks := x.tasks.set tid { t with fut := b } }).woken.filter pf } : World) := by
          intro pf
          have f3 : TK0 (w1.modCmd c fun x => { x with tasks := x.tasks.set tid { t with fut := b } })
            ({ (w1.modCmd c fun x => { x with tasks := x.tasks.set tid { t with fut := b } })
              with woken := (w1.modCmd c fun x => { x with tasks := x.tasks.set tid { t with fut := b } }).woken.filter pf } : World) :=
            tk_of_cmds rfl
          exact ⟨h2.tk0 f3, r2.trans (f3.toRT (fun _ _ x => x))⟩
        split at h
        · simp only [Option.some.injEq, Prod.mk.injEq] at h; obtain ⟨_, rfl⟩ := h; exact fin _
        · simp only [Option.some.injEq, Prod.mk.injEq] at h; obtain ⟨_, rfl⟩ := h; exact fin _

theorem tk0_wakeAll : ∀ (ks : List Waker) (w : World), TK0 w (w.wakeAll ks)
  | [], w => TKp.refl w
  | k :: ks, w => by
    simp only [World.wakeAll, List.foldl_cons]
    exact TKp.trans (tk_World_wake w k) (tk0_wakeAll ks (w.wake k))

theorem finishTask_hl (c tid : Nat) (w : World) (hw : HL w) : HL (finishTask c tid w) ∧ RT c w (finishTask c tid w) := by
  unfold finishTask
  simp only
  split
  · exact ⟨hw, RT.refl c w⟩
  · rename_i t tasks heq
    have hget : (w.cmd c).tasks.get? tid = some t := by
      cases hg : (w.cmd c).tasks.get? tid with
      | none => rw [Slab.remove_none _ _ hg] at heq; cases heq
      | some t' =>
        have := (Slab.remove_get _ _ _ hg).1
        rw [heq] at this; simp only [Option.some.injEq] at this; rw [this]
    have htl : hostsLtB c t.fut = true := hw.tasks c t (Slab.mem_values_of_get _ _ _ hget)
    have hT : tasks = ((w.cmd c).tasks.remove tid).2 := by rw [heq]
    have h1 : HL (w.modCmd c fun x => { x with tasks := tasks }) := by
      refine hw.modCmd_gen c _ ?_ ?_
      · intro x t' ht'
        -- `tasks` was computed from the stored command: its members are members of that slab
        have : t' ∈ (w.cmd c).tasks.values := by
          simp only at ht'; rw [hT] at ht'; exact Slab.mem_values_remove _ _ _ ht'
        exact Or.inr (hw.tasks c t' this)
      · intro x t' ht'; exact Or.inl ht'
    have r1 := rt_modCmd w c fun x => { x with tasks := tasks }
    have f2 : TK0 (w.modCmd c fun x => { x with tasks := tasks })
        ((w.modCmd c fun x => { x with tasks := tasks }).modMeta t.serial fun m => { m with finished := true, joinWakers := [] }) :=
      tk_of_cmds rfl
    have f3 := tk0_wakeAll ((w.modCmd c fun x => { x with tasks := tasks }).getMeta t.serial).joinWakers
      ((w.modCmd c fun x => { x with tasks := tasks }).modMeta t.serial fun m => { m with finished := true, joinWakers := [] })
    have h3 := (h1.tk0 f2).tk0 f3
    have h4 := World_dropTask_hl c _ t htl h3
    exact ⟨h4.1, ((r1.trans (f2.toRT (fun _ _ x => x))).trans (f3.toRT (fun _ _ x => x))).trans h4.2.toRT⟩

theorem spawnNewTasks_hl (c : Nat) (w : World) (hw : HL w) : HL (spawnNewTasks c w) ∧ RT c w (spawnNewTasks c w) := by
  unfold spawnNewTasks
  have hP : ∀ (l : List Task) (W : World), (∀ t ∈ l, hostsLtB c t.fut = true) → HL W →
      HL (l.foldl (fun w t => w.modCmd c fun x =>
        let (tid, tasks) := x.tasks.insert t
        { x with tasks := tasks, ready := x.ready ++ [tid] }) W) ∧
      RT c W (l.foldl (fun w t => w.modCmd c fun x =>
        let (tid, tasks) := x.tasks.insert t
        { x with tasks := tasks, ready := x.ready ++ [tid] }) W) := by
    intro l
    induction l with
    | nil => intro W _ hW; exact ⟨hW, RT.refl c W⟩
    | cons t l ih =>
      intro W hl hW
      simp only [List.foldl_cons]
      have h1 : HL (W.modCmd c fun x =>
          let (tid, tasks) := x.tasks.insert t
          { x with tasks := tasks, ready := x.ready ++ [tid] }) := by
        refine hW.modCmd_gen c _ ?_ ?_
        · intro x t' ht'
          rcases Slab.mem_values_insert _ _ _ ht' with rfl | hm
          · exact Or.inr (hl _ (by simp))
          · exact Or.inl hm
        · intro x t' ht'; exact Or.inl ht'
      have := ih _ (fun x hx => hl x (by simp [hx])) h1
      exact ⟨this.1, (rt_modCmd W c _).trans this.2⟩
  have h0 : HL (w.modCmd c fun x => { x with spawnQ := [] }) := by
    refine hw.modCmd_gen c _ ?_ ?_
    · intro x t ht; exact Or.inl ht
    · intro x t ht; simp at ht
  have := hP (w.cmd c).spawnQ _ (hw.spawn c) h0
  exact ⟨this.1, (rt_modCmd w c _).trans this.2⟩

theorem drainReady_hl (runTask) (hr : RunT runTask) : ∀ (f c : Nat) (w w' : World),
    drainReady runTask f c w = some w' → HL w → HL w' ∧ RT c w w' := by
  intro f
  induction f with
  | zero => intro c w w' h; simp [drainReady] at h
  | succ f ih =>
    intro c w w' h hw
    unfold drainReady at h
    split at h
    · simp only [Option.some.injEq] at h; subst h; exact ⟨hw, RT.refl c w⟩
    · rename_i tid rest _
      have f0 : TK0 w (w.modCmd c fun x => { x with ready := rest }) := tk_modCmd w c _ (fun _ => rfl) (fun _ => rfl)
      have h0 := hw.tk0 f0
      have r0 : RT c w (w.modCmd c fun x => { x with ready := rest }) := f0.toRT (fun _ _ x => x)
      simp only at h
      split at h
      · cases h
      · rename_i w1 hrt
        have k1 := hr _ _ _ _ _ hrt h0
        have := ih c w1 w' h k1.1
        exact ⟨this.1, (r0.trans k1.2).trans this.2⟩
      · rename_i w1 hrt
        have k1 := hr _ _ _ _ _ hrt h0
        have := ih c w1 w' h k1.1
        exact ⟨this.1, (r0.trans k1.2).trans this.2⟩
      · rename_i w1 hrt
        have k1 := hr _ _ _ _ _ hrt h0
        have k2 := finishTask_hl c tid w1 k1.1
        have := ih c _ w' h k2.1
        exact ⟨this.1, ((r0.trans k1.2).trans k2.2).trans this.2⟩
      · rename_i w1 hrt
        have k1 := hr _ _ _ _ _ hrt h0
        have k2 := finishTask_hl c tid w1 k1.1
        have := ih c _ w' h k2.1
        exact ⟨this.1, ((r0.trans k1.2).trans k2.2).trans this.2⟩

theorem settleLoop_hl (runTask) (hr : RunT runTask) : ∀ (f c : Nat) (w w' : World),
    settleLoop runTask f c w = some w' → HL w → HL w' ∧ RT c w w' := by
  intro f
  induction f with
  | zero => intro c w w' h; simp [settleLoop] at h
  | succ f ih =>
    intro c w w' h hw
    unfold settleLoop at h
    simp only at h
    have k0 := spawnNewTasks_hl c w hw
    split at h
    · simp only [Option.some.injEq] at h; subst h; exact k0
    · split at h
      · cases h
      · rename_i w1 hd
        have k1 := drainReady_hl runTask hr _ c _ w1 hd k0.1
        have := ih c w1 w' h k1.1
        exact ⟨this.1, (k0.2.trans k1.2).trans this.2⟩

theorem runUntilSettledF_hl (runTask) (hr : RunT runTask) : SettleT (runUntilSettledF runTask) := by
  intro c w w' h hw
  unfold runUntilSettledF at h
  split at h
  · simp only [Option.some.injEq] at h
    subst h
    have h1 := foldl_hl_pt c (fun w t => w.dropTask t) (fun t => hostsLtB c t.fut = true)
      (fun W t ht hW => World_dropTask_hl c W t ht hW) (w.cmd c).tasks.values w (hw.tasks c) hw
    refine ⟨?_, h1.2.toRT.trans (rt_modCmd _ c _)⟩
    refine h1.1.modCmd_gen c _ ?_ ?_
    · intro x t ht; simp [Slab.values] at ht
    · intro x t ht; exact Or.inl ht
  · exact settleLoop_hl runTask hr _ c w w' h hw

theorem pollNextF_hl (settle) (hs : SettleT settle) : PnT (pollNextF settle) := by
  intro wk c w r w' h hw
  unfold pollNextF at h
  simp only at h
  have f0 : TK0 w (w.modCmd c fun x => { x with waker := some wk }) := tk_modCmd w c _ (fun _ => rfl) (fun _ => rfl)
  have h0 := hw.tk0 f0
  have r0 : RT c w (w.modCmd c fun x => { x with waker := some wk }) := f0.toRT (fun _ _ x => x)
  split at h
  · cases h
  · rename_i w1 hs1
    have k1 := hs _ _ _ hs1 h0
    have r01 := r0.trans k1.2
    split at h
    · simp only [Option.some.injEq, Prod.mk.injEq] at h
      obtain ⟨_, rfl⟩ := h
      rename_i e es _
      have f2 : TK0 w1 (w1.modCmd c fun x => { x with events := e }) := tk_modCmd w1 c _ (fun _ => rfl) (fun _ => rfl)
      exact ⟨k1.1.tk0 f2, r01.trans (f2.toRT (fun _ _ x => x))⟩
    · split at h
      · simp only [Option.some.injEq, Prod.mk.injEq] at h
        obtain ⟨_, rfl⟩ := h
        rename_i e es _
        have f2 : TK0 w1 (w1.modCmd c fun x => { x with effects := e }) := tk_modCmd w1 c _ (fun _ => rfl) (fun _ => rfl)
        exact ⟨k1.1.tk0 f2, r01.trans (f2.toRT (fun _ _ x => x))⟩
      · split at h
        · cases h
        · rename_i w2 hs2
          have k2 := hs _ _ _ hs2 k1.1
          split at h <;> (simp only [Option.some.injEq, Prod.mk.injEq] at h; obtain ⟨_, rfl⟩ := h
                          exact ⟨k2.1, r01.trans k2.2⟩)

theorem pollAt_hl : ∀ d, PollT (pollAt d)
  | 0 => by intro wk p b w r w' h; simp [pollAt] at h
  | d + 1 => by
    intro wk p b w r w' h hw hb
    have hpn : PnT (pollNextF (runUntilSettledF (runTaskF (pollAt d)))) :=
      pollNextF_hl _ (runUntilSettledF_hl _ (runTaskF_hl _ (pollAt_hl d)))
    exact pollBlock_hgood _ hpn loopFuel wk p b w r w' h hw hb

theorem runTask_hl : RunT runTask := runTaskF_hl _ (pollAt_hl depthFuel)
theorem runUntilSettled_hl : SettleT runUntilSettled := runUntilSettledF_hl _ runTask_hl
theorem pollNext_hl : PnT pollNext := pollNextF_hl _ runUntilSettled_hl

end M.Rt
