/-
C13, first clause over whole runs — the accounting invariant of task futures: every task future that is alive
(`Meta.taskAlive`, the model's drop guard) belongs to a task that is STORED in the command's slab or waiting in its spawn
queue. Nothing is kept anywhere else, so the number of live futures is bounded by what the slab and the queue hold.
-/
import CruxVerif.Lemmas.LQ
import CruxVerif.Lemmas.Futures
import CruxVerif.Lemmas.Timer.ClearedSet
namespace M.Rt
open M.Hosts

/-- the task with serial `s` is in command `c`'s slab or spawn queue -/
def Stored (c : Nat) (w : World) (s : Nat) : Prop :=
  (∃ tid t, (w.cmd c).tasks.get? tid = some t ∧ t.serial = s) ∨ (∃ t ∈ (w.cmd c).spawnQ, t.serial = s)

/-- every live task future is stored -/
def Acc (c : Nat) (w : World) : Prop :=
  c < w.cmds.length ∧ Slab.WF (w.cmd c).tasks ∧ ∀ s, s < w.metas.length → (w.getMeta s).taskAlive = true → Stored c w s

/-- what `Acc` reads of a world -/
structure SameTS (c : Nat) (w w' : World) : Prop where
  metas : w'.metas = w.metas
  tasks : (w'.cmd c).tasks = (w.cmd c).tasks
  spawnQ : (w'.cmd c).spawnQ = (w.cmd c).spawnQ
  len : w'.cmds.length = w.cmds.length

theorem Acc.of_same {c : Nat} {w w' : World} (h : Acc c w) (hs : SameTS c w w') : Acc c w' := by
  refine ⟨by rw [hs.len]; exact h.1, by rw [hs.tasks]; exact h.2.1, ?_⟩
  intro s hl ha
  rw [hs.metas] at hl
  rw [getMeta_of_metas hs.metas] at ha
  rcases h.2.2 s hl ha with ⟨tid, t, hg, e⟩ | ⟨t, ht, e⟩
  · exact Or.inl ⟨tid, t, by rw [hs.tasks]; exact hg, e⟩
  · exact Or.inr ⟨t, by rw [hs.spawnQ]; exact ht, e⟩

theorem SameTS.refl (c : Nat) (w : World) : SameTS c w w := ⟨rfl, rfl, rfl, rfl⟩
theorem SameTS.trans {c : Nat} {w1 w2 w3 : World} (a : SameTS c w1 w2) (b : SameTS c w2 w3) : SameTS c w1 w3 :=
  ⟨b.metas.trans a.metas, b.tasks.trans a.tasks, b.spawnQ.trans a.spawnQ, b.len.trans a.len⟩

theorem same_of_cmds {c : Nat} {w w' : World} (hm : w'.metas = w.metas) (hc : w'.cmds = w.cmds) : SameTS c w w' :=
  ⟨hm, by simp only [World.cmd, hc], by simp only [World.cmd, hc], by rw [hc]⟩

theorem same_modCmd (c : Nat) (w : World) (c' : Nat) (f : CmdSt → CmdSt) (hf : ∀ x, (f x).tasks = x.tasks)
    (hs : ∀ x, (f x).spawnQ = x.spawnQ) : SameTS c w (w.modCmd c' f) := by
  refine ⟨rfl, ?_, ?_, by simp [World.modCmd, modifyNth_length]⟩
  · by_cases e : c' = c
    · subst e
      rw [World.cmd_modCmd_self]
      simp only [World.cmd]
      cases w.cmds[c']? <;> simp [hf]
    · rw [World.cmd_modCmd_other _ _ _ _ e]
  · by_cases e : c' = c
    · subst e
      rw [World.cmd_modCmd_self]
      simp only [World.cmd]
      cases w.cmds[c']? <;> simp [hs]
    · rw [World.cmd_modCmd_other _ _ _ _ e]

theorem same_wake (c : Nat) : ∀ (f : Nat) (wk : Waker) (w : World), SameTS c w (wake f wk w) := by
  intro f
  induction f with
  | zero => intro wk w; cases wk <;> exact same_of_cmds rfl rfl
  | succ f ih =>
    intro wk w
    cases wk with
    | root e => exact same_of_cmds rfl rfl
    | task c' t s =>
      simp only [wake]
      have h1 : SameTS c w (if (w.cmd c').alive then w.modCmd c' fun x => { x with ready := x.ready ++ [t] } else w) := by
        split
        · exact same_modCmd c w c' _ (fun _ => rfl) (fun _ => rfl)
        · exact SameTS.refl c w
      generalize (if (w.cmd c').alive then w.modCmd c' fun x => { x with ready := x.ready ++ [t] } else w) = w1 at h1
      have h2 : SameTS c w ({ w1 with woken := s :: w1.woken } : World) := h1.trans (same_of_cmds rfl rfl)
      split
      · exact h2
      · exact h2.trans ((same_modCmd c _ c' (fun x => { x with waker := none }) (fun _ => rfl) (fun _ => rfl)).trans (ih _ _))

section
variable {c : Nat} {w : World}

theorem acc_sinkEvent (sk : Sink) (e : Ev) (h : Acc c w) : Acc c (w.sinkEvent sk e) := by
  cases sk with
  | cmd c' => exact h.of_same (same_modCmd c w c' _ (fun _ => rfl) (fun _ => rfl))
  | core => exact h.of_same (same_of_cmds rfl rfl)
theorem acc_sinkEffect (sk : Sink) (e : Eff) (h : Acc c w) : Acc c (w.sinkEffect sk e) := by
  cases sk with
  | cmd c' => exact h.of_same (same_modCmd c w c' _ (fun _ => rfl) (fun _ => rfl))
  | core => exact h.of_same (same_of_cmds rfl rfl)
theorem acc_newLeaf (k : Option Waker) (lg : Bool) (h : Acc c w) : Acc c (w.newLeaf k lg).2 := h.of_same (same_of_cmds rfl rfl)
theorem acc_modLeaf (l : Nat) (f : Leaf → Leaf) (h : Acc c w) : Acc c (w.modLeaf l f) := h.of_same (same_of_cmds rfl rfl)
theorem acc_dropReceiver (l : Nat) (h : Acc c w) : Acc c (w.dropReceiver l) := h.of_same (same_of_cmds rfl rfl)
theorem acc_execSpawn (xs : List ExecTask) (h : Acc c w) : Acc c ({ w with execSpawn := xs } : World) :=
  h.of_same (same_of_cmds rfl rfl)
theorem acc_wake (k : Waker) (h : Acc c w) : Acc c (w.wake k) := h.of_same (same_wake c _ k w)
theorem acc_dropBlock (b : Block) (hb : hostFreeB b = true) (h : Acc c w) : Acc c (w.dropBlock b) :=
  dropBlock_hf_ind (Acc c) (fun _ l hw => acc_dropReceiver l hw) _ b w hb h

/-- a change of a task's meta that leaves its drop guard alone -/
theorem acc_modMeta (s : Nat) (f : Meta → Meta) (hf : ∀ m, (f m).taskAlive = m.taskAlive) (h : Acc c w) :
    Acc c (w.modMeta s f) := by
  refine ⟨h.1, h.2.1, ?_⟩
  intro s' hl ha
  have hl' : s' < w.metas.length := by simpa [World.modMeta, modifyNth_length] using hl
  have ha' : (w.getMeta s').taskAlive = true := by
    by_cases e : s = s'
    · subst e
      rw [getMeta_modMeta_self] at ha
      have : ∃ m, w.metas[s]? = some m := ⟨w.metas[s], by simp [hl']⟩
      obtain ⟨m, hm⟩ := this
      simp only [hm, hf] at ha
      simpa [World.getMeta, hm] using ha
    · rwa [getMeta_modMeta_other _ _ _ _ e] at ha
  exact h.2.2 s' hl' ha'

theorem acc_addJoinWaker (s : Nat) (k : Waker) (h : Acc c w) : Acc c (w.modMeta s (addJoinWaker k)) :=
  acc_modMeta s _ (fun _ => rfl) h
theorem acc_abortTask (s : Nat) (h : Acc c w) : Acc c (w.modMeta s fun m => { m with aborted := true }) :=
  acc_modMeta s _ (fun _ => rfl) h

theorem acc_abortCmd (c' : Nat) (h : Acc c w) : Acc c (w.abortCmd c') := by
  unfold World.abortCmd
  simp only
  have h1 := acc_abortTask (w.cmd c').abortFlag h
  split
  · exact h1
  · exact acc_wake _ (h1.of_same (same_modCmd c _ c' (fun x => { x with waker := none }) (fun _ => rfl) (fun _ => rfl)))

/-- `ctx.spawn`: the new future goes straight into the spawn queue -/
theorem acc_spawn (b : Block) (h : Acc c w) : Acc c (w.newMeta.2.modCmd c (addSpawn ⟨w.newMeta.1, b⟩)) := by
  obtain ⟨hc, hwf, h⟩ := h
  have hcmd : ∃ x, w.cmds[c]? = some x := ⟨w.cmds[c], by simp [hc]⟩
  obtain ⟨x, hx⟩ := hcmd
  have hnew : (w.newMeta.2.modCmd c (addSpawn ⟨w.newMeta.1, b⟩)).cmd c = addSpawn ⟨w.metas.length, b⟩ x := by
    rw [World.cmd_modCmd_self]
    simp [World.newMeta, hx]
  have hold : w.cmd c = x := by simp [World.cmd, hx]
  refine ⟨by simpa [World.modCmd, World.newMeta, modifyNth_length] using hc, by rw [hnew]; rw [hold] at hwf; exact hwf, ?_⟩
  intro s hl ha
  have hl2 : s < w.metas.length + 1 := by simpa [World.modCmd, World.newMeta] using hl
  unfold Stored
  rw [hnew]
  by_cases e : s < w.metas.length
  · have ha' : (w.getMeta s).taskAlive = true := by
      have : (w.newMeta.2.modCmd c (addSpawn ⟨w.newMeta.1, b⟩)).getMeta s = w.getMeta s := by
        show (w.newMeta.2).getMeta s = _
        simp only [World.newMeta]
        exact getMeta_append_left w {} s e
      rwa [this] at ha
    rcases h s e ha' with ⟨tid, t, hg, et⟩ | ⟨t, ht, et⟩
    · exact Or.inl ⟨tid, t, by rw [hold] at hg; simpa [addSpawn] using hg, et⟩
    · exact Or.inr ⟨t, by rw [hold] at ht; simp [addSpawn, ht], et⟩
  · have : s = w.metas.length := by omega
    subst this
    exact Or.inr ⟨⟨w.metas.length, b⟩, by simp [addSpawn], rfl⟩

end

/-! ### through one poll (host-free blocks, any fuel, any lower layer) -/

def AGood (pn : Waker → Nat → World → Option (NextRes × World)) (f : Nat) : Prop :=
  ∀ wk c b w r w', pollBlock pn f wk (.cmd c) b w = some (r, w') → hostFreeB b = true → Acc c w → Acc c w'

theorem agood_succ (pn) (f : Nat) (ih : AGood pn f) : AGood pn (f + 1) := by
  intro wk c b w r w' h hf hw
  obtain ⟨env, cur, rest⟩ := b
  have hres := fun wk b w r w' h hf => (pollBlock_lgood pn f wk (.cmd c) b w r w' h hf).2
  unfold pollBlock at h
  simp only [addJoinWaker_eq, addSpawn_eq, setWaker_eq, setQueue_eq] at h
  unfold AGood at ih
  grind (gen := 20) (splits := 40) [acc_sinkEvent, acc_sinkEffect, acc_newLeaf, acc_modLeaf, acc_dropReceiver, acc_execSpawn,
    acc_wake, acc_dropBlock, acc_addJoinWaker, acc_abortTask, acc_spawn, acc_abortCmd,
    hfB_eq, hfP_idle, hfP_reqDead, hfP_req, hfP_await, hfP_selfwake, hfP_streamWait,
    hfP_streamBody, hfP_join, hfP_select, hfP_host, hfIs_nil, hfIs_cons, hfI_host, hfI_stream, hfI_spawn, hfI_handoff,
    hfI_join, hfI_select, hfRes_pending]

theorem pollBlock_agood (pn) : ∀ f, AGood pn f
  | 0 => by intro wk c b w r w' h; simp [pollBlock] at h
  | f + 1 => agood_succ pn f (pollBlock_agood pn f)

/-! ### through the executor of one command (host-free tasks) -/

theorem cmd_of_lt {c : Nat} {w : World} (h : c < w.cmds.length) : w.cmds[c]? = some (w.cmd c) := by
  simp [World.cmd, h]

/-- `tasks.set`: the re-stored task keeps its serial -/
theorem acc_setTask (c tid : Nat) (t t' : Task) (w : World) (hg : (w.cmd c).tasks.get? tid = some t)
    (hs : t'.serial = t.serial) (h : Acc c w) : Acc c (w.modCmd c fun x => { x with tasks := x.tasks.set tid t' }) := by
  obtain ⟨hc, hwf, h⟩ := h
  have hnew : (w.modCmd c fun x => { x with tasks := x.tasks.set tid t' }).cmd c =
      { w.cmd c with tasks := (w.cmd c).tasks.set tid t' } := by
    rw [World.cmd_modCmd_self, cmd_of_lt hc]
  refine ⟨by simpa [World.modCmd, modifyNth_length] using hc, by rw [hnew]; exact Slab.wf_set _ _ _ hwf, ?_⟩
  intro s hl ha
  unfold Stored
  rw [hnew]
  rcases h s hl ha with ⟨tid0, t0, hg0, e⟩ | ⟨t0, ht0, e⟩
  · by_cases ee : tid0 = tid
    · subst ee
      rw [hg] at hg0; cases hg0
      exact Or.inl ⟨tid0, t', Slab.get_set_self _ _ _ _ hg, by rw [hs]; exact e⟩
    · exact Or.inl ⟨tid0, t0, by simp only; rw [Slab.get_set_other _ _ _ _ ee]; exact hg0, e⟩
  · exact Or.inr ⟨t0, ht0, e⟩

theorem runTaskF_acc (pn) (f : Nat) (c tid : Nat) (w : World) (st : TaskState) (w' : World)
    (h : runTaskF (pollBlock pn f) c tid w = some (st, w')) (hw : HFc c w) (ha : Acc c w) : Acc c w' := by
  unfold runTaskF at h
  split at h
  · simp only [Option.some.injEq, Prod.mk.injEq] at h; obtain ⟨_, rfl⟩ := h; exact ha
  · rename_i t hg
    have htf : hostFreeB t.fut = true := hw.t t (Slab.mem_values_of_get _ _ _ hg)
    split at h
    · simp only [Option.some.injEq, Prod.mk.injEq] at h; obtain ⟨_, rfl⟩ := h; exact ha
    · dsimp only at h
      have a0 : Acc c ({ w with nextSerial := w.nextSerial + 1 } : World) := ha.of_same (same_of_cmds rfl rfl)
      split at h
      · cases h
      · rename_i env1 w1 hpoll
        simp only [Option.some.injEq, Prod.mk.injEq] at h
        obtain ⟨_, rfl⟩ := h
        exact pollBlock_agood pn f _ _ _ _ _ _ hpoll htf a0
      · rename_i b w1 hpoll
        have a1 : Acc c w1 := pollBlock_agood pn f _ _ _ _ _ _ hpoll htf a0
        have tk := pollBlock_tgood pn f (fun _ _ => True) _ _ _ _ _ _ hpoll htf (fun _ _ _ _ => trivial)
        have hg1 : (w1.cmd c).tasks.get? tid = some t := by rw [tk.tasks c]; exact hg
        have a2 := acc_setTask c tid t { t with fut := b } w1 hg1 rfl a1
        split at h
        · simp only [Option.some.injEq, Prod.mk.injEq] at h; obtain ⟨_, rfl⟩ := h; exact a2.of_same (same_of_cmds rfl rfl)
        · simp only [Option.some.injEq, Prod.mk.injEq] at h; obtain ⟨_, rfl⟩ := h; exact a2.of_same (same_of_cmds rfl rfl)

theorem dropBlock_cmds (dc : Nat → World → World) (b : Block) (w : World) (hb : hostFreeB b = true) :
    (dropBlock dc b w).cmds = w.cmds :=
  dropBlock_hf_ind (fun w' => w'.cmds = w.cmds) (fun _ _ h => h) dc b w hb rfl

theorem dropTask_cmds (w : World) (t : Task) (ht : hostFreeB t.fut = true) : (w.dropTask t).cmds = w.cmds := by
  unfold World.dropTask dropTask
  rw [dropBlock_cmds _ _ _ ht]
  rfl

theorem same_wakeAll (c : Nat) : ∀ (ks : List Waker) (W : World), SameTS c W (W.wakeAll ks) := by
  intro ks
  induction ks with
  | nil => intro W; exact SameTS.refl c W
  | cons k ks ih => intro W; exact (same_wake c _ k W).trans (ih _)

/-- a finished or cancelled task leaves the slab and its future is dropped: the accounting stays exact -/
theorem finishTask_acc (c tid : Nat) (w : World) (hw : HFc c w) (ha : Acc c w) : Acc c (finishTask c tid w) := by
  unfold finishTask
  simp only
  split
  · exact ha
  · rename_i t tasks hr
    have hg : (w.cmd c).tasks.get? tid = some t := by
      cases hg : (w.cmd c).tasks.get? tid with
      | none => rw [Slab.remove_none _ _ hg] at hr; cases hr
      | some t' =>
        have := (Slab.remove_get _ _ _ hg).1
        rw [hr] at this; simp only [Option.some.injEq] at this; rw [this]
    have htf := hw.t t (Slab.mem_values_of_get _ _ _ hg)
    have htasks : tasks = ((w.cmd c).tasks.remove tid).2 := by rw [hr]
    obtain ⟨hc, hwf, h⟩ := ha
    generalize hW1 : (w.modCmd c fun x => { x with tasks := tasks }) = W1
    have c1 : W1.cmd c = { w.cmd c with tasks := tasks } := by
      rw [← hW1, World.cmd_modCmd_self, cmd_of_lt hc]
    generalize hW2 : (W1.modMeta t.serial fun m => { m with finished := true, joinWakers := [] }) = W2
    generalize hks : (W1.getMeta t.serial).joinWakers = ks
    have s23 := same_wakeAll c ks W2
    have c3 : (W2.wakeAll ks).cmd c = W1.cmd c ∨ True := Or.inr trivial
    have hlen1 : W1.metas.length = w.metas.length := by rw [← hW1]; rfl
    have hlen2 : W2.metas.length = w.metas.length := by rw [← hW2]; simp [World.modMeta, modifyNth_length, hlen1]
    have hlen3 : (W2.wakeAll ks).metas.length = w.metas.length := by rw [s23.metas, hlen2]
    have hcm4 : ((W2.wakeAll ks).dropTask t).cmds = (W2.wakeAll ks).cmds := dropTask_cmds _ t htf
    have t4 : (((W2.wakeAll ks).dropTask t).cmd c).tasks = tasks := by
      simp only [World.cmd, hcm4]
      have := s23.tasks
      simp only [World.cmd] at this
      rw [this]
      have : W2.cmds = W1.cmds := by rw [← hW2]; rfl
      rw [this]
      have := congrArg CmdSt.tasks c1
      simpa [World.cmd] using this
    have q4 : (((W2.wakeAll ks).dropTask t).cmd c).spawnQ = (w.cmd c).spawnQ := by
      simp only [World.cmd, hcm4]
      have := s23.spawnQ
      simp only [World.cmd] at this
      rw [this]
      have : W2.cmds = W1.cmds := by rw [← hW2]; rfl
      rw [this]
      have := congrArg CmdSt.spawnQ c1
      simpa [World.cmd] using this
    refine ⟨?_, ?_, ?_⟩
    · rw [hcm4, s23.len, ← hW2]
      show c < W1.cmds.length
      rw [← hW1]; simpa [World.modCmd, modifyNth_length] using hc
    · rw [t4, htasks]; exact Slab.wf_remove _ _ hwf
    · intro s hl halive
      have hl' : s < w.metas.length := by
        rw [dropTask_metas_length _ t htf, hlen3] at hl; exact hl
      have hne : s ≠ t.serial := by
        intro e; subst e
        have := (dropTask_future (W2.wakeAll ks) t htf (by rw [hlen3]; exact hl')).1
        rw [this] at halive; cases halive
      have hold : (w.getMeta s).taskAlive = true := by
        rw [dropTask_future_other _ t htf s hne, getMeta_of_metas s23.metas, ← hW2,
          getMeta_modMeta_other _ _ _ _ (fun e => hne e.symm), ← hW1] at halive
        exact halive
      unfold Stored
      rw [t4, q4]
      rcases h s hl' hold with ⟨tid0, t0, hg0, e⟩ | ⟨t0, ht0, e⟩
      · have : tid0 ≠ tid := by
          intro ee; subst ee; rw [hg] at hg0; cases hg0; exact hne e.symm
        exact Or.inl ⟨tid0, t0, by rw [htasks, (Slab.remove_get _ _ _ hg).2.2 tid0 this]; exact hg0, e⟩
      · exact Or.inr ⟨t0, ht0, e⟩

/-- the generalised form of `Acc` while the spawn queue is being moved into the slab: `l` = what is still to be inserted -/
def AccL (c : Nat) (l : List Task) (w : World) : Prop :=
  c < w.cmds.length ∧ Slab.WF (w.cmd c).tasks ∧ (w.cmd c).spawnQ = [] ∧
    ∀ s, s < w.metas.length → (w.getMeta s).taskAlive = true →
      (∃ tid t, (w.cmd c).tasks.get? tid = some t ∧ t.serial = s) ∨ (∃ t ∈ l, t.serial = s)

theorem spawn_fold_acc (c : Nat) : ∀ (l : List Task) (W : World), AccL c l W →
    AccL c [] (l.foldl (fun w t => w.modCmd c fun x =>
      { x with tasks := (x.tasks.insert t).2, ready := x.ready ++ [(x.tasks.insert t).1] }) W) := by
  intro l
  induction l with
  | nil => intro W h; exact h
  | cons t l ih =>
    intro W h
    simp only [List.foldl_cons]
    apply ih
    obtain ⟨hc, hwf, hq, h⟩ := h
    have hnew : (W.modCmd c fun x => { x with tasks := (x.tasks.insert t).2, ready := x.ready ++ [(x.tasks.insert t).1] }).cmd c =
        { W.cmd c with tasks := ((W.cmd c).tasks.insert t).2, ready := (W.cmd c).ready ++ [((W.cmd c).tasks.insert t).1] } := by
      rw [World.cmd_modCmd_self, cmd_of_lt hc]
    refine ⟨by simpa [World.modCmd, modifyNth_length] using hc, by rw [hnew]; exact Slab.wf_insert _ _ hwf,
      by rw [hnew]; exact hq, ?_⟩
    intro s hl ha
    rw [hnew]
    rcases h s hl ha with ⟨tid0, t0, hg0, e⟩ | ⟨t0, ht0, e⟩
    · have hne : tid0 ≠ ((W.cmd c).tasks.insert t).1 :=
        fun ee => Slab.insert_ne_occupied _ t tid0 hwf (by rw [hg0]; rfl) ee.symm
      exact Or.inl ⟨tid0, t0, by simp only; rw [Slab.get_insert_other _ _ _ hne]; exact hg0, e⟩
    · rcases List.mem_cons.mp ht0 with ee | ee
      · subst ee
        exact Or.inl ⟨_, t0, by simp only; exact Slab.get_insert_self _ _ hwf, e⟩
      · exact Or.inr ⟨t0, ee, e⟩

theorem spawnNewTasks_acc (c : Nat) (w : World) (ha : Acc c w) : Acc c (spawnNewTasks c w) := by
  unfold spawnNewTasks
  obtain ⟨hc, hwf, h⟩ := ha
  have hnew : (w.modCmd c fun x => { x with spawnQ := [] }).cmd c = { w.cmd c with spawnQ := [] } := by
    rw [World.cmd_modCmd_self, cmd_of_lt hc]
  have h0 : AccL c (w.cmd c).spawnQ (w.modCmd c fun x => { x with spawnQ := [] }) := by
    refine ⟨by simpa [World.modCmd, modifyNth_length] using hc, by rw [hnew]; exact hwf, by rw [hnew], ?_⟩
    intro s hl ha
    rw [hnew]
    exact h s hl ha
  obtain ⟨r1, r2, _, r4⟩ := spawn_fold_acc c _ _ h0
  refine ⟨r1, r2, ?_⟩
  intro s hl ha
  rcases r4 s hl ha with x | ⟨t, ht, _⟩
  · exact Or.inl x
  · cases ht

theorem drainReady_acc (pn) (pf : Nat) (c : Nat) : ∀ (f : Nat) (w w' : World),
    drainReady (runTaskF (pollBlock pn pf)) f c w = some w' → HFc c w → Acc c w → Acc c w' := by
  intro f
  induction f with
  | zero => intro w w' h; simp [drainReady] at h
  | succ f ih =>
    intro w w' h hw hq
    unfold drainReady at h
    split at h
    · simp only [Option.some.injEq] at h; subst h; exact hq
    · rename_i tid rest _
      have h0 : HFc c (w.modCmd c fun x => { x with ready := rest }) :=
        hw.modCmd _ (fun _ _ h => Or.inl h) (fun _ _ h => Or.inl h)
      have q0 : Acc c (w.modCmd c fun x => { x with ready := rest }) :=
        hq.of_same (same_modCmd c w c _ (fun _ => rfl) (fun _ => rfl))
      simp only at h
      split at h
      · cases h
      · rename_i w1 hrt
        exact ih w1 w' h (runTaskF_q pn pf c tid _ _ w1 hrt h0).2 (runTaskF_acc pn pf c tid _ _ w1 hrt h0 q0)
      · rename_i w1 hrt
        exact ih w1 w' h (runTaskF_q pn pf c tid _ _ w1 hrt h0).2 (runTaskF_acc pn pf c tid _ _ w1 hrt h0 q0)
      · rename_i w1 hrt
        have r := (runTaskF_q pn pf c tid _ _ w1 hrt h0).2
        have q1 := runTaskF_acc pn pf c tid _ _ w1 hrt h0 q0
        exact ih _ w' h (finishTask_q c tid w1 r).2 (finishTask_acc c tid w1 r q1)
      · rename_i w1 hrt
        have r := (runTaskF_q pn pf c tid _ _ w1 hrt h0).2
        have q1 := runTaskF_acc pn pf c tid _ _ w1 hrt h0 q0
        exact ih _ w' h (finishTask_q c tid w1 r).2 (finishTask_acc c tid w1 r q1)

theorem settleLoop_acc (pn) (pf : Nat) (c : Nat) : ∀ (f : Nat) (w w' : World),
    settleLoop (runTaskF (pollBlock pn pf)) f c w = some w' → HFc c w → Acc c w → Acc c w' := by
  intro f
  induction f with
  | zero => intro w w' h; simp [settleLoop] at h
  | succ f ih =>
    intro w w' h hw hq
    unfold settleLoop at h
    simp only at h
    have k0 := (spawnNewTasks_q c w hw).2
    have q0 : Acc c (spawnNewTasks c w) := spawnNewTasks_acc c w hq
    split at h
    · simp only [Option.some.injEq] at h; subst h; exact q0
    · split at h
      · cases h
      · rename_i w1 hd
        exact ih w1 w' h (drainReady_q pn pf c _ _ w1 hd k0).2 (drainReady_acc pn pf c _ _ w1 hd k0 q0)

/-- `tasks.clear()`: what the drops of a list of host-free tasks do to the drop guards -/
theorem dropAll_guards : ∀ (ts : List Task) (w : World), (∀ t ∈ ts, hostFreeB t.fut = true) →
    (ts.foldl (fun w t => w.dropTask t) w).metas.length = w.metas.length ∧
    (ts.foldl (fun w t => w.dropTask t) w).cmds = w.cmds ∧
    (∀ s, s < w.metas.length → ((ts.foldl (fun w t => w.dropTask t) w).getMeta s).taskAlive = true →
      (w.getMeta s).taskAlive = true ∧ ∀ t ∈ ts, t.serial ≠ s)
  | [], w, _ => ⟨rfl, rfl, fun _ _ h => ⟨h, fun t ht => (nomatch ht)⟩⟩
  | t :: ts, w, h => by
    have ht := h t (List.mem_cons_self ..)
    have hlen := dropTask_metas_length w t ht
    have ih := dropAll_guards ts (w.dropTask t) (fun t' ht' => h t' (List.mem_cons_of_mem _ ht'))
    simp only [List.foldl_cons]
    refine ⟨by rw [ih.1, hlen], by rw [ih.2.1, dropTask_cmds w t ht], ?_⟩
    intro s hs ha
    obtain ⟨h1, h2⟩ := ih.2.2 s (by rw [hlen]; exact hs) ha
    have hne : s ≠ t.serial := by
      intro e; subst e
      rw [(dropTask_future w t ht hs).1] at h1; cases h1
    rw [dropTask_future_other w t ht s hne] at h1
    refine ⟨h1, ?_⟩
    intro t' ht'
    rcases List.mem_cons.mp ht' with e | e
    · subst e; exact fun e => hne e.symm
    · exact h2 t' e

theorem runUntilSettledF_acc (pn) (pf : Nat) (c : Nat) (w w' : World)
    (h : runUntilSettledF (runTaskF (pollBlock pn pf)) c w = some w') (hw : HFc c w) (hq : Acc c w) : Acc c w' := by
  unfold runUntilSettledF at h
  split at h
  · simp only [Option.some.injEq] at h
    subst h
    obtain ⟨hc, hwf, hs⟩ := hq
    obtain ⟨g1, g2, g3⟩ := dropAll_guards (w.cmd c).tasks.values w hw.t
    generalize hW : (w.cmd c).tasks.values.foldl (fun w t => w.dropTask t) w = W at g1 g2 g3
    have hc' : c < W.cmds.length := by rw [g2]; exact hc
    have hnew : (W.modCmd c fun x => { x with tasks := {} }).cmd c = { w.cmd c with tasks := {} } := by
      rw [World.cmd_modCmd_self, cmd_of_lt hc']
      simp only [World.cmd, g2]
    refine ⟨by simpa [World.modCmd, modifyNth_length] using hc', by rw [hnew]; exact Slab.wf_empty, ?_⟩
    intro s hl ha
    have hl' : s < w.metas.length := by rw [← g1]; exact hl
    obtain ⟨a1, a2⟩ := g3 s hl' ha
    unfold Stored
    rw [hnew]
    rcases hs s hl' a1 with ⟨tid0, t0, hg0, e⟩ | ⟨t0, ht0, e⟩
    · exact absurd e (a2 t0 (Slab.mem_values_of_get _ _ _ hg0))
    · exact Or.inr ⟨t0, ht0, e⟩
  · exact settleLoop_acc pn pf c _ w w' h hw hq

theorem runUntilSettled_acc (c : Nat) (w w' : World) (h : runUntilSettled c w = some w') (hw : HFc c w) (hq : Acc c w) :
    Acc c w' :=
  runUntilSettledF_acc _ _ c w w' h hw hq

/-! ### the shell's side -/

theorem acc_dropSender (c : Nat) (w : World) (l : Nat) (hq : Acc c w) : Acc c (w.dropSender l) := by
  unfold World.dropSender
  simp only
  split
  · exact acc_modLeaf l _ hq
  · split
    · exact acc_wake _ (acc_modLeaf l _ hq)
    · exact acc_modLeaf l _ hq

theorem acc_resolveReq (c : Nat) (r : Resolve) (v : Val) (w : World) (hq : Acc c w) : Acc c (resolveReq r v w).2.2 := by
  have h2 : ∀ l, Acc c (match (w.leaf l).waker with
      | some wk => (w.modLeaf l fun lf => { lf with queue := lf.queue ++ [v], waker := none }).wake wk
      | none => w.modLeaf l fun lf => { lf with queue := lf.queue ++ [v], waker := none }) := by
    intro l
    split
    · exact acc_wake _ (acc_modLeaf l _ hq)
    · exact acc_modLeaf l _ hq
  unfold resolveReq
  cases r with
  | never => exact hq
  | gone => exact hq
  | once l =>
    simp only
    split
    · exact acc_dropSender c _ l (h2 l)
    · exact acc_dropSender c _ l hq
  | many l =>
    simp only
    split
    · exact h2 l
    · exact hq

theorem acc_dropReq (c : Nat) (r : Resolve) (w : World) (hq : Acc c w) : Acc c (dropReq r w).2 := by
  unfold dropReq
  cases r with
  | never => exact hq
  | gone => exact hq
  | once l => exact acc_dropSender c w l hq
  | many l => exact acc_dropSender c w l hq

theorem takeEffects_acc (cid : Nat) (w : World) (es : List Eff) (w' : World) (h : takeEffects cid w = some (es, w'))
    (hw : HFc cid w) (hq : Acc cid w) : Acc cid w' := by
  unfold takeEffects at h
  split at h
  · cases h
  · rename_i w1 hs
    simp only [Option.some.injEq, Prod.mk.injEq] at h
    obtain ⟨_, rfl⟩ := h
    exact (runUntilSettled_acc cid w w1 hs hw hq).of_same (same_modCmd cid _ cid _ (fun _ => rfl) (fun _ => rfl))

theorem takeEvents_acc (cid : Nat) (w : World) (es : List Ev) (w' : World) (h : takeEvents cid w = some (es, w'))
    (hw : HFc cid w) (hq : Acc cid w) : Acc cid w' := by
  unfold takeEvents at h
  split at h
  · cases h
  · rename_i w1 hs
    simp only [Option.some.injEq, Prod.mk.injEq] at h
    obtain ⟨_, rfl⟩ := h
    exact (runUntilSettled_acc cid w w1 hs hw hq).of_same (same_modCmd cid _ cid _ (fun _ => rfl) (fun _ => rfl))

theorem isDone_acc (cid : Nat) (w : World) (d : Bool) (w' : World) (h : isDone cid w = some (d, w'))
    (hw : HFc cid w) (hq : Acc cid w) : Acc cid w' := by
  unfold isDone at h
  split at h
  · cases h
  · rename_i w1 hs
    simp only [Option.some.injEq, Prod.mk.injEq] at h
    obtain ⟨_, rfl⟩ := h
    exact runUntilSettled_acc cid w w1 hs hw hq

end M.Rt

namespace M.Hosts
open M.Rt

/-! ### over whole runs of the direct host -/

def AG (d : Direct) : Prop := GL d ∧ Acc d.cid d.w

theorem Direct.observe_ag (res : String) (d : Direct) (o : Obs) (d' : Direct) (h : d.observe res = some (o, d'))
    (hw : AG d) : AG d' := by
  refine ⟨Direct.observe_gl res d o d' h hw.1, ?_⟩
  have hg := hw.1.1
  unfold Direct.observe at h
  cases h1 : takeEffects d.cid d.w with
  | none => simp [h1] at h
  | some p1 =>
    obtain ⟨effs, w1⟩ := p1
    have g1 := takeEffects_gp _ _ _ _ h1 hg
    have k1 := takeEffects_acc _ _ _ _ h1 hg.ctx.own.hfc hw.2
    cases h2 : takeEvents d.cid w1 with
    | none => simp [h1, h2] at h
    | some p2 =>
      obtain ⟨evs, w2⟩ := p2
      have g2 := takeEvents_gp _ _ _ _ h2 g1
      have k2 := takeEvents_acc _ _ _ _ h2 g1.ctx.own.hfc k1
      cases h3 : isDone d.cid w2 with
      | none => simp [h1, h2, h3] at h
      | some p3 =>
        obtain ⟨dn, w3⟩ := p3
        have k3 := isDone_acc _ _ _ _ h3 g2.ctx.own.hfc k2
        simp [h1, h2, h3] at h
        obtain ⟨_, rfl⟩ := h
        exact k3

theorem Direct.step_ag (d : Direct) (a : Action) (o : Obs) (d' : Direct) (h : d.step a = some (o, d'))
    (hw : AG d) : AG d' := by
  have hg := hw.1.1
  unfold Direct.step at h
  cases a with
  | res k v =>
    simp only at h
    split at h
    · exact Direct.observe_ag _ _ _ _ h hw
    · rename_i reqs res w1 hr
      unfold shellResolve at hr
      split at hr
      · cases hr
      · rename_i e _
        simp only [Option.some.injEq, Prod.mk.injEq] at hr
        obtain ⟨_, _, rfl⟩ := hr
        exact Direct.observe_ag _ _ _ _ h
          ⟨⟨GInv.shell hg (fr_resolveReq d.cid e.res v d.w) (resolveReq_keeps e.res v d.w hg.ctx.sok).1 (tk0_resolveReq e.res v d.w)
            (LL_resolveReq e.res v d.w) (hg.gpa.resolveReq e.res v), lq_resolveReq e.res v d.w hw.1.2⟩,
           acc_resolveReq d.cid e.res v d.w hw.2⟩
  | drop k =>
    simp only at h
    split at h
    · exact Direct.observe_ag _ _ _ _ h hw
    · rename_i reqs w1 hr
      unfold shellDrop at hr
      split at hr
      · cases hr
      · rename_i e _
        simp only [Option.some.injEq, Prod.mk.injEq] at hr
        obtain ⟨_, rfl⟩ := hr
        exact Direct.observe_ag _ _ _ _ h
          ⟨⟨GInv.shell hg (fr_dropReq d.cid e.res d.w) (dropReq_keeps e.res d.w hg.ctx.sok).1 (tk0_dropReq e.res d.w)
            (LL_dropReq e.res d.w) (hg.gpa.dropReq e.res), lq_dropReq e.res d.w hw.1.2⟩,
           acc_dropReq d.cid e.res d.w hw.2⟩
  | abort n =>
    simp only at h
    refine Direct.observe_ag _ _ _ _ h ?_
    show (GInv d.cid (doAbort n d.w) ∧ LQ (doAbort n d.w)) ∧ Acc d.cid (doAbort n d.w)
    unfold doAbort
    split
    · exact ⟨⟨GInv.shell hg (fr_abortCmd d.cid d.w _) (Keeps.of_step hg.ctx.sok (ns_abortCmd d.w _) (SOkN.abortCmd hg.ctx.sok _)).1
        (tk_abortCmd d.w _) (LL_abortCmd d.w _) (hg.gpa.abortCmd _), lq_abortCmd _ hw.1.2⟩, acc_abortCmd _ hw.2⟩
    · exact hw
  | poll => exact Direct.observe_ag _ _ _ _ h hw
  | ev _ _ => simp at h
  | rawRes _ _ _ => simp at h
  | rawEv _ _ => simp at h

theorem Acc_init (is : List Instr) (canon : Bool) :
    Acc (Direct.new (.task is) canon).cid (Direct.new (.task is) canon).w := by
  unfold Direct.new
  simp only [instantiate, newCmd, World.newMeta]
  refine ⟨by simp, ?_, ?_⟩
  · simp only [World.cmd, List.nil_append, List.length_nil, List.getElem?_cons_zero, Option.getD_some]
    exact Slab.wf_insert _ _ Slab.wf_empty
  · intro s hl _
    have : s = 0 := by simp at hl; omega
    subst this
    refine Or.inl ⟨((Slab.empty : Slab Task).insert ⟨0, .mk {} .idle is⟩).1, ⟨0, .mk {} .idle is⟩, ?_, rfl⟩
    simp only [World.cmd, List.nil_append, List.length_nil, List.getElem?_cons_zero, Option.getD_some]
    exact Slab.get_insert_self _ _ Slab.wf_empty

/-- **Every live task future is stored — over whole runs** (host-free task programs under the direct host), together with the
    parking invariant and "a registered waker means a live sender". -/
theorem runDirect_ag (is : List Instr) (hf : hostFreeIs is = true) (canon : Bool) (acts : List Action) (os : List Obs)
    (d : Direct) (h : runDirect (.task is) canon acts = some (os, d)) : AG d := by
  unfold runDirect at h
  have h0 : AG (Direct.new (.task is) canon) := ⟨⟨GInv_init is hf canon, LQ_init is canon⟩, Acc_init is canon⟩
  cases h1 : (Direct.new (.task is) canon).observe "-" with
  | none => simp [h1] at h
  | some p1 =>
    obtain ⟨o, d1⟩ := p1
    have k1 := Direct.observe_ag _ _ _ _ h1 h0
    cases h2 : runSteps Direct.step d1 acts with
    | none => simp [h1, h2] at h
    | some p2 =>
      obtain ⟨os2, d2⟩ := p2
      simp [h1, h2] at h
      obtain ⟨_, rfl⟩ := h
      exact runSteps_inv Direct.step AG Direct.step_ag acts d1 os2 _ h2 k1

/-! ### counting: the live futures are no more than what the slab and the spawn queue hold -/

/-- indices of the metas whose drop guard is alive, from `k` on -/
def aliveFrom : Nat → List Meta → List Nat
  | _, [] => []
  | k, m :: ms => if m.taskAlive then k :: aliveFrom (k + 1) ms else aliveFrom (k + 1) ms

theorem aliveFrom_length : ∀ (k : Nat) (ms : List Meta), (aliveFrom k ms).length = (ms.filter (·.taskAlive)).length
  | _, [] => rfl
  | k, m :: ms => by
    simp only [aliveFrom, List.filter_cons]
    split <;> simp [aliveFrom_length (k + 1) ms]

theorem aliveFrom_mem : ∀ (k : Nat) (ms : List Meta) (s : Nat), s ∈ aliveFrom k ms →
    k ≤ s ∧ s < k + ms.length ∧ (ms[s - k]?.getD {}).taskAlive = true
  | _, [], s, h => by simp [aliveFrom] at h
  | k, m :: ms, s, h => by
    simp only [aliveFrom] at h
    have hrec := aliveFrom_mem (k + 1) ms s
    split at h
    · rename_i hm
      rcases List.mem_cons.mp h with e | e
      · subst e; simp [hm]
      · obtain ⟨a, b, c⟩ := hrec e
        refine ⟨by omega, by simp only [List.length_cons]; omega, ?_⟩
        have : s - k = (s - (k + 1)) + 1 := by omega
        rw [this]; simpa using c
    · obtain ⟨a, b, c⟩ := hrec h
      refine ⟨by omega, by simp only [List.length_cons]; omega, ?_⟩
      have : s - k = (s - (k + 1)) + 1 := by omega
      rw [this]; simpa using c

theorem aliveFrom_nodup : ∀ (k : Nat) (ms : List Meta), (aliveFrom k ms).Nodup
  | _, [] => List.nodup_nil
  | k, m :: ms => by
    simp only [aliveFrom]
    split
    · refine List.nodup_cons.mpr ⟨?_, aliveFrom_nodup (k + 1) ms⟩
      intro h
      have := (aliveFrom_mem (k + 1) ms k h).1
      omega
    · exact aliveFrom_nodup (k + 1) ms

theorem liveFutures_le_stored (c : Nat) (w : World) (h : Acc c w) :
    liveFutures w ≤ (w.cmd c).tasks.len + (w.cmd c).spawnQ.length := by
  unfold liveFutures
  rw [← aliveFrom_length 0 w.metas]
  have hsub : ∀ s ∈ aliveFrom 0 w.metas, s ∈ ((w.cmd c).tasks.values ++ (w.cmd c).spawnQ).map (·.serial) := by
    intro s hs
    obtain ⟨_, hl, ha⟩ := aliveFrom_mem 0 w.metas s hs
    simp only [Nat.zero_add, Nat.sub_zero] at hl ha
    rcases h.2.2 s hl ha with ⟨tid, t, hg, e⟩ | ⟨t, ht, e⟩
    · exact List.mem_map.mpr ⟨t, List.mem_append_left _ (Slab.mem_values_of_get _ _ _ hg), e⟩
    · exact List.mem_map.mpr ⟨t, List.mem_append_right _ ht, e⟩
  have := Lemmas.Timer.nodup_subset_length _ _ (aliveFrom_nodup 0 w.metas) hsub
  simpa [Slab.len] using this

end M.Hosts
