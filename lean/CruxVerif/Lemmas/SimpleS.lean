/-
`simpleS` task programs: `simple` plus `select` — tasks that wait only on shell requests and streams, combined by join and
select. A select that completes drops its losing branch, whose registrations stay behind at live senders: the frames here
are the ones that survive that (`SSGood` simple stays simple and spawned tasks are simple and reference no channel,
`NASGood` nothing is aborted, `MCGood` no join-handle queue and no command holds the poll's waker, `NWGood` a channel
created during the poll holds the poll's waker or none) — one `grind` call each.
-/
import CruxVerif.Lemmas.NoAbort
namespace M.Rt

mutual
def simpleSI : Instr → Bool
  | .emit _ _ => true
  | .notify _ _ => true
  | .req _ _ _ => true
  | .selfwake _ => true
  | .stream _ _ _ _ body => simpleSIs body
  | .spawn _ body => simpleSIs body
  | .join a b => simpleSIs a && simpleSIs b
  | .select a b => simpleSIs a && simpleSIs b
  | _ => false
def simpleSIs : List Instr → Bool
  | [] => true
  | i :: is => simpleSI i && simpleSIs is
end

mutual
def simpleSB : Block → Bool
  | .mk _ cur rest => simpleSP cur && simpleSIs rest
def simpleSP : Pend → Bool
  | .idle => true
  | .reqDead => true
  | .req _ _ => true
  | .selfwake _ => true
  | .streamWait _ _ _ _ body => simpleSIs body
  | .streamBody _ _ _ _ body inner => simpleSIs body && simpleSB inner
  | .join a b _ _ => simpleSB a && simpleSB b
  | .select a b => simpleSB a && simpleSB b
  | _ => false
end

theorem ssB_eq (env : Env) (cur : Pend) (rest : List Instr) : simpleSB (.mk env cur rest) = (simpleSP cur && simpleSIs rest) := by
  simp [simpleSB]
theorem ssP_idle : simpleSP .idle = true := by simp [simpleSP]
theorem ssP_reqDead : simpleSP .reqDead = true := by simp [simpleSP]
theorem ssP_req (x l : Nat) : simpleSP (.req x l) = true := by simp [simpleSP]
theorem ssP_selfwake (k : Nat) : simpleSP (.selfwake k) = true := by simp [simpleSP]
theorem ssP_await (s : Nat) : simpleSP (.await s) = false := by simp [simpleSP]
theorem ssP_host (c : Nat) (m : Mapper) : simpleSP (.host c m) = false := by simp [simpleSP]
theorem ssP_select (a b : Block) : simpleSP (.select a b) = (simpleSB a && simpleSB b) := by simp [simpleSP]
theorem ssP_streamWait (x l c lim : Nat) (body : List Instr) : simpleSP (.streamWait x l c lim body) = simpleSIs body := by
  simp [simpleSP]
theorem ssP_streamBody (x l c lim : Nat) (body : List Instr) (inner : Block) :
    simpleSP (.streamBody x l c lim body inner) = (simpleSIs body && simpleSB inner) := by simp [simpleSP]
theorem ssP_join (a b : Block) (ad bd : Bool) : simpleSP (.join a b ad bd) = (simpleSB a && simpleSB b) := by simp [simpleSP]
theorem ssIs_nil : simpleSIs [] = true := by simp [simpleSIs]
theorem ssIs_cons (i : Instr) (is : List Instr) : simpleSIs (i :: is) = (simpleSI i && simpleSIs is) := by simp [simpleSIs]
theorem ssI_emit (t : Nat) (e : Expr) : simpleSI (.emit t e) = true := by simp [simpleSI]
theorem ssI_notify (t : Nat) (e : Expr) : simpleSI (.notify t e) = true := by simp [simpleSI]
theorem ssI_req (x n : Nat) (e : Expr) : simpleSI (.req x n e) = true := by simp [simpleSI]
theorem ssI_selfwake (k : Nat) : simpleSI (.selfwake k) = true := by simp [simpleSI]
theorem ssI_stream (x n : Nat) (e : Expr) (lim : Nat) (body : List Instr) : simpleSI (.stream x n e lim body) = simpleSIs body := by
  simp [simpleSI]
theorem ssI_spawn (h : Nat) (body : List Instr) : simpleSI (.spawn h body) = simpleSIs body := by simp [simpleSI]
theorem ssI_join (a b : List Instr) : simpleSI (.join a b) = (simpleSIs a && simpleSIs b) := by simp [simpleSI]
theorem ssI_select (a b : List Instr) : simpleSI (.select a b) = (simpleSIs a && simpleSIs b) := by simp [simpleSI]
theorem ssI_await (h : Nat) : simpleSI (.await h) = false := by simp [simpleSI]
theorem ssI_abortTask (h : Nat) : simpleSI (.abortTask h) = false := by simp [simpleSI]
theorem ssI_abortCmd (n : Nat) : simpleSI (.abortCmd n) = false := by simp [simpleSI]
theorem ssI_handoff (x n : Nat) (e : Expr) (body : List Instr) : simpleSI (.handoff x n e body) = false := by simp [simpleSI]
theorem ssI_host (c : Nat) (m : Mapper) : simpleSI (.host c m) = false := by simp [simpleSI]

def ssRes : PollRes → Prop
  | .pending b => simpleSB b = true
  | .ready _ => True
theorem ssRes_pending (b : Block) : ssRes (.pending b) = (simpleSB b = true) := rfl
theorem ssRes_ready (e : Env) : ssRes (.ready e) = True := rfl

/-- since `w0`, no task slab was touched and whatever joined a spawn queue is simple and references no channel -/
abbrev SKS (w0 w : World) : Prop := TKp (fun _ t => simpleSB t.fut = true ∧ refsB t.fut = []) w0 w

section
variable {w0 w : World}
theorem sks_sinkEvent (s : Sink) (e : Ev) (h : SKS w0 w) : SKS w0 (w.sinkEvent s e) := h.trans (tk_sinkEvent w s e)
theorem sks_sinkEffect (s : Sink) (e : Eff) (h : SKS w0 w) : SKS w0 (w.sinkEffect s e) := h.trans (tk_sinkEffect w s e)
theorem sks_newLeaf (k : Option Waker) (lg : Bool) (h : SKS w0 w) : SKS w0 (w.newLeaf k lg).2 := h.trans (tk_of_cmds rfl)
theorem sks_newMeta (h : SKS w0 w) : SKS w0 w.newMeta.2 := h.trans (tk_of_cmds rfl)
theorem sks_addSpawn (c : Nat) (t : Task) (ht : simpleSB t.fut = true) (hr : refsB t.fut = []) (h : SKS w0 w) :
    SKS w0 (w.modCmd c (addSpawn t)) := h.trans (tk_spawn w c t ⟨ht, hr⟩)
theorem sks_modMeta (s : Nat) (f : Meta → Meta) (h : SKS w0 w) : SKS w0 (w.modMeta s f) := h.trans (tk_of_cmds rfl)
theorem sks_modLeaf (l : Nat) (f : Leaf → Leaf) (h : SKS w0 w) : SKS w0 (w.modLeaf l f) := h.trans (tk_of_cmds rfl)
theorem sks_dropReceiver (l : Nat) (h : SKS w0 w) : SKS w0 (w.dropReceiver l) := h.trans (tk_dropReceiver w l)
theorem sks_dropBlock (b : Block) (hb : hostFreeB b = true) (h : SKS w0 w) : SKS w0 (w.dropBlock b) :=
  h.trans (tk_World_dropBlock w b hb)
theorem sks_wake (k : Waker) (h : SKS w0 w) : SKS w0 (w.wake k) := h.trans (tk_World_wake w k)
theorem sks_execSpawn (xs : List ExecTask) (h : SKS w0 w) : SKS w0 ({ w with execSpawn := xs } : World) := h.trans (tk_of_cmds rfl)
end

def SSGood (pn : Waker → Nat → World → Option (NextRes × World)) (w0 : World) (f : Nat) : Prop :=
  ∀ wk sink b w r w', pollBlock pn f wk sink b w = some (r, w') → hostFreeB b = true → simpleSB b = true → SKS w0 w →
    SKS w0 w' ∧ ssRes r

theorem ssgood_succ (pn) (w0 : World) (f : Nat) (ih : SSGood pn w0 f) : SSGood pn w0 (f + 1) := by
  intro wk sink b w r w' h hf hs hw
  obtain ⟨env, cur, rest⟩ := b
  have hres := fun wk b w r w' h hf => (pollBlock_lgood pn f wk sink b w r w' h hf).2
  unfold pollBlock at h
  simp only [addJoinWaker_eq, addSpawn_eq, setWaker_eq, setQueue_eq] at h
  unfold SSGood at ih
  grind (gen := 20) (splits := 40) [sks_sinkEvent, sks_sinkEffect, sks_newLeaf, sks_newMeta, sks_addSpawn, sks_modMeta, sks_modLeaf,
    sks_dropReceiver, sks_dropBlock, sks_wake, sks_execSpawn, rfB_eq, rfP_idle,
    ssB_eq, ssP_idle, ssP_reqDead, ssP_req, ssP_selfwake, ssP_await, ssP_host, ssP_select, ssP_streamWait, ssP_streamBody, ssP_join,
    ssIs_nil, ssIs_cons, ssI_emit, ssI_notify, ssI_req, ssI_selfwake, ssI_stream, ssI_spawn, ssI_join, ssI_select, ssI_await,
    ssI_abortTask, ssI_abortCmd, ssI_handoff, ssI_host, ssRes_pending, ssRes_ready,
    hfB_eq, hfP_idle, hfP_reqDead, hfP_req, hfP_await, hfP_selfwake, hfP_streamWait,
    hfP_streamBody, hfP_join, hfP_select, hfP_host, hfIs_nil, hfIs_cons, hfI_host, hfI_stream, hfI_spawn, hfI_handoff,
    hfI_join, hfI_select, hfRes_pending]

theorem pollBlock_ssgood (pn) (w0 : World) : ∀ f, SSGood pn w0 f
  | 0 => by intro wk sink b w r w' h; simp [pollBlock] at h
  | f + 1 => ssgood_succ pn w0 f (pollBlock_ssgood pn w0 f)

/-! nothing is aborted -/
def NASGood (pn : Waker → Nat → World → Option (NextRes × World)) (f : Nat) : Prop :=
  ∀ wk sink b w r w', pollBlock pn f wk sink b w = some (r, w') → hostFreeB b = true → simpleSB b = true → NAb w → NAb w'

theorem nasgood_succ (pn) (f : Nat) (ih : NASGood pn f) : NASGood pn (f + 1) := by
  intro wk sink b w r w' h hf hs hw
  obtain ⟨env, cur, rest⟩ := b
  have hres := fun wk b w r w' h hf => (pollBlock_lgood pn f wk sink b w r w' h hf).2
  unfold pollBlock at h
  simp only [addJoinWaker_eq, addSpawn_eq, setWaker_eq, setQueue_eq] at h
  unfold NASGood at ih
  grind (gen := 20) (splits := 40) [nab_newMeta, nab_sinkEvent, nab_sinkEffect, nab_newLeaf, nab_modCmd, nab_modLeaf, nab_dropReceiver,
    nab_execSpawn, nab_wake, nab_dropBlock,
    ssB_eq, ssP_idle, ssP_reqDead, ssP_req, ssP_selfwake, ssP_await, ssP_host, ssP_select, ssP_streamWait, ssP_streamBody, ssP_join,
    ssIs_nil, ssIs_cons, ssI_emit, ssI_notify, ssI_req, ssI_selfwake, ssI_stream, ssI_spawn, ssI_join, ssI_select, ssI_await,
    ssI_abortTask, ssI_abortCmd, ssI_handoff, ssI_host,
    hfB_eq, hfP_idle, hfP_reqDead, hfP_req, hfP_await, hfP_selfwake, hfP_streamWait,
    hfP_streamBody, hfP_join, hfP_select, hfP_host, hfIs_nil, hfIs_cons, hfI_host, hfI_stream, hfI_spawn, hfI_handoff,
    hfI_join, hfI_select, hfRes_pending]

theorem pollBlock_nasgood (pn) : ∀ f, NASGood pn f
  | 0 => by intro wk sink b w r w' h; simp [pollBlock] at h
  | f + 1 => nasgood_succ pn f (pollBlock_nasgood pn f)

/-! no join-handle queue and no command holds a waker with serial `s` -/
structure NoRegMC (s : Nat) (w : World) : Prop where
  metas : ∀ m ∈ w.metas, ∀ k ∈ m.joinWakers, isSerial s (some k) = false
  cmds : ∀ c ∈ w.cmds, isSerial s c.waker = false

theorem NoRegMC.of_same {s : Nat} {w w' : World} (h : NoRegMC s w) (hm : w'.metas = w.metas) (hc : w'.cmds = w.cmds) :
    NoRegMC s w' := ⟨by rw [hm]; exact h.metas, by rw [hc]; exact h.cmds⟩

section
variable {s : Nat} {w : World}
theorem NoRegMC.modCmd (h : NoRegMC s w) (c : Nat) (f : CmdSt → CmdSt)
    (hf : ∀ x, isSerial s x.waker = false → isSerial s (f x).waker = false) : NoRegMC s (w.modCmd c f) :=
  ⟨h.metas, mem_modifyNth (fun x : CmdSt => isSerial s x.waker = false) f hf w.cmds c h.cmds⟩
theorem mc_sinkEvent (sk : Sink) (e : Ev) (h : NoRegMC s w) : NoRegMC s (w.sinkEvent sk e) := by
  cases sk with
  | cmd c => exact h.modCmd c _ (fun _ hx => hx)
  | core => exact h.of_same rfl rfl
theorem mc_sinkEffect (sk : Sink) (e : Eff) (h : NoRegMC s w) : NoRegMC s (w.sinkEffect sk e) := by
  cases sk with
  | cmd c => exact h.modCmd c _ (fun _ hx => hx)
  | core => exact h.of_same rfl rfl
theorem mc_newMeta (h : NoRegMC s w) : NoRegMC s w.newMeta.2 := by
  refine ⟨?_, h.cmds⟩
  intro m hm
  simp only [World.newMeta, List.mem_append, List.mem_singleton] at hm
  rcases hm with hm | rfl
  · exact h.metas m hm
  · intro k hk; cases hk
theorem mc_addSpawn (c : Nat) (t : Task) (h : NoRegMC s w) : NoRegMC s (w.modCmd c (addSpawn t)) := h.modCmd c _ (fun _ hx => hx)
theorem mc_newLeaf (k : Option Waker) (lg : Bool) (h : NoRegMC s w) : NoRegMC s (w.newLeaf k lg).2 := h.of_same rfl rfl
theorem mc_modLeaf (l : Nat) (f : Leaf → Leaf) (h : NoRegMC s w) : NoRegMC s (w.modLeaf l f) := h.of_same rfl rfl
theorem mc_dropReceiver (l : Nat) (h : NoRegMC s w) : NoRegMC s (w.dropReceiver l) := h.of_same rfl rfl
theorem mc_dropBlock (b : Block) (hb : hostFreeB b = true) (h : NoRegMC s w) : NoRegMC s (w.dropBlock b) :=
  dropBlock_hf_ind (NoRegMC s) (fun _ l hw => mc_dropReceiver l hw) _ b w hb h
theorem mc_execSpawn (xs : List ExecTask) (h : NoRegMC s w) : NoRegMC s ({ w with execSpawn := xs } : World) := h.of_same rfl rfl
end

theorem mc_wake (s : Nat) : ∀ (f : Nat) (k : Waker) (w : World), NoRegMC s w → NoRegMC s (wake f k w) := by
  intro f
  induction f with
  | zero =>
    intro k w h
    cases k <;> exact h.of_same rfl rfl
  | succ f ih =>
    intro k w h
    cases k with
    | root e => exact h.of_same rfl rfl
    | task c t s' =>
      simp only [wake]
      have h1 : NoRegMC s (if (w.cmd c).alive = true then w.modCmd c fun y => { y with ready := y.ready ++ [t] } else w) := by
        split
        · exact h.modCmd c _ (fun _ hx => hx)
        · exact h
      generalize (if (w.cmd c).alive = true then w.modCmd c fun y => { y with ready := y.ready ++ [t] } else w) = w1 at h1
      have h2 : NoRegMC s ({ w1 with woken := s' :: w1.woken } : World) := h1.of_same rfl rfl
      split
      · exact h2
      · exact ih _ _ (h2.modCmd c _ (fun _ _ => rfl))

theorem mc_World_wake {s : Nat} {w : World} (k : Waker) (h : NoRegMC s w) : NoRegMC s (w.wake k) := mc_wake s _ k w h

def MCGood (pn : Waker → Nat → World → Option (NextRes × World)) (s : Nat) (f : Nat) : Prop :=
  ∀ wk sink b w r w', pollBlock pn f wk sink b w = some (r, w') → hostFreeB b = true → simpleSB b = true →
    NoRegMC s w → NoRegMC s w'

theorem mcgood_succ (pn) (s : Nat) (f : Nat) (ih : MCGood pn s f) : MCGood pn s (f + 1) := by
  intro wk sink b w r w' h hf hs hw
  obtain ⟨env, cur, rest⟩ := b
  have hres := fun wk b w r w' h hf => (pollBlock_lgood pn f wk sink b w r w' h hf).2
  unfold pollBlock at h
  simp only [addJoinWaker_eq, addSpawn_eq, setWaker_eq, setQueue_eq] at h
  unfold MCGood at ih
  grind (gen := 20) (splits := 40) [mc_sinkEvent, mc_sinkEffect, mc_newMeta, mc_addSpawn, mc_newLeaf, mc_modLeaf, mc_dropReceiver,
    mc_dropBlock, mc_execSpawn, mc_World_wake,
    ssB_eq, ssP_idle, ssP_reqDead, ssP_req, ssP_selfwake, ssP_await, ssP_host, ssP_select, ssP_streamWait, ssP_streamBody, ssP_join,
    ssIs_nil, ssIs_cons, ssI_emit, ssI_notify, ssI_req, ssI_selfwake, ssI_stream, ssI_spawn, ssI_join, ssI_select, ssI_await,
    ssI_abortTask, ssI_abortCmd, ssI_handoff, ssI_host,
    hfB_eq, hfP_idle, hfP_reqDead, hfP_req, hfP_await, hfP_selfwake, hfP_streamWait,
    hfP_streamBody, hfP_join, hfP_select, hfP_host, hfIs_nil, hfIs_cons, hfI_host, hfI_stream, hfI_spawn, hfI_handoff,
    hfI_join, hfI_select, hfRes_pending]

theorem pollBlock_mcgood (pn) (s : Nat) : ∀ f, MCGood pn s f
  | 0 => by intro wk sink b w r w' h; simp [pollBlock] at h
  | f + 1 => mcgood_succ pn s f (pollBlock_mcgood pn s f)

end M.Rt
