/- `QS` through the command executor for a command whose tasks are host-free. -/
import CruxVerif.Lemmas.QPoll
namespace M.Rt

/-- every stored task of command `c` is host-free -/
structure HFc (c : Nat) (w : World) : Prop where
  t : ∀ t ∈ (w.cmd c).tasks.values, hostFreeB t.fut = true
  s : ∀ t ∈ (w.cmd c).spawnQ, hostFreeB t.fut = true

theorem HFc.tk {c : Nat} {w w' : World} (h : HFc c w) (f : TK w w') : HFc c w' :=
  ⟨fun t ht => h.t t (by rw [← f.tasks c]; exact ht), fun t ht => (f.spawn c t ht).elim (h.s t) id⟩

theorem HFc.tk0 {c : Nat} {w w' : World} (h : HFc c w) (f : TK0 w w') : HFc c w' := h.tk (f.imp (fun _ _ x => x.elim))

theorem HFc.modCmd {c : Nat} {w : World} (h : HFc c w) (g : CmdSt → CmdSt)
    (hgt : ∀ x, ∀ t ∈ (g x).tasks.values, t ∈ x.tasks.values ∨ hostFreeB t.fut = true)
    (hgs : ∀ x, ∀ t ∈ (g x).spawnQ, t ∈ x.spawnQ ∨ hostFreeB t.fut = true) : HFc c (w.modCmd c g) := by
  refine ⟨?_, ?_⟩
  · intro t ht
    rw [World.cmd_modCmd_self] at ht
    cases hc : w.cmds[c]? with
    | none => simp [hc, Slab.values] at ht
    | some x =>
      simp only [hc] at ht
      rcases hgt x t ht with hm | hm
      · exact h.t t (by simp only [World.cmd, hc]; exact hm)
      · exact hm
  · intro t ht
    rw [World.cmd_modCmd_self] at ht
    cases hc : w.cmds[c]? with
    | none => simp [hc] at ht
    | some x =>
      simp only [hc] at ht
      rcases hgs x t ht with hm | hm
      · exact h.s t (by simp only [World.cmd, hc]; exact hm)
      · exact hm

theorem HFc.of_qs {c d : Nat} {w w' : World} (h : HFc d w) (q : QS (some c) w w') (hd : c ≠ d) : HFc d w' := by
  have o := q.other d (fun e => hd (Option.some.inj e).symm)
  exact ⟨by rw [o.1]; exact h.t, by rw [o.2.1]; exact h.s⟩

theorem HFc.of_qs_none {d : Nat} {w w' : World} (h : HFc d w) (q : QS none w w') : HFc d w' := by
  have o := q.other d (fun e => by cases e)
  exact ⟨by rw [o.1]; exact h.t, by rw [o.2.1]; exact h.s⟩

theorem QS.fields {me : Option Nat} (w w' : World) (hc : w'.cmds = w.cmds) (hm : w'.metas = w.metas)
    (hr : w'.execReady = w.execReady) (hs : w'.execSpawn = w.execSpawn) : QS me w w' :=
  QS.of_fields hc hm (fun e h => by rw [hr]; exact h) (fun t h => by rw [hs]; exact h)

theorem runTaskF_q (pn) (f : Nat) (c tid : Nat) (w : World) (st : TaskState) (w' : World)
    (h : runTaskF (pollBlock pn f) c tid w = some (st, w')) (hw : HFc c w) : QS (some c) w w' ∧ HFc c w' := by
  unfold runTaskF at h
  split at h
  · simp only [Option.some.injEq, Prod.mk.injEq] at h; obtain ⟨_, rfl⟩ := h; exact ⟨QS.refl _ w, hw⟩
  · rename_i t hg
    have htf : hostFreeB t.fut = true := hw.t t (Slab.mem_values_of_get _ _ _ hg)
    split at h
    · simp only [Option.some.injEq, Prod.mk.injEq] at h; obtain ⟨_, rfl⟩ := h; exact ⟨QS.refl _ w, hw⟩
    · dsimp only at h
      have q0 : QS (some c) w ({ w with nextSerial := w.nextSerial + 1 } : World) := QS.fields _ _ rfl rfl rfl rfl
      have h0 : HFc c ({ w with nextSerial := w.nextSerial + 1 } : World) := hw.tk0 (tk_of_cmds rfl)
      split at h
      · cases h
      · rename_i env1 w1 hpoll
        simp only [Option.some.injEq, Prod.mk.injEq] at h
        obtain ⟨_, rfl⟩ := h
        exact ⟨q0.trans (pollBlock_qs _ _ _ _ _ _ _ _ hpoll htf),
          h0.tk (pollBlock_tgood _ _ _ _ _ _ _ _ _ hpoll htf (fun _ _ _ x => x))⟩
      · rename_i b w1 hpoll
        have q1 := q0.trans (pollBlock_qs _ _ _ _ _ _ _ _ hpoll htf)
        have h1 : HFc c w1 := h0.tk (pollBlock_tgood _ _ _ _ _ _ _ _ _ hpoll htf (fun _ _ _ x => x))
        have hb : hostFreeB b = true := (pollBlock_lgood _ _ _ _ _ _ _ _ hpoll htf).2
        have q2 : QS (some c) w (w1.modCmd c fun x => { x with tasks := x.tasks.set tid { t with fut := b } }) :=
          q1.trans (QS.modCmd_me w1 c _ (fun _ => rfl) (fun _ => rfl) (fun _ => rfl))
        have h2 : HFc c (w1.modCmd c fun x => { x with tasks := x.tasks.set tid { t with fut := b } }) := by
          refine h1.modCmd _ ?_ ?_
          · intro x t' ht'
            rcases Slab.mem_values_set _ _ _ _ ht' with rfl | hm
            · exact Or.inr hb
            · exact Or.inl hm
          · intro x t' ht'; exact Or.inl ht'
        have fin : ∀ (pf : Nat → Bool), QS (some c) w ({ (w1.modCmd c fun x => { x with tasks := x.tasks.set tid { t with fut := b } })
            with woken := (w1.modCmd c fun x => { x with tasks := x.tasks.set tid { t with fut := b } }).woken.filter pf } : World) ∧
            HFc c ({ (w1.modCmd c fun x => { x with tasks := x.tasks.set tid { t with fut := b } })
            with woken := (w1.modCmd c fun x => { x with tasks := x.tasks.set tid { t with fut := b } }).woken.filter pf } : World) := by
          intro pf
          exact ⟨q2.trans (QS.fields _ _ rfl rfl rfl rfl), h2.tk0 (tk_of_cmds rfl)⟩
        split at h
        · simp only [Option.some.injEq, Prod.mk.injEq] at h; obtain ⟨_, rfl⟩ := h; exact fin _
        · simp only [Option.some.injEq, Prod.mk.injEq] at h; obtain ⟨_, rfl⟩ := h; exact fin _

theorem dropTask_q (me : Option Nat) (c : Nat) (w : World) (t : Task) (ht : hostFreeB t.fut = true) (hw : HFc c w) :
    QS me w (w.dropTask t) ∧ HFc c (w.dropTask t) := by
  unfold World.dropTask M.Rt.dropTask
  simp only
  have q1 : QS me w (w.modMeta t.serial fun m => { m with taskAlive := false, joinWakers := [] }) :=
    QS.modMeta w _ _ (fun _ h => h)
  have h1 : HFc c (w.modMeta t.serial fun m => { m with taskAlive := false, joinWakers := [] }) := hw.tk0 (tk_of_cmds rfl)
  exact ⟨q1.trans (World_dropBlock_qs me _ t.fut ht), h1.tk (tk_World_dropBlock _ t.fut ht)⟩

theorem finishTask_q (c tid : Nat) (w : World) (hw : HFc c w) : QS (some c) w (finishTask c tid w) ∧ HFc c (finishTask c tid w) := by
  unfold finishTask
  simp only
  split
  · exact ⟨QS.refl _ w, hw⟩
  · rename_i t tasks hr
    have htm : t ∈ (w.cmd c).tasks.values := by
      have : (w.cmd c).tasks.get? tid = some t := by
        cases hg : (w.cmd c).tasks.get? tid with
        | none => rw [Slab.remove_none _ _ hg] at hr; cases hr
        | some t' =>
          have := (Slab.remove_get _ _ _ hg).1
          rw [hr] at this; simp only [Option.some.injEq] at this; rw [this]
      exact Slab.mem_values_of_get _ _ _ this
    have htf := hw.t t htm
    have q1 : QS (some c) w (w.modCmd c fun x => { x with tasks := tasks }) :=
      QS.modCmd_me w c _ (fun _ => rfl) (fun _ => rfl) (fun _ => rfl)
    have hT : tasks = ((w.cmd c).tasks.remove tid).2 := by rw [hr]
    have h1 : HFc c (w.modCmd c fun x => { x with tasks := tasks }) := by
      refine hw.modCmd _ ?_ ?_
      · intro x t' ht'
        have : t' ∈ (w.cmd c).tasks.values := by
          simp only at ht'; rw [hT] at ht'; exact Slab.mem_values_remove _ _ _ ht'
        exact Or.inr (hw.t t' this)
      · intro x t' ht'; exact Or.inl ht'
    generalize (w.modCmd c fun x => { x with tasks := tasks }) = w1 at q1 h1 ⊢
    have q2 : QS (some c) w1 (w1.modMeta t.serial fun m => { m with finished := true, joinWakers := [] }) :=
      QS.modMeta w1 _ _ (fun _ h => h)
    have h2 : HFc c (w1.modMeta t.serial fun m => { m with finished := true, joinWakers := [] }) := h1.tk0 (tk_of_cmds rfl)
    generalize (w1.modMeta t.serial fun m => { m with finished := true, joinWakers := [] }) = w2 at q2 h2 ⊢
    have q3 := wakeAll_qs (some c) (w1.getMeta t.serial).joinWakers w2
    have h3 : HFc c (w2.wakeAll (w1.getMeta t.serial).joinWakers) := h2.tk0 (tk0_wakeAll _ w2)
    have d := dropTask_q (some c) c _ t htf h3
    exact ⟨((q1.trans q2).trans q3).trans d.1, d.2⟩

end M.Rt

namespace M.Rt

theorem spawn_fold_q (c : Nat) : ∀ (l : List Task) (W : World), (∀ t ∈ l, hostFreeB t.fut = true) → HFc c W →
    QS (some c) W (l.foldl (fun w t => w.modCmd c fun x => { x with tasks := (x.tasks.insert t).2, ready := x.ready ++ [(x.tasks.insert t).1] }) W) ∧
    HFc c (l.foldl (fun w t => w.modCmd c fun x => { x with tasks := (x.tasks.insert t).2, ready := x.ready ++ [(x.tasks.insert t).1] }) W) := by
  intro l
  induction l with
  | nil => intro W _ h; exact ⟨QS.refl _ W, h⟩
  | cons t l ih =>
    intro W hl h
    simp only [List.foldl_cons]
    have q1 : QS (some c) W (W.modCmd c fun x => { x with tasks := (x.tasks.insert t).2, ready := x.ready ++ [(x.tasks.insert t).1] }) :=
      QS.modCmd_me W c _ (fun _ => rfl) (fun _ => rfl) (fun _ => rfl)
    have h1 : HFc c (W.modCmd c fun x => { x with tasks := (x.tasks.insert t).2, ready := x.ready ++ [(x.tasks.insert t).1] }) := by
      refine h.modCmd _ ?_ ?_
      · intro x t' ht'
        rcases Slab.mem_values_insert _ _ _ ht' with rfl | hm
        · exact Or.inr (hl _ (by simp))
        · exact Or.inl hm
      · intro x t' ht'; exact Or.inl ht'
    have := ih _ (fun x hx => hl x (by simp [hx])) h1
    exact ⟨q1.trans this.1, this.2⟩

theorem spawnNewTasks_q (c : Nat) (w : World) (hw : HFc c w) : QS (some c) w (spawnNewTasks c w) ∧ HFc c (spawnNewTasks c w) := by
  unfold spawnNewTasks
  have q0 : QS (some c) w (w.modCmd c fun x => { x with spawnQ := [] }) :=
    QS.modCmd_me w c _ (fun _ => rfl) (fun _ => rfl) (fun _ => rfl)
  have h0 : HFc c (w.modCmd c fun x => { x with spawnQ := [] }) := by
    refine hw.modCmd _ ?_ ?_
    · intro x t' ht'; exact Or.inl ht'
    · intro x t' ht'; cases ht'
  have := spawn_fold_q c (w.cmd c).spawnQ _ hw.s h0
  exact ⟨q0.trans this.1, this.2⟩

theorem drainReady_q (pn) (pf : Nat) (c : Nat) : ∀ (f : Nat) (w w' : World),
    drainReady (runTaskF (pollBlock pn pf)) f c w = some w' → HFc c w → QS (some c) w w' ∧ HFc c w' := by
  intro f
  induction f with
  | zero => intro w w' h; simp [drainReady] at h
  | succ f ih =>
    intro w w' h hw
    unfold drainReady at h
    split at h
    · simp only [Option.some.injEq] at h; subst h; exact ⟨QS.refl _ w, hw⟩
    · rename_i tid rest _
      have q0 : QS (some c) w (w.modCmd c fun x => { x with ready := rest }) :=
        QS.modCmd_me w c _ (fun _ => rfl) (fun _ => rfl) (fun _ => rfl)
      have h0 : HFc c (w.modCmd c fun x => { x with ready := rest }) :=
        hw.modCmd _ (fun _ _ h => Or.inl h) (fun _ _ h => Or.inl h)
      simp only at h
      split at h
      · cases h
      · rename_i w1 hrt
        have r := runTaskF_q pn pf c tid _ _ w1 hrt h0
        have := ih w1 w' h r.2
        exact ⟨(q0.trans r.1).trans this.1, this.2⟩
      · rename_i w1 hrt
        have r := runTaskF_q pn pf c tid _ _ w1 hrt h0
        have := ih w1 w' h r.2
        exact ⟨(q0.trans r.1).trans this.1, this.2⟩
      · rename_i w1 hrt
        have r := runTaskF_q pn pf c tid _ _ w1 hrt h0
        have fi := finishTask_q c tid w1 r.2
        have := ih _ w' h fi.2
        exact ⟨((q0.trans r.1).trans fi.1).trans this.1, this.2⟩
      · rename_i w1 hrt
        have r := runTaskF_q pn pf c tid _ _ w1 hrt h0
        have fi := finishTask_q c tid w1 r.2
        have := ih _ w' h fi.2
        exact ⟨((q0.trans r.1).trans fi.1).trans this.1, this.2⟩

theorem settleLoop_q (pn) (pf : Nat) (c : Nat) : ∀ (f : Nat) (w w' : World),
    settleLoop (runTaskF (pollBlock pn pf)) f c w = some w' → HFc c w → QS (some c) w w' ∧ HFc c w' := by
  intro f
  induction f with
  | zero => intro w w' h; simp [settleLoop] at h
  | succ f ih =>
    intro w w' h hw
    unfold settleLoop at h
    simp only at h
    have k0 := spawnNewTasks_q c w hw
    split at h
    · simp only [Option.some.injEq] at h; subst h; exact k0
    · split at h
      · cases h
      · rename_i w1 hd
        have d := drainReady_q pn pf c _ _ w1 hd k0.2
        have := ih w1 w' h d.2
        exact ⟨(k0.1.trans d.1).trans this.1, this.2⟩

theorem runUntilSettledF_q (pn) (pf : Nat) (c : Nat) (w w' : World)
    (h : runUntilSettledF (runTaskF (pollBlock pn pf)) c w = some w') (hw : HFc c w) : QS (some c) w w' ∧ HFc c w' := by
  unfold runUntilSettledF at h
  split at h
  · simp only [Option.some.injEq] at h
    subst h
    have hP : ∀ (l : List Task) (W : World), (∀ t ∈ l, hostFreeB t.fut = true) → HFc c W →
        QS (some c) W (l.foldl (fun w t => w.dropTask t) W) ∧ HFc c (l.foldl (fun w t => w.dropTask t) W) := by
      intro l
      induction l with
      | nil => intro W _ h; exact ⟨QS.refl _ W, h⟩
      | cons t l ih =>
        intro W hl h
        simp only [List.foldl_cons]
        have d := dropTask_q (some c) c W t (hl t (by simp)) h
        have := ih _ (fun x hx => hl x (by simp [hx])) d.2
        exact ⟨d.1.trans this.1, this.2⟩
    have h1 := hP (w.cmd c).tasks.values w hw.t hw
    refine ⟨h1.1.trans (QS.modCmd_me _ c _ (fun _ => rfl) (fun _ => rfl) (fun _ => rfl)), ?_⟩
    refine h1.2.modCmd _ ?_ ?_
    · intro x t' ht'; simp [Slab.values] at ht'
    · intro x t' ht'; exact Or.inl ht'
  · exact settleLoop_q pn pf c _ w w' h hw

end M.Rt
