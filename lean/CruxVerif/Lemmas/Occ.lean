/-
Occupancy of the Core's executor by commands (flat apps): an executor task never hosts a dropped command, a command is hosted
at most once, and — with the scheduling invariant — at quiescence every hosted command is live and not done.
-/
import CruxVerif.Lemmas.RCore
namespace M.Rt

def cmdIds (l : List ExecTask) : List Nat := l.filterMap fun t => match t with | .cmd c => some c | .legacy _ => none

theorem mem_cmdIds {l : List ExecTask} {c : Nat} : c ∈ cmdIds l ↔ ExecTask.cmd c ∈ l := by
  unfold cmdIds
  simp only [List.mem_filterMap]
  constructor
  · rintro ⟨t, ht, h⟩
    cases t with
    | cmd c' => simp only [Option.some.injEq] at h; subst h; exact ht
    | legacy b => cases h
  · intro h; exact ⟨_, h, rfl⟩

structure OC (k : Core) : Prop where
  nd : ∀ e c, hostedBy k.execTasks c e → (k.w.cmd c).alive = true
  uq : ∀ e e' c, hostedBy k.execTasks c e → hostedBy k.execTasks c e' → e = e'
  sf : ∀ c, ExecTask.cmd c ∈ k.w.execSpawn → ∀ e, ¬ hostedBy k.execTasks c e
  sc : (cmdIds k.w.execSpawn).Nodup
  sa : ∀ c, ExecTask.cmd c ∈ k.w.execSpawn → (k.w.cmd c).alive = true

/-- liveness through the CommandSpawner loop: only the hosted command may die, and only by finishing -/
theorem spawnerLoop_alive (c : Nat) : ∀ (f etid : Nat) (w : World) (d : Bool) (w' : World),
    spawnerLoop f etid c w = some (d, w') → (∀ x, HFc x w) → c < w.cmds.length →
    (∀ x, HFc x w') ∧ w'.cmds.length = w.cmds.length ∧ (∀ x, x ≠ c → (w'.cmd x).alive = (w.cmd x).alive) ∧
    (d = false → (w'.cmd c).alive = (w.cmd c).alive) ∧ w'.execSpawn = w.execSpawn := by
  intro f
  induction f with
  | zero => intro etid w d w' h; simp [spawnerLoop] at h
  | succ f ih =>
    intro etid w d w' h hf hin
    unfold spawnerLoop at h
    have pre : ∀ (r : NextRes) (w1 : World), pollNext (.root etid) c w = some (r, w1) →
        (∀ x, HFc x w1) ∧ w1.cmds.length = w.cmds.length ∧ (∀ x, (w1.cmd x).alive = (w.cmd x).alive) ∧
        w1.execSpawn = w.execSpawn := by
      intro r w1 hp
      have x1 := es_of_X (pollNext_x _ _ _ _ _ hp)
      have p := pollNext_q _ c w r w1 hp (hf c)
      generalize hw0 : (w.modCmd c fun x => { x with waker := some (Waker.root etid) }) = w0 at p
      have hoth : ∀ x, c ≠ x → w0.cmd x = w.cmd x := by intro x hx; subst hw0; exact World.cmd_modCmd_other w c x _ hx
      have hlen0 : w0.cmds.length = w.cmds.length := by subst hw0; simp [World.modCmd, modifyNth_length]
      have hal0 : ∀ x, (w0.cmd x).alive = (w.cmd x).alive := by
        intro x
        by_cases e : c = x
        · subst e; subst hw0; refine cmd_modCmd_keep (·.alive) w c _ ?_; intro _; rfl
        · rw [hoth x e]
      refine ⟨?_, p.1.len.trans hlen0, fun x => (p.1.alive x).trans (hal0 x), x1⟩
      intro x
      by_cases e : c = x
      · subst e; exact p.2.1
      · have h0 : HFc x w0 := ⟨by rw [hoth x e]; exact (hf x).t, by rw [hoth x e]; exact (hf x).s⟩
        exact h0.of_qs p.1 e
    split at h
    · cases h
    · rename_i e w1 hp
      obtain ⟨a1, a2, a3, a4⟩ := pre _ w1 hp
      have := ih etid (w1.sinkEffect .core e) d w' h (fun x => ⟨(a1 x).t, (a1 x).s⟩) (by show c < w1.cmds.length; omega)
      exact ⟨this.1, this.2.1.trans a2, fun x hx => (this.2.2.1 x hx).trans (a3 x), fun hd => (this.2.2.2.1 hd).trans (a3 c),
        this.2.2.2.2.trans a4⟩
    · rename_i e w1 hp
      obtain ⟨a1, a2, a3, a4⟩ := pre _ w1 hp
      have := ih etid (w1.sinkEvent .core e) d w' h (fun x => ⟨(a1 x).t, (a1 x).s⟩) (by show c < w1.cmds.length; omega)
      exact ⟨this.1, this.2.1.trans a2, fun x hx => (this.2.2.1 x hx).trans (a3 x), fun hd => (this.2.2.2.1 hd).trans (a3 c),
        this.2.2.2.2.trans a4⟩
    · rename_i w1 hp
      obtain ⟨a1, a2, a3, a4⟩ := pre _ w1 hp
      simp only [Option.some.injEq, Prod.mk.injEq] at h
      obtain ⟨rfl, rfl⟩ := h
      obtain ⟨wk, q, hoth, hm, hr, hs, hl, hdead, hfk⟩ := dropCmd_flat c w1 (a1 c) (by omega)
      refine ⟨?_, by rw [q.len, hl, a2], ?_, fun hd => (by cases hd), by rw [es_of_X (X_World_dropCmd w1 c)]; exact a4⟩
      · intro x
        have hk : HFc x wk := by
          by_cases e : c = x
          · subst e; exact hfk
          · exact ⟨by rw [hoth x e]; exact (a1 x).t, by rw [hoth x e]; exact (a1 x).s⟩
        exact hk.of_qs_none q
      · intro x hx
        rw [q.alive x, hoth x (Ne.symm hx)]; exact a3 x
    · rename_i w1 hp
      obtain ⟨a1, a2, a3, a4⟩ := pre _ w1 hp
      simp only [Option.some.injEq, Prod.mk.injEq] at h
      obtain ⟨rfl, rfl⟩ := h
      exact ⟨a1, a2, fun x _ => a3 x, fun _ => a3 c, a4⟩

end M.Rt

namespace M.Rt

theorem cmdIds_append_legacy (l : List ExecTask) (b : Block) : cmdIds (l ++ [ExecTask.legacy b]) = cmdIds l := by
  simp [cmdIds, List.filterMap_append]

/-- the command ids on the executor's spawn queue -/
def CI (w : World) : List Nat := cmdIds w.execSpawn

theorem CI_of_es {w w' : World} (h : w'.execSpawn = w.execSpawn) : CI w' = CI w := by unfold CI; rw [h]
theorem CI_modLeaf (w : World) (l : Nat) (f : Leaf → Leaf) : CI (w.modLeaf l f) = CI w := rfl
theorem CI_modMeta (w : World) (l : Nat) (f : Meta → Meta) : CI (w.modMeta l f) = CI w := rfl
theorem CI_modCmd (w : World) (l : Nat) (f : CmdSt → CmdSt) : CI (w.modCmd l f) = CI w := rfl
theorem CI_newLeaf (w : World) (k : Option Waker) (lg : Bool) : CI (w.newLeaf k lg).2 = CI w := rfl
theorem CI_newMeta (w : World) : CI w.newMeta.2 = CI w := rfl
theorem CI_sinkEffect (w : World) (s : Sink) (e : Eff) : CI (w.sinkEffect s e) = CI w := CI_of_es (esg_sinkEffect w s e)
theorem CI_sinkEvent (w : World) (s : Sink) (e : Ev) : CI (w.sinkEvent s e) = CI w := CI_of_es (esg_sinkEvent w s e)
theorem CI_dropReceiver (w : World) (l : Nat) : CI (w.dropReceiver l) = CI w := rfl
theorem CI_wake (w : World) (k : Waker) : CI (w.wake k) = CI w := CI_of_es (es_wake w k)
theorem CI_abortCmd (w : World) (c : Nat) : CI (w.abortCmd c) = CI w := CI_of_es (es_abortCmd w c)
theorem CI_dropBlock (w : World) (b : Block) : CI (w.dropBlock b) = CI w := CI_of_es (es_dropBlock w b)
theorem CI_spawn (w : World) (b : Block) : CI ({ w with execSpawn := w.execSpawn ++ [ExecTask.legacy b] } : World) = CI w := by
  unfold CI; exact cmdIds_append_legacy _ b

def CIGood (pn : Waker → Nat → World → Option (NextRes × World)) (f : Nat) : Prop :=
  ∀ wk b w r w', pollBlock pn f wk .core b w = some (r, w') → hostFreeB b = true → CI w' = CI w

theorem cigood_succ (pn) (f : Nat) (ih : CIGood pn f) : CIGood pn (f + 1) := by
  intro wk b w r w' h hf
  obtain ⟨env, cur, rest⟩ := b
  have hres := fun wk b w r w' h hf => (pollBlock_lgood pn f wk .core b w r w' h hf).2
  unfold pollBlock at h
  simp only at h
  unfold CIGood at ih
  grind (gen := 20) (splits := 40) [CI_modLeaf, CI_modMeta, CI_modCmd, CI_newLeaf, CI_newMeta, CI_sinkEffect, CI_sinkEvent,
    CI_dropReceiver, CI_wake, CI_abortCmd, CI_dropBlock, CI_spawn,
    hfB_eq, hfP_idle, hfP_reqDead, hfP_req, hfP_await, hfP_selfwake, hfP_streamWait,
    hfP_streamBody, hfP_join, hfP_select, hfP_host, hfIs_nil, hfIs_cons, hfI_host, hfI_stream, hfI_spawn, hfI_handoff,
    hfI_join, hfI_select, hfRes_pending]

theorem pollBlock_cigood (pn) : ∀ f, CIGood pn f
  | 0 => by intro wk b w r w' h; simp [pollBlock] at h
  | f + 1 => cigood_succ pn f (pollBlock_cigood pn f)

theorem OC.world {k : Core} (h : OC k) (w' : World) (ha : ∀ x, (w'.cmd x).alive = (k.w.cmd x).alive)
    (hci : CI w' = CI k.w) : OC { k with w := w' } := by
  have hm : ∀ c, ExecTask.cmd c ∈ w'.execSpawn ↔ ExecTask.cmd c ∈ k.w.execSpawn := by
    intro c
    rw [← mem_cmdIds, ← mem_cmdIds]
    unfold CI at hci
    rw [hci]
  exact ⟨fun e c hh => by rw [ha]; exact h.nd e c hh, h.uq, fun c hc e => h.sf c ((hm c).mp hc) e,
    by show (cmdIds w'.execSpawn).Nodup; unfold CI at hci; rw [hci]; exact h.sc,
    fun c hc => by rw [ha]; exact h.sa c ((hm c).mp hc)⟩

theorem execRunTask_oc (etid : Nat) (k : Core) (st : RunTask) (k' : Core) (h : execRunTask etid k = some (st, k'))
    (hq : QI k (some etid)) (hk : OC k) : OC k' := by
  unfold execRunTask at h
  split at h
  · simp only [Option.some.injEq, Prod.mk.injEq] at h; obtain ⟨_, rfl⟩ := h; exact hk
  · rename_i c hg
    have hin := hq.host etid c hg
    split at h
    · cases h
    · rename_i w1 hs
      simp only [Option.some.injEq, Prod.mk.injEq] at h; obtain ⟨_, rfl⟩ := h
      obtain ⟨_, _, a3, _, a5⟩ := spawnerLoop_alive c _ etid _ _ _ hs hq.hf hin
      have rg := Slab.remove_get k.execTasks etid _ hg
      have hoth : ∀ e x, hostedBy (k.execTasks.remove etid).2 x e → hostedBy k.execTasks x e ∧ e ≠ etid := by
        intro e x hx
        unfold hostedBy at hx ⊢
        by_cases ee : e = etid
        · subst ee; rw [rg.2.1] at hx; cases hx
        · rw [rg.2.2 e ee] at hx; exact ⟨hx, ee⟩
      have hnc : ∀ x, ExecTask.cmd x ∈ k.w.execSpawn → x ≠ c := by
        intro x hx e; subst e; exact hk.sf x hx etid hg
      refine ⟨?_, ?_, ?_, by show (cmdIds w1.execSpawn).Nodup; rw [a5]; exact hk.sc, ?_⟩
      · intro e x hx
        obtain ⟨h1, h2⟩ := hoth e x hx
        have hne : x ≠ c := by intro e'; subst e'; exact h2 (hk.uq e etid x h1 hg)
        show (w1.cmd x).alive = true
        rw [a3 x hne]; exact hk.nd e x h1
      · intro e e' x h1 h2
        exact hk.uq e e' x (hoth e x h1).1 (hoth e' x h2).1
      · intro x hx e he
        exact hk.sf x (by rw [a5] at hx; exact hx) e (hoth e x he).1
      · intro x hx
        have hx' : ExecTask.cmd x ∈ k.w.execSpawn := by rw [a5] at hx; exact hx
        show (w1.cmd x).alive = true
        rw [a3 x (hnc x hx')]; exact hk.sa x hx'
    · rename_i w1 hs
      simp only [Option.some.injEq, Prod.mk.injEq] at h; obtain ⟨_, rfl⟩ := h
      obtain ⟨_, _, a3, a4, a5⟩ := spawnerLoop_alive c _ etid _ _ _ hs hq.hf hin
      refine hk.world w1 ?_ (CI_of_es a5)
      intro x
      by_cases e : x = c
      · subst e; exact a4 rfl
      · exact a3 x e
  · rename_i b hg
    have hfb : hostFreeB b = true := hq.th _ (Slab.mem_values_of_get _ _ _ hg)
    have common : ∀ (r : PollRes) (w1 : World), pollAt depthFuel (.root etid) .core b k.w = some (r, w1) → OC { k with w := w1 } := by
      intro r w1 hp
      have q := (pollAt_core_q _ _ _ _ _ hp hfb).1
      have hp' : pollBlock (pollNextF (runUntilSettledF (runTaskF (pollAt 63)))) loopFuel (.root etid) .core b k.w = some (r, w1) := hp
      exact hk.world w1 (fun x => q.alive x) (pollBlock_cigood _ _ _ _ _ _ _ hp' hfb)
    -- the executor's slab changes only at a legacy slot
    have slot : ∀ (es' : Slab ExecTask), (∀ e, e ≠ etid → es'.get? e = k.execTasks.get? e) → (∀ x, es'.get? etid ≠ some (.cmd x)) →
        ∀ (w1 : World), OC { k with w := w1 } → OC { k with w := w1, execTasks := es' } := by
      intro es' h1 h2 w1 ho
      have iff : ∀ e x, hostedBy es' x e ↔ hostedBy k.execTasks x e := by
        intro e x
        unfold hostedBy
        by_cases ee : e = etid
        · subst ee
          constructor
          · intro hx; exact absurd hx (h2 x)
          · intro hx; rw [hg] at hx; cases hx
        · rw [h1 e ee]
      exact ⟨fun e x hx => ho.nd e x ((iff e x).mp hx), fun e e' x a b => ho.uq e e' x ((iff e x).mp a) ((iff e' x).mp b),
        fun x hx e he => ho.sf x hx e ((iff e x).mp he), ho.sc, ho.sa⟩
    split at h
    · cases h
    · rename_i env1 w1 hp
      simp only [Option.some.injEq, Prod.mk.injEq] at h; obtain ⟨_, rfl⟩ := h
      have rg := Slab.remove_get k.execTasks etid _ hg
      exact slot _ (fun e he => rg.2.2 e he) (fun x => by rw [rg.2.1]; exact fun h => by cases h) w1 (common _ w1 hp)
    · rename_i b' w1 hp
      simp only [Option.some.injEq, Prod.mk.injEq] at h; obtain ⟨_, rfl⟩ := h
      refine slot _ (fun e he => Slab.get_set_other _ _ _ _ he) ?_ w1 (common _ w1 hp)
      intro x hx
      rw [Slab.get_set_self _ _ _ _ hg] at hx
      cases hx

end M.Rt

namespace M.Rt

/-- both invariants together -/
def QO (k : Core) : Prop := QI k none ∧ OC k

theorem cmdIds_cons (t : ExecTask) (l : List ExecTask) :
    cmdIds (t :: l) = (match t with | .cmd c => [c] | .legacy _ => []) ++ cmdIds l := by
  cases t <;> simp [cmdIds]

theorem OC.popSpawn {k : Core} (hq : QI k none) (hk : OC k) (t : ExecTask) (rest : List ExecTask) (hsp : k.w.execSpawn = t :: rest) :
    OC { k with w := { k.w with execSpawn := rest }, execTasks := (k.execTasks.insert t).2 } := by
  have hself := Slab.get_insert_self k.execTasks t hq.wf
  have hold : ∀ e x, hostedBy k.execTasks x e → hostedBy (k.execTasks.insert t).2 x e := by
    intro e x hx
    unfold hostedBy at hx ⊢
    have : (k.execTasks.insert t).1 ≠ e := Slab.insert_ne_occupied _ _ _ hq.wf (by rw [hx]; rfl)
    rw [Slab.get_insert_other _ _ _ (Ne.symm this)]; exact hx
  -- a command hosted afterwards was hosted before, or is the one just taken off the spawn queue
  have back : ∀ e x, hostedBy (k.execTasks.insert t).2 x e → hostedBy k.execTasks x e ∨ (e = (k.execTasks.insert t).1 ∧ t = .cmd x) := by
    intro e x hx
    unfold hostedBy at hx ⊢
    by_cases ee : e = (k.execTasks.insert t).1
    · subst ee; rw [hself] at hx; cases hx; exact Or.inr ⟨rfl, rfl⟩
    · rw [Slab.get_insert_other _ _ _ ee] at hx; exact Or.inl hx
  have hnd : (cmdIds (t :: rest)).Nodup := by rw [← hsp]; exact hk.sc
  rw [cmdIds_cons] at hnd
  refine ⟨?_, ?_, ?_, ?_, ?_⟩
  · intro e x hx
    show (k.w.cmd x).alive = true
    rcases back e x hx with h | ⟨_, h⟩
    · exact hk.nd e x h
    · exact hk.sa x (by rw [hsp, h]; simp)
  · intro e e' x h1 h2
    rcases back e x h1 with a | ⟨a1, a2⟩ <;> rcases back e' x h2 with b | ⟨b1, b2⟩
    · exact hk.uq e e' x a b
    · exact absurd a (hk.sf x (by rw [hsp, b2]; simp) e)
    · exact absurd b (hk.sf x (by rw [hsp, a2]; simp) e')
    · rw [a1, b1]
  · intro x hx e he
    have hx' : ExecTask.cmd x ∈ rest := hx
    rcases back e x he with a | ⟨_, a2⟩
    · exact hk.sf x (by rw [hsp]; simp [hx']) e a
    · subst a2
      simp only [List.singleton_append, List.nodup_cons] at hnd
      exact hnd.1 (mem_cmdIds.mpr hx')
  · show (cmdIds rest).Nodup
    exact (List.nodup_append.mp hnd).2.1
  · intro x hx
    have hx' : ExecTask.cmd x ∈ rest := hx
    show (k.w.cmd x).alive = true
    exact hk.sa x (by rw [hsp]; simp [hx'])

theorem execDrainSpawn_oc : ∀ (f : Nat) (k : Core) (d : Bool) (k' : Core) (d' : Bool),
    execDrainSpawn f k d = some (k', d') → QO k → QO k' := by
  intro f
  induction f with
  | zero => intro k d k' d' h; simp [execDrainSpawn] at h
  | succ f ih =>
    intro k d k' d' h hk
    unfold execDrainSpawn at h
    split at h
    · simp only [Option.some.injEq, Prod.mk.injEq] at h; obtain ⟨rfl, _⟩ := h; exact hk
    · rename_i t rest hsp
      simp only at h
      split at h
      · cases h
      · rename_i st k1 hr
        have q0 := hk.1.popSpawn t rest hsp
        exact ih k1 true k' d' h ⟨execRunTask_q _ _ _ _ hr q0, execRunTask_oc _ _ _ _ hr q0 (hk.2.popSpawn hk.1 t rest hsp)⟩

theorem execDrainReady_oc : ∀ (f : Nat) (k : Core) (d : Bool) (k' : Core) (d' : Bool),
    execDrainReady f k d = some (k', d') → QO k → QO k' := by
  intro f
  induction f with
  | zero => intro k d k' d' h; simp [execDrainReady] at h
  | succ f ih =>
    intro k d k' d' h hk
    unfold execDrainReady at h
    split at h
    · simp only [Option.some.injEq, Prod.mk.injEq] at h; obtain ⟨rfl, _⟩ := h; exact hk
    · rename_i etid rest hrd
      have q0 := hk.1.popReady etid rest hrd
      have o0 : OC { k with w := { k.w with execReady := rest } } := hk.2.world _ (fun _ => rfl) rfl
      split at h
      · cases h
      · rename_i k1 hr
        exact ih k1 d k' d' h ⟨execRunTask_q _ _ _ _ hr q0, execRunTask_oc _ _ _ _ hr q0 o0⟩
      · rename_i st k1 _ hr
        exact ih k1 true k' d' h ⟨execRunTask_q _ _ _ _ hr q0, execRunTask_oc _ _ _ _ hr q0 o0⟩

theorem runAll_oc : ∀ (f : Nat) (k k' : Core), runAll f k = some k' → QO k → QO k' := by
  intro f
  induction f with
  | zero => intro k k' h; simp [runAll] at h
  | succ f ih =>
    intro k k' h hk
    unfold runAll at h
    split at h
    · cases h
    · rename_i k1 d1 h1
      have s1 := execDrainSpawn_oc _ _ _ _ _ h1 hk
      split at h
      · cases h
      · rename_i k2 d2 h2
        have s2 := execDrainReady_oc _ _ _ _ _ h2 s1
        split at h
        · exact ih k2 k' h s2
        · simp only [Option.some.injEq] at h; subst h; exact s2

end M.Rt

namespace M.Rt

theorem cmdIds_legacy_map (env : Env) (ls : List (List Instr)) :
    cmdIds (ls.map fun is => ExecTask.legacy (.mk env .idle is)) = [] := by
  induction ls with
  | nil => rfl
  | cons a as ih => simp only [List.map_cons, cmdIds_cons, List.nil_append]; exact ih

theorem cmdIds_append (a b : List ExecTask) : cmdIds (a ++ b) = cmdIds a ++ cmdIds b := by
  simp [cmdIds, List.filterMap_append]

theorem OC.extend {k : Core} (hq : QI k none) (hk : OC k) (W : World) (newc : CmdSt) (env : Env) (ls : List (List Instr)) (lg : List Ev)
    (hcmds : W.cmds = k.w.cmds ++ [newc])
    (hs : W.execSpawn = k.w.execSpawn ++ (ls.map fun is => ExecTask.legacy (.mk env .idle is)) ++ [.cmd k.w.cmds.length])
    (hna : newc.alive = true) : OC { k with w := W, log := lg } := by
  have hold : ∀ c, c < k.w.cmds.length → W.cmd c = k.w.cmd c := by
    intro c hc; simp only [World.cmd, hcmds]; exact cmd_append_lt _ _ _ hc
  have hnew : W.cmd k.w.cmds.length = newc := by simp [World.cmd, hcmds]
  have hmem : ∀ x, ExecTask.cmd x ∈ W.execSpawn → ExecTask.cmd x ∈ k.w.execSpawn ∨ x = k.w.cmds.length := by
    intro x hx
    rw [hs] at hx
    simp only [List.mem_append, List.mem_map, List.mem_singleton] at hx
    rcases hx with (hx | ⟨_, _, e⟩) | e
    · exact Or.inl hx
    · cases e
    · cases e; exact Or.inr rfl
  refine ⟨?_, hk.uq, ?_, ?_, ?_⟩
  · intro e x hx
    show (W.cmd x).alive = true
    rw [hold x (hq.host e x hx)]; exact hk.nd e x hx
  · intro x hx e he
    rcases hmem x hx with h | h
    · exact hk.sf x h e he
    · subst h; have := hq.host e _ he; omega
  · show (cmdIds W.execSpawn).Nodup
    rw [hs, cmdIds_append, cmdIds_append, cmdIds_legacy_map, List.append_nil]
    simp only [cmdIds, List.filterMap_cons, List.filterMap_nil]
    rw [List.nodup_append]
    refine ⟨hk.sc, by simp, ?_⟩
    intro a ha b hb
    simp only [List.mem_singleton] at hb
    subst hb
    have := hq.spawnIn a (mem_cmdIds.mp ha)
    omega
  · intro x hx
    show (W.cmd x).alive = true
    rcases hmem x hx with h | h
    · rw [hold x (hq.spawnIn x h)]; exact hk.sa x h
    · subst h; rw [hnew]; exact hna

theorem update_oc (ev : Ev) (k : Core) (hk : QO k) : QO (update ev k) := by
  refine ⟨update_q ev k hk.1, ?_⟩
  unfold update
  simp only
  have body : ∀ (c : Cmd) (ls : List (List Instr)) (env : Env), flatCmd c = true →
      OC { k with
        w := { (instantiate env c { k.w with execSpawn := k.w.execSpawn ++ ls.map fun is => ExecTask.legacy (.mk env .idle is) }).2 with
          execSpawn := (instantiate env c { k.w with execSpawn := k.w.execSpawn ++ ls.map fun is => ExecTask.legacy (.mk env .idle is) }).2.execSpawn ++
            [.cmd (instantiate env c { k.w with execSpawn := k.w.execSpawn ++ ls.map fun is => ExecTask.legacy (.mk env .idle is) }).1] },
        log := k.log ++ [ev] } := by
    intro c ls env hc
    have nf := instantiate_flat env c { k.w with execSpawn := k.w.execSpawn ++ ls.map fun is => ExecTask.legacy (.mk env .idle is) } hc
    obtain ⟨is, _, hcm⟩ := nf.cmds
    refine hk.2.extend hk.1 _ _ env ls _ hcm ?_ rfl
    show _ ++ _ = _
    rw [nf.spawn, nf.cid]
  split
  · rename_i tag c ls hf
    have hm := List.mem_of_find?_eq_some hf
    exact body c ls _ (hk.1.flat _ hm).1
  · exact body .done [] _ rfl

theorem OC.of_fields {k k' : Core} (h : OC k) (hc : k'.w.cmds = k.w.cmds) (hs : k'.w.execSpawn = k.w.execSpawn)
    (ht : k'.execTasks = k.execTasks) : OC k' := by
  have hcmd : ∀ c, k'.w.cmd c = k.w.cmd c := fun c => by simp [World.cmd, hc]
  exact ⟨fun e c hh => by rw [hcmd]; rw [ht] at hh; exact h.nd e c hh, fun e e' c a b => by rw [ht] at a b; exact h.uq e e' c a b,
    fun c hh e he => by rw [hs] at hh; rw [ht] at he; exact h.sf c hh e he, by rw [hs]; exact h.sc,
    fun c hh => by rw [hcmd]; rw [hs] at hh; exact h.sa c hh⟩

theorem processLoop_oc : ∀ (f : Nat) (k k' : Core), processLoop f k = some k' → QO k → QO k' := by
  intro f
  induction f with
  | zero => intro k k' h; simp [processLoop] at h
  | succ f ih =>
    intro k k' h hk
    unfold processLoop at h
    split at h
    · simp only [Option.some.injEq] at h; subst h; exact hk
    · rename_i ev rest _
      split at h
      · cases h
      · rename_i k1 hr
        have k0 : QO { k with w := { k.w with coreEvents := rest } } :=
          ⟨hk.1.of_fields rfl rfl rfl rfl rfl rfl, hk.2.of_fields rfl rfl rfl⟩
        exact ih k1 k' h (runAll_oc _ _ _ hr (update_oc ev _ k0))

theorem process_oc (k : Core) (es : List Eff) (k' : Core) (h : process k = some (es, k')) (hk : QO k) : QO k' := by
  unfold process at h
  split at h
  · cases h
  · rename_i k1 h1
    split at h
    · cases h
    · rename_i k2 h2
      simp only [Option.some.injEq, Prod.mk.injEq] at h
      obtain ⟨_, rfl⟩ := h
      have p := processLoop_oc _ _ _ h2 (runAll_oc _ _ _ h1 hk)
      exact ⟨p.1.of_fields rfl rfl rfl rfl rfl rfl, p.2.of_fields rfl rfl rfl⟩

theorem processEvent_oc (ev : Ev) (k : Core) (es : List Eff) (k' : Core) (h : processEvent ev k = some (es, k'))
    (hk : QO k) : QO k' := process_oc _ _ _ h (update_oc ev k hk)

end M.Rt

namespace M.Hosts
open M.Rt

theorem QO_ops : CoreOps QO where
  pe := fun ev k es k' h hk => processEvent_oc ev k es k' h hk
  pr := fun k es k' h hk => process_oc k es k' h hk
  res := fun k r v hk => ⟨QI_ops.res k r v hk.1, hk.2.world _ (fun x => (resolveReq_qs none r v k.w).alive x)
    (CI_of_es (es_of_X (X_resolveReq r v k.w)))⟩
  ds := fun k l hk => ⟨QI_ops.ds k l hk.1, hk.2.world _ (fun x => (dropSender_qs none k.w l).alive x)
    (CI_of_es (es_of_X (X_dropSender k.w l)))⟩
  ab := fun k n hk => ⟨QI_ops.ab k n hk.1, hk.2.world _ (fun x => by
      unfold doAbort; split
      · exact (abortCmd_qs none _ _).alive x
      · rfl) (CI_of_es (es_of_X (X_doAbort n k.w)))⟩

theorem QO_init (prog : Prog) (hp : progFlat prog) : QO ({ prog := prog } : Core) := by
  refine ⟨QI_init prog hp, ⟨?_, ?_, ?_, List.nodup_nil, ?_⟩⟩
  · intro e c hh; simp [hostedBy, Slab.get?] at hh
  · intro e e' c hh; simp [hostedBy, Slab.get?] at hh
  · intro c hh; cases hh
  · intro c hh; cases hh

end M.Hosts
