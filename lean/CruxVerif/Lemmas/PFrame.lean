/-
Frames of one poll of a host-free block, for the global parking invariant:
  LF  a leaf the block does not reference (and that existed before the poll) is left exactly as it was;
  JF  join-handle waker queues only grow;
  RF  ready queues only grow.
-/
import CruxVerif.Lemmas.RRun
namespace M.Rt

/-! ### leaves -/

theorem pleaf_of_leaves {w w' : World} (h : w'.leaves = w.leaves) (l : Nat) : w'.leaf l = w.leaf l := by simp [World.leaf, h]

theorem pleaf_modCmd (w : World) (c : Nat) (f : CmdSt → CmdSt) (l : Nat) : (w.modCmd c f).leaf l = w.leaf l := rfl
theorem pleaf_modMeta (w : World) (c : Nat) (f : Meta → Meta) (l : Nat) : (w.modMeta c f).leaf l = w.leaf l := rfl
theorem pleaf_modLeaf_ne (w : World) (l0 : Nat) (f : Leaf → Leaf) (l : Nat) (h : l0 ≠ l) : (w.modLeaf l0 f).leaf l = w.leaf l := by
  simp only [World.leaf, World.modLeaf, modifyNth_get_other _ _ _ _ h]
theorem pleaf_dropReceiver_ne (w : World) (l0 l : Nat) (h : l0 ≠ l) : (w.dropReceiver l0).leaf l = w.leaf l := pleaf_modLeaf_ne w l0 _ l h
theorem pleaf_newLeaf (w : World) (k : Option Waker) (lg : Bool) (l : Nat) (h : l < w.leaves.length) : (w.newLeaf k lg).2.leaf l = w.leaf l := by
  simp only [World.leaf, World.newLeaf]; rw [List.getElem?_append_left h]
theorem pleaf_newMeta (w : World) (l : Nat) : w.newMeta.2.leaf l = w.leaf l := rfl
theorem pleaf_sinkEffect (w : World) (s : Sink) (e : Eff) (l : Nat) : (w.sinkEffect s e).leaf l = w.leaf l := by cases s <;> rfl
theorem pleaf_sinkEvent (w : World) (s : Sink) (e : Ev) (l : Nat) : (w.sinkEvent s e).leaf l = w.leaf l := by cases s <;> rfl
theorem pleaf_wake (w : World) (wk : Waker) (l : Nat) : (w.wake wk).leaf l = w.leaf l := pleaf_of_leaves (World.wake_leaves w wk) l
theorem pleaf_execSpawn (w : World) (xs : List ExecTask) (l : Nat) : ({ w with execSpawn := xs } : World).leaf l = w.leaf l := rfl
theorem pleaf_abortCmd (w : World) (c : Nat) (l : Nat) : (w.abortCmd c).leaf l = w.leaf l := by
  unfold World.abortCmd
  simp only
  split
  · rfl
  · rw [pleaf_wake]; rfl

theorem len_newLeaf' (w : World) (k : Option Waker) (lg : Bool) : (w.newLeaf k lg).2.leaves.length = w.leaves.length + 1 := by
  simp [World.newLeaf]
theorem newLeaf_fst' (w : World) (k : Option Waker) (lg : Bool) : (w.newLeaf k lg).1 = w.leaves.length := rfl
theorem len_newMeta' (w : World) : w.newMeta.2.leaves.length = w.leaves.length := rfl
theorem len_modMeta' (w : World) (c : Nat) (f : Meta → Meta) : (w.modMeta c f).leaves.length = w.leaves.length := rfl
theorem len_modCmd' (w : World) (c : Nat) (f : CmdSt → CmdSt) : (w.modCmd c f).leaves.length = w.leaves.length := rfl

mutual
theorem pleaf_dropBlock (dc : Nat → World → World) (l0 : Nat) : (b : Block) → (w : World) → hostFreeB b = true → l0 ∉ refsB b →
    (dropBlock dc b w).leaf l0 = w.leaf l0
  | .mk env cur rest, w, h, hn => by
    simp only [hostFreeB, Bool.and_eq_true] at h
    simp only [dropBlock]
    rw [foldl_hostFree _ (by intro w i hi; cases i <;> simp_all [hostFreeI]) rest _ h.2]
    exact pleaf_dropPend dc l0 cur w h.1 (by simpa [refsB] using hn)
theorem pleaf_dropPend (dc : Nat → World → World) (l0 : Nat) : (p : Pend) → (w : World) → hostFreeP p = true → l0 ∉ refsP p →
    (dropPend dc p w).leaf l0 = w.leaf l0
  | .idle, w, _, _ => by simp only [dropPend]
  | .reqDead, w, _, _ => by simp only [dropPend]
  | .await _, w, _, _ => by simp only [dropPend]
  | .selfwake _, w, _, _ => by simp only [dropPend]
  | .req _ l, w, _, hn => by
    simp only [dropPend]
    exact pleaf_dropReceiver_ne w l l0 (by intro e; subst e; simp [refsP] at hn)
  | .streamWait _ l _ _ _, w, _, hn => by
    simp only [dropPend]
    exact pleaf_dropReceiver_ne w l l0 (by intro e; subst e; simp [refsP] at hn)
  | .streamBody _ l _ _ _ inner, w, h, hn => by
    simp only [hostFreeP, Bool.and_eq_true] at h
    simp only [refsP, List.mem_cons, not_or] at hn
    simp only [dropPend]
    rw [pleaf_dropReceiver_ne _ l l0 (Ne.symm hn.1)]
    exact pleaf_dropBlock dc l0 inner w h.2 hn.2
  | .join a b ad bd, w, h, hn => by
    simp only [hostFreeP, Bool.and_eq_true] at h
    simp only [refsP, List.mem_append, not_or] at hn
    simp only [dropPend]
    cases ad <;> cases bd <;> simp only [Bool.false_eq_true, if_false, if_true] at hn ⊢
    · rw [pleaf_dropBlock dc l0 b _ h.2 hn.2, pleaf_dropBlock dc l0 a w h.1 hn.1]
    · exact pleaf_dropBlock dc l0 a w h.1 hn.1
    · exact pleaf_dropBlock dc l0 b w h.2 hn.2
  | .select a b, w, h, hn => by
    simp only [hostFreeP, Bool.and_eq_true] at h
    simp only [refsP, List.mem_append, not_or] at hn
    simp only [dropPend]
    rw [pleaf_dropBlock dc l0 b _ h.2 hn.2, pleaf_dropBlock dc l0 a w h.1 hn.1]
  | .host _ _, w, h, _ => by simp [hostFreeP] at h
end

theorem pleaf_World_dropBlock (w : World) (b : Block) (l0 : Nat) (h : hostFreeB b = true) (hn : l0 ∉ refsB b) :
    (w.dropBlock b).leaf l0 = w.leaf l0 := pleaf_dropBlock _ l0 b w h hn

theorem len_World_dropBlock (w : World) (b : Block) : (w.dropBlock b).leaves.length = w.leaves.length := by
  have := LL_World_dropBlock w b
  simp only [LL, Prod.mk.injEq] at this
  exact this.1

/-! refs in the form `grind` uses -/
theorem rfB_eq (env : Env) (cur : Pend) (rest : List Instr) : refsB (.mk env cur rest) = refsP cur := by simp [refsB]
theorem rfP_idle : refsP .idle = [] := by simp [refsP]
theorem rfP_reqDead : refsP .reqDead = [] := by simp [refsP]
theorem rfP_await (s : Nat) : refsP (.await s) = [] := by simp [refsP]
theorem rfP_selfwake (s : Nat) : refsP (.selfwake s) = [] := by simp [refsP]
theorem rfP_req (x l : Nat) : refsP (.req x l) = [l] := by simp [refsP]
theorem rfP_streamWait (x l c lim : Nat) (body : List Instr) : refsP (.streamWait x l c lim body) = [l] := by simp [refsP]
theorem rfP_streamBody (x l c lim : Nat) (body : List Instr) (inner : Block) :
    refsP (.streamBody x l c lim body inner) = l :: refsB inner := by simp [refsP]
theorem rfP_join (a b : Block) (ad bd : Bool) :
    refsP (.join a b ad bd) = (if ad then [] else refsB a) ++ (if bd then [] else refsB b) := by simp [refsP]
theorem rfP_select (a b : Block) : refsP (.select a b) = refsB a ++ refsB b := by simp [refsP]

def lfRes (l0 : Nat) : PollRes → Prop
  | .pending b' => l0 ∉ refsB b'
  | .ready _ => True
theorem lfRes_pending (l0 : Nat) (b : Block) : lfRes l0 (.pending b) = (l0 ∉ refsB b) := rfl
theorem lfRes_ready (l0 : Nat) (e : Env) : lfRes l0 (.ready e) = True := rfl

def LFGood (pn : Waker → Nat → World → Option (NextRes × World)) (l0 : Nat) (f : Nat) : Prop :=
  ∀ wk sink b w r w', pollBlock pn f wk sink b w = some (r, w') → hostFreeB b = true → l0 < w.leaves.length → l0 ∉ refsB b →
    w'.leaf l0 = w.leaf l0 ∧ w.leaves.length ≤ w'.leaves.length ∧ lfRes l0 r

theorem lfgood_succ (pn) (l0 : Nat) (f : Nat) (ih : LFGood pn l0 f) : LFGood pn l0 (f + 1) := by
  intro wk sink b w r w' h hf hl hn
  obtain ⟨env, cur, rest⟩ := b
  have hres := fun wk b w r w' h hf => (pollBlock_lgood pn f wk sink b w r w' h hf).2
  unfold pollBlock at h
  simp only [addJoinWaker_eq, addSpawn_eq] at h
  unfold LFGood at ih
  grind (gen := 20) (splits := 40) [pleaf_modCmd, pleaf_modMeta, pleaf_modLeaf_ne, pleaf_dropReceiver_ne, pleaf_newLeaf, pleaf_newMeta,
    pleaf_sinkEffect, pleaf_sinkEvent, pleaf_wake, pleaf_execSpawn, pleaf_abortCmd, pleaf_World_dropBlock,
    len_newLeaf', newLeaf_fst', len_newMeta', len_modMeta', len_modCmd', len_modLeaf, len_sinkEvent, len_sinkEffect,
    len_wake, len_abortCmd, len_dropReceiver, len_World_dropBlock,
    rfB_eq, rfP_idle, rfP_reqDead, rfP_await, rfP_selfwake, rfP_req, rfP_streamWait, rfP_streamBody, rfP_join, rfP_select,
    hfB_eq, hfP_idle, hfP_reqDead, hfP_req, hfP_await, hfP_selfwake, hfP_streamWait,
    hfP_streamBody, hfP_join, hfP_select, hfP_host, hfIs_nil, hfIs_cons, hfI_host, hfI_stream, hfI_spawn, hfI_handoff,
    hfI_join, hfI_select, hfRes_pending, lfRes_pending, lfRes_ready]

end M.Rt

namespace M.Rt

theorem pollBlock_lfgood (pn) (l0 : Nat) : ∀ f, LFGood pn l0 f
  | 0 => by intro wk sink b w r w' h; simp [pollBlock] at h
  | f + 1 => lfgood_succ pn l0 f (pollBlock_lfgood pn l0 f)

/-! ### join-handle waker queues and ready queues only grow -/

/-- `k` is queued at join handle `s` -/
def JW (s : Nat) (k : Waker) (w : World) : Prop := k ∈ (w.getMeta s).joinWakers
/-- `x` is on the ready queue of `c` -/
def RD (c x : Nat) (w : World) : Prop := x ∈ (w.cmd c).ready

theorem getMeta_of_metas {w w' : World} (h : w'.metas = w.metas) (s : Nat) : w'.getMeta s = w.getMeta s := by simp [World.getMeta, h]
theorem cmd_of_cmds {w w' : World} (h : w'.cmds = w.cmds) (c : Nat) : w'.cmd c = w.cmd c := by simp [World.cmd, h]

section
variable {s : Nat} {k : Waker} {c x : Nat} {w : World}

theorem jw_of_metas {w' : World} (h : w'.metas = w.metas) (hj : JW s k w) : JW s k w' := by unfold JW at *; rw [getMeta_of_metas h]; exact hj
theorem rd_of_cmds {w' : World} (h : w'.cmds = w.cmds) (hr : RD c x w) : RD c x w' := by unfold RD at *; rw [cmd_of_cmds h]; exact hr

theorem jw_modCmd (c' : Nat) (f : CmdSt → CmdSt) (h : JW s k w) : JW s k (w.modCmd c' f) := jw_of_metas rfl h
theorem jw_modLeaf (l : Nat) (f : Leaf → Leaf) (h : JW s k w) : JW s k (w.modLeaf l f) := jw_of_metas rfl h
theorem jw_dropReceiver (l : Nat) (h : JW s k w) : JW s k (w.dropReceiver l) := jw_of_metas rfl h
theorem jw_newLeaf (kk : Option Waker) (lg : Bool) (h : JW s k w) : JW s k (w.newLeaf kk lg).2 := jw_of_metas rfl h
theorem jw_sinkEffect (sk : Sink) (e : Eff) (h : JW s k w) : JW s k (w.sinkEffect sk e) := by cases sk <;> exact jw_of_metas rfl h
theorem jw_sinkEvent (sk : Sink) (e : Ev) (h : JW s k w) : JW s k (w.sinkEvent sk e) := by cases sk <;> exact jw_of_metas rfl h
theorem jw_wake (wk : Waker) (h : JW s k w) : JW s k (w.wake wk) := jw_of_metas (wake_metas _ wk w) h
theorem jw_execSpawn (xs : List ExecTask) (h : JW s k w) : JW s k ({ w with execSpawn := w.execSpawn ++ xs } : World) := jw_of_metas rfl h
theorem jw_newMeta (h : JW s k w) : JW s k w.newMeta.2 := by
  unfold JW World.getMeta World.newMeta at *
  simp only
  rw [getMeta_append_default]; exact h
theorem jw_abortTask (s' : Nat) (h : JW s k w) : JW s k (w.modMeta s' fun m => { m with aborted := true }) := by
  unfold JW at *
  rw [getMeta_modMeta w s' s _ (Or.inr trivial)]
  split
  · rename_i e; subst e
    unfold World.getMeta at h
    cases hm : w.metas[s']? with
    | none => simp [hm] at h
    | some m => simp only [hm, Option.getD_some] at h ⊢; exact h
  · exact h
theorem jw_addJoinWaker (s' : Nat) (k' : Waker) (h : JW s k w) : JW s k (w.modMeta s' (addJoinWaker k')) := by
  unfold JW at *
  rw [getMeta_modMeta w s' s _ (Or.inr trivial)]
  split
  · rename_i e; subst e
    unfold World.getMeta at h
    cases hm : w.metas[s']? with
    | none => simp [hm] at h
    | some m => simp only [hm, Option.getD_some, addJoinWaker] at h ⊢; exact List.mem_append_left _ h
  · exact h
theorem jw_abortCmd (c' : Nat) (h : JW s k w) : JW s k (w.abortCmd c') := by
  unfold World.abortCmd
  simp only
  split
  · exact jw_abortTask _ h
  · exact jw_wake _ (jw_modCmd _ _ (jw_abortTask _ h))
theorem jw_dropBlock (b : Block) (hb : hostFreeB b = true) (h : JW s k w) : JW s k (w.dropBlock b) := by
  have := NL_dropBlock (fun c w => w.dropCmd c) b w hb
  simp only [NL, Prod.mk.injEq] at this
  exact jw_of_metas this.2.1 h

theorem rd_modLeaf (l : Nat) (f : Leaf → Leaf) (h : RD c x w) : RD c x (w.modLeaf l f) := rd_of_cmds rfl h
theorem rd_modMeta (l : Nat) (f : Meta → Meta) (h : RD c x w) : RD c x (w.modMeta l f) := rd_of_cmds rfl h
theorem rd_dropReceiver (l : Nat) (h : RD c x w) : RD c x (w.dropReceiver l) := rd_of_cmds rfl h
theorem rd_newLeaf (kk : Option Waker) (lg : Bool) (h : RD c x w) : RD c x (w.newLeaf kk lg).2 := rd_of_cmds rfl h
theorem rd_newMeta (h : RD c x w) : RD c x w.newMeta.2 := rd_of_cmds rfl h
theorem rd_execSpawn (xs : List ExecTask) (h : RD c x w) : RD c x ({ w with execSpawn := w.execSpawn ++ xs } : World) := rd_of_cmds rfl h
theorem rd_modCmd_keep (c' : Nat) (f : CmdSt → CmdSt) (hf : ∀ y, (f y).ready = y.ready) (h : RD c x w) : RD c x (w.modCmd c' f) := by
  unfold RD at *
  by_cases e : c' = c
  · subst e; rw [cmd_modCmd_keep (·.ready) w c' f hf]; exact h
  · rw [World.cmd_modCmd_other w c' c f e]; exact h
theorem rd_addSpawn (c' : Nat) (t : Task) (h : RD c x w) : RD c x (w.modCmd c' (addSpawn t)) := rd_modCmd_keep c' _ (fun _ => rfl) h
theorem rd_sinkEffect (sk : Sink) (e : Eff) (h : RD c x w) : RD c x (w.sinkEffect sk e) := by
  cases sk with
  | cmd c' => exact rd_modCmd_keep c' _ (fun _ => rfl) h
  | core => exact rd_of_cmds rfl h
theorem rd_sinkEvent (sk : Sink) (e : Ev) (h : RD c x w) : RD c x (w.sinkEvent sk e) := by
  cases sk with
  | cmd c' => exact rd_modCmd_keep c' _ (fun _ => rfl) h
  | core => exact rd_of_cmds rfl h
theorem rd_dropBlock (b : Block) (hb : hostFreeB b = true) (h : RD c x w) : RD c x (w.dropBlock b) :=
  rd_of_cmds (cmds_dropBlock _ b w hb) h
end

theorem rd_wake (c x : Nat) : ∀ (f : Nat) (wk : Waker) (w : World), RD c x w → RD c x (wake f wk w) := by
  intro f
  induction f with
  | zero => intro wk w h; cases wk <;> exact rd_of_cmds rfl h
  | succ f ih =>
    intro wk w h
    cases wk with
    | root e => exact rd_of_cmds rfl h
    | task c' tid s =>
      simp only [wake]
      have h1 : RD c x (if (w.cmd c').alive = true then w.modCmd c' fun y => { y with ready := y.ready ++ [tid] } else w) := by
        split
        · unfold RD at *
          by_cases e : c' = c
          · subst e
            rw [World.cmd_modCmd_self]
            cases hc : w.cmds[c']? with
            | none => simp [World.cmd, hc] at h
            | some y => simp only [World.cmd, hc, Option.getD_some] at h ⊢; exact List.mem_append_left _ h
          · rw [World.cmd_modCmd_other w c' c _ e]; exact h
        · exact h
      split
      · exact rd_of_cmds rfl h1
      · exact ih _ _ (rd_modCmd_keep c' _ (fun _ => rfl) (rd_of_cmds rfl h1))

theorem rd_World_wake {c x : Nat} {w : World} (wk : Waker) (h : RD c x w) : RD c x (w.wake wk) := rd_wake c x _ wk w h
theorem rd_abortCmd {c x : Nat} {w : World} (c' : Nat) (h : RD c x w) : RD c x (w.abortCmd c') := by
  unfold World.abortCmd
  simp only
  split
  · exact rd_modMeta _ _ h
  · exact rd_World_wake _ (rd_modCmd_keep c' _ (fun _ => rfl) (rd_modMeta _ _ h))

def JRGood (pn : Waker → Nat → World → Option (NextRes × World)) (s : Nat) (k : Waker) (c x : Nat) (f : Nat) : Prop :=
  ∀ wk sink b w r w', pollBlock pn f wk sink b w = some (r, w') → hostFreeB b = true →
    (JW s k w → JW s k w') ∧ (RD c x w → RD c x w')

theorem jrgood_succ (pn) (s : Nat) (k : Waker) (c x : Nat) (f : Nat) (ih : JRGood pn s k c x f) : JRGood pn s k c x (f + 1) := by
  intro wk sink b w r w' h hf
  obtain ⟨env, cur, rest⟩ := b
  have hres := fun wk b w r w' h hf => (pollBlock_lgood pn f wk sink b w r w' h hf).2
  unfold pollBlock at h
  simp only [addJoinWaker_eq, addSpawn_eq] at h
  unfold JRGood at ih
  grind (gen := 20) (splits := 40) [jw_modCmd, jw_modLeaf, jw_dropReceiver, jw_newLeaf, jw_sinkEffect, jw_sinkEvent, jw_wake, jw_execSpawn,
    jw_newMeta, jw_abortTask, jw_addJoinWaker, jw_abortCmd, jw_dropBlock,
    rd_modLeaf, rd_modMeta, rd_dropReceiver, rd_newLeaf, rd_newMeta, rd_execSpawn, rd_addSpawn, rd_sinkEffect, rd_sinkEvent,
    rd_dropBlock, rd_World_wake, rd_abortCmd,
    hfB_eq, hfP_idle, hfP_reqDead, hfP_req, hfP_await, hfP_selfwake, hfP_streamWait,
    hfP_streamBody, hfP_join, hfP_select, hfP_host, hfIs_nil, hfIs_cons, hfI_host, hfI_stream, hfI_spawn, hfI_handoff,
    hfI_join, hfI_select, hfRes_pending]

theorem pollBlock_jrgood (pn) (s : Nat) (k : Waker) (c x : Nat) : ∀ f, JRGood pn s k c x f
  | 0 => by intro wk sink b w r w' h; simp [pollBlock] at h
  | f + 1 => jrgood_succ pn s k c x f (pollBlock_jrgood pn s k c x f)

end M.Rt
