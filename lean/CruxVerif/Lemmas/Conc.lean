/- Invariant proof for the P-evict protocol of M.Conc with the repaired read order. -/
import CruxVerif.Model.Conc
namespace M.Conc

def live : List Holder → Nat
  | [] => 0
  | h :: hs => (if h.pc < 5 then 1 else 0) + live hs

/-- the invariant of the repaired protocol -/
structure Inv (s : Evict) : Prop where
  swapped : s.readsSwapped = true
  count : s.count = 1 + live s.holders
  pcs : ∀ h ∈ s.holders, h.pc ≤ 5 ∧ (h.wakes = false → h.pc = 0 ∨ h.pc = 5)
  woken : ∀ h ∈ s.holders, h.wakes = true → 3 ≤ h.pc → s.woken = true
  readCount : 1 ≤ s.ppc → s.rCount < 2 → live s.holders = 0
  decided : s.ppc = 2 → s.cancelled = some (!s.rWoken && decide (s.rCount < 2)) ∧
            (s.rCount < 2 → (∃ h ∈ s.holders, h.wakes = true) → s.rWoken = true)
  undecided : s.ppc < 2 → s.cancelled = none
  ppc : s.ppc ≤ 2

theorem live_map_init (hs : List Bool) : live (hs.map fun w => ({ wakes := w } : Holder)) = hs.length := by
  induction hs with
  | nil => rfl
  | cons a as ih => simp [live, ih]; omega

theorem inv_init (hs : List Bool) : Inv (Evict.init true hs) := by
  refine ⟨rfl, ?_, ?_, ?_, ?_, ?_, ?_, ?_⟩
  · simp [Evict.init, live_map_init]
  · intro h hh
    simp only [Evict.init, List.mem_map] at hh
    obtain ⟨w, _, rfl⟩ := hh
    simp
  · intro h hh _ h3
    simp only [Evict.init, List.mem_map] at hh
    obtain ⟨w, _, rfl⟩ := hh
    simp at h3
  · intro h; simp [Evict.init] at h
  · intro h; simp [Evict.init] at h
  · intro _; rfl
  · simp [Evict.init]

theorem mem_modifyNth {α : Type} (l : List α) (i : Nat) (f : α → α) (x : α) (hx : x ∈ modifyNth l i f) :
    x ∈ l ∨ ∃ y, l[i]? = some y ∧ x = f y := by
  induction l generalizing i with
  | nil => simp [modifyNth] at hx
  | cons a as ih =>
    cases i with
    | zero =>
      simp only [modifyNth, List.mem_cons] at hx
      rcases hx with rfl | hx
      · right; exact ⟨a, by simp, rfl⟩
      · left; simp [hx]
    | succ i =>
      simp only [modifyNth, List.mem_cons] at hx
      rcases hx with rfl | hx
      · left; simp
      · rcases ih i hx with h | ⟨y, hy, rfl⟩
        · left; simp [h]
        · right; exact ⟨y, by simpa using hy, rfl⟩

theorem mem_of_getElem? {α : Type} (l : List α) (i : Nat) (y : α) (h : l[i]? = some y) : y ∈ l :=
  List.mem_of_getElem? h

/-- advancing holder `i` whose pc stays on the same side of 5 keeps the number of live holders -/
theorem live_modify_keep (l : List Holder) (i : Nat) (f : Holder → Holder) (h0 : Holder) (hg : l[i]? = some h0)
    (hkeep : h0.pc < 5 ↔ (f h0).pc < 5) : live (modifyNth l i f) = live l := by
  induction l generalizing i with
  | nil => simp at hg
  | cons a as ih =>
    cases i with
    | zero =>
      simp only [List.getElem?_cons_zero, Option.some.injEq] at hg
      subst hg
      simp only [modifyNth, live]
      by_cases h : a.pc < 5
      · simp [h, hkeep.mp h]
      · have h2 : ¬ (f a).pc < 5 := fun h' => h (hkeep.mpr h')
        simp [h, h2]
    | succ i =>
      simp only [List.getElem?_cons_succ] at hg
      simp only [modifyNth, live, ih i hg]

/-- moving holder `i` from a live pc to 5 removes exactly one live holder -/
theorem live_modify_drop (l : List Holder) (i : Nat) (f : Holder → Holder) (h0 : Holder) (hg : l[i]? = some h0)
    (hlive : h0.pc < 5) (hdead : ¬ (f h0).pc < 5) : live (modifyNth l i f) + 1 = live l := by
  induction l generalizing i with
  | nil => simp at hg
  | cons a as ih =>
    cases i with
    | zero =>
      simp only [List.getElem?_cons_zero, Option.some.injEq] at hg
      subst hg
      simp [modifyNth, live, hlive, hdead]; omega
    | succ i =>
      simp only [List.getElem?_cons_succ] at hg
      have := ih i hg
      simp only [modifyNth, live]
      omega

/-- no live holder means every holder has dropped its clone -/
theorem live_zero (l : List Holder) (h : live l = 0) : ∀ x ∈ l, ¬ x.pc < 5 := by
  induction l with
  | nil => simp
  | cons a as ih =>
    simp only [live] at h
    intro x hx
    rcases List.mem_cons.mp hx with rfl | hx
    · intro hlt; simp [hlt] at h
    · exact ih (by omega) x hx

end M.Conc

namespace M.Conc

/-- a waking holder that is not at its last step advances: everything but `idSent` / `woken` is unchanged -/
theorem inv_adv (s s0 : Evict) (i : Nat) (h0 : Holder) (hg : s.holders[i]? = some h0) (hw : h0.wakes = true)
    (hp : h0.pc < 4)
    (e1 : s0.readsSwapped = s.readsSwapped) (e2 : s0.count = s.count) (e3 : s0.holders = s.holders)
    (e4 : s0.ppc = s.ppc) (e5 : s0.rWoken = s.rWoken) (e6 : s0.rCount = s.rCount) (e7 : s0.cancelled = s.cancelled)
    (hwok : s.woken = true → s0.woken = true) (hw3 : 3 ≤ h0.pc + 1 → s0.woken = true) (hi : Inv s) :
    Inv { s0 with holders := modifyNth s0.holders i fun h => { h with pc := h.pc + 1 } } := by
  have hmem0 : h0 ∈ s.holders := mem_of_getElem? _ _ _ hg
  have hlive : live (modifyNth s.holders i fun h => { h with pc := h.pc + 1 }) = live s.holders :=
    live_modify_keep _ _ _ h0 hg (by simp; omega)
  have hex : (∃ h ∈ modifyNth s.holders i fun h => { h with pc := h.pc + 1 }, h.wakes = true) →
      ∃ h ∈ s.holders, h.wakes = true := fun _ => ⟨h0, hmem0, hw⟩
  refine ⟨by simp [e1, hi.swapped], ?_, ?_, ?_, ?_, ?_, ?_, by simp [e4, hi.ppc]⟩
  · simp only [e2, e3, hlive]; exact hi.count
  · intro h hh
    simp only [e3] at hh
    rcases mem_modifyNth _ _ _ _ hh with hold | ⟨y, hy, rfl⟩
    · exact hi.pcs h hold
    · rw [hg] at hy; cases hy
      simp only
      exact ⟨by omega, by intro hf; rw [hw] at hf; cases hf⟩
  · intro h hh hwk h3
    simp only [e3] at hh
    rcases mem_modifyNth _ _ _ _ hh with hold | ⟨y, hy, rfl⟩
    · exact hwok (hi.woken h hold hwk h3)
    · rw [hg] at hy; cases hy
      exact hw3 (by simpa using h3)
  · intro h1 h2
    simp only [e3, hlive]
    exact hi.readCount (by simpa [e4] using h1) (by simpa [e6] using h2)
  · intro h2
    simp only [e4] at h2
    obtain ⟨d1, d2⟩ := hi.decided h2
    refine ⟨by simp [e5, e6, e7, d1], ?_⟩
    intro hc hx
    simp only [e3] at hx
    simp only [e5]
    exact d2 (by simpa [e6] using hc) (hex hx)
  · intro h2; simp only [e7]; exact hi.undecided (by simpa [e4] using h2)

/-- a holder drops its clone (last step of a wake, or a holder that never wakes) -/
theorem inv_drop (s : Evict) (i : Nat) (h0 : Holder) (f : Holder → Holder) (hg : s.holders[i]? = some h0) (hp : h0.pc < 5)
    (hlast : h0.wakes = true → h0.pc = 4) (hf : f h0 = { h0 with pc := 5 }) (hi : Inv s) :
    Inv { s with count := s.count - 1, holders := modifyNth s.holders i f } := by
  have hmem0 : h0 ∈ s.holders := mem_of_getElem? _ _ _ hg
  have hlive : live (modifyNth s.holders i f) + 1 = live s.holders :=
    live_modify_drop _ _ _ h0 hg hp (by simp [hf])
  refine ⟨hi.swapped, ?_, ?_, ?_, ?_, ?_, hi.undecided, hi.ppc⟩
  · have := hi.count; simp only; omega
  · intro h hh
    rcases mem_modifyNth _ _ _ _ hh with hold | ⟨y, hy, rfl⟩
    · exact hi.pcs h hold
    · rw [hg] at hy; cases hy; simp [hf]
  · intro h hh hwk h3
    rcases mem_modifyNth _ _ _ _ hh with hold | ⟨y, hy, rfl⟩
    · exact hi.woken h hold hwk h3
    · rw [hg] at hy; cases hy
      simp only [hf] at hwk
      exact hi.woken h0 hmem0 hwk (by have := hlast hwk; omega)
  · intro h1 h2
    have := hi.readCount h1 h2
    exact absurd hp (live_zero _ this h0 hmem0)
  · intro h2
    obtain ⟨d1, d2⟩ := hi.decided h2
    refine ⟨d1, ?_⟩
    intro hc hx
    apply d2 hc
    obtain ⟨h, hh, hwk⟩ := hx
    rcases mem_modifyNth _ _ _ _ hh with hold | ⟨y, hy, rfl⟩
    · exact ⟨h, hold, hwk⟩
    · rw [hg] at hy; cases hy; exact ⟨h0, hmem0, by simpa [hf] using hwk⟩

theorem inv_stepHolder (s : Evict) (i : Nat) (hi : Inv s) : Inv (stepHolder s i) := by
  unfold stepHolder
  split
  · exact hi
  · rename_i h0 hg
    have hmem0 : h0 ∈ s.holders := mem_of_getElem? _ _ _ hg
    have hpcs := hi.pcs h0 hmem0
    simp only
    split
    · rename_i hnw
      simp only [Bool.not_eq_true'] at hnw
      split
      · rename_i hlt
        exact inv_drop s i h0 _ hg hlt (by intro hw; rw [hnw] at hw; cases hw) rfl hi
      · exact hi
    · rename_i hwk
      simp only [Bool.not_eq_true', Bool.not_eq_false] at hwk
      split
      · rename_i hpc
        exact inv_adv s s i h0 hg hwk (by omega) rfl rfl rfl rfl rfl rfl rfl id (by omega) hi
      · rename_i hpc
        exact inv_adv s { s with idSent := true } i h0 hg hwk (by omega) rfl rfl rfl rfl rfl rfl rfl id (by omega) hi
      · rename_i hpc
        exact inv_adv s { s with woken := true } i h0 hg hwk (by omega) rfl rfl rfl rfl rfl rfl rfl (fun _ => rfl)
          (fun _ => rfl) hi
      · rename_i hpc
        exact inv_adv s s i h0 hg hwk (by omega) rfl rfl rfl rfl rfl rfl rfl id
          (fun _ => hi.woken h0 hmem0 hwk (by omega)) hi
      · rename_i hpc
        exact inv_drop s i h0 _ hg (by omega) (fun _ => hpc) (by simp [hpc]) hi
      · exact hi

theorem inv_stepPoller (s : Evict) (hi : Inv s) : Inv (stepPoller s) := by
  unfold stepPoller
  have hsw := hi.swapped
  split
  · rename_i hp
    rw [if_pos hsw]
    refine ⟨hsw, hi.count, hi.pcs, hi.woken, ?_, ?_, ?_, by simp⟩
    · intro _ h2
      have hc := hi.count
      have h2' : s.count < 2 := h2
      show live s.holders = 0
      omega
    · intro h2; simp at h2
    · intro _; exact hi.undecided (by omega)
  · rename_i hp
    rw [if_pos hsw]
    refine ⟨hsw, hi.count, hi.pcs, hi.woken, ?_, ?_, ?_, by simp⟩
    · intro _ h2; exact hi.readCount (by omega) h2
    · intro _
      refine ⟨rfl, ?_⟩
      intro hc ⟨h, hh, hwk⟩
      have hc' : s.rCount < 2 := hc
      have hl := hi.readCount (by omega) hc'
      have h5 := live_zero _ hl h hh
      have := (hi.pcs h hh).1
      exact hi.woken h hh hwk (by omega)
    · intro h2; simp at h2
  · exact hi

theorem inv_step (s : Evict) (t : Nat) (hi : Inv s) : Inv (step s t) := by
  cases t with
  | zero => exact inv_stepPoller s hi
  | succ i => exact inv_stepHolder s i hi

theorem inv_run (s : Evict) (sched : List Nat) (hi : Inv s) : Inv (run s sched) := by
  induction sched generalizing s with
  | nil => exact hi
  | cons t ts ih => exact ih _ (inv_step s t hi)

end M.Conc
