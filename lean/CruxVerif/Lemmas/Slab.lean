/- Invariant and key lemmas of M.Slab: a key handed out by `insert` was not occupied, occupied keys keep their
   values across operations on other keys, a key is reused only after it was removed. -/
import CruxVerif.Model.Slab
namespace M.Slab
variable {α : Type}

/-- well-formedness: the free stack has no duplicates and lists only in-range, unoccupied keys -/
structure WF (s : Slab α) : Prop where
  nodup : s.free.Nodup
  vacant : ∀ k ∈ s.free, k < s.entries.length ∧ s.entries[k]? = some none

theorem wf_empty : WF (empty : Slab α) := ⟨by simp [empty], by simp [empty]⟩

theorem get?_set_self (l : List (Option α)) (k : Nat) (a : Option α) (h : k < l.length) : (l.set k a)[k]? = some a := by
  simp [h]

/-- the key `insert` returns was not occupied before … -/
theorem insert_fresh (s : Slab α) (a : α) (h : WF s) : s.get? (s.insert a).1 = none := by
  unfold insert
  split
  · rename_i k rest hf
    have := h.vacant k (by simp [hf])
    simp [get?, this.2]
  · simp [get?]

/-- … and holds the inserted value afterwards -/
theorem get_insert_self (s : Slab α) (a : α) (h : WF s) : (s.insert a).2.get? (s.insert a).1 = some a := by
  unfold insert
  split
  · rename_i k rest hf
    have := h.vacant k (by simp [hf])
    simp [get?, this.1]
  · simp [get?]

/-- every other key is untouched by `insert` -/
theorem get_insert_other (s : Slab α) (a : α) (k : Nat) (hk : k ≠ (s.insert a).1) :
    (s.insert a).2.get? k = s.get? k := by
  unfold insert at hk ⊢
  split
  · rename_i k' rest hf
    simp only [hf] at hk
    simp only [get?]
    rw [List.getElem?_set_ne (Ne.symm hk)]
  · rename_i hf
    simp only [hf] at hk
    simp only [get?]
    by_cases hlt : k < s.entries.length
    · rw [List.getElem?_append_left hlt]
    · have hgt : s.entries.length < k := by omega
      have h1 : (s.entries ++ [some a])[k]? = none := by
        apply List.getElem?_eq_none; simp; omega
      have h2 : s.entries[k]? = none := by
        apply List.getElem?_eq_none; omega
      rw [h1, h2]

theorem wf_insert (s : Slab α) (a : α) (h : WF s) : WF (s.insert a).2 := by
  unfold insert
  split
  · rename_i k rest hf
    have hnd := h.nodup
    rw [hf] at hnd
    have hk_notin : k ∉ rest := (List.nodup_cons.mp hnd).1
    refine ⟨(List.nodup_cons.mp hnd).2, ?_⟩
    intro j hj
    have hjk : j ≠ k := fun e => hk_notin (e ▸ hj)
    have := h.vacant j (by simp [hf, hj])
    simp only [List.length_set]
    refine ⟨this.1, ?_⟩
    rw [List.getElem?_set_ne (Ne.symm hjk)]
    exact this.2
  · exact ⟨by simp, by simp⟩

/-- `remove` of an occupied key returns its value and frees exactly that key -/
theorem remove_get (s : Slab α) (k : Nat) (a : α) (hg : s.get? k = some a) :
    (s.remove k).1 = some a ∧ (s.remove k).2.get? k = none ∧ ∀ j, j ≠ k → (s.remove k).2.get? j = s.get? j := by
  unfold remove
  simp only [hg]
  have hlt : k < s.entries.length := by
    simp only [get?] at hg
    by_cases hlt : k < s.entries.length
    · exact hlt
    · have : s.entries[k]? = none := List.getElem?_eq_none (by omega)
      simp [this] at hg
  refine ⟨trivial, by simp [get?, hlt], ?_⟩
  intro j hj
  simp only [get?]
  rw [List.getElem?_set_ne (Ne.symm hj)]

theorem remove_none (s : Slab α) (k : Nat) (hg : s.get? k = none) : s.remove k = (none, s) := by
  unfold remove; simp [hg]

theorem wf_remove (s : Slab α) (k : Nat) (h : WF s) : WF (s.remove k).2 := by
  unfold remove
  split
  · rename_i a hg
    have hlt : k < s.entries.length := by
      simp only [get?] at hg
      by_cases hlt : k < s.entries.length
      · exact hlt
      · have : s.entries[k]? = none := List.getElem?_eq_none (by omega)
        simp [this] at hg
    have hk_notin : k ∉ s.free := by
      intro hin
      have := (h.vacant k hin).2
      simp [get?, this] at hg
    refine ⟨List.nodup_cons.mpr ⟨hk_notin, h.nodup⟩, ?_⟩
    intro j hj
    simp only [List.length_set]
    rcases List.mem_cons.mp hj with rfl | hj
    · exact ⟨hlt, by simp [hlt]⟩
    · have hjk : j ≠ k := fun e => hk_notin (e ▸ hj)
      have := h.vacant j hj
      refine ⟨this.1, ?_⟩
      rw [List.getElem?_set_ne (Ne.symm hjk)]
      exact this.2
  · exact h

/-- a key is handed out again only after it was removed: as long as it is occupied, `insert` returns another key -/
theorem insert_ne_occupied (s : Slab α) (a : α) (k : Nat) (h : WF s) (hk : (s.get? k).isSome) : (s.insert a).1 ≠ k := by
  intro e
  have := insert_fresh s a h
  rw [e] at this
  simp [this] at hk

end M.Slab
