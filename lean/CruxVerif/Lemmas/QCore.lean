/- Quiescence at the return of a Core call, for flat apps. Part 1: `poll_next` of a flat command. -/
import CruxVerif.Lemmas.QExec
namespace M.Rt

/-- the command has something a host must come back for -/
def Nw (w : World) (c : Nat) : Prop :=
  (w.cmd c).ready ≠ [] ∨ (w.cmd c).spawnQ ≠ [] ∨ (w.cmd c).effects ≠ [] ∨ (w.cmd c).events ≠ []

theorem settle_idle (rt : Nat → Nat → World → Option (TaskState × World)) (c : Nat) (w : World)
    (hr : (w.cmd c).ready = []) (hs : (w.cmd c).spawnQ = []) (hna : w.aborted c = false) :
    runUntilSettledF rt c w = some (w.modCmd c fun x => { x with spawnQ := [] }) := by
  unfold runUntilSettledF
  simp only [hna, Bool.false_eq_true, if_false]
  show settleLoop rt (99999 + 1) c w = _
  unfold settleLoop
  have h1 : spawnNewTasks c w = w.modCmd c fun x => { x with spawnQ := [] } := by
    unfold spawnNewTasks; rw [hs]; rfl
  simp only [h1]
  have h2 : ((w.modCmd c fun x => { x with spawnQ := [] }).cmd c).ready = [] := by
    refine Eq.trans (cmd_modCmd_keep (·.ready) w c _ ?_) hr; intro _; rfl
  simp [h2]

theorem pollNext_eq (wk : Waker) (c : Nat) (w : World) :
    pollNext wk c w = pollNextF (runUntilSettledF (runTaskF (pollBlock (pollNextF (runUntilSettledF (runTaskF (pollAt 63)))) loopFuel))) wk c w := rfl

theorem pollNextF_q (pn) (pf : Nat) (wk : Waker) (c : Nat) (w : World) (r : NextRes) (w' : World)
    (h : pollNextF (runUntilSettledF (runTaskF (pollBlock pn pf))) wk c w = some (r, w')) (hw : HFc c w) :
    QS (some c) (w.modCmd c fun x => { x with waker := some wk }) w' ∧ HFc c w' ∧
      (r = .pending → w'.aborted c = false → ¬ Nw w' c) := by
  unfold pollNextF at h
  simp only at h
  have h0 : HFc c (w.modCmd c fun x => { x with waker := some wk }) :=
    hw.modCmd _ (fun _ _ h => Or.inl h) (fun _ _ h => Or.inl h)
  generalize (w.modCmd c fun x => { x with waker := some wk }) = w0 at h h0 ⊢
  split at h
  · cases h
  · rename_i w1 hs1
    have s1 := runUntilSettledF_q _ _ c w0 w1 hs1 h0
    split at h
    · rename_i e es hev
      simp only [Option.some.injEq, Prod.mk.injEq] at h
      obtain ⟨rfl, rfl⟩ := h
      refine ⟨s1.1.trans (QS.modCmd_me w1 c _ (fun _ => rfl) (fun _ => rfl) (fun _ => rfl)),
        s1.2.modCmd _ (fun _ _ h => Or.inl h) (fun _ _ h => Or.inl h), ?_⟩
      intro hr; cases hr
    · rename_i hev
      split at h
      · rename_i e es hef
        simp only [Option.some.injEq, Prod.mk.injEq] at h
        obtain ⟨rfl, rfl⟩ := h
        refine ⟨s1.1.trans (QS.modCmd_me w1 c _ (fun _ => rfl) (fun _ => rfl) (fun _ => rfl)),
          s1.2.modCmd _ (fun _ _ h => Or.inl h) (fun _ _ h => Or.inl h), ?_⟩
        intro hr; cases hr
      · rename_i hef
        split at h
        · cases h
        · rename_i w2 hs2
          have s2 := runUntilSettledF_q _ _ c w1 w2 hs2 s1.2
          have fin : w' = w2 := by
            split at h <;> (simp only [Option.some.injEq, Prod.mk.injEq] at h; exact h.2.symm)
          subst fin
          refine ⟨s1.1.trans s2.1, s2.2, ?_⟩
          intro _ hna
          have hna1 : w1.aborted c = false := by
            cases ha : w1.aborted c with
            | false => rfl
            | true => rw [s2.1.aborted c ha] at hna; cases hna
          have hna0 : w0.aborted c = false := by
            cases ha : w0.aborted c with
            | false => rfl
            | true => rw [s1.1.aborted c ha] at hna1; cases hna1
          have st1 := runUntilSettledF_settled _ c w0 w1 hna0 hs1
          have := settle_idle (runTaskF (pollBlock pn pf)) c w1 st1.1 st1.2 hna1
          rw [this] at hs2
          simp only [Option.some.injEq] at hs2
          subst hs2
          intro hn
          rcases hn with hn | hn | hn | hn
          · exact hn (by refine Eq.trans (cmd_modCmd_keep (·.ready) w1 c _ ?_) st1.1; intro _; rfl)
          · exact hn (World.cmd_modCmd_spawnQ_nil w1 c _ (fun _ => rfl))
          · exact hn (by refine Eq.trans (cmd_modCmd_keep (·.effects) w1 c _ ?_) hef; intro _; rfl)
          · exact hn (by refine Eq.trans (cmd_modCmd_keep (·.events) w1 c _ ?_) hev; intro _; rfl)

theorem pollNext_q (wk : Waker) (c : Nat) (w : World) (r : NextRes) (w' : World) (h : pollNext wk c w = some (r, w'))
    (hw : HFc c w) :
    QS (some c) (w.modCmd c fun x => { x with waker := some wk }) w' ∧ HFc c w' ∧
      (r = .pending → w'.aborted c = false → ¬ Nw w' c) := by
  rw [pollNext_eq] at h
  exact pollNextF_q _ _ wk c w r w' h hw

end M.Rt

namespace M.Slab
variable {α : Type}

theorem get_set_other (s : Slab α) (k j : Nat) (a : α) (h : j ≠ k) : (s.set k a).get? j = s.get? j := by
  unfold set
  split
  · simp only [get?]; rw [List.getElem?_set_ne (Ne.symm h)]
  · rfl

theorem wf_set (s : Slab α) (k : Nat) (a : α) (h : WF s) : WF (s.set k a) := by
  unfold set
  split
  · rename_i x hg
    refine ⟨h.nodup, ?_⟩
    intro k' hk'
    have v := h.vacant k' hk'
    have hne : k ≠ k' := by
      intro e; subst e
      simp [get?, v.2] at hg
    simp only [List.length_set]
    exact ⟨v.1, by rw [List.getElem?_set_ne hne]; exact v.2⟩
  · exact h

end M.Slab

namespace M.Rt

/-! Part 2: the scheduling invariant of the Core. -/

def hostedBy (es : Slab ExecTask) (c etid : Nat) : Prop := es.get? etid = some (.cmd c)

/-- the executor task hosting `c` is queued (or `c` is still on the spawn queue) -/
def sched (es : Slab ExecTask) (w : World) (c : Nat) : Prop :=
  (∃ etid, hostedBy es c etid ∧ etid ∈ w.execReady) ∨ ExecTask.cmd c ∈ w.execSpawn

/-- `c` holds the root waker of the executor task hosting it -/
def armed (es : Slab ExecTask) (w : World) (c : Nat) : Prop :=
  ∃ etid, (w.cmd c).waker = some (.root etid) ∧ hostedBy es c etid

structure Qc (es : Slab ExecTask) (w : World) (c : Nat) : Prop where
  a : sched es w c ∨ armed es w c
  b : w.aborted c = false → Nw w c → sched es w c
  /-- a command whose host is not about to poll it is not done: a finished command does not stay hosted -/
  d : sched es w c ∨ w.isDoneNow c = false

theorem sched.step {me : Option Nat} {es : Slab ExecTask} {w w' : World} {c : Nat} (q : QS me w w') (h : sched es w c) :
    sched es w' c := by
  rcases h with ⟨e, he, hr⟩ | h
  · exact Or.inl ⟨e, he, q.ready e hr⟩
  · exact Or.inr (q.spawn _ h)

theorem Qa.step {me : Option Nat} {es : Slab ExecTask} {w w' : World} {c : Nat} (q : QS me w w')
    (h : sched es w c ∨ armed es w c) : sched es w' c ∨ armed es w' c := by
  rcases h with h | ⟨e, hw, he⟩
  · exact Or.inl (h.step q)
  · rcases q.waker c with h2 | h2
    · exact Or.inr ⟨e, h2.trans hw, he⟩
    · exact Or.inl (Or.inl ⟨e, he, h2.2 e hw⟩)

theorem Qc.step {me : Option Nat} {es : Slab ExecTask} {w w' : World} {c : Nat} (q : QS me w w') (hc : some c ≠ me)
    (h : Qc es w c) : Qc es w' c := by
  have a' := Qa.step q h.a
  refine ⟨a', ?_, ?_⟩
  rotate_left
  · rcases h.d with s | hd
    · exact Or.inl (s.step q)
    · refine Or.inr ?_
      have o := q.other c hc
      unfold World.isDoneNow at hd ⊢
      simp only at hd ⊢
      rw [o.1, o.2.2.1, o.2.2.2]; exact hd
  intro hna hn
  have hna0 : w.aborted c = false := by
    cases ha : w.aborted c with
    | false => rfl
    | true => rw [q.aborted c ha] at hna; cases hna
  have o := q.other c hc
  rcases q.work c hc with hr | hwk
  · have : Nw w c := by
      unfold Nw at hn ⊢
      rw [hr, o.2.1, o.2.2.1, o.2.2.2] at hn; exact hn
    exact (h.b hna0 this).step q
  · rcases a' with s | ⟨e, hw, _⟩
    · exact s
    · rw [hwk] at hw; cases hw

/-- a change of the world that a command does not see -/
theorem Qc.of_same {es : Slab ExecTask} {w w' : World} {c : Nat} (h : Qc es w c) (hc : w'.cmd c = w.cmd c)
    (hm : w'.metas = w.metas) (hr : ∀ e, e ∈ w.execReady → e ∈ w'.execReady) (hs : ∀ t, t ∈ w.execSpawn → t ∈ w'.execSpawn) :
    Qc es w' c := by
  have sc : sched es w c → sched es w' c := by
    rintro (⟨e, he, hr'⟩ | h)
    · exact Or.inl ⟨e, he, hr e hr'⟩
    · exact Or.inr (hs _ h)
  have hab : w'.aborted c = w.aborted c := by simp [World.aborted, World.getMeta, hc, hm]
  refine ⟨?_, ?_, ?_⟩
  · rcases h.a with s | ⟨e, hw, he⟩
    · exact Or.inl (sc s)
    · exact Or.inr ⟨e, by rw [hc]; exact hw, he⟩
  · intro hna hn
    rw [hab] at hna
    unfold Nw at hn
    rw [hc] at hn
    exact sc (h.b hna hn)
  · rcases h.d with s | hd
    · exact Or.inl (sc s)
    · exact Or.inr (by unfold World.isDoneNow at hd ⊢; rw [hc]; exact hd)

theorem dropTask_qs' (me : Option Nat) (dc : Nat → World → World) (w : World) (t : Task) (ht : hostFreeB t.fut = true) :
    QS me w (dropTask dc t w) := by
  unfold M.Rt.dropTask
  simp only
  have q1 : QS me w (w.modMeta t.serial fun m => { m with taskAlive := false, joinWakers := [] }) :=
    QS.modMeta w _ _ (fun _ h => h)
  exact q1.trans (QS.of_NL (NL_dropBlock dc t.fut _ ht))

theorem dropTasks_qs' (me : Option Nat) (dc : Nat → World → World) : ∀ (l : List Task) (W : World),
    (∀ t ∈ l, hostFreeB t.fut = true) → QS me W (l.foldl (fun w t => dropTask dc t w) W) := by
  intro l
  induction l with
  | nil => intro W _; exact QS.refl _ W
  | cons t l ih =>
    intro W hl
    simp only [List.foldl_cons]
    exact (dropTask_qs' me dc W t (hl t (by simp))).trans (ih _ (fun x hx => hl x (by simp [hx])))

theorem dropEffs_q (me : Option Nat) : ∀ (l : List Eff) (W : World), QS me W (l.foldl dropEff W) := by
  intro l
  induction l with
  | nil => intro W; exact QS.refl _ W
  | cons e l ih => intro W; simp only [List.foldl_cons]; exact (dropEff_qs me W e).trans (ih _)

/-- dropping a flat command: it is dead afterwards, every other command sees a `QS` step -/
theorem dropCmd_flat (c : Nat) (w : World) (hw : HFc c w) (hin : c < w.cmds.length) :
    ∃ w1, QS none w1 (w.dropCmd c) ∧ (∀ d, c ≠ d → w1.cmd d = w.cmd d) ∧ w1.metas = w.metas ∧ w1.execReady = w.execReady ∧
      w1.execSpawn = w.execSpawn ∧ w1.cmds.length = w.cmds.length ∧ (w1.cmd c).alive = false ∧ HFc c w1 := by
  unfold World.dropCmd
  unfold dropCmdAt
  by_cases hal : (w.cmd c).alive = true
  · simp only [hal, Bool.not_true, Bool.false_eq_true, if_false]
    generalize hk : (w.modCmd c fun x => { x with alive := false, effects := [], events := [], spawnQ := [], tasks := {}, ready := [] }) = w1
    have hoth : ∀ d, c ≠ d → w1.cmd d = w.cmd d := by intro d hd; subst hk; exact World.cmd_modCmd_other w c d _ hd
    have hdead : (w1.cmd c).alive = false := by
      subst hk
      rw [World.cmd_modCmd_self]
      cases hc : w.cmds[c]? with
      | none => rw [List.getElem?_eq_none_iff] at hc; omega
      | some x => rfl
    have hfk : HFc c w1 := by
      subst hk
      refine hw.modCmd _ ?_ ?_
      · intro x t ht; simp [Slab.values] at ht
      · intro x t ht; cases ht
    refine ⟨w1, ?_, hoth, by subst hk; rfl, by subst hk; rfl, by subst hk; rfl, by subst hk; simp [World.modCmd, modifyNth_length], hdead, hfk⟩
    have q2 : QS none w1 (if (w.cmd c).effects.isEmpty then w1 else ((w.cmd c).effects.foldl dropEff w1).anomaly "command dropped with queued effects") := by
      split
      · exact QS.refl _ w1
      · exact (dropEffs_q none _ w1).trans (QS.fields _ _ rfl rfl rfl rfl)
    generalize (if (w.cmd c).effects.isEmpty then w1 else ((w.cmd c).effects.foldl dropEff w1).anomaly "command dropped with queued effects") = w2 at q2 ⊢
    have d3 := dropTasks_qs' none (dropCmdAt w.cmds.length) (w.cmd c).spawnQ w2 hw.s
    exact (q2.trans d3).trans (dropTasks_qs' none _ _ _ hw.t)
  · refine ⟨w, ?_, fun _ _ => rfl, rfl, rfl, rfl, rfl, by simpa using hal, hw⟩
    simp only [Bool.not_eq_true] at hal
    simp only [hal, Bool.not_false, if_true]
    exact QS.refl _ w

end M.Rt

namespace M.Rt

/-- transport of `Qc` along a change that keeps what `c` sees and does not lose its scheduling -/
theorem Qc.transport {es es' : Slab ExecTask} {w w' : World} {c : Nat} (h : Qc es w c) (hc : w'.cmd c = w.cmd c)
    (hm : w'.metas = w.metas) (hs : sched es w c → sched es' w' c) (hh : ∀ e, hostedBy es c e → hostedBy es' c e) :
    Qc es' w' c := by
  have hab : w'.aborted c = w.aborted c := by simp [World.aborted, World.getMeta, hc, hm]
  refine ⟨?_, ?_, ?_⟩
  · rcases h.a with s | ⟨e, hw, he⟩
    · exact Or.inl (hs s)
    · exact Or.inr ⟨e, by rw [hc]; exact hw, hh e he⟩
  · intro hna hn
    rw [hab] at hna
    unfold Nw at hn
    rw [hc] at hn
    exact hs (h.b hna hn)
  · rcases h.d with s | hd
    · exact Or.inl (hs s)
    · exact Or.inr (by unfold World.isDoneNow at hd ⊢; rw [hc]; exact hd)

def flatCmd : Cmd → Bool
  | .done | .event _ _ | .notify _ _ | .req _ _ _ | .stream _ _ _ | .chain _ _ _ _ _ => true
  | .task is => hostFreeIs is
  | .abortable _ c => flatCmd c
  | _ => false

def progFlat (prog : List (Nat × Cmd × List (List Instr))) : Prop :=
  ∀ p ∈ prog, flatCmd p.2.1 = true ∧ ∀ is ∈ p.2.2, hostFreeIs is = true

/-- the scheduling invariant of a flat Core; with `skip = some e` the commands hosted by executor task `e`, which is about
    to run, are exempt -/
structure QI (k : Core) (skip : Option Nat) : Prop where
  wf : Slab.WF k.execTasks
  hf : ∀ c, HFc c k.w
  th : ∀ t ∈ k.execTasks.values, execHF t = true
  sh : ∀ t ∈ k.w.execSpawn, execHF t = true
  host : ∀ e c, hostedBy k.execTasks c e → c < k.w.cmds.length
  spawnIn : ∀ c, ExecTask.cmd c ∈ k.w.execSpawn → c < k.w.cmds.length
  q : ∀ c, c < k.w.cmds.length → (k.w.cmd c).alive = true →
    Qc k.execTasks k.w c ∨ ∃ e, skip = some e ∧ hostedBy k.execTasks c e
  flat : progFlat k.prog

theorem spawnerLoop_q (es : Slab ExecTask) (etid c : Nat) (hh : hostedBy es c etid) : ∀ (f : Nat) (w : World) (d : Bool) (w' : World),
    spawnerLoop f etid c w = some (d, w') → (∀ x, HFc x w) → c < w.cmds.length →
    (∀ x, x < w.cmds.length → (w.cmd x).alive = true → x ≠ c → Qc es w x) →
    (∀ x, HFc x w') ∧ w'.cmds.length = w.cmds.length ∧ w'.execSpawn = w.execSpawn ∧
    (∀ x, x < w'.cmds.length → (w'.cmd x).alive = true → Qc es w' x) ∧ (d = true → (w'.cmd c).alive = false) := by
  intro f
  induction f with
  | zero => intro w d w' h; simp [spawnerLoop] at h
  | succ f ih =>
    intro w d w' h hf hin hq
    unfold spawnerLoop at h
    -- the poll: first the waker is registered
    have pre : ∀ (r : NextRes) (w1 : World), pollNext (.root etid) c w = some (r, w1) →
        (∀ x, HFc x w1) ∧ w1.cmds.length = w.cmds.length ∧ w1.execSpawn = w.execSpawn ∧
        (∀ x, x < w1.cmds.length → (w1.cmd x).alive = true → x ≠ c → Qc es w1 x) ∧
        (sched es w1 c ∨ armed es w1 c) ∧ (r = .pending → w1.aborted c = false → ¬ Nw w1 c) := by
      intro r w1 hp
      have p := pollNext_q _ c w r w1 hp (hf c)
      have x1 := es_of_X (pollNext_x _ _ _ _ _ hp)
      generalize hw0 : (w.modCmd c fun x => { x with waker := some (Waker.root etid) }) = w0 at p
      have hoth : ∀ x, c ≠ x → w0.cmd x = w.cmd x := by intro x hx; subst hw0; exact World.cmd_modCmd_other w c x _ hx
      have hlen0 : w0.cmds.length = w.cmds.length := by subst hw0; simp [World.modCmd, modifyNth_length]
      have harm : armed es w0 c := by
        refine ⟨etid, ?_, hh⟩
        subst hw0
        rw [World.cmd_modCmd_self]
        cases hc : w.cmds[c]? with
        | none => rw [List.getElem?_eq_none_iff] at hc; omega
        | some x => rfl
      refine ⟨?_, p.1.len.trans hlen0, x1, ?_, Qa.step p.1 (Or.inr harm), p.2.2⟩
      · intro x
        by_cases e : c = x
        · subst e; exact p.2.1
        · have h0 : HFc x w0 := ⟨by rw [hoth x e]; exact (hf x).t, by rw [hoth x e]; exact (hf x).s⟩
          exact h0.of_qs p.1 e
      · intro x hx hal hne
        have hal0 : (w0.cmd x).alive = true := by rw [← p.1.alive x]; exact hal
        have q0 : Qc es w0 x := by
          refine (hq x (by rw [← hlen0, ← p.1.len]; exact hx) (by rw [← hoth x (Ne.symm hne)]; exact hal0) hne).of_same
            (hoth x (Ne.symm hne)) (by subst hw0; rfl) (by subst hw0; exact fun _ h => h) (by subst hw0; exact fun _ h => h)
        exact q0.step p.1 (fun e => hne (Option.some.inj e))
    split at h
    · cases h
    · rename_i e w1 hp
      obtain ⟨a1, a2, a3, a4, _, _⟩ := pre _ w1 hp
      have := ih (w1.sinkEffect .core e) d w' h
        (fun x => ⟨(a1 x).t, (a1 x).s⟩) (by show w1.cmds.length > c; omega)
        (fun x hx hal hne => (a4 x hx hal hne).of_same rfl rfl (fun _ h => h) (fun _ h => h))
      exact ⟨this.1, this.2.1.trans a2, this.2.2.1.trans a3, this.2.2.2.1, this.2.2.2.2⟩
    · rename_i e w1 hp
      obtain ⟨a1, a2, a3, a4, _, _⟩ := pre _ w1 hp
      have := ih (w1.sinkEvent .core e) d w' h
        (fun x => ⟨(a1 x).t, (a1 x).s⟩) (by show w1.cmds.length > c; omega)
        (fun x hx hal hne => (a4 x hx hal hne).of_same rfl rfl (fun _ h => h) (fun _ h => h))
      exact ⟨this.1, this.2.1.trans a2, this.2.2.1.trans a3, this.2.2.2.1, this.2.2.2.2⟩
    · rename_i w1 hp
      obtain ⟨a1, a2, a3, a4, _, _⟩ := pre _ w1 hp
      simp only [Option.some.injEq, Prod.mk.injEq] at h
      obtain ⟨_, rfl⟩ := h
      obtain ⟨wk, q, hoth, hm, hr, hs, hl, hdead, hfk⟩ := dropCmd_flat c w1 (a1 c) (by omega)
      refine ⟨?_, by rw [q.len, hl, a2], by rw [es_of_X (X_World_dropCmd w1 c)]; exact a3, ?_, fun _ => by rw [q.alive c]; exact hdead⟩
      · intro x
        have hk : HFc x wk := by
          by_cases e : c = x
          · subst e
            exact hfk
          · exact ⟨by rw [hoth x e]; exact (a1 x).t, by rw [hoth x e]; exact (a1 x).s⟩
        exact hk.of_qs_none q
      · intro x hx hal
        have halk : (wk.cmd x).alive = true := by rw [← q.alive x]; exact hal
        have hne : x ≠ c := by intro e; subst e; rw [hdead] at halk; cases halk
        have q0 : Qc es wk x :=
          (a4 x (by rw [← hl, ← q.len]; exact hx) (by rw [← hoth x (Ne.symm hne)]; exact halk) hne).of_same
            (hoth x (Ne.symm hne)) hm (by rw [hr]; exact fun _ h => h) (by rw [hs]; exact fun _ h => h)
        exact q0.step q (fun e => by cases e)
    · rename_i w1 hp
      obtain ⟨a1, a2, a3, a4, a5, a6⟩ := pre _ w1 hp
      simp only [Option.some.injEq, Prod.mk.injEq] at h
      obtain ⟨rfl, rfl⟩ := h
      refine ⟨a1, a2, a3, ?_, fun h => by cases h⟩
      intro x hx hal
      by_cases e : x = c
      · subst e
        refine ⟨a5, ?_, Or.inr (pollNextF_pending _ _ _ _ _ hp)⟩
        intro hna hn
        exact absurd hn (a6 rfl hna)
      · exact a4 x hx hal e

end M.Rt

namespace M.Rt

theorem pollAt_core_q (wk : Waker) (b : Block) (w : World) (r : PollRes) (w' : World)
    (h : pollAt depthFuel wk .core b w = some (r, w')) (hf : hostFreeB b = true) : QS none w w' ∧ XL w w' := by
  have h' : pollBlock (pollNextF (runUntilSettledF (runTaskF (pollAt 63)))) loopFuel wk .core b w = some (r, w') := h
  exact ⟨pollBlock_qs _ _ _ _ _ _ _ _ h' hf, pollBlock_xlgood _ _ _ _ _ _ _ h' hf⟩

theorem hostedBy_inj {es : Slab ExecTask} {c d e : Nat} (h1 : hostedBy es c e) (h2 : hostedBy es d e) : c = d := by
  unfold hostedBy at h1 h2
  rw [h1] at h2
  cases h2; rfl

theorem legacyHF_execHF {t : ExecTask} (h : legacyHF t = true) : execHF t = true := by
  cases t with
  | cmd c => cases h
  | legacy b => exact h

theorem execRunTask_q (etid : Nat) (k : Core) (st : RunTask) (k' : Core) (h : execRunTask etid k = some (st, k'))
    (hk : QI k (some etid)) : QI k' none := by
  unfold execRunTask at h
  split at h
  · rename_i hg
    simp only [Option.some.injEq, Prod.mk.injEq] at h; obtain ⟨_, rfl⟩ := h
    refine ⟨hk.wf, hk.hf, hk.th, hk.sh, hk.host, hk.spawnIn, ?_, hk.flat⟩
    intro c hc hal
    rcases hk.q c hc hal with q | ⟨e, he, hh⟩
    · exact Or.inl q
    · cases he; unfold hostedBy at hh; rw [hg] at hh; cases hh
  · rename_i c hg
    have hin := hk.host etid c hg
    have hq : ∀ x, x < k.w.cmds.length → (k.w.cmd x).alive = true → x ≠ c → Qc k.execTasks k.w x := by
      intro x hx hal hne
      rcases hk.q x hx hal with q | ⟨e, he, hh⟩
      · exact q
      · cases he; exact absurd (hostedBy_inj hh hg) hne
    split at h
    · cases h
    · rename_i w1 hs
      simp only [Option.some.injEq, Prod.mk.injEq] at h; obtain ⟨_, rfl⟩ := h
      obtain ⟨s1, s2, s3, s4, s5⟩ := spawnerLoop_q k.execTasks etid c hg _ _ _ _ hs hk.hf hin hq
      have hdead := s5 rfl
      have rg := Slab.remove_get k.execTasks etid _ hg
      have hoth : ∀ e x, hostedBy (k.execTasks.remove etid).2 x e → hostedBy k.execTasks x e := by
        intro e x hx
        unfold hostedBy at hx ⊢
        by_cases ee : e = etid
        · subst ee; rw [rg.2.1] at hx; cases hx
        · rw [rg.2.2 e ee] at hx; exact hx
      refine ⟨Slab.wf_remove _ _ hk.wf, s1, fun t ht => hk.th t (Slab.mem_values_remove _ _ _ ht), by simp only [s3]; exact hk.sh,
        fun e x hx => by simp only [s2]; exact hk.host e x (hoth e x hx), fun x hx => by simp only [s2, s3] at hx ⊢; exact hk.spawnIn x hx, ?_, hk.flat⟩
      intro x hx hal
      refine Or.inl ?_
      have hne : x ≠ c := by intro e; subst e; simp only at hal; rw [hdead] at hal; cases hal
      have hto : ∀ e, hostedBy k.execTasks x e → hostedBy (k.execTasks.remove etid).2 x e := by
        intro e hx'
        unfold hostedBy at hx' ⊢
        have ee : e ≠ etid := by intro e'; subst e'; exact hne (hostedBy_inj hx' hg)
        rw [rg.2.2 e ee]; exact hx'
      refine (s4 x hx hal).transport rfl rfl ?_ hto
      rintro (⟨e, he, hr⟩ | h)
      · exact Or.inl ⟨e, hto e he, hr⟩
      · exact Or.inr h
    · rename_i w1 hs
      simp only [Option.some.injEq, Prod.mk.injEq] at h; obtain ⟨_, rfl⟩ := h
      obtain ⟨s1, s2, s3, s4, _⟩ := spawnerLoop_q k.execTasks etid c hg _ _ _ _ hs hk.hf hin hq
      exact ⟨hk.wf, s1, hk.th, by simp only [s3]; exact hk.sh, fun e x hx => by simp only [s2]; exact hk.host e x hx,
        fun x hx => by simp only [s2, s3] at hx ⊢; exact hk.spawnIn x hx, fun x hx hal => Or.inl (s4 x hx hal), hk.flat⟩
  · rename_i b hg
    have hfb : hostFreeB b = true := hk.th _ (Slab.mem_values_of_get _ _ _ hg)
    have hq : ∀ x, x < k.w.cmds.length → (k.w.cmd x).alive = true → Qc k.execTasks k.w x := by
      intro x hx hal
      rcases hk.q x hx hal with q | ⟨e, he, hh⟩
      · exact q
      · cases he; unfold hostedBy at hh; rw [hg] at hh; cases hh
    -- what both outcomes share
    have common : ∀ (r : PollRes) (w1 : World), pollAt depthFuel (.root etid) .core b k.w = some (r, w1) →
        (∀ x, HFc x w1) ∧ (∀ t ∈ w1.execSpawn, execHF t = true) ∧ w1.cmds.length = k.w.cmds.length ∧
        (∀ x, ExecTask.cmd x ∈ w1.execSpawn → x < w1.cmds.length) ∧
        (∀ x, x < w1.cmds.length → (w1.cmd x).alive = true → Qc k.execTasks w1 x) ∧ hfRes r := by
      intro r w1 hp
      obtain ⟨q, xl⟩ := pollAt_core_q _ _ _ _ _ hp hfb
      have hres := (pollAt_core _ _ _ _ _ hp hfb).2.2.2.2
      refine ⟨fun x => (hk.hf x).of_qs_none q, ?_, q.len, ?_, ?_, hres⟩
      · intro t ht
        rcases xl t ht with h | h
        · exact hk.sh t h
        · exact legacyHF_execHF h
      · intro x hx
        rcases xl _ hx with h | h
        · rw [q.len]; exact hk.spawnIn x h
        · cases h
      · intro x hx hal
        exact (hq x (by rw [← q.len]; exact hx) (by rw [← q.alive x]; exact hal)).step q (fun e => by cases e)
    split at h
    · cases h
    · rename_i env1 w1 hp
      simp only [Option.some.injEq, Prod.mk.injEq] at h; obtain ⟨_, rfl⟩ := h
      obtain ⟨c1, c2, c3, c4, c5, _⟩ := common _ w1 hp
      have rg := Slab.remove_get k.execTasks etid _ hg
      have hoth : ∀ e x, hostedBy (k.execTasks.remove etid).2 x e → hostedBy k.execTasks x e := by
        intro e x hx
        unfold hostedBy at hx ⊢
        by_cases ee : e = etid
        · subst ee; rw [rg.2.1] at hx; cases hx
        · rw [rg.2.2 e ee] at hx; exact hx
      have hto : ∀ e x, hostedBy k.execTasks x e → hostedBy (k.execTasks.remove etid).2 x e := by
        intro e x hx'
        unfold hostedBy at hx' ⊢
        have ee : e ≠ etid := by intro e'; subst e'; rw [hg] at hx'; cases hx'
        rw [rg.2.2 e ee]; exact hx'
      refine ⟨Slab.wf_remove _ _ hk.wf, c1, fun t ht => hk.th t (Slab.mem_values_remove _ _ _ ht), c2,
        fun e x hx => by simp only [c3]; exact hk.host e x (hoth e x hx), c4, ?_, hk.flat⟩
      intro x hx hal
      refine Or.inl ((c5 x hx hal).transport rfl rfl ?_ (fun e => hto e x))
      rintro (⟨e, he, hr⟩ | h)
      · exact Or.inl ⟨e, hto e x he, hr⟩
      · exact Or.inr h
    · rename_i b' w1 hp
      simp only [Option.some.injEq, Prod.mk.injEq] at h; obtain ⟨_, rfl⟩ := h
      obtain ⟨c1, c2, c3, c4, c5, c6⟩ := common _ w1 hp
      have hoth : ∀ e x, hostedBy (k.execTasks.set etid (.legacy b')) x e → hostedBy k.execTasks x e := by
        intro e x hx
        unfold hostedBy at hx ⊢
        by_cases ee : e = etid
        · subst ee
          unfold Slab.set at hx
          simp only [hg] at hx
          simp only [Slab.get?] at hx hg
          by_cases hlt : e < k.execTasks.entries.length
          · simp [hlt] at hx
          · rw [List.getElem?_eq_none (by omega)] at hg; cases hg
        · rw [Slab.get_set_other _ _ _ _ ee] at hx; exact hx
      have hto : ∀ e x, hostedBy k.execTasks x e → hostedBy (k.execTasks.set etid (.legacy b')) x e := by
        intro e x hx'
        unfold hostedBy at hx' ⊢
        have ee : e ≠ etid := by intro e'; subst e'; rw [hg] at hx'; cases hx'
        rw [Slab.get_set_other _ _ _ _ ee]; exact hx'
      refine ⟨Slab.wf_set _ _ _ hk.wf, c1, ?_, c2, fun e x hx => by simp only [c3]; exact hk.host e x (hoth e x hx), c4, ?_, hk.flat⟩
      · intro t ht
        rcases Slab.mem_values_set _ _ _ _ ht with rfl | h
        · exact c6
        · exact hk.th t h
      · intro x hx hal
        refine Or.inl ((c5 x hx hal).transport rfl rfl ?_ (fun e => hto e x))
        rintro (⟨e, he, hr⟩ | h)
        · exact Or.inl ⟨e, hto e x he, hr⟩
        · exact Or.inr h

end M.Rt
