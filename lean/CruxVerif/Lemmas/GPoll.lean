/- The global measure through one poll of ANY block (hosting blocks included). -/
import CruxVerif.Lemmas.GDrop
namespace M.Rt

def PnG (pn : Waker → Nat → World → Option (NextRes × World)) : Prop :=
  ∀ wk c w r w', pn wk c w = some (r, w') → HL w → GLe w [] w' []

def GGood (pn : Waker → Nat → World → Option (NextRes × World)) (f : Nat) : Prop :=
  ∀ wk p b w r w', pollBlock pn f wk (.cmd p) b w = some (r, w') → HL w → hostsLtB p b = true →
    GLe w (refsB b) w' (resRefs r)

theorem ggood_zero (pn) : GGood pn 0 := by
  intro wk p b w r w' h; simp [pollBlock] at h

theorem GGood.cont {pn f} (ih : GGood pn f) {wk : Waker} {p : Nat} {env : Env} {rest : List Instr} {w w1 : World}
    {X : List Nat} {r : PollRes} {w' : World} (h1 : GLe w X w1 []) (hw1 : HL w1) (hb : hostsLtIs p rest = true)
    (h : pollBlock pn f wk (.cmd p) (.mk env .idle rest) w1 = some (r, w')) : GLe w X w' (resRefs r) := by
  have := ih wk p _ w1 r w' h hw1 (by simp [hostsLtB, hostsLtP, hb])
  rw [refs_idle] at this
  exact h1.trans this

theorem HL.step {p : Nat} {w w1 : World} (hw : HL w) (f1 : TKp (NewP p) w w1) : HL w1 :=
  hw.tk f1 (fun q t hn => by rw [hn.1]; exact hn.2)

theorem GLe.alloc (w w' : World) (hg : ∀ l, G l w' = G l w) (hl : w'.leaves.length = w.leaves.length + 1) :
    GLe w [] w' [w.leaves.length] := by
  refine ⟨by omega, ?_⟩
  intro l
  rw [hg l]
  unfold fresh
  by_cases h : l = w.leaves.length
  · subst h; simp [hl]; omega
  · have : (w.leaves.length == l) = false := by simp; omega
    simp [List.count_cons, this]

theorem cnt_append_one (l : Nat) (ts : List Task) (t : Task) : cnt l (ts ++ [t]) = cnt l ts + (taskRefs t).count l := by
  simp [cnt]

/-- spawning into command `c`'s queue adds at most the new task's references -/
theorem G_spawn (l : Nat) (W : World) (c : Nat) (t : Task) :
    G l (W.modCmd c fun x => { x with spawnQ := x.spawnQ ++ [t] }) ≤ G l W + (refsB t.fut).count l := by
  have h := G_modCmd l W c fun x => { x with spawnQ := x.spawnQ ++ [t] }
  have : cmdCnt l ((W.modCmd c fun x => { x with spawnQ := x.spawnQ ++ [t] }).cmd c) ≤
      cmdCnt l (W.cmd c) + (refsB t.fut).count l := by
    rw [World.cmd_modCmd_self]
    simp only [World.cmd]
    cases W.cmds[c]? with
    | none => simp [cmdCnt_default]
    | some x => simp only [Option.getD_some, cmdCnt, cnt_append_one, taskRefs]; omega
  omega

theorem GLe.spawn_idle (w W : World) (c : Nat) (t : Task) (hg : ∀ l, G l W = G l w) (hl : W.leaves.length = w.leaves.length)
    (ht : refsB t.fut = []) : GLe w [] (W.modCmd c fun x => { x with spawnQ := x.spawnQ ++ [t] }) [] := by
  refine ⟨by show w.leaves.length ≤ W.leaves.length; omega, ?_⟩
  intro l
  have := G_spawn l W c t
  rw [ht, hg l] at this
  simp only [List.count_nil, Nat.add_zero, Nat.zero_add] at this ⊢
  omega

theorem GLe.handoff (w W : World) (c : Nat) (t : Task) (hg : ∀ l, G l W = G l w)
    (hl : W.leaves.length = w.leaves.length + 1) (ht : refsB t.fut = [w.leaves.length]) :
    GLe w [] (W.modCmd c fun x => { x with spawnQ := x.spawnQ ++ [t] }) [] := by
  have hlen : (W.modCmd c fun x => { x with spawnQ := x.spawnQ ++ [t] }).leaves.length = w.leaves.length + 1 := hl
  refine ⟨by omega, ?_⟩
  intro l
  have h1 := G_spawn l W c t
  rw [ht, hg l] at h1
  unfold fresh
  rw [hlen]
  by_cases h : l = w.leaves.length
  · subst h; simp at h1 ⊢; omega
  · have : (w.leaves.length == l) = false := by simp; omega
    simp [List.count_cons, this] at h1 ⊢
    omega

theorem G_forward (l : Nat) (w : World) (c : Nat) (o : Output) : G l (w.forward c o) = G l w := by
  cases o with
  | effect e => exact G_modCmd_same l w c _ (fun _ => rfl) (fun _ => rfl)
  | event e => exact G_modCmd_same l w c _ (fun _ => rfl) (fun _ => rfl)

theorem len_forward (w : World) (c : Nat) (o : Output) : (w.forward c o).leaves.length = w.leaves.length := by
  cases o <;> rfl

theorem hostLoop_g (pn) (hpnT : PnT pn) (hpnG : PnG pn) : ∀ (f : Nat) (wk : Waker) (me c : Nat) (m : Mapper) (w : World)
    (d : Bool) (w' : World), hostLoop pn f wk me c m w = some (d, w') → HL w → GLe w [] w' [] := by
  intro f
  induction f with
  | zero => intro wk me c m w d w' h; simp [hostLoop] at h
  | succ f ih =>
    intro wk me c m w d w' h hw
    unfold hostLoop at h
    cases hp : pn wk c w with
    | none => simp [hp] at h
    | some res =>
      obtain ⟨nr, w1⟩ := res
      have hk := hpnG wk c w nr w1 hp hw
      have hl1 := (hpnT wk c w nr w1 hp hw).1
      cases nr with
      | item o =>
        simp only [hp] at h
        have f1 : TK0 w1 (w1.forward me (applyMapper m o)) := by
          cases (applyMapper m o) with
          | effect e => exact tk_modCmd w1 me _ (fun _ => rfl) (fun _ => rfl)
          | event e => exact tk_modCmd w1 me _ (fun _ => rfl) (fun _ => rfl)
        have g1 : GLe w1 [] (w1.forward me (applyMapper m o)) [] :=
          GLe.of_same [] (fun l => G_forward l w1 me _) (len_forward w1 me _)
        exact (hk.trans g1).trans (ih wk me c m _ d w' h (hl1.tk0 f1))
      | finished =>
        simp only [hp, Option.some.injEq, Prod.mk.injEq] at h
        obtain ⟨_, rfl⟩ := h
        exact hk
      | pending =>
        simp only [hp, Option.some.injEq, Prod.mk.injEq] at h
        obtain ⟨_, rfl⟩ := h
        exact hk

end M.Rt

namespace M.Rt

theorem len_newLeaf_sinkEffect (w : World) (k : Option Waker) (lg : Bool) (s : Sink) (e : Eff) :
    ((w.newLeaf k lg).2.sinkEffect s e).leaves.length = w.leaves.length + 1 := by
  rw [len_sinkEffect]; simp [World.newLeaf]

theorem G_newLeaf_sinkEffect (l : Nat) (w : World) (k : Option Waker) (lg : Bool) (s : Sink) (e : Eff) :
    G l ((w.newLeaf k lg).2.sinkEffect s e) = G l w := by
  rw [G_sinkEffect]; exact G_of_cmds rfl

/-- one side of a `join!` -/
theorem ghalf {pn f} (ih : GGood pn f) (hgT : HGood pn f) {wk : Waker} {p : Nat} (d : Bool) (x : Block) (env : Env) (w : World)
    (rx : PollRes) (w1 : World)
    (hx : (if d = true then some (PollRes.ready env, w) else pollBlock pn f wk (.cmd p) x w) = some (rx, w1))
    (hw : HL w) (hb : hostsLtB p x = true) :
    GLe w (if d then [] else refsB x) w1 (resRefs rx) ∧ HL w1 ∧ (∀ x', rx = .pending x' → hostsLtB p x' = true) := by
  cases d with
  | true =>
    simp only [if_true, Option.some.injEq, Prod.mk.injEq] at hx
    obtain ⟨rfl, rfl⟩ := hx
    exact ⟨GLe.refl _ _, hw, fun _ hc => by cases hc⟩
  | false =>
    simp only [Bool.false_eq_true, if_false] at hx ⊢
    have t := hgT wk p x w rx w1 hx hw hb
    exact ⟨ih wk p x w rx w1 hx hw hb, t.1, fun x' hx' => by subst hx'; exact t.2.1⟩

theorem ggood_succ (pn) (hpnT : PnT pn) (hpnG : PnG pn) (f : Nat) (ih : GGood pn f) : GGood pn (f + 1) := by
  have hgT : HGood pn f := pollBlock_hgood pn hpnT f
  intro wk p b w r w' h hw hb
  obtain ⟨env, cur, rest⟩ := b
  unfold pollBlock at h
  simp only at h
  simp only [hostsLtB, Bool.and_eq_true] at hb
  obtain ⟨hbc, hbr⟩ := hb
  cases cur with
  | idle =>
    rw [refs_idle]
    cases rest with
    | nil =>
      simp only [Option.some.injEq, Prod.mk.injEq] at h
      obtain ⟨rfl, rfl⟩ := h
      exact GLe.refl _ _
    | cons i rest' =>
      simp only [hostsLtIs, Bool.and_eq_true] at hbr
      obtain ⟨hbi, hbr'⟩ := hbr
      cases i with
      | emit tag e =>
        exact ih.cont (GLe.same_drop [] (fun l => G_sinkEvent l w (.cmd p) _) (len_sinkEvent w (.cmd p) _))
          (hw.step (p := p) (tk_sinkEvent w (.cmd p) _)) hbr' h
      | notify n e =>
        exact ih.cont (GLe.same_drop [] (fun l => G_sinkEffect l w (.cmd p) _) (len_sinkEffect w (.cmd p) _))
          (hw.step (p := p) (tk_sinkEffect w (.cmd p) _)) hbr' h
      | req x n e =>
        simp only [Option.some.injEq, Prod.mk.injEq] at h
        obtain ⟨rfl, rfl⟩ := h
        simp only [resRefs, refsB, refsP]
        exact GLe.alloc w _ (fun l => G_newLeaf_sinkEffect l w _ _ _ _) (len_newLeaf_sinkEffect w _ _ _ _)
      | stream x n e limit body =>
        simp only [Option.some.injEq, Prod.mk.injEq] at h
        obtain ⟨rfl, rfl⟩ := h
        simp only [resRefs, refsB, refsP]
        exact GLe.alloc w _ (fun l => G_newLeaf_sinkEffect l w _ _ _ _) (len_newLeaf_sinkEffect w _ _ _ _)
      | spawn hd body =>
        simp only at h
        simp only [hostsLtI] at hbi
        refine ih.cont (w1 := _) ?_ ?_ hbr' h
        · exact GLe.spawn_idle w w.newMeta.2 p _ (fun l => G_of_cmds rfl) rfl (refs_idle _ _)
        · refine hw.step (p := p) (w1 := _) (tk_newMeta_spawn w p _ ?_)
          exact ⟨rfl, by simp [hostsLtB, hostsLtP, hbi]⟩
      | handoff x n e body =>
        simp only at h
        simp only [hostsLtI] at hbi
        refine ih.cont (w1 := _) ?_ ?_ hbr' h
        · refine GLe.handoff w _ p _ ?_ ?_ ?_
          · intro l; exact (G_of_cmds rfl).trans (G_newLeaf_sinkEffect l w _ _ _ _)
          · exact len_newLeaf_sinkEffect w _ _ _ _
          · simp [refsB, refsP, World.newLeaf]
        · refine hw.step (p := p) (w1 := _) (TKp.trans (tk_newLeaf_sinkEffect w (some wk) false (.cmd p) _) (tk_newMeta_spawn _ p _ ?_))
          exact ⟨rfl, by simp [hostsLtB, hostsLtP, hbi]⟩
      | await hd =>
        cases hh : env.handle hd with
        | none => simp only [hh] at h; exact ih.cont (GLe.refl _ _) hw hbr' h
        | some s =>
          simp only [hh] at h
          have := ih wk p _ w r w' h hw (by simp [hostsLtB, hostsLtP, hbr'])
          simpa [refsB, refsP] using this
      | abortTask hd =>
        cases hh : env.handle hd with
        | none => simp only [hh] at h; exact ih.cont (GLe.refl _ _) hw hbr' h
        | some s =>
          simp only [hh] at h
          refine ih.cont (w1 := _) ?_ ?_ hbr' h
          · exact GLe.same_drop [] (fun l => G_of_cmds rfl) rfl
          · exact hw.step (p := p) (tk_of_cmds rfl)
      | join a b =>
        simp only [hostsLtI, Bool.and_eq_true] at hbi
        have := ih wk p _ w r w' h hw (by simp [hostsLtB, hostsLtP, hbr', hbi.1, hbi.2])
        simpa [refsB, refsP] using this
      | select a b =>
        simp only [hostsLtI, Bool.and_eq_true] at hbi
        have := ih wk p _ w r w' h hw (by simp [hostsLtB, hostsLtP, hbr', hbi.1, hbi.2])
        simpa [refsB, refsP] using this
      | selfwake k =>
        have := ih wk p _ w r w' h hw (by simp [hostsLtB, hostsLtP, hbr'])
        simpa [refsB, refsP] using this
      | abortCmd name =>
        simp only at h
        split at h
        · exact ih.cont (GLe.same_drop [] (fun l => G_abortCmd l w _) (len_abortCmd w _)) (hw.step (p := p) (tk_abortCmd w _)) hbr' h
        · exact ih.cont (GLe.refl _ _) hw hbr' h
      | host c m =>
        simp only [hostsLtI] at hbi
        have := ih wk p _ w r w' h hw (by simp [hostsLtB, hostsLtP, hbr', hbi])
        simpa [refsB, refsP] using this
  | req x l =>
    simp only at h
    have hX : refsB (.mk env (.req x l) rest) = [l] := by simp [refsB, refsP]
    rw [hX]
    have gd : ∀ (X : List Nat), GLe w X (w.dropReceiver l) [] :=
      fun X => GLe.same_drop X (fun _ => G_of_cmds rfl) (len_dropReceiver w l)
    split at h
    · exact ih.cont (gd [l]) (hw.step (p := p) (tk_dropReceiver w l)) hbr h
    · split at h
      · simp only [Option.some.injEq, Prod.mk.injEq] at h
        obtain ⟨rfl, rfl⟩ := h
        simp only [resRefs, refsB, refsP]
        exact gd [l]
      · simp only [Option.some.injEq, Prod.mk.injEq] at h
        obtain ⟨rfl, rfl⟩ := h
        simp only [resRefs, refsB, refsP]
        exact GLe.of_same [l] (fun _ => G_of_cmds rfl) (len_modLeaf w l _)
  | reqDead =>
    simp only [Option.some.injEq, Prod.mk.injEq] at h
    obtain ⟨rfl, rfl⟩ := h
    exact GLe.refl _ _
  | streamWait x l count limit body =>
    simp only [hostsLtP] at hbc
    simp only at h
    have hX : refsB (.mk env (.streamWait x l count limit body) rest) = [l] := by simp [refsB, refsP]
    rw [hX]
    have gd : GLe w [l] (w.dropReceiver l) [] := GLe.same_drop [l] (fun _ => G_of_cmds rfl) (len_dropReceiver w l)
    split at h
    · exact ih.cont gd (hw.step (p := p) (tk_dropReceiver w l)) hbr h
    · split at h
      · rename_i v q _
        have h1 : GLe w [l] (w.modLeaf l fun lf => { lf with queue := q }) [l] :=
          GLe.of_same [l] (fun _ => G_of_cmds rfl) (len_modLeaf w l _)
        have hw1 : HL (w.modLeaf l fun lf => { lf with queue := q }) := hw.step (p := p) (tk_of_cmds rfl)
        have h2 := ih wk p _ _ r w' h hw1 (by simp [hostsLtB, hostsLtP, hbr, hbc])
        have hY : refsB (.mk env (.streamBody x l count limit body (.mk (env.set x v) .idle body)) rest) = [l] := by
          simp [refsB, refsP]
        rw [hY] at h2
        exact h1.trans h2
      · split at h
        · exact ih.cont gd (hw.step (p := p) (tk_dropReceiver w l)) hbr h
        · simp only [Option.some.injEq, Prod.mk.injEq] at h
          obtain ⟨rfl, rfl⟩ := h
          simp only [resRefs, refsB, refsP]
          exact GLe.of_same [l] (fun _ => G_of_cmds rfl) (len_modLeaf w l _)
  | streamBody x l count limit body inner =>
    simp only [hostsLtP, Bool.and_eq_true] at hbc
    simp only at h
    have hX : refsB (.mk env (.streamBody x l count limit body inner) rest) = [l] ++ refsB inner ++ [] := by
      simp [refsB, refsP]
    rw [hX]
    cases hp : pollBlock pn f wk (.cmd p) inner w with
    | none => simp [hp] at h
    | some res =>
      obtain ⟨ri, w1⟩ := res
      have hi := (ih wk p inner w ri w1 hp hw hbc.2).frame [l] []
      have ht := hgT wk p inner w ri w1 hp hw hbc.2
      cases ri with
      | pending inner' =>
        simp only [hp, Option.some.injEq, Prod.mk.injEq] at h
        obtain ⟨rfl, rfl⟩ := h
        have : resRefs (.pending (.mk env (.streamBody x l count limit body inner') rest)) = [l] ++ refsB inner' ++ [] := by
          simp [resRefs, refsB, refsP]
        rw [this]
        exact hi
      | ready env' =>
        simp only [hp] at h
        have h2 := ih wk p _ w1 r w' h ht.1 (by simp [hostsLtB, hostsLtP, hbr, hbc.1])
        have hY : refsB (.mk env' (.streamWait x l (count + 1) limit body) rest) = [l] ++ resRefs (.ready env') ++ [] := by
          simp [refsB, refsP, resRefs]
        rw [hY] at h2
        exact hi.trans h2
  | await s =>
    simp only at h
    have hX : refsB (.mk env (.await s) rest) = [] := by simp [refsB, refsP]
    rw [hX]
    split at h
    · exact ih.cont (GLe.refl _ _) hw hbr h
    · split at h
      · simp only [Option.some.injEq, Prod.mk.injEq] at h
        obtain ⟨rfl, rfl⟩ := h
        simp only [resRefs, refsB, refsP]
        exact GLe.of_same [] (fun _ => G_of_cmds rfl) rfl
      · exact ih.cont (GLe.refl _ _) hw hbr h
  | join a b ad bd =>
    simp only [hostsLtP, Bool.and_eq_true] at hbc
    simp only at h
    have hX : refsB (.mk env (.join a b ad bd) rest) = (if ad then [] else refsB a) ++ (if bd then [] else refsB b) := by
      simp [refsB, refsP]
    rw [hX]
    split at h
    · simp at h
    · rename_i ra w1 hra
      split at h
      · simp at h
      · rename_i rb w2 hrb
        have ha := ghalf ih hgT ad a env w ra w1 hra hw hbc.1
        have hb := ghalf ih hgT bd b env w1 rb w2 hrb ha.2.1 hbc.2
        have h1 := ha.1.frame [] (if bd then [] else refsB b)
        have h2 := hb.1.frame (resRefs ra) []
        simp only [List.nil_append, List.append_nil] at h1 h2
        have h12 := h1.trans h2
        cases ra with
        | pending a' =>
          cases rb with
          | pending b' =>
            simp only [Bool.and_self, Bool.false_eq_true, if_false, Option.some.injEq, Prod.mk.injEq] at h
            obtain ⟨rfl, rfl⟩ := h
            simpa [resRefs, refsB, refsP] using h12
          | ready envb =>
            simp only [Bool.false_and, Bool.false_eq_true, if_false, Option.some.injEq, Prod.mk.injEq] at h
            obtain ⟨rfl, rfl⟩ := h
            simpa [resRefs, refsB, refsP] using h12
        | ready enva =>
          cases rb with
          | pending b' =>
            simp only [Bool.and_false, Bool.false_eq_true, if_false, Option.some.injEq, Prod.mk.injEq] at h
            obtain ⟨rfl, rfl⟩ := h
            simpa [resRefs, refsB, refsP] using h12
          | ready envb =>
            simp only [Bool.and_self, if_true] at h
            simp only [resRefs, List.append_nil] at h12
            exact ih.cont h12 hb.2.1 hbr h
  | select a b =>
    simp only [hostsLtP, Bool.and_eq_true] at hbc
    simp only at h
    have hX : refsB (.mk env (.select a b) rest) = refsB a ++ refsB b := by simp [refsB, refsP]
    rw [hX]
    cases hp : pollBlock pn f wk (.cmd p) a w with
    | none => simp [hp] at h
    | some res =>
      obtain ⟨ra, w1⟩ := res
      have hia := ih wk p a w ra w1 hp hw hbc.1
      have hta := hgT wk p a w ra w1 hp hw hbc.1
      have h1 := hia.frame [] (refsB b)
      simp only [List.nil_append] at h1
      cases ra with
      | ready enva =>
        simp only [hp] at h
        have hd := World_dropBlock_hl p w1 b hbc.2 hta.1
        have h2 : GLe w1 (resRefs (.ready enva) ++ refsB b) (w1.dropBlock b) [] :=
          ((dec_World_dropBlock w1 b).toGLe _).drop (fun l => by simp)
        exact ih.cont (h1.trans h2) hd.1 hbr h
      | pending a' =>
        simp only [hp] at h
        have hfa : hostsLtB p a' = true := hta.2.1
        cases hq : pollBlock pn f wk (.cmd p) b w1 with
        | none => simp [hq] at h
        | some res2 =>
          obtain ⟨rb, w2⟩ := res2
          have hib := ih wk p b w1 rb w2 hq hta.1 hbc.2
          have htb := hgT wk p b w1 rb w2 hq hta.1 hbc.2
          have h2 := hib.frame (refsB a') []
          simp only [List.append_nil] at h2
          simp only [resRefs] at h1
          have h12 := h1.trans h2
          cases rb with
          | ready envb =>
            simp only [hq] at h
            have hd := World_dropBlock_hl p w2 a' hfa htb.1
            have h3 : GLe w2 (refsB a' ++ resRefs (.ready envb)) (w2.dropBlock a') [] :=
              ((dec_World_dropBlock w2 a').toGLe _).drop (fun l => by simp)
            exact ih.cont (h12.trans h3) hd.1 hbr h
          | pending b' =>
            simp only [hq, Option.some.injEq, Prod.mk.injEq] at h
            obtain ⟨rfl, rfl⟩ := h
            simpa [resRefs, refsB, refsP] using h12
  | selfwake k =>
    simp only at h
    have hX : refsB (.mk env (.selfwake k) rest) = [] := by simp [refsB, refsP]
    rw [hX]
    split at h
    · exact ih.cont (GLe.refl _ _) hw hbr h
    · simp only [Option.some.injEq, Prod.mk.injEq] at h
      obtain ⟨rfl, rfl⟩ := h
      simp only [resRefs, refsB, refsP]
      exact GLe.of_same [] (fun l => G_World_wake l w wk) (len_wake w wk)
  | host c m =>
    simp only [hostsLtP, decide_eq_true_eq] at hbc
    simp only at h
    have hX : refsB (.mk env (.host c m) rest) = [] := by simp [refsB, refsP]
    rw [hX]
    cases hl : hostLoop pn f wk p c m w with
    | none => simp [hl] at h
    | some res =>
      obtain ⟨d, w1⟩ := res
      have g1 := hostLoop_g pn hpnT hpnG f wk p c m w d w1 hl hw
      have t1 := hostLoop_hl pn hpnT f wk p c m w d w1 hl hbc hw
      cases d with
      | true =>
        simp only [hl] at h
        have hd := World_dropCmd_hl w1 c t1.1
        exact ih.cont (g1.trans ((dec_World_dropCmd w1 c).toGLe [])) hd.1 hbr h
      | false =>
        simp only [hl, Option.some.injEq, Prod.mk.injEq] at h
        obtain ⟨rfl, rfl⟩ := h
        simpa [resRefs, refsB, refsP] using g1

theorem pollBlock_ggood (pn) (hpnT : PnT pn) (hpnG : PnG pn) : ∀ f, GGood pn f
  | 0 => ggood_zero pn
  | f + 1 => ggood_succ pn hpnT hpnG f (pollBlock_ggood pn hpnT hpnG f)

end M.Rt
