/- What freshness buys: the serial `run_task` is about to hand out is held nowhere and flagged nowhere. -/
import CruxVerif.Lemmas.FreshHosts
import CruxVerif.Lemmas.EvictComplete
namespace M.Rt

theorem isSerial_of_below (n : Nat) (k : Option Waker) (h : owkB n k) : isSerial n k = false := by
  cases k with
  | none => rfl
  | some k =>
    cases k with
    | root _ => rfl
    | task c t s =>
      simp only [isSerial, beq_eq_false_iff_ne, ne_eq]
      have : s < n := h
      omega

theorem filter_length_zero {α : Type} (p : α → Bool) (l : List α) (h : ∀ a ∈ l, p a = false) : (l.filter p).length = 0 := by
  rw [List.length_eq_zero_iff, List.filter_eq_nil_iff]
  intro a ha
  rw [h a ha]; simp

theorem sum_map_zero {α : Type} (g : α → Nat) : ∀ (l : List α), (∀ a ∈ l, g a = 0) → (l.map g).sum = 0
  | [], _ => rfl
  | a :: l, h => by
    simp only [List.map_cons, List.sum_cons]
    rw [h a (by simp), sum_map_zero g l (fun b hb => h b (by simp [hb]))]

/-- in a fresh world nothing holds the next serial and it is not flagged as woken -/
theorem SOk.next_unheld {w : World} (h : SOk w) : w.holders w.nextSerial = 0 ∧ w.woken.contains w.nextSerial = false := by
  constructor
  · unfold World.holders
    rw [filter_length_zero _ _ (fun lf hlf => isSerial_of_below _ _ (h.leaves lf hlf)),
        filter_length_zero _ _ (fun c hc => isSerial_of_below _ _ (h.cmds c hc)),
        sum_map_zero _ _ (fun m hm => filter_length_zero _ _ (fun k hk => isSerial_of_below _ (some k) (h.metas m hm k hk)))]
  · cases hc : w.woken.contains w.nextSerial with
    | false => rfl
    | true =>
      have := h.woken _ (List.contains_iff_mem.mp hc)
      omega

end M.Rt
