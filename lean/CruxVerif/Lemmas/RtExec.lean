/- Postconditions of the executor loops of M.Rt, for an ARBITRARY lower layer (`runTask` is a parameter):
   whatever polling a task does, the loops return only with their queues drained. -/
import CruxVerif.Lemmas.RtBasic
namespace M.Rt

/-- `while let Ok(task_id) = self.ready_queue.try_recv()` returns only with the ready queue empty -/
theorem drainReady_ready_nil (rt : Nat → Nat → World → Option (TaskState × World)) :
    ∀ (f cid : Nat) (w w' : World), drainReady rt f cid w = some w' → (w'.cmd cid).ready = [] := by
  intro f
  induction f with
  | zero => intro cid w w' h; simp [drainReady] at h
  | succ f ih =>
    intro cid w w' h
    unfold drainReady at h
    split at h
    · rename_i hr; cases h; exact hr
    · rename_i tid rest hr
      simp only at h
      split at h
      · cases h
      · exact ih _ _ _ h
      · exact ih _ _ _ h
      · exact ih _ _ _ h
      · exact ih _ _ _ h

/-- folding `insert` over the spawn queue does not refill the spawn queue -/
theorem spawnFold_spawnQ (cid : Nat) (ts : List Task) (w : World) :
    ((ts.foldl (fun w t =>
        w.modCmd cid fun c =>
          let (tid, tasks) := c.tasks.insert t
          { c with tasks := tasks, ready := c.ready ++ [tid] }) w).cmd cid).spawnQ = (w.cmd cid).spawnQ := by
  induction ts generalizing w with
  | nil => rfl
  | cons t ts ih =>
    simp only [List.foldl_cons]
    rw [ih]
    apply World.cmd_modCmd_spawnQ_keep
    intro c; rfl

/-- `spawn_new_tasks` empties the spawn queue -/
theorem spawnNewTasks_spawnQ_nil (cid : Nat) (w : World) : ((spawnNewTasks cid w).cmd cid).spawnQ = [] := by
  unfold spawnNewTasks
  rw [spawnFold_spawnQ]
  apply World.cmd_modCmd_spawnQ_nil
  intro c; rfl

/-- the outer loop of `run_until_settled` returns only when, right after `spawn_new_tasks`, the ready queue is empty -/
theorem settleLoop_post (rt : Nat → Nat → World → Option (TaskState × World)) :
    ∀ (f cid : Nat) (w w' : World), settleLoop rt f cid w = some w' →
      (w'.cmd cid).ready = [] ∧ (w'.cmd cid).spawnQ = [] := by
  intro f
  induction f with
  | zero => intro cid w w' h; simp [settleLoop] at h
  | succ f ih =>
    intro cid w w' h
    unfold settleLoop at h
    simp only at h
    split at h
    · rename_i hr
      cases h
      refine ⟨?_, spawnNewTasks_spawnQ_nil cid w⟩
      simpa [List.isEmpty_iff] using hr
    · split at h
      · cases h
      · exact ih _ _ _ h

/-- `Command::run_until_settled`: a command that is not aborted is left with no runnable and no unspawned task -/
theorem runUntilSettledF_settled (rt : Nat → Nat → World → Option (TaskState × World)) (cid : Nat) (w w' : World)
    (hna : w.aborted cid = false) (h : runUntilSettledF rt cid w = some w') :
    (w'.cmd cid).ready = [] ∧ (w'.cmd cid).spawnQ = [] := by
  unfold runUntilSettledF at h
  simp only [hna, Bool.false_eq_true, if_false] at h
  exact settleLoop_post rt _ _ _ _ h

/-- … and an aborted one is left without any task (`self.tasks.clear()`) -/
theorem runUntilSettledF_aborted (rt : Nat → Nat → World → Option (TaskState × World)) (cid : Nat) (w w' : World)
    (ha : w.aborted cid = true) (h : runUntilSettledF rt cid w = some w') :
    (w'.cmd cid).tasks = {} := by
  unfold runUntilSettledF at h
  simp only [ha, if_true] at h
  cases h
  apply World.cmd_modCmd_tasks_empty
  intro c; rfl

end M.Rt
