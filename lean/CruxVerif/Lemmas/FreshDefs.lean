/-
Freshness of waker serials — a GLOBAL invariant of the runtime model.
Every poll gets a waker with a serial drawn from the counter `nextSerial`; `World.holders` counts the places that hold a
given serial, which models `Arc::strong_count` of that poll's waker faithfully only if a serial is never handed out twice
and never appears before it is handed out. `SOkN n w`: every serial that occurs anywhere in `w` (leaf waker slots,
join-handle queues, command waker slots, the `woken` set) is below `n`; `SOk w` := `SOkN w.nextSerial w`.
This file: the invariant and its preservation by the primitive world operations.
-/
import CruxVerif.Lemmas.K2Evict
namespace M.Rt

def wkB (n : Nat) : Waker → Prop
  | .task _ _ s => s < n
  | .root _ => True

def owkB (n : Nat) : Option Waker → Prop
  | some k => wkB n k
  | none => True

structure SOkN (n : Nat) (w : World) : Prop where
  leaves : ∀ lf ∈ w.leaves, owkB n lf.waker
  metas : ∀ m ∈ w.metas, ∀ k ∈ m.joinWakers, wkB n k
  cmds : ∀ c ∈ w.cmds, owkB n c.waker
  woken : ∀ s ∈ w.woken, s < n

def SOk (w : World) : Prop := SOkN w.nextSerial w

theorem wkB_mono {n n' : Nat} (h : n ≤ n') {k : Waker} (hk : wkB n k) : wkB n' k := by
  cases k with
  | task _ _ s => exact Nat.lt_of_lt_of_le hk h
  | root _ => trivial

theorem owkB_mono {n n' : Nat} (h : n ≤ n') {k : Option Waker} (hk : owkB n k) : owkB n' k := by
  cases k with
  | none => trivial
  | some k => exact wkB_mono h hk

theorem SOkN.mono {n n' : Nat} (h : n ≤ n') {w : World} (hw : SOkN n w) : SOkN n' w :=
  ⟨fun lf hl => owkB_mono h (hw.leaves lf hl), fun m hm k hk => wkB_mono h (hw.metas m hm k hk),
   fun c hc => owkB_mono h (hw.cmds c hc), fun s hs => Nat.lt_of_lt_of_le (hw.woken s hs) h⟩

theorem mem_modifyNth {α : Type} (P : α → Prop) (f : α → α) (hf : ∀ a, P a → P (f a)) :
    ∀ (l : List α) (i : Nat), (∀ a ∈ l, P a) → ∀ a ∈ modifyNth l i f, P a
  | [], _, _ => by simp [modifyNth]
  | x :: xs, 0, h => by
    intro a ha
    simp only [modifyNth, List.mem_cons] at ha
    rcases ha with rfl | ha
    · exact hf x (h x (by simp))
    · exact h a (by simp [ha])
  | x :: xs, i + 1, h => by
    intro a ha
    simp only [modifyNth, List.mem_cons] at ha
    rcases ha with rfl | ha
    · exact h a (by simp)
    · exact mem_modifyNth P f hf xs i (fun b hb => h b (by simp [hb])) a ha

/-- changing only fields that hold no waker -/
theorem SOkN.of_same {n : Nat} {w w' : World} (h : SOkN n w) (hl : w'.leaves = w.leaves) (hm : w'.metas = w.metas)
    (hc : w'.cmds = w.cmds) (hw : w'.woken = w.woken) : SOkN n w' :=
  ⟨by rw [hl]; exact h.leaves, by rw [hm]; exact h.metas, by rw [hc]; exact h.cmds, by rw [hw]; exact h.woken⟩

theorem SOkN.modCmd {n : Nat} {w : World} (h : SOkN n w) (c : Nat) (f : CmdSt → CmdSt)
    (hf : ∀ x, owkB n x.waker → owkB n (f x).waker) : SOkN n (w.modCmd c f) :=
  ⟨h.leaves, h.metas, mem_modifyNth (fun x : CmdSt => owkB n x.waker) f hf w.cmds c h.cmds, h.woken⟩

theorem SOkN.modLeaf {n : Nat} {w : World} (h : SOkN n w) (l : Nat) (f : Leaf → Leaf)
    (hf : ∀ x, owkB n x.waker → owkB n (f x).waker) : SOkN n (w.modLeaf l f) :=
  ⟨mem_modifyNth (fun x : Leaf => owkB n x.waker) f hf w.leaves l h.leaves, h.metas, h.cmds, h.woken⟩

theorem SOkN.modMeta {n : Nat} {w : World} (h : SOkN n w) (s : Nat) (f : Meta → Meta)
    (hf : ∀ x, (∀ k ∈ x.joinWakers, wkB n k) → ∀ k ∈ (f x).joinWakers, wkB n k) : SOkN n (w.modMeta s f) :=
  ⟨h.leaves, mem_modifyNth (fun x : Meta => ∀ k ∈ x.joinWakers, wkB n k) f hf w.metas s h.metas, h.cmds, h.woken⟩

theorem SOkN.newLeaf {n : Nat} {w : World} (h : SOkN n w) (k : Option Waker) (lg : Bool) (hk : owkB n k) :
    SOkN n (w.newLeaf k lg).2 := by
  refine ⟨?_, h.metas, h.cmds, h.woken⟩
  intro lf hlf
  simp only [World.newLeaf, List.mem_append, List.mem_singleton] at hlf
  rcases hlf with hlf | rfl
  · exact h.leaves lf hlf
  · exact hk

theorem SOkN.newMeta {n : Nat} {w : World} (h : SOkN n w) : SOkN n w.newMeta.2 := by
  refine ⟨h.leaves, ?_, h.cmds, h.woken⟩
  intro m hm
  simp only [World.newMeta, List.mem_append, List.mem_singleton] at hm
  rcases hm with hm | rfl
  · exact h.metas m hm
  · intro k hk; cases hk

theorem SOkN.sinkEvent {n : Nat} {w : World} (h : SOkN n w) (s : Sink) (e : Ev) : SOkN n (w.sinkEvent s e) := by
  cases s with
  | cmd c => exact h.modCmd c _ (fun _ hx => hx)
  | core => exact h.of_same rfl rfl rfl rfl

theorem SOkN.sinkEffect {n : Nat} {w : World} (h : SOkN n w) (s : Sink) (e : Eff) : SOkN n (w.sinkEffect s e) := by
  cases s with
  | cmd c => exact h.modCmd c _ (fun _ hx => hx)
  | core => exact h.of_same rfl rfl rfl rfl

theorem SOkN.anomaly {n : Nat} {w : World} (h : SOkN n w) (s : String) : SOkN n (w.anomaly s) := h.of_same rfl rfl rfl rfl

theorem SOkN.woken_cons {n : Nat} {w : World} (h : SOkN n w) (s : Nat) (hs : s < n) :
    SOkN n ({ w with woken := s :: w.woken } : World) := by
  refine ⟨h.leaves, h.metas, h.cmds, ?_⟩
  intro x hx
  simp only [List.mem_cons] at hx
  rcases hx with rfl | hx
  · exact hs
  · exact h.woken x hx

/-- the waker slot of a command in a good world is good -/
theorem SOkN.cmd_waker {n : Nat} {w : World} (h : SOkN n w) (c : Nat) : owkB n (w.cmd c).waker := by
  simp only [World.cmd]
  cases hc : w.cmds[c]? with
  | none => trivial
  | some x => exact h.cmds x (List.mem_of_getElem? hc)

theorem SOkN.leaf_waker {n : Nat} {w : World} (h : SOkN n w) (l : Nat) : owkB n (w.leaf l).waker := by
  simp only [World.leaf]
  cases hc : w.leaves[l]? with
  | none => trivial
  | some x => exact h.leaves x (List.mem_of_getElem? hc)

theorem SOkN.meta_wakers {n : Nat} {w : World} (h : SOkN n w) (s : Nat) : ∀ k ∈ (w.getMeta s).joinWakers, wkB n k := by
  simp only [World.getMeta]
  cases hc : w.metas[s]? with
  | none => intro k hk; cases hk
  | some x => exact h.metas x (List.mem_of_getElem? hc)

theorem SOkN.wake {n : Nat} : ∀ (f : Nat) (k : Waker) (w : World), SOkN n w → wkB n k → SOkN n (M.Rt.wake f k w) := by
  intro f
  induction f with
  | zero =>
    intro k w h hk
    cases k with
    | root e => exact h.of_same rfl rfl rfl rfl
    | task c t s => exact h.anomaly _
  | succ f ih =>
    intro k w h hk
    cases k with
    | root e => exact h.of_same rfl rfl rfl rfl
    | task cid tid serial =>
      unfold M.Rt.wake
      simp only
      have hpw := h.cmd_waker cid
      have h1 : SOkN n (if (w.cmd cid).alive = true then
          w.modCmd cid fun c => { c with ready := c.ready ++ [tid] } else w) := by
        split
        · exact h.modCmd cid _ (fun _ hx => hx)
        · exact h
      have h2 := h1.woken_cons serial hk
      split
      · exact h2
      · rename_i pw hpweq
        rw [hpweq] at hpw
        refine ih pw _ ?_ hpw
        refine h2.modCmd cid _ ?_
        intro _ _; trivial

theorem SOkN.World_wake {n : Nat} {w : World} (h : SOkN n w) (k : Waker) (hk : wkB n k) : SOkN n (w.wake k) :=
  SOkN.wake _ k w h hk

theorem SOkN.wakeAll {n : Nat} : ∀ (ks : List Waker) (w : World), SOkN n w → (∀ k ∈ ks, wkB n k) → SOkN n (w.wakeAll ks)
  | [], w, h, _ => h
  | k :: ks, w, h, hk => by
    simp only [World.wakeAll, List.foldl_cons]
    exact SOkN.wakeAll ks (w.wake k) (h.World_wake k (hk k (by simp))) (fun x hx => hk x (by simp [hx]))

theorem SOkN.dropReceiver {n : Nat} {w : World} (h : SOkN n w) (l : Nat) : SOkN n (w.dropReceiver l) :=
  h.modLeaf l _ (fun _ hx => hx)

theorem SOkN.dropSender {n : Nat} {w : World} (h : SOkN n w) (l : Nat) : SOkN n (w.dropSender l) := by
  unfold World.dropSender
  simp only
  have hlw := h.leaf_waker l
  split
  · exact h.modLeaf l _ (fun _ hx => hx)
  · split
    · rename_i k hk
      rw [hk] at hlw
      refine SOkN.World_wake ?_ k hlw
      refine h.modLeaf l _ ?_
      intro _ _; trivial
    · refine h.modLeaf l _ ?_
      intro _ _; trivial

theorem SOkN.abortCmd {n : Nat} {w : World} (h : SOkN n w) (c : Nat) : SOkN n (w.abortCmd c) := by
  unfold World.abortCmd
  simp only
  have hcw := h.cmd_waker c
  have h1 : SOkN n (w.modMeta (w.cmd c).abortFlag fun m => { m with aborted := true }) := h.modMeta _ _ (fun _ hx => hx)
  split
  · exact h1
  · rename_i k hk
    rw [hk] at hcw
    refine SOkN.World_wake ?_ k hcw
    refine h1.modCmd c _ ?_
    intro _ _; trivial

end M.Rt
