/- `nextSerial` is changed by `run_task` only: waking and dropping leave the counter alone. -/
import CruxVerif.Lemmas.FreshDrop
namespace M.Rt

theorem ns_wake : ∀ (f : Nat) (k : Waker) (w : World), (wake f k w).nextSerial = w.nextSerial := by
  intro f
  induction f with
  | zero => intro k w; cases k <;> rfl
  | succ f ih =>
    intro k w
    cases k with
    | root e => rfl
    | task cid tid serial =>
      unfold wake
      simp only
      split
      · split <;> rfl
      · rw [ih]; split <;> rfl

theorem ns_World_wake (w : World) (k : Waker) : (w.wake k).nextSerial = w.nextSerial := ns_wake _ k w

theorem ns_wakeAll : ∀ (ks : List Waker) (w : World), (w.wakeAll ks).nextSerial = w.nextSerial
  | [], _ => rfl
  | k :: ks, w => by
    simp only [World.wakeAll, List.foldl_cons]
    exact (ns_wakeAll ks (w.wake k)).trans (ns_World_wake w k)

theorem ns_dropSender (w : World) (l : Nat) : (w.dropSender l).nextSerial = w.nextSerial := by
  unfold World.dropSender
  simp only
  split
  · rfl
  · split
    · rw [ns_World_wake]; rfl
    · rfl

theorem ns_abortCmd (w : World) (c : Nat) : (w.abortCmd c).nextSerial = w.nextSerial := by
  unfold World.abortCmd
  simp only
  split
  · rfl
  · rw [ns_World_wake]; rfl

theorem foldl_eq {α β γ : Type} (m : β → γ) (g : β → α → β) (hg : ∀ b a, m (g b a) = m b) :
    ∀ (l : List α) (b : β), m (l.foldl g b) = m b
  | [], _ => rfl
  | a :: l, b => (foldl_eq m g hg l (g b a)).trans (hg b a)

mutual
theorem ns_dropBlock (dc : Nat → World → World) (hdc : ∀ c w, (dc c w).nextSerial = w.nextSerial) :
    (b : Block) → (w : World) → (dropBlock dc b w).nextSerial = w.nextSerial
  | .mk env cur rest, w => by
    simp only [dropBlock]
    refine (foldl_eq World.nextSerial _ ?_ rest _).trans (ns_dropPend dc hdc cur w)
    intro w i
    cases i <;> first | rfl | exact hdc _ _
theorem ns_dropPend (dc : Nat → World → World) (hdc : ∀ c w, (dc c w).nextSerial = w.nextSerial) :
    (p : Pend) → (w : World) → (dropPend dc p w).nextSerial = w.nextSerial
  | .idle, w => by simp only [dropPend]
  | .reqDead, w => by simp only [dropPend]
  | .await _, w => by simp only [dropPend]
  | .selfwake _, w => by simp only [dropPend]
  | .req _ l, w => by simp only [dropPend]; rfl
  | .streamWait _ l _ _ _, w => by simp only [dropPend]; rfl
  | .streamBody _ l _ _ _ inner, w => by
    simp only [dropPend]; exact ns_dropBlock dc hdc inner w
  | .join a b ad bd, w => by
    simp only [dropPend]
    cases ad <;> cases bd <;> simp only [Bool.false_eq_true, if_false, if_true]
    · exact (ns_dropBlock dc hdc b _).trans (ns_dropBlock dc hdc a w)
    · exact ns_dropBlock dc hdc a w
    · exact ns_dropBlock dc hdc b w
  | .select a b, w => by
    simp only [dropPend]; exact (ns_dropBlock dc hdc b _).trans (ns_dropBlock dc hdc a w)
  | .host c _, w => by simp only [dropPend]; exact hdc c w
end

theorem ns_dropTask (dc : Nat → World → World) (hdc : ∀ c w, (dc c w).nextSerial = w.nextSerial) (t : Task) (w : World) :
    (dropTask dc t w).nextSerial = w.nextSerial := by
  unfold dropTask
  simp only
  exact ns_dropBlock dc hdc t.fut _

theorem ns_dropEff (w : World) (e : Eff) : (dropEff w e).nextSerial = w.nextSerial := by
  unfold dropEff
  split
  · exact ns_dropSender _ _
  · exact ns_dropSender _ _
  · rfl

theorem ns_dropCmdAt : ∀ (f cid : Nat) (w : World), (dropCmdAt f cid w).nextSerial = w.nextSerial := by
  intro f
  induction f with
  | zero => intro cid w; rfl
  | succ f ih =>
    intro cid w
    unfold dropCmdAt
    simp only
    split
    · rfl
    · refine (foldl_eq World.nextSerial _ (fun b t => ns_dropTask _ (fun c w => ih c w) t b) _ _).trans ?_
      refine (foldl_eq World.nextSerial _ (fun b t => ns_dropTask _ (fun c w => ih c w) t b) _ _).trans ?_
      split
      · rfl
      · exact foldl_eq World.nextSerial dropEff ns_dropEff _ _

theorem ns_World_dropCmd (w : World) (c : Nat) : (w.dropCmd c).nextSerial = w.nextSerial := ns_dropCmdAt _ c w
theorem ns_World_dropBlock (w : World) (b : Block) : (w.dropBlock b).nextSerial = w.nextSerial :=
  ns_dropBlock _ (fun c w => ns_World_dropCmd w c) b w
theorem ns_World_dropTask (w : World) (t : Task) : (w.dropTask t).nextSerial = w.nextSerial :=
  ns_dropTask _ (fun c w => ns_World_dropCmd w c) t w

/-! `SOk` (the invariant at the world's own counter) under operations that keep the counter -/

theorem SOk.keep {w w' : World} (h : SOk w) (hn : w'.nextSerial = w.nextSerial) (hs : SOkN w.nextSerial w') : SOk w' := by
  unfold SOk; rw [hn]; exact hs

end M.Rt
