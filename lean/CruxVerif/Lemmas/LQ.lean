/-
`LQ`: a request / stream channel in which a waker is registered has a live sender (or is a legacy channel, whose sender
going away wakes nobody). The receiving side registers a waker only after it has seen the sender alive, and the sending
side takes the waker when it resolves or goes away. With `GInv` (every stored task is queued or parked at registrations
of its own waker) this says what a parked task waits FOR: a request the shell can still resolve or drop.
-/
import CruxVerif.Lemmas.GPark
namespace M.Rt

def LQ (w : World) : Prop :=
  ∀ l k, (w.leaf l).waker = some k → (w.leaf l).senderAlive = true ∨ (w.leaf l).legacy = true

theorem LQ.of_leaves {w w' : World} (h : LQ w) (hl : w'.leaves = w.leaves) : LQ w' := by
  intro l k hk
  rw [pleaf_of_leaves hl] at hk ⊢
  exact h l k hk

section
variable {w : World}

/-- a change of leaf `l` after which that leaf satisfies the property itself -/
theorem LQ.modLeaf (h : LQ w) (l : Nat) (f : Leaf → Leaf)
    (hf : ∀ x, w.leaves[l]? = some x → ∀ k, (f x).waker = some k → (f x).senderAlive = true ∨ (f x).legacy = true) :
    LQ (w.modLeaf l f) := by
  intro l' k hk
  by_cases e : l = l'
  · subst e
    rw [World.leaf_modLeaf_self] at hk ⊢
    cases hl : w.leaves[l]? with
    | none => simp [hl] at hk
    | some x => simp only [hl] at hk ⊢; exact hf x hl k hk
  · rw [pleaf_modLeaf_ne w l f l' e] at hk ⊢
    exact h l' k hk

theorem leaf_of_get {l : Nat} {x : Leaf} (hl : w.leaves[l]? = some x) : w.leaf l = x := by simp [World.leaf, hl]

theorem lq_setWaker (l : Nat) (k : Waker) (h : LQ w) (ha : (w.leaf l).senderAlive = true ∨ (w.leaf l).legacy = true) :
    LQ (w.modLeaf l (setWaker k)) := by
  refine h.modLeaf l _ ?_
  intro x hl k' _
  rw [leaf_of_get hl] at ha
  exact ha
theorem lq_setQueue (l : Nat) (q : List Val) (h : LQ w) : LQ (w.modLeaf l (setQueue q)) := by
  refine h.modLeaf l _ ?_
  intro x hl k hk
  have := h l k (by rw [leaf_of_get hl]; exact hk)
  rw [leaf_of_get hl] at this
  exact this
theorem lq_dropReceiver (l : Nat) (h : LQ w) : LQ (w.dropReceiver l) := by
  refine h.modLeaf l _ ?_
  intro x hl k hk
  have := h l k (by rw [leaf_of_get hl]; exact hk)
  rw [leaf_of_get hl] at this
  exact this
theorem lq_newLeaf (k : Option Waker) (lg : Bool) (h : LQ w) : LQ (w.newLeaf k lg).2 := by
  intro l k' hk
  by_cases hl : l < w.leaves.length
  · rw [pleaf_newLeaf w k lg l hl] at hk ⊢; exact h l k' hk
  · simp only [World.leaf, World.newLeaf] at hk ⊢
    by_cases e : l = w.leaves.length
    · subst e; simp
    · rw [List.getElem?_eq_none (by simp; omega)] at hk; simp at hk
theorem lq_newMeta (h : LQ w) : LQ w.newMeta.2 := h.of_leaves rfl
theorem lq_modMeta (s : Nat) (f : Meta → Meta) (h : LQ w) : LQ (w.modMeta s f) := h.of_leaves rfl
theorem lq_modCmd (c : Nat) (f : CmdSt → CmdSt) (h : LQ w) : LQ (w.modCmd c f) := h.of_leaves rfl
theorem lq_sinkEffect (sk : Sink) (e : Eff) (h : LQ w) : LQ (w.sinkEffect sk e) := by cases sk <;> exact h.of_leaves rfl
theorem lq_sinkEvent (sk : Sink) (e : Ev) (h : LQ w) : LQ (w.sinkEvent sk e) := by cases sk <;> exact h.of_leaves rfl
theorem lq_execSpawn (xs : List ExecTask) (h : LQ w) : LQ ({ w with execSpawn := xs } : World) := h.of_leaves rfl
theorem lq_wake (k : Waker) (h : LQ w) : LQ (w.wake k) := h.of_leaves (World.wake_leaves w k)
theorem lq_abortCmd (c : Nat) (h : LQ w) : LQ (w.abortCmd c) := by
  intro l k hk
  rw [pleaf_abortCmd] at hk ⊢
  exact h l k hk
theorem lq_dropBlock (b : Block) (hb : hostFreeB b = true) (h : LQ w) : LQ (w.dropBlock b) :=
  dropBlock_hf_ind LQ (fun _ l hw => lq_dropReceiver l hw) _ b w hb h
end

theorem lq_wakeAll : ∀ (ks : List Waker) (W : World), LQ W → LQ (W.wakeAll ks) := by
  intro ks
  induction ks with
  | nil => intro W h; exact h
  | cons k ks ih => intro W h; exact ih _ (lq_wake k h)

def LQGood (pn : Waker → Nat → World → Option (NextRes × World)) (f : Nat) : Prop :=
  ∀ wk sink b w r w', pollBlock pn f wk sink b w = some (r, w') → hostFreeB b = true → LQ w → LQ w'

theorem lqgood_succ (pn) (f : Nat) (ih : LQGood pn f) : LQGood pn (f + 1) := by
  intro wk sink b w r w' h hf hw
  obtain ⟨env, cur, rest⟩ := b
  have hres := fun wk b w r w' h hf => (pollBlock_lgood pn f wk sink b w r w' h hf).2
  unfold pollBlock at h
  simp only [addJoinWaker_eq, addSpawn_eq, setWaker_eq, setQueue_eq] at h
  unfold LQGood at ih
  grind (gen := 20) (splits := 40) [lq_setWaker, lq_setQueue, lq_dropReceiver, lq_newLeaf, lq_newMeta, lq_modMeta, lq_modCmd,
    lq_sinkEffect, lq_sinkEvent, lq_execSpawn, lq_dropBlock, lq_wake, lq_abortCmd,
    hfB_eq, hfP_idle, hfP_reqDead, hfP_req, hfP_await, hfP_selfwake, hfP_streamWait,
    hfP_streamBody, hfP_join, hfP_select, hfP_host, hfIs_nil, hfIs_cons, hfI_host, hfI_stream, hfI_spawn, hfI_handoff,
    hfI_join, hfI_select, hfRes_pending]

theorem pollBlock_lqgood (pn) : ∀ f, LQGood pn f
  | 0 => by intro wk sink b w r w' h; simp [pollBlock] at h
  | f + 1 => lqgood_succ pn f (pollBlock_lqgood pn f)


/-! ### through the executor of one command (host-free tasks) -/

theorem runTaskF_lq (pn) (f : Nat) (c tid : Nat) (w : World) (st : TaskState) (w' : World)
    (h : runTaskF (pollBlock pn f) c tid w = some (st, w')) (hw : HFc c w) (hq : LQ w) : LQ w' := by
  unfold runTaskF at h
  split at h
  · simp only [Option.some.injEq, Prod.mk.injEq] at h; obtain ⟨_, rfl⟩ := h; exact hq
  · rename_i t hg
    have htf : hostFreeB t.fut = true := hw.t t (Slab.mem_values_of_get _ _ _ hg)
    split at h
    · simp only [Option.some.injEq, Prod.mk.injEq] at h; obtain ⟨_, rfl⟩ := h; exact hq
    · dsimp only at h
      have q0 : LQ ({ w with nextSerial := w.nextSerial + 1 } : World) := hq.of_leaves rfl
      split at h
      · cases h
      · rename_i env1 w1 hpoll
        simp only [Option.some.injEq, Prod.mk.injEq] at h
        obtain ⟨_, rfl⟩ := h
        exact pollBlock_lqgood pn f _ _ _ _ _ _ hpoll htf q0
      · rename_i b w1 hpoll
        have q1 : LQ w1 := pollBlock_lqgood pn f _ _ _ _ _ _ hpoll htf q0
        split at h
        · simp only [Option.some.injEq, Prod.mk.injEq] at h; obtain ⟨_, rfl⟩ := h; exact q1.of_leaves rfl
        · simp only [Option.some.injEq, Prod.mk.injEq] at h; obtain ⟨_, rfl⟩ := h; exact q1.of_leaves rfl

theorem dropTask_lq (w : World) (t : Task) (ht : hostFreeB t.fut = true) (hq : LQ w) : LQ (w.dropTask t) := by
  unfold World.dropTask M.Rt.dropTask
  simp only
  exact lq_dropBlock (w := w.modMeta t.serial fun m => { m with taskAlive := false, joinWakers := [] }) t.fut ht
    (lq_modMeta _ _ hq)

theorem finishTask_lq (c tid : Nat) (w : World) (hw : HFc c w) (hq : LQ w) : LQ (finishTask c tid w) := by
  unfold finishTask
  simp only
  split
  · exact hq
  · rename_i t tasks hr
    have htm : t ∈ (w.cmd c).tasks.values := by
      have : (w.cmd c).tasks.get? tid = some t := by
        cases hg : (w.cmd c).tasks.get? tid with
        | none => rw [Slab.remove_none _ _ hg] at hr; cases hr
        | some t' =>
          have := (Slab.remove_get _ _ _ hg).1
          rw [hr] at this; simp only [Option.some.injEq] at this; rw [this]
      exact Slab.mem_values_of_get _ _ _ this
    have htf := hw.t t htm
    refine dropTask_lq _ t htf (lq_wakeAll _ _ ?_)
    exact lq_modMeta _ _ (lq_modCmd _ _ hq)

theorem spawnNewTasks_leaves (c : Nat) (w : World) : (spawnNewTasks c w).leaves = w.leaves := by
  unfold spawnNewTasks
  have : ∀ (l : List Task) (W : World), (l.foldl (fun w t => w.modCmd c fun x =>
      { x with tasks := (x.tasks.insert t).2, ready := x.ready ++ [(x.tasks.insert t).1] }) W).leaves = W.leaves := by
    intro l
    induction l with
    | nil => intro W; rfl
    | cons t l ih => intro W; simp only [List.foldl_cons]; rw [ih]; rfl
  exact this _ _

theorem drainReady_lq (pn) (pf : Nat) (c : Nat) : ∀ (f : Nat) (w w' : World),
    drainReady (runTaskF (pollBlock pn pf)) f c w = some w' → HFc c w → LQ w → LQ w' := by
  intro f
  induction f with
  | zero => intro w w' h; simp [drainReady] at h
  | succ f ih =>
    intro w w' h hw hq
    unfold drainReady at h
    split at h
    · simp only [Option.some.injEq] at h; subst h; exact hq
    · rename_i tid rest _
      have h0 : HFc c (w.modCmd c fun x => { x with ready := rest }) :=
        hw.modCmd _ (fun _ _ h => Or.inl h) (fun _ _ h => Or.inl h)
      have q0 : LQ (w.modCmd c fun x => { x with ready := rest }) := lq_modCmd _ _ hq
      simp only at h
      split at h
      · cases h
      · rename_i w1 hrt
        exact ih w1 w' h (runTaskF_q pn pf c tid _ _ w1 hrt h0).2 (runTaskF_lq pn pf c tid _ _ w1 hrt h0 q0)
      · rename_i w1 hrt
        exact ih w1 w' h (runTaskF_q pn pf c tid _ _ w1 hrt h0).2 (runTaskF_lq pn pf c tid _ _ w1 hrt h0 q0)
      · rename_i w1 hrt
        have r := (runTaskF_q pn pf c tid _ _ w1 hrt h0).2
        have q1 := runTaskF_lq pn pf c tid _ _ w1 hrt h0 q0
        exact ih _ w' h (finishTask_q c tid w1 r).2 (finishTask_lq c tid w1 r q1)
      · rename_i w1 hrt
        have r := (runTaskF_q pn pf c tid _ _ w1 hrt h0).2
        have q1 := runTaskF_lq pn pf c tid _ _ w1 hrt h0 q0
        exact ih _ w' h (finishTask_q c tid w1 r).2 (finishTask_lq c tid w1 r q1)

theorem settleLoop_lq (pn) (pf : Nat) (c : Nat) : ∀ (f : Nat) (w w' : World),
    settleLoop (runTaskF (pollBlock pn pf)) f c w = some w' → HFc c w → LQ w → LQ w' := by
  intro f
  induction f with
  | zero => intro w w' h; simp [settleLoop] at h
  | succ f ih =>
    intro w w' h hw hq
    unfold settleLoop at h
    simp only at h
    have k0 := (spawnNewTasks_q c w hw).2
    have q0 : LQ (spawnNewTasks c w) := hq.of_leaves (spawnNewTasks_leaves c w)
    split at h
    · simp only [Option.some.injEq] at h; subst h; exact q0
    · split at h
      · cases h
      · rename_i w1 hd
        exact ih w1 w' h (drainReady_q pn pf c _ _ w1 hd k0).2 (drainReady_lq pn pf c _ _ w1 hd k0 q0)

theorem runUntilSettledF_lq (pn) (pf : Nat) (c : Nat) (w w' : World)
    (h : runUntilSettledF (runTaskF (pollBlock pn pf)) c w = some w') (hw : HFc c w) (hq : LQ w) : LQ w' := by
  unfold runUntilSettledF at h
  split at h
  · simp only [Option.some.injEq] at h
    subst h
    have hP : ∀ (l : List Task) (W : World), (∀ t ∈ l, hostFreeB t.fut = true) → LQ W →
        LQ (l.foldl (fun w t => w.dropTask t) W) := by
      intro l
      induction l with
      | nil => intro W _ h; exact h
      | cons t l ih =>
        intro W hl h
        simp only [List.foldl_cons]
        exact ih _ (fun x hx => hl x (by simp [hx])) (dropTask_lq W t (hl t (by simp)) h)
    exact lq_modCmd _ _ (hP (w.cmd c).tasks.values w hw.t hq)
  · exact settleLoop_lq pn pf c _ w w' h hw hq

theorem runUntilSettled_lq (c : Nat) (w w' : World) (h : runUntilSettled c w = some w') (hw : HFc c w) (hq : LQ w) : LQ w' :=
  runUntilSettledF_lq _ _ c w w' h hw hq

/-! ### the shell's side -/

theorem lq_dropSender (w : World) (l : Nat) (hq : LQ w) : LQ (w.dropSender l) := by
  unfold World.dropSender
  simp only
  split
  · rename_i hlg
    refine hq.modLeaf l _ ?_
    intro x hl k _
    rw [leaf_of_get hl] at hlg
    exact Or.inr hlg
  · have h1 : LQ (w.modLeaf l fun lf => { lf with senderAlive := false, waker := none }) := by
      refine hq.modLeaf l _ ?_
      intro x _ k hk
      cases hk
    split
    · exact lq_wake _ h1
    · exact h1

theorem lq_resolveReq (r : Resolve) (v : Val) (w : World) (hq : LQ w) : LQ (resolveReq r v w).2.2 := by
  have h1 : ∀ l, LQ (w.modLeaf l fun lf => { lf with queue := lf.queue ++ [v], waker := none }) := by
    intro l
    refine hq.modLeaf l _ ?_
    intro x _ k hk
    cases hk
  have h2 : ∀ l, LQ (match (w.leaf l).waker with
      | some wk => (w.modLeaf l fun lf => { lf with queue := lf.queue ++ [v], waker := none }).wake wk
      | none => w.modLeaf l fun lf => { lf with queue := lf.queue ++ [v], waker := none }) := by
    intro l
    split
    · exact lq_wake _ (h1 l)
    · exact h1 l
  unfold resolveReq
  cases r with
  | never => exact hq
  | gone => exact hq
  | once l =>
    simp only
    split
    · exact lq_dropSender _ l (h2 l)
    · exact lq_dropSender _ l hq
  | many l =>
    simp only
    split
    · exact h2 l
    · exact hq

theorem lq_dropReq (r : Resolve) (w : World) (hq : LQ w) : LQ (dropReq r w).2 := by
  unfold dropReq
  cases r with
  | never => exact hq
  | gone => exact hq
  | once l => exact lq_dropSender w l hq
  | many l => exact lq_dropSender w l hq

end M.Rt

namespace M.Rt

theorem takeEffects_lq (cid : Nat) (w : World) (es : List Eff) (w' : World) (h : takeEffects cid w = some (es, w'))
    (hw : HFc cid w) (hq : LQ w) : LQ w' := by
  unfold takeEffects at h
  split at h
  · cases h
  · rename_i w1 hs
    simp only [Option.some.injEq, Prod.mk.injEq] at h
    obtain ⟨_, rfl⟩ := h
    exact lq_modCmd _ _ (runUntilSettled_lq cid w w1 hs hw hq)

theorem takeEvents_lq (cid : Nat) (w : World) (es : List Ev) (w' : World) (h : takeEvents cid w = some (es, w'))
    (hw : HFc cid w) (hq : LQ w) : LQ w' := by
  unfold takeEvents at h
  split at h
  · cases h
  · rename_i w1 hs
    simp only [Option.some.injEq, Prod.mk.injEq] at h
    obtain ⟨_, rfl⟩ := h
    exact lq_modCmd _ _ (runUntilSettled_lq cid w w1 hs hw hq)

theorem isDone_lq (cid : Nat) (w : World) (d : Bool) (w' : World) (h : isDone cid w = some (d, w'))
    (hw : HFc cid w) (hq : LQ w) : LQ w' := by
  unfold isDone at h
  split at h
  · cases h
  · rename_i w1 hs
    simp only [Option.some.injEq, Prod.mk.injEq] at h
    obtain ⟨_, rfl⟩ := h
    exact runUntilSettled_lq cid w w1 hs hw hq

end M.Rt

namespace M.Rt

-- the block is suspended only at requests whose channel has closed, at join handles or at hosted commands: no request or
-- stream the shell could still answer
mutual
def goneOnlyB : Block → Bool
  | .mk _ cur _ => goneOnlyP cur
def goneOnlyP : Pend → Bool
  | .reqDead => true
  | .await _ => true
  | .host _ _ => true
  | .streamBody _ _ _ _ _ inner => goneOnlyB inner
  | .join a b ad bd => (ad || goneOnlyB a) && (bd || goneOnlyB b)
  | .select a b => goneOnlyB a && goneOnlyB b
  | _ => false
end

/-- a block live-parked in a world in which every channel is closed waits at no request or stream -/
theorem goneOnly_of_parked (wk : Waker) (w : World) (hq : LQ w)
    (hall : ∀ l, l < w.leaves.length → (w.leaf l).senderAlive = false ∧ (w.leaf l).legacy = false) :
    ∀ (b : Block), LPB wk w b → goneOnlyB b = true := by
  have key : ∀ n (b : Block), sizeOf b ≤ n → LPB wk w b → goneOnlyB b = true := by
    intro n
    induction n with
    | zero => intro b hb; cases b; simp at hb
    | succ n ih =>
      intro b hb hp
      obtain ⟨env, cur, rest⟩ := b
      simp only [Block.mk.sizeOf_spec] at hb
      simp only [LPB] at hp
      simp only [goneOnlyB]
      have dead : ∀ l, l < w.leaves.length → (w.leaf l).waker = some wk → False := by
        intro l hl hk
        have a := hall l hl
        rcases hq l wk hk with h1 | h1
        · rw [a.1] at h1; cases h1
        · rw [a.2] at h1; cases h1
      cases cur with
      | idle => simp [LPP] at hp
      | reqDead => simp [goneOnlyP]
      | await s => simp [goneOnlyP]
      | selfwake s => simp [LPP] at hp
      | req x l => simp only [LPP] at hp; exact (dead l hp.1 hp.2).elim
      | streamWait x l c lim body => simp only [LPP] at hp; exact (dead l hp.1 hp.2).elim
      | streamBody x l c lim body inner =>
        simp only [LPP] at hp
        simp only [goneOnlyP]
        simp only [Pend.streamBody.sizeOf_spec] at hb
        exact ih inner (by omega) hp
      | join a b ad bd =>
        simp only [LPP] at hp
        simp only [goneOnlyP, Bool.and_eq_true, Bool.or_eq_true]
        simp only [Pend.join.sizeOf_spec] at hb
        refine ⟨?_, ?_⟩
        · cases ad with
          | true => exact Or.inl rfl
          | false => exact Or.inr (ih a (by omega) (hp.1 rfl))
        · cases bd with
          | true => exact Or.inl rfl
          | false => exact Or.inr (ih b (by omega) (hp.2 rfl))
      | select a b =>
        simp only [LPP] at hp
        simp only [goneOnlyP, Bool.and_eq_true]
        simp only [Pend.select.sizeOf_spec] at hb
        exact ⟨ih a (by omega) hp.1, ih b (by omega) hp.2⟩
      | host c m => simp [goneOnlyP]
  intro b
  exact key _ b (Nat.le_refl _)

end M.Rt

namespace M.Hosts
open M.Rt

/-- the parking invariant together with "a registered waker means a live sender" -/
def GL (d : Direct) : Prop := GInv d.cid d.w ∧ LQ d.w

theorem Direct.observe_gl (res : String) (d : Direct) (o : Obs) (d' : Direct) (h : d.observe res = some (o, d'))
    (hw : GL d) : GL d' := by
  refine ⟨Direct.observe_gp res d o d' h hw.1, ?_⟩
  unfold Direct.observe at h
  cases h1 : takeEffects d.cid d.w with
  | none => simp [h1] at h
  | some p1 =>
    obtain ⟨effs, w1⟩ := p1
    have g1 := takeEffects_gp _ _ _ _ h1 hw.1
    have k1 := takeEffects_lq _ _ _ _ h1 hw.1.ctx.own.hfc hw.2
    cases h2 : takeEvents d.cid w1 with
    | none => simp [h1, h2] at h
    | some p2 =>
      obtain ⟨evs, w2⟩ := p2
      have g2 := takeEvents_gp _ _ _ _ h2 g1
      have k2 := takeEvents_lq _ _ _ _ h2 g1.ctx.own.hfc k1
      cases h3 : isDone d.cid w2 with
      | none => simp [h1, h2, h3] at h
      | some p3 =>
        obtain ⟨dn, w3⟩ := p3
        have k3 := isDone_lq _ _ _ _ h3 g2.ctx.own.hfc k2
        simp [h1, h2, h3] at h
        obtain ⟨_, rfl⟩ := h
        exact k3

theorem Direct.step_gl (d : Direct) (a : Action) (o : Obs) (d' : Direct) (h : d.step a = some (o, d'))
    (hw : GL d) : GL d' := by
  have hg := hw.1
  unfold Direct.step at h
  cases a with
  | res k v =>
    simp only at h
    split at h
    · exact Direct.observe_gl _ _ _ _ h hw
    · rename_i reqs res w1 hr
      unfold shellResolve at hr
      split at hr
      · cases hr
      · rename_i e _
        simp only [Option.some.injEq, Prod.mk.injEq] at hr
        obtain ⟨_, _, rfl⟩ := hr
        exact Direct.observe_gl _ _ _ _ h
          ⟨GInv.shell hg (fr_resolveReq d.cid e.res v d.w) (resolveReq_keeps e.res v d.w hg.ctx.sok).1 (tk0_resolveReq e.res v d.w)
            (LL_resolveReq e.res v d.w) (hg.gpa.resolveReq e.res v), lq_resolveReq e.res v d.w hw.2⟩
  | drop k =>
    simp only at h
    split at h
    · exact Direct.observe_gl _ _ _ _ h hw
    · rename_i reqs w1 hr
      unfold shellDrop at hr
      split at hr
      · cases hr
      · rename_i e _
        simp only [Option.some.injEq, Prod.mk.injEq] at hr
        obtain ⟨_, rfl⟩ := hr
        exact Direct.observe_gl _ _ _ _ h
          ⟨GInv.shell hg (fr_dropReq d.cid e.res d.w) (dropReq_keeps e.res d.w hg.ctx.sok).1 (tk0_dropReq e.res d.w)
            (LL_dropReq e.res d.w) (hg.gpa.dropReq e.res), lq_dropReq e.res d.w hw.2⟩
  | abort n =>
    simp only at h
    refine Direct.observe_gl _ _ _ _ h ?_
    show GInv d.cid (doAbort n d.w) ∧ LQ (doAbort n d.w)
    unfold doAbort
    split
    · exact ⟨GInv.shell hg (fr_abortCmd d.cid d.w _) (Keeps.of_step hg.ctx.sok (ns_abortCmd d.w _) (SOkN.abortCmd hg.ctx.sok _)).1
        (tk_abortCmd d.w _) (LL_abortCmd d.w _) (hg.gpa.abortCmd _), lq_abortCmd _ hw.2⟩
    · exact hw
  | poll => exact Direct.observe_gl _ _ _ _ h hw
  | ev _ _ => simp at h
  | rawRes _ _ _ => simp at h
  | rawEv _ _ => simp at h

theorem LQ_init (is : List Instr) (canon : Bool) : LQ (Direct.new (.task is) canon).w := by
  intro l k hk
  unfold Direct.new at hk
  simp [instantiate, newCmd, World.newMeta, World.leaf] at hk

/-- **A registered waker means a live sender, over whole runs** (host-free task programs under the direct host) together
    with the parking invariant. -/
theorem runDirect_gl (is : List Instr) (hf : hostFreeIs is = true) (canon : Bool) (acts : List Action) (os : List Obs)
    (d : Direct) (h : runDirect (.task is) canon acts = some (os, d)) : GL d := by
  unfold runDirect at h
  have h0 : GL (Direct.new (.task is) canon) := ⟨GInv_init is hf canon, LQ_init is canon⟩
  cases h1 : (Direct.new (.task is) canon).observe "-" with
  | none => simp [h1] at h
  | some p1 =>
    obtain ⟨o, d1⟩ := p1
    have k1 := Direct.observe_gl _ _ _ _ h1 h0
    cases h2 : runSteps Direct.step d1 acts with
    | none => simp [h1, h2] at h
    | some p2 =>
      obtain ⟨os2, d2⟩ := p2
      simp [h1, h2] at h
      obtain ⟨_, rfl⟩ := h
      exact runSteps_inv Direct.step GL Direct.step_gl acts d1 os2 _ h2 k1

end M.Hosts
