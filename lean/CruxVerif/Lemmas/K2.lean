/- K2: one poll of a host-free block leaves it parked on the polling waker (or on closed requests). -/
import CruxVerif.Lemmas.K2Steps
namespace M.Rt

theorem envOk_mono {n n' : Nat} (h : n ≤ n') (env : Env) (he : envOk n env = true) : envOk n' env = true := by
  simp only [envOk, List.all_eq_true, decide_eq_true_eq] at he ⊢
  intro p hp; have := he p hp; omega

theorem envOk_set (n : Nat) (env : Env) (x : Nat) (v : Val) : envOk n (env.set x v) = envOk n env := rfl

theorem envOk_setHandle (n : Nat) (env : Env) (h s : Nat) (hs : s < n) (he : envOk n env = true) :
    envOk n (env.setHandle h s) = true := by
  simp only [envOk, Env.setHandle, List.all_cons, Bool.and_eq_true, List.all_eq_true, decide_eq_true_eq] at he ⊢
  refine ⟨hs, ?_⟩
  intro p hp
  exact he p (List.mem_filter.mp hp).1

theorem envOk_handle (n : Nat) (env : Env) (h s : Nat) (he : envOk n env = true) (hh : env.handle h = some s) : s < n := by
  simp only [envOk, List.all_eq_true, decide_eq_true_eq] at he
  simp only [Env.handle, Option.map_eq_some_iff] at hh
  obtain ⟨p, hp, rfl⟩ := hh
  exact he p (List.mem_of_find?_eq_some hp)

mutual
theorem inRangeB_mono {n n' m m' : Nat} (h : n ≤ n') (hm : m ≤ m') : (b : Block) → inRangeB n m b = true → inRangeB n' m' b = true
  | .mk env cur _, hb => by
    simp only [inRangeB, Bool.and_eq_true] at hb ⊢
    exact ⟨envOk_mono hm env hb.1, inRangeP_mono h hm cur hb.2⟩
theorem inRangeP_mono {n n' m m' : Nat} (h : n ≤ n') (hm : m ≤ m') : (p : Pend) → inRangeP n m p = true → inRangeP n' m' p = true
  | .idle, _ | .reqDead, _ | .selfwake _, _ | .host _ _, _ => by simp [inRangeP]
  | .await s, hb => by simp only [inRangeP, decide_eq_true_eq] at hb ⊢; omega
  | .req _ l, hb => by simp only [inRangeP, decide_eq_true_eq] at hb ⊢; omega
  | .streamWait _ l _ _ _, hb => by simp only [inRangeP, decide_eq_true_eq] at hb ⊢; omega
  | .streamBody _ l _ _ _ inner, hb => by
    simp only [inRangeP, Bool.and_eq_true, decide_eq_true_eq] at hb ⊢
    exact ⟨by omega, inRangeB_mono h hm inner hb.2⟩
  | .join a b _ _, hb => by
    simp only [inRangeP, Bool.and_eq_true] at hb ⊢
    exact ⟨inRangeB_mono h hm a hb.1, inRangeB_mono h hm b hb.2⟩
  | .select a b, hb => by
    simp only [inRangeP, Bool.and_eq_true] at hb ⊢
    exact ⟨inRangeB_mono h hm a hb.1, inRangeB_mono h hm b hb.2⟩
end

theorem Mono.envOk {wk : Waker} {w w' : World} (hm : Mono wk w w') {env : Env} (he : envOk w.metas.length env = true) :
    envOk w'.metas.length env = true := envOk_mono hm.mlen env he

theorem Mono.inRange {wk : Waker} {w w' : World} (hm : Mono wk w w') {b : Block}
    (hb : inRangeB w.leaves.length w.metas.length b = true) : inRangeB w'.leaves.length w'.metas.length b = true :=
  inRangeB_mono hm.len hm.mlen b hb

def Post (wk : Waker) (w' : World) : PollRes → Prop
  | .pending b' => ParkedB wk w' b' ∧ hostFreeB b' = true ∧ inRangeB w'.leaves.length w'.metas.length b' = true
  | .ready env' => envOk w'.metas.length env' = true

def Good (pn : Waker → Nat → World → Option (NextRes × World)) (f : Nat) : Prop :=
  ∀ wk sink b w r w', pollBlock pn f wk sink b w = some (r, w') → hostFreeB b = true →
    inRangeB w.leaves.length w.metas.length b = true → Mono wk w w' ∧ Post wk w' r

theorem Good.step {pn f} (ih : Good pn f) {wk : Waker} {sink : Sink} {b : Block} {w w1 : World} {r : PollRes} {w' : World}
    (hm : Mono wk w w1) (hf : hostFreeB b = true) (hr : inRangeB w1.leaves.length w1.metas.length b = true)
    (h : pollBlock pn f wk sink b w1 = some (r, w')) : Mono wk w w' ∧ Post wk w' r := by
  have := ih wk sink b w1 r w' h hf hr
  exact ⟨hm.trans this.1, this.2⟩

theorem Good.cont {pn f} (ih : Good pn f) {wk : Waker} {sink : Sink} {env : Env} {rest : List Instr} {w w1 : World}
    {r : PollRes} {w' : World} (hm : Mono wk w w1) (hf : hostFreeIs rest = true) (he : envOk w1.metas.length env = true)
    (h : pollBlock pn f wk sink (.mk env .idle rest) w1 = some (r, w')) : Mono wk w w' ∧ Post wk w' r :=
  ih.step hm (by simp [hostFreeB, hostFreeP, hf]) (by simp [inRangeB, inRangeP, he]) h

theorem good_zero (pn) : Good pn 0 := by
  intro wk sink b w r w' h; simp [pollBlock] at h

theorem leaves_sinkEffect (w : World) (s : Sink) (e : Eff) : (w.sinkEffect s e).leaves = w.leaves := by
  cases s <;> rfl

theorem metas_sinkEffect (w : World) (s : Sink) (e : Eff) : (w.sinkEffect s e).metas = w.metas := by
  cases s <;> rfl

theorem leaf_sinkEffect (w : World) (s : Sink) (e : Eff) (l : Nat) : (w.sinkEffect s e).leaf l = w.leaf l := by
  cases s <;> rfl

theorem parked_newLeaf (w : World) (wk : Waker) (lg : Bool) (sink : Sink) (e : Eff) :
    (w.newLeaf (some wk) lg).1 < ((w.newLeaf (some wk) lg).2.sinkEffect sink e).leaves.length ∧
    (((w.newLeaf (some wk) lg).2.sinkEffect sink e).leaf (w.newLeaf (some wk) lg).1).waker = some wk := by
  rw [leaf_sinkEffect, leaves_sinkEffect]
  simp [World.newLeaf, World.leaf]

theorem parked_setWaker (w : World) (wk : Waker) (l : Nat) (hl : l < w.leaves.length) :
    l < (w.modLeaf l fun lf => { lf with waker := some wk }).leaves.length ∧
    ((w.modLeaf l fun lf => { lf with waker := some wk }).leaf l).waker = some wk := by
  refine ⟨by simpa [World.modLeaf, modifyNth_length] using hl, ?_⟩
  rw [World.leaf_modLeaf_self]
  have : w.leaves[l]? = some w.leaves[l] := by simp [hl]
  simp [this]

theorem len_modLeaf (w : World) (l : Nat) (f : Leaf → Leaf) : (w.modLeaf l f).leaves.length = w.leaves.length := by
  simp [World.modLeaf, modifyNth_length]

theorem parked_await (w : World) (wk : Waker) (s : Nat) (hs : s < w.metas.length) :
    wk ∈ ((w.modMeta s fun m => { m with joinWakers := m.joinWakers ++ [wk] }).getMeta s).joinWakers := by
  rw [getMeta_modMeta_self]
  have : w.metas[s]? = some w.metas[s] := by simp [hs]
  simp [this]

theorem half_spec {pn f} (ih : Good pn f) {wk : Waker} {sink : Sink} (d : Bool) (x : Block) (env : Env) (w : World)
    (rx : PollRes) (w1 : World)
    (hx : (if d = true then some (PollRes.ready env, w) else pollBlock pn f wk sink x w) = some (rx, w1))
    (hf : hostFreeB x = true) (hr : inRangeB w.leaves.length w.metas.length x = true) :
    Mono wk w w1 ∧ ∀ x', rx = .pending x' →
      ParkedB wk w1 x' ∧ hostFreeB x' = true ∧ inRangeB w1.leaves.length w1.metas.length x' = true := by
  cases d with
  | true =>
    simp only [if_true, Option.some.injEq, Prod.mk.injEq] at hx
    obtain ⟨rfl, rfl⟩ := hx
    exact ⟨Mono.refl _ _, fun _ hc => by cases hc⟩
  | false =>
    simp only [Bool.false_eq_true, if_false] at hx
    have := ih wk sink x w rx w1 hx hf hr
    refine ⟨this.1, ?_⟩
    intro x' hx'; subst hx'; exact this.2

theorem good_succ (pn) (f : Nat) (ih : Good pn f) : Good pn (f + 1) := by
  intro wk sink b w r w' h hf hr
  obtain ⟨env, cur, rest⟩ := b
  unfold pollBlock at h
  simp only at h
  simp only [hostFreeB, Bool.and_eq_true] at hf
  obtain ⟨hfc, hfr⟩ := hf
  simp only [inRangeB, Bool.and_eq_true] at hr
  obtain ⟨he, hr⟩ := hr
  cases cur with
  | idle =>
    cases rest with
    | nil =>
      simp only [Option.some.injEq, Prod.mk.injEq] at h
      obtain ⟨rfl, rfl⟩ := h
      exact ⟨Mono.refl _ _, he⟩
    | cons i rest' =>
      simp only [hostFreeIs, Bool.and_eq_true] at hfr
      obtain ⟨hfi, hfr'⟩ := hfr
      cases i with
      | emit tag e => exact ih.cont (mono_sinkEvent wk w sink _) hfr' ((mono_sinkEvent wk w sink _).envOk he) h
      | notify n e => exact ih.cont (mono_sinkEffect wk w sink _) hfr' ((mono_sinkEffect wk w sink _).envOk he) h
      | req x n e =>
        simp only [Option.some.injEq, Prod.mk.injEq] at h
        obtain ⟨rfl, rfl⟩ := h
        have hm := (mono_newLeaf wk w (some wk) (match sink with | .core => true | .cmd _ => false)).trans
          (mono_sinkEffect wk _ sink ⟨⟨n, env.eval e⟩, .once (w.newLeaf (some wk) (match sink with | .core => true | .cmd _ => false)).1⟩)
        refine ⟨hm, ?_, ?_, ?_⟩
        · simp only [ParkedB, ParkedP]; exact parked_newLeaf w wk _ sink _
        · simp [hostFreeB, hostFreeP, hfr']
        · simp only [inRangeB, inRangeP, decide_eq_true_eq, Bool.and_eq_true]
          exact ⟨hm.envOk he, (parked_newLeaf w wk _ sink _).1⟩
      | stream x n e limit body =>
        simp only [Option.some.injEq, Prod.mk.injEq] at h
        obtain ⟨rfl, rfl⟩ := h
        simp only [hostFreeI] at hfi
        have hm := (mono_newLeaf wk w (some wk) (match sink with | .core => true | .cmd _ => false)).trans
          (mono_sinkEffect wk _ sink ⟨⟨n, env.eval e⟩, .many (w.newLeaf (some wk) (match sink with | .core => true | .cmd _ => false)).1⟩)
        refine ⟨hm, ?_, ?_, ?_⟩
        · simp only [ParkedB, ParkedP]; exact parked_newLeaf w wk _ sink _
        · simp [hostFreeB, hostFreeP, hfr', hfi]
        · simp only [inRangeB, inRangeP, decide_eq_true_eq, Bool.and_eq_true]
          exact ⟨hm.envOk he, (parked_newLeaf w wk _ sink _).1⟩
      | spawn hd body =>
        cases sink with
        | cmd c =>
          simp only at h
          have hm : Mono wk w (w.newMeta.2.modCmd c fun c => { c with spawnQ := c.spawnQ ++ [⟨w.newMeta.1, .mk env .idle body⟩] }) :=
            (mono_newMeta wk w).trans (mono_modCmd wk _ c _)
          refine ih.cont hm hfr' ?_ h
          apply envOk_setHandle
          · simp [World.newMeta, World.modCmd]
          · exact hm.envOk he
        | core =>
          simp only at h
          have hm : Mono wk w { w with execSpawn := w.execSpawn ++ [.legacy (.mk env .idle body)] } := mono_execSpawn wk w _
          exact ih.cont hm hfr' (hm.envOk he) h
      | handoff x n e body =>
        have hm0 := (mono_newLeaf wk w (some wk) (match sink with | .core => true | .cmd _ => false)).trans
          (mono_sinkEffect wk _ sink ⟨⟨n, env.eval e⟩, .once (w.newLeaf (some wk) (match sink with | .core => true | .cmd _ => false)).1⟩)
        cases sink with
        | cmd c =>
          simp only at h hm0
          have hm := (hm0.trans (mono_newMeta wk _)).trans (mono_modCmd wk _ c fun cs => { cs with spawnQ := cs.spawnQ ++
            [⟨((w.newLeaf (some wk) false).2.sinkEffect (.cmd c) ⟨⟨n, env.eval e⟩, .once (w.newLeaf (some wk) false).1⟩).newMeta.1,
              .mk env (.req x (w.newLeaf (some wk) false).1) body⟩] })
          exact ih.cont hm hfr' (hm.envOk he) h
        | core =>
          simp only at h hm0
          have hm := hm0.trans (mono_execSpawn wk _ (((w.newLeaf (some wk) true).2.sinkEffect .core
            ⟨⟨n, env.eval e⟩, .once (w.newLeaf (some wk) true).1⟩).execSpawn ++
              [.legacy (.mk env (.req x (w.newLeaf (some wk) true).1) body)]))
          exact ih.cont hm hfr' (hm.envOk he) h
      | await hd =>
        cases hh : env.handle hd with
        | none => simp only [hh] at h; exact ih.cont (Mono.refl wk w) hfr' he h
        | some s =>
          simp only [hh] at h
          have hs := envOk_handle _ env hd s he hh
          exact ih.step (Mono.refl wk w) (by simp [hostFreeB, hostFreeP, hfr']) (by simp [inRangeB, inRangeP, he, hs]) h
      | abortTask hd =>
        cases hh : env.handle hd with
        | none => simp only [hh] at h; exact ih.cont (Mono.refl wk w) hfr' he h
        | some s =>
          simp only [hh] at h
          have hm : Mono wk w (w.modMeta s fun m => { m with aborted := true }) := mono_modMeta wk w s _ (fun _ hx => hx)
          exact ih.cont hm hfr' (hm.envOk he) h
      | join a b =>
        simp only [hostFreeI, Bool.and_eq_true] at hfi
        exact ih.step (Mono.refl wk w) (by simp [hostFreeB, hostFreeP, hfr', hfi.1, hfi.2]) (by simp [inRangeB, inRangeP, he]) h
      | select a b =>
        simp only [hostFreeI, Bool.and_eq_true] at hfi
        exact ih.step (Mono.refl wk w) (by simp [hostFreeB, hostFreeP, hfr', hfi.1, hfi.2]) (by simp [inRangeB, inRangeP, he]) h
      | selfwake k =>
        exact ih.step (Mono.refl wk w) (by simp [hostFreeB, hostFreeP, hfr']) (by simp [inRangeB, inRangeP, he]) h
      | abortCmd name =>
        simp only at h
        split at h
        · exact ih.cont (mono_abortCmd wk w _) hfr' ((mono_abortCmd wk w _).envOk he) h
        · exact ih.cont (Mono.refl wk w) hfr' he h
      | host c m => simp [hostFreeI] at hfi
  | req x l =>
    simp only [inRangeP, decide_eq_true_eq] at hr
    simp only at h
    split at h
    · exact ih.cont (env := env.set x _) (mono_dropReceiver wk w l) hfr ((mono_dropReceiver wk w l).envOk he) h
    · split at h
      · simp only [Option.some.injEq, Prod.mk.injEq] at h
        obtain ⟨rfl, rfl⟩ := h
        refine ⟨mono_dropReceiver wk w l, ?_, ?_, ?_⟩
        · simp [ParkedB, ParkedP]
        · simp [hostFreeB, hostFreeP, hfr]
        · simp [inRangeB, inRangeP, (mono_dropReceiver wk w l).envOk he]
      · simp only [Option.some.injEq, Prod.mk.injEq] at h
        obtain ⟨rfl, rfl⟩ := h
        have hm : Mono wk w (w.modLeaf l fun lf => { lf with waker := some wk }) := mono_modLeaf wk w l _ (fun _ => Or.inr rfl)
        refine ⟨hm, ?_, ?_, ?_⟩
        · simp only [ParkedB, ParkedP]; exact parked_setWaker w wk l hr
        · simp [hostFreeB, hostFreeP, hfr]
        · simp only [inRangeB, inRangeP, decide_eq_true_eq, len_modLeaf, Bool.and_eq_true]; exact ⟨hm.envOk he, hr⟩
  | reqDead =>
    simp only [Option.some.injEq, Prod.mk.injEq] at h
    obtain ⟨rfl, rfl⟩ := h
    refine ⟨Mono.refl _ _, ?_, ?_, ?_⟩
    · simp [ParkedB, ParkedP]
    · simp [hostFreeB, hostFreeP, hfr]
    · simp [inRangeB, inRangeP, he]
  | streamWait x l count limit body =>
    simp only [inRangeP, decide_eq_true_eq] at hr
    simp only [hostFreeP] at hfc
    simp only at h
    split at h
    · exact ih.cont (mono_dropReceiver wk w l) hfr ((mono_dropReceiver wk w l).envOk he) h
    · split at h
      · rename_i v q _
        have hm : Mono wk w (w.modLeaf l fun lf => { lf with queue := q }) := mono_modLeaf wk w l _ (fun _ => Or.inl rfl)
        refine ih.step hm ?_ ?_ h
        · simp [hostFreeB, hostFreeP, hfr, hfc]
        · simp only [inRangeB, inRangeP, decide_eq_true_eq, len_modLeaf, Bool.and_eq_true, envOk_set]
          exact ⟨hm.envOk he, hr, hm.envOk he, trivial⟩
      · split at h
        · exact ih.cont (mono_dropReceiver wk w l) hfr ((mono_dropReceiver wk w l).envOk he) h
        · simp only [Option.some.injEq, Prod.mk.injEq] at h
          obtain ⟨rfl, rfl⟩ := h
          have hm : Mono wk w (w.modLeaf l fun lf => { lf with waker := some wk }) := mono_modLeaf wk w l _ (fun _ => Or.inr rfl)
          refine ⟨hm, ?_, ?_, ?_⟩
          · simp only [ParkedB, ParkedP]; exact parked_setWaker w wk l hr
          · simp [hostFreeB, hostFreeP, hfr, hfc]
          · simp only [inRangeB, inRangeP, decide_eq_true_eq, len_modLeaf, Bool.and_eq_true]; exact ⟨hm.envOk he, hr⟩
  | streamBody x l count limit body inner =>
    simp only [inRangeP, decide_eq_true_eq, Bool.and_eq_true] at hr
    simp only [hostFreeP, Bool.and_eq_true] at hfc
    simp only at h
    cases hp : pollBlock pn f wk sink inner w with
    | none => simp [hp] at h
    | some res =>
      obtain ⟨ri, w1⟩ := res
      have hi := ih wk sink inner w ri w1 hp hfc.2 hr.2
      cases ri with
      | pending inner' =>
        simp only [hp, Option.some.injEq, Prod.mk.injEq] at h
        obtain ⟨rfl, rfl⟩ := h
        obtain ⟨hm, hpk, hhf, hir⟩ := hi
        refine ⟨hm, ?_, ?_, ?_⟩
        · simp only [ParkedB, ParkedP]; exact hpk
        · simp [hostFreeB, hostFreeP, hfr, hfc.1, hhf]
        · simp only [inRangeB, inRangeP, decide_eq_true_eq, Bool.and_eq_true]
          exact ⟨hm.envOk he, Nat.lt_of_lt_of_le hr.1 hm.len, hir⟩
      | ready env' =>
        simp only [hp] at h
        obtain ⟨hm, henv⟩ := hi
        refine ih.step hm ?_ ?_ h
        · simp [hostFreeB, hostFreeP, hfr, hfc.1]
        · simp only [inRangeB, inRangeP, decide_eq_true_eq, Bool.and_eq_true]
          exact ⟨henv, Nat.lt_of_lt_of_le hr.1 hm.len⟩
  | await s =>
    simp only [inRangeP, decide_eq_true_eq] at hr
    simp only at h
    split at h
    · exact ih.cont (Mono.refl wk w) hfr he h
    · split at h
      · simp only [Option.some.injEq, Prod.mk.injEq] at h
        obtain ⟨rfl, rfl⟩ := h
        have hm : Mono wk w (w.modMeta s fun m => { m with joinWakers := m.joinWakers ++ [wk] }) :=
          mono_modMeta wk w s _ (fun m hx => by simp [hx])
        refine ⟨hm, ?_, ?_, ?_⟩
        · simp only [ParkedB, ParkedP]; exact parked_await w wk s hr
        · simp [hostFreeB, hostFreeP, hfr]
        · simp only [inRangeB, inRangeP, decide_eq_true_eq, Bool.and_eq_true]
          exact ⟨hm.envOk he, Nat.lt_of_lt_of_le hr hm.mlen⟩
      · exact ih.cont (Mono.refl wk w) hfr he h
  | join a b ad bd =>
    simp only [inRangeP, Bool.and_eq_true] at hr
    simp only [hostFreeP, Bool.and_eq_true] at hfc
    simp only at h
    split at h
    · simp at h
    · rename_i ra w1 hra
      split at h
      · simp at h
      · rename_i rb w2 hrb
        obtain ⟨hm1, ha⟩ := half_spec ih ad a env w ra w1 hra hfc.1 hr.1
        obtain ⟨hm2, hb⟩ := half_spec ih bd b env w1 rb w2 hrb hfc.2 (hm1.inRange hr.2)
        have hm := hm1.trans hm2
        cases ra with
        | pending a' =>
          obtain ⟨hpa, hfa, hra'⟩ := ha a' rfl
          cases rb with
          | pending b' =>
            obtain ⟨hpb, hfb, hrb'⟩ := hb b' rfl
            simp only [Bool.and_self, Bool.false_eq_true, if_false, Option.some.injEq, Prod.mk.injEq] at h
            obtain ⟨rfl, rfl⟩ := h
            refine ⟨hm, ?_, ?_, ?_⟩
            · simp only [ParkedB, ParkedP]; exact ⟨fun _ => ParkedB.mono hm2 a' hpa, fun _ => hpb⟩
            · simp [hostFreeB, hostFreeP, hfr, hfa, hfb]
            · simp only [inRangeB, inRangeP, Bool.and_eq_true]; exact ⟨hm.envOk he, hm2.inRange hra', hrb'⟩
          | ready envb =>
            simp only [Bool.false_and, Bool.false_eq_true, if_false, Option.some.injEq, Prod.mk.injEq] at h
            obtain ⟨rfl, rfl⟩ := h
            refine ⟨hm, ?_, ?_, ?_⟩
            · simp only [ParkedB, ParkedP]; exact ⟨fun _ => ParkedB.mono hm2 a' hpa, fun hc => by cases hc⟩
            · simp [hostFreeB, hostFreeP, hfr, hfa, hfc.2]
            · simp only [inRangeB, inRangeP, Bool.and_eq_true]; exact ⟨hm.envOk he, hm2.inRange hra', hm.inRange hr.2⟩
        | ready enva =>
          cases rb with
          | pending b' =>
            obtain ⟨hpb, hfb, hrb'⟩ := hb b' rfl
            simp only [Bool.and_false, Bool.false_eq_true, if_false, Option.some.injEq, Prod.mk.injEq] at h
            obtain ⟨rfl, rfl⟩ := h
            refine ⟨hm, ?_, ?_, ?_⟩
            · simp only [ParkedB, ParkedP]; exact ⟨fun hc => (by cases hc), fun _ => hpb⟩
            · simp [hostFreeB, hostFreeP, hfr, hfb, hfc.1]
            · simp only [inRangeB, inRangeP, Bool.and_eq_true]; exact ⟨hm.envOk he, hm.inRange hr.1, hrb'⟩
          | ready envb =>
            simp only [Bool.and_self, if_true] at h
            exact ih.cont hm hfr (hm.envOk he) h
  | select a b =>
    simp only [inRangeP, Bool.and_eq_true] at hr
    simp only [hostFreeP, Bool.and_eq_true] at hfc
    simp only at h
    cases hp : pollBlock pn f wk sink a w with
    | none => simp [hp] at h
    | some res =>
      obtain ⟨ra, w1⟩ := res
      have hi := ih wk sink a w ra w1 hp hfc.1 hr.1
      cases ra with
      | ready enva =>
        simp only [hp] at h
        have hm := hi.1.trans (mono_dropBlock wk w1 b hfc.2)
        exact ih.cont hm hfr (hm.envOk he) h
      | pending a' =>
        simp only [hp] at h
        obtain ⟨hm1, hpa, hfa, hra'⟩ := hi
        cases hq : pollBlock pn f wk sink b w1 with
        | none => simp [hq] at h
        | some res2 =>
          obtain ⟨rb, w2⟩ := res2
          have hj := ih wk sink b w1 rb w2 hq hfc.2 (hm1.inRange hr.2)
          cases rb with
          | ready envb =>
            simp only [hq] at h
            have hm := (hm1.trans hj.1).trans (mono_dropBlock wk w2 a' hfa)
            exact ih.cont hm hfr (hm.envOk he) h
          | pending b' =>
            simp only [hq, Option.some.injEq, Prod.mk.injEq] at h
            obtain ⟨rfl, rfl⟩ := h
            obtain ⟨hm2, hpb, hfb, hrb'⟩ := hj
            have hm := hm1.trans hm2
            refine ⟨hm, ?_, ?_, ?_⟩
            · simp only [ParkedB, ParkedP]; exact ⟨ParkedB.mono hm2 a' hpa, hpb⟩
            · simp [hostFreeB, hostFreeP, hfr, hfa, hfb]
            · simp only [inRangeB, inRangeP, Bool.and_eq_true]; exact ⟨hm.envOk he, hm2.inRange hra', hrb'⟩
  | selfwake k =>
    simp only at h
    split at h
    · exact ih.cont (Mono.refl wk w) hfr he h
    · simp only [Option.some.injEq, Prod.mk.injEq] at h
      obtain ⟨rfl, rfl⟩ := h
      refine ⟨mono_wake wk wk w, ?_, ?_, ?_⟩
      · simp only [ParkedB, ParkedP]; exact wokenBy_wake_self wk w
      · simp [hostFreeB, hostFreeP, hfr]
      · simp [inRangeB, inRangeP, (mono_wake wk wk w).envOk he]
  | host c m => simp [hostFreeP] at hfc

end M.Rt
