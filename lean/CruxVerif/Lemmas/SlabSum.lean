/- Additive measures over the occupied entries of a slab, and membership in `values`, under set / insert / remove. -/
import CruxVerif.Model.Slab
namespace M.Slab
variable {α : Type}

def og (g : α → Nat) : Option α → Nat
  | none => 0
  | some a => g a

/-- sum of `g` over the occupied entries -/
def sumG (g : α → Nat) (l : List (Option α)) : Nat := ((l.filterMap id).map g).sum

theorem sumG_nil (g : α → Nat) : sumG g [] = 0 := rfl

theorem sumG_cons (g : α → Nat) (o : Option α) (l : List (Option α)) : sumG g (o :: l) = og g o + sumG g l := by
  cases o <;> simp [sumG, og, List.filterMap_cons]

theorem sumG_append (g : α → Nat) (l1 l2 : List (Option α)) : sumG g (l1 ++ l2) = sumG g l1 + sumG g l2 := by
  simp [sumG, List.filterMap_append]

theorem sumG_set (g : α → Nat) : ∀ (l : List (Option α)) (k : Nat) (o o' : Option α), l[k]? = some o →
    sumG g (l.set k o') + og g o = sumG g l + og g o'
  | [], _, _, _, h => by simp at h
  | x :: l, 0, o, o', h => by
    simp only [List.getElem?_cons_zero, Option.some.injEq] at h
    subst h
    simp only [List.set_cons_zero, sumG_cons]; omega
  | x :: l, k + 1, o, o', h => by
    simp only [List.getElem?_cons_succ] at h
    have := sumG_set g l k o o' h
    simp only [List.set_cons_succ, sumG_cons]; omega

theorem sumG_set_out (g : α → Nat) (l : List (Option α)) (k : Nat) (o' : Option α) (h : l[k]? = none) :
    l.set k o' = l := by
  apply List.set_eq_of_length_le
  exact List.getElem?_eq_none_iff.mp h

theorem values_sum (g : α → Nat) (s : Slab α) : (s.values.map g).sum = sumG g s.entries := rfl

theorem get?_some_entry (s : Slab α) (k : Nat) (a : α) (h : s.get? k = some a) : s.entries[k]? = some (some a) := by
  unfold get? at h
  cases he : s.entries[k]? with
  | none => simp [he] at h
  | some o => cases o with
    | none => simp [he] at h
    | some b => simp [he] at h; rw [h]

/-- `set` on an occupied key: the measure changes by exactly the difference -/
theorem sum_set (g : α → Nat) (s : Slab α) (k : Nat) (a a' : α) (h : s.get? k = some a) :
    ((s.set k a').values.map g).sum + g a = (s.values.map g).sum + g a' := by
  unfold set
  simp only [h]
  rw [values_sum, values_sum]
  exact sumG_set g s.entries k (some a) (some a') (get?_some_entry s k a h)

theorem sum_insert_le (g : α → Nat) (s : Slab α) (a : α) : ((s.insert a).2.values.map g).sum ≤ (s.values.map g).sum + g a := by
  unfold insert
  split
  · rename_i k rest _
    simp only [values_sum]
    cases he : s.entries[k]? with
    | none => rw [sumG_set_out g s.entries k (some a) he]; omega
    | some o =>
      have := sumG_set g s.entries k o (some a) he
      simp only [og] at this
      omega
  · simp only [values_sum, sumG_append, sumG_cons, sumG_nil, og]; omega

theorem sum_remove (g : α → Nat) (s : Slab α) (k : Nat) (a : α) (h : s.get? k = some a) :
    ((s.remove k).2.values.map g).sum + g a = (s.values.map g).sum := by
  unfold remove
  simp only [h]
  rw [values_sum, values_sum]
  have := sumG_set g s.entries k (some a) none (get?_some_entry s k a h)
  simp only [og] at this
  omega

/-! membership -/

theorem mem_filterMap_set : ∀ (l : List (Option α)) (k : Nat) (o' : Option α) (x : α),
    x ∈ (l.set k o').filterMap id → o' = some x ∨ x ∈ l.filterMap id
  | [], _, _, _, h => by simp at h
  | y :: l, 0, o', x, h => by
    simp only [List.set_cons_zero] at h
    cases o' with
    | none =>
      simp only [List.filterMap_cons, id] at h
      right
      cases y <;> simp [List.filterMap_cons, h]
    | some z =>
      simp only [List.filterMap_cons, id, List.mem_cons] at h
      rcases h with rfl | h
      · exact Or.inl rfl
      · right; cases y <;> simp [List.filterMap_cons, h]
  | y :: l, k + 1, o', x, h => by
    simp only [List.set_cons_succ] at h
    cases y with
    | none =>
      simp only [List.filterMap_cons, id] at h ⊢
      exact mem_filterMap_set l k o' x h
    | some z =>
      simp only [List.filterMap_cons, id, List.mem_cons] at h ⊢
      rcases h with rfl | h
      · exact Or.inr (Or.inl rfl)
      · rcases mem_filterMap_set l k o' x h with h | h
        · exact Or.inl h
        · exact Or.inr (Or.inr h)

theorem mem_values_set (s : Slab α) (k : Nat) (a' x : α) (h : x ∈ (s.set k a').values) : x = a' ∨ x ∈ s.values := by
  unfold set at h
  split at h
  · rcases mem_filterMap_set s.entries k (some a') x h with h | h
    · left; exact (Option.some.inj h).symm
    · exact Or.inr h
  · exact Or.inr h

theorem mem_values_insert (s : Slab α) (a x : α) (h : x ∈ (s.insert a).2.values) : x = a ∨ x ∈ s.values := by
  unfold insert at h
  split at h
  · rename_i k rest _
    rcases mem_filterMap_set s.entries k (some a) x h with h | h
    · left; exact (Option.some.inj h).symm
    · exact Or.inr h
  · simp only [values, List.filterMap_append, List.mem_append] at h
    rcases h with h | h
    · exact Or.inr h
    · left; simpa using h

theorem mem_values_remove (s : Slab α) (k : Nat) (x : α) (h : x ∈ (s.remove k).2.values) : x ∈ s.values := by
  unfold remove at h
  split at h
  · rcases mem_filterMap_set s.entries k none x h with h | h
    · cases h
    · exact h
  · exact h

theorem mem_values_of_get (s : Slab α) (k : Nat) (a : α) (h : s.get? k = some a) : a ∈ s.values := by
  have := get?_some_entry s k a h
  simp only [values, List.mem_filterMap, id]
  exact ⟨some a, List.mem_of_getElem? this, rfl⟩

theorem values_empty : (({} : Slab α)).values = [] := rfl

end M.Slab
