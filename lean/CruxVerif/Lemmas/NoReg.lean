/-
`NoReg s w`: no clone of the waker with serial `s` is held anywhere in `w` (leaf waker slots, join-handle queues, AtomicWakers
of commands): `World.holders s = 0`. One poll of a SIMPLE block (no select, no handoff: nothing registers a waker and then
abandons the registration) with the waker of serial `s`, started where nothing holds `s`, ends where nothing holds `s`
whenever the block it leaves is suspended only at closed requests (`NRGood`, one `grind` call). So `run_task` evicts such
a task unless it was woken during the poll — a stored task is never left suspended at closed requests only.
-/
import CruxVerif.Lemmas.Simple
import CruxVerif.Lemmas.FreshUse
namespace M.Rt

structure NoReg (s : Nat) (w : World) : Prop where
  leaves : ∀ lf ∈ w.leaves, isSerial s lf.waker = false
  metas : ∀ m ∈ w.metas, ∀ k ∈ m.joinWakers, isSerial s (some k) = false
  cmds : ∀ c ∈ w.cmds, isSerial s c.waker = false

theorem NoReg.holders {s : Nat} {w : World} (h : NoReg s w) : w.holders s = 0 := by
  unfold World.holders
  rw [filter_length_zero _ _ h.leaves, filter_length_zero _ _ h.cmds,
      sum_map_zero _ _ (fun m hm => filter_length_zero _ _ (h.metas m hm))]

theorem NoReg.of_same {s : Nat} {w w' : World} (h : NoReg s w) (hl : w'.leaves = w.leaves) (hm : w'.metas = w.metas)
    (hc : w'.cmds = w.cmds) : NoReg s w' := ⟨by rw [hl]; exact h.leaves, by rw [hm]; exact h.metas, by rw [hc]; exact h.cmds⟩

section
variable {s : Nat} {w : World}

theorem NoReg.modCmd (h : NoReg s w) (c : Nat) (f : CmdSt → CmdSt)
    (hf : ∀ x, isSerial s x.waker = false → isSerial s (f x).waker = false) : NoReg s (w.modCmd c f) :=
  ⟨h.leaves, h.metas, mem_modifyNth (fun x : CmdSt => isSerial s x.waker = false) f hf w.cmds c h.cmds⟩
theorem NoReg.modLeaf (h : NoReg s w) (l : Nat) (f : Leaf → Leaf)
    (hf : ∀ x, isSerial s x.waker = false → isSerial s (f x).waker = false) : NoReg s (w.modLeaf l f) :=
  ⟨mem_modifyNth (fun x : Leaf => isSerial s x.waker = false) f hf w.leaves l h.leaves, h.metas, h.cmds⟩

theorem nr_sinkEvent (sk : Sink) (e : Ev) (h : NoReg s w) : NoReg s (w.sinkEvent sk e) := by
  cases sk with
  | cmd c => exact h.modCmd c _ (fun _ hx => hx)
  | core => exact h.of_same rfl rfl rfl
theorem nr_sinkEffect (sk : Sink) (e : Eff) (h : NoReg s w) : NoReg s (w.sinkEffect sk e) := by
  cases sk with
  | cmd c => exact h.modCmd c _ (fun _ hx => hx)
  | core => exact h.of_same rfl rfl rfl
theorem nr_newMeta (h : NoReg s w) : NoReg s w.newMeta.2 := by
  refine ⟨h.leaves, ?_, h.cmds⟩
  intro m hm
  simp only [World.newMeta, List.mem_append, List.mem_singleton] at hm
  rcases hm with hm | rfl
  · exact h.metas m hm
  · intro k hk; cases hk
theorem nr_addSpawn (c : Nat) (t : Task) (h : NoReg s w) : NoReg s (w.modCmd c (addSpawn t)) :=
  h.modCmd c _ (fun _ hx => hx)
theorem nr_setQueue (l : Nat) (q : List Val) (h : NoReg s w) : NoReg s (w.modLeaf l (setQueue q)) :=
  h.modLeaf l _ (fun _ hx => hx)
theorem nr_dropReceiver (l : Nat) (h : NoReg s w) : NoReg s (w.dropReceiver l) := h.modLeaf l _ (fun _ hx => hx)
theorem nr_dropBlock (b : Block) (hb : hostFreeB b = true) (h : NoReg s w) : NoReg s (w.dropBlock b) :=
  dropBlock_hf_ind (NoReg s) (fun _ l hw => nr_dropReceiver l hw) _ b w hb h
theorem nr_execSpawn (xs : List ExecTask) (h : NoReg s w) : NoReg s ({ w with execSpawn := xs } : World) := h.of_same rfl rfl rfl
end

theorem nr_wake (s : Nat) : ∀ (f : Nat) (k : Waker) (w : World), NoReg s w → NoReg s (wake f k w) := by
  intro f
  induction f with
  | zero =>
    intro k w h
    cases k <;> exact h.of_same rfl rfl rfl
  | succ f ih =>
    intro k w h
    cases k with
    | root e => exact h.of_same rfl rfl rfl
    | task c t s' =>
      simp only [wake]
      have h1 : NoReg s (if (w.cmd c).alive = true then w.modCmd c fun y => { y with ready := y.ready ++ [t] } else w) := by
        split
        · exact h.modCmd c _ (fun _ hx => hx)
        · exact h
      generalize (if (w.cmd c).alive = true then w.modCmd c fun y => { y with ready := y.ready ++ [t] } else w) = w1 at h1
      have h2 : NoReg s ({ w1 with woken := s' :: w1.woken } : World) := h1.of_same rfl rfl rfl
      split
      · exact h2
      · exact ih _ _ (h2.modCmd c _ (fun _ _ => rfl))

theorem nr_World_wake {s : Nat} {w : World} (k : Waker) (h : NoReg s w) : NoReg s (w.wake k) := nr_wake s _ k w h

/-! the result of a poll: ready, or suspended only at closed requests -/
def deadRes : PollRes → Prop
  | .pending b => deadOnlyB b = true
  | .ready _ => True
theorem deadRes_pending (b : Block) : deadRes (.pending b) = (deadOnlyB b = true) := rfl
theorem deadRes_ready (e : Env) : deadRes (.ready e) = True := rfl
theorem doB_eq (env : Env) (cur : Pend) (rest : List Instr) : deadOnlyB (.mk env cur rest) = deadOnlyP cur := by simp [deadOnlyB]
theorem doP_idle : deadOnlyP .idle = false := by simp [deadOnlyP]
theorem doP_reqDead : deadOnlyP .reqDead = true := by simp [deadOnlyP]
theorem doP_req (x l : Nat) : deadOnlyP (.req x l) = false := by simp [deadOnlyP]
theorem doP_selfwake (k : Nat) : deadOnlyP (.selfwake k) = false := by simp [deadOnlyP]
theorem doP_await (k : Nat) : deadOnlyP (.await k) = false := by simp [deadOnlyP]
theorem doP_streamWait (x l c lim : Nat) (body : List Instr) : deadOnlyP (.streamWait x l c lim body) = false := by simp [deadOnlyP]
theorem doP_streamBody (x l c lim : Nat) (body : List Instr) (inner : Block) :
    deadOnlyP (.streamBody x l c lim body inner) = deadOnlyB inner := by simp [deadOnlyP]
theorem doP_join (a b : Block) (ad bd : Bool) : deadOnlyP (.join a b ad bd) = ((ad || deadOnlyB a) && (bd || deadOnlyB b)) := by
  simp [deadOnlyP]

def NRGood (pn : Waker → Nat → World → Option (NextRes × World)) (s : Nat) (f : Nat) : Prop :=
  ∀ c t sink b w r w', pollBlock pn f (.task c t s) sink b w = some (r, w') → hostFreeB b = true → simpleB b = true →
    NoReg s w → deadRes r → NoReg s w'

theorem nrgood_succ (pn) (s : Nat) (f : Nat) (ih : NRGood pn s f) : NRGood pn s (f + 1) := by
  intro c t sink b w r w' h hf hs hw hd
  obtain ⟨env, cur, rest⟩ := b
  have hres := fun wk b w r w' h hf => (pollBlock_lgood pn f wk sink b w r w' h hf).2
  unfold pollBlock at h
  simp only [addJoinWaker_eq, addSpawn_eq, setWaker_eq, setQueue_eq] at h
  unfold NRGood at ih
  grind (gen := 20) (splits := 40) [nr_sinkEvent, nr_sinkEffect, nr_newMeta, nr_addSpawn, nr_setQueue, nr_dropReceiver, nr_dropBlock,
    nr_execSpawn, nr_World_wake,
    deadRes_pending, deadRes_ready, doB_eq, doP_idle, doP_reqDead, doP_req, doP_selfwake, doP_await, doP_streamWait,
    doP_streamBody, doP_join,
    spB_eq, spP_idle, spP_reqDead, spP_req, spP_selfwake, spP_await, spP_host, spP_select, spP_streamWait, spP_streamBody, spP_join,
    spIs_nil, spIs_cons, spI_emit, spI_notify, spI_req, spI_selfwake, spI_stream, spI_spawn, spI_join, spI_await, spI_abortTask,
    spI_select, spI_abortCmd, spI_handoff, spI_host,
    hfB_eq, hfP_idle, hfP_reqDead, hfP_req, hfP_await, hfP_selfwake, hfP_streamWait,
    hfP_streamBody, hfP_join, hfP_select, hfP_host, hfIs_nil, hfIs_cons, hfI_host, hfI_stream, hfI_spawn, hfI_handoff,
    hfI_join, hfI_select, hfRes_pending]

theorem pollBlock_nrgood (pn) (s : Nat) : ∀ f, NRGood pn s f
  | 0 => by intro c t sink b w r w' h; simp [pollBlock] at h
  | f + 1 => nrgood_succ pn s f (pollBlock_nrgood pn s f)

end M.Rt
