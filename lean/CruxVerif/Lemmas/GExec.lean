/- The global measure through the command executor and the knot on the nesting depth. -/
import CruxVerif.Lemmas.GPoll
namespace M.Rt

def PollG (poll : Waker → Sink → Block → World → Option (PollRes × World)) : Prop :=
  ∀ wk p b w r w', poll wk (.cmd p) b w = some (r, w') → HL w → hostsLtB p b = true → GLe w (refsB b) w' (resRefs r)

/-- what `run_task` leaves: for a completed task its stale entry is still counted (the executor removes it next) -/
def RunPostG (c tid : Nat) (st : TaskState) (w w' : World) : Prop :=
  match st with
  | .completed => ∃ t, (w'.cmd c).tasks.get? tid = some t ∧ w.leaves.length ≤ w'.leaves.length ∧
      ∀ l, G l w' ≤ G l w + (taskRefs t).count l + fresh w w' l
  | _ => GLe w [] w' []

def RunG (runTask : Nat → Nat → World → Option (TaskState × World)) : Prop :=
  ∀ c tid w st w', runTask c tid w = some (st, w') → HL w → RunPostG c tid st w w'

def SettleG (settle : Nat → World → Option World) : Prop :=
  ∀ c w w', settle c w = some w' → HL w → GLe w [] w' []

theorem fresh_self (w : World) (l : Nat) : fresh w w l = 0 := by unfold fresh; rw [if_neg]; omega

theorem cmdCnt_set (l : Nat) (x : CmdSt) (tid : Nat) (t t' : Task) (h : x.tasks.get? tid = some t) :
    cmdCnt l { x with tasks := x.tasks.set tid t' } + (taskRefs t).count l = cmdCnt l x + (taskRefs t').count l := by
  have := Slab.sum_set (fun t0 => (taskRefs t0).count l) x.tasks tid t t' h
  unfold cmdCnt cnt
  simp only at this ⊢
  omega

theorem runTaskF_g (poll) (hpT : PollT poll) (hpG : PollG poll) : RunG (runTaskF poll) := by
  intro c tid w st w' h hw
  unfold runTaskF at h
  split at h
  · simp only [Option.some.injEq, Prod.mk.injEq] at h; obtain ⟨rfl, rfl⟩ := h; exact GLe.refl _ _
  · rename_i t hg
    have htl : hostsLtB c t.fut = true := hw.tasks c t (Slab.mem_values_of_get _ _ _ hg)
    split at h
    · simp only [Option.some.injEq, Prod.mk.injEq] at h; obtain ⟨rfl, rfl⟩ := h
      exact ⟨t, hg, Nat.le_refl _, fun l => by rw [fresh_self]; omega⟩
    · dsimp only at h
      have f0 : TK0 w ({ w with nextSerial := w.nextSerial + 1 } : World) := tk_of_cmds rfl
      have hw0 := hw.tk0 f0
      have hg0 : ∀ l, G l ({ w with nextSerial := w.nextSerial + 1 } : World) = G l w := fun _ => G_of_cmds rfl
      split at h
      · cases h
      · rename_i env1 w1 hpoll
        simp only [Option.some.injEq, Prod.mk.injEq] at h
        obtain ⟨rfl, rfl⟩ := h
        have kT := hpT _ _ _ _ _ _ hpoll hw0 htl
        have kG := hpG _ _ _ _ _ _ hpoll hw0 htl
        refine ⟨t, ?_, kG.len, ?_⟩
        · rw [kT.2.2.tasks c (Nat.le_refl _)]; exact hg
        · intro l
          have := kG.cnt l
          simp only [resRefs, List.count_nil, Nat.zero_add] at this
          rw [hg0 l] at this
          show G l w1 ≤ G l w + (refsB t.fut).count l + fresh w w1 l
          have hf : fresh ({ w with nextSerial := w.nextSerial + 1 } : World) w1 l = fresh w w1 l := rfl
          omega
      · rename_i b w1 hpoll
        have kT := hpT _ _ _ _ _ _ hpoll hw0 htl
        have kG := hpG _ _ _ _ _ _ hpoll hw0 htl
        have hg1 : (w1.cmd c).tasks.get? tid = some t := by rw [kT.2.2.tasks c (Nat.le_refl _)]; exact hg
        have hfinal : GLe w [] (w1.modCmd c fun x => { x with tasks := x.tasks.set tid { t with fut := b } }) [] := by
          refine ⟨kG.len, ?_⟩
          intro l
          have h1 := G_modCmd l w1 c fun x => { x with tasks := x.tasks.set tid { t with fut := b } }
          rw [cmd_modCmd_of_get w1 c tid t _ hg1] at h1
          have h2 := cmdCnt_set l (w1.cmd c) tid t { t with fut := b } hg1
          have h3 := kG.cnt l
          rw [hg0 l] at h3
          simp only [resRefs] at h3
          have hf : fresh ({ w with nextSerial := w.nextSerial + 1 } : World) w1 l = fresh w w1 l := rfl
          have hf2 : fresh w (w1.modCmd c fun x => { x with tasks := x.tasks.set tid { t with fut := b } }) l = fresh w w1 l := rfl
          simp only [taskRefs] at h2
          simp only [List.count_nil, Nat.zero_add]
          rw [hf2]
          omega
        have hfin2 : ∀ (pf : Nat → Bool), GLe w [] ({ (w1.modCmd c fun x => { x with tasks := x.tasks.set tid { t with fut := b } })
            with woken := (w1.modCmd c fun x => { x with tasks := x.tasks.set tid { t with fut := b } }).woken.filter pf } : World) [] :=
          fun pf => hfinal.trans (GLe.of_same [] (fun _ => G_of_cmds rfl) rfl)
        split at h
        · simp only [Option.some.injEq, Prod.mk.injEq] at h; obtain ⟨rfl, rfl⟩ := h; exact hfin2 _
        · simp only [Option.some.injEq, Prod.mk.injEq] at h; obtain ⟨rfl, rfl⟩ := h; exact hfin2 _

theorem len_wakeAll : ∀ (ks : List Waker) (W : World), (W.wakeAll ks).leaves.length = W.leaves.length
  | [], _ => rfl
  | k :: ks, W => by simp only [World.wakeAll, List.foldl_cons]; exact (len_wakeAll ks _).trans (len_wake W k)

theorem dec_finish_tail (W1 : World) (t' : Task) (ks : List Waker) :
    Dec W1 (((W1.modMeta t'.serial fun m => { m with finished := true, joinWakers := [] }).wakeAll ks).dropTask t') := by
  have d12 : Dec W1 (W1.modMeta t'.serial fun m => { m with finished := true, joinWakers := [] }) :=
    Dec.of_eq (fun _ => G_of_cmds rfl) rfl
  have d23 : Dec (W1.modMeta t'.serial fun m => { m with finished := true, joinWakers := [] })
      ((W1.modMeta t'.serial fun m => { m with finished := true, joinWakers := [] }).wakeAll ks) :=
    Dec.of_eq (fun l => G_wakeAll l ks _) (len_wakeAll ks _)
  exact (d12.trans d23).trans (dec_World_dropTask _ t')

/-- a change of command `c` that does not add references -/
theorem dec_modCmd_le (W : World) (c : Nat) (f : CmdSt → CmdSt) (hf : ∀ x l, cmdCnt l (f x) ≤ cmdCnt l x) :
    Dec W (W.modCmd c f) := by
  refine ⟨?_, rfl⟩
  intro l
  have h := G_modCmd l W c f
  have : cmdCnt l ((W.modCmd c f).cmd c) ≤ cmdCnt l (W.cmd c) := by
    rw [World.cmd_modCmd_self]
    simp only [World.cmd]
    cases W.cmds[c]? with
    | none => simp [cmdCnt_default]
    | some x => exact hf x l
  omega

/-- the executor's insertion of a spawned task -/
def insT (t : Task) (x : CmdSt) : CmdSt :=
  let (tid, tasks) := x.tasks.insert t
  { x with tasks := tasks, ready := x.ready ++ [tid] }

theorem cmdCnt_insT (l : Nat) (t : Task) (x : CmdSt) : cmdCnt l (insT t x) ≤ cmdCnt l x + (taskRefs t).count l := by
  have := Slab.sum_insert_le (fun t0 => (taskRefs t0).count l) x.tasks t
  simp only [insT, cmdCnt, cnt] at this ⊢
  omega

theorem G_insT (l : Nat) (W : World) (c : Nat) (t : Task) : G l (W.modCmd c (insT t)) ≤ G l W + (taskRefs t).count l := by
  have h := G_modCmd l W c (insT t)
  have : cmdCnt l ((W.modCmd c (insT t)).cmd c) ≤ cmdCnt l (W.cmd c) + (taskRefs t).count l := by
    rw [World.cmd_modCmd_self]
    simp only [World.cmd]
    cases W.cmds[c]? with
    | none => simp [cmdCnt_default]
    | some x => exact cmdCnt_insT l t x
  omega

theorem G_insFold (l : Nat) (c : Nat) : ∀ (rem : List Task) (W : World),
    G l (rem.foldl (fun w t => w.modCmd c (insT t)) W) ≤ G l W + cnt l rem ∧
    (rem.foldl (fun w t => w.modCmd c (insT t)) W).leaves.length = W.leaves.length
  | [], W => by simp [cnt]
  | t :: rem, W => by
    simp only [List.foldl_cons]
    have h1 := G_insFold l c rem (W.modCmd c (insT t))
    have h2 := G_insT l W c t
    rw [cnt_cons]
    exact ⟨by omega, h1.2⟩

/-- finishing a task: its entry is removed (the measure drops by exactly its references), then only drops -/
theorem finishTask_g (c tid : Nat) (w : World) (t : Task) (hg : (w.cmd c).tasks.get? tid = some t) :
    (finishTask c tid w).leaves.length = w.leaves.length ∧ ∀ l, G l (finishTask c tid w) + (taskRefs t).count l ≤ G l w := by
  unfold finishTask
  simp only
  have hr := (Slab.remove_get (w.cmd c).tasks tid t hg).1
  split
  · rename_i heq; rw [heq] at hr; cases hr
  · rename_i t' tasks heq
    rw [heq] at hr
    simp only [Option.some.injEq] at hr
    have hT : tasks = ((w.cmd c).tasks.remove tid).2 := by rw [heq]
    have hd := dec_finish_tail (w.modCmd c fun x => { x with tasks := tasks }) t'
      ((w.modCmd c fun x => { x with tasks := tasks }).getMeta t'.serial).joinWakers
    refine ⟨hd.len, ?_⟩
    intro l
    have h1 := G_modCmd l w c fun x => { x with tasks := tasks }
    rw [cmd_modCmd_of_get w c tid t _ hg] at h1
    have h2 := Slab.sum_remove (fun t0 => (taskRefs t0).count l) (w.cmd c).tasks tid t hg
    have h3 := hd.g l
    have h4 : cmdCnt l { (w.cmd c) with tasks := tasks } + (taskRefs t).count l = cmdCnt l (w.cmd c) := by
      unfold cmdCnt cnt
      rw [hT]
      simp only at h2 ⊢
      omega
    dsimp only at h4
    omega

theorem dec_finishTask (c tid : Nat) (w : World) : Dec w (finishTask c tid w) := by
  cases hg : (w.cmd c).tasks.get? tid with
  | none =>
    unfold finishTask
    simp only
    rw [Slab.remove_none _ _ hg]
    exact Dec.refl w
  | some t =>
    have := finishTask_g c tid w t hg
    exact ⟨fun l => by have := this.2 l; omega, this.1⟩

theorem dec_spawnNewTasks (c : Nat) (w : World) : Dec w (spawnNewTasks c w) := by
  have hE : spawnNewTasks c w = (w.cmd c).spawnQ.foldl (fun w t => w.modCmd c (insT t)) (w.modCmd c fun x => { x with spawnQ := [] }) := rfl
  rw [hE]
  refine ⟨?_, (G_insFold 0 c _ _).2⟩
  intro l
  have h0 := G_modCmd l w c fun x => { x with spawnQ := [] }
  have h1 : cmdCnt l ((w.modCmd c fun x => { x with spawnQ := [] }).cmd c) + cnt l (w.cmd c).spawnQ ≤ cmdCnt l (w.cmd c) := by
    rw [World.cmd_modCmd_self]
    simp only [World.cmd]
    cases w.cmds[c]? with
    | none => simp [cmdCnt_default, cnt]
    | some x => simp [cmdCnt, cnt]
  have := (G_insFold l c (w.cmd c).spawnQ (w.modCmd c fun x => { x with spawnQ := [] })).1
  omega

theorem drainReady_g (runTask) (hrT : RunT runTask) (hrG : RunG runTask) : ∀ (f c : Nat) (w w' : World),
    drainReady runTask f c w = some w' → HL w → GLe w [] w' [] := by
  intro f
  induction f with
  | zero => intro c w w' h; simp [drainReady] at h
  | succ f ih =>
    intro c w w' h hw
    unfold drainReady at h
    split at h
    · simp only [Option.some.injEq] at h; subst h; exact GLe.refl _ _
    · rename_i tid rest _
      have f0 : TK0 w (w.modCmd c fun x => { x with ready := rest }) := tk_modCmd w c _ (fun _ => rfl) (fun _ => rfl)
      have h0 := hw.tk0 f0
      have g0 : GLe w [] (w.modCmd c fun x => { x with ready := rest }) [] :=
        GLe.of_same [] (fun l => G_modCmd_same l w c _ (fun _ => rfl) (fun _ => rfl)) rfl
      simp only at h
      split at h
      · cases h
      · rename_i w1 hrt
        have k1 : GLe _ [] w1 [] := hrG _ _ _ _ _ hrt h0
        exact (g0.trans k1).trans (ih c w1 w' h (hrT _ _ _ _ _ hrt h0).1)
      · rename_i w1 hrt
        have k1 : GLe _ [] w1 [] := hrG _ _ _ _ _ hrt h0
        exact (g0.trans k1).trans (ih c w1 w' h (hrT _ _ _ _ _ hrt h0).1)
      · rename_i w1 hrt
        obtain ⟨t, hget, hlen, hb⟩ := hrG _ _ _ _ _ hrt h0
        have hl1 := (hrT _ _ _ _ _ hrt h0).1
        have hf := finishTask_g c tid w1 t hget
        have k12 : GLe (w.modCmd c fun x => { x with ready := rest }) [] (finishTask c tid w1) [] := by
          refine ⟨by rw [hf.1]; exact hlen, ?_⟩
          intro l
          have a := hb l
          have b := hf.2 l
          have hfr : fresh (w.modCmd c fun x => { x with ready := rest }) (finishTask c tid w1) l =
              fresh (w.modCmd c fun x => { x with ready := rest }) w1 l := by unfold fresh; rw [hf.1]
          simp only [List.count_nil, Nat.zero_add]
          rw [hfr]
          omega
        exact (g0.trans k12).trans (ih c _ w' h (finishTask_hl c tid w1 hl1).1)
      · rename_i w1 hrt
        have k1 : GLe _ [] w1 [] := hrG _ _ _ _ _ hrt h0
        have hl1 := (hrT _ _ _ _ _ hrt h0).1
        exact ((g0.trans k1).trans ((dec_finishTask c tid w1).toGLe [])).trans
          (ih c _ w' h (finishTask_hl c tid w1 hl1).1)

theorem settleLoop_g (runTask) (hrT : RunT runTask) (hrG : RunG runTask) : ∀ (f c : Nat) (w w' : World),
    settleLoop runTask f c w = some w' → HL w → GLe w [] w' [] := by
  intro f
  induction f with
  | zero => intro c w w' h; simp [settleLoop] at h
  | succ f ih =>
    intro c w w' h hw
    unfold settleLoop at h
    simp only at h
    have k0 := (dec_spawnNewTasks c w).toGLe []
    have hl0 := (spawnNewTasks_hl c w hw).1
    split at h
    · simp only [Option.some.injEq] at h; subst h; exact k0
    · split at h
      · cases h
      · rename_i w1 hd
        have k1 := drainReady_g runTask hrT hrG _ c _ w1 hd hl0
        have hl1 := (drainReady_hl runTask hrT _ c _ w1 hd hl0).1
        exact (k0.trans k1).trans (ih c w1 w' h hl1)

theorem runUntilSettledF_g (runTask) (hrT : RunT runTask) (hrG : RunG runTask) : SettleG (runUntilSettledF runTask) := by
  intro c w w' h hw
  unfold runUntilSettledF at h
  split at h
  · simp only [Option.some.injEq] at h
    subst h
    have d1 : Dec w ((w.cmd c).tasks.values.foldl (fun w t => w.dropTask t) w) :=
      foldl_dec _ (fun W t => dec_World_dropTask W t) _ _
    refine (d1.toGLe []).trans (Dec.toGLe (dec_modCmd_le _ c _ ?_) [])
    intro x l
    simp [cmdCnt, cnt, Slab.values]
  · exact settleLoop_g runTask hrT hrG _ c w w' h hw

theorem pollNextF_g (settle) (hsT : SettleT settle) (hsG : SettleG settle) : PnG (pollNextF settle) := by
  intro wk c w r w' h hw
  unfold pollNextF at h
  simp only at h
  have f0 : TK0 w (w.modCmd c fun x => { x with waker := some wk }) := tk_modCmd w c _ (fun _ => rfl) (fun _ => rfl)
  have h0 := hw.tk0 f0
  have g0 : GLe w [] (w.modCmd c fun x => { x with waker := some wk }) [] :=
    GLe.of_same [] (fun l => G_modCmd_same l w c _ (fun _ => rfl) (fun _ => rfl)) rfl
  split at h
  · cases h
  · rename_i w1 hs1
    have k1 := hsG _ _ _ hs1 h0
    have hl1 := (hsT _ _ _ hs1 h0).1
    have g01 := g0.trans k1
    split at h
    · simp only [Option.some.injEq, Prod.mk.injEq] at h
      obtain ⟨_, rfl⟩ := h
      exact g01.trans (GLe.of_same [] (fun l => G_modCmd_same l w1 c _ (fun _ => rfl) (fun _ => rfl)) rfl)
    · split at h
      · simp only [Option.some.injEq, Prod.mk.injEq] at h
        obtain ⟨_, rfl⟩ := h
        exact g01.trans (GLe.of_same [] (fun l => G_modCmd_same l w1 c _ (fun _ => rfl) (fun _ => rfl)) rfl)
      · split at h
        · cases h
        · rename_i w2 hs2
          have k2 := hsG _ _ _ hs2 hl1
          split at h <;> (simp only [Option.some.injEq, Prod.mk.injEq] at h; obtain ⟨_, rfl⟩ := h; exact g01.trans k2)

theorem pollAt_g : ∀ d, PollG (pollAt d)
  | 0 => by intro wk p b w r w' h; simp [pollAt] at h
  | d + 1 => by
    intro wk p b w r w' h hw hb
    have hrT : RunT (runTaskF (pollAt d)) := runTaskF_hl _ (pollAt_hl d)
    have hrG : RunG (runTaskF (pollAt d)) := runTaskF_g _ (pollAt_hl d) (pollAt_g d)
    have hsT := runUntilSettledF_hl _ hrT
    have hsG := runUntilSettledF_g _ hrT hrG
    exact pollBlock_ggood _ (pollNextF_hl _ hsT) (pollNextF_g _ hsT hsG) loopFuel wk p b w r w' h hw hb

theorem runTask_g : RunG runTask := runTaskF_g _ (pollAt_hl depthFuel) (pollAt_g depthFuel)
theorem runUntilSettled_g : SettleG runUntilSettled := runUntilSettledF_g _ runTask_hl runTask_g

end M.Rt
