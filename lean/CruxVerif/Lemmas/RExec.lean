/- In-range-ness through the command executor, the knot, command building, the shell's operations and the direct host. -/
import CruxVerif.Lemmas.RPoll
namespace M.Rt

theorem pollBlock_rgood (pn) (hpn : PnW pn) (hpx : PnX pn) : ∀ f, RGood pn f
  | 0 => by intro wk p b w r w' h; simp [pollBlock] at h
  | f + 1 => rgood_succ pn hpn hpx f (pollBlock_rgood pn hpn hpx f)

def PollW (poll : Waker → Sink → Block → World → Option (PollRes × World)) : Prop :=
  ∀ wk sink b w r w', poll wk sink b w = some (r, w') → WFw w → inRangeB (LL w).1 (LL w).2 b = true →
    WFw w' ∧ (LL w).1 ≤ (LL w').1 ∧ (LL w).2 ≤ (LL w').2 ∧ rangeRes w' r ∧ spawnR w w'
def RunW (runTask : Nat → Nat → World → Option (TaskState × World)) : Prop :=
  ∀ c tid w st w', runTask c tid w = some (st, w') → WFw w → WFw w' ∧ (LL w).1 ≤ (LL w').1 ∧ (LL w).2 ≤ (LL w').2
def SettleW (settle : Nat → World → Option World) : Prop :=
  ∀ c w w', settle c w = some w' → WFw w → WFw w' ∧ (LL w).1 ≤ (LL w').1 ∧ (LL w).2 ≤ (LL w').2

theorem WFw.same {w w' : World} (h : WFw w) (hc : w'.cmds = w.cmds) (hl : LL w' = LL w) : WFw w' := h.tk0_eq (tk_of_cmds hc) hl

theorem runTaskF_w (poll) (hp : PollW poll) : RunW (runTaskF poll) := by
  intro c tid w st w' h hw
  unfold runTaskF at h
  split at h
  · simp only [Option.some.injEq, Prod.mk.injEq] at h; obtain ⟨_, rfl⟩ := h; exact ⟨hw, Nat.le_refl _, Nat.le_refl _⟩
  · rename_i t hg
    have htr := hw.t c t (Slab.mem_values_of_get _ _ _ hg)
    split at h
    · simp only [Option.some.injEq, Prod.mk.injEq] at h; obtain ⟨_, rfl⟩ := h; exact ⟨hw, Nat.le_refl _, Nat.le_refl _⟩
    · dsimp only at h
      have hw0 : WFw ({ w with nextSerial := w.nextSerial + 1 } : World) := hw.same rfl rfl
      split at h
      · cases h
      · rename_i env1 w1 hpoll
        simp only [Option.some.injEq, Prod.mk.injEq] at h
        obtain ⟨_, rfl⟩ := h
        have k := hp _ _ _ _ _ _ hpoll hw0 htr
        exact ⟨k.1, k.2.1, k.2.2.1⟩
      · rename_i b w1 hpoll
        have k := hp _ _ _ _ _ _ hpoll hw0 htr
        have hb : inRangeB (LL w1).1 (LL w1).2 b = true := k.2.2.2.1
        have h2 : WFw (w1.modCmd c fun x => { x with tasks := x.tasks.set tid { t with fut := b } }) := by
          refine k.1.modCmd_gen c _ ?_ ?_
          · intro x t' ht'
            rcases Slab.mem_values_set _ _ _ _ ht' with rfl | hm
            · exact Or.inr hb
            · exact Or.inl hm
          · intro x t' ht'; exact Or.inl ht'
        have fin : ∀ (pf : Nat → Bool), WFw ({ (w1.modCmd c fun x => { x with tasks := x.tasks.set tid { t with fut := b } })
            with woken := (w1.modCmd c fun x => { x with tasks := x.tasks.set tid { t with fut := b } }).woken.filter pf } : World) ∧
            (LL w).1 ≤ (LL w1).1 ∧ (LL w).2 ≤ (LL w1).2 := fun pf => ⟨h2.same rfl rfl, k.2.1, k.2.2.1⟩
        split at h
        · simp only [Option.some.injEq, Prod.mk.injEq] at h; obtain ⟨_, rfl⟩ := h; exact fin _
        · simp only [Option.some.injEq, Prod.mk.injEq] at h; obtain ⟨_, rfl⟩ := h; exact fin _

theorem finishTask_w (c tid : Nat) (w : World) (hw : WFw w) : WFw (finishTask c tid w) ∧ LL (finishTask c tid w) = LL w := by
  unfold finishTask
  simp only
  split
  · exact ⟨hw, rfl⟩
  · rename_i t tasks heq
    have hT : tasks = ((w.cmd c).tasks.remove tid).2 := by rw [heq]
    have h1 : WFw (w.modCmd c fun x => { x with tasks := tasks }) := by
      refine hw.modCmd_gen c _ ?_ ?_
      · intro x t' ht'
        have : t' ∈ (w.cmd c).tasks.values := by
          simp only at ht'; rw [hT] at ht'; exact Slab.mem_values_remove _ _ _ ht'
        exact Or.inr (hw.t c t' this)
      · intro x t' ht'; exact Or.inl ht'
    have hl1 : LL (w.modCmd c fun x => { x with tasks := tasks }) = LL w := rfl
    generalize (w.modCmd c fun x => { x with tasks := tasks }) = w1 at h1 hl1 ⊢
    have h2 : WFw (w1.modMeta t.serial fun m => { m with finished := true, joinWakers := [] }) := h1.same rfl (LL_modMeta _ _ _)
    have h3 := h2.tk0_eq (tk0_wakeAll (w1.getMeta t.serial).joinWakers _) (LL_wakeAll _ _)
    exact ⟨WFw_World_dropTask _ t h3, by rw [LL_World_dropTask, LL_wakeAll, LL_modMeta]; exact hl1⟩

theorem spawnNewTasks_w (c : Nat) (w : World) (hw : WFw w) : WFw (spawnNewTasks c w) ∧ LL (spawnNewTasks c w) = LL w := by
  unfold spawnNewTasks
  have h0 : WFw (w.modCmd c fun x => { x with spawnQ := [] }) := by
    refine hw.modCmd_gen c _ ?_ ?_
    · intro x t' ht'; exact Or.inl ht'
    · intro x t' ht'; cases ht'
  have fold : ∀ (l : List Task) (W : World), WFw W → (∀ t ∈ l, inR (LL W) t.fut) →
      WFw (l.foldl (fun w t => w.modCmd c fun x => { x with tasks := (x.tasks.insert t).2, ready := x.ready ++ [(x.tasks.insert t).1] }) W) ∧
      LL (l.foldl (fun w t => w.modCmd c fun x => { x with tasks := (x.tasks.insert t).2, ready := x.ready ++ [(x.tasks.insert t).1] }) W) = LL W := by
    intro l
    induction l with
    | nil => intro W h _; exact ⟨h, rfl⟩
    | cons t l ih =>
      intro W h hl
      simp only [List.foldl_cons]
      have h1 : WFw (W.modCmd c fun x => { x with tasks := (x.tasks.insert t).2, ready := x.ready ++ [(x.tasks.insert t).1] }) := by
        refine h.modCmd_gen c _ ?_ ?_
        · intro x t' ht'
          rcases Slab.mem_values_insert _ _ _ ht' with rfl | hm
          · exact Or.inr (hl _ (by simp))
          · exact Or.inl hm
        · intro x t' ht'; exact Or.inl ht'
      have := ih _ h1 (fun x hx => hl x (by simp [hx]))
      exact ⟨this.1, this.2⟩
  exact fold (w.cmd c).spawnQ _ h0 (hw.s c)

theorem drainReady_w (runTask) (hr : RunW runTask) : ∀ (f c : Nat) (w w' : World), drainReady runTask f c w = some w' → WFw w →
    WFw w' ∧ (LL w).1 ≤ (LL w').1 ∧ (LL w).2 ≤ (LL w').2 := by
  intro f
  induction f with
  | zero => intro c w w' h; simp [drainReady] at h
  | succ f ih =>
    intro c w w' h hw
    unfold drainReady at h
    split at h
    · simp only [Option.some.injEq] at h; subst h; exact ⟨hw, Nat.le_refl _, Nat.le_refl _⟩
    · rename_i tid rest _
      have h0 : WFw (w.modCmd c fun x => { x with ready := rest }) :=
        hw.modCmd_gen c _ (fun _ _ h => Or.inl h) (fun _ _ h => Or.inl h)
      simp only at h
      split at h
      · cases h
      · rename_i w1 hrt
        have r := hr _ _ _ _ _ hrt h0
        have := ih c w1 w' h r.1
        exact ⟨this.1, Nat.le_trans r.2.1 this.2.1, Nat.le_trans r.2.2 this.2.2⟩
      · rename_i w1 hrt
        have r := hr _ _ _ _ _ hrt h0
        have := ih c w1 w' h r.1
        exact ⟨this.1, Nat.le_trans r.2.1 this.2.1, Nat.le_trans r.2.2 this.2.2⟩
      · rename_i w1 hrt
        have r := hr _ _ _ _ _ hrt h0
        have fi := finishTask_w c tid w1 r.1
        have := ih c _ w' h fi.1
        rw [fi.2] at this
        exact ⟨this.1, Nat.le_trans r.2.1 this.2.1, Nat.le_trans r.2.2 this.2.2⟩
      · rename_i w1 hrt
        have r := hr _ _ _ _ _ hrt h0
        have fi := finishTask_w c tid w1 r.1
        have := ih c _ w' h fi.1
        rw [fi.2] at this
        exact ⟨this.1, Nat.le_trans r.2.1 this.2.1, Nat.le_trans r.2.2 this.2.2⟩

theorem settleLoop_w (runTask) (hr : RunW runTask) : ∀ (f c : Nat) (w w' : World), settleLoop runTask f c w = some w' → WFw w →
    WFw w' ∧ (LL w).1 ≤ (LL w').1 ∧ (LL w).2 ≤ (LL w').2 := by
  intro f
  induction f with
  | zero => intro c w w' h; simp [settleLoop] at h
  | succ f ih =>
    intro c w w' h hw
    unfold settleLoop at h
    simp only at h
    have k0 := spawnNewTasks_w c w hw
    split at h
    · simp only [Option.some.injEq] at h; subst h; rw [k0.2]; exact ⟨k0.1, Nat.le_refl _, Nat.le_refl _⟩
    · split at h
      · cases h
      · rename_i w1 hd
        have d := drainReady_w runTask hr _ c _ w1 hd k0.1
        have := ih c w1 w' h d.1
        rw [k0.2] at d
        exact ⟨this.1, Nat.le_trans d.2.1 this.2.1, Nat.le_trans d.2.2 this.2.2⟩

theorem runUntilSettledF_w (runTask) (hr : RunW runTask) : SettleW (runUntilSettledF runTask) := by
  intro c w w' h hw
  unfold runUntilSettledF at h
  split at h
  · simp only [Option.some.injEq] at h
    subst h
    have hP : ∀ (l : List Task) (W : World), WFw W → WFw (l.foldl (fun w t => w.dropTask t) W) ∧
        LL (l.foldl (fun w t => w.dropTask t) W) = LL W := by
      intro l
      induction l with
      | nil => intro W h; exact ⟨h, rfl⟩
      | cons t l ih =>
        intro W h
        simp only [List.foldl_cons]
        have := ih _ (WFw_World_dropTask W t h)
        exact ⟨this.1, this.2.trans (LL_World_dropTask W t)⟩
    have h1 := hP (w.cmd c).tasks.values w hw
    refine ⟨h1.1.modCmd_gen c _ ?_ ?_, ?_, ?_⟩
    · intro x t' ht'; simp [Slab.values] at ht'
    · intro x t' ht'; exact Or.inl ht'
    · rw [LL_modCmd, h1.2]; exact Nat.le_refl _
    · rw [LL_modCmd, h1.2]; exact Nat.le_refl _
  · exact settleLoop_w runTask hr _ c w w' h hw

theorem pollNextF_w (settle) (hs : SettleW settle) : PnW (pollNextF settle) := by
  intro wk c w r w' h hw
  unfold pollNextF at h
  simp only at h
  have h0 : WFw (w.modCmd c fun x => { x with waker := some wk }) :=
    hw.modCmd_gen c _ (fun _ _ h => Or.inl h) (fun _ _ h => Or.inl h)
  split at h
  · cases h
  · rename_i w1 hs1
    have s1 := hs _ _ _ hs1 h0
    rw [LL_modCmd] at s1
    split at h
    · simp only [Option.some.injEq, Prod.mk.injEq] at h
      obtain ⟨_, rfl⟩ := h
      exact ⟨s1.1.modCmd_gen c _ (fun _ _ h => Or.inl h) (fun _ _ h => Or.inl h), s1.2.1, s1.2.2⟩
    · split at h
      · simp only [Option.some.injEq, Prod.mk.injEq] at h
        obtain ⟨_, rfl⟩ := h
        exact ⟨s1.1.modCmd_gen c _ (fun _ _ h => Or.inl h) (fun _ _ h => Or.inl h), s1.2.1, s1.2.2⟩
      · split at h
        · cases h
        · rename_i w2 hs2
          have s2 := hs _ _ _ hs2 s1.1
          have fin : w' = w2 := by
            split at h <;> (simp only [Option.some.injEq, Prod.mk.injEq] at h; exact h.2.symm)
          subst fin
          exact ⟨s2.1, Nat.le_trans s1.2.1 s2.2.1, Nat.le_trans s1.2.2 s2.2.2⟩

theorem pollAt_w : ∀ d, PollW (pollAt d)
  | 0 => by intro wk p b w r w' h; simp [pollAt] at h
  | d + 1 => by
    intro wk p b w r w' h
    exact pollBlock_rgood _ (pollNextF_w _ (runUntilSettledF_w _ (runTaskF_w _ (pollAt_w d))))
      (pollNextF_x _ (runUntilSettledF_x _ (runTaskF_x _ (pollAt_x d)))) loopFuel wk p b w r w' h

theorem runTask_w : RunW runTask := runTaskF_w _ (pollAt_w depthFuel)
theorem runUntilSettled_w : SettleW runUntilSettled := runUntilSettledF_w _ runTask_w
theorem pollNext_w : PnW pollNext := pollNextF_w _ runUntilSettled_w

end M.Rt
