/-
The hosting forest is well-founded by command index: every command a block of command `p` hosts has an index BELOW `p`
(`instantiate` builds hosted commands before their hosts). Consequence (HostLt.lean): whatever a poll of a task of `p`
runs or drops recursively are commands below `p` — it never touches the task slab of `p` itself or of any command above.
This file: the predicate, the world invariant `HL`, the frames `PT` (poll) and `RT` (run / drop).
-/
import CruxVerif.Lemmas.TasksFrame
namespace M.Rt

mutual
def hostsLtI (p : Nat) : Instr → Bool
  | .host c _ => decide (c < p)
  | .stream _ _ _ _ body => hostsLtIs p body
  | .spawn _ body => hostsLtIs p body
  | .handoff _ _ _ body => hostsLtIs p body
  | .join a b => hostsLtIs p a && hostsLtIs p b
  | .select a b => hostsLtIs p a && hostsLtIs p b
  | _ => true
def hostsLtIs (p : Nat) : List Instr → Bool
  | [] => true
  | i :: is => hostsLtI p i && hostsLtIs p is
end

mutual
def hostsLtB (p : Nat) : Block → Bool
  | .mk _ cur rest => hostsLtP p cur && hostsLtIs p rest
def hostsLtP (p : Nat) : Pend → Bool
  | .host c _ => decide (c < p)
  | .streamWait _ _ _ _ body => hostsLtIs p body
  | .streamBody _ _ _ _ body inner => hostsLtIs p body && hostsLtB p inner
  | .join a b _ _ => hostsLtB p a && hostsLtB p b
  | .select a b => hostsLtB p a && hostsLtB p b
  | _ => true
end

-- host-free code hosts nothing, in particular nothing at or above `p`
mutual
theorem hostsLtI_of_free (p : Nat) : (i : Instr) → hostFreeI i = true → hostsLtI p i = true
  | .host _ _, h => by simp [hostFreeI] at h
  | .stream _ _ _ _ body, h => by simp only [hostFreeI] at h; simp only [hostsLtI]; exact hostsLtIs_of_free p body h
  | .spawn _ body, h => by simp only [hostFreeI] at h; simp only [hostsLtI]; exact hostsLtIs_of_free p body h
  | .handoff _ _ _ body, h => by simp only [hostFreeI] at h; simp only [hostsLtI]; exact hostsLtIs_of_free p body h
  | .join a b, h => by
    simp only [hostFreeI, Bool.and_eq_true] at h
    simp only [hostsLtI, Bool.and_eq_true]; exact ⟨hostsLtIs_of_free p a h.1, hostsLtIs_of_free p b h.2⟩
  | .select a b, h => by
    simp only [hostFreeI, Bool.and_eq_true] at h
    simp only [hostsLtI, Bool.and_eq_true]; exact ⟨hostsLtIs_of_free p a h.1, hostsLtIs_of_free p b h.2⟩
  | .emit _ _, _ | .notify _ _, _ | .req _ _ _, _ | .await _, _ | .abortTask _, _ | .selfwake _, _ | .abortCmd _, _ => by
    simp [hostsLtI]
theorem hostsLtIs_of_free (p : Nat) : (is : List Instr) → hostFreeIs is = true → hostsLtIs p is = true
  | [], _ => rfl
  | i :: is, h => by
    simp only [hostFreeIs, Bool.and_eq_true] at h
    simp only [hostsLtIs, Bool.and_eq_true]; exact ⟨hostsLtI_of_free p i h.1, hostsLtIs_of_free p is h.2⟩
end

/-- the world invariant: every stored task of every command hosts only commands below its own -/
structure HL (w : World) : Prop where
  tasks : ∀ q, ∀ t ∈ (w.cmd q).tasks.values, hostsLtB q t.fut = true
  spawn : ∀ q, ∀ t ∈ (w.cmd q).spawnQ, hostsLtB q t.fut = true

/-- frame of a poll of a task of command `p`: slabs of `p` and above are untouched; only `p`'s spawn queue grows, by tasks
    that host below `p` -/
structure PT (p : Nat) (w w' : World) : Prop where
  tasks : ∀ q, p ≤ q → (w'.cmd q).tasks = (w.cmd q).tasks
  spawn : ∀ q t, p ≤ q → t ∈ (w'.cmd q).spawnQ → t ∈ (w.cmd q).spawnQ ∨ (q = p ∧ hostsLtB p t.fut = true)

/-- frame of running / dropping command `c`: everything strictly above `c` is untouched -/
structure RT (c : Nat) (w w' : World) : Prop where
  tasks : ∀ q, c < q → (w'.cmd q).tasks = (w.cmd q).tasks
  spawn : ∀ q t, c < q → t ∈ (w'.cmd q).spawnQ → t ∈ (w.cmd q).spawnQ

theorem PT.refl (p : Nat) (w : World) : PT p w w := ⟨fun _ _ => rfl, fun _ _ _ h => Or.inl h⟩
theorem PT.trans {p : Nat} {w1 w2 w3 : World} (h12 : PT p w1 w2) (h23 : PT p w2 w3) : PT p w1 w3 :=
  ⟨fun q hq => (h23.tasks q hq).trans (h12.tasks q hq), fun q t hq h => by
    rcases h23.spawn q t hq h with h | h
    · exact h12.spawn q t hq h
    · exact Or.inr h⟩

theorem RT.refl (c : Nat) (w : World) : RT c w w := ⟨fun _ _ => rfl, fun _ _ _ h => h⟩
theorem RT.trans {c : Nat} {w1 w2 w3 : World} (h12 : RT c w1 w2) (h23 : RT c w2 w3) : RT c w1 w3 :=
  ⟨fun q hq => (h23.tasks q hq).trans (h12.tasks q hq), fun q t hq h => h12.spawn q t hq (h23.spawn q t hq h)⟩
theorem RT.mono {c c' : Nat} (h : c ≤ c') {w w' : World} (hr : RT c w w') : RT c' w w' :=
  ⟨fun q hq => hr.tasks q (by omega), fun q t hq ht => hr.spawn q t (by omega) ht⟩

/-- running something below `p` is within the frame of a poll at `p` -/
theorem RT.toPT {c p : Nat} (h : c < p) {w w' : World} (hr : RT c w w') : PT p w w' :=
  ⟨fun q hq => hr.tasks q (by omega), fun q t hq ht => Or.inl (hr.spawn q t (by omega) ht)⟩

theorem TKp.toPT {New : Nat → Task → Prop} {p : Nat} {w w' : World} (h : TKp New w w')
    (hn : ∀ q t, New q t → q = p ∧ hostsLtB p t.fut = true) : PT p w w' :=
  ⟨fun q _ => h.tasks q, fun q t _ ht => (h.spawn q t ht).imp id (hn q t)⟩

theorem TKp.toRT {New : Nat → Task → Prop} {c : Nat} {w w' : World} (h : TKp New w w') (hn : ∀ q t, New q t → False) :
    RT c w w' :=
  ⟨fun q _ => h.tasks q, fun q t _ ht => (h.spawn q t ht).elim id (fun x => (hn q t x).elim)⟩

/-- a frame step keeps the invariant when what it adds hosts below its command -/
theorem HL.tk {New : Nat → Task → Prop} {w w' : World} (h : HL w) (f : TKp New w w')
    (hn : ∀ q t, New q t → hostsLtB q t.fut = true) : HL w' :=
  ⟨fun q t ht => h.tasks q t (by rw [← f.tasks q]; exact ht), fun q t ht => by
    rcases f.spawn q t ht with ht | ht
    · exact h.spawn q t ht
    · exact hn q t ht⟩

/-- the "nothing new" instance -/
abbrev TK0 := TKp (fun _ _ => False)

theorem HL.tk0 {w w' : World} (h : HL w) (f : TK0 w w') : HL w' := h.tk f (fun _ _ x => x.elim)

end M.Rt
