/- Quiescence at the return of a Core call, flat apps. Part 4: the executor's loops, `update`, the event loop, the hosts. -/
import CruxVerif.Lemmas.QCore
namespace M.Rt

theorem QI.weaken {k : Core} (h : QI k none) (s : Option Nat) : QI k s :=
  ⟨h.wf, h.hf, h.th, h.sh, h.host, h.spawnIn, fun c hc hal => (h.q c hc hal).elim Or.inl (fun ⟨_, he, _⟩ => by cases he), h.flat⟩

theorem QI.allQ {k : Core} (h : QI k none) (c : Nat) (hc : c < k.w.cmds.length) (hal : (k.w.cmd c).alive = true) :
    Qc k.execTasks k.w c := (h.q c hc hal).elim id (fun ⟨_, he, _⟩ => by cases he)

theorem QI.popSpawn {k : Core} (hk : QI k none) (t : ExecTask) (rest : List ExecTask) (hsp : k.w.execSpawn = t :: rest) :
    QI { k with w := { k.w with execSpawn := rest }, execTasks := (k.execTasks.insert t).2 } (some (k.execTasks.insert t).1) := by
  have ht : execHF t = true := hk.sh t (by rw [hsp]; simp)
  have hself := Slab.get_insert_self k.execTasks t hk.wf
  have hold : ∀ e x, hostedBy k.execTasks x e → hostedBy (k.execTasks.insert t).2 x e := by
    intro e x hx
    unfold hostedBy at hx ⊢
    have : (k.execTasks.insert t).1 ≠ e := Slab.insert_ne_occupied _ _ _ hk.wf (by rw [hx]; rfl)
    rw [Slab.get_insert_other _ _ _ (Ne.symm this)]; exact hx
  refine ⟨Slab.wf_insert _ _ hk.wf, fun c => ⟨(hk.hf c).t, (hk.hf c).s⟩, ?_, ?_, ?_, ?_, ?_, hk.flat⟩
  · intro x hx
    rcases Slab.mem_values_insert _ _ _ hx with rfl | hx
    · exact ht
    · exact hk.th x hx
  · intro x hx
    exact hk.sh x (by rw [hsp]; simp [hx])
  · intro e x hx
    show x < k.w.cmds.length
    by_cases ee : e = (k.execTasks.insert t).1
    · subst ee
      unfold hostedBy at hx
      rw [hself] at hx
      cases hx
      exact hk.spawnIn x (by rw [hsp]; simp)
    · unfold hostedBy at hx
      rw [Slab.get_insert_other _ _ _ ee] at hx
      exact hk.host e x hx
  · intro x hx
    exact hk.spawnIn x (by rw [hsp]; simp [show ExecTask.cmd x ∈ rest from hx])
  · intro c hc hal
    have q := hk.allQ c hc hal
    by_cases hcs : t = .cmd c
    · exact Or.inr ⟨_, rfl, by unfold hostedBy; rw [hself, hcs]⟩
    · refine Or.inl (q.transport rfl rfl ?_ (fun e => hold e c))
      rintro (⟨e, he, hr'⟩ | h')
      · exact Or.inl ⟨e, hold e c he, hr'⟩
      · rw [hsp] at h'
        simp only [List.mem_cons] at h'
        rcases h' with h' | h'
        · exact absurd h'.symm hcs
        · exact Or.inr h'

theorem QI.popReady {k : Core} (hk : QI k none) (etid : Nat) (rest : List Nat) (hrd : k.w.execReady = etid :: rest) :
    QI { k with w := { k.w with execReady := rest } } (some etid) := by
  refine ⟨hk.wf, fun c => ⟨(hk.hf c).t, (hk.hf c).s⟩, hk.th, hk.sh, hk.host, hk.spawnIn, ?_, hk.flat⟩
  intro c hc hal
  have q := hk.allQ c hc hal
  by_cases hh : hostedBy k.execTasks c etid
  · exact Or.inr ⟨etid, rfl, hh⟩
  · refine Or.inl (q.transport rfl rfl ?_ (fun _ h => h))
    rintro (⟨e, he, hr'⟩ | h')
    · rw [hrd] at hr'
      simp only [List.mem_cons] at hr'
      rcases hr' with rfl | hr'
      · exact absurd he hh
      · exact Or.inl ⟨e, he, hr'⟩
    · exact Or.inr h'

theorem execDrainSpawn_q : ∀ (f : Nat) (k : Core) (d : Bool) (k' : Core) (d' : Bool),
    execDrainSpawn f k d = some (k', d') → QI k none → QI k' none := by
  intro f
  induction f with
  | zero => intro k d k' d' h; simp [execDrainSpawn] at h
  | succ f ih =>
    intro k d k' d' h hk
    unfold execDrainSpawn at h
    split at h
    · simp only [Option.some.injEq, Prod.mk.injEq] at h; obtain ⟨rfl, _⟩ := h; exact hk
    · rename_i t rest hsp
      simp only at h
      split at h
      · cases h
      · rename_i st k1 hr
        exact ih k1 true k' d' h (execRunTask_q _ _ _ _ hr (hk.popSpawn t rest hsp))

theorem execDrainReady_q : ∀ (f : Nat) (k : Core) (d : Bool) (k' : Core) (d' : Bool),
    execDrainReady f k d = some (k', d') → QI k none → QI k' none := by
  intro f
  induction f with
  | zero => intro k d k' d' h; simp [execDrainReady] at h
  | succ f ih =>
    intro k d k' d' h hk
    unfold execDrainReady at h
    split at h
    · simp only [Option.some.injEq, Prod.mk.injEq] at h; obtain ⟨rfl, _⟩ := h; exact hk
    · rename_i etid rest hrd
      have k0 := hk.popReady etid rest hrd
      split at h
      · cases h
      · rename_i k1 hr
        exact ih k1 d k' d' h (execRunTask_q _ _ _ _ hr k0)
      · rename_i st k1 _ hr
        exact ih k1 true k' d' h (execRunTask_q _ _ _ _ hr k0)

theorem runAll_q : ∀ (f : Nat) (k k' : Core), runAll f k = some k' → QI k none → QI k' none := by
  intro f
  induction f with
  | zero => intro k k' h; simp [runAll] at h
  | succ f ih =>
    intro k k' h hk
    unfold runAll at h
    split at h
    · cases h
    · rename_i k1 d1 h1
      have s1 := execDrainSpawn_q _ _ _ _ _ h1 hk
      split at h
      · cases h
      · rename_i k2 d2 h2
        have s2 := execDrainReady_q _ _ _ _ _ h2 s1
        split at h
        · exact ih k2 k' h s2
        · simp only [Option.some.injEq] at h; subst h; exact s2

/-! the executor's queues are empty when `run_all` returns -/

theorem execDrainSpawn_idle : ∀ (f : Nat) (k : Core) (k' : Core), execDrainSpawn f k false = some (k', false) →
    k' = k ∧ k.w.execSpawn = [] := by
  intro f
  cases f with
  | zero => intro k k' h; simp [execDrainSpawn] at h
  | succ f =>
    intro k k' h
    unfold execDrainSpawn at h
    split at h
    · rename_i hsp
      simp only [Option.some.injEq, Prod.mk.injEq] at h
      exact ⟨h.1.symm, hsp⟩
    · simp only at h
      split at h
      · cases h
      · rename_i st k1 hr
        -- from here on the flag is `true` and stays so
        have mono : ∀ (f : Nat) (k k' : Core) (d' : Bool), execDrainSpawn f k true = some (k', d') → d' = true := by
          intro f
          induction f with
          | zero => intro k k' d' h; simp [execDrainSpawn] at h
          | succ f ih =>
            intro k k' d' h
            unfold execDrainSpawn at h
            split at h
            · simp only [Option.some.injEq, Prod.mk.injEq] at h; exact h.2.symm
            · simp only at h
              split at h
              · cases h
              · exact ih _ _ _ h
        have := mono _ _ _ _ h
        cases this

theorem execDrainReady_empty : ∀ (f : Nat) (k : Core) (d : Bool) (k' : Core) (d' : Bool),
    execDrainReady f k d = some (k', d') → k'.w.execReady = [] := by
  intro f
  induction f with
  | zero => intro k d k' d' h; simp [execDrainReady] at h
  | succ f ih =>
    intro k d k' d' h
    unfold execDrainReady at h
    split at h
    · rename_i hr
      simp only [Option.some.injEq, Prod.mk.injEq] at h; obtain ⟨rfl, _⟩ := h; exact hr
    · split at h
      · cases h
      · exact ih _ _ _ _ h
      · exact ih _ _ _ _ h

theorem execDrainReady_true : ∀ (f : Nat) (k k' : Core) (d' : Bool), execDrainReady f k true = some (k', d') → d' = true := by
  intro f
  induction f with
  | zero => intro k k' d' h; simp [execDrainReady] at h
  | succ f ih =>
    intro k k' d' h
    unfold execDrainReady at h
    split at h
    · simp only [Option.some.injEq, Prod.mk.injEq] at h; exact h.2.symm
    · split at h
      · cases h
      · exact ih _ _ _ h
      · exact ih _ _ _ h

/-- a pass of the ready queue that did no work ran only stale ids: the spawn queue is as before -/
theorem execDrainReady_idle : ∀ (f : Nat) (k : Core) (k' : Core), execDrainReady f k false = some (k', false) →
    k'.w.execSpawn = k.w.execSpawn := by
  intro f
  induction f with
  | zero => intro k k' h; simp [execDrainReady] at h
  | succ f ih =>
    intro k k' h
    unfold execDrainReady at h
    split at h
    · simp only [Option.some.injEq, Prod.mk.injEq] at h; obtain ⟨rfl, _⟩ := h; rfl
    · rename_i etid rest _
      split at h
      · cases h
      · rename_i k1 hr
        have := ih k1 k' h
        rw [this]
        -- a missing task: nothing but the pop happened
        unfold execRunTask at hr
        split at hr
        · simp only [Option.some.injEq, Prod.mk.injEq] at hr; obtain ⟨_, rfl⟩ := hr; rfl
        · split at hr <;> simp at hr
        · split at hr <;> simp at hr
      · rename_i st k1 _ hr
        have := execDrainReady_true _ _ _ _ h
        cases this

theorem runAll_empty : ∀ (f : Nat) (k k' : Core), runAll f k = some k' → k'.w.execSpawn = [] ∧ k'.w.execReady = [] := by
  intro f
  induction f with
  | zero => intro k k' h; simp [runAll] at h
  | succ f ih =>
    intro k k' h
    unfold runAll at h
    split at h
    · cases h
    · rename_i k1 d1 h1
      split at h
      · cases h
      · rename_i k2 d2 h2
        split at h
        · exact ih k2 k' h
        · rename_i hd
          simp only [Option.some.injEq] at h; subst h
          simp only [Bool.or_eq_true, not_or, Bool.not_eq_true] at hd
          obtain ⟨rfl, rfl⟩ := hd
          have a := execDrainSpawn_idle _ _ _ h1
          have b := execDrainReady_idle _ _ _ h2
          refine ⟨?_, execDrainReady_empty _ _ _ _ _ h2⟩
          rw [b, a.1]; exact a.2

end M.Rt

namespace M.Rt

def freshCmd (env : Env) (s : Nat) (is : List Instr) : CmdSt :=
  { tasks := ((Slab.empty : Slab Task).insert ⟨s, .mk env .idle is⟩).2, ready := [0], abortFlag := s }

/-- what building a flat command does to the parts of the world the scheduling invariant reads -/
structure NewFlat (env : Env) (w : World) (cid : Nat) (w' : World) : Prop where
  cid : cid = w.cmds.length
  cmds : ∃ is, hostFreeIs is = true ∧ w'.cmds = w.cmds ++ [freshCmd env w.metas.length is]
  metas : w'.metas = w.metas ++ [({} : Meta)]
  ready : w'.execReady = w.execReady
  spawn : w'.execSpawn = w.execSpawn

theorem newCmd_flat (env : Env) (is : List Instr) (w : World) (h : hostFreeIs is = true) :
    NewFlat env w (newCmd env is w).1 (newCmd env is w).2 :=
  ⟨rfl, ⟨is, h, rfl⟩, rfl, rfl, rfl⟩

theorem instantiate_flat (env : Env) : (c : Cmd) → (w : World) → flatCmd c = true →
    NewFlat env w (instantiate env c w).1 (instantiate env c w).2
  | .done, w, _ => by simp only [instantiate]; exact newCmd_flat env _ w rfl
  | .event _ _, w, _ => by simp only [instantiate]; exact newCmd_flat env _ w rfl
  | .notify _ _, w, _ => by simp only [instantiate]; exact newCmd_flat env _ w rfl
  | .req _ _ _, w, _ => by simp only [instantiate]; exact newCmd_flat env _ w rfl
  | .stream _ _ _, w, _ => by simp only [instantiate]; exact newCmd_flat env _ w rfl
  | .chain s n e st tag, w, _ => by simp only [instantiate]; exact newCmd_flat env _ w (chainStart_free s n e st tag)
  | .task is, w, h => by simp only [instantiate]; exact newCmd_flat env _ w h
  | .abortable name c, w, h => by
    simp only [instantiate]
    have := instantiate_flat env c w h
    exact ⟨this.cid, this.cmds, this.metas, this.ready, this.spawn⟩
  | .thenC _ _, _, h => by cases h
  | .andC _ _, _, h => by cases h
  | .all _, _, h => by cases h
  | .mapEf _ _, _, h => by cases h
  | .mapEv _ _, _, h => by cases h

theorem getMeta_append_default (ms : List Meta) (s : Nat) : (ms ++ [({} : Meta)])[s]?.getD {} = ms[s]?.getD {} := by
  by_cases h : s < ms.length
  · rw [List.getElem?_append_left h]
  · rw [List.getElem?_eq_none (Nat.le_of_not_lt h)]
    by_cases e : s = ms.length
    · subst e; simp
    · rw [List.getElem?_eq_none (by simp; omega)]

/-- `update` + spawn of a flat command (and host-free legacy tasks) -/
theorem QI.extend {k : Core} (hk : QI k none) (W : World) (newc : CmdSt) (L : List ExecTask) (lg : List Ev)
    (hcmds : W.cmds = k.w.cmds ++ [newc]) (hmetas : W.metas = k.w.metas ++ [({} : Meta)]) (hr : W.execReady = k.w.execReady)
    (hs : W.execSpawn = k.w.execSpawn ++ L ++ [.cmd k.w.cmds.length]) (hL : ∀ t ∈ L, legacyHF t = true)
    (hnt : ∀ t ∈ newc.tasks.values, hostFreeB t.fut = true) (hns : newc.spawnQ = []) :
    QI { k with w := W, log := lg } none := by
  have hold : ∀ c, c < k.w.cmds.length → W.cmd c = k.w.cmd c := by
    intro c hc; simp only [World.cmd, hcmds]; exact cmd_append_lt _ _ _ hc
  have hnew : W.cmd k.w.cmds.length = newc := by simp [World.cmd, hcmds]
  have hout : ∀ c, k.w.cmds.length < c → W.cmd c = {} := by
    intro c hc; simp only [World.cmd, hcmds]; rw [List.getElem?_eq_none (by simp; omega)]; rfl
  have hlen : W.cmds.length = k.w.cmds.length + 1 := by simp [hcmds]
  have hab : ∀ c, c < k.w.cmds.length → W.aborted c = k.w.aborted c := by
    intro c hc
    simp only [World.aborted, World.getMeta, hold c hc, hmetas]
    rw [getMeta_append_default]
  refine ⟨hk.wf, ?_, hk.th, ?_, ?_, ?_, ?_, hk.flat⟩
  · intro c
    rcases Nat.lt_trichotomy c k.w.cmds.length with h | h | h
    · exact ⟨by rw [hold c h]; exact (hk.hf c).t, by rw [hold c h]; exact (hk.hf c).s⟩
    · subst h; exact ⟨by rw [hnew]; exact hnt, by rw [hnew, hns]; intro t ht; cases ht⟩
    · exact ⟨by rw [hout c h]; intro t ht; simp [Slab.values] at ht, by rw [hout c h]; intro t ht; cases ht⟩
  · intro t ht
    simp only [hs, List.mem_append, List.mem_singleton] at ht
    rcases ht with (ht | ht) | rfl
    · exact hk.sh t ht
    · exact legacyHF_execHF (hL t ht)
    · rfl
  · intro e c hc
    show c < W.cmds.length
    have := hk.host e c hc
    omega
  · intro c hc
    show c < W.cmds.length
    simp only [hs, List.mem_append, List.mem_singleton] at hc
    rcases hc with (hc | hc) | hc
    · have := hk.spawnIn c hc; omega
    · have := hL _ hc; cases this
    · cases hc; omega
  · intro c hc hal
    refine Or.inl ?_
    have hc' : c < k.w.cmds.length + 1 := by rw [← hlen]; exact hc
    by_cases h : c < k.w.cmds.length
    · have q := hk.allQ c h (by rw [← hold c h]; exact hal)
      have sc : sched k.execTasks k.w c → sched k.execTasks W c := by
        rintro (⟨e, he, hr'⟩ | h')
        · exact Or.inl ⟨e, he, by rw [hr]; exact hr'⟩
        · exact Or.inr (by simp only [hs, List.mem_append]; exact Or.inl (Or.inl h'))
      refine ⟨?_, ?_, ?_⟩
      · rcases q.a with s | ⟨e, hw, he⟩
        · exact Or.inl (sc s)
        · exact Or.inr ⟨e, by rw [hold c h]; exact hw, he⟩
      · intro hna hn
        rw [hab c h] at hna
        unfold Nw at hn
        rw [hold c h] at hn
        exact sc (q.b hna hn)
      · rcases q.d with s | hd
        · exact Or.inl (sc s)
        · exact Or.inr (by unfold World.isDoneNow at hd ⊢; rw [hold c h]; exact hd)
    · have e : c = k.w.cmds.length := by omega
      subst e
      have sc : sched k.execTasks W k.w.cmds.length := Or.inr (by simp [hs])
      exact ⟨Or.inl sc, fun _ _ => sc, Or.inl sc⟩

theorem update_q (ev : Ev) (k : Core) (hk : QI k none) : QI (update ev k) none := by
  unfold update
  simp only
  have body : ∀ (c : Cmd) (ls : List (List Instr)) (env : Env), flatCmd c = true → (∀ is ∈ ls, hostFreeIs is = true) →
      QI { k with
        w := { (instantiate env c { k.w with execSpawn := k.w.execSpawn ++ ls.map fun is => ExecTask.legacy (.mk env .idle is) }).2 with
          execSpawn := (instantiate env c { k.w with execSpawn := k.w.execSpawn ++ ls.map fun is => ExecTask.legacy (.mk env .idle is) }).2.execSpawn ++
            [.cmd (instantiate env c { k.w with execSpawn := k.w.execSpawn ++ ls.map fun is => ExecTask.legacy (.mk env .idle is) }).1] },
        log := k.log ++ [ev] } none := by
    intro c ls env hc hls
    have nf := instantiate_flat env c { k.w with execSpawn := k.w.execSpawn ++ ls.map fun is => ExecTask.legacy (.mk env .idle is) } hc
    obtain ⟨is, his, hcm⟩ := nf.cmds
    refine hk.extend _ _ (ls.map fun is => ExecTask.legacy (.mk env .idle is)) _ hcm nf.metas nf.ready ?_ ?_ ?_ rfl
    · show _ ++ _ = _
      rw [nf.spawn, nf.cid]
    · intro t ht
      simp only [List.mem_map] at ht
      obtain ⟨is', his', rfl⟩ := ht
      simp [legacyHF, hostFreeB, hostFreeP, hls is' his']
    · intro t ht
      simp only [freshCmd, Slab.insert, Slab.empty, Slab.values, List.nil_append, List.filterMap_cons, id, List.filterMap_nil,
        List.mem_singleton] at ht
      subst ht
      simp [hostFreeB, hostFreeP, his]
  split
  · rename_i tag c ls hf
    have hm := List.mem_of_find?_eq_some hf
    have := hk.flat _ hm
    exact body c ls _ this.1 this.2
  · exact body .done [] _ rfl (by intro _ h; cases h)

theorem QI.of_fields {k k' : Core} (h : QI k none) (hc : k'.w.cmds = k.w.cmds) (hm : k'.w.metas = k.w.metas)
    (hr : k'.w.execReady = k.w.execReady) (hs : k'.w.execSpawn = k.w.execSpawn) (ht : k'.execTasks = k.execTasks)
    (hp : k'.prog = k.prog) : QI k' none := by
  have hcmd : ∀ c, k'.w.cmd c = k.w.cmd c := fun c => by simp [World.cmd, hc]
  refine ⟨by rw [ht]; exact h.wf, fun c => ⟨by rw [hcmd]; exact (h.hf c).t, by rw [hcmd]; exact (h.hf c).s⟩,
    by rw [ht]; exact h.th, by rw [hs]; exact h.sh, fun e c hh => by rw [hc]; rw [ht] at hh; exact h.host e c hh,
    fun c hh => by rw [hc]; rw [hs] at hh; exact h.spawnIn c hh, ?_, by rw [hp]; exact h.flat⟩
  intro c hcl hal
  rw [hc] at hcl
  rw [hcmd] at hal
  refine Or.inl ?_
  rw [ht]
  exact (h.allQ c hcl hal).transport (hcmd c) hm
    (by rintro (⟨e, he, hr'⟩ | h')
        · exact Or.inl ⟨e, he, by rw [hr]; exact hr'⟩
        · exact Or.inr (by rw [hs]; exact h')) (fun _ h => h)

theorem processLoop_q : ∀ (f : Nat) (k k' : Core), processLoop f k = some k' → QI k none → k.w.execSpawn = [] → k.w.execReady = [] →
    QI k' none ∧ k'.w.execSpawn = [] ∧ k'.w.execReady = [] := by
  intro f
  induction f with
  | zero => intro k k' h; simp [processLoop] at h
  | succ f ih =>
    intro k k' h hk e1 e2
    unfold processLoop at h
    split at h
    · simp only [Option.some.injEq] at h; subst h; exact ⟨hk, e1, e2⟩
    · rename_i ev rest _
      split at h
      · cases h
      · rename_i k1 hr
        have k0 : QI { k with w := { k.w with coreEvents := rest } } none := hk.of_fields rfl rfl rfl rfl rfl rfl
        have r := runAll_q _ _ _ hr (update_q ev _ k0)
        have e := runAll_empty _ _ _ hr
        exact ih k1 k' h r e.1 e.2

theorem process_q (k : Core) (es : List Eff) (k' : Core) (h : process k = some (es, k')) (hk : QI k none) :
    QI k' none ∧ k'.w.execSpawn = [] ∧ k'.w.execReady = [] := by
  unfold process at h
  split at h
  · cases h
  · rename_i k1 h1
    split at h
    · cases h
    · rename_i k2 h2
      simp only [Option.some.injEq, Prod.mk.injEq] at h
      obtain ⟨_, rfl⟩ := h
      have e := runAll_empty _ _ _ h1
      have p := processLoop_q _ _ _ h2 (runAll_q _ _ _ h1 hk) e.1 e.2
      exact ⟨p.1.of_fields rfl rfl rfl rfl rfl rfl, p.2.1, p.2.2⟩

theorem processEvent_q (ev : Ev) (k : Core) (es : List Eff) (k' : Core) (h : processEvent ev k = some (es, k'))
    (hk : QI k none) : QI k' none ∧ k'.w.execSpawn = [] ∧ k'.w.execReady = [] := process_q _ _ _ h (update_q ev k hk)

/-- **Quiescence.** In a state satisfying the scheduling invariant whose executor queues are empty, no live, un-aborted
    command has anything left to do: its ready queue, its spawn queue and its effect and event queues are all empty. -/
theorem QI.quiescent {k : Core} (hk : QI k none) (e1 : k.w.execSpawn = []) (e2 : k.w.execReady = []) (c : Nat)
    (hc : c < k.w.cmds.length) (hal : (k.w.cmd c).alive = true) (hna : k.w.aborted c = false) :
    (k.w.cmd c).ready = [] ∧ (k.w.cmd c).spawnQ = [] ∧ (k.w.cmd c).effects = [] ∧ (k.w.cmd c).events = [] := by
  have q := hk.allQ c hc hal
  have ns : ¬ sched k.execTasks k.w c := by
    rintro (⟨e, _, hr⟩ | h)
    · rw [e2] at hr; cases hr
    · rw [e1] at h; cases h
  have nn : ¬ Nw k.w c := fun hn => ns (q.b hna hn)
  unfold Nw at nn
  simp only [not_or, ne_eq, Decidable.not_not] at nn
  exact nn

end M.Rt
