/-
C13, first clause: what happens to a task's FUTURE (`Meta.taskAlive`, the model's drop guard) when the task finishes, is
cancelled, or its command is aborted — and that nothing else's future is touched.
-/
import CruxVerif.Lemmas.WPoll
import CruxVerif.Lemmas.GPark
import CruxVerif.Model.Futures
namespace M.Rt
open M.Hosts

/-- dropping a host-free block does not touch any task's meta -/
theorem dropBlock_metas (dc : Nat → World → World) (b : Block) (w : World) (hb : hostFreeB b = true) :
    (dropBlock dc b w).metas = w.metas :=
  dropBlock_hf_ind (fun w' => w'.metas = w.metas) (fun _ _ h => h) dc b w hb rfl

/-- `drop(task)`: exactly this task's future goes -/
theorem dropTask_future (w : World) (t : Task) (ht : hostFreeB t.fut = true) (hs : t.serial < w.metas.length) :
    ((w.dropTask t).getMeta t.serial).taskAlive = false ∧
    ∀ s, s ≠ t.serial → (w.dropTask t).getMeta s = w.getMeta s := by
  unfold World.dropTask dropTask
  have hm := dropBlock_metas (fun c w => w.dropCmd c) t.fut
    (w.modMeta t.serial fun m => { m with taskAlive := false, joinWakers := [] }) ht
  constructor
  · rw [getMeta_of_metas hm, getMeta_modMeta_self]
    have : ∃ m, w.metas[t.serial]? = some m := ⟨w.metas[t.serial], by simp [hs]⟩
    obtain ⟨m, hm'⟩ := this
    simp [hm']
  · intro s hne
    rw [getMeta_of_metas hm, getMeta_modMeta_other _ _ _ _ (fun e => hne e.symm)]

theorem dropTask_future_other (w : World) (t : Task) (ht : hostFreeB t.fut = true) :
    ∀ s, s ≠ t.serial → (w.dropTask t).getMeta s = w.getMeta s := by
  intro s hne
  unfold World.dropTask dropTask
  have hm := dropBlock_metas (fun c w => w.dropCmd c) t.fut
    (w.modMeta t.serial fun m => { m with taskAlive := false, joinWakers := [] }) ht
  rw [getMeta_of_metas hm, getMeta_modMeta_other _ _ _ _ (fun e => hne e.symm)]

/-- **a finished or cancelled task's future is dropped, and no other task's** (executor.rs:173-181: remove, mark finished,
    wake join handles, `drop(task)`) -/
theorem finishTask_future (c tid : Nat) (w : World) (t : Task) (hg : (w.cmd c).tasks.get? tid = some t)
    (ht : hostFreeB t.fut = true) (hs : t.serial < w.metas.length) :
    ((finishTask c tid w).getMeta t.serial).taskAlive = false ∧
    (∀ s, s ≠ t.serial → ((finishTask c tid w).getMeta s).taskAlive = (w.getMeta s).taskAlive) := by
  unfold finishTask
  simp only
  split
  · rename_i hr
    have := (Slab.remove_get _ _ _ hg).1
    rw [hr] at this; cases this
  · rename_i t' tasks hr
    have ht' : t' = t := by
      have := (Slab.remove_get _ _ _ hg).1
      rw [hr] at this; simp only [Option.some.injEq] at this; exact this
    subst ht'
    generalize hW : ((w.modCmd c fun c' => { c' with tasks := tasks }).modMeta t'.serial fun m =>
        { m with finished := true, joinWakers := [] }) = W1
    have hlen : t'.serial < W1.metas.length := by
      rw [← hW]; simp only [World.modMeta, World.modCmd, modifyNth_length]; exact hs
    generalize ((w.modCmd c fun c' => { c' with tasks := tasks }).getMeta t'.serial).joinWakers = ks
    have hwm := (wakeAll_lm ks W1).2
    have hd := dropTask_future (W1.wakeAll ks) t' ht (by rw [hwm]; exact hlen)
    refine ⟨hd.1, ?_⟩
    intro s hne
    rw [hd.2 s hne, getMeta_of_metas hwm, ← hW, getMeta_modMeta_other _ _ _ _ (fun e => hne e.symm)]
    rfl

theorem filter_alive_drop : ∀ (ms : List Meta) (s : Nat), s < ms.length → (ms[s]?.getD {}).taskAlive = true →
    ((modifyNth ms s fun m => { m with taskAlive := false, joinWakers := [] }).filter (·.taskAlive)).length + 1 =
      (ms.filter (·.taskAlive)).length
  | [], _, hs, _ => by simp at hs
  | m :: ms, 0, _, ha => by
    simp only [List.getElem?_cons_zero, Option.getD_some] at ha
    simp [modifyNth, ha]
  | m :: ms, s + 1, hs, ha => by
    simp only [List.getElem?_cons_succ] at ha
    simp only [List.length_cons, Nat.add_lt_add_iff_right] at hs
    have := filter_alive_drop ms s hs ha
    simp only [modifyNth, List.filter_cons]
    split
    · simp only [List.length_cons]; omega
    · exact this

/-- the accounting of `M.Hosts.liveFutures`: dropping one live future takes exactly one off the count -/
theorem liveFutures_modMeta_drop (w : World) (s : Nat) (hs : s < w.metas.length) (ha : (w.getMeta s).taskAlive = true) :
    liveFutures (w.modMeta s fun m => { m with taskAlive := false, joinWakers := [] }) + 1 = liveFutures w :=
  filter_alive_drop w.metas s hs ha

/-- … and so does `drop(task)` of a task whose future was alive -/
theorem liveFutures_dropTask (w : World) (t : Task) (ht : hostFreeB t.fut = true) (hs : t.serial < w.metas.length)
    (ha : (w.getMeta t.serial).taskAlive = true) : liveFutures (w.dropTask t) + 1 = liveFutures w := by
  have hm := dropBlock_metas (fun c w => w.dropCmd c) t.fut
    (w.modMeta t.serial fun m => { m with taskAlive := false, joinWakers := [] }) ht
  have : liveFutures (w.dropTask t) =
      liveFutures (w.modMeta t.serial fun m => { m with taskAlive := false, joinWakers := [] }) := by
    unfold liveFutures World.dropTask dropTask
    rw [hm]
  rw [this]
  exact liveFutures_modMeta_drop w t.serial hs ha

/-- a dropped future stays dropped through further drops -/
theorem dropTask_keeps_dropped (w : World) (t : Task) (ht : hostFreeB t.fut = true) (s : Nat) (hs : s < w.metas.length)
    (hd : (w.getMeta s).taskAlive = false) : ((w.dropTask t).getMeta s).taskAlive = false := by
  by_cases e : s = t.serial
  · subst e; exact (dropTask_future w t ht hs).1
  · rw [(dropTask_future_other w t ht) s e]; exact hd

theorem dropTask_metas_length (w : World) (t : Task) (ht : hostFreeB t.fut = true) :
    (w.dropTask t).metas.length = w.metas.length := by
  unfold World.dropTask dropTask
  rw [dropBlock_metas _ _ _ ht]
  simp [World.modMeta, modifyNth_length]

/-- `self.tasks.clear()` of an aborted command: every task future that was stored is dropped -/
theorem dropAll_futures : ∀ (ts : List Task) (w : World), (∀ t ∈ ts, hostFreeB t.fut = true ∧ t.serial < w.metas.length) →
    (∀ t ∈ ts, ((ts.foldl (fun w t => w.dropTask t) w).getMeta t.serial).taskAlive = false) ∧
    (∀ s, s < w.metas.length → (w.getMeta s).taskAlive = false →
      ((ts.foldl (fun w t => w.dropTask t) w).getMeta s).taskAlive = false) ∧
    (ts.foldl (fun w t => w.dropTask t) w).metas.length = w.metas.length
  | [], w, _ => ⟨fun t ht => (nomatch ht), fun _ _ h => h, rfl⟩
  | t :: ts, w, h => by
    have ht := h t (List.mem_cons_self ..)
    have hlen := dropTask_metas_length w t ht.1
    have ih := dropAll_futures ts (w.dropTask t) (fun t' ht' => by
      have := h t' (List.mem_cons_of_mem _ ht'); exact ⟨this.1, by rw [hlen]; exact this.2⟩)
    simp only [List.foldl_cons]
    refine ⟨?_, ?_, by rw [ih.2.2, hlen]⟩
    · intro t' ht'
      rcases List.mem_cons.mp ht' with e | e
      · subst e
        exact ih.2.1 _ (by rw [hlen]; exact ht.2) (dropTask_future w t' ht.1 ht.2).1
      · exact ih.1 t' e
    · intro s hs hd
      exact ih.2.1 s (by rw [hlen]; exact hs) (dropTask_keeps_dropped w t ht.1 s hs hd)

end M.Rt
