/- Completeness of eviction, one request: a task whose request was dropped is evicted by its next poll. -/
import CruxVerif.Lemmas.K2Evict
namespace M.Rt

theorem filter_modifyNth_length {α : Type} (p : α → Bool) (g : α → α) (hg : ∀ a, p (g a) = p a) :
    ∀ (l : List α) (i : Nat), ((modifyNth l i g).filter p).length = (l.filter p).length
  | [], _ => by simp [modifyNth]
  | a :: as, 0 => by
    simp only [modifyNth, List.filter_cons, hg a]
    split <;> simp
  | a :: as, i + 1 => by
    simp only [modifyNth, List.filter_cons]
    have := filter_modifyNth_length p g hg as i
    split <;> simp [this]

/-- changing a leaf without touching its waker slot does not change who holds which waker -/
theorem holders_modLeaf (w : World) (l : Nat) (g : Leaf → Leaf) (hg : ∀ lf, (g lf).waker = lf.waker) (s : Nat) :
    (w.modLeaf l g).holders s = w.holders s := by
  unfold World.holders World.modLeaf
  simp only
  rw [filter_modifyNth_length (fun lf : Leaf => isSerial s lf.waker) g (by intro a; simp [hg a])]

/-- changing a command without touching its waker slot does not change who holds which waker -/
theorem holders_modCmd (w : World) (c : Nat) (g : CmdSt → CmdSt) (hg : ∀ x, (g x).waker = x.waker) (s : Nat) :
    (w.modCmd c g).holders s = w.holders s := by
  unfold World.holders World.modCmd
  simp only
  rw [filter_modifyNth_length (fun x : CmdSt => isSerial s x.waker) g (by intro a; simp [hg a])]

/-- the poll of a block parked at a one-shot request (command API) whose `Request` has been dropped: the future learns that
    its channel is closed, gives up its receiver and registers nothing -/
theorem poll_dropped_request (pn : Waker → Nat → World → Option (NextRes × World)) (f : Nat) (wk : Waker) (sink : Sink)
    (env : Env) (x l : Nat) (rest : List Instr) (w : World) (hq : (w.leaf l).queue = [])
    (hs : (w.leaf l).senderAlive = false) (hl : (w.leaf l).legacy = false) :
    pollBlock pn (f + 1) wk sink (.mk env (.req x l) rest) w = some (.pending (.mk env .reqDead rest), w.dropReceiver l) := by
  conv => lhs; unfold pollBlock
  simp [hq, hs, hl]

/-- **Eviction is complete for a dropped request**: a task suspended at a one-shot request whose `Request` the shell has
    dropped is discarded (`Cancelled`) by its next poll — provided the poll's fresh waker serial is indeed fresh (held nowhere,
    not flagged; `nextSerial` is a counter) and the task has not been aborted. -/
theorem dropped_request_evicts (pn : Waker → Nat → World → Option (NextRes × World)) (f : Nat) (cid tid : Nat) (w : World)
    (t : Task) (env : Env) (x l : Nat) (rest : List Instr)
    (hg : (w.cmd cid).tasks.get? tid = some t) (hfut : t.fut = .mk env (.req x l) rest)
    (hab : (w.getMeta t.serial).aborted = false)
    (hq : (w.leaf l).queue = []) (hs : (w.leaf l).senderAlive = false) (hl : (w.leaf l).legacy = false)
    (hfresh : w.holders w.nextSerial = 0) (hnw : w.woken.contains w.nextSerial = false) :
    (runTaskF (pollBlock pn (f + 1)) cid tid w).map (·.1) = some .cancelled := by
  unfold runTaskF
  simp only [hg, hab, Bool.false_eq_true, if_false]
  have hp := poll_dropped_request pn f (.task cid tid w.nextSerial) (.cmd cid) env x l rest
    { w with nextSerial := w.nextSerial + 1 } hq hs hl
  rw [hfut, hp]
  simp only
  generalize hW1 : (({ w with nextSerial := w.nextSerial + 1 } : World).dropReceiver l) = W1
  have hW1h : W1.holders w.nextSerial = 0 := by
    rw [← hW1]
    have := holders_modLeaf ({ w with nextSerial := w.nextSerial + 1 } : World) l
      (fun lf => { lf with receiverAlive := false, queue := [] }) (fun _ => rfl) w.nextSerial
    exact this.trans hfresh
  have hW1w : W1.woken = w.woken := by rw [← hW1]; rfl
  generalize hg2 : (fun c : CmdSt => { c with tasks := c.tasks.set tid { t with fut := .mk env .reqDead rest } }) = g
  have hgw : ∀ x, (g x).waker = x.waker := by intro x; rw [← hg2]
  have h1 : (W1.modCmd cid g).holders w.nextSerial = 0 := by rw [holders_modCmd W1 cid g hgw]; exact hW1h
  have h2 : (W1.modCmd cid g).woken = w.woken := hW1w
  rw [if_pos]
  · rfl
  · simp only [Bool.and_eq_true, Bool.not_eq_true', beq_iff_eq]
    refine ⟨?_, ?_⟩
    · rw [h2]; exact hnw
    · have : ∀ (W : World) (flt : List Nat), ({ W with woken := flt } : World).holders w.nextSerial = W.holders w.nextSerial := by
        intro W flt; rfl
      rw [this]; exact h1

end M.Rt
