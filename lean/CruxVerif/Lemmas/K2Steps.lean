/- Frame lemmas: every world operation a host-free poll performs is monotone in the sense of `Mono`. -/
import CruxVerif.Lemmas.K2Defs
namespace M.Rt

theorem mono_modCmd (wk : Waker) (w : World) (c : Nat) (f : CmdSt → CmdSt) : Mono wk w (w.modCmd c f) :=
  Mono.of_same rfl rfl rfl

theorem mono_sinkEvent (wk : Waker) (w : World) (s : Sink) (e : Ev) : Mono wk w (w.sinkEvent s e) := by
  cases s <;> exact Mono.of_same rfl rfl rfl

theorem mono_sinkEffect (wk : Waker) (w : World) (s : Sink) (e : Eff) : Mono wk w (w.sinkEffect s e) := by
  cases s <;> exact Mono.of_same rfl rfl rfl

theorem mono_execSpawn (wk : Waker) (w : World) (x : List ExecTask) : Mono wk w { w with execSpawn := x } :=
  Mono.of_same rfl rfl rfl

theorem getMeta_append_left (w : World) (m : Meta) (s : Nat) (h : s < w.metas.length) :
    ({ w with metas := w.metas ++ [m] } : World).getMeta s = w.getMeta s := by
  simp [World.getMeta, List.getElem?_append_left h]

theorem mono_newMeta (wk : Waker) (w : World) : Mono wk w w.newMeta.2 := by
  refine ⟨Nat.le_refl _, by simp [World.newMeta], fun _ _ => Or.inl rfl, ?_, fun _ h => h⟩
  intro s h
  by_cases hs : s < w.metas.length
  · simp only [World.newMeta]; rw [getMeta_append_left w {} s hs]; exact h
  · have : w.metas[s]? = none := List.getElem?_eq_none (by omega)
    simp [World.getMeta, this] at h

theorem getMeta_modMeta_self (w : World) (s : Nat) (f : Meta → Meta) :
    (w.modMeta s f).getMeta s = match w.metas[s]? with | some m => f m | none => {} := by
  simp only [World.getMeta, World.modMeta, modifyNth_get_self]
  cases w.metas[s]? <;> simp

theorem getMeta_modMeta_other (w : World) (s t : Nat) (f : Meta → Meta) (h : s ≠ t) :
    (w.modMeta s f).getMeta t = w.getMeta t := by
  simp only [World.getMeta, World.modMeta, modifyNth_get_other _ _ _ _ h]

/-- changing a join-handle state so that its waker queue only grows -/
theorem mono_modMeta (wk : Waker) (w : World) (s : Nat) (f : Meta → Meta)
    (hf : ∀ m, wk ∈ m.joinWakers → wk ∈ (f m).joinWakers) : Mono wk w (w.modMeta s f) := by
  refine ⟨Nat.le_refl _, by simp [World.modMeta, modifyNth_length], fun _ _ => Or.inl rfl, ?_, fun _ h => h⟩
  intro t h
  by_cases hst : s = t
  · subst hst
    rw [getMeta_modMeta_self]
    simp only [World.getMeta] at h
    cases hm : w.metas[s]? with
    | none => simp [hm] at h
    | some m => simp only [hm, Option.getD_some] at h ⊢; exact hf m h
  · rw [getMeta_modMeta_other _ _ _ _ hst]; exact h

theorem leaf_newLeaf_old (w : World) (wk' : Option Waker) (legacy : Bool) (l : Nat) (h : l < w.leaves.length) :
    (w.newLeaf wk' legacy).2.leaf l = w.leaf l := by
  simp [World.newLeaf, World.leaf, List.getElem?_append_left h]

theorem mono_newLeaf (wk : Waker) (w : World) (wk' : Option Waker) (legacy : Bool) : Mono wk w (w.newLeaf wk' legacy).2 := by
  refine ⟨by simp [World.newLeaf], Nat.le_refl _, ?_, fun _ h => h, fun _ h => h⟩
  intro l hl; left; rw [leaf_newLeaf_old w wk' legacy l hl]

theorem leaf_modLeaf_other (w : World) (l l' : Nat) (f : Leaf → Leaf) (h : l ≠ l') : (w.modLeaf l f).leaf l' = w.leaf l' := by
  simp only [World.leaf, World.modLeaf, modifyNth_get_other _ _ _ _ h]

/-- changing a leaf so that its waker slot keeps its content or receives `wk` -/
theorem mono_modLeaf (wk : Waker) (w : World) (l : Nat) (f : Leaf → Leaf)
    (hf : ∀ lf, (f lf).waker = lf.waker ∨ (f lf).waker = some wk) : Mono wk w (w.modLeaf l f) := by
  refine ⟨by simp [World.modLeaf, modifyNth_length], Nat.le_refl _, ?_, fun _ h => h, fun _ h => h⟩
  intro l' hl'
  by_cases h : l = l'
  · subst h
    rw [World.leaf_modLeaf_self]
    have hget : w.leaves[l]? = some w.leaves[l] := by simp [hl']
    simp only [hget, World.leaf, Option.getD_some]
    exact hf _
  · left; rw [leaf_modLeaf_other _ _ _ _ h]

theorem mono_dropReceiver (wk : Waker) (w : World) (l : Nat) : Mono wk w (w.dropReceiver l) :=
  mono_modLeaf wk w l _ (fun _ => Or.inl rfl)

theorem wake_metas (f : Nat) (wk' : Waker) (w : World) : (wake f wk' w).metas = w.metas := (wake_leaves f wk' w).2

theorem wake_woken : ∀ (f : Nat) (wk' : Waker) (w : World) (s : Nat), s ∈ w.woken → s ∈ (wake f wk' w).woken := by
  intro f
  induction f with
  | zero => intro wk' w s h; cases wk' <;> simpa [wake, World.anomaly] using h
  | succ f ih =>
    intro wk' w s h
    cases wk' with
    | root e => simpa [wake] using h
    | task cid tid serial =>
      unfold wake
      simp only
      split
      · split <;> simp [World.modCmd, h]
      · split <;> (apply ih; simp [World.modCmd, h])

theorem mono_wake (wk wk' : Waker) (w : World) : Mono wk w (w.wake wk') := by
  refine ⟨?_, ?_, ?_, ?_, ?_⟩
  · rw [World.wake_leaves]; exact Nat.le_refl _
  · simp [World.wake, wake_metas]
  · intro l _; left; simp [World.leaf, World.wake_leaves]
  · intro s h; simpa [World.getMeta, World.wake, wake_metas] using h
  · intro s h; exact wake_woken _ _ _ _ h

/-- waking `wk` itself records it in `woken` (for a task waker) -/
theorem wake_self_woken (f : Nat) (cid tid serial : Nat) (w : World) :
    serial ∈ (wake (f + 1) (.task cid tid serial) w).woken := by
  unfold wake
  simp only
  split
  · split <;> simp [World.modCmd]
  · split <;> (apply wake_woken; simp [World.modCmd])

theorem wokenBy_wake_self (wk : Waker) (w : World) : wokenBy wk (w.wake wk) := by
  cases wk with
  | root e => trivial
  | task cid tid serial => exact wake_self_woken _ cid tid serial w

theorem mono_abortCmd (wk : Waker) (w : World) (c : Nat) : Mono wk w (w.abortCmd c) := by
  unfold World.abortCmd
  simp only
  have h1 : Mono wk w (w.modMeta (w.cmd c).abortFlag fun m => { m with aborted := true }) :=
    mono_modMeta wk w _ _ (fun _ h => h)
  split
  · exact h1
  · exact h1.trans ((mono_modCmd wk _ c _).trans (mono_wake wk _ _))

/-! dropping a host-free block only drops receivers -/
mutual
theorem dropBlock_mono (wk : Waker) (dc : Nat → World → World) : (b : Block) → (w : World) → hostFreeB b = true →
    Mono wk w (dropBlock dc b w)
  | .mk env cur rest, w, h => by
    simp only [hostFreeB, Bool.and_eq_true] at h
    simp only [dropBlock]
    have h1 := dropPend_mono wk dc cur w h.1
    have h2 : ∀ (g : World → Instr → World), (∀ w i, hostFreeI i = true → g w i = w) →
        ∀ (is : List Instr) (w : World), hostFreeIs is = true → is.foldl g w = w := by
      intro g hg is
      induction is with
      | nil => intro w _; rfl
      | cons i is ih =>
        intro w hi
        simp only [hostFreeIs, Bool.and_eq_true] at hi
        simp only [List.foldl_cons]
        rw [hg w i hi.1]; exact ih w hi.2
    rw [h2 _ (by intro w i hi; cases i <;> simp_all [hostFreeI]) rest _ h.2]
    exact h1
theorem dropPend_mono (wk : Waker) (dc : Nat → World → World) : (p : Pend) → (w : World) → hostFreeP p = true →
    Mono wk w (dropPend dc p w)
  | .idle, w, _ => by simp only [dropPend]; exact Mono.refl _ _
  | .reqDead, w, _ => by simp only [dropPend]; exact Mono.refl _ _
  | .await _, w, _ => by simp only [dropPend]; exact Mono.refl _ _
  | .selfwake _, w, _ => by simp only [dropPend]; exact Mono.refl _ _
  | .req _ l, w, _ => by simp only [dropPend]; exact mono_dropReceiver wk w l
  | .streamWait _ l _ _ _, w, _ => by simp only [dropPend]; exact mono_dropReceiver wk w l
  | .streamBody _ l _ _ _ inner, w, h => by
    simp only [hostFreeP, Bool.and_eq_true] at h
    simp only [dropPend]
    exact (dropBlock_mono wk dc inner w h.2).trans (mono_dropReceiver wk _ l)
  | .join a b ad bd, w, h => by
    simp only [hostFreeP, Bool.and_eq_true] at h
    simp only [dropPend]
    cases ad <;> cases bd <;> simp only [Bool.false_eq_true, if_false, if_true]
    · exact (dropBlock_mono wk dc a w h.1).trans (dropBlock_mono wk dc b _ h.2)
    · exact dropBlock_mono wk dc a w h.1
    · exact dropBlock_mono wk dc b w h.2
    · exact Mono.refl _ _
  | .select a b, w, h => by
    simp only [hostFreeP, Bool.and_eq_true] at h
    simp only [dropPend]
    exact (dropBlock_mono wk dc a w h.1).trans (dropBlock_mono wk dc b _ h.2)
  | .host _ _, w, h => by simp [hostFreeP] at h
end

theorem mono_dropBlock (wk : Waker) (w : World) (b : Block) (h : hostFreeB b = true) : Mono wk w (w.dropBlock b) :=
  dropBlock_mono wk _ b w h

/-! being parked is preserved by the frame -/
mutual
theorem ParkedB.mono {wk : Waker} {w w' : World} (hm : Mono wk w w') : (b : Block) → ParkedB wk w b → ParkedB wk w' b
  | .mk _ cur _, h => by simp only [ParkedB] at h ⊢; exact ParkedP.mono hm cur h
theorem ParkedP.mono {wk : Waker} {w w' : World} (hm : Mono wk w w') : (p : Pend) → ParkedP wk w p → ParkedP wk w' p
  | .idle, h => by simp [ParkedP] at h
  | .reqDead, _ => by simp [ParkedP]
  | .host _ _, _ => by simp [ParkedP]
  | .req _ l, h => by
    simp only [ParkedP] at h ⊢
    refine ⟨Nat.lt_of_lt_of_le h.1 hm.len, ?_⟩
    rcases hm.leaf l h.1 with e | e
    · rw [e]; exact h.2
    · exact e
  | .streamWait _ l _ _ _, h => by
    simp only [ParkedP] at h ⊢
    refine ⟨Nat.lt_of_lt_of_le h.1 hm.len, ?_⟩
    rcases hm.leaf l h.1 with e | e
    · rw [e]; exact h.2
    · exact e
  | .streamBody _ _ _ _ _ inner, h => by simp only [ParkedP] at h ⊢; exact ParkedB.mono hm inner h
  | .await s, h => by simp only [ParkedP] at h ⊢; exact hm.joins s h
  | .join a b ad bd, h => by
    simp only [ParkedP] at h ⊢
    exact ⟨fun e => ParkedB.mono hm a (h.1 e), fun e => ParkedB.mono hm b (h.2 e)⟩
  | .select a b, h => by
    simp only [ParkedP] at h ⊢
    exact ⟨ParkedB.mono hm a h.1, ParkedB.mono hm b h.2⟩
  | .selfwake _, h => by
    simp only [ParkedP] at h ⊢
    cases wk with
    | root _ => trivial
    | task _ _ s => exact hm.woken s h
end

end M.Rt
