/-
Ownership of request channels over whole runs, for a command whose tasks host no other command (every task program of
the DSL without combinators: any number of spawned tasks, joins, selects, streams, hand-offs).
`Own cid w`: every stored task of command `cid` (task slab and spawn queue) is host-free, every leaf channel is referenced
by AT MOST ONE of them, and no reference points beyond the existing leaves.
This file: the measure, and the frame `Fr` of operations that touch neither the slab nor the spawn queue.
-/
import CruxVerif.Lemmas.TasksFrame
import CruxVerif.Lemmas.SlabSum
namespace M.Rt

def taskRefs (t : Task) : List Nat := refsB t.fut

def cnt (l : Nat) (ts : List Task) : Nat := (ts.map fun t => (taskRefs t).count l).sum

def cmdCnt (l : Nat) (c : CmdSt) : Nat := cnt l c.tasks.values + cnt l c.spawnQ

theorem count_flatten_map (l : Nat) : ∀ (ts : List Task), ((ts.map fun t => refsB t.fut).flatten).count l = cnt l ts
  | [] => rfl
  | t :: ts => by
    simp only [List.map_cons, List.flatten_cons, List.count_append, cnt, List.sum_cons]
    have := count_flatten_map l ts
    simp only [cnt] at this
    rw [this]; rfl

theorem spawnRefs_cnt (cid : Nat) (w : World) (l : Nat) : (spawnRefs (.cmd cid) w).count l = cnt l (w.cmd cid).spawnQ :=
  count_flatten_map l _

structure Own (cid : Nat) (w : World) : Prop where
  hft : ∀ t ∈ (w.cmd cid).tasks.values, hostFreeB t.fut = true
  hfs : ∀ t ∈ (w.cmd cid).spawnQ, hostFreeB t.fut = true
  one : ∀ l, cmdCnt l (w.cmd cid) ≤ 1
  rng : ∀ l, w.leaves.length ≤ l → cmdCnt l (w.cmd cid) = 0

/-- operations that touch neither task slabs nor (the references in) the spawn queue of `cid`, nor the number of leaves -/
structure Fr (cid : Nat) (w w' : World) : Prop where
  tk : TK w w'
  sr : spawnRefs (.cmd cid) w' = spawnRefs (.cmd cid) w
  len : w'.leaves.length = w.leaves.length

theorem Fr.refl (cid : Nat) (w : World) : Fr cid w w := ⟨TKp.refl w, rfl, rfl⟩
theorem Fr.trans {cid : Nat} {w1 w2 w3 : World} (h12 : Fr cid w1 w2) (h23 : Fr cid w2 w3) : Fr cid w1 w3 :=
  ⟨h12.tk.trans h23.tk, h23.sr.trans h12.sr, h23.len.trans h12.len⟩

theorem Own.frame {cid : Nat} {w w' : World} (h : Own cid w) (f : Fr cid w w') : Own cid w' := by
  have ht := f.tk.tasks cid
  have hc : ∀ l, cmdCnt l (w'.cmd cid) = cmdCnt l (w.cmd cid) := by
    intro l
    unfold cmdCnt
    rw [ht, ← spawnRefs_cnt, ← spawnRefs_cnt, f.sr]
  refine ⟨?_, ?_, ?_, ?_⟩
  · rw [ht]; exact h.hft
  · intro t hm
    rcases f.tk.spawn cid t hm with hm | hm
    · exact h.hfs t hm
    · exact hm
  · intro l; rw [hc]; exact h.one l
  · intro l hl; rw [hc]; exact h.rng l (by rw [← f.len]; exact hl)

theorem fr_of_cmds {cid : Nat} {w w' : World} (hc : w'.cmds = w.cmds) (he : w'.execSpawn = w.execSpawn)
    (hl : w'.leaves.length = w.leaves.length) : Fr cid w w' := ⟨tk_of_cmds hc, sr_of_cmds hc he, hl⟩

theorem fr_modCmd (cid : Nat) (w : World) (c : Nat) (f : CmdSt → CmdSt) (hf : ∀ x, (f x).tasks = x.tasks)
    (hs : ∀ x, (f x).spawnQ = x.spawnQ) : Fr cid w (w.modCmd c f) :=
  ⟨tk_modCmd w c f hf hs, sr_modCmd _ w c f hs, rfl⟩

theorem fr_wake (cid : Nat) (w : World) (k : Waker) : Fr cid w (w.wake k) :=
  ⟨tk_World_wake w k, sr_World_wake _ w k, len_wake w k⟩

theorem fr_wakeAll (cid : Nat) : ∀ (ks : List Waker) (w : World), Fr cid w (w.wakeAll ks)
  | [], w => Fr.refl cid w
  | k :: ks, w => by
    simp only [World.wakeAll, List.foldl_cons]
    exact (fr_wake cid w k).trans (fr_wakeAll cid ks (w.wake k))

theorem fr_modLeaf (cid : Nat) (w : World) (l : Nat) (f : Leaf → Leaf) : Fr cid w (w.modLeaf l f) :=
  fr_of_cmds rfl rfl (len_modLeaf w l f)

theorem fr_modMeta (cid : Nat) (w : World) (s : Nat) (f : Meta → Meta) : Fr cid w (w.modMeta s f) :=
  fr_of_cmds rfl rfl rfl

theorem fr_dropSender (cid : Nat) (w : World) (l : Nat) : Fr cid w (w.dropSender l) := by
  unfold World.dropSender
  simp only
  split
  · exact fr_modLeaf cid w l _
  · split
    · exact (fr_modLeaf cid w l _).trans (fr_wake cid _ _)
    · exact fr_modLeaf cid w l _

theorem fr_abortCmd (cid : Nat) (w : World) (c : Nat) : Fr cid w (w.abortCmd c) :=
  ⟨tk_abortCmd w c, sr_abortCmd _ w c, len_abortCmd w c⟩

theorem fr_dropBlock (cid : Nat) (w : World) (b : Block) (h : hostFreeB b = true) : Fr cid w (w.dropBlock b) :=
  ⟨tk_World_dropBlock w b h, (World.dropBlock_same (.cmd cid) w b h).1, (World.dropBlock_same (.cmd cid) w b h).2⟩

theorem fr_dropTask (cid : Nat) (w : World) (t : Task) (h : hostFreeB t.fut = true) : Fr cid w (w.dropTask t) := by
  unfold World.dropTask M.Rt.dropTask
  simp only
  exact (fr_modMeta cid w _ _).trans (fr_dropBlock cid _ t.fut h)

theorem fr_resolveReq (cid : Nat) (r : Resolve) (v : Val) (w : World) : Fr cid w (resolveReq r v w).2.2 := by
  unfold resolveReq
  cases r with
  | never => exact Fr.refl cid w
  | gone => exact Fr.refl cid w
  | once l =>
    simp only
    split
    · split
      · exact ((fr_modLeaf cid w l _).trans (fr_wake cid _ _)).trans (fr_dropSender cid _ l)
      · exact (fr_modLeaf cid w l _).trans (fr_dropSender cid _ l)
    · exact fr_dropSender cid w l
  | many l =>
    simp only
    split
    · split
      · exact (fr_modLeaf cid w l _).trans (fr_wake cid _ _)
      · exact fr_modLeaf cid w l _
    · exact Fr.refl cid w

theorem fr_dropReq (cid : Nat) (r : Resolve) (w : World) : Fr cid w (dropReq r w).2 := by
  unfold dropReq
  split
  · exact fr_dropSender cid w _
  · exact fr_dropSender cid w _
  · exact Fr.refl cid w
  · exact Fr.refl cid w

end M.Rt
