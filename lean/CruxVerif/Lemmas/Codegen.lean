/-
Helper lemmas for C20 (the statements of the property are in Props/C20.lean).
-/
import CruxVerif.Spec.Codegen
namespace Lemmas.Codegen
open M.Codegen S.Codegen

/-! ### generic list facts -/

theorem zipIdx_filterMap_keys {α β : Type} (g : α → Option β) :
    ∀ (l : List α) (k : Nat), (∀ v ∈ l, (g v).isSome) →
      ((l.zipIdx k).filterMap fun p => (g p.1).map fun b => (p.2, b)).map (·.1) = List.range' k l.length
  | [], _, _ => rfl
  | a :: l, k, h => by
    have ha : (g a).isSome := h a (by simp)
    obtain ⟨b, hb⟩ := Option.isSome_iff_exists.mp ha
    have ih := zipIdx_filterMap_keys g l (k + 1) (fun v hv => h v (by simp [hv]))
    simp only [List.zipIdx_cons, List.filterMap_cons, hb, Option.map_some, List.map_cons, List.length_cons,
      List.range'_succ] at *
    rw [ih]

theorem zipIdx_filterMap_vals {α β : Type} (g : α → Option β) :
    ∀ (l : List α) (k : Nat),
      ((l.zipIdx k).filterMap fun p => (g p.1).map fun b => (p.2, b)).map (·.2) = l.filterMap g
  | [], _ => rfl
  | a :: l, k => by
    have ih := zipIdx_filterMap_vals g l (k + 1)
    cases hb : g a <;> simp [List.zipIdx_cons, hb, ih]

/-! ### which rule a container comes from -/

theorem mkStructPlain_ne_enum (l : List (String × Format)) (vs) : mkStructPlain l ≠ .enum vs := by
  cases l <;> simp [mkStructPlain]

theorem mkStructTuple_ne_enum (l : List Format) (vs) : mkStructTuple l ≠ .enum vs := by
  rcases l with _ | ⟨a, _ | ⟨b, l⟩⟩ <;> simp [mkStructTuple]

theorem mkRange_ne_enum (f : Item) (c vs) (h : mkRange f = some c) : c ≠ .enum vs := by
  unfold mkRange at h
  split at h
  · split at h <;> simp at h
    subst h; simp
  · simp at h

/-- an enum container of the registry is the `enumMap` of an enum node that is the source of an edge -/
theorem mem_containers_enum {E : Edges} {name : String} {vs} (h : (name, Container.enum vs) ∈ containers E) :
    ∃ x, x ∈ E.map (·.1) ∧ x.item.serdeName = some name ∧ x.item.isEnum = true ∧ vs = enumMap E x := by
  simp only [containers, List.mem_append, List.mem_filterMap, List.mem_singleton, ranges] at h
  rcases h with (⟨x, hx, hc⟩ | ⟨e, _, hc⟩) | hc
  · refine ⟨x, hx, ?_⟩
    unfold containerOf at hc
    split at hc
    · simp at hc
    · rename_i nm hn
      split at hc
      · simp at hc
      · simp only [Option.some.injEq, Prod.mk.injEq] at hc
        exact absurd hc.2 (mkStructPlain_ne_enum _ _)
      · simp only [Option.some.injEq, Prod.mk.injEq] at hc
        exact absurd hc.2 (mkStructTuple_ne_enum _ _)
      · rename_i vids hk
        split at hc
        · simp at hc
        · simp only [Option.some.injEq, Prod.mk.injEq, Container.enum.injEq] at hc
          exact ⟨by rw [hn, hc.1], by simp [Item.isEnum, hk], hc.2.symm⟩
      · simp at hc
  · split at hc
    · simp only [Option.map_eq_some_iff, Prod.mk.injEq] at hc
      obtain ⟨c, hc, _, rfl⟩ := hc
      exact absurd rfl (mkRange_ne_enum _ _ _ hc)
    · simp at hc
  · simp [request] at hc

/-! ### variant indices -/

theorem orderedVariants_sub {E : Edges} {e v : Node} (h : v ∈ orderedVariants E e) : v ∈ variantSet E e := by
  simp only [orderedVariants, List.mem_filterMap] at h
  obtain ⟨id, _, hf⟩ := h
  exact List.mem_of_find?_eq_some hf

theorem mem_variantSet {E : Edges} {e v : Node} (h : v ∈ variantSet E e) :
    ∃ s, (s, v) ∈ E ∧ s.same e = true ∧ nHasVariant e v = true := by
  simp only [variantSet, List.mem_map, List.mem_filter, Bool.and_eq_true] at h
  obtain ⟨⟨s, w⟩, ⟨hm, hs, hv⟩, rfl⟩ := h
  exact ⟨s, hm, hs, hv⟩

theorem same_symm {a b : Node} (h : a.same b = true) : b.same a = true := by
  simp only [Node.same, Bool.and_eq_true, beq_iff_eq] at h ⊢
  exact ⟨h.1.symm, h.2.symm⟩

theorem same_trans {a b c : Node} (h : a.same b = true) (h' : b.same c = true) : a.same c = true := by
  simp only [Node.same, Bool.and_eq_true, beq_iff_eq] at h h' ⊢
  exact ⟨h.1.trans h'.1, h.2.trans h'.2⟩

theorem variantsWF_spec {E : Edges} (h : variantsWF E = true) {e v : Node} (he : e ∈ E.map (·.1))
    (hv : v ∈ variantSet E e) : v.item.name.isSome = true ∧ v.item.isVariant = true := by
  obtain ⟨p, hp, rfl⟩ := List.mem_map.mp he
  simp only [variantsWF, List.all_eq_true, Bool.and_eq_true] at h
  exact h p hp v hv

theorem variantFormat_isSome {E : Edges} {e v : Node} (hn : v.item.name.isSome = true) (hk : v.item.isVariant = true) :
    (variantFormat E e v).isSome = true := by
  unfold variantFormat
  obtain ⟨nm, hnm⟩ := Option.isSome_iff_exists.mp hn
  simp only [hnm]
  unfold Item.isVariant at hk
  split at hk <;> simp_all

theorem enumMap_keys {E : Edges} (hwf : variantsWF E = true) {e : Node} (he : e ∈ E.map (·.1)) :
    (enumMap E e).map (·.1) = List.range (orderedVariants E e).length := by
  unfold enumMap
  rw [List.range_eq_range']
  exact zipIdx_filterMap_keys (variantFormat E e) _ 0 fun v hv =>
    let ⟨a, b⟩ := variantsWF_spec hwf he (orderedVariants_sub hv)
    variantFormat_isSome a b

theorem enumMap_vals (E : Edges) (e : Node) :
    (enumMap E e).map (·.2) = (orderedVariants E e).filterMap (variantFormat E e) :=
  zipIdx_filterMap_vals (variantFormat E e) _ 0

theorem filterMap_map_sublist {α β : Type} (g : α → Option β) (f : β → α) (h : ∀ a b, g a = some b → f b = a) :
    ∀ l : List α, ((l.filterMap g).map f).Sublist l
  | [] => by simp
  | a :: l => by
    have ih := filterMap_map_sublist g f h l
    cases hb : g a with
    | none => simpa [List.filterMap_cons, hb] using ih.cons a
    | some b => simpa [List.filterMap_cons, hb, h a b hb] using ih.cons_cons a

/-- the variants of an enum container are listed in declaration order -/
theorem orderedVariants_sublist (E : Edges) (e : Node) :
    ((orderedVariants E e).map (·.item.id)).Sublist e.item.variantIds := by
  unfold orderedVariants
  apply filterMap_map_sublist
  intro id v hf
  have := List.find?_some hf
  simp only [Bool.and_eq_true, beq_iff_eq] at this
  exact this.2

/-! ### invariance under permutation of the edge relation -/

theorem find?_perm_unique {α : Type} (p : α → Bool) {l l' : List α} (h : l.Perm l')
    (hu : ∀ a ∈ l, ∀ b ∈ l, p a = true → p b = true → a = b) : l.find? p = l'.find? p := by
  cases hl : l.find? p with
  | none =>
    symm
    rw [List.find?_eq_none] at hl ⊢
    intro x hx
    exact hl x (h.mem_iff.mpr hx)
  | some a =>
    have ha : a ∈ l := List.mem_of_find?_eq_some hl
    have hpa : p a = true := List.find?_some hl
    cases hl' : l'.find? p with
    | none =>
      rw [List.find?_eq_none] at hl'
      exact absurd hpa (by simpa using hl' a (h.mem_iff.mp ha))
    | some b =>
      have hb : b ∈ l := h.mem_iff.mpr (List.mem_of_find?_eq_some hl')
      rw [hu a ha b hb hpa (List.find?_some hl')]

/-- two edge targets with the same crate and id are the same node (holds when ids are unique per crate) -/
def Functional (E : Edges) : Prop :=
  ∀ a b, a ∈ E.map (·.2) → b ∈ E.map (·.2) → a.krate = b.krate → a.item.id = b.item.id → a = b

theorem fieldSet_perm {E E' : Edges} (h : E.Perm E') (x : Node) : (fieldSet E x).Perm (fieldSet E' x) :=
  (h.filter _).map _

theorem variantSet_perm {E E' : Edges} (h : E.Perm E') (x : Node) : (variantSet E x).Perm (variantSet E' x) :=
  (h.filter _).map _

theorem mem_fieldSet {E : Edges} {x f : Node} (h : f ∈ fieldSet E x) :
    ∃ s, (s, f) ∈ E ∧ s.same x = true ∧ nHasField x f = true := by
  simp only [fieldSet, List.mem_map, List.mem_filter, Bool.and_eq_true] at h
  obtain ⟨⟨s, w⟩, ⟨hm, hs, hv⟩, rfl⟩ := h
  exact ⟨s, hm, hs, hv⟩

theorem same_krate {a b : Node} (h : a.same b = true) : a.krate = b.krate := by
  simp only [Node.same, Bool.and_eq_true, beq_iff_eq] at h; exact h.1

theorem fieldSet_krate {E : Edges} {x f : Node} (h : f ∈ fieldSet E x) : f.krate = x.krate := by
  obtain ⟨s, _, _, hf⟩ := mem_fieldSet h
  simp only [nHasField, Bool.and_eq_true, beq_iff_eq] at hf
  exact hf.1.symm

theorem variantSet_krate {E : Edges} {x f : Node} (h : f ∈ variantSet E x) : f.krate = x.krate := by
  obtain ⟨s, _, _, hf⟩ := mem_variantSet h
  simp only [nHasVariant, Bool.and_eq_true, beq_iff_eq] at hf
  exact hf.1.symm

theorem fieldSet_target {E : Edges} {x f : Node} (h : f ∈ fieldSet E x) : f ∈ E.map (·.2) := by
  obtain ⟨s, hm, _, _⟩ := mem_fieldSet h
  exact List.mem_map.mpr ⟨(s, f), hm, rfl⟩

theorem variantSet_target {E : Edges} {x f : Node} (h : f ∈ variantSet E x) : f ∈ E.map (·.2) := by
  obtain ⟨s, hm, _, _⟩ := mem_variantSet h
  exact List.mem_map.mpr ⟨(s, f), hm, rfl⟩

theorem orderedFields_perm {E E' : Edges} (h : E.Perm E') (hf : Functional E) (x : Node) :
    orderedFields E x = orderedFields E' x := by
  unfold orderedFields
  congr 1
  funext id
  apply find?_perm_unique _ (fieldSet_perm h x)
  intro a ha b hb pa pb
  simp only [Bool.and_eq_true, beq_iff_eq] at pa pb
  exact hf a b (fieldSet_target ha) (fieldSet_target hb) ((fieldSet_krate ha).trans (fieldSet_krate hb).symm)
    (pa.2.trans pb.2.symm)

theorem orderedVariants_perm {E E' : Edges} (h : E.Perm E') (hf : Functional E) (x : Node) :
    orderedVariants E x = orderedVariants E' x := by
  unfold orderedVariants
  congr 1
  funext id
  apply find?_perm_unique _ (variantSet_perm h x)
  intro a ha b hb pa pb
  simp only [Bool.and_eq_true, beq_iff_eq] at pa pb
  exact hf a b (variantSet_target ha) (variantSet_target hb) ((variantSet_krate ha).trans (variantSet_krate hb).symm)
    (pa.2.trans pb.2.symm)

theorem containerOf_perm {E E' : Edges} (h : E.Perm E') (hf : Functional E) (x : Node) :
    containerOf E x = containerOf E' x := by
  have hF : ∀ y, fmtList E y = fmtList E' y := fun y => by simp only [fmtList, orderedFields_perm h hf]
  have hN : ∀ y, namedList E y = namedList E' y := fun y => by simp only [namedList, orderedFields_perm h hf]
  have hV : ∀ e v, variantFormat E e v = variantFormat E' e v := fun e v => by simp only [variantFormat, hF, hN]
  have hM : enumMap E x = enumMap E' x := by
    simp only [enumMap, orderedVariants_perm h hf]
    congr 1; funext p; rw [hV]
  have hE : (variantSet E x).isEmpty = (variantSet E' x).isEmpty := by
    have := (variantSet_perm h x).length_eq
    cases h1 : variantSet E x <;> cases h2 : variantSet E' x <;> simp_all
  simp only [containerOf, hF, hN, hM, hE]

theorem containers_perm {E E' : Edges} (h : E.Perm E') (hf : Functional E) : (containers E).Perm (containers E') := by
  unfold containers
  have hc : containerOf E = containerOf E' := funext (containerOf_perm h hf)
  rw [hc]
  exact (((h.map _).filterMap _).append (h.filterMap _)).append (List.Perm.refl _)

/-- no two containers of different shape compete for one name -/
def NoClash (r : List (String × Container)) : Prop := ∀ a ∈ r, ∀ b ∈ r, a.1 = b.1 → a.2 = b.2

theorem lookup_perm {r r' : List (String × Container)} (h : r.Perm r') (hc : NoClash r) (n : String) :
    lookup r n = lookup r' n := by
  unfold lookup
  have hrev : r.reverse.Perm r'.reverse := (List.reverse_perm r).trans (h.trans (List.reverse_perm r').symm)
  cases hl : r.reverse.find? (fun e => e.1 == n) with
  | none =>
    have : r'.reverse.find? (fun e => e.1 == n) = none := by
      rw [List.find?_eq_none] at hl ⊢
      intro x hx; exact hl x (hrev.mem_iff.mpr hx)
    rw [this]
  | some a =>
    have ha : a ∈ r := by simpa using List.mem_of_find?_eq_some hl
    have hpa : (a.1 == n) = true := List.find?_some (p := fun (e : String × Container) => e.1 == n) hl
    cases hl' : r'.reverse.find? (fun e => e.1 == n) with
    | none =>
      rw [List.find?_eq_none] at hl'
      exact absurd hpa (hl' a (hrev.mem_iff.mp (List.mem_of_find?_eq_some hl)))
    | some b =>
      have hb : b ∈ r := h.mem_iff.mpr (by simpa using List.mem_of_find?_eq_some hl')
      have hpb : (b.1 == n) = true := List.find?_some (p := fun (e : String × Container) => e.1 == n) hl'
      simp only [beq_iff_eq] at hpa hpb
      simp [hc a ha b hb (hpa.trans hpb.symm)]

/-! ### consistent renumbering of item ids -/

/-- the renumbering of a type expression -/
def renTy (σ : Nat → Nat) : Ty → Ty
  | .path p id k as => .path p (σ id) k (many as)
  | .qpath n self k as => .qpath n (renTy σ self) k (many as)
  | .prim n => .prim n
  | .tuple ts => .tuple (many ts)
  | .slice t => .slice (renTy σ t)
  | .array t => .array (renTy σ t)
  | .other => .other
  | .nonType => .nonType
where
  many : List Ty → List Ty
    | [] => []
    | t :: ts => renTy σ t :: many ts

def renKind (σ : Nat → Nat) : Kind → Kind
  | .structUnit => .structUnit
  | .structPlain fs => .structPlain (fs.map σ)
  | .structTuple fs => .structTuple (fs.map (Option.map σ))
  | .enum vs => .enum (vs.map σ)
  | .variantPlain => .variantPlain
  | .variantTuple fs => .variantTuple (fs.map (Option.map σ))
  | .variantStruct fs => .variantStruct (fs.map σ)
  | .field t => .field (renTy σ t)
  | .assocType t => .assocType (t.map σ)
  | .impl tr f items => .impl tr (f.map σ) (items.map σ)

def renItem (σ : Nat → Nat) (i : Item) : Item := { i with id := σ i.id, kind := renKind σ i.kind }

/-- `σ crate id`: a renumbering per crate -/
def renNode (σ : String → Nat → Nat) (n : Node) : Node := ⟨n.krate, renItem (σ n.krate) n.item⟩

def renEdges (σ : String → Nat → Nat) (E : Edges) : Edges := E.map fun e => (renNode σ e.1, renNode σ e.2)

def renCrate (σ : Nat → Nat) (c : Crate) : Crate :=
  { c with items := c.items.map (renItem σ), summaries := c.summaries.map fun s => { s with id := σ s.id } }

def Injective (f : Nat → Nat) : Prop := ∀ a b, f a = f b → a = b

theorem renMany_eq_map (σ) : ∀ l, renTy.many σ l = l.map (renTy σ)
  | [] => rfl
  | t :: l => by simp [renTy.many, renMany_eq_map σ l]

mutual
theorem format_ren (σ : Nat → Nat) : ∀ t : Ty, (renTy σ t).format = t.format
  | .path p id k as => by
    cases k <;> simp only [renTy, Ty.format]
    rw [first_ren σ as]
  | .qpath n self k as => by simp [renTy, Ty.format]
  | .prim n => rfl
  | .tuple ts => by simp only [renTy, Ty.format, all_ren σ ts]
  | .slice t => rfl
  | .array t => rfl
  | .other => rfl
  | .nonType => rfl
theorem first_ren (σ : Nat → Nat) : ∀ l : List Ty, Ty.format.first (renTy.many σ l) = Ty.format.first l
  | [] => rfl
  | t :: _ => by simp only [renTy.many, Ty.format.first, format_ren σ t]
theorem all_ren (σ : Nat → Nat) : ∀ l : List Ty, Ty.format.all (renTy.many σ l) = Ty.format.all l
  | [] => rfl
  | t :: l => by simp only [renTy.many, Ty.format.all, format_ren σ t, all_ren σ l]
end

section ren
variable (σ : Nat → Nat)

@[simp] theorem renItem_name (i : Item) : (renItem σ i).name = i.name := rfl
@[simp] theorem renItem_attrs (i : Item) : (renItem σ i).attrs = i.attrs := rfl
@[simp] theorem renItem_id (i : Item) : (renItem σ i).id = σ i.id := rfl
@[simp] theorem renItem_kind (i : Item) : (renItem σ i).kind = renKind σ i.kind := rfl
@[simp] theorem renItem_serdeName (i : Item) : (renItem σ i).serdeName = i.serdeName := rfl

theorem filterMap_optmap (l : List (Option Nat)) :
    List.filterMap ((fun o => o) ∘ Option.map σ) l = List.map σ (List.filterMap (fun o => o) l) := by
  induction l with
  | nil => rfl
  | cons o l ih => cases o <;> simp [ih]

@[simp] theorem renItem_fieldIds (i : Item) : (renItem σ i).fieldIds = i.fieldIds.map σ := by
  rcases i with ⟨id, nm, at_, k⟩
  cases k <;> simp [Item.fieldIds, renItem, renKind, filterMap_optmap]

@[simp] theorem renItem_variantIds (i : Item) : (renItem σ i).variantIds = i.variantIds.map σ := by
  rcases i with ⟨id, nm, at_, k⟩
  cases k <;> simp [Item.variantIds, renItem, renKind]

@[simp] theorem renItem_isEnum (i : Item) : (renItem σ i).isEnum = i.isEnum := by
  rcases i with ⟨id, nm, at_, k⟩
  cases k <;> simp [Item.isEnum, renItem, renKind]

@[simp] theorem renItem_isVariant (i : Item) : (renItem σ i).isVariant = i.isVariant := by
  rcases i with ⟨id, nm, at_, k⟩
  cases k <;> simp [Item.isVariant, renItem, renKind]

theorem contains_map_inj (hσ : Injective σ) (l : List Nat) (a : Nat) : (l.map σ).contains (σ a) = l.contains a := by
  induction l with
  | nil => rfl
  | cons b l ih =>
    have : (σ a == σ b) = (a == b) := by
      apply Bool.eq_iff_iff.mpr
      simp only [beq_iff_eq]
      exact ⟨fun e => hσ a b e, fun e => by rw [e]⟩
    simp only [List.map_cons, List.contains_cons, ih, this]

theorem hasField_ren (hσ : Injective σ) (x f : Item) : hasField (renItem σ x) (renItem σ f) = hasField x f := by
  simp only [hasField, renItem_attrs, renItem_serdeName, renItem_fieldIds, renItem_id, contains_map_inj σ hσ]

theorem hasVariant_ren (hσ : Injective σ) (x f : Item) : hasVariant (renItem σ x) (renItem σ f) = hasVariant x f := by
  simp only [hasVariant, renItem_attrs, renItem_variantIds, renItem_id, contains_map_inj σ hσ]

@[simp] theorem fieldFormat_ren (i : Item) : fieldFormat (renItem σ i) = fieldFormat i := by
  rcases i with ⟨id, nm, at_, k⟩
  cases k <;> simp [fieldFormat, renItem, renKind, format_ren]

@[simp] theorem isRange_ren (i : Item) : isRange (renItem σ i) = isRange i := by
  rcases i with ⟨id, nm, at_, k⟩
  cases k with
  | field t => cases t <;> simp [isRange, renItem, renKind, renTy]
  | _ => simp [isRange, renItem, renKind]

@[simp] theorem isNonType_ren (t : Ty) : (renTy σ t).isNonType = t.isNonType := by
  cases t <;> simp [renTy, Ty.isNonType]

@[simp] theorem mkRange_ren (i : Item) : mkRange (renItem σ i) = mkRange i := by
  rcases i with ⟨id, nm, at_, k⟩
  cases k with
  | field t =>
    cases t with
    | path p id k as =>
      cases k <;> cases as <;> simp [mkRange, renItem, renKind, renTy, renTy.many, format_ren]
    | _ => simp [mkRange, renItem, renKind, renTy]
  | _ => simp [mkRange, renItem, renKind]

end ren

theorem find?_congr' {α : Type} {p q : α → Bool} : ∀ {l : List α}, (∀ a ∈ l, p a = q a) → l.find? p = l.find? q
  | [], _ => rfl
  | a :: l, h => by
    have ha : p a = q a := h a (by simp)
    have ih := find?_congr' (l := l) (fun b hb => h b (by simp [hb]))
    simp only [List.find?_cons, ha, ih]

theorem filterMap_congr' {α β : Type} {f g : α → Option β} : ∀ {l : List α}, (∀ a ∈ l, f a = g a) →
    l.filterMap f = l.filterMap g
  | [], _ => rfl
  | a :: l, h => by
    have ha : f a = g a := h a (by simp)
    have ih := filterMap_congr' (l := l) (fun b hb => h b (by simp [hb]))
    simp only [List.filterMap_cons, ha, ih]

section renNode
variable (σ : String → Nat → Nat) (hσ : ∀ c, Injective (σ c))
include hσ

theorem same_ren (a b : Node) : (renNode σ a).same (renNode σ b) = a.same b := by
  simp only [Node.same, renNode, renItem_id]
  by_cases h : a.krate = b.krate
  · rw [h]
    congr 1
    apply Bool.eq_iff_iff.mpr
    simp only [beq_iff_eq]
    exact ⟨fun e => hσ _ _ _ e, fun e => by rw [e]⟩
  · simp only [beq_eq_false_iff_ne.mpr h, Bool.false_and]

theorem nHasField_ren (x f : Node) : nHasField (renNode σ x) (renNode σ f) = nHasField x f := by
  simp only [nHasField, renNode]
  by_cases h : x.krate = f.krate
  · rw [h, hasField_ren _ (hσ _)]
  · simp only [beq_eq_false_iff_ne.mpr h, Bool.false_and]

theorem nHasVariant_ren (x f : Node) : nHasVariant (renNode σ x) (renNode σ f) = nHasVariant x f := by
  simp only [nHasVariant, renNode]
  by_cases h : x.krate = f.krate
  · rw [h, hasVariant_ren _ (hσ _)]
  · simp only [beq_eq_false_iff_ne.mpr h, Bool.false_and]

theorem fieldSet_ren (E : Edges) (x : Node) :
    fieldSet (renEdges σ E) (renNode σ x) = (fieldSet E x).map (renNode σ) := by
  simp only [fieldSet, renEdges, List.filter_map, List.map_map]
  congr 1
  apply List.filter_congr
  intro e _
  simp only [Function.comp, same_ren σ hσ, nHasField_ren σ hσ]

theorem variantSet_ren (E : Edges) (x : Node) :
    variantSet (renEdges σ E) (renNode σ x) = (variantSet E x).map (renNode σ) := by
  simp only [variantSet, renEdges, List.filter_map, List.map_map]
  congr 1
  apply List.filter_congr
  intro e _
  simp only [Function.comp, same_ren σ hσ, nHasVariant_ren σ hσ]

theorem orderedFields_ren (E : Edges) (x : Node) :
    orderedFields (renEdges σ E) (renNode σ x) = (orderedFields E x).map (renNode σ) := by
  simp only [orderedFields, fieldSet_ren σ hσ, List.map_filterMap]
  show List.filterMap _ (renItem (σ x.krate) x.item).fieldIds = _
  rw [renItem_fieldIds, List.filterMap_map]
  apply filterMap_congr'
  intro id _
  simp only [Function.comp, List.find?_map]
  congr 1
  apply find?_congr'
  intro f hf
  have hk : f.krate = x.krate := fieldSet_krate hf
  simp only [Function.comp, renNode, renItem_attrs, renItem_id, hk]
  congr 1
  apply Bool.eq_iff_iff.mpr
  simp only [beq_iff_eq]
  exact ⟨fun e => hσ _ _ _ e, fun e => by rw [e]⟩

theorem orderedVariants_ren (E : Edges) (x : Node) :
    orderedVariants (renEdges σ E) (renNode σ x) = (orderedVariants E x).map (renNode σ) := by
  simp only [orderedVariants, variantSet_ren σ hσ, List.map_filterMap]
  show List.filterMap _ (renItem (σ x.krate) x.item).variantIds = _
  rw [renItem_variantIds, List.filterMap_map]
  apply filterMap_congr'
  intro id _
  simp only [Function.comp, List.find?_map]
  congr 1
  apply find?_congr'
  intro f hf
  have hk : f.krate = x.krate := variantSet_krate hf
  simp only [Function.comp, renNode, renItem_attrs, renItem_id, hk]
  congr 1
  apply Bool.eq_iff_iff.mpr
  simp only [beq_iff_eq]
  exact ⟨fun e => hσ _ _ _ e, fun e => by rw [e]⟩

theorem fmtList_ren (E : Edges) (x : Node) : fmtList (renEdges σ E) (renNode σ x) = fmtList E x := by
  simp only [fmtList, orderedFields_ren σ hσ, List.filterMap_map]
  apply filterMap_congr'
  intro f _
  simp [renNode]

theorem namedList_ren (E : Edges) (x : Node) : namedList (renEdges σ E) (renNode σ x) = namedList E x := by
  simp only [namedList, orderedFields_ren σ hσ, List.filterMap_map]
  apply filterMap_congr'
  intro f _
  simp [renNode]

theorem variantFormat_ren (E : Edges) (e v : Node) :
    variantFormat (renEdges σ E) (renNode σ e) (renNode σ v) = variantFormat E e v := by
  simp only [variantFormat, fmtList_ren σ hσ, namedList_ren σ hσ]
  simp only [renNode, renItem_name, renItem_attrs, renItem_kind]
  cases v.item.name with
  | none => rfl
  | some nm => cases v.item.kind <;> simp [renKind]

theorem enumMap_ren (E : Edges) (e : Node) : enumMap (renEdges σ E) (renNode σ e) = enumMap E e := by
  simp only [enumMap, orderedVariants_ren σ hσ, List.zipIdx_map, List.filterMap_map]
  apply filterMap_congr'
  intro p _
  simp [Function.comp, variantFormat_ren σ hσ]

theorem containerOf_ren (E : Edges) (x : Node) : containerOf (renEdges σ E) (renNode σ x) = containerOf E x := by
  simp only [containerOf, fmtList_ren σ hσ, namedList_ren σ hσ, enumMap_ren σ hσ, variantSet_ren σ hσ, List.isEmpty_map]
  simp only [renNode, renItem_serdeName, renItem_kind]
  cases x.item.serdeName with
  | none => rfl
  | some nm => cases x.item.kind <;> simp [renKind]

theorem ranges_ren (E : Edges) : ranges (renEdges σ E) = ranges E := by
  simp only [ranges, renEdges, List.filterMap_map]
  apply filterMap_congr'
  intro e _
  simp only [Function.comp, nHasField_ren σ hσ]
  simp [renNode]

theorem containers_ren (E : Edges) : containers (renEdges σ E) = containers E := by
  unfold containers
  rw [ranges_ren σ hσ]
  congr 2
  have : (renEdges σ E).map (·.1) = (E.map (·.1)).map (renNode σ) := by
    simp [renEdges, List.map_map, Function.comp_def]
  rw [this, List.filterMap_map]
  apply filterMap_congr'
  intro x _
  exact containerOf_ren σ hσ E x

theorem panics_ren (E : Edges) : panics (renEdges σ E) = panics E := by
  simp only [panics, renEdges, List.any_map]
  congr 1
  funext e
  simp only [Function.comp, nHasField_ren σ hσ]
  simp [renNode]

end renNode

/-! ### closedness -/

theorem produces_eq (E : Edges) (x : Node) : (containerOf E x).map (·.1) = produces E x := by
  unfold containerOf produces
  cases x.item.serdeName with
  | none => rfl
  | some n =>
    cases x.item.kind <;> simp
    split <;> simp

theorem defined_hasKey {E : Edges} {n : String} (h : n ∈ defined E) : hasKey (containers E) n = true := by
  simp only [hasKey, List.any_eq_true, beq_iff_eq]
  simp only [defined, List.mem_append, List.mem_filterMap, List.mem_map, List.mem_singleton] at h
  rcases h with (⟨x, hx, hp⟩ | ⟨e, he, rfl⟩) | rfl
  · rw [← produces_eq] at hp
    obtain ⟨⟨n', c⟩, hc, rfl⟩ := Option.map_eq_some_iff.mp hp
    exact ⟨(n', c), by simp only [containers, List.mem_append, List.mem_filterMap]; exact Or.inl (Or.inl ⟨x, List.mem_map.mpr hx, hc⟩), rfl⟩
  · exact ⟨e, by simp only [containers, List.mem_append]; exact Or.inl (Or.inr he), rfl⟩
  · exact ⟨("Request", request), by simp [containers], rfl⟩

theorem orderedFields_sub {E : Edges} {x f : Node} (h : f ∈ orderedFields E x) : f ∈ fieldSet E x := by
  simp only [orderedFields, List.mem_filterMap] at h
  obtain ⟨id, _, hf⟩ := h
  exact List.mem_of_find?_eq_some hf

theorem src_node {E : Edges} {x : Node} (h : x ∈ E.map (·.1)) : x ∈ nodesOf E := by
  obtain ⟨p, hp, rfl⟩ := List.mem_map.mp h
  simp only [nodesOf, List.mem_flatMap]
  exact ⟨p, hp, by simp⟩

theorem tgt_node {E : Edges} {x : Node} (h : x ∈ E.map (·.2)) : x ∈ nodesOf E := by
  obtain ⟨p, hp, rfl⟩ := List.mem_map.mp h
  simp only [nodesOf, List.mem_flatMap]
  exact ⟨p, hp, by simp⟩

theorem field_refs {E : Edges} {x f : Node} (hx : x ∈ nodesOf E) (h : f ∈ orderedFields E x) {fm : Format}
    (hf : fieldFormat f.item = some fm) {tn : String} (ht : tn ∈ Format.typeNames fm) : tn ∈ fieldRefs E := by
  simp only [fieldRefs, List.mem_flatMap]
  exact ⟨x, hx, f, orderedFields_sub h, by simp only [hf]; exact ht⟩

theorem fmtList_refs {E : Edges} {x : Node} (hx : x ∈ nodesOf E) {tn : String}
    (h : tn ∈ (fmtList E x).flatMap Format.typeNames) : tn ∈ fieldRefs E := by
  simp only [fmtList, List.mem_flatMap, List.mem_filterMap] at h
  obtain ⟨fm, ⟨f, hf, hfm⟩, ht⟩ := h
  exact field_refs hx hf hfm ht

theorem namedList_refs {E : Edges} {x : Node} (hx : x ∈ nodesOf E) {tn : String}
    (h : tn ∈ (namedList E x).flatMap fun p => Format.typeNames p.2) : tn ∈ fieldRefs E := by
  simp only [namedList, List.mem_flatMap, List.mem_filterMap] at h
  obtain ⟨p, ⟨f, hf, hp⟩, ht⟩ := h
  split at hp
  · rename_i n fm hn hfm
    simp only [Option.some.injEq] at hp
    subst hp
    exact field_refs hx hf hfm ht
  · simp at hp

theorem tupleVariant_names (fs : List Format) : VFormat.typeNames (tupleVariant fs) = fs.flatMap Format.typeNames := by
  rcases fs with _ | ⟨a, _ | ⟨b, l⟩⟩ <;> simp [tupleVariant, VFormat.typeNames]

theorem mkStructTuple_names (fs : List Format) : Container.typeNames (mkStructTuple fs) = fs.flatMap Format.typeNames := by
  rcases fs with _ | ⟨a, _ | ⟨b, l⟩⟩ <;> simp [mkStructTuple, Container.typeNames]

theorem mkStructPlain_names (fs : List (String × Format)) :
    Container.typeNames (mkStructPlain fs) = fs.flatMap fun p => Format.typeNames p.2 := by
  cases fs <;> simp [mkStructPlain, Container.typeNames]

theorem variantFormat_refs {E : Edges} {e v : Node} (hv : v ∈ nodesOf E) {nv : String × VFormat}
    (h : variantFormat E e v = some nv) {tn : String} (ht : tn ∈ VFormat.typeNames nv.2) : tn ∈ fieldRefs E := by
  unfold variantFormat at h
  split at h
  · simp at h
  · split at h <;> simp only [Option.some.injEq] at h
    · subst h; simp [VFormat.typeNames] at ht
    · subst h; rw [tupleVariant_names] at ht; exact fmtList_refs hv ht
    · subst h; exact namedList_refs hv (by simpa [VFormat.typeNames] using ht)
    · simp at h

theorem containerOf_refs {E : Edges} {x : Node} (hx : x ∈ E.map (·.1)) {nc : String × Container}
    (h : containerOf E x = some nc) {tn : String} (ht : tn ∈ Container.typeNames nc.2) : tn ∈ fieldRefs E := by
  unfold containerOf at h
  split at h
  · simp at h
  · split at h
    · simp only [Option.some.injEq] at h; subst h; simp [Container.typeNames] at ht
    · simp only [Option.some.injEq] at h; subst h; rw [mkStructPlain_names] at ht; exact namedList_refs (src_node hx) ht
    · simp only [Option.some.injEq] at h; subst h; rw [mkStructTuple_names] at ht; exact fmtList_refs (src_node hx) ht
    · split at h
      · simp at h
      · simp only [Option.some.injEq] at h; subst h
        simp only [Container.typeNames, List.mem_flatMap, enumMap, List.mem_filterMap] at ht
        obtain ⟨⟨i, nv⟩, ⟨p, hp, hpe⟩, ht⟩ := ht
        obtain ⟨nv', hnv, heq⟩ := Option.map_eq_some_iff.mp hpe
        simp only [Prod.mk.injEq] at heq
        rw [← heq.2] at ht
        have hpm : p.1 ∈ orderedVariants E x := by
          have := List.mem_map_of_mem (f := Prod.fst) hp
          rwa [List.zipIdx_map_fst] at this
        exact variantFormat_refs (tgt_node (variantSet_target (orderedVariants_sub hpm))) hnv ht
    · simp at h

theorem containers_refs {E : Edges} {nc : String × Container} (h : nc ∈ containers E) {tn : String}
    (ht : tn ∈ Container.typeNames nc.2) : tn ∈ referenced E := by
  simp only [containers, List.mem_append, List.mem_filterMap, List.mem_singleton] at h
  simp only [referenced, List.mem_append, List.mem_flatMap, List.mem_singleton]
  rcases h with (⟨x, hx, hc⟩ | hr) | rfl
  · exact Or.inl (Or.inl (containerOf_refs hx hc ht))
  · exact Or.inl (Or.inr ⟨nc, hr, ht⟩)
  · simp [request, Container.typeNames, Format.typeNames] at ht
    exact Or.inr ht

theorem closed_of_resolvable {E : Edges} (h : resolvable E = true) : closed (containers E) = true := by
  simp only [closed, unresolved, List.isEmpty_iff, List.filter_eq_nil_iff, List.mem_flatMap]
  rintro tn ⟨nc, hnc, ht⟩
  simp only [resolvable, List.all_eq_true, List.contains_iff_mem] at h
  have := defined_hasKey (h tn (containers_refs hnc ht))
  simp [this]

end Lemmas.Codegen
