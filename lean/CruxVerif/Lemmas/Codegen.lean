/-
Helper lemmas for C20 (the statements of the property are in Props/C20.lean).
-/
import CruxVerif.Spec.Codegen
namespace Lemmas.Codegen
open M.Codegen S.Codegen

/-! ### generic list facts -/

theorem zipIdx_filterMap_keys {α β : Type} (g : α → Option β) :
    ∀ (l : List α) (k : Nat), (∀ v ∈ l, (g v).isSome) →
      ((l.zipIdx k).filterMap fun p => (g p.1).map fun b => (p.2, b)).map (·.1) = List.range' k l.length
  | [], _, _ => rfl
  | a :: l, k, h => by
    have ha : (g a).isSome := h a (by simp)
    obtain ⟨b, hb⟩ := Option.isSome_iff_exists.mp ha
    have ih := zipIdx_filterMap_keys g l (k + 1) (fun v hv => h v (by simp [hv]))
    simp only [List.zipIdx_cons, List.filterMap_cons, hb, Option.map_some, List.map_cons, List.length_cons,
      List.range'_succ] at *
    rw [ih]

theorem zipIdx_filterMap_vals {α β : Type} (g : α → Option β) :
    ∀ (l : List α) (k : Nat),
      ((l.zipIdx k).filterMap fun p => (g p.1).map fun b => (p.2, b)).map (·.2) = l.filterMap g
  | [], _ => rfl
  | a :: l, k => by
    have ih := zipIdx_filterMap_vals g l (k + 1)
    cases hb : g a <;> simp [List.zipIdx_cons, hb, ih]

/-! ### which rule a container comes from -/

theorem mkStructPlain_ne_enum (l : List (String × Format)) (vs) : mkStructPlain l ≠ .enum vs := by
  cases l <;> simp [mkStructPlain]

theorem mkStructTuple_ne_enum (l : List Format) (vs) : mkStructTuple l ≠ .enum vs := by
  rcases l with _ | ⟨a, _ | ⟨b, l⟩⟩ <;> simp [mkStructTuple]

theorem mkRange_ne_enum (f : Item) (c vs) (h : mkRange f = some c) : c ≠ .enum vs := by
  unfold mkRange at h
  split at h
  · split at h <;> simp at h
    subst h; simp
  · simp at h

/-- an enum container of the registry is the `enumMap` of an enum node that is the source of an edge -/
theorem mem_containers_enum {E : Edges} {name : String} {vs} (h : (name, Container.enum vs) ∈ containers E) :
    ∃ x, x ∈ E.map (·.1) ∧ x.item.serdeName = some name ∧ x.item.isEnum = true ∧ vs = enumMap E x := by
  simp only [containers, List.mem_append, List.mem_filterMap, List.mem_singleton, ranges] at h
  rcases h with (⟨x, hx, hc⟩ | ⟨e, _, hc⟩) | hc
  · refine ⟨x, hx, ?_⟩
    unfold containerOf at hc
    split at hc
    · simp at hc
    · rename_i nm hn
      split at hc
      · simp at hc
      · simp only [Option.some.injEq, Prod.mk.injEq] at hc
        exact absurd hc.2 (mkStructPlain_ne_enum _ _)
      · simp only [Option.some.injEq, Prod.mk.injEq] at hc
        exact absurd hc.2 (mkStructTuple_ne_enum _ _)
      · rename_i vids hk
        split at hc
        · simp at hc
        · simp only [Option.some.injEq, Prod.mk.injEq, Container.enum.injEq] at hc
          exact ⟨by rw [hn, hc.1], by simp [Item.isEnum, hk], hc.2.symm⟩
      · simp at hc
  · split at hc
    · simp only [Option.map_eq_some_iff, Prod.mk.injEq] at hc
      obtain ⟨c, hc, _, rfl⟩ := hc
      exact absurd rfl (mkRange_ne_enum _ _ _ hc)
    · simp at hc
  · simp [request] at hc

/-! ### variant indices -/

theorem orderedVariants_sub {E : Edges} {e v : Node} (h : v ∈ orderedVariants E e) : v ∈ variantSet E e := by
  simp only [orderedVariants, List.mem_filterMap] at h
  obtain ⟨id, _, hf⟩ := h
  exact List.mem_of_find?_eq_some hf

theorem mem_variantSet {E : Edges} {e v : Node} (h : v ∈ variantSet E e) :
    ∃ s, (s, v) ∈ E ∧ s.same e = true ∧ nHasVariant s v = true := by
  simp only [variantSet, List.mem_map, List.mem_filter, Bool.and_eq_true] at h
  obtain ⟨⟨s, w⟩, ⟨hm, hs, hv⟩, rfl⟩ := h
  exact ⟨s, hm, hs, hv⟩

theorem variantsWF_spec {E : Edges} (h : variantsWF E = true) {e v : Node} (hv : v ∈ variantSet E e) :
    v.item.name.isSome = true ∧ v.item.isVariant = true := by
  obtain ⟨s, hm, _, hh⟩ := mem_variantSet hv
  simp only [variantsWF, List.all_eq_true] at h
  have := h _ hm
  simpa [hh] using this

theorem variantFormat_isSome {E : Edges} {e v : Node} (hn : v.item.name.isSome = true) (hk : v.item.isVariant = true) :
    (variantFormat E e v).isSome = true := by
  unfold variantFormat
  obtain ⟨nm, hnm⟩ := Option.isSome_iff_exists.mp hn
  simp only [hnm]
  unfold Item.isVariant at hk
  split at hk <;> simp_all

theorem enumMap_keys {E : Edges} (hwf : variantsWF E = true) (e : Node) :
    (enumMap E e).map (·.1) = List.range (orderedVariants E e).length := by
  unfold enumMap
  rw [List.range_eq_range']
  exact zipIdx_filterMap_keys (variantFormat E e) _ 0 fun v hv =>
    let ⟨a, b⟩ := variantsWF_spec hwf (orderedVariants_sub hv)
    variantFormat_isSome a b

theorem enumMap_vals (E : Edges) (e : Node) :
    (enumMap E e).map (·.2) = (orderedVariants E e).filterMap (variantFormat E e) :=
  zipIdx_filterMap_vals (variantFormat E e) _ 0

theorem filterMap_map_sublist {α β : Type} (g : α → Option β) (f : β → α) (h : ∀ a b, g a = some b → f b = a) :
    ∀ l : List α, ((l.filterMap g).map f).Sublist l
  | [] => by simp
  | a :: l => by
    have ih := filterMap_map_sublist g f h l
    cases hb : g a with
    | none => simpa [List.filterMap_cons, hb] using ih.cons a
    | some b => simpa [List.filterMap_cons, hb, h a b hb] using ih.cons_cons a

/-- the variants of an enum container are listed in declaration order -/
theorem orderedVariants_sublist (E : Edges) (e : Node) :
    ((orderedVariants E e).map (·.item.id)).Sublist e.item.variantIds := by
  unfold orderedVariants
  apply filterMap_map_sublist
  intro id v hf
  have := List.find?_some hf
  simp only [Bool.and_eq_true, beq_iff_eq] at this
  exact this.2

/-! ### invariance under permutation of the edge relation -/

theorem find?_perm_unique {α : Type} (p : α → Bool) {l l' : List α} (h : l.Perm l')
    (hu : ∀ a ∈ l, ∀ b ∈ l, p a = true → p b = true → a = b) : l.find? p = l'.find? p := by
  cases hl : l.find? p with
  | none =>
    symm
    rw [List.find?_eq_none] at hl ⊢
    intro x hx
    exact hl x (h.mem_iff.mpr hx)
  | some a =>
    have ha : a ∈ l := List.mem_of_find?_eq_some hl
    have hpa : p a = true := List.find?_some hl
    cases hl' : l'.find? p with
    | none =>
      rw [List.find?_eq_none] at hl'
      exact absurd hpa (by simpa using hl' a (h.mem_iff.mp ha))
    | some b =>
      have hb : b ∈ l := h.mem_iff.mpr (List.mem_of_find?_eq_some hl')
      rw [hu a ha b hb hpa (List.find?_some hl')]

/-- two edge targets with the same crate and id are the same node (holds when ids are unique per crate) -/
def Functional (E : Edges) : Prop :=
  ∀ a b, a ∈ E.map (·.2) → b ∈ E.map (·.2) → a.krate = b.krate → a.item.id = b.item.id → a = b

theorem fieldSet_perm {E E' : Edges} (h : E.Perm E') (x : Node) : (fieldSet E x).Perm (fieldSet E' x) :=
  (h.filter _).map _

theorem variantSet_perm {E E' : Edges} (h : E.Perm E') (x : Node) : (variantSet E x).Perm (variantSet E' x) :=
  (h.filter _).map _

theorem mem_fieldSet {E : Edges} {x f : Node} (h : f ∈ fieldSet E x) :
    ∃ s, (s, f) ∈ E ∧ s.same x = true ∧ nHasField s f = true := by
  simp only [fieldSet, List.mem_map, List.mem_filter, Bool.and_eq_true] at h
  obtain ⟨⟨s, w⟩, ⟨hm, hs, hv⟩, rfl⟩ := h
  exact ⟨s, hm, hs, hv⟩

theorem same_krate {a b : Node} (h : a.same b = true) : a.krate = b.krate := by
  simp only [Node.same, Bool.and_eq_true, beq_iff_eq] at h; exact h.1

theorem fieldSet_krate {E : Edges} {x f : Node} (h : f ∈ fieldSet E x) : f.krate = x.krate := by
  obtain ⟨s, _, hs, hf⟩ := mem_fieldSet h
  simp only [nHasField, Bool.and_eq_true, beq_iff_eq] at hf
  rw [← hf.1, same_krate hs]

theorem variantSet_krate {E : Edges} {x f : Node} (h : f ∈ variantSet E x) : f.krate = x.krate := by
  obtain ⟨s, _, hs, hf⟩ := mem_variantSet h
  simp only [nHasVariant, Bool.and_eq_true, beq_iff_eq] at hf
  rw [← hf.1, same_krate hs]

theorem fieldSet_target {E : Edges} {x f : Node} (h : f ∈ fieldSet E x) : f ∈ E.map (·.2) := by
  obtain ⟨s, hm, _, _⟩ := mem_fieldSet h
  exact List.mem_map.mpr ⟨(s, f), hm, rfl⟩

theorem variantSet_target {E : Edges} {x f : Node} (h : f ∈ variantSet E x) : f ∈ E.map (·.2) := by
  obtain ⟨s, hm, _, _⟩ := mem_variantSet h
  exact List.mem_map.mpr ⟨(s, f), hm, rfl⟩

theorem orderedFields_perm {E E' : Edges} (h : E.Perm E') (hf : Functional E) (x : Node) :
    orderedFields E x = orderedFields E' x := by
  unfold orderedFields
  congr 1
  funext id
  apply find?_perm_unique _ (fieldSet_perm h x)
  intro a ha b hb pa pb
  simp only [Bool.and_eq_true, beq_iff_eq] at pa pb
  exact hf a b (fieldSet_target ha) (fieldSet_target hb) ((fieldSet_krate ha).trans (fieldSet_krate hb).symm)
    (pa.2.trans pb.2.symm)

theorem orderedVariants_perm {E E' : Edges} (h : E.Perm E') (hf : Functional E) (x : Node) :
    orderedVariants E x = orderedVariants E' x := by
  unfold orderedVariants
  congr 1
  funext id
  apply find?_perm_unique _ (variantSet_perm h x)
  intro a ha b hb pa pb
  simp only [Bool.and_eq_true, beq_iff_eq] at pa pb
  exact hf a b (variantSet_target ha) (variantSet_target hb) ((variantSet_krate ha).trans (variantSet_krate hb).symm)
    (pa.2.trans pb.2.symm)

theorem containerOf_perm {E E' : Edges} (h : E.Perm E') (hf : Functional E) (x : Node) :
    containerOf E x = containerOf E' x := by
  have hF : ∀ y, fmtList E y = fmtList E' y := fun y => by simp only [fmtList, orderedFields_perm h hf]
  have hN : ∀ y, namedList E y = namedList E' y := fun y => by simp only [namedList, orderedFields_perm h hf]
  have hV : ∀ e v, variantFormat E e v = variantFormat E' e v := fun e v => by simp only [variantFormat, hF, hN]
  have hM : enumMap E x = enumMap E' x := by
    simp only [enumMap, orderedVariants_perm h hf]
    congr 1; funext p; rw [hV]
  have hE : (variantSet E x).isEmpty = (variantSet E' x).isEmpty := by
    have := (variantSet_perm h x).length_eq
    cases h1 : variantSet E x <;> cases h2 : variantSet E' x <;> simp_all
  simp only [containerOf, hF, hN, hM, hE]

theorem containers_perm {E E' : Edges} (h : E.Perm E') (hf : Functional E) : (containers E).Perm (containers E') := by
  unfold containers
  have hc : containerOf E = containerOf E' := funext (containerOf_perm h hf)
  rw [hc]
  exact (((h.map _).filterMap _).append (h.filterMap _)).append (List.Perm.refl _)

/-- no two containers of different shape compete for one name -/
def NoClash (r : List (String × Container)) : Prop := ∀ a ∈ r, ∀ b ∈ r, a.1 = b.1 → a.2 = b.2

theorem lookup_perm {r r' : List (String × Container)} (h : r.Perm r') (hc : NoClash r) (n : String) :
    lookup r n = lookup r' n := by
  unfold lookup
  have hrev : r.reverse.Perm r'.reverse := (List.reverse_perm r).trans (h.trans (List.reverse_perm r').symm)
  cases hl : r.reverse.find? (fun e => e.1 == n) with
  | none =>
    have : r'.reverse.find? (fun e => e.1 == n) = none := by
      rw [List.find?_eq_none] at hl ⊢
      intro x hx; exact hl x (hrev.mem_iff.mpr hx)
    rw [this]
  | some a =>
    have ha : a ∈ r := by simpa using List.mem_of_find?_eq_some hl
    have hpa : (a.1 == n) = true := List.find?_some (p := fun (e : String × Container) => e.1 == n) hl
    cases hl' : r'.reverse.find? (fun e => e.1 == n) with
    | none =>
      rw [List.find?_eq_none] at hl'
      exact absurd hpa (hl' a (hrev.mem_iff.mp (List.mem_of_find?_eq_some hl)))
    | some b =>
      have hb : b ∈ r := h.mem_iff.mpr (by simpa using List.mem_of_find?_eq_some hl')
      have hpb : (b.1 == n) = true := List.find?_some (p := fun (e : String × Container) => e.1 == n) hl'
      simp only [beq_iff_eq] at hpa hpb
      simp [hc a ha b hb (hpa.trans hpb.symm)]

/-! ### consistent renumbering of item ids -/

/-- the renumbering of a type expression -/
def renTy (σ : Nat → Nat) : Ty → Ty
  | .path p id k as => .path p (σ id) k (many as)
  | .qpath n self k as => .qpath n (renTy σ self) k (many as)
  | .prim n => .prim n
  | .tuple ts => .tuple (many ts)
  | .slice t => .slice (renTy σ t)
  | .array t => .array (renTy σ t)
  | .other => .other
  | .nonType => .nonType
where
  many : List Ty → List Ty
    | [] => []
    | t :: ts => renTy σ t :: many ts

def renKind (σ : Nat → Nat) : Kind → Kind
  | .structUnit => .structUnit
  | .structPlain fs => .structPlain (fs.map σ)
  | .structTuple fs => .structTuple (fs.map (Option.map σ))
  | .enum vs => .enum (vs.map σ)
  | .variantPlain => .variantPlain
  | .variantTuple fs => .variantTuple (fs.map (Option.map σ))
  | .variantStruct fs => .variantStruct (fs.map σ)
  | .field t => .field (renTy σ t)
  | .assocType t => .assocType (t.map σ)
  | .impl tr f items => .impl tr (f.map σ) (items.map σ)

def renItem (σ : Nat → Nat) (i : Item) : Item := { i with id := σ i.id, kind := renKind σ i.kind }

/-- `σ crate id`: a renumbering per crate -/
def renNode (σ : String → Nat → Nat) (n : Node) : Node := ⟨n.krate, renItem (σ n.krate) n.item⟩

def renEdges (σ : String → Nat → Nat) (E : Edges) : Edges := E.map fun e => (renNode σ e.1, renNode σ e.2)

def renCrate (σ : Nat → Nat) (c : Crate) : Crate :=
  { c with items := c.items.map (renItem σ), summaries := c.summaries.map fun s => { s with id := σ s.id } }

def Injective (f : Nat → Nat) : Prop := ∀ a b, f a = f b → a = b

theorem renMany_eq_map (σ) : ∀ l, renTy.many σ l = l.map (renTy σ)
  | [] => rfl
  | t :: l => by simp [renTy.many, renMany_eq_map σ l]

mutual
theorem format_ren (σ : Nat → Nat) : ∀ t : Ty, (renTy σ t).format = t.format
  | .path p id k as => by
    cases k <;> simp only [renTy, Ty.format]
    rw [first_ren σ as]
  | .qpath n self k as => by simp [renTy, Ty.format]
  | .prim n => rfl
  | .tuple ts => by simp only [renTy, Ty.format, all_ren σ ts]
  | .slice t => rfl
  | .array t => rfl
  | .other => rfl
  | .nonType => rfl
theorem first_ren (σ : Nat → Nat) : ∀ l : List Ty, Ty.format.first (renTy.many σ l) = Ty.format.first l
  | [] => rfl
  | t :: _ => by simp only [renTy.many, Ty.format.first, format_ren σ t]
theorem all_ren (σ : Nat → Nat) : ∀ l : List Ty, Ty.format.all (renTy.many σ l) = Ty.format.all l
  | [] => rfl
  | t :: l => by simp only [renTy.many, Ty.format.all, format_ren σ t, all_ren σ l]
end

section ren
variable (σ : Nat → Nat)

@[simp] theorem renItem_name (i : Item) : (renItem σ i).name = i.name := rfl
@[simp] theorem renItem_attrs (i : Item) : (renItem σ i).attrs = i.attrs := rfl
@[simp] theorem renItem_id (i : Item) : (renItem σ i).id = σ i.id := rfl
@[simp] theorem renItem_kind (i : Item) : (renItem σ i).kind = renKind σ i.kind := rfl
@[simp] theorem renItem_serdeName (i : Item) : (renItem σ i).serdeName = i.serdeName := rfl

theorem filterMap_optmap (l : List (Option Nat)) :
    List.filterMap ((fun o => o) ∘ Option.map σ) l = List.map σ (List.filterMap (fun o => o) l) := by
  induction l with
  | nil => rfl
  | cons o l ih => cases o <;> simp [ih]

@[simp] theorem renItem_fieldIds (i : Item) : (renItem σ i).fieldIds = i.fieldIds.map σ := by
  rcases i with ⟨id, nm, at_, k⟩
  cases k <;> simp [Item.fieldIds, renItem, renKind, filterMap_optmap]

@[simp] theorem renItem_variantIds (i : Item) : (renItem σ i).variantIds = i.variantIds.map σ := by
  rcases i with ⟨id, nm, at_, k⟩
  cases k <;> simp [Item.variantIds, renItem, renKind]

@[simp] theorem renItem_isEnum (i : Item) : (renItem σ i).isEnum = i.isEnum := by
  rcases i with ⟨id, nm, at_, k⟩
  cases k <;> simp [Item.isEnum, renItem, renKind]

@[simp] theorem renItem_isVariant (i : Item) : (renItem σ i).isVariant = i.isVariant := by
  rcases i with ⟨id, nm, at_, k⟩
  cases k <;> simp [Item.isVariant, renItem, renKind]

theorem contains_map_inj (hσ : Injective σ) (l : List Nat) (a : Nat) : (l.map σ).contains (σ a) = l.contains a := by
  induction l with
  | nil => rfl
  | cons b l ih =>
    have : (σ a == σ b) = (a == b) := by
      by_cases h : a = b
      · subst h; simp
      · have : σ a ≠ σ b := fun e => h (hσ a b e)
        simp [h, this]
    simp only [List.map_cons, List.contains_cons, ih, this]

theorem hasField_ren (hσ : Injective σ) (x f : Item) : hasField (renItem σ x) (renItem σ f) = hasField x f := by
  simp only [hasField, renItem_attrs, renItem_serdeName, renItem_fieldIds, renItem_id, contains_map_inj σ hσ]

theorem hasVariant_ren (hσ : Injective σ) (x f : Item) : hasVariant (renItem σ x) (renItem σ f) = hasVariant x f := by
  simp only [hasVariant, renItem_attrs, renItem_variantIds, renItem_id, contains_map_inj σ hσ]

@[simp] theorem fieldFormat_ren (i : Item) : fieldFormat (renItem σ i) = fieldFormat i := by
  rcases i with ⟨id, nm, at_, k⟩
  cases k <;> simp [fieldFormat, renItem, renKind, format_ren]

@[simp] theorem isRange_ren (i : Item) : isRange (renItem σ i) = isRange i := by
  rcases i with ⟨id, nm, at_, k⟩
  cases k with
  | field t => cases t <;> simp [isRange, renItem, renKind, renTy]
  | _ => simp [isRange, renItem, renKind]

@[simp] theorem isNonType_ren (t : Ty) : (renTy σ t).isNonType = t.isNonType := by
  cases t <;> simp [renTy, Ty.isNonType]

@[simp] theorem mkRange_ren (i : Item) : mkRange (renItem σ i) = mkRange i := by
  rcases i with ⟨id, nm, at_, k⟩
  cases k with
  | field t =>
    cases t with
    | path p id k as =>
      cases k <;> cases as <;> simp [mkRange, renItem, renKind, renTy, renTy.many, format_ren]
    | _ => simp [mkRange, renItem, renKind, renTy]
  | _ => simp [mkRange, renItem, renKind]

end ren

end Lemmas.Codegen
