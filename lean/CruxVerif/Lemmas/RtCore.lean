/- Postconditions of the QueuingExecutor and of Core::process in M.Rt. -/
import CruxVerif.Lemmas.RtExec
namespace M.Rt

theorem execRunTask_missing (etid : Nat) (k k' : Core) (h : execRunTask etid k = some (.missing, k')) : k' = k := by
  unfold execRunTask at h
  split at h
  · cases h; rfl
  · split at h
    · cases h
    · cases h
    · cases h
  · split at h
    · cases h
    · cases h
    · cases h

theorem execDrainSpawn_post : ∀ (f : Nat) (k k' : Core) (d d' : Bool),
    execDrainSpawn f k d = some (k', d') → k'.w.execSpawn = [] := by
  intro f
  induction f with
  | zero => intro k k' d d' h; simp [execDrainSpawn] at h
  | succ f ih =>
    intro k k' d d' h
    unfold execDrainSpawn at h
    split at h
    · rename_i hs; cases h; exact hs
    · simp only at h
      split at h
      · cases h
      · exact ih _ _ _ _ h

/-- if the spawn pass reports no work, it changed nothing -/
theorem execDrainSpawn_nowork : ∀ (f : Nat) (k k' : Core),
    execDrainSpawn f k false = some (k', false) → k' = k := by
  intro f
  induction f with
  | zero => intro k k' h; simp [execDrainSpawn] at h
  | succ f ih =>
    intro k k' h
    unfold execDrainSpawn at h
    split at h
    · cases h; rfl
    · simp only at h
      split at h
      · cases h
      · -- the recursive call carries `did = true`, which is never reset
        exfalso
        rename_i k1 _
        have : ∀ (f : Nat) (k k' : Core) (d' : Bool), execDrainSpawn f k true = some (k', d') → d' = true := by
          intro f
          induction f with
          | zero => intro k k' d' h; simp [execDrainSpawn] at h
          | succ f ih2 =>
            intro k k' d' h
            unfold execDrainSpawn at h
            split at h
            · cases h; rfl
            · simp only at h
              split at h
              · cases h
              · exact ih2 _ _ _ h
        have := this _ _ _ _ h
        cases this

theorem execDrainReady_true : ∀ (f : Nat) (k k' : Core) (d' : Bool),
    execDrainReady f k true = some (k', d') → d' = true := by
  intro f
  induction f with
  | zero => intro k k' d' h; simp [execDrainReady] at h
  | succ f ih =>
    intro k k' d' h
    unfold execDrainReady at h
    split at h
    · cases h; rfl
    · split at h
      · cases h
      · exact ih _ _ _ h
      · exact ih _ _ _ h

theorem execDrainReady_post : ∀ (f : Nat) (k k' : Core) (d d' : Bool),
    execDrainReady f k d = some (k', d') → k'.w.execReady = [] := by
  intro f
  induction f with
  | zero => intro k k' d d' h; simp [execDrainReady] at h
  | succ f ih =>
    intro k k' d d' h
    unfold execDrainReady at h
    split at h
    · rename_i hs; cases h; exact hs
    · split at h
      · cases h
      · exact ih _ _ _ _ h
      · exact ih _ _ _ _ h

/-- if the ready pass reports no work, it only discarded ids of tasks that no longer exist:
    nothing was spawned -/
theorem execDrainReady_nowork : ∀ (f : Nat) (k k' : Core),
    execDrainReady f k false = some (k', false) → k'.w.execSpawn = k.w.execSpawn := by
  intro f
  induction f with
  | zero => intro k k' h; simp [execDrainReady] at h
  | succ f ih =>
    intro k k' h
    unfold execDrainReady at h
    split at h
    · cases h; rfl
    · split at h
      · cases h
      · rename_i hrun
        have := execRunTask_missing _ _ _ hrun
        subst this
        exact ih _ _ h |>.trans rfl
      · exfalso
        have := execDrainReady_true _ _ _ _ h
        cases this

/-- `QueuingExecutor::run_all` returns only with both of its queues empty -/
theorem runAll_post : ∀ (f : Nat) (k k' : Core), runAll f k = some k' →
    k'.w.execSpawn = [] ∧ k'.w.execReady = [] := by
  intro f
  induction f with
  | zero => intro k k' h; simp [runAll] at h
  | succ f ih =>
    intro k k' h
    unfold runAll at h
    split at h
    · cases h
    · rename_i k1 d1 hs
      split at h
      · cases h
      · rename_i k2 d2 hr
        split at h
        · exact ih _ _ h
        · rename_i hd
          cases h
          simp only [Bool.or_eq_true, not_or, Bool.not_eq_true] at hd
          obtain ⟨h1, h2⟩ := hd
          subst h1; subst h2
          refine ⟨?_, execDrainReady_post _ _ _ _ _ hr⟩
          rw [execDrainReady_nowork _ _ _ hr]
          exact execDrainSpawn_post _ _ _ _ _ hs

/-- `update` appends exactly the event to the app's log (the model of the DSL app) -/
theorem update_log (ev : Ev) (k : Core) : (update ev k).log = k.log ++ [ev] := by
  unfold update; simp only

/-- the event loop of `Core::process` returns only when no emitted event is left unapplied, with the executor drained -/
theorem processLoop_post : ∀ (f : Nat) (k k' : Core), processLoop f k = some k' →
    (k.w.execSpawn = [] ∧ k.w.execReady = []) →
    k'.w.coreEvents = [] ∧ k'.w.execSpawn = [] ∧ k'.w.execReady = [] := by
  intro f
  induction f with
  | zero => intro k k' h; simp [processLoop] at h
  | succ f ih =>
    intro k k' h hq
    unfold processLoop at h
    split at h
    · rename_i he; cases h; exact ⟨he, hq.1, hq.2⟩
    · split at h
      · cases h
      · rename_i k1 hr
        exact ih _ _ h (runAll_post _ _ _ hr)

/-- C01 at the Core level: when `Core::process` returns, the returned list is exactly the content of the request
    channel, that channel and the event channel are empty, and the executor has neither runnable nor unspawned tasks. -/
theorem process_post (k k' : Core) (effs : List Eff) (h : process k = some (effs, k')) :
    k'.w.coreEffects = [] ∧ k'.w.coreEvents = [] ∧ k'.w.execSpawn = [] ∧ k'.w.execReady = [] := by
  unfold process at h
  split at h
  · cases h
  · rename_i k1 hr
    split at h
    · cases h
    · rename_i k2 hl
      cases h
      obtain ⟨h1, h2, h3⟩ := processLoop_post _ _ _ hl (runAll_post _ _ _ hr)
      exact ⟨rfl, h1, h2, h3⟩

/-- the effects a call returns are exactly what sat in the request channel when the event loop ended: handed over once,
    and removed from the channel -/
theorem process_returns_channel (k k' : Core) (effs : List Eff) (h : process k = some (effs, k')) :
    ∃ k2 : Core, effs = k2.w.coreEffects ∧ k' = { k2 with w := { k2.w with coreEffects := [] } } := by
  unfold process at h
  split at h
  · cases h
  · split at h
    · cases h
    · rename_i k2 _
      cases h
      exact ⟨k2, rfl, rfl⟩

end M.Rt

namespace M.Rt

/-! only `update` touches the app's log: running tasks never does -/

theorem execRunTask_log (etid : Nat) (k k' : Core) (r : RunTask) (h : execRunTask etid k = some (r, k')) :
    k'.log = k.log ∧ k'.prog = k.prog := by
  unfold execRunTask at h
  split at h
  · cases h; exact ⟨rfl, rfl⟩
  · split at h
    · cases h
    · cases h; exact ⟨rfl, rfl⟩
    · cases h; exact ⟨rfl, rfl⟩
  · split at h
    · cases h
    · cases h; exact ⟨rfl, rfl⟩
    · cases h; exact ⟨rfl, rfl⟩

theorem execDrainSpawn_log : ∀ (f : Nat) (k k' : Core) (d d' : Bool),
    execDrainSpawn f k d = some (k', d') → k'.log = k.log ∧ k'.prog = k.prog := by
  intro f
  induction f with
  | zero => intro k k' d d' h; simp [execDrainSpawn] at h
  | succ f ih =>
    intro k k' d d' h
    unfold execDrainSpawn at h
    split at h
    · cases h; exact ⟨rfl, rfl⟩
    · simp only at h
      split at h
      · cases h
      · rename_i hrun
        have h1 := execRunTask_log _ _ _ _ hrun
        have h2 := ih _ _ _ _ h
        exact ⟨h2.1.trans h1.1, h2.2.trans h1.2⟩

theorem execDrainReady_log : ∀ (f : Nat) (k k' : Core) (d d' : Bool),
    execDrainReady f k d = some (k', d') → k'.log = k.log ∧ k'.prog = k.prog := by
  intro f
  induction f with
  | zero => intro k k' d d' h; simp [execDrainReady] at h
  | succ f ih =>
    intro k k' d d' h
    unfold execDrainReady at h
    split at h
    · cases h; exact ⟨rfl, rfl⟩
    · split at h
      · cases h
      · rename_i hrun
        have h1 := execRunTask_log _ _ _ _ hrun
        have h2 := ih _ _ _ _ h
        exact ⟨h2.1.trans h1.1, h2.2.trans h1.2⟩
      · rename_i hrun
        have h1 := execRunTask_log _ _ _ _ hrun
        have h2 := ih _ _ _ _ h
        exact ⟨h2.1.trans h1.1, h2.2.trans h1.2⟩

theorem runAll_log : ∀ (f : Nat) (k k' : Core), runAll f k = some k' → k'.log = k.log ∧ k'.prog = k.prog := by
  intro f
  induction f with
  | zero => intro k k' h; simp [runAll] at h
  | succ f ih =>
    intro k k' h
    unfold runAll at h
    split at h
    · cases h
    · rename_i hs
      have h1 := execDrainSpawn_log _ _ _ _ _ hs
      split at h
      · cases h
      · rename_i hr
        have h2 := execDrainReady_log _ _ _ _ _ hr
        split at h
        · have h3 := ih _ _ h
          exact ⟨h3.1.trans (h2.1.trans h1.1), h3.2.trans (h2.2.trans h1.2)⟩
        · cases h
          exact ⟨h2.1.trans h1.1, h2.2.trans h1.2⟩

/-- the event loop applies the event at the head of the channel next, and only appends to the log -/
theorem processLoop_log : ∀ (f : Nat) (k k' : Core), processLoop f k = some k' →
    ∃ evs, k'.log = k.log ++ evs ∧ (∀ ev rest, k.w.coreEvents = ev :: rest → ∃ evs', evs = ev :: evs') := by
  intro f
  induction f with
  | zero => intro k k' h; simp [processLoop] at h
  | succ f ih =>
    intro k k' h
    unfold processLoop at h
    split at h
    · rename_i he
      cases h
      exact ⟨[], by simp, by intro ev rest hc; rw [he] at hc; cases hc⟩
    · rename_i ev rest he
      split at h
      · cases h
      · rename_i k1 hr
        obtain ⟨evs, hlog, _⟩ := ih _ _ h
        have h1 := (runAll_log _ _ _ hr).1
        rw [update_log] at h1
        refine ⟨ev :: evs, ?_, ?_⟩
        · rw [hlog, h1]; simp
        · intro ev' rest' hc
          rw [he] at hc
          cases hc
          exact ⟨evs, rfl⟩

end M.Rt
