/- `CInv` over every history of the Core host (events, resolutions, drops, aborts, probes). -/
import CruxVerif.Lemmas.GCore
namespace M.Rt

theorem X_resolveReq (r : Resolve) (v : Val) (w : World) : X (resolveReq r v w).2.2 = X w := by
  unfold resolveReq
  split
  · rfl
  · rfl
  · simp only
    split
    · rw [X_dropSender]
      split
      · rw [X_World_wake]; rfl
      · rfl
    · exact X_dropSender w _
  · simp only
    split
    · split
      · rw [X_World_wake]; rfl
      · rfl
    · rfl

theorem X_dropReq (r : Resolve) (w : World) : X (dropReq r w).2 = X w := by
  unfold dropReq
  split
  · exact X_dropSender w _
  · exact X_dropSender w _
  · rfl
  · rfl

end M.Rt

namespace M.Hosts
open M.Rt

theorem X_doAbort (n : Nat) (w : World) : X (doAbort n w) = X w := by
  unfold doAbort
  split
  · exact X_abortCmd w _
  · rfl

theorem CoreHost.afterCall_c (res : String) (effs : List Eff) (oldLen : Nat) (trigger : Option Ev) (h : CoreHost)
    (o : Obs) (h' : CoreHost) (hc : CoreHost.afterCall res effs oldLen trigger h = some (o, h')) (hw : CInv h.k) :
    CInv h'.k := by
  unfold CoreHost.afterCall at hc
  simp only [CoreHost.record] at hc
  cases hp : processEvent ⟨probeTag, 0⟩ h.k with
  | none => simp [hp] at hc
  | some p =>
    obtain ⟨peffs, k⟩ := p
    simp [hp] at hc
    obtain ⟨_, rfl⟩ := hc
    exact processEvent_c _ _ _ _ hp hw

theorem CoreHost.step_c (h : CoreHost) (a : Action) (o : Obs) (h' : CoreHost) (hs : h.step a = some (o, h'))
    (hw : CInv h.k) : CInv h'.k := by
  unfold CoreHost.step at hs
  simp only at hs
  cases a with
  | ev tag v =>
    simp only at hs
    cases hp : processEvent ⟨tag, v⟩ h.k with
    | none => simp [hp] at hs
    | some p =>
      obtain ⟨effs, k⟩ := p
      simp [hp] at hs
      exact CoreHost.afterCall_c _ _ _ _ _ _ _ hs (processEvent_c _ _ _ _ hp hw)
  | res kk v =>
    simp only at hs
    split at hs
    · exact CoreHost.afterCall_c _ _ _ _ _ _ _ hs hw
    · rename_i reqs res w1 hr
      have k1 : CInv { h.k with w := w1 } := by
        unfold shellResolve at hr
        split at hr
        · cases hr
        · rename_i e _
          simp only [Option.some.injEq, Prod.mk.injEq] at hr
          obtain ⟨_, _, rfl⟩ := hr
          exact hw.same _ (tk0_resolveReq e.res v h.k.w) (fun l => G_resolveReq l e.res v h.k.w) (len_resolveReq e.res v h.k.w)
            (es_of_X (X_resolveReq e.res v h.k.w))
      split at hs
      · split at hs
        · cases hs
        · rename_i effs k2 hpr
          exact CoreHost.afterCall_c _ _ _ _ _ _ _ hs (process_c _ _ _ hpr k1)
      · exact CoreHost.afterCall_c _ _ _ _ _ _ _ hs k1
  | drop kk =>
    simp only at hs
    split at hs
    · exact CoreHost.afterCall_c _ _ _ _ _ _ _ hs hw
    · rename_i reqs w1 hr
      refine CoreHost.afterCall_c _ _ _ _ _ _ _ hs ?_
      unfold shellDrop at hr
      split at hr
      · cases hr
      · rename_i e _
        simp only [Option.some.injEq, Prod.mk.injEq] at hr
        obtain ⟨_, rfl⟩ := hr
        exact hw.same _ (tk0_dropReq e.res h.k.w) (fun l => G_dropReq l e.res h.k.w) (len_dropReq e.res h.k.w)
          (es_of_X (X_dropReq e.res h.k.w))
  | abort n =>
    simp only at hs
    refine CoreHost.afterCall_c _ _ _ _ _ _ _ hs ?_
    show CInv { h.k with w := doAbort n h.k.w }
    refine hw.same _ ?_ ?_ ?_ (es_of_X (X_doAbort n h.k.w))
    · unfold doAbort; split
      · exact tk_abortCmd _ _
      · exact TKp.refl _
    · intro l; unfold doAbort; split
      · exact G_abortCmd l _ _
      · rfl
    · unfold doAbort; split
      · exact len_abortCmd _ _
      · rfl
  | poll => exact CoreHost.afterCall_c _ _ _ _ _ _ _ hs hw
  | rawRes _ _ _ => simp at hs
  | rawEv _ _ => simp at hs

theorem CInv_init (prog : Prog) (hp : progHF prog) : CInv ({ prog := prog } : Core) := by
  refine ⟨HL_empty, ?_, ?_, ?_, hp⟩
  · intro t ht; cases ht
  · intro t ht; cases ht
  · intro l
    have : G l ({} : World) = 0 := rfl
    have : E l ({ prog := prog } : Core) = 0 := rfl
    show G l ({} : World) + E l ({ prog := prog } : Core) ≤ _
    omega

/-- **The hosting order and channel ownership hold in every state a Core reaches.** For every app whose commands have
    host-free task bodies (any nesting of combinators) and whose legacy capability tasks are host-free, after every history
    of events, resolutions, drops, aborts and probes: hosted commands sit below their hosts, and — summed over all commands,
    the executor's tasks and its spawn queue — every request channel is referenced by at most one suspended or queued task. -/
theorem runCore_c (prog : Prog) (hp : progHF prog) (canon : Bool) (acts : List Action) (os : List Obs) (h : CoreHost)
    (hr : runCore prog canon acts = some (os, h)) : CInv h.k := by
  unfold runCore at hr
  exact runSteps_inv CoreHost.step (fun h => CInv h.k) CoreHost.step_c acts _ os h hr (CInv_init prog hp)

end M.Hosts
