/-
Global parking under the Core host (flat apps): while one command runs, the tasks of every OTHER command keep their status
(queued / aborted / live-parked); then the Core-level invariant.  Part 1: the effect of a run on other commands.
-/
import CruxVerif.Lemmas.Occ
namespace M.Rt

/-- tasks of `c'` and of the polled task of `cid` reference different channels -/
def Disj (w : World) (cid tid c' : Nat) : Prop :=
  ∀ t, (w.cmd cid).tasks.get? tid = some t → ∀ tid' t', (w.cmd c').tasks.get? tid' = some t' → ∀ l ∈ refsB t'.fut, l ∉ refsB t.fut

theorem runTask_gpo (cid tid : Nat) (w : World) (st : TaskState) (w' : World) (h : runTask cid tid w = some (st, w'))
    (hft : ∀ t ∈ (w.cmd cid).tasks.values, hostFreeB t.fut = true) (hwf : WFw w) (c' : Nat) (hne : c' ≠ cid)
    (hd : Disj w cid tid c') (hg : GP c' none w) : GP c' none w' ∧ (w'.cmd c').tasks = (w.cmd c').tasks := by
  unfold runTask runTaskF at h
  split at h
  · simp only [Option.some.injEq, Prod.mk.injEq] at h; obtain ⟨_, rfl⟩ := h; exact ⟨hg, rfl⟩
  · rename_i t hget
    have htf : hostFreeB t.fut = true := hft t (Slab.mem_values_of_get _ _ _ hget)
    split at h
    · simp only [Option.some.injEq, Prod.mk.injEq] at h; obtain ⟨_, rfl⟩ := h; exact ⟨hg, rfl⟩
    · dsimp only at h
      generalize hw0 : ({ w with nextSerial := w.nextSerial + 1 } : World) = w0 at h
      have e0l : w0.leaves = w.leaves := by subst hw0; rfl
      have e0m : w0.metas = w.metas := by subst hw0; rfl
      have e0c : w0.cmds = w.cmds := by subst hw0; rfl
      have pollfacts : ∀ (r : PollRes) (w1 : World), pollAt depthFuel (.task cid tid w.nextSerial) (.cmd cid) t.fut w0 = some (r, w1) →
          (w1.cmd c').tasks = (w.cmd c').tasks ∧ GP c' none w1 := by
        intro r w1 hp
        rw [pollAt_eq] at hp
        have q := pollBlock_qs _ _ _ _ _ _ _ _ hp htf
        have et : (w1.cmd c').tasks = (w.cmd c').tasks := by
          rw [(q.other c' (fun e => hne (Option.some.inj e))).1, cmd_of_cmds e0c]
        refine ⟨et, ?_⟩
        intro tid' t' hg' _
        rw [et] at hg'
        rcases hg tid' t' hg' (fun e => by cases e) with hpk | hpk | ⟨s, hpk⟩
        · refine Or.inl ?_
          have : RD c' tid' w0 := by unfold RD; rw [cmd_of_cmds e0c]; exact hpk
          exact (pollBlock_jrgood _ 0 (.root 0) c' tid' _ _ _ _ _ _ _ hp htf).2 this
        · exact Or.inr (Or.inl (q.metaA _ (by rw [getMeta_of_metas e0m]; exact hpk)))
        · refine Or.inr (Or.inr ⟨s, ?_⟩)
          have hr' : inRangeB w0.leaves.length w0.metas.length t'.fut = true := by
            rw [e0l, e0m]; exact hwf.t c' t' (Slab.mem_values_of_get _ _ _ hg')
          exact poll_keeps_others_parked _ _ _ _ _ _ _ _ hp htf _ t'.fut hr' (hd t hget tid' t' hg') (LPB.of_same _ e0l e0m _ hpk)
      -- changes of `cid` alone, and of `woken`, are invisible to `c'`
      have other : ∀ (W : World) (f : CmdSt → CmdSt) (pf : Nat → Bool), (W.cmd c').tasks = (w.cmd c').tasks → GP c' none W →
          (({ (W.modCmd cid f) with woken := (W.modCmd cid f).woken.filter pf } : World).cmd c').tasks = (w.cmd c').tasks ∧
          GP c' none ({ (W.modCmd cid f) with woken := (W.modCmd cid f).woken.filter pf } : World) := by
        intro W f pf et g
        have ec : (({ (W.modCmd cid f) with woken := (W.modCmd cid f).woken.filter pf } : World).cmd c') = W.cmd c' :=
          World.cmd_modCmd_other W cid c' f (Ne.symm hne)
        refine ⟨by rw [ec]; exact et, ?_⟩
        intro tid' t' hg' hx
        rw [ec] at hg'
        exact (g tid' t' hg' hx).of_same rfl rfl (fun x hx' => by rw [ec]; exact hx')
      split at h
      · cases h
      · rename_i env1 w1 hpoll
        simp only [Option.some.injEq, Prod.mk.injEq] at h
        obtain ⟨_, rfl⟩ := h
        exact ⟨(pollfacts _ _ hpoll).2, (pollfacts _ _ hpoll).1⟩
      · rename_i b w1 hpoll
        obtain ⟨pt, pg⟩ := pollfacts _ _ hpoll
        split at h
        · simp only [Option.some.injEq, Prod.mk.injEq] at h; obtain ⟨_, rfl⟩ := h
          have := other w1 (fun c => { c with tasks := c.tasks.set tid { t with fut := b } }) (fun x => x != w.nextSerial) pt pg
          exact ⟨this.2, this.1⟩
        · simp only [Option.some.injEq, Prod.mk.injEq] at h; obtain ⟨_, rfl⟩ := h
          have := other w1 (fun c => { c with tasks := c.tasks.set tid { t with fut := b } }) (fun x => x != w.nextSerial) pt pg
          exact ⟨this.2, this.1⟩

end M.Rt

namespace M.Rt

/-- finishing a task (of any command) keeps the status of any task description of a live command: a waiter on the finished
    task's join handle is queued by the wake-up, everything else is untouched -/
theorem finishTask_pk (cid tid : Nat) (w : World) (hft : ∀ t ∈ (w.cmd cid).tasks.values, hostFreeB t.fut = true)
    (c' tid' : Nat) (t' : Task) (hal : (w.cmd c').alive = true) (hin : c' < w.cmds.length) (hpk : Pk c' w tid' t') :
    Pk c' (finishTask cid tid w) tid' t' := by
  unfold finishTask
  simp only
  split
  · exact hpk
  · rename_i t tasks heq
    have hget : (w.cmd cid).tasks.get? tid = some t := by
      cases hgt : (w.cmd cid).tasks.get? tid with
      | none => rw [Slab.remove_none _ _ hgt] at heq; cases heq
      | some t2 =>
        have := (Slab.remove_get _ _ _ hgt).1
        rw [heq] at this; simp only [Option.some.injEq] at this; rw [this]
    have htf := hft t (Slab.mem_values_of_get _ _ _ hget)
    generalize hw1 : (w.modCmd cid fun x => { x with tasks := tasks }) = w1
    have q1 : QS (some cid) w w1 := by subst hw1; exact QS.modCmd_me w cid _ (fun _ => rfl) (fun _ => rfl) (fun _ => rfl)
    have e1l : w1.leaves = w.leaves := by subst hw1; rfl
    have e1m : w1.metas = w.metas := by subst hw1; rfl
    have p1 : Pk c' w1 tid' t' := by
      refine hpk.of_same e1l e1m ?_
      intro x hx
      subst hw1
      exact rd_modCmd_keep (c := c') (x := x) cid _ (fun _ => rfl) hx
    have a1 : (w1.cmd c').alive = true := by rw [q1.alive c']; exact hal
    have n1 : c' < w1.cmds.length := by rw [q1.len]; exact hin
    generalize hks : (w1.getMeta t.serial).joinWakers = ks
    generalize hw2 : (w1.modMeta t.serial fun m => { m with finished := true, joinWakers := [] }) = w2
    have e2l : w2.leaves = w1.leaves := by subst hw2; rfl
    have e2c : w2.cmds = w1.cmds := by subst hw2; rfl
    have e2j : (w2.getMeta t.serial).joinWakers = [] := by
      subst hw2
      rw [getMeta_modMeta w1 t.serial t.serial _ (Or.inr trivial)]
      simp only [if_true]
      cases w1.metas[t.serial]? <;> rfl
    have e2o : ∀ s, s ≠ t.serial → w2.getMeta s = w1.getMeta s := by
      intro s hs; subst hw2
      rw [getMeta_modMeta w1 t.serial s _ (Or.inr trivial), if_neg (Ne.symm hs)]
    have e2ab : ∀ s, (w1.getMeta s).aborted = true → (w2.getMeta s).aborted = true := by
      intro s hs
      by_cases e : s = t.serial
      · subst e; subst hw2
        rw [getMeta_modMeta w1 t.serial t.serial _ (Or.inr trivial)]
        simp only [if_true]
        unfold World.getMeta at hs
        cases hm : w1.metas[t.serial]? with
        | none => simp [hm] at hs
        | some m => simp only [hm, Option.getD_some] at hs ⊢; exact hs
      · rw [e2o s e]; exact hs
    generalize hw3 : w2.wakeAll ks = w3
    have e3 := wakeAll_lm ks w2
    rw [hw3] at e3
    have e3j : (w3.getMeta t.serial).joinWakers = [] := by rw [getMeta_of_metas e3.2]; exact e2j
    -- status in `w3`
    have p3 : Pk c' w3 tid' t' := by
      by_cases hq : ∃ s, Waker.task c' tid' s ∈ ks
      · obtain ⟨s, hs⟩ := hq
        refine Or.inl ?_
        rw [← hw3]
        exact wakeAll_queues c' tid' s ks w2 (by rw [cmd_of_cmds e2c]; exact a1) (by rw [e2c]; exact n1) hs
      · rcases p1 with h1 | h1 | ⟨s, h1⟩
        · refine Or.inl ?_
          have : RD c' tid' w2 := by unfold RD; rw [cmd_of_cmds e2c]; exact h1
          rw [← hw3]; exact rd_wakeAll ks w2 this
        · exact Or.inr (Or.inl (by rw [getMeta_of_metas e3.2]; exact e2ab _ h1))
        · refine Or.inr (Or.inr ⟨s, ?_⟩)
          have hq' : Waker.task c' tid' s ∉ (w1.getMeta t.serial).joinWakers := by
            intro hs; rw [hks] at hs; exact hq ⟨s, hs⟩
          have l2 : LPB (.task c' tid' s) w2 t'.fut :=
            LPB.clearJoin _ w1 w2 t.serial (by rw [e2l]; exact Nat.le_refl _) (fun l => by rw [pleaf_of_leaves e2l])
              (fun s' hs' hm => by rw [e2o s' hs']; exact hm) hq' _ h1
          exact LPB.of_same _ e3.1 e3.2 _ l2
    -- the task itself is dropped
    unfold World.dropTask M.Rt.dropTask
    simp only
    generalize hw5 : (w3.modMeta t.serial fun m => { m with taskAlive := false, joinWakers := [] }) = w5
    have k := dropBlock_keeps (fun c w => w.dropCmd c) t.fut w5 htf
    have e5l : w5.leaves = w3.leaves := by subst hw5; rfl
    have e5c : w5.cmds = w3.cmds := by subst hw5; rfl
    rcases p3 with h3 | h3 | ⟨s, h3⟩
    · refine Or.inl ?_
      rw [cmd_of_cmds k.2.2.2, cmd_of_cmds e5c]; exact h3
    · refine Or.inr (Or.inl ?_)
      rw [getMeta_of_metas k.2.1]
      subst hw5
      rw [getMeta_modMeta w3 t.serial t'.serial _ (Or.inr trivial)]
      split
      · rename_i e
        unfold World.getMeta at h3
        rw [← e] at h3
        cases hm : w3.metas[t.serial]? with
        | none => simp [hm] at h3
        | some m => simp only [hm, Option.getD_some] at h3 ⊢; exact h3
      · exact h3
    · refine Or.inr (Or.inr ⟨s, ?_⟩)
      have h5 : LPB (.task c' tid' s) w5 t'.fut := by
        refine LPB.clearJoin _ w3 w5 t.serial (by rw [e5l]; exact Nat.le_refl _) (fun l => by rw [pleaf_of_leaves e5l]) ?_
          (by rw [e3j]; simp) _ h3
        intro s' hs' hm
        subst hw5
        rw [getMeta_modMeta w3 t.serial s' _ (Or.inr trivial), if_neg (Ne.symm hs')]; exact hm
      exact LPB.frame _ w5 _ (by rw [k.2.2.1]; exact Nat.le_refl _) (fun s' hs' => by rw [getMeta_of_metas k.2.1]; exact hs') _
        (fun l _ => k.1 l) h5

theorem finishTask_gpo (cid tid : Nat) (w : World) (hfc : HFc cid w) (c' : Nat) (hne : c' ≠ cid)
    (hal : (w.cmd c').alive = true) (hin : c' < w.cmds.length) (hg : GP c' none w) :
    GP c' none (finishTask cid tid w) ∧ ((finishTask cid tid w).cmd c').tasks = (w.cmd c').tasks := by
  have q := (finishTask_q cid tid w hfc).1
  have et := (q.other c' (fun e => hne (Option.some.inj e))).1
  refine ⟨?_, et⟩
  intro tid' t' hg' hx
  rw [et] at hg'
  exact finishTask_pk cid tid w hfc.t c' tid' t' hal hin (hg tid' t' hg' hx)

theorem spawnNewTasks_gpo (cid : Nat) (w : World) (hfc : HFc cid w) (c' : Nat) (hne : c' ≠ cid) (hg : GP c' none w) :
    GP c' none (spawnNewTasks cid w) ∧ ((spawnNewTasks cid w).cmd c').tasks = (w.cmd c').tasks := by
  have q := (spawnNewTasks_q cid w hfc).1
  have o := q.other c' (fun e => hne (Option.some.inj e))
  have hl : (spawnNewTasks cid w).leaves = w.leaves ∧ (spawnNewTasks cid w).metas = w.metas := by
    unfold spawnNewTasks
    have fold : ∀ (l : List Task) (W : World),
        (l.foldl (fun w t => w.modCmd cid fun c => { c with tasks := (c.tasks.insert t).2, ready := c.ready ++ [(c.tasks.insert t).1] }) W).leaves = W.leaves ∧
        (l.foldl (fun w t => w.modCmd cid fun c => { c with tasks := (c.tasks.insert t).2, ready := c.ready ++ [(c.tasks.insert t).1] }) W).metas = W.metas := by
      intro l
      induction l with
      | nil => intro W; exact ⟨rfl, rfl⟩
      | cons t l ih => intro W; simp only [List.foldl_cons]; exact ih _
    exact fold _ _
  refine ⟨?_, o.1⟩
  intro tid' t' hg' hx
  rw [o.1] at hg'
  refine (hg tid' t' hg' hx).of_same hl.1 hl.2 ?_
  intro x hx'
  rcases q.work c' (fun e => hne (Option.some.inj e)) with h | h
  · rw [h]; exact hx'
  · -- ready queues of other commands are untouched by spawning
    have : (spawnNewTasks cid w).cmd c' = w.cmd c' := by
      unfold spawnNewTasks
      have fold : ∀ (l : List Task) (W : World),
          (l.foldl (fun w t => w.modCmd cid fun c => { c with tasks := (c.tasks.insert t).2, ready := c.ready ++ [(c.tasks.insert t).1] }) W).cmd c' = W.cmd c' := by
        intro l
        induction l with
        | nil => intro W; rfl
        | cons t l ih => intro W; simp only [List.foldl_cons]; rw [ih]; exact World.cmd_modCmd_other W cid c' _ (Ne.symm hne)
      rw [fold]; exact World.cmd_modCmd_other w cid c' _ (Ne.symm hne)
    rw [this]; exact hx'

end M.Rt

namespace M.Rt

theorem hostsLtB_of_free (p : Nat) : ∀ (b : Block), hostFreeB b = true → hostsLtB p b = true := by
  have key : ∀ n (b : Block), sizeOf b ≤ n → hostFreeB b = true → hostsLtB p b = true := by
    intro n
    induction n with
    | zero => intro b hb; cases b; simp at hb
    | succ n ih =>
      intro b hb hf
      obtain ⟨env, cur, rest⟩ := b
      simp only [Block.mk.sizeOf_spec] at hb
      simp only [hostFreeB, Bool.and_eq_true] at hf
      simp only [hostsLtB, Bool.and_eq_true]
      refine ⟨?_, hostsLtIs_of_free p rest hf.2⟩
      cases cur with
      | idle => simp [hostsLtP]
      | reqDead => simp [hostsLtP]
      | await s => simp [hostsLtP]
      | selfwake s => simp [hostsLtP]
      | req x l => simp [hostsLtP]
      | streamWait x l c lim body => simp only [hostFreeP] at hf; simp only [hostsLtP]; exact hostsLtIs_of_free p body hf.1
      | streamBody x l c lim body inner =>
        simp only [hostFreeP, Bool.and_eq_true] at hf
        simp only [hostsLtP, Bool.and_eq_true]
        simp only [Pend.streamBody.sizeOf_spec] at hb
        exact ⟨hostsLtIs_of_free p body hf.1.1, ih inner (by omega) hf.1.2⟩
      | join a b ad bd =>
        simp only [hostFreeP, Bool.and_eq_true] at hf
        simp only [hostsLtP, Bool.and_eq_true]
        simp only [Pend.join.sizeOf_spec] at hb
        exact ⟨ih a (by omega) hf.1.1, ih b (by omega) hf.1.2⟩
      | select a b =>
        simp only [hostFreeP, Bool.and_eq_true] at hf
        simp only [hostsLtP, Bool.and_eq_true]
        simp only [Pend.select.sizeOf_spec] at hb
        exact ⟨ih a (by omega) hf.1.1, ih b (by omega) hf.1.2⟩
      | host c m => simp [hostFreeP] at hf
  intro b
  exact key _ b (Nat.le_refl _)

theorem HL_of_hf {w : World} (h : ∀ c, HFc c w) : HL w :=
  ⟨fun q t ht => hostsLtB_of_free q _ ((h q).t t ht), fun q t ht => hostsLtB_of_free q _ ((h q).s t ht)⟩

theorem cmdCnt_le_G (l : Nat) (w : World) (c : Nat) : cmdCnt l (w.cmd c) ≤ G l w := by
  unfold G World.cmd
  generalize w.cmds = L
  induction L generalizing c with
  | nil => simp [cmdCnt_default]
  | cons x xs ih =>
    cases c with
    | zero => simp
    | succ c =>
      simp only [List.getElem?_cons_succ, List.map_cons, List.sum_cons]
      have := ih c
      omega

theorem cmdCnt2_le_G (l : Nat) (w : World) (c c' : Nat) (hne : c ≠ c') : cmdCnt l (w.cmd c) + cmdCnt l (w.cmd c') ≤ G l w := by
  unfold G World.cmd
  generalize w.cmds = L
  induction L generalizing c c' with
  | nil => simp [cmdCnt_default]
  | cons x xs ih =>
    cases c with
    | zero =>
      cases c' with
      | zero => exact absurd rfl hne
      | succ c' =>
        simp only [List.getElem?_cons_zero, Option.getD_some, List.getElem?_cons_succ, List.map_cons, List.sum_cons]
        have := cmdCnt_le_G l ⟨xs, [], [], 0, [], [], [], [], [], [], []⟩ c'
        simp only [G, World.cmd] at this
        omega
    | succ c =>
      cases c' with
      | zero =>
        simp only [List.getElem?_cons_zero, Option.getD_some, List.getElem?_cons_succ, List.map_cons, List.sum_cons]
        have := cmdCnt_le_G l ⟨xs, [], [], 0, [], [], [], [], [], [], []⟩ c
        simp only [G, World.cmd] at this
        omega
      | succ c' =>
        simp only [List.getElem?_cons_succ, List.map_cons, List.sum_cons]
        have := ih c c' (fun e => hne (by rw [e]))
        omega

theorem count_le_cmdCnt (l : Nat) (x : CmdSt) (tid : Nat) (t : Task) (h : x.tasks.get? tid = some t) :
    (taskRefs t).count l ≤ cmdCnt l x := by
  unfold cmdCnt cnt
  have r := Slab.sum_remove (fun t => (taskRefs t).count l) x.tasks tid t h
  omega

/-- global ownership gives disjointness across commands -/
theorem disj_of_bound (w : World) (cid tid c' : Nat) (hne : c' ≠ cid) (hb : ∀ l, G l w ≤ 1) : Disj w cid tid c' := by
  intro t hg tid' t' hg' l hl hl2
  have a := count_le_cmdCnt l (w.cmd cid) tid t hg
  have b := count_le_cmdCnt l (w.cmd c') tid' t' hg'
  have c := cmdCnt2_le_G l w cid c' (Ne.symm hne)
  have c1 : 0 < (taskRefs t).count l := List.count_pos_iff.mpr hl2
  have c2 : 0 < (taskRefs t').count l := List.count_pos_iff.mpr hl
  have := hb l
  omega

end M.Rt

namespace M.Rt

/-- the loop invariant of a command's run inside a flat Core -/
structure RunInv (cid : Nat) (e : Nat → Nat) (ex : Option Nat) (w : World) : Prop where
  gb : ∀ l, G l w + e l ≤ bnd w l
  sok : SOk w
  wfw : WFw w
  hfa : ∀ c, HFc c w
  alive : (w.cmd cid).alive = true
  inr : cid < w.cmds.length
  swf : Slab.WF (w.cmd cid).tasks
  gp : GP cid ex w
  gpo : ∀ c', c' ≠ cid → (w.cmd c').alive = true → c' < w.cmds.length → GP c' none w

theorem bnd_le_one (w : World) (l : Nat) : bnd w l ≤ 1 := by unfold bnd; split <;> omega

theorem RunInv.own {cid : Nat} {e : Nat → Nat} {ex : Option Nat} {w : World} (h : RunInv cid e ex w) : Own cid w :=
  Own.of_bound (h.hfa cid).t (h.hfa cid).s (fun l => by have := cmdCnt_le_G l w cid; have := h.gb l; omega)

theorem RunInv.ctx {cid : Nat} {e : Nat → Nat} {ex : Option Nat} {w : World} (h : RunInv cid e ex w) : Ctx cid w :=
  ⟨h.own, h.sok, h.wfw, h.alive, h.inr⟩

theorem RunInv.g1 {cid : Nat} {e : Nat → Nat} {ex : Option Nat} {w : World} (h : RunInv cid e ex w) (l : Nat) : G l w ≤ 1 := by
  have := h.gb l; have := bnd_le_one w l; omega

theorem RunInv.gb_step {cid : Nat} {e : Nat → Nat} {ex : Option Nat} {w w' : World} (h : RunInv cid e ex w)
    (g : GLe w [] w' []) : ∀ l, G l w' + e l ≤ bnd w' l := by
  intro l
  have a := g.cnt l
  simp only [List.count_nil, Nat.zero_add] at a
  have b := fresh_bnd w w' g.len l _ (h.gb l)
  omega

theorem RunInv.pop {cid : Nat} {e : Nat → Nat} {w : World} (h : RunInv cid e none w) (tid : Nat) (rest : List Nat)
    (hrd : (w.cmd cid).ready = tid :: rest) : RunInv cid e (some tid) (w.modCmd cid fun c => { c with ready := rest }) := by
  have hw := h
  generalize hw0 : (w.modCmd cid fun c => { c with ready := rest }) = w0
  have e0t : (w0.cmd cid).tasks = (w.cmd cid).tasks := by subst hw0; refine cmd_modCmd_keep (·.tasks) w cid _ ?_; intro _; rfl
  obtain ⟨x0, hx0⟩ : ∃ x, w.cmds[cid]? = some x := ⟨_, List.getElem?_eq_getElem h.inr⟩
  have e0r : (w0.cmd cid).ready = rest := by subst hw0; rw [World.cmd_modCmd_self]; simp [hx0]
  have q0 : QS (some cid) w w0 := by subst hw0; exact QS.modCmd_me w cid _ (fun _ => rfl) (fun _ => rfl) (fun _ => rfl)
  have hsk : SOkN w.nextSerial w0 := by
    subst hw0; refine SOkN.modCmd h.sok cid _ ?_; intro _ hx; exact hx
  refine ⟨?_, (SOk.step (w1 := w0) h.sok (by subst hw0; rfl) hsk).1, ?_, ?_, by rw [q0.alive cid]; exact h.alive,
    by rw [q0.len]; exact h.inr, by rw [e0t]; exact h.swf, ?_, ?_⟩
  · intro l
    have : G l w0 = G l w := by subst hw0; refine G_modCmd_same l w cid _ ?_ ?_ <;> (intro _; rfl)
    have hb : bnd w0 l = bnd w l := by subst hw0; rfl
    rw [this, hb]; exact h.gb l
  · subst hw0; exact h.wfw.modCmd_gen cid _ (fun _ _ h => Or.inl h) (fun _ _ h => Or.inl h)
  · intro c
    by_cases ec : cid = c
    · subst ec; subst hw0; exact (h.hfa cid).modCmd _ (fun _ _ h => Or.inl h) (fun _ _ h => Or.inl h)
    · exact (h.hfa c).of_qs q0 ec
  · intro tid' t' hg' hne
    rw [e0t] at hg'
    have hne' : tid' ≠ tid := fun e => hne (by rw [e])
    rcases h.gp tid' t' hg' (fun e => by cases e) with hpk | hpk | ⟨s, hpk⟩
    · refine Or.inl ?_
      rw [e0r]; rw [hrd] at hpk
      simp only [List.mem_cons] at hpk
      rcases hpk with hpk | hpk
      · exact absurd hpk hne'
      · exact hpk
    · exact Or.inr (Or.inl (by subst hw0; exact hpk))
    · exact Or.inr (Or.inr ⟨s, by subst hw0; exact LPB.of_same _ (w := w) (w' := w.modCmd cid fun c => { c with ready := rest }) rfl rfl _ hpk⟩)
  · intro c' hne hal hin
    have ec : w0.cmd c' = w.cmd c' := by subst hw0; exact World.cmd_modCmd_other w cid c' _ (Ne.symm hne)
    rw [ec] at hal
    rw [q0.len] at hin
    intro tid' t' hg' hx
    rw [ec] at hg'
    exact (h.gpo c' hne hal hin tid' t' hg' hx).of_same (by subst hw0; rfl) (by subst hw0; rfl) (fun x hx' => by rw [ec]; exact hx')

end M.Rt

namespace M.Rt

/-- what one `run_task` leaves, before the executor finishes a completed / cancelled task -/
theorem RunInv.afterRun {cid : Nat} {e : Nat → Nat} {w0 : World} {tid : Nat} (h : RunInv cid e (some tid) w0) (st : TaskState)
    (w1 : World) (hrt : runTask cid tid w0 = some (st, w1)) :
    SOk w1 ∧ WFw w1 ∧ (∀ c, HFc c w1) ∧ (w1.cmd cid).alive = true ∧ cid < w1.cmds.length ∧ Slab.WF (w1.cmd cid).tasks ∧
    GP cid (some tid) w1 ∧ (st = .suspended → ∀ t, (w1.cmd cid).tasks.get? tid = some t → Pk cid w1 tid t) ∧
    (st = .missing → (w1.cmd cid).tasks.get? tid = none) ∧
    (∀ c', c' ≠ cid → (w1.cmd c').alive = true → c' < w1.cmds.length → GP c' none w1) ∧
    RunPostG cid tid st w0 w1 ∧ HL w1 ∧ RunPost cid tid st w1 := by
  have c0 := h.ctx
  have g := runTask_gp cid tid w0 st w1 hrt c0 h.gp
  have q := runTaskF_q _ _ cid tid w0 st w1 (by rw [← runTask_eq]; exact hrt) (h.hfa cid)
  have o := runTaskF_own _ _ cid tid w0 st w1 (by rw [← runTask_eq]; exact hrt) h.own
  have hl0 := HL_of_hf h.hfa
  have hfa1 : ∀ c, HFc c w1 := by
    intro c
    by_cases ec : cid = c
    · subst ec; exact q.2
    · exact (h.hfa c).of_qs q.1 ec
  refine ⟨(runTask_ok cid tid w0 st w1 hrt h.sok).1, (runTask_w cid tid w0 st w1 hrt h.wfw).1, hfa1,
    by rw [q.1.alive cid]; exact h.alive, by rw [q.1.len]; exact h.inr,
    runTask_swf cid tid w0 st w1 hrt (h.hfa cid).t h.inr h.swf, g.1, g.2.1, g.2.2, ?_, runTask_g cid tid w0 st w1 hrt hl0,
    HL_of_hf hfa1, o⟩
  intro c' hne hal hin
  rw [q.1.alive c'] at hal
  rw [q.1.len] at hin
  exact (runTask_gpo cid tid w0 st w1 hrt (h.hfa cid).t h.wfw c' hne (disj_of_bound w0 cid tid c' hne h.g1)
    (h.gpo c' hne hal hin)).1

theorem RunInv.keep {cid : Nat} {e : Nat → Nat} {w0 : World} {tid : Nat} (h : RunInv cid e (some tid) w0) (st : TaskState)
    (w1 : World) (hrt : runTask cid tid w0 = some (st, w1)) (hst : st = .missing ∨ st = .suspended) : RunInv cid e none w1 := by
  obtain ⟨a1, a2, a3, a4, a5, a6, a7, a8, a9, a10, a11, _, _⟩ := h.afterRun st w1 hrt
  have gle : GLe w0 [] w1 [] := by
    rcases hst with rfl | rfl <;> exact a11
  refine ⟨h.gb_step gle, a1, a2, a3, a4, a5, a6, ?_, a10⟩
  intro tid' t' hg' _
  by_cases et : tid' = tid
  · subst et
    rcases hst with rfl | rfl
    · rw [a9 rfl] at hg'; cases hg'
    · exact a8 rfl t' hg'
  · exact a7 tid' t' hg' (fun e' => et (Option.some.inj e'))

theorem RunInv.finish {cid : Nat} {e : Nat → Nat} {w0 : World} {tid : Nat} (h : RunInv cid e (some tid) w0) (st : TaskState)
    (w1 : World) (hrt : runTask cid tid w0 = some (st, w1)) (hst : st = .completed ∨ st = .cancelled) :
    RunInv cid e none (finishTask cid tid w1) := by
  obtain ⟨a1, a2, a3, a4, a5, a6, a7, _, _, a10, a11, a12, a13⟩ := h.afterRun st w1 hrt
  have q := finishTask_q cid tid w1 (a3 cid)
  have hfa2 : ∀ c, HFc c (finishTask cid tid w1) := by
    intro c
    by_cases ec : cid = c
    · subst ec; exact q.2
    · exact (a3 c).of_qs q.1 ec
  -- the accounting of references, as in `drainReady_g`
  have gle : GLe w0 [] (finishTask cid tid w1) [] := by
    rcases hst with rfl | rfl
    · obtain ⟨t, hget, hlen, hb⟩ := a11
      have hf := finishTask_g cid tid w1 t hget
      refine ⟨by rw [hf.1]; exact hlen, ?_⟩
      intro l
      have a := hb l
      have b := hf.2 l
      have hfr : fresh w0 (finishTask cid tid w1) l = fresh w0 w1 l := by unfold fresh; rw [hf.1]
      simp only [List.count_nil, Nat.zero_add]
      rw [hfr]
      omega
    · have k1 : GLe w0 [] w1 [] := a11
      exact k1.trans ((dec_finishTask cid tid w1).toGLe [])
  refine ⟨h.gb_step gle, (finishTask_keeps cid tid w1 a1).1, (finishTask_w cid tid w1 a2).1, hfa2,
    by rw [q.1.alive cid]; exact a4, by rw [q.1.len]; exact a5, finishTask_swf cid tid w1 a5 (a3 cid).t a6,
    finishTask_gp cid tid w1 a4 a5 (a3 cid).t a7, ?_⟩
  intro c' hne hal hin
  rw [q.1.alive c'] at hal
  rw [q.1.len] at hin
  exact (finishTask_gpo cid tid w1 (a3 cid) c' hne hal hin (a10 c' hne hal hin)).1

theorem drainReady_ri (cid : Nat) (e : Nat → Nat) : ∀ (f : Nat) (w w' : World), drainReady runTask f cid w = some w' →
    RunInv cid e none w → RunInv cid e none w' := by
  intro f
  induction f with
  | zero => intro w w' h; simp [drainReady] at h
  | succ f ih =>
    intro w w' h hw
    unfold drainReady at h
    split at h
    · simp only [Option.some.injEq] at h; subst h; exact hw
    · rename_i tid rest hrd
      have h0 := hw.pop tid rest hrd
      simp only at h
      split at h
      · cases h
      · rename_i w1 hrt
        exact ih w1 w' h (h0.keep _ w1 hrt (Or.inl rfl))
      · rename_i w1 hrt
        exact ih w1 w' h (h0.keep _ w1 hrt (Or.inr rfl))
      · rename_i w1 hrt
        exact ih _ w' h (h0.finish _ w1 hrt (Or.inl rfl))
      · rename_i w1 hrt
        exact ih _ w' h (h0.finish _ w1 hrt (Or.inr rfl))

end M.Rt

namespace M.Rt

theorem RunInv.spawn {cid : Nat} {e : Nat → Nat} {w : World} (h : RunInv cid e none w) : RunInv cid e none (spawnNewTasks cid w) := by
  have q := spawnNewTasks_q cid w (h.hfa cid)
  have sp := spawnNewTasks_gp cid none w h.inr h.swf h.gp
  have hfa' : ∀ c, HFc c (spawnNewTasks cid w) := by
    intro c
    by_cases ec : cid = c
    · subst ec; exact q.2
    · exact (h.hfa c).of_qs q.1 ec
  refine ⟨h.gb_step ((dec_spawnNewTasks cid w).toGLe []), (spawnNewTasks_keeps cid w h.sok).1, (spawnNewTasks_w cid w h.wfw).1, hfa',
    by rw [q.1.alive cid]; exact h.alive, by rw [q.1.len]; exact h.inr, sp.2, sp.1, ?_⟩
  intro c' hne hal hin
  rw [q.1.alive c'] at hal
  rw [q.1.len] at hin
  exact (spawnNewTasks_gpo cid w (h.hfa cid) c' hne (h.gpo c' hne hal hin)).1

theorem settleLoop_ri (cid : Nat) (e : Nat → Nat) : ∀ (f : Nat) (w w' : World), settleLoop runTask f cid w = some w' →
    RunInv cid e none w → RunInv cid e none w' := by
  intro f
  induction f with
  | zero => intro w w' h; simp [settleLoop] at h
  | succ f ih =>
    intro w w' h hw
    unfold settleLoop at h
    simp only at h
    have k0 := hw.spawn
    split at h
    · simp only [Option.some.injEq] at h; subst h; exact k0
    · split at h
      · cases h
      · rename_i w1 hd
        exact ih w1 w' h (drainReady_ri cid e _ _ w1 hd k0)

/-- **Running a command never strands another command's tasks.** In a world of commands without combinators in which
    every request channel has at most one waiting task (`gb`), settling the un-aborted command `cid` — polling its tasks,
    finishing them, waking join handles, spawning — keeps the whole invariant: in particular every stored task of every
    OTHER live command is still queued, aborted or live-parked afterwards (`gpo`), and so is every task of `cid` (`gp`). -/
theorem runUntilSettled_ri (cid : Nat) (e : Nat → Nat) (w w' : World) (h : runUntilSettled cid w = some w')
    (hna : w.aborted cid = false) (hw : RunInv cid e none w) : RunInv cid e none w' := by
  unfold runUntilSettled runUntilSettledF at h
  simp only [hna, Bool.false_eq_true, if_false] at h
  exact settleLoop_ri cid e _ w w' h hw

end M.Rt

namespace M.Hosts
open M.Rt

/-- the invariant is satisfiable: the initial world of any host-free task command satisfies it -/
theorem RunInv_init (is : List Instr) (hf : hostFreeIs is = true) (canon : Bool) :
    RunInv (Direct.new (.task is) canon).cid (fun _ => 0) none (Direct.new (.task is) canon).w := by
  have g := GInv_init is hf canon
  have hlen : (Direct.new (.task is) canon).w.cmds.length = 1 := by
    unfold Direct.new; simp [instantiate, newCmd, World.newMeta]
  have hcid : (Direct.new (.task is) canon).cid = 0 := by
    unfold Direct.new; simp [instantiate, newCmd, World.newMeta]
  refine ⟨?_, g.ctx.sok, g.ctx.wfw, ?_, g.ctx.alive, g.ctx.inr, g.swf, g.gp, ?_⟩
  · intro l
    have hb := g.ctx.own.bound l
    have : G l (Direct.new (.task is) canon).w = cmdCnt l ((Direct.new (.task is) canon).w.cmd (Direct.new (.task is) canon).cid) := by
      rw [hcid]
      unfold G World.cmd
      generalize hL : (Direct.new (.task is) canon).w.cmds = L at hlen
      match L, hlen with
      | [x], _ => simp
    omega
  · intro c
    by_cases ec : c = (Direct.new (.task is) canon).cid
    · rw [ec]; exact g.ctx.own.hfc
    · have : (Direct.new (.task is) canon).w.cmd c = {} := by
        unfold World.cmd
        rw [List.getElem?_eq_none (by rw [hlen]; rw [hcid] at ec; omega)]; rfl
      exact ⟨by rw [this]; intro t ht; simp [Slab.values] at ht, by rw [this]; intro t ht; cases ht⟩
  · intro c' hne _ hin
    rw [hlen] at hin; rw [hcid] at hne; omega

end M.Hosts
