/- `Central` in the control states `notStarted` and `waiting`. -/
import CruxVerif.Lemmas.Timer.Base
namespace Lemmas.Timer
open M.Timer S.Timer

theorem central_notStarted (k : Kind) (id : Nat) (handle : HandleSt) (woken : Bool) (rq cl : Req) (a : Act) (ran : Bool)
    (hi : inv ⟨k, id, .notStarted, handle, woken, rq, cl⟩ = true) :
    Central ⟨k, id, .notStarted, handle, woken, rq, cl⟩ a ran := by
  simp only [inv, Bool.and_eq_true, beq_iff_eq] at hi
  obtain ⟨_, ⟨hw, hr⟩, hc⟩ := hi
  subst hr hc hw
  cases a <;> cases ran <;> cases handle <;> bash

set_option maxHeartbeats 4000000 in
theorem central_waiting (k : Kind) (id : Nat) (handle : HandleSt) (woken : Bool) (rs : Shell) (ra : Option Resp)
    (cl : Req) (a : Act) (ran : Bool)
    (hi : inv ⟨k, id, .waiting, handle, woken, ⟨rs, ra⟩, cl⟩ = true)
    (hp : poisonedSt ⟨k, id, .waiting, handle, woken, ⟨rs, ra⟩, cl⟩ = false) :
    Central ⟨k, id, .waiting, handle, woken, ⟨rs, ra⟩, cl⟩ a ran := by
  have hc : cl = {} := by
    simp only [inv, Bool.and_eq_true, beq_iff_eq] at hi
    exact hi.2.1.2
  subst hc
  have hra : ra = none ∨ ra = some (goodResp k id) := by
    cases ra with
    | none => exact Or.inl rfl
    | some v => right; simpa [poisonedSt, good_eq] using hp
  clear hp
  rcases hra with rfl | rfl
  all_goals
    cases a with
    | resolveReq v =>
      by_cases hv : v = goodResp k id
      · subst hv; cases ran <;> cases handle <;> cases woken <;> cases rs <;> first | absurd_inv hi | bash
      · cases ran <;> cases handle <;> cases woken <;> cases rs <;> first | absurd_inv hi | bashv hv
    | resolveClr v =>
      by_cases hv : v = Resp.cleared id
      · subst hv; cases ran <;> cases handle <;> cases woken <;> cases rs <;> first | absurd_inv hi | bash
      · cases ran <;> cases handle <;> cases woken <;> cases rs <;> first | absurd_inv hi | bashv hv
    | _ => cases ran <;> cases handle <;> cases woken <;> cases rs <;> first | absurd_inv hi | bash

end Lemmas.Timer
