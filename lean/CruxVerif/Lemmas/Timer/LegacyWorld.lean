/-
Legacy capability API, several timers sharing the process-wide counter and CLEARED_TIMER_IDS: the invariant of
the joint state (ids below the counter and pairwise distinct, the set in sync with every pending timer) and the
lenient legacy oracle accepting every joint run.
-/
import CruxVerif.Lemmas.Timer.Legacy
namespace Lemmas.Timer
open M.Timer S.Timer

/-! the set operations, for the addressed id and for any other id -/

theorem contains_applyOp_self (op : SetOp) (id : Nat) (s : List Nat) (hn : s.Nodup) :
    (applyOp op id s).contains id = newInSet op (s.contains id) := by
  cases op
  · rfl
  · simp only [applyOp, newInSet]
    split
    · assumption
    · simp
  · simp only [applyOp, newInSet, List.contains_eq_mem, decide_eq_false_iff_not]
    intro h
    exact ((List.Nodup.mem_erase_iff hn).mp h).1 rfl

theorem contains_applyOp_ne (op : SetOp) (id x : Nat) (s : List Nat) (hne : x ≠ id) :
    (applyOp op id s).contains x = s.contains x := by
  cases op
  · rfl
  · simp only [applyOp]
    split
    · rfl
    · simp [List.contains_cons, hne]
  · simp only [applyOp, List.contains_eq_mem]
    congr 1
    exact propext (List.mem_erase_of_ne hne)

theorem nodup_applyOp (op : SetOp) (id : Nat) (s : List Nat) (hn : s.Nodup) : (applyOp op id s).Nodup := by
  cases op
  · exact hn
  · simp only [applyOp]
    split
    · exact hn
    · rename_i h
      exact List.nodup_cons.mpr ⟨by simpa using h, hn⟩
  · exact hn.erase id

theorem mem_applyOp (op : SetOp) (id x : Nat) (s : List Nat) (h : x ∈ applyOp op id s) : x = id ∨ x ∈ s := by
  cases op
  · exact Or.inr h
  · simp only [applyOp] at h
    split at h
    · exact Or.inr h
    · simpa using h
  · exact Or.inr (List.mem_of_mem_erase h)

/-- how `lstep1` treats ids: it allocates only for an unstarted timer (which then gets `newId`), otherwise the id stays;
    an unstarted timer's id is never inserted -/
theorem lstep1_shape (t : LTimer) (inSet : Bool) (newId : Nat) (a : LAct) :
    ((lstep1 t inSet newId a).2.2.2 = true ∧ t.id = none ∧ (lstep1 t inSet newId a).1.id = some newId) ∨
    ((lstep1 t inSet newId a).2.2.2 = false ∧ (lstep1 t inSet newId a).1.id = t.id ∧
      (t.id = none → (lstep1 t inSet newId a).2.2.1 = .keep)) := by
  rcases t with ⟨k, id, f, rq, c⟩
  cases a <;> cases id <;> simp only [lstep1] <;> (repeat' split) <;> simp

/-- the joint legacy state is consistent -/
structure WInv (w : LWorld) : Prop where
  nodup : w.cleared.Nodup
  small : ∀ x ∈ w.cleared, x < w.counter
  idlt : ∀ j t id, w.timers[j]? = some t → t.id = some id → id < w.counter
  sync : ∀ j t id, w.timers[j]? = some t → t.id = some id → t.finished = false →
    w.cleared.contains id = decide (t.clears > 0)
  wf : ∀ j t, w.timers[j]? = some t → linv t = true
  distinct : ∀ i j ti tj id, w.timers[i]? = some ti → w.timers[j]? = some tj → ti.id = some id → tj.id = some id → i = j

/-- the flag the addressed timer is stepped with is in sync -/
theorem winv_flag (w : LWorld) (h : WInv w) (i : Nat) (t : LTimer) (ht : w.timers[i]? = some t) (newId : Nat)
    (hnew : w.counter ≤ newId) :
    t.finished = false → w.cleared.contains (t.id.getD newId) = decide (t.clears > 0) := by
  intro hf
  cases hid : t.id with
  | some id => simpa using h.sync i t id ht hid hf
  | none =>
    have hl := h.wf i t ht
    have hc : t.clears = 0 := by
      rcases t with ⟨k, id, f, rq, c⟩
      simp only at hid; subst hid
      simp only [linv, Bool.and_eq_true, beq_iff_eq] at hl
      exact hl.2
    have : ¬ newId ∈ w.cleared := fun hm => by have := h.small newId hm; omega
    simp [hc, this]

theorem lstep_timers (w : LWorld) (a : LAct) (i : Nat) (t : LTimer) (ht : w.timers[i]? = some t) :
    lstep w a i =
      let newId := (allocId w.counter).1
      let id := t.id.getD newId
      let r := lstep1 t (w.cleared.contains id) newId a
      ({ counter := if r.2.2.2 then (allocId w.counter).2 else w.counter,
         cleared := applyOp r.2.2.1 id w.cleared, timers := w.timers.set i r.1 }, r.2.1) := by
  simp [lstep, ht, lstepTimer]

theorem lstep_none (w : LWorld) (a : LAct) (i : Nat) (ht : w.timers[i]? = none) : lstep w a i = (w, {}) := by
  simp [lstep, ht]

set_option maxHeartbeats 1000000 in
/-- one case step keeps the joint state consistent (while the counter does not wrap) -/
theorem winv_step (w : LWorld) (a : LAct) (i : Nat) (h : WInv w) (hb : w.counter + 1 < 18446744073709551616) :
    WInv (lstep w a i).1 ∧ w.counter ≤ (lstep w a i).1.counter ∧ (lstep w a i).1.counter ≤ w.counter + 1 := by
  cases ht : w.timers[i]? with
  | none => rw [lstep_none w a i ht]; exact ⟨h, Nat.le_refl _, Nat.le_succ _⟩
  | some t =>
    rw [lstep_timers w a i t ht]
    have hnew : (allocId w.counter).1 = w.counter := by simp only [allocId]; omega
    have hnext : (allocId w.counter).2 = w.counter + 1 := by simp only [allocId]; omega
    simp only [hnew, hnext]
    generalize hr : lstep1 t (w.cleared.contains (t.id.getD w.counter)) w.counter a = r
    have hflag := winv_flag w h i t ht w.counter (Nat.le_refl _)
    have hil : i < w.timers.length := by
      rcases Nat.lt_or_ge i w.timers.length with h' | h'
      · exact h'
      · rw [List.getElem?_eq_none h'] at ht; cases ht
    -- facts about the step of the addressed timer
    have hshape := lstep1_shape t (w.cleared.contains (t.id.getD w.counter)) w.counter a
    rw [hr] at hshape
    have hwf' : linv r.1 = true ∧ (r.1.finished = false →
        newInSet r.2.2.1 (w.cleared.contains (t.id.getD w.counter)) = decide (r.1.clears > 0)) := by
      have hl := lcentral t (w.cleared.contains (t.id.getD w.counter)) w.counter a
        (if t.finished then { outcome := true } else labs t) r.1.id (h.wf i t ht)
        (by cases hf : t.finished <;> simp [LR, hf]) hflag (by rw [hr]; exact Or.inr rfl)
      simp only [LCentral, hr] at hl
      exact ⟨hl.2.2.1, hl.2.2.2.2⟩
    -- the id the step is about, and that it is below the new counter
    have hidlt : t.id.getD w.counter < (if r.2.2.2 then w.counter + 1 else w.counter) ∨
        (t.id = none ∧ r.2.2.2 = false ∧ r.2.2.1 = .keep) := by
      cases hid : t.id with
      | some id => left; have := h.idlt i t id ht hid; simp only [Option.getD_some]; split <;> omega
      | none =>
        rcases hshape with ⟨h1, _, _⟩ | ⟨h1, _, h3⟩
        · left; simp [h1]
        · right; exact ⟨rfl, h1, h3 hid⟩
    have hcount : w.counter ≤ (if r.2.2.2 then w.counter + 1 else w.counter) ∧
        (if r.2.2.2 then w.counter + 1 else w.counter) ≤ w.counter + 1 := by split <;> omega
    refine ⟨?_, hcount.1, hcount.2⟩
    -- ids of the timers after the step
    have hget : ∀ j u, (w.timers.set i r.1)[j]? = some u → (j = i ∧ u = r.1) ∨ (j ≠ i ∧ w.timers[j]? = some u) := by
      intro j u hu
      by_cases hji : j = i
      · subst hji; rw [List.getElem?_set_self hil] at hu; exact Or.inl ⟨rfl, (Option.some.inj hu).symm⟩
      · rw [List.getElem?_set_ne (Ne.symm hji)] at hu; exact Or.inr ⟨hji, hu⟩
    have hrid : ∀ id, r.1.id = some id → id = t.id.getD w.counter := by
      intro id hid
      rcases hshape with ⟨_, h2, h3⟩ | ⟨_, h2, _⟩
      · rw [h2]; rw [h3] at hid; simpa using hid.symm
      · rw [← h2, hid]; rfl
    -- another timer's id differs from the one the step is about
    have hother : ∀ j u id, j ≠ i → w.timers[j]? = some u → u.id = some id → id ≠ t.id.getD w.counter := by
      intro j u id hji hu hid heq
      cases htid : t.id with
      | some tid =>
        rw [htid] at heq; simp only [Option.getD_some] at heq; subst heq
        exact hji (h.distinct j i u t id hu ht hid htid)
      | none =>
        rw [htid] at heq; simp only [Option.getD_none] at heq
        have := h.idlt j u id hu hid; omega
    constructor
    · exact nodup_applyOp _ _ _ h.nodup
    · intro x hx
      rcases mem_applyOp _ _ _ _ hx with hx | hx
      · subst hx
        rcases hidlt with h1 | ⟨_, _, h3⟩
        · exact h1
        · rw [h3] at hx; have := h.small _ hx; omega
      · have := h.small x hx; omega
    · intro j u id hu hid
      rcases hget j u hu with ⟨_, rfl⟩ | ⟨hji, hu'⟩
      · rw [hrid id hid]
        rcases hidlt with h1 | ⟨h1, _, _⟩
        · exact h1
        · exfalso
          rcases hshape with ⟨_, _, h3⟩ | ⟨_, h2, _⟩
          · simp_all
          · rw [h2, h1] at hid; cases hid
      · have := h.idlt j u id hu' hid; omega
    · intro j u id hu hid hf
      rcases hget j u hu with ⟨_, rfl⟩ | ⟨hji, hu'⟩
      · rw [hrid id hid, contains_applyOp_self _ _ _ h.nodup]
        exact hwf'.2 hf
      · rw [contains_applyOp_ne _ _ _ _ (hother j u id hji hu' hid)]
        exact h.sync j u id hu' hid hf
    · intro j u hu
      rcases hget j u hu with ⟨_, rfl⟩ | ⟨_, hu'⟩
      · exact hwf'.1
      · exact h.wf j u hu'
    · intro j1 j2 u1 u2 id hu1 hu2 hid1 hid2
      rcases hget j1 u1 hu1 with ⟨rfl, rfl⟩ | ⟨hj1, hu1'⟩ <;> rcases hget j2 u2 hu2 with ⟨rfl, rfl⟩ | ⟨hj2, hu2'⟩
      · rfl
      · exact absurd (hrid id hid1).symm (Ne.symm (hother j2 u2 id hj2 hu2' hid2)) |>.elim
      · exact absurd (hrid id hid2).symm (Ne.symm (hother j1 u1 id hj1 hu1' hid1)) |>.elim
      · exact h.distinct j1 j2 u1 u2 id hu1' hu2' hid1 hid2

end Lemmas.Timer
