/-
Legacy capability API, several timers sharing the process-wide counter and CLEARED_TIMER_IDS: the invariant of
the joint state (ids below the counter and pairwise distinct, the set in sync with every pending timer) and the
lenient legacy oracle accepting every joint run.
-/
import CruxVerif.Lemmas.Timer.Legacy
namespace Lemmas.Timer
open M.Timer S.Timer

/-! the set operations, for the addressed id and for any other id -/

theorem contains_applyOp_self (op : SetOp) (id : Nat) (s : List Nat) (hn : s.Nodup) :
    (applyOp op id s).contains id = newInSet op (s.contains id) := by
  cases op
  · rfl
  · simp only [applyOp, newInSet]
    split
    · assumption
    · simp
  · simp only [applyOp, newInSet, List.contains_eq_mem, decide_eq_false_iff_not]
    intro h
    exact ((List.Nodup.mem_erase_iff hn).mp h).1 rfl

theorem contains_applyOp_ne (op : SetOp) (id x : Nat) (s : List Nat) (hne : x ≠ id) :
    (applyOp op id s).contains x = s.contains x := by
  cases op
  · rfl
  · simp only [applyOp]
    split
    · rfl
    · simp [hne]
  · simp only [applyOp, List.contains_eq_mem]
    congr 1
    exact propext (List.mem_erase_of_ne hne)

theorem nodup_applyOp (op : SetOp) (id : Nat) (s : List Nat) (hn : s.Nodup) : (applyOp op id s).Nodup := by
  cases op
  · exact hn
  · simp only [applyOp]
    split
    · exact hn
    · rename_i h
      exact List.nodup_cons.mpr ⟨by simpa using h, hn⟩
  · exact hn.erase id

theorem mem_applyOp (op : SetOp) (id x : Nat) (s : List Nat) (h : x ∈ applyOp op id s) : x = id ∨ x ∈ s := by
  cases op
  · exact Or.inr h
  · simp only [applyOp] at h
    split at h
    · exact Or.inr h
    · simpa using h
  · exact Or.inr (List.mem_of_mem_erase h)

/-- how `lstep1` treats ids: it allocates only for an unstarted timer (which then gets `newId`), otherwise the id stays;
    an unstarted timer's id is never inserted -/
theorem lstep1_shape (t : LTimer) (inSet : Bool) (newId : Nat) (a : LAct) :
    ((lstep1 t inSet newId a).2.2.2 = true ∧ t.id = none ∧ (lstep1 t inSet newId a).1.id = some newId) ∨
    ((lstep1 t inSet newId a).2.2.2 = false ∧ (lstep1 t inSet newId a).1.id = t.id ∧
      (t.id = none → (lstep1 t inSet newId a).2.2.1 = .keep)) := by
  rcases t with ⟨k, id, f, rq, c⟩
  cases a <;> cases id <;> simp only [lstep1] <;> (repeat' split) <;> simp

/-- the joint legacy state is consistent -/
structure WInv (w : LWorld) : Prop where
  nodup : w.cleared.Nodup
  small : ∀ x ∈ w.cleared, x < w.counter
  idlt : ∀ (j : Nat) (t : LTimer) (id : Nat), w.timers[j]? = some t → t.id = some id → id < w.counter
  sync : ∀ (j : Nat) (t : LTimer) (id : Nat), w.timers[j]? = some t → t.id = some id → t.finished = false →
    w.cleared.contains id = decide (t.clears > 0)
  wf : ∀ (j : Nat) (t : LTimer), w.timers[j]? = some t → linv t = true
  distinct : ∀ (i j : Nat) (ti tj : LTimer) (id : Nat), w.timers[i]? = some ti → w.timers[j]? = some tj →
    ti.id = some id → tj.id = some id → i = j

/-- the flag the addressed timer is stepped with is in sync -/
theorem winv_flag (w : LWorld) (h : WInv w) (i : Nat) (t : LTimer) (ht : w.timers[i]? = some t) (newId : Nat)
    (hnew : w.counter ≤ newId) :
    t.finished = false → w.cleared.contains (t.id.getD newId) = decide (t.clears > 0) := by
  intro hf
  cases hid : t.id with
  | some id => simpa using h.sync i t id ht hid hf
  | none =>
    have hl := h.wf i t ht
    have hc : t.clears = 0 := by
      rcases t with ⟨k, id, f, rq, c⟩
      simp only at hid; subst hid
      simp only [linv, Bool.and_eq_true, beq_iff_eq] at hl
      exact hl.2
    have : ¬ newId ∈ w.cleared := fun hm => by have := h.small newId hm; omega
    simp [hc, this]

theorem lstep_timers (w : LWorld) (a : LAct) (i : Nat) (t : LTimer) (ht : w.timers[i]? = some t) :
    lstep w a i =
      let newId := (allocId w.counter).1
      let id := t.id.getD newId
      let r := lstep1 t (w.cleared.contains id) newId a
      ({ counter := if r.2.2.2 then (allocId w.counter).2 else w.counter,
         cleared := applyOp r.2.2.1 id w.cleared, timers := w.timers.set i r.1 }, r.2.1) := by
  simp [lstep, ht, lstepTimer]

theorem lstep_none (w : LWorld) (a : LAct) (i : Nat) (ht : w.timers[i]? = none) : lstep w a i = (w, {}) := by
  simp [lstep, ht]

set_option maxHeartbeats 1000000 in
/-- one case step keeps the joint state consistent (while the counter does not wrap) -/
theorem winv_step (w : LWorld) (a : LAct) (i : Nat) (h : WInv w) (hb : w.counter + 1 < 18446744073709551616) :
    WInv (lstep w a i).1 ∧ w.counter ≤ (lstep w a i).1.counter ∧ (lstep w a i).1.counter ≤ w.counter + 1 := by
  cases ht : w.timers[i]? with
  | none => rw [lstep_none w a i ht]; exact ⟨h, Nat.le_refl _, Nat.le_succ _⟩
  | some t =>
    rw [lstep_timers w a i t ht]
    have hnew : (allocId w.counter).1 = w.counter := by simp only [allocId]; omega
    have hnext : (allocId w.counter).2 = w.counter + 1 := by simp only [allocId]; omega
    simp only [hnew, hnext]
    generalize hr : lstep1 t (w.cleared.contains (t.id.getD w.counter)) w.counter a = r
    have hflag := winv_flag w h i t ht w.counter (Nat.le_refl _)
    have hil : i < w.timers.length := by
      rcases Nat.lt_or_ge i w.timers.length with h' | h'
      · exact h'
      · rw [List.getElem?_eq_none h'] at ht; cases ht
    -- facts about the step of the addressed timer
    have hshape := lstep1_shape t (w.cleared.contains (t.id.getD w.counter)) w.counter a
    rw [hr] at hshape
    have hwf' : linv r.1 = true ∧ (r.1.finished = false →
        newInSet r.2.2.1 (w.cleared.contains (t.id.getD w.counter)) = decide (r.1.clears > 0)) := by
      have hl := lcentral t (w.cleared.contains (t.id.getD w.counter)) w.counter a
        (if t.finished then { outcome := true } else labs t) r.1.id (h.wf i t ht)
        (by cases hf : t.finished <;> simp [LR, hf]) hflag (by rw [hr]; exact Or.inr rfl)
      simp only [LCentral, hr] at hl
      exact ⟨hl.2.2.1, hl.2.2.2.2⟩
    -- the id the step is about, and that it is below the new counter
    have hidlt : t.id.getD w.counter < (if r.2.2.2 then w.counter + 1 else w.counter) ∨
        (t.id = none ∧ r.2.2.2 = false ∧ r.2.2.1 = .keep) := by
      cases hid : t.id with
      | some id => left; have := h.idlt i t id ht hid; simp only [Option.getD_some]; split <;> omega
      | none =>
        rcases hshape with ⟨h1, _, _⟩ | ⟨h1, _, h3⟩
        · left; simp [h1]
        · right; exact ⟨rfl, h1, h3 hid⟩
    have hcount : w.counter ≤ (if r.2.2.2 then w.counter + 1 else w.counter) ∧
        (if r.2.2.2 then w.counter + 1 else w.counter) ≤ w.counter + 1 := by split <;> omega
    refine ⟨?_, hcount.1, hcount.2⟩
    -- ids of the timers after the step
    have hget : ∀ j u, (w.timers.set i r.1)[j]? = some u → (j = i ∧ u = r.1) ∨ (j ≠ i ∧ w.timers[j]? = some u) := by
      intro j u hu
      by_cases hji : j = i
      · subst hji; rw [List.getElem?_set_self hil] at hu; exact Or.inl ⟨rfl, (Option.some.inj hu).symm⟩
      · rw [List.getElem?_set_ne (Ne.symm hji)] at hu; exact Or.inr ⟨hji, hu⟩
    have hrid : ∀ id, r.1.id = some id → id = t.id.getD w.counter := by
      intro id hid
      rcases hshape with ⟨_, h2, h3⟩ | ⟨_, h2, _⟩
      · rw [h2]; rw [h3] at hid; simpa using hid.symm
      · rw [← h2, hid]; rfl
    -- another timer's id differs from the one the step is about
    have hother : ∀ j u id, j ≠ i → w.timers[j]? = some u → u.id = some id → id ≠ t.id.getD w.counter := by
      intro j u id hji hu hid heq
      cases htid : t.id with
      | some tid =>
        rw [htid] at heq; simp only [Option.getD_some] at heq; subst heq
        exact hji (h.distinct j i u t id hu ht hid htid)
      | none =>
        rw [htid] at heq; simp only [Option.getD_none] at heq
        have := h.idlt j u id hu hid; omega
    constructor <;> dsimp only
    · exact nodup_applyOp _ _ _ h.nodup
    · intro x hx
      rcases mem_applyOp _ _ _ _ hx with hx | hx
      · subst hx
        rcases hidlt with h1 | ⟨_, _, h3⟩
        · exact h1
        · rw [h3] at hx; have := h.small _ hx; omega
      · have := h.small x hx; omega
    · intro j u id hu hid
      rcases hget j u hu with ⟨_, rfl⟩ | ⟨hji, hu'⟩
      · rw [hrid id hid]
        rcases hidlt with h1 | ⟨h1, h5, _⟩
        · exact h1
        · exfalso
          rcases hshape with ⟨h0, _, _⟩ | ⟨_, h2, _⟩
          · rw [h0] at h5; cases h5
          · rw [h2, h1] at hid; cases hid
      · have := h.idlt j u id hu' hid; omega
    · intro j u id hu hid hf
      rcases hget j u hu with ⟨_, rfl⟩ | ⟨hji, hu'⟩
      · rw [hrid id hid, contains_applyOp_self _ _ _ h.nodup]
        exact hwf'.2 hf
      · rw [contains_applyOp_ne _ _ _ _ (hother j u id hji hu' hid)]
        exact h.sync j u id hu' hid hf
    · intro j u hu
      rcases hget j u hu with ⟨_, rfl⟩ | ⟨_, hu'⟩
      · exact hwf'.1
      · exact h.wf j u hu'
    · intro j1 j2 u1 u2 id hu1 hu2 hid1 hid2
      rcases hget j1 u1 hu1 with ⟨rfl, rfl⟩ | ⟨hj1, hu1'⟩ <;> rcases hget j2 u2 hu2 with ⟨rfl, rfl⟩ | ⟨hj2, hu2'⟩
      · rfl
      · exact absurd (hrid id hid1) (hother j2 u2 id hj2 hu2' hid2)
      · exact absurd (hrid id hid2) (hother j1 u1 id hj1 hu1' hid1)
      · exact h.distinct j1 j2 u1 u2 id hu1' hu2' hid1 hid2

theorem lstep_length (w : LWorld) (a : LAct) (i : Nat) : (lstep w a i).1.timers.length = w.timers.length := by
  cases ht : w.timers[i]? with
  | none => rw [lstep_none w a i ht]
  | some t => rw [lstep_timers w a i t ht]; simp

/-- the addressed timer after a step; the others are untouched -/
theorem lstep_get (w : LWorld) (a : LAct) (i j : Nat) (t : LTimer) (ht : w.timers[j]? = some t) :
    (i ≠ j → (lstep w a i).1.timers[j]? = some t) ∧
    (i = j → (lstep w a i).1.timers[j]? = some (lstep1 t (w.cleared.contains (t.id.getD (allocId w.counter).1))
        (allocId w.counter).1 a).1 ∧
      (lstep w a i).2 = (lstep1 t (w.cleared.contains (t.id.getD (allocId w.counter).1)) (allocId w.counter).1 a).2.1) := by
  constructor
  · intro hne
    cases hi : w.timers[i]? with
    | none => rw [lstep_none w a i hi]; exact ht
    | some u => rw [lstep_timers w a i u hi]; simp only []; rw [List.getElem?_set_ne hne]; exact ht
  · intro heq
    subst heq
    rw [lstep_timers w a i t ht]
    simp only []
    have hil : i < w.timers.length := by
      rcases Nat.lt_or_ge i w.timers.length with h' | h'
      · exact h'
      · rw [List.getElem?_eq_none h'] at ht; cases ht
    exact ⟨List.getElem?_set_self hil, trivial⟩

/-- a timer's id, once it has one, is its final id -/
theorem lfinal_id_some (j : Nat) (steps : List (LAct × Nat)) : ∀ (w : LWorld) (t : LTimer) (id : Nat),
    w.timers[j]? = some t → t.id = some id → ∀ tf, (lfinal w steps).timers[j]? = some tf → tf.id = some id := by
  induction steps with
  | nil => intro w t id ht hid tf htf; simp only [lfinal] at htf; rw [ht] at htf; cases htf; exact hid
  | cons s rest ih =>
    intro w t id ht hid tf htf
    obtain ⟨a, i⟩ := s
    simp only [lfinal] at htf
    have hg := lstep_get w a i j t ht
    by_cases hij : i = j
    · exact ih _ _ id (hg.2 hij).1 (lstep1_id_some t id hid _ _ a) tf htf
    · exact ih _ _ id (hg.1 hij) hid tf htf

/-- the lenient legacy monitor accepts what timer `j` shows in every joint run -/
theorem lverdict1_lrun (j : Nat) (steps : List (LAct × Nat)) : ∀ (w : LWorld) (m : LMon) (t : LTimer),
    WInv w → w.counter + steps.length < 18446744073709551616 → w.timers[j]? = some t → LR m t →
    ∀ tf, (lfinal w steps).timers[j]? = some tf →
    lverdict1 false t.kind tf.id m (lproject j (steps.zip (lrun w steps))) = none := by
  induction steps with
  | nil => intro w m t _ _ _ _ tf _; rfl
  | cons s rest ih =>
    intro w m t hw hb ht hR tf htf
    obtain ⟨a, i⟩ := s
    simp only [List.length_cons] at hb
    have hstep := winv_step w a i hw (by omega)
    have hg := lstep_get w a i j t ht
    simp only [lfinal] at htf
    simp only [lrun, List.zip_cons_cons, lproject, List.filter_cons]
    by_cases hij : i = j
    · subst hij
      simp only [beq_self_eq_true, if_true, List.map_cons]
      obtain ⟨hg1, hg2⟩ := hg.2 rfl
      have hnew : (allocId w.counter).1 = w.counter := by simp only [allocId]; omega
      rw [hnew] at hg1 hg2
      have hflag := winv_flag w hw i t ht w.counter (Nat.le_refl _)
      have hid : (lstep1 t (w.cleared.contains (t.id.getD w.counter)) w.counter a).1.id = none ∨
          (lstep1 t (w.cleared.contains (t.id.getD w.counter)) w.counter a).1.id = tf.id := by
        cases h : (lstep1 t (w.cleared.contains (t.id.getD w.counter)) w.counter a).1.id with
        | none => exact Or.inl rfl
        | some id => right; exact (lfinal_id_some i rest _ _ id hg1 h tf htf).symm
      have hc := lcentral t _ w.counter a m tf.id (hw.wf i t ht) hR hflag hid
      simp only [LCentral] at hc
      obtain ⟨h1, h2, _, h4, _⟩ := hc
      simp only [lverdict1]
      rw [hg2]
      simp only [lentry] at h1 h2
      rw [h1]
      simp only []
      have := ih (lstep w a i).1 _ _ hstep.1 (by omega) hg1 h2 tf htf
      rw [h4] at this
      exact this
    · have hne : (i == j) = false := by simpa using hij
      simp only [hne, Bool.false_eq_true, if_false]
      exact ih (lstep w a i).1 m t hstep.1 (by omega) (hg.1 hij) hR tf htf

theorem lrun_length (steps : List (LAct × Nat)) : ∀ w, (lrun w steps).length = steps.length := by
  induction steps with
  | nil => intro w; rfl
  | cons s rest ih => intro w; obtain ⟨a, i⟩ := s; simp [lrun, ih]

theorem lfinal_length (steps : List (LAct × Nat)) : ∀ w, (lfinal w steps).timers.length = w.timers.length := by
  induction steps with
  | nil => intro w; rfl
  | cons s rest ih => intro w; obtain ⟨a, i⟩ := s; simp only [lfinal]; rw [ih, lstep_length]

/-- steps addressed to no timer show nothing -/
theorem lrun_foreign (n : Nat) (steps : List (LAct × Nat)) : ∀ w : LWorld, w.timers.length = n →
    ((steps.zip (lrun w steps)).all fun s => decide (s.1.2 < n) || (s.2.effects.isEmpty && s.2.events.isEmpty)) = true := by
  induction steps with
  | nil => intro w _; rfl
  | cons s rest ih =>
    intro w hn
    obtain ⟨a, i⟩ := s
    simp only [lrun, List.zip_cons_cons, List.all_cons, Bool.and_eq_true]
    refine ⟨?_, ih _ (by rw [lstep_length]; exact hn)⟩
    by_cases hi : i < n
    · simp [hi]
    · have : w.timers[i]? = none := List.getElem?_eq_none (by omega)
      rw [lstep_none w a i this]
      simp

theorem winv_init (counter : Nat) (kinds : List Kind) : WInv (mkLWorld counter kinds) := by
  have hget : ∀ (j : Nat) (t : LTimer), (mkLWorld counter kinds).timers[j]? = some t → ∃ k : Kind, t = { kind := k } := by
    intro j t h
    simp only [mkLWorld, List.getElem?_map] at h
    cases hk : kinds[j]? with
    | none => rw [hk] at h; cases h
    | some k => rw [hk] at h; exact ⟨k, (Option.some.inj h).symm⟩
  constructor
  · exact List.nodup_nil
  · intro x hx; cases hx
  · intro j t id ht hid; obtain ⟨k, rfl⟩ := hget j t ht; cases hid
  · intro j t id ht hid; obtain ⟨k, rfl⟩ := hget j t ht; cases hid
  · intro j t ht; obtain ⟨k, rfl⟩ := hget j t ht; exact linv_fresh k
  · intro i j ti tj id hti _ hid; obtain ⟨k, rfl⟩ := hget i ti hti; cases hid

theorem winv_lfinal (steps : List (LAct × Nat)) : ∀ w : LWorld, WInv w →
    w.counter + steps.length < 18446744073709551616 → WInv (lfinal w steps) := by
  induction steps with
  | nil => intro w h _; exact h
  | cons s rest ih =>
    intro w h hb
    obtain ⟨a, i⟩ := s
    simp only [List.length_cons] at hb
    have hs := winv_step w a i h (by omega)
    exact ih _ hs.1 (by omega)

/-- the lenient legacy oracle accepts every joint run of legacy timers (while the counter does not wrap) -/
theorem lverdict_lrun (counter : Nat) (kinds : List Kind) (steps : List (LAct × Nat))
    (hb : counter + steps.length < 18446744073709551616) :
    lverdict false kinds ((lfinal (mkLWorld counter kinds) steps).timers.map (·.id)) steps true
      (lrun (mkLWorld counter kinds) steps) = none := by
  unfold lverdict
  have hl := lrun_length steps (mkLWorld counter kinds)
  have hf := lrun_foreign kinds.length steps (mkLWorld counter kinds) (by simp [mkLWorld])
  simp only [Bool.not_true, Bool.false_eq_true, if_false, hl, bne_self_eq_false, hf]
  rw [List.findSome?_eq_none_iff]
  intro j _
  cases hk : kinds[j]? with
  | none => rfl
  | some k =>
    have ht : (mkLWorld counter kinds).timers[j]? = some { kind := k } := by
      simp [mkLWorld, List.getElem?_map, hk]
    have hjl : j < (lfinal (mkLWorld counter kinds) steps).timers.length := by
      rw [lfinal_length]
      rcases Nat.lt_or_ge j (mkLWorld counter kinds).timers.length with h' | h'
      · exact h'
      · rw [List.getElem?_eq_none h'] at ht; cases ht
    rw [List.getElem?_map, List.getElem?_eq_getElem hjl]
    simp only [Option.map_some]
    exact lverdict1_lrun j steps (mkLWorld counter kinds) {} { kind := k } (winv_init counter kinds) hb ht
      (LR_fresh k) _ (List.getElem?_eq_getElem hjl)

end Lemmas.Timer
