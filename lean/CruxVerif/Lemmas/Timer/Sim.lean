/-
The specification's monitor simulates the model of one timer: along every run (every list of (action, ran?) pairs)
from a well-formed state the monitor accepts, and every single clause holds at every entry.
-/
import CruxVerif.Lemmas.Timer.S1
import CruxVerif.Lemmas.Timer.S2
import CruxVerif.Lemmas.Timer.S3
import CruxVerif.Lemmas.Timer.S4
namespace Lemmas.Timer
open M.Timer S.Timer

theorem central (t : Timer) (a : Act) (ran : Bool) (hi : inv t = true) (hp : poisonedSt t = false) :
    Central t a ran := by
  rcases t with ⟨k, id, ctl, handle, woken, ⟨rs, ra⟩, ⟨cs, ca⟩⟩
  cases ctl
  · exact central_notStarted _ _ _ _ _ _ _ _ hi
  · exact central_waiting _ _ _ _ _ _ _ _ _ hi hp
  · exact central_clearPending _ _ _ _ _ _ _ _ _ _ hi hp
  · exact central_completed _ _ _ _ _ _ _ _ _ hi
  · exact central_cleared _ _ _ _ _ _ _ _ _ _ hi
  · exact central_evicted _ _ _ _ _ _ _ _ _ hi
  · simp [poisonedSt] at hp

theorem closed (t : Timer) (a : Act) (ran : Bool) (hi : inv t = true) (hp : poisonedSt t = true) :
    Closed t a ran := by
  rcases t with ⟨k, id, ctl, handle, woken, ⟨rs, ra⟩, ⟨cs, ca⟩⟩
  cases ctl
  case waiting => exact closed_waiting _ _ _ _ _ _ _ _ _ hi hp
  case clearPending => exact closed_clearPending _ _ _ _ _ _ _ _ _ _ hi hp
  case panicked => exact closed_panicked _ _ _ _ _ _ _ _ hi
  all_goals simp [poisonedSt] at hp

theorem step_kind (t : Timer) (a : Act) (ran : Bool) : (step t a ran).1.kind = t.kind := by
  unfold step
  split
  · rfl
  · have h1 : (act t a).1.kind = t.kind := by
      cases a <;> simp only [act] <;> (try split) <;> rfl
    have h2 : ∀ u : Timer, (runTask u).1.kind = u.kind := by
      intro u; unfold runTask; repeat' split
      all_goals rfl
    simp only []
    split
    · split <;> simp [h2, h1]
    · exact h1

theorem step_id (t : Timer) (a : Act) (ran : Bool) : (step t a ran).1.id = t.id := by
  unfold step
  split
  · rfl
  · have h1 : (act t a).1.id = t.id := by
      cases a <;> simp only [act] <;> (try split) <;> rfl
    have h2 : ∀ u : Timer, (runTask u).1.id = u.id := by
      intro u; unfold runTask; repeat' split
      all_goals rfl
    simp only []
    split
    · split <;> simp [h2, h1]
    · exact h1

/-- the monitor's history `m` matches the model state `t` -/
def R (m : Mon) (t : Timer) : Prop :=
  (m.poisoned = true ∧ poisonedSt t = true) ∨ (m = abs t ∧ poisonedSt t = false)

theorem mid_poisoned (m : Mon) (k : Kind) (id : Nat) (a : Act) (res : Res) (h : m.poisoned = true) :
    (m.mid k id a res).poisoned = true := by
  unfold Mon.mid
  split <;> simp [h]

theorem abs_not_poisoned (t : Timer) : (abs t).poisoned = false := rfl

/-- one step of the simulation -/
theorem sim_step (m : Mon) (t : Timer) (a : Act) (ran : Bool) (hi : inv t = true) (hR : R m t) :
    let r := step t a ran
    let e := entryOfOut a ran r.2
    let md := m.mid t.kind t.id a r.2.res
    inv r.1 = true ∧ R (md.after t.kind t.id e) r.1 ∧
      (md.poisoned = true ∨ allClauses t.kind t.id m md e = true) := by
  intro r e md
  rcases hR with ⟨hm, hp⟩ | ⟨hm, hp⟩
  · have hc := closed t a ran hi hp
    have hmd : md.poisoned = true := mid_poisoned _ _ _ _ _ hm
    refine ⟨hc.1, Or.inl ⟨?_, hc.2⟩, Or.inl hmd⟩
    simp [Mon.after, hmd]
  · subst hm
    have hc := central t a ran hi hp
    obtain ⟨h1, h2, h3⟩ := hc
    refine ⟨h1, ?_, ?_⟩
    · cases hmd : md.poisoned with
      | true =>
        left
        refine ⟨?_, ?_⟩
        · simp [Mon.after, hmd]
        · rw [← h2]; exact hmd
      | false =>
        right
        exact ⟨(h3 hmd).2, by rw [← h2]; exact hmd⟩
    · cases hmd : md.poisoned with
      | true => exact Or.inl rfl
      | false => exact Or.inr (h3 hmd).1

/-- the entries of a run of one timer -/
def entries (t : Timer) (acts : List (Act × Bool)) : List Entry :=
  (trace t acts).map fun x => entryOfOut x.1 x.2.1 x.2.2

theorem entries_cons (t : Timer) (a : Act) (ran : Bool) (rest : List (Act × Bool)) :
    entries t ((a, ran) :: rest) =
      entryOfOut a ran (step t a ran).2 :: entries (step t a ran).1 rest := by
  simp [entries, trace]

theorem check_none_of (k : Kind) (id : Nat) (m : Mon) (e : Entry)
    (h : (m.mid k id e.act e.res).poisoned = true ∨ allClauses k id m (m.mid k id e.act e.res) e = true) :
    check k id m e = none := by
  unfold check
  simp only []
  split
  · rfl
  · rename_i hp
    rcases h with h | h
    · exact absurd h hp
    · simp only [Option.map_eq_none_iff, List.find?_eq_none]
      intro c hc
      have := List.all_eq_true.mp h c hc
      simp [this]

/-- the monitor accepts every run of the model from matching, well-formed states -/
theorem verdict1_entries (acts : List (Act × Bool)) : ∀ (m : Mon) (t : Timer), inv t = true → R m t →
    verdict1 t.kind t.id m (entries t acts) = none := by
  induction acts with
  | nil => intro m t _ _; simp [entries, trace, verdict1]
  | cons x rest ih =>
    intro m t hi hR
    obtain ⟨a, ran⟩ := x
    have hs := sim_step m t a ran hi hR
    simp only [] at hs
    obtain ⟨h1, h2, h3⟩ := hs
    rw [entries_cons]
    unfold verdict1
    have hc := check_none_of t.kind t.id m (entryOfOut a ran (step t a ran).2) (by simpa [entryOfOut] using h3)
    rw [hc]
    simp only []
    have := ih _ _ h1 h2
    rw [step_kind, step_id] at this
    simpa [entryOfOut] using this

/-- every clause holds at every entry of every run -/
theorem holdsAlong_entries (key : String) (K : Mon → Mon → Entry → Bool) (acts : List (Act × Bool)) :
    ∀ (m : Mon) (t : Timer), (key, K) ∈ clauses t.kind t.id → inv t = true → R m t →
    holdsAlong K t.kind t.id m (entries t acts) = true := by
  induction acts with
  | nil => intro m t _ _ _; simp [entries, trace, holdsAlong]
  | cons x rest ih =>
    intro m t hK hi hR
    obtain ⟨a, ran⟩ := x
    have hs := sim_step m t a ran hi hR
    simp only [] at hs
    obtain ⟨h1, h2, h3⟩ := hs
    rw [entries_cons]
    unfold holdsAlong
    simp only [Bool.and_eq_true, Bool.or_eq_true]
    refine ⟨?_, ?_⟩
    · rcases h3 with h3 | h3
      · left; simpa [entryOfOut] using h3
      · right
        have := List.all_eq_true.mp h3 (key, K) hK
        simpa [entryOfOut] using this
    · have := ih _ (step t a ran).1 (by rw [step_kind, step_id]; exact hK) h1 h2
      rw [step_kind, step_id] at this
      simpa [entryOfOut] using this

/-- a fresh timer -/
theorem inv_init (k : Kind) (id : Nat) : inv { kind := k, id := id } = true := by
  simp (config := {decide := true}) [inv]

theorem R_init (k : Kind) (id : Nat) : R {} { kind := k, id := id } := by
  right
  refine ⟨?_, ?_⟩
  · simp (config := {decide := true}) [abs]
  · simp [poisonedSt]

end Lemmas.Timer
