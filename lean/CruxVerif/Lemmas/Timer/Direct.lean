/- Direct (monitor-free) counting argument for "at most one outcome". -/
import CruxVerif.Lemmas.Timer.World
namespace Lemmas.Timer
open M.Timer S.Timer

/-- how many outcomes a timer can still report -/
def budget (t : Timer) : Nat :=
  match t.ctl with
  | .notStarted | .waiting | .clearPending => 1
  | _ => 0

theorem runTask_budget (u : Timer) : (runTask u).2.events.length + budget (runTask u).1 ≤ budget u := by
  unfold runTask
  repeat' split
  all_goals simp_all [budget]

theorem step_budget (t : Timer) (a : Act) (ran : Bool) :
    (step t a ran).2.events.length + budget (step t a ran).1 ≤ budget t := by
  have hb : ∀ u : Timer, u.ctl = t.ctl → budget u = budget t := by
    intro u h; simp [budget, h]
  unfold step
  split
  · simp
  · simp only []
    split
    · have h := runTask_budget { (act t a).1 with woken := false }
      have h2 := hb { (act t a).1 with woken := false } (act_ctl t a)
      simp only [] at h h2
      split
      · simp only [List.length_nil, Nat.zero_add]; omega
      · simp only []; omega
    · simp [hb _ (act_ctl t a)]

theorem trace_budget (acts : List (Act × Bool)) : ∀ t : Timer,
    ((trace t acts).flatMap fun x => x.2.2.events).length ≤ budget t := by
  induction acts with
  | nil => intro t; simp [trace]
  | cons x rest ih =>
    intro t
    obtain ⟨a, ran⟩ := x
    have h1 := step_budget t a ran
    have h2 := ih (step t a ran).1
    simp only [trace, List.flatMap_cons, List.length_append]
    omega

/-- a state predicate that is preserved by every step and under which every step's output satisfies `Q` yields `Q` along every run -/
theorem trace_invariant (P : Timer → Prop) (Q : Out → Prop)
    (hstep : ∀ t a ran, P t → P (step t a ran).1 ∧ Q (step t a ran).2) :
    ∀ (acts : List (Act × Bool)) (t : Timer), P t → ∀ x ∈ trace t acts, Q x.2.2 := by
  intro acts
  induction acts with
  | nil => intro t _ x hx; simp [trace] at hx
  | cons y rest ih =>
    intro t hP x hx
    obtain ⟨a, ran⟩ := y
    simp only [trace, List.mem_cons] at hx
    rcases hx with hx | hx
    · rw [hx]; exact (hstep t a ran hP).2
    · exact ih _ (hstep t a ran hP).1 x hx

/-- the three shapes of a step -/
theorem step_cases (t : Timer) (a : Act) (ran : Bool) :
    (step t a ran = (t, { res := .dead })) ∨
    (step t a ran = ((act t a).1, { res := (act t a).2, done := (act t a).1.terminal })) ∨
    (∃ u : Timer, u.ctl = t.ctl ∧ u.handle = (act t a).1.handle ∧ u.id = t.id ∧ t.ctl ≠ .panicked ∧
      ((step t a ran).1 = (runTask u).1) ∧
      ((step t a ran).2.effects = [] ∨ (step t a ran).2.effects = (runTask u).2.effects) ∧
      ((step t a ran).2.events = [] ∨ (step t a ran).2.events = (runTask u).2.events)) := by
  unfold step
  split
  · exact Or.inl rfl
  · rename_i hp
    simp only []
    split
    · right; right
      refine ⟨{ (act t a).1 with woken := false }, act_ctl t a, rfl, ?_, hp, ?_⟩
      · cases a <;> simp only [act] <;> (try split) <;> rfl
      · split <;> simp
    · exact Or.inr (Or.inl rfl)

theorem act_handle_of_ne_alive (t : Timer) (a : Act) (h : t.handle ≠ .alive) : (act t a).1.handle = t.handle := by
  cases a <;> simp only [act] <;> (try split) <;> first | rfl | (rename_i h'; exact absurd h' h)

theorem runTask_handle (u : Timer) : (runTask u).1.handle = u.handle := by
  unfold runTask; repeat' split
  all_goals rfl

theorem runTask_id (u : Timer) : (runTask u).1.id = u.id := by
  unfold runTask; repeat' split
  all_goals rfl

/-- cleared before the first poll, or already reported cleared that way -/
def earlyCleared (t : Timer) : Prop :=
  t.handle = .cleared ∧ (t.ctl = .notStarted ∨ t.ctl = .cleared)

theorem runTask_earlyCleared (u : Timer) (h : earlyCleared u) :
    earlyCleared (runTask u).1 ∧ (runTask u).2.effects = [] := by
  obtain ⟨h1, h2⟩ := h
  rcases h2 with h2 | h2 <;> simp [runTask, h1, h2, earlyCleared]

theorem earlyCleared_step (t : Timer) (a : Act) (ran : Bool) (h : earlyCleared t) :
    earlyCleared (step t a ran).1 ∧ (step t a ran).2.effects = [] := by
  have hh : (act t a).1.handle = .cleared := by
    rw [act_handle_of_ne_alive t a (by rw [h.1]; decide), h.1]
  rcases step_cases t a ran with hs | hs | ⟨u, hu1, hu2, _, _, hu3, hu4, _⟩
  · rw [hs]; exact ⟨h, rfl⟩
  · rw [hs]; exact ⟨⟨hh, by rw [act_ctl]; exact h.2⟩, rfl⟩
  · have hu : earlyCleared u := ⟨by rw [hu2, hh], by rw [hu1]; exact h.2⟩
    have := runTask_earlyCleared u hu
    rw [hu3]
    refine ⟨this.1, ?_⟩
    rcases hu4 with h4 | h4
    · exact h4
    · rw [h4]; exact this.2

/-- the handle was dropped (in a well-formed state) -/
def handleDropped (t : Timer) : Prop := inv t = true ∧ t.handle = .dropped

theorem runTask_dropped (u : Timer) (hh : u.handle = .dropped) (hc : u.ctl ≠ .clearPending) :
    (∀ x ∈ (runTask u).2.effects, x ≠ .clear u.id) ∧ Ev.cleared ∉ (runTask u).2.events := by
  unfold runTask
  repeat' split
  all_goals simp_all

theorem handleDropped_step (t : Timer) (a : Act) (ran : Bool) (h : handleDropped t) :
    handleDropped (step t a ran).1 ∧
      (∀ x ∈ (step t a ran).2.effects, x ≠ .clear t.id) ∧ Ev.cleared ∉ (step t a ran).2.events := by
  obtain ⟨hi, hd⟩ := h
  have hh : (act t a).1.handle = .dropped := by
    rw [act_handle_of_ne_alive t a (by rw [hd]; decide), hd]
  have hcp : t.ctl ≠ .clearPending := by
    intro hc
    rcases t with ⟨k, id, ctl, handle, woken, rq, cl⟩
    simp only at hc hd; subst hc hd
    simp (config := {decide := true}) [inv] at hi
  rcases step_cases t a ran with hs | hs | ⟨u, hu1, hu2, hu5, _, hu3, hu4, hu6⟩
  · rw [hs]; exact ⟨⟨hi, hd⟩, by simp, by simp⟩
  · refine ⟨⟨inv_step t a ran hi, ?_⟩, ?_⟩
    · rw [hs]; exact hh
    · rw [hs]; simp
  · have hr := runTask_dropped u (by rw [hu2, hh]) (by rw [hu1]; exact hcp)
    refine ⟨⟨inv_step t a ran hi, ?_⟩, ?_, ?_⟩
    · rw [hu3, runTask_handle, hu2, hh]
    · rcases hu4 with h4 | h4
      · rw [h4]; simp
      · rw [h4, ← hu5]; exact hr.1
    · rcases hu6 with h6 | h6
      · rw [h6]; simp
      · rw [h6]; exact hr.2

theorem handleDropped_trace (id : Nat) (acts : List (Act × Bool)) : ∀ u : Timer, handleDropped u → u.id = id →
    ∀ x ∈ trace u acts, (∀ y ∈ x.2.2.effects, y ≠ .clear id) ∧ Ev.cleared ∉ x.2.2.events := by
  induction acts with
  | nil => intro u _ _ x hx; simp [trace] at hx
  | cons y rest ih =>
    intro u hu hid x hx
    obtain ⟨a, ran⟩ := y
    have hs := handleDropped_step u a ran hu
    simp only [trace, List.mem_cons] at hx
    rcases hx with hx | hx
    · rw [hx, ← hid]; exact hs.2
    · exact ih _ hs.1 (by rw [step_id, hid]) x hx

/-- an outcome has been reported -/
def reported (t : Timer) : Prop := t.ctl = .completed ∨ t.ctl = .cleared

theorem runTask_reported (u : Timer) (h : reported u) : runTask u = (u, {}) := by
  rcases h with h | h <;> simp [runTask, h]

theorem reported_step (t : Timer) (a : Act) (ran : Bool) (h : reported t) :
    reported (step t a ran).1 ∧ ((step t a ran).2.effects = [] ∧ (step t a ran).2.events = []) := by
  rcases step_cases t a ran with hs | hs | ⟨u, hu1, _, _, _, hu3, hu4, hu6⟩
  · rw [hs]; exact ⟨h, rfl, rfl⟩
  · rw [hs]; exact ⟨by unfold reported; rw [act_ctl]; exact h, rfl, rfl⟩
  · have hu : reported u := by unfold reported; rw [hu1]; exact h
    have hr := runTask_reported u hu
    refine ⟨?_, ?_, ?_⟩
    · rw [hu3, hr]; exact hu
    · rcases hu4 with h4 | h4
      · exact h4
      · rw [h4, hr]
    · rcases hu6 with h6 | h6
      · exact h6
      · rw [h6, hr]

end Lemmas.Timer
