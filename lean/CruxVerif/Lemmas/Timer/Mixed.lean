/-
Both APIs in one app (host `mixed`): the invariant of the joint state — one counter above every id handed out by
either API, ids pairwise distinct across both APIs, the legacy part consistent — preserved by every case step.
-/
import CruxVerif.Lemmas.Timer.LegacyWorld
import CruxVerif.Lemmas.Timer.Sim
namespace Lemmas.Timer
open M.Timer S.Timer

/-- the id of the command-API timer at position `j`, if that position is one and the timer exists -/
def cid (cmds : List (Option CSlot)) (j : Nat) : Option Nat :=
  match cmds[j]? with
  | some (some slot) => slot.timer.map (·.id)
  | _ => none

/-- is position `j` a command-API position -/
def isCmd (cmds : List (Option CSlot)) (j : Nat) : Bool :=
  match cmds[j]? with
  | some (some _) => true
  | _ => false

/-- is position `j` a legacy position -/
def isLeg (cmds : List (Option CSlot)) (j : Nat) : Bool :=
  match cmds[j]? with
  | some none => true
  | _ => false

theorem cmdStepAll_get (cmds : List (Option CSlot)) (i : Nat) (a : Act) (idle : Res) (j : Nat) :
    ((cmdStepAll cmds i a idle).map (·.1))[j]? = (cmds[j]?).map fun s =>
      match s with
      | some slot => some { slot with timer := slot.timer.map fun t => (step t (if j == i then a else .tick) true).1 }
      | none => none := by
  simp only [cmdStepAll, List.getElem?_map, List.getElem?_mapIdx]
  cases cmds[j]? with
  | none => rfl
  | some s =>
    cases s with
    | none => rfl
    | some slot =>
      cases h : slot.timer with
      | none => simp [h]; cases slot; simp_all
      | some t => simp [h]

theorem cmdStepAll_length (cmds : List (Option CSlot)) (i : Nat) (a : Act) (idle : Res) :
    ((cmdStepAll cmds i a idle).map (·.1)).length = cmds.length := by
  simp [cmdStepAll]

/-- running the commands changes no id and no position's API -/
theorem cmdStepAll_cid (cmds : List (Option CSlot)) (i : Nat) (a : Act) (idle : Res) (j : Nat) :
    cid ((cmdStepAll cmds i a idle).map (·.1)) j = cid cmds j ∧
    isCmd ((cmdStepAll cmds i a idle).map (·.1)) j = isCmd cmds j := by
  simp only [cid, isCmd, cmdStepAll_get]
  cases cmds[j]? with
  | none => exact ⟨rfl, rfl⟩
  | some s =>
    cases s with
    | none => exact ⟨rfl, rfl⟩
    | some slot =>
      cases h : slot.timer with
      | none => simp [h]
      | some t => simp [h, step_id]

/-- the joint state is consistent -/
structure MInv (w : MWorld) : Prop where
  lwinv : WInv w.lw
  len : w.cmds.length = w.lw.timers.length
  cmdlt : ∀ (j x : Nat), cid w.cmds j = some x → x < w.lw.counter
  cmddistinct : ∀ (i j x : Nat), cid w.cmds i = some x → cid w.cmds j = some x → i = j
  cross : ∀ (i j x : Nat) (t : LTimer), cid w.cmds i = some x → w.lw.timers[j]? = some t → t.id ≠ some x
  unused : ∀ (j : Nat) (t : LTimer), isCmd w.cmds j = true → w.lw.timers[j]? = some t → t.id = none

theorem idAt_cmd (w : MWorld) (j x : Nat) (hc : isCmd w.cmds j = true) (hx : w.idAt j = some x) :
    cid w.cmds j = some x := by
  unfold MWorld.idAt at hx
  unfold isCmd at hc
  unfold cid
  split at hx <;> simp_all

theorem idAt_leg (w : MWorld) (j x : Nat) (hc : isCmd w.cmds j = false) (hx : w.idAt j = some x) :
    ∃ t, w.lw.timers[j]? = some t ∧ t.id = some x := by
  unfold MWorld.idAt at hx
  unfold isCmd at hc
  split at hx
  · simp_all
  · cases ht : w.lw.timers[j]? with
    | none => rw [ht] at hx; cases hx
    | some t => rw [ht] at hx; exact ⟨t, rfl, hx⟩
  · cases hx

/-- every id in a consistent joint state is below the counter, and no two positions — whatever their APIs — share one -/
theorem minv_ids (w : MWorld) (h : MInv w) :
    (∀ j x, w.idAt j = some x → x < w.lw.counter) ∧
    (∀ i j x, w.idAt i = some x → w.idAt j = some x → i = j) := by
  have hleg := idAt_leg w
  have hcmd := idAt_cmd w
  constructor
  · intro j x hx
    cases hc : isCmd w.cmds j with
    | true => exact h.cmdlt j x (hcmd j x hc hx)
    | false => obtain ⟨t, ht, hid⟩ := hleg j x hc hx; exact h.lwinv.idlt j t x ht hid
  · intro i j x hi hj
    cases hci : isCmd w.cmds i <;> cases hcj : isCmd w.cmds j
    · obtain ⟨ti, hti, hidi⟩ := hleg i x hci hi
      obtain ⟨tj, htj, hidj⟩ := hleg j x hcj hj
      exact h.lwinv.distinct i j ti tj x hti htj hidi hidj
    · obtain ⟨ti, hti, hidi⟩ := hleg i x hci hi
      exact absurd hidi (h.cross j i x ti (hcmd j x hcj hj) hti)
    · obtain ⟨tj, htj, hidj⟩ := hleg j x hcj hj
      exact absurd hidj (h.cross i j x tj (hcmd i x hci hi) htj)
    · exact h.cmddistinct i j x (hcmd i x hci hi) (hcmd j x hcj hj)

/-- handing out an id to the other API keeps the legacy part consistent -/
theorem winv_bump (w : LWorld) (h : WInv w) (c : Nat) (hc : w.counter ≤ c) : WInv { w with counter := c } := by
  constructor <;> dsimp only
  · exact h.nodup
  · intro x hx; have := h.small x hx; omega
  · intro j t id ht hid; have := h.idlt j t id ht hid; omega
  · exact h.sync
  · exact h.wf
  · exact h.distinct

/-- ids of the legacy timers after a legacy step: the old ones, or the one the counter handed out -/
theorem lstep_ids (w : LWorld) (a : LAct) (i j : Nat) (t' : LTimer) (x : Nat)
    (ht' : (lstep w a i).1.timers[j]? = some t') (hx : t'.id = some x) :
    (∃ t, w.timers[j]? = some t ∧ t.id = some x) ∨ (j = i ∧ x = (allocId w.counter).1) := by
  cases ht : w.timers[j]? with
  | none =>
    have : j ≥ w.timers.length := by
      rcases Nat.lt_or_ge j w.timers.length with h' | h'
      · rw [List.getElem?_eq_getElem h'] at ht; cases ht
      · exact h'
    rw [List.getElem?_eq_none (by rw [lstep_length]; exact this)] at ht'; cases ht'
  | some t =>
    have hg := lstep_get w a i j t ht
    by_cases hij : i = j
    · obtain ⟨h1, _⟩ := hg.2 hij
      rw [h1] at ht'
      have := Option.some.inj ht'
      subst this
      rcases lstep1_shape t (w.cleared.contains (t.id.getD (allocId w.counter).1)) (allocId w.counter).1 a with
        ⟨_, _, h3⟩ | ⟨_, h2, _⟩
      · right; rw [h3] at hx; exact ⟨hij.symm, (Option.some.inj hx).symm⟩
      · left; exact ⟨t, rfl, by rw [← h2]; exact hx⟩
    · rw [hg.1 hij] at ht'
      have := Option.some.inj ht'
      subst this
      exact Or.inl ⟨t, rfl, hx⟩

/-- the invariant only looks at the ids and APIs of the command positions -/
theorem minv_congr (w : MWorld) (h : MInv w) (cmds' : List (Option CSlot))
    (hc : ∀ j, cid cmds' j = cid w.cmds j ∧ isCmd cmds' j = isCmd w.cmds j) (hl : cmds'.length = w.cmds.length) :
    MInv { w with cmds := cmds' } := by
  constructor <;> dsimp only
  · exact h.lwinv
  · rw [hl]; exact h.len
  · intro j x hx; rw [(hc j).1] at hx; exact h.cmdlt j x hx
  · intro i j x hi hj; rw [(hc i).1] at hi; rw [(hc j).1] at hj; exact h.cmddistinct i j x hi hj
  · intro i j x t hi ht; rw [(hc i).1] at hi; exact h.cross i j x t hi ht
  · intro j t hj ht; rw [(hc j).2] at hj; exact h.unused j t hj ht

theorem cid_set (cmds : List (Option CSlot)) (i : Nat) (slot : CSlot) (hi : i < cmds.length) (j : Nat) :
    cid (cmds.set i (some slot)) j = if j = i then slot.timer.map (·.id) else cid cmds j := by
  unfold cid
  by_cases hji : j = i
  · subst hji; rw [List.getElem?_set_self hi]; simp
  · rw [List.getElem?_set_ne (Ne.symm hji)]; simp [hji]

theorem isCmd_set (cmds : List (Option CSlot)) (i : Nat) (slot : CSlot) (hi : i < cmds.length)
    (hc : isCmd cmds i = true) (j : Nat) : isCmd (cmds.set i (some slot)) j = isCmd cmds j := by
  unfold isCmd at hc ⊢
  by_cases hji : j = i
  · subst hji; rw [List.getElem?_set_self hi]; simp only []; split at hc <;> simp_all
  · rw [List.getElem?_set_ne (Ne.symm hji)]

theorem lt_of_getElem?_some {α : Type} (l : List α) (i : Nat) (x : α) (h : l[i]? = some x) : i < l.length := by
  rcases Nat.lt_or_ge i l.length with h' | h'
  · exact h'
  · rw [List.getElem?_eq_none h'] at h; cases h

set_option maxHeartbeats 1000000 in
/-- one case step keeps the joint state consistent (while the counter does not wrap) -/
theorem minv_step (w : MWorld) (a : MAct) (i : Nat) (h : MInv w) (hb : w.lw.counter + 1 < 18446744073709551616) :
    MInv (mstep w a i).1 ∧ w.lw.counter ≤ (mstep w a i).1.lw.counter ∧
      (mstep w a i).1.lw.counter ≤ w.lw.counter + 1 := by
  have hnew : (allocId w.lw.counter).1 = w.lw.counter := by simp only [allocId]; omega
  have hnext : (allocId w.lw.counter).2 = w.lw.counter + 1 := by simp only [allocId]; omega
  have hsame : ∀ (act : Act) (idle : Res), MInv { w with cmds := (cmdStepAll w.cmds i act idle).map (·.1) } :=
    fun act idle => minv_congr w h _ (fun j => cmdStepAll_cid w.cmds i act idle j) (cmdStepAll_length _ _ _ _)
  unfold mstep
  split
  · -- a command position
    rename_i slot hslot
    have hil := lt_of_getElem?_some _ _ _ hslot
    have hci : isCmd w.cmds i = true := by simp [isCmd, hslot]
    split
    · rename_i htimer
      split
      · -- its start action: the id comes from the shared counter
        simp only [hnew, hnext]
        refine ⟨?_, Nat.le_succ _, Nat.le_refl _⟩
        generalize hact : (if a = MAct.startClear then Act.clear else Act.tick) = act
        have hcid : ∀ j, cid ((cmdStepAll (w.cmds.set i (some { slot with timer := some { kind := slot.kind, id := w.lw.counter } })) i act).map (·.1)) j
            = if j = i then some w.lw.counter else cid w.cmds j := by
          intro j; rw [(cmdStepAll_cid _ _ _ _ j).1, cid_set _ _ _ hil]; rfl
        have hisc : ∀ j, isCmd ((cmdStepAll (w.cmds.set i (some { slot with timer := some { kind := slot.kind, id := w.lw.counter } })) i act).map (·.1)) j
            = isCmd w.cmds j := by
          intro j; rw [(cmdStepAll_cid _ _ _ _ j).2, isCmd_set _ _ _ hil hci]
        constructor <;> dsimp only
        · exact winv_bump w.lw h.lwinv _ (Nat.le_succ _)
        · rw [cmdStepAll_length, List.length_set]; exact h.len
        · intro j x hx
          rw [hcid] at hx
          split at hx
          · cases hx; omega
          · have := h.cmdlt j x hx; omega
        · intro j1 j2 x h1 h2
          rw [hcid] at h1 h2
          split at h1 <;> split at h2
          · omega
          · cases h1; have := h.cmdlt j2 _ h2; omega
          · cases h2; have := h.cmdlt j1 _ h1; omega
          · exact h.cmddistinct j1 j2 x h1 h2
        · intro j1 j2 x t h1 ht
          rw [hcid] at h1
          split at h1
          · cases h1
            intro hid
            have := h.lwinv.idlt j2 t _ ht hid; omega
          · exact h.cross j1 j2 x t h1 ht
        · intro j t hj ht
          rw [hisc] at hj
          exact h.unused j t hj ht
      · exact ⟨hsame _ _, Nat.le_refl _, Nat.le_succ _⟩
    · exact ⟨hsame _ _, Nat.le_refl _, Nat.le_succ _⟩
  · -- a legacy position
    rename_i hslot
    have hci : isCmd w.cmds i = false := by simp [isCmd, hslot]
    have hs := winv_step w.lw (toLAct a) i h.lwinv hb
    refine ⟨?_, hs.2.1, hs.2.2⟩
    constructor <;> dsimp only
    · exact hs.1
    · rw [cmdStepAll_length, lstep_length]; exact h.len
    · intro j x hx
      rw [(cmdStepAll_cid _ _ _ _ j).1] at hx
      have := h.cmdlt j x hx; omega
    · intro j1 j2 x h1 h2
      rw [(cmdStepAll_cid _ _ _ _ _).1] at h1 h2
      exact h.cmddistinct j1 j2 x h1 h2
    · intro j1 j2 x t h1 ht hid
      rw [(cmdStepAll_cid _ _ _ _ _).1] at h1
      rcases lstep_ids w.lw (toLAct a) i j2 t x ht hid with ⟨t0, ht0, hid0⟩ | ⟨_, hx⟩
      · exact h.cross j1 j2 x t0 h1 ht0 hid0
      · have := h.cmdlt j1 x h1; rw [hnew] at hx; omega
    · intro j t hj ht
      rw [(cmdStepAll_cid _ _ _ _ _).2] at hj
      have hji : i ≠ j := by intro e; subst e; rw [hci] at hj; cases hj
      cases ht0 : w.lw.timers[j]? with
      | none =>
        have : j ≥ w.lw.timers.length := by
          rcases Nat.lt_or_ge j w.lw.timers.length with h' | h'
          · rw [List.getElem?_eq_getElem h'] at ht0; cases ht0
          · exact h'
        rw [List.getElem?_eq_none (by rw [lstep_length]; exact this)] at ht; cases ht
      | some t0 =>
        rw [(lstep_get w.lw (toLAct a) i j t0 ht0).1 hji] at ht
        have e := Option.some.inj ht
        rw [← e]
        exact h.unused j t0 hj ht0
  · exact ⟨hsame _ _, Nat.le_refl _, Nat.le_succ _⟩

theorem minv_init (counter : Nat) (kinds : List (Bool × Kind)) : MInv (mkMWorld counter kinds) := by
  have hcid : ∀ j, cid (mkMWorld counter kinds).cmds j = none := by
    intro j
    simp only [cid, mkMWorld, List.getElem?_map]
    cases kinds[j]? with
    | none => rfl
    | some lk => cases h : lk.1 <;> simp [h]
  constructor
  · exact winv_init counter _
  · simp [mkMWorld, mkLWorld]
  · intro j x hx; rw [hcid] at hx; cases hx
  · intro i j x hx; rw [hcid] at hx; cases hx
  · intro i j x t hx; rw [hcid] at hx; cases hx
  · intro j t _ ht
    simp only [mkMWorld, mkLWorld, List.getElem?_map] at ht
    cases hk : kinds[j]? with
    | none => rw [hk] at ht; cases ht
    | some lk => rw [hk] at ht; simp only [Option.map_some] at ht; rw [← Option.some.inj ht]

theorem allocSeq_ids (apis : List Bool) : ∀ c, (allocSeq c apis).map (·.2) = allocIds c apis.length := by
  induction apis with
  | nil => intro c; rfl
  | cons a rest ih => intro c; simp [allocSeq, allocIds, ih]

theorem minv_mfinal (steps : List (MAct × Nat)) : ∀ w : MWorld, MInv w →
    w.lw.counter + steps.length < 18446744073709551616 → MInv (mfinal w steps) := by
  induction steps with
  | nil => intro w h _; exact h
  | cons s rest ih =>
    intro w h hb
    obtain ⟨a, i⟩ := s
    simp only [List.length_cons] at hb
    have hs := minv_step w a i h (by omega)
    exact ih _ hs.1 (by omega)

end Lemmas.Timer
