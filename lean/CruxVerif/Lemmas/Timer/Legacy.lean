/-
Legacy capability API, one timer: the run of a legacy timer together with the membership of its id in
CLEARED_TIMER_IDS, and the simulation by the legacy monitor of the specification.
-/
import CruxVerif.Lemmas.Timer.Base
namespace Lemmas.Timer
open M.Timer S.Timer

/-- membership of the timer's id in the set after a step -/
def newInSet (op : SetOp) (inSet : Bool) : Bool :=
  match op with
  | .keep => inSet
  | .insert => true
  | .erase => false

def lentry (a : LAct) (o : Out) : LEntry := { act := a, res := o.res, effects := o.effects, events := o.events }

/-- run of one legacy timer; `inSet` tracks whether its id is in the cleared set, `newId` is the id it gets when started -/
def ltrace1 (newId : Nat) : LTimer → Bool → List LAct → List LEntry
  | _, _, [] => []
  | t, inSet, a :: rest =>
    let r := lstep1 t inSet newId a
    lentry a r.2.1 :: ltrace1 newId r.1 (newInSet r.2.2.1 inSet) rest

def lfinal1 (newId : Nat) : LTimer → Bool → List LAct → LTimer
  | t, _, [] => t
  | t, inSet, a :: rest =>
    let r := lstep1 t inSet newId a
    lfinal1 newId r.1 (newInSet r.2.2.1 inSet) rest

/-- well-formedness of a legacy timer -/
def linv (t : LTimer) : Bool :=
  match t.id with
  | none => !t.finished && t.req == {} && t.clears == 0
  | some _ => if t.finished then (t.req.shell == .absent || t.req.answer.isSome)
              else (t.req.shell != .absent && t.req.answer.isNone)

def labs (t : LTimer) : LMon :=
  { requested := t.req.shell != .absent
    appCleared := decide (t.clears > 0)
    answered := t.req.answer
    clearSent := decide (t.clears > 0)
    outcome := false }

/-- the monitor's history matches the timer (after the outcome only `outcome` matters) -/
def LR (m : LMon) (t : LTimer) : Prop :=
  (t.finished = true ∧ m.outcome = true) ∨ (t.finished = false ∧ m = labs t)

/-- one step: with the membership flag in sync (`inSet ↔ clear was called`, while no outcome), the lenient monitor
    accepts the step, stays matched, the timer stays well-formed and the flag stays in sync -/
def LCentral (t : LTimer) (inSet : Bool) (newId : Nat) (a : LAct) (m : LMon) (idf : Option Nat) : Prop :=
  let r := lstep1 t inSet newId a
  let e := lentry a r.2.1
  lcheck false t.kind idf m e = none ∧ LR (m.after t.kind idf e) r.1 ∧ linv r.1 = true ∧ r.1.kind = t.kind ∧
  (r.1.finished = false → newInSet r.2.2.1 inSet = decide (r.1.clears > 0))

theorem lstep1_id_some (t : LTimer) (id : Nat) (h : t.id = some id) (inSet : Bool) (newId : Nat) (a : LAct) :
    (lstep1 t inSet newId a).1.id = some id := by
  rcases t with ⟨k, tid, f, rq, c⟩
  simp only at h; subst h
  cases a <;> simp only [lstep1] <;> (repeat' split) <;> rfl

macro "lbash" : tactic => `(tactic|
  simp (config := {decide := true}) [LCentral, lstep1, lentry, lcheck, LMon.after, LR, labs, linv, newInSet, respOf,
      Req.resolve, Req.drop, shell_beq, res_beq, bne])

set_option maxHeartbeats 8000000 in
theorem lcentral (t : LTimer) (inSet : Bool) (newId : Nat) (a : LAct) (m : LMon) (idf : Option Nat)
    (hi : linv t = true) (hR : LR m t) (hs : t.finished = false → inSet = decide (t.clears > 0))
    (hid : (lstep1 t inSet newId a).1.id = none ∨ (lstep1 t inSet newId a).1.id = idf) :
    LCentral t inSet newId a m idf := by
  rcases t with ⟨k, id, finished, ⟨rs, ra⟩, clears⟩
  rcases hR with ⟨hf, hm⟩ | ⟨hf, hm⟩
  · -- after the outcome
    simp only at hf; subst hf
    rcases m with ⟨m1, m2, m3, m4, m5⟩
    simp only at hm; subst hm
    cases id with
    | none => simp [linv] at hi
    | some id =>
      have hidf : some id = idf := by
        rw [lstep1_id_some _ id rfl] at hid
        rcases hid with h | h
        · cases h
        · exact h
      subst hidf
      clear hid
      cases a with
      | resolveReq s =>
        cases s <;> cases k <;> cases rs <;> cases ra <;> first | (exfalso; revert hi; simp (config := {decide := true}) [linv]; done) | lbash
      | _ => cases rs <;> cases ra <;> cases clears <;> first | (exfalso; revert hi; simp (config := {decide := true}) [linv]; done) | lbash
  · simp only at hf; subst hf
    subst hm
    have hs' := hs rfl
    subst hs'
    cases id with
    | none =>
      have : rs = .absent ∧ ra = none ∧ clears = 0 := by
        simp only [linv, Bool.and_eq_true, beq_iff_eq] at hi
        obtain ⟨⟨_, h2⟩, h3⟩ := hi
        injection h2 with h21 h22
        exact ⟨h21, h22, h3⟩
      obtain ⟨rfl, rfl, rfl⟩ := this
      cases a with
      | start =>
        have : some newId = idf := by simpa [lstep1] using hid
        subst this; cases k <;> lbash
      | startClear =>
        have : some newId = idf := by simpa [lstep1] using hid
        subst this; cases k <;> lbash
      | _ => cases idf <;> lbash
    | some id =>
      have hidf : some id = idf := by
        rw [lstep1_id_some _ id rfl] at hid
        rcases hid with h | h
        · cases h
        · exact h
      subst hidf
      clear hid
      cases a with
      | resolveReq s =>
        cases s <;> cases k <;> cases rs <;> cases ra <;> cases clears <;>
          first | (exfalso; revert hi; simp (config := {decide := true}) [linv]; done) | lbash
      | _ => cases k <;> cases rs <;> cases ra <;> cases clears <;>
          first | (exfalso; revert hi; simp (config := {decide := true}) [linv]; done) | lbash

theorem linv_fresh (k : Kind) : linv { kind := k } = true := by
  simp (config := {decide := true}) [linv]

theorem LR_fresh (k : Kind) : LR {} { kind := k } := by
  right
  refine ⟨rfl, ?_⟩
  simp (config := {decide := true}) [labs]

theorem lfinal1_id_some (newId : Nat) (acts : List LAct) : ∀ (t : LTimer) (inSet : Bool) (id : Nat),
    t.id = some id → (lfinal1 newId t inSet acts).id = some id := by
  induction acts with
  | nil => intro t _ id h; exact h
  | cons a rest ih =>
    intro t inSet id h
    simp only [lfinal1]
    exact ih _ _ id (lstep1_id_some t id h inSet newId a)

/-- the lenient legacy monitor accepts every run of one legacy timer whose membership flag is in sync -/
theorem lverdict1_ltrace1 (newId : Nat) (acts : List LAct) : ∀ (t : LTimer) (inSet : Bool) (m : LMon),
    linv t = true → LR m t → (t.finished = false → inSet = decide (t.clears > 0)) →
    lverdict1 false t.kind (lfinal1 newId t inSet acts).id m (ltrace1 newId t inSet acts) = none := by
  induction acts with
  | nil => intro t inSet m _ _ _; rfl
  | cons a rest ih =>
    intro t inSet m hi hR hs
    have hid : (lstep1 t inSet newId a).1.id = none ∨
        (lstep1 t inSet newId a).1.id = (lfinal1 newId t inSet (a :: rest)).id := by
      cases h : (lstep1 t inSet newId a).1.id with
      | none => exact Or.inl rfl
      | some id => right; simp only [lfinal1]; rw [lfinal1_id_some newId rest _ _ id h]
    have hc := lcentral t inSet newId a m _ hi hR hs hid
    obtain ⟨h1, h2, h3, h4, h5⟩ := hc
    simp only [ltrace1, lverdict1]
    rw [h1]
    simp only []
    have := ih (lstep1 t inSet newId a).1 (newInSet (lstep1 t inSet newId a).2.2.1 inSet) _ h3 h2 h5
    rw [h4] at this
    simpa [lfinal1] using this

end Lemmas.Timer
