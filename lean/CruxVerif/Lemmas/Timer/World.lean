/-
Several timers (command API, both hosts): the entries the specification attributes to timer `j` in a joint run are
the entries of a run of timer `j` alone; hence the monitor accepts every joint run.  Also the id allocation.
-/
import CruxVerif.Lemmas.Timer.Sim
namespace Lemmas.Timer
open M.Timer S.Timer

theorem inv_step (t : Timer) (a : Act) (ran : Bool) (hi : inv t = true) : inv (step t a ran).1 = true := by
  cases hp : poisonedSt t with
  | true => exact (closed t a ran hi hp).1
  | false => exact (central t a ran hi hp).1

/-- what a case step means to timer `j`, along its own evolution -/
def actsFor (host : Host) (j : Nat) : Timer → List (CAct × Nat) → List (Act × Bool)
  | _, [] => []
  | t, (c, i) :: rest =>
    let e := entry host t.launched (j == i) c
    e :: actsFor host j (step t e.1 e.2).1 rest

theorem entryOf_eq_entry (host : Host) (launched addressed : Bool) (c : CAct) :
    entryOf host launched addressed c = entry host launched addressed c := by
  cases host <;> cases launched <;> cases addressed <;> cases c <;> rfl

theorem act_ctl (t : Timer) (a : Act) : (act t a).1.ctl = t.ctl := by
  cases a <;> simp only [act] <;> (try split) <;> rfl

theorem act_woken (t : Timer) (a : Act) (h : t.woken = true) : (act t a).1.woken = true := by
  cases a <;> simp only [act] <;> (try split) <;> simp [h]

theorem runTask_ctl (u : Timer) : (runTask u).1.ctl ≠ .notStarted := by
  unfold runTask
  repeat' split
  all_goals simp_all

/-- a step leaves a timer unstarted exactly when it was unstarted and its command was not run -/
theorem step_notStarted (t : Timer) (a : Act) (ran : Bool) (hi : inv t = true) :
    ((step t a ran).1.ctl = .notStarted) ↔ (t.ctl = .notStarted ∧ ran = false) := by
  unfold step
  split
  · rename_i h; simp [h]
  · simp only []
    split
    · rename_i hr
      split
      · simp only [runTask_ctl, false_iff, not_and]; intro _; simp_all
      · simp only [runTask_ctl, false_iff, not_and]; intro _; simp_all
    · rename_i hr
      rw [act_ctl]
      constructor
      · intro h
        refine ⟨h, ?_⟩
        have hw : t.woken = true := by
          rcases t with ⟨k, id, ctl, handle, woken, rq, cl⟩
          simp only at h; subst h
          simp only [inv, Bool.and_eq_true] at hi
          exact hi.2.1.1
        have := act_woken t a hw
        simp [this] at hr
        exact hr
      · intro h; exact h.1

/-- a command is launched by the first poll addressed to it and by nothing else -/
theorem launched_step (host : Host) (t : Timer) (addressed : Bool) (c : CAct) (hi : inv t = true) :
    (step t (entry host t.launched addressed c).1 (entry host t.launched addressed c).2).1.launched
      = (t.launched || (addressed && c == .poll)) := by
  have h := step_notStarted t (entry host t.launched addressed c).1 (entry host t.launched addressed c).2 hi
  by_cases hc : t.ctl = .notStarted
  · have hl : t.launched = false := by simp [Timer.launched, hc]
    rw [hl] at h ⊢
    simp only [hc, true_and] at h
    cases host <;> cases addressed <;> cases c <;>
      simp (config := {decide := true}) [entry, Timer.launched] at h ⊢ <;> simp [h]
  · have hl : t.launched = true := by simp [Timer.launched, hc]
    simp only [hc, false_and, iff_false] at h
    rw [hl] at h ⊢
    simp only [Timer.launched, Bool.true_or, bne_iff_ne, ne_eq]
    exact h

theorem wrun_length (host : Host) (steps : List (CAct × Nat)) : ∀ ts, (wrun host ts steps).length = steps.length := by
  induction steps with
  | nil => intro ts; rfl
  | cons s rest ih => intro ts; obtain ⟨c, i⟩ := s; simp [wrun, ih]

theorem wstep_length (host : Host) (ts : List Timer) (c : CAct) (i : Nat) :
    (wstep host ts c i).1.length = ts.length ∧ (wstep host ts c i).2.length = ts.length := by
  simp [wstep, stepAll]

theorem wrun_all_length (host : Host) (steps : List (CAct × Nat)) :
    ∀ ts, ∀ outs ∈ wrun host ts steps, outs.length = ts.length := by
  induction steps with
  | nil => intro ts outs h; simp [wrun] at h
  | cons s rest ih =>
    intro ts outs h
    obtain ⟨c, i⟩ := s
    simp only [wrun, List.mem_cons] at h
    rcases h with h | h
    · rw [h]; exact (wstep_length host ts c i).2
    · have := ih _ outs h
      rw [this]; exact (wstep_length host ts c i).1

theorem wstep_get (host : Host) (ts : List Timer) (c : CAct) (i j : Nat) (t : Timer) (h : ts[j]? = some t) :
    (wstep host ts c i).1[j]? = some (step t (entry host t.launched (j == i) c).1 (entry host t.launched (j == i) c).2).1 ∧
    (wstep host ts c i).2.getD j {} = (step t (entry host t.launched (j == i) c).1 (entry host t.launched (j == i) c).2).2 := by
  simp [wstep, stepAll, List.getElem?_map, List.getElem?_mapIdx, h, List.getD_eq_getElem?_getD]

/-- `timers_independent`, in the form the soundness proof uses: what the specification attributes to timer `j` in a
    joint run is a run of timer `j` alone -/
theorem project_wrun (host : Host) (j : Nat) (steps : List (CAct × Nat)) :
    ∀ (ts : List Timer) (t : Timer), ts[j]? = some t → inv t = true →
      project host j t.launched (steps.zip (wrun host ts steps)) = entries t (actsFor host j t steps) := by
  induction steps with
  | nil => intro ts t _ _; simp [wrun, project, entries, actsFor, trace]
  | cons s rest ih =>
    intro ts t ht hi
    obtain ⟨c, i⟩ := s
    obtain ⟨h1, h2⟩ := wstep_get host ts c i j t ht
    have hij : (i == j) = (j == i) := BEq.comm
    simp only [wrun, List.zip_cons_cons, project, actsFor]
    rw [hij, entryOf_eq_entry, h2]
    congr 1
    have := ih (wstep host ts c i).1 _ h1 (inv_step _ _ _ hi)
    rw [launched_step host t (j == i) c hi] at this
    exact this

/-- the monitor accepts every joint run of fresh timers -/
theorem verdict_wrun (host : Host) (ts : List Timer) (steps : List (CAct × Nat))
    (hfresh : ∀ t ∈ ts, ∃ k id, t = { kind := k, id := id }) :
    verdict host (ts.map fun t => (t.kind, t.id)) steps true (wrun host ts steps) = none := by
  unfold verdict
  have hl := wrun_length host steps ts
  have hall : (wrun host ts steps).all (fun x => x.length == (ts.map fun t => (t.kind, t.id)).length) = true := by
    rw [List.all_eq_true]
    intro outs h
    simp [wrun_all_length host steps ts outs h]
  simp only [Bool.not_true, Bool.false_eq_true, if_false, hl, bne_self_eq_false, hall, Bool.or_self]
  rw [List.findSome?_eq_none_iff]
  intro j _
  rw [List.getElem?_map]
  cases ht : ts[j]? with
  | none => rfl
  | some t =>
    simp only [Option.map_some]
    obtain ⟨k, id, rfl⟩ := hfresh t (List.mem_of_getElem? ht)
    have hp := project_wrun host j steps ts _ ht (inv_init k id)
    have hlaunched : ({ kind := k, id := id } : Timer).launched = false := by
      simp (config := {decide := true}) [Timer.launched]
    rw [hlaunched] at hp
    rw [hp]
    exact verdict1_entries _ {} _ (inv_init k id) (R_init k id)

/-! ### ids -/

theorem allocIds_eq (n : Nat) : ∀ c, allocIds c n = (List.range n).map fun i => (c + i) % 18446744073709551616 := by
  induction n with
  | zero => intro c; rfl
  | succ n ih =>
    intro c
    rw [allocIds, ih, List.range_succ_eq_map]
    simp only [allocId, List.map_cons, List.map_map, Nat.add_zero]
    congr 1
    apply List.map_congr_left
    intro i _
    simp only [Function.comp]
    omega

theorem allocIds_nodup (c n : Nat) (h : n ≤ 18446744073709551616) : (allocIds c n).Nodup := by
  rw [allocIds_eq, List.Nodup, List.pairwise_map]
  have hr : List.Pairwise (fun a b => a < b ∧ b < n) (List.range n) := by
    rw [List.pairwise_iff_getElem]
    intro i j hi hj hij
    simp only [List.getElem_range]
    simp only [List.length_range] at hj
    exact ⟨hij, hj⟩
  exact hr.imp (by intro a b ⟨h1, h2⟩; omega)

theorem allocIds_increasing (n : Nat) : ∀ c, c % 18446744073709551616 + n ≤ 18446744073709551616 →
    increasing (allocIds c n) = true := by
  induction n with
  | zero => intro c _; rfl
  | succ n ih =>
    intro c h
    cases n with
    | zero => rfl
    | succ n =>
      have := ih ((c + 1) % 18446744073709551616) (by omega)
      simp only [allocIds, allocId, increasing, Bool.and_eq_true, decide_eq_true_eq] at this ⊢
      refine ⟨by omega, this⟩

/-- in the `cmd` host the meaning of a case step for timer `j` does not depend on any timer's state: steps addressed
    to other timers are `(tick, not run)` -/
theorem actsFor_cmd (j : Nat) (steps : List (CAct × Nat)) : ∀ t : Timer,
    actsFor .cmd j t steps = steps.map fun s =>
      if j == s.2 then (match s.1 with | .poll => (Act.tick, true) | .act a => (a, false)) else (Act.tick, false) := by
  induction steps with
  | nil => intro t; rfl
  | cons s rest ih =>
    intro t
    obtain ⟨c, i⟩ := s
    simp only [actsFor, List.map_cons, ih]
    congr 1
    cases h : (j == i) <;> cases c <;> simp [entry]

/-- … and such a step does nothing to the timer -/
theorem step_tick_noop (t : Timer) : (step t .tick false).1 = t := by
  unfold step
  split
  · rfl
  · simp [act]

end Lemmas.Timer
