/- Poisoned states (a wrong response was delivered where the task looks at it) stay poisoned and well-formed. -/
import CruxVerif.Lemmas.Timer.Base
namespace Lemmas.Timer
open M.Timer S.Timer

def Closed (t : Timer) (a : Act) (ran : Bool) : Prop :=
  inv (step t a ran).1 = true ∧ poisonedSt (step t a ran).1 = true

macro "bashp" : tactic => `(tactic|
  simp (config := {decide := true}) [Closed, step, act, runTask, Req.resolve, Req.drop, Req.open, Timer.live,
      Timer.terminal, inv, poisonedSt, good_eq, bne, ctl_beq, shell_beq, handle_beq, res_beq, *])

set_option maxHeartbeats 4000000 in
theorem closed_waiting (k : Kind) (id : Nat) (handle : HandleSt) (woken : Bool) (rs : Shell) (ra : Option Resp)
    (cl : Req) (a : Act) (ran : Bool)
    (hi : inv ⟨k, id, .waiting, handle, woken, ⟨rs, ra⟩, cl⟩ = true)
    (hp : poisonedSt ⟨k, id, .waiting, handle, woken, ⟨rs, ra⟩, cl⟩ = true) :
    Closed ⟨k, id, .waiting, handle, woken, ⟨rs, ra⟩, cl⟩ a ran := by
  have hc : cl = {} := by
    simp only [inv, Bool.and_eq_true, beq_iff_eq] at hi
    exact hi.2.1.2
  subst hc
  cases ra with
  | none => simp [poisonedSt] at hp
  | some w =>
    have hw : w ≠ goodResp k id := by simpa [poisonedSt, good_eq] using hp
    clear hp
    cases a <;> cases ran <;> cases handle <;> cases woken <;> cases rs <;> first | absurd_inv hi | bashp

set_option maxHeartbeats 4000000 in
theorem closed_clearPending (k : Kind) (id : Nat) (handle : HandleSt) (woken : Bool) (rs : Shell) (ra : Option Resp)
    (cs : Shell) (ca : Option Resp) (a : Act) (ran : Bool)
    (hi : inv ⟨k, id, .clearPending, handle, woken, ⟨rs, ra⟩, ⟨cs, ca⟩⟩ = true)
    (hp : poisonedSt ⟨k, id, .clearPending, handle, woken, ⟨rs, ra⟩, ⟨cs, ca⟩⟩ = true) :
    Closed ⟨k, id, .clearPending, handle, woken, ⟨rs, ra⟩, ⟨cs, ca⟩⟩ a ran := by
  have hh : handle = .cleared := by
    simp only [inv, Bool.and_eq_true, beq_iff_eq] at hi
    exact hi.2.1.1.1
  subst hh
  cases ca with
  | none => simp [poisonedSt] at hp
  | some w =>
    have hw : w ≠ Resp.cleared id := by simpa [poisonedSt] using hp
    clear hp
    cases ra <;> cases a <;> cases ran <;> cases woken <;> cases rs <;> cases cs <;> first | absurd_inv hi | bashp

theorem closed_panicked (k : Kind) (id : Nat) (handle : HandleSt) (woken : Bool) (rq cl : Req) (a : Act) (ran : Bool)
    (hi : inv ⟨k, id, .panicked, handle, woken, rq, cl⟩ = true) :
    Closed ⟨k, id, .panicked, handle, woken, rq, cl⟩ a ran := by
  refine ⟨?_, ?_⟩
  · simpa [step] using hi
  · simp [step, poisonedSt]

end Lemmas.Timer
