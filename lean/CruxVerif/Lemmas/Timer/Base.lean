/-
Helper definitions for the proofs of C18 (command API): the well-formedness invariant of reachable timer
states, the states in which a wrong response has been (or is about to be) seen, the abstraction from a model
state to the history summary `S.Timer.Mon` of the specification, and the statement `Central` that is proved
control state by control state in `Lemmas/Timer/S*.lean`.
-/
import CruxVerif.Spec.Timer
namespace Lemmas.Timer
open M.Timer S.Timer

/-- well-formedness of a timer state: holds initially and is preserved by every step -/
def inv (t : Timer) : Bool :=
  (t.req.answer.isNone || t.req.shell != .absent) &&
  (t.clr.answer.isNone || t.clr.shell != .absent) &&
  (match t.ctl with
  | .notStarted => t.woken && t.req == {} && t.clr == {}
  | .waiting => t.req.shell != .absent && t.clr == {} &&
      -- a task that is not in the ready queue has nothing to do (and somebody still holds its waker)
      (t.woken || (t.req.answer.isNone && t.handle != .cleared && (t.req.shell != .gone || t.handle == .alive)))
  | .clearPending => t.handle == .cleared && t.req.shell != .absent && t.clr.shell != .absent &&
      (t.woken || (t.clr.answer.isNone && t.clr.shell == .held))
  | .completed => t.req.answer == some t.good && t.req.shell != .absent && t.clr == {}
  | .cleared => t.handle == .cleared &&
      ((t.req == {} && t.clr == {}) ||
       (t.req.shell != .absent && t.clr.shell != .absent && t.clr.answer == some (.cleared t.id)))
  | .evicted => (t.handle == .dropped && t.req.shell == .gone && t.req.answer.isNone && t.clr == {}) ||
      (t.handle == .cleared && t.req.shell != .absent && t.clr.shell == .gone && t.clr.answer.isNone)
  | .panicked => true)

/-- a wrong response sits where the task will look at it, or the task already did -/
def poisonedSt (t : Timer) : Bool :=
  match t.ctl with
  | .panicked => true
  | .waiting => match t.req.answer with | some v => v != t.good | none => false
  | .clearPending => match t.clr.answer with | some v => v != .cleared t.id | none => false
  | _ => false

/-- the history summary of the specification, read off a (non-poisoned) model state -/
def abs (t : Timer) : Mon :=
  { requested := t.req.shell != .absent
    appCleared := t.handle == .cleared
    clearedEarly := t.handle == .cleared && t.req.shell == .absent
    answered := t.req.answer == some t.good
    answeredAny := t.req.answer.isSome
    clearSent := t.clr.shell != .absent
    outcome := t.ctl == .completed || t.ctl == .cleared
    answerWaiting := t.ctl == .waiting && t.req.answer == some t.good
    clearAnswerWaiting := t.ctl == .clearPending && t.clr.answer == some (.cleared t.id)
    poisoned := false }

def entryOfOut (a : Act) (ran : Bool) (o : Out) : Entry :=
  { act := a, ran := ran, res := o.res, effects := o.effects, events := o.events }

def allClauses (k : Kind) (id : Nat) (m md : Mon) (e : Entry) : Bool :=
  (clauses k id).all fun c => c.2 m md e

theorem ctl_beq (a b : Ctl) : (a == b) = decide (a = b) := by cases a <;> cases b <;> rfl
theorem shell_beq (a b : Shell) : (a == b) = decide (a = b) := by cases a <;> cases b <;> rfl
theorem handle_beq (a b : HandleSt) : (a == b) = decide (a = b) := by cases a <;> cases b <;> rfl
theorem res_beq (a b : Res) : (a == b) = decide (a = b) := by cases a <;> cases b <;> rfl

theorem good_eq (t : Timer) : t.good = goodResp t.kind t.id := by
  cases h : t.kind <;> simp [Timer.good, goodResp, h]

/-- One step from a well-formed, non-poisoned state: the state stays well-formed; the specification's history
    becomes poisoned exactly when the model state does; otherwise every clause holds for the step's entry and the
    history summary of the new state is the monitor's next history. -/
def Central (t : Timer) (a : Act) (ran : Bool) : Prop :=
  let r := step t a ran
  let e := entryOfOut a ran r.2
  let md := (abs t).mid t.kind t.id a r.2.res
  inv r.1 = true ∧ md.poisoned = poisonedSt r.1 ∧
  (md.poisoned = false → allClauses t.kind t.id (abs t) md e = true ∧ md.after t.kind t.id e = abs r.1)

macro "bash" : tactic => `(tactic|
  simp (config := {decide := true}) [Central, step, act, runTask, Req.resolve, Req.drop, Req.open, Timer.live,
      Timer.terminal, inv, poisonedSt, abs, Mon.mid, Mon.after, entryOfOut, allClauses, clauses, good_eq, bne, ctl_beq, shell_beq, handle_beq, res_beq,
      noPanic, ownIds, quietUnlessRan, oneOutcome, completedOnlyIfAnswered, clearedOnlyIfCleared, earlyClearSilent,
      clearOnlyIfAppCleared, oneClear, requestSentWhenDue, clearSentWhenDue, answerWins, clearedReported, lateIgnored])

macro "bashv" h:ident : tactic => `(tactic|
  simp (config := {decide := true}) [Central, step, act, runTask, Req.resolve, Req.drop, Req.open, Timer.live,
      Timer.terminal, inv, poisonedSt, abs, Mon.mid, Mon.after, entryOfOut, allClauses, clauses, good_eq, bne, ctl_beq, shell_beq, handle_beq, res_beq, $h:ident,
      noPanic, ownIds, quietUnlessRan, oneOutcome, completedOnlyIfAnswered, clearedOnlyIfCleared, earlyClearSilent,
      clearOnlyIfAppCleared, oneClear, requestSentWhenDue, clearSentWhenDue, answerWins, clearedReported, lateIgnored])

macro "absurd_inv" h:ident : tactic =>
  `(tactic| (exfalso; revert $h:ident; simp (config := {decide := true}) [inv]; done))

/-- case analysis on everything but the response values, for a state whose request fields are already concrete -/
macro "split_rest" hi:ident : tactic => `(tactic|
  (cases ‹Bool› <;> first | absurd_inv $hi | bash))

end Lemmas.Timer
