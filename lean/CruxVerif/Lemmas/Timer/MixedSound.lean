/-
Both APIs in one app (host `mixed`): what the specification attributes to one position of a joint run is a run
of that timer alone (a command-API timer: of the fresh timer with the id it will get, not run before its start
action; a legacy timer: its own steps, with the shared set in sync), hence the monitors accept every joint run.
-/
import CruxVerif.Lemmas.Timer.Mixed
import CruxVerif.Lemmas.Timer.World
namespace Lemmas.Timer
open M.Timer S.Timer

/-- what the steps of a mixed case mean to the command-API timer at position `j` (cf. `S.Timer.mprojectCmd`) -/
def mactsFor (k : Kind) (id : Nat) (j : Nat) : Bool → List (MAct × Nat) → List (Act × Bool)
  | _, [] => []
  | created, (a, i) :: rest =>
    if created then ((if i == j then toAct { kind := k, id := id } a else .tick), true) :: mactsFor k id j true rest
    else if i == j && (a == .start || a == .startClear) then
      ((if a == .startClear then .clear else .tick), true) :: mactsFor k id j true rest
    else (.tick, false) :: mactsFor k id j false rest

theorem toAct_congr (t u : Timer) (hk : t.kind = u.kind) (hid : t.id = u.id) (a : MAct) : toAct t a = toAct u a := by
  cases a <;> simp [toAct, hk, hid]

theorem cmdStepAll_out (cmds : List (Option CSlot)) (i : Nat) (a : Act) (idle : Res) (j : Nat) :
    ((cmdStepAll cmds i a idle).map (·.2)).getD j {} =
      match cmds[j]? with
      | some (some slot) =>
        (match slot.timer with
         | some t => (step t (if j == i then a else .tick) true).2
         | none => if j == i then { res := idle } else {})
      | _ => {} := by
  simp only [cmdStepAll, List.getD_eq_getElem?_getD, List.getElem?_map, List.getElem?_mapIdx]
  cases cmds[j]? with
  | none => rfl
  | some s =>
    cases s with
    | none => rfl
    | some slot => cases h : slot.timer <;> simp [h]

/-- a step, seen from an existing command at position `j` -/
theorem mstep_created (w : MWorld) (a : MAct) (i j : Nat) (slot : CSlot) (t : Timer)
    (hs : w.cmds[j]? = some (some slot)) (ht : slot.timer = some t) :
    (mstep w a i).1.cmds[j]? =
        some (some { slot with timer := some (step t (if i == j then toAct t a else .tick) true).1 }) ∧
    (mstep w a i).2.getD j {} = (step t (if i == j then toAct t a else .tick) true).2 := by
  have hji : (j == i) = (i == j) := BEq.comm
  unfold mstep
  split
  · rename_i sloti hsi
    split
    · rename_i hti
      have hne : i ≠ j := by intro e; subst e; rw [hs] at hsi; cases hsi; rw [ht] at hti; cases hti
      have hne' : (i == j) = false := by simpa using hne
      have hil := lt_of_getElem?_some _ _ _ hsi
      split
      · dsimp only
        rw [cmdStepAll_get, cmdStepAll_out, List.getElem?_set_ne hne, hs]
        simp [ht, hji, hne']
      · dsimp only
        rw [cmdStepAll_get, cmdStepAll_out, hs]
        simp [ht, hji, hne']
    · rename_i ti hti
      dsimp only
      rw [cmdStepAll_get, cmdStepAll_out, hs]
      by_cases e : i = j
      · subst e
        rw [hs] at hsi; cases hsi; rw [ht] at hti; cases hti
        simp [ht]
      · have hne' : (i == j) = false := by simpa using e
        simp [ht, hji, hne']
  · rename_i hsi
    have hne : i ≠ j := by intro e; subst e; rw [hs] at hsi; cases hsi
    have hne' : (i == j) = false := by simpa using hne
    dsimp only
    rw [cmdStepAll_get, List.getD_eq_getElem?_getD, List.getElem?_set_ne hne, ← List.getD_eq_getElem?_getD,
      cmdStepAll_out, hs]
    simp [ht, hji, hne']
  · rename_i hsi
    have hne : i ≠ j := by intro e; subst e; rw [hs] at hsi; cases hsi
    have hne' : (i == j) = false := by simpa using hne
    dsimp only
    rw [cmdStepAll_get, cmdStepAll_out, hs]
    simp [ht, hji, hne']

/-- the entries of an existing command in every continuation of a mixed run -/
theorem mproject_created (k : Kind) (id : Nat) (j : Nat) (steps : List (MAct × Nat)) :
    ∀ (w : MWorld) (slot : CSlot) (t : Timer), w.cmds[j]? = some (some slot) → slot.timer = some t →
      t.kind = k → t.id = id →
      mprojectCmd k id j true (steps.zip (mrun w steps)) = entries t (mactsFor k id j true steps) := by
  induction steps with
  | nil => intro w slot t _ _ _ _; simp [mrun, mprojectCmd, mactsFor, entries, trace]
  | cons s rest ih =>
    intro w slot t hs ht hk hid
    obtain ⟨a, i⟩ := s
    obtain ⟨h1, h2⟩ := mstep_created w a i j slot t hs ht
    have hta : toAct { kind := k, id := id } a = toAct t a := toAct_congr _ _ hk.symm hid.symm a
    simp only [mrun, List.zip_cons_cons, mprojectCmd, mactsFor, if_true, entries_cons]
    rw [h2, hta]
    congr 1
    exact ih _ _ _ h1 rfl (by rw [step_kind]; exact hk) (by rw [step_id]; exact hid)

/-- the first step of a command created by a start action -/
def newTimer (k : Kind) (counter : Nat) (a : MAct) : Timer × Out :=
  step { kind := k, id := (allocId counter).1 } (if a = .startClear then .clear else .tick) true

/-- a step, seen from a command position whose timer does not exist yet -/
theorem mstep_uncreated (w : MWorld) (a : MAct) (i j : Nat) (slot : CSlot)
    (hs : w.cmds[j]? = some (some slot)) (ht : slot.timer = none) :
    (i = j ∧ (a = .start ∨ a = .startClear) →
      (mstep w a i).1.cmds[j]? = some (some { slot with timer := some (newTimer slot.kind w.lw.counter a).1 }) ∧
      (mstep w a i).2.getD j {} = (newTimer slot.kind w.lw.counter a).2) ∧
    (¬ (i = j ∧ (a = .start ∨ a = .startClear)) →
      (mstep w a i).1.cmds[j]? = some (some slot) ∧
      ((mstep w a i).2.getD j {}).effects = [] ∧ ((mstep w a i).2.getD j {}).events = []) := by
  have hslot : ({ slot with timer := none } : CSlot) = slot := by cases slot; simp_all
  have hji : (j == i) = (i == j) := BEq.comm
  unfold mstep
  constructor
  · rintro ⟨rfl, ha⟩
    have hil := lt_of_getElem?_some _ _ _ hs
    simp only [hs, ht, ha, if_true]
    rw [cmdStepAll_get, cmdStepAll_out, List.getElem?_set_self hil]
    simp [newTimer]
  · intro hn
    split
    · rename_i sloti hsi
      split
      · rename_i hti
        split
        · rename_i ha
          have hne : i ≠ j := fun e => hn ⟨e, ha⟩
          have hne' : (i == j) = false := by simpa using hne
          dsimp only
          rw [cmdStepAll_get, cmdStepAll_out, List.getElem?_set_ne hne, hs]
          simp [ht, hji, hne', hslot]
        · dsimp only
          rw [cmdStepAll_get, cmdStepAll_out, hs]
          simp only [ht, Option.map_none, Option.map_some, hslot, true_and]
          split <;> simp
      · dsimp only
        rw [cmdStepAll_get, cmdStepAll_out, hs]
        simp only [ht, Option.map_none, Option.map_some, hslot, true_and]
        split <;> simp
    · rename_i hsi
      have hne : i ≠ j := by intro e; subst e; rw [hs] at hsi; cases hsi
      dsimp only
      rw [cmdStepAll_get, List.getD_eq_getElem?_getD, List.getElem?_set_ne hne, ← List.getD_eq_getElem?_getD,
        cmdStepAll_out, hs]
      simp only [ht, Option.map_none, Option.map_some, hslot, true_and]
      split <;> simp
    · dsimp only
      rw [cmdStepAll_get, cmdStepAll_out, hs]
      simp only [ht, Option.map_none, Option.map_some, hslot, true_and]
      split <;> simp

/-- the id of an existing command never changes -/
theorem mfinal_cid (j x : Nat) (steps : List (MAct × Nat)) : ∀ w : MWorld, cid w.cmds j = some x →
    cid (mfinal w steps).cmds j = some x := by
  induction steps with
  | nil => intro w h; exact h
  | cons s rest ih =>
    intro w h
    obtain ⟨a, i⟩ := s
    simp only [mfinal]
    apply ih
    unfold cid at h
    split at h
    · rename_i slot hs
      cases ht : slot.timer with
      | none => rw [ht] at h; cases h
      | some t =>
        rw [ht] at h
        have := (mstep_created w a i j slot t hs ht).1
        unfold cid
        rw [this]
        simp only [Option.map_some, step_id]
        exact h
    · cases h

/-- the entries of a command position from before its timer exists: a run of the fresh timer with the id it will get -/
theorem mproject_uncreated (k : Kind) (idf : Nat) (j : Nat) (steps : List (MAct × Nat)) :
    ∀ (w : MWorld) (slot : CSlot), w.cmds[j]? = some (some slot) → slot.timer = none → slot.kind = k →
      (∀ x, cid (mfinal w steps).cmds j = some x → x = idf) →
      mprojectCmd k idf j false (steps.zip (mrun w steps)) =
        entries { kind := k, id := idf } (mactsFor k idf j false steps) := by
  induction steps with
  | nil => intro w slot _ _ _ _; simp [mrun, mprojectCmd, mactsFor, entries, trace]
  | cons s rest ih =>
    intro w slot hs ht hk hfin
    obtain ⟨a, i⟩ := s
    have hu := mstep_uncreated w a i j slot hs ht
    have hfin : ∀ x, cid (mfinal (mstep w a i).1 rest).cmds j = some x → x = idf := hfin
    by_cases hst : i = j ∧ (a = .start ∨ a = .startClear)
    · obtain ⟨h1, h2⟩ := hu.1 hst
      have hcond : (i == j && (a == MAct.start || a == MAct.startClear)) = true := by
        obtain ⟨e, ha⟩ := hst
        subst e
        rcases ha with rfl | rfl <;> simp
      have hact : (if (a == MAct.startClear) = true then Act.clear else Act.tick) =
          (if a = MAct.startClear then Act.clear else Act.tick) := by
        by_cases e : a = .startClear <;> simp [e]
      have hid : (allocId w.lw.counter).1 = idf := by
        apply hfin
        apply mfinal_cid
        unfold cid
        rw [h1]
        simp [newTimer, step_id]
      simp only [mrun, List.zip_cons_cons, mprojectCmd, mactsFor, hcond, if_true, Bool.false_eq_true, if_false,
        entries_cons, hact]
      rw [h2]
      simp only [newTimer, hk, hid] at h1 ⊢
      rw [entryOfOut]
      congr 1
      exact mproject_created k idf j rest _ _ _ h1 rfl (by rw [step_kind]) (by rw [step_id])
    · obtain ⟨h1, h2, h3⟩ := hu.2 hst
      have hcond : (i == j && (a == MAct.start || a == MAct.startClear)) = false := by
        cases hb : (i == j && (a == MAct.start || a == MAct.startClear)) with
        | false => rfl
        | true =>
          exfalso; apply hst
          simp only [Bool.and_eq_true, Bool.or_eq_true, beq_iff_eq] at hb
          exact hb
      simp only [mrun, List.zip_cons_cons, mprojectCmd, mactsFor, hcond, Bool.false_eq_true, if_false, entries_cons]
      have hstep : step ({ kind := k, id := idf } : Timer) .tick false =
          ({ kind := k, id := idf }, { res := .unit, done := false }) := by
        simp (config := {decide := true}) [step, act, Timer.terminal, ctl_beq]
      rw [hstep, h2, h3]
      congr 1
      exact ih _ slot h1 ht hk hfin

/-- a step, seen from a legacy position -/
theorem mstep_leg (w : MWorld) (a : MAct) (i j : Nat) (t : LTimer)
    (hs : w.cmds[j]? = some none) (ht : w.lw.timers[j]? = some t) (_hlen : w.cmds.length = w.lw.timers.length) :
    (mstep w a i).1.cmds[j]? = some none ∧
    (i ≠ j → (mstep w a i).1.lw.timers[j]? = some t ∧ (mstep w a i).2.getD j {} = {}) ∧
    (i = j → (mstep w a i).1.lw = (lstep w.lw (toLAct a) j).1 ∧
      (mstep w a i).2.getD j {} = (lstep w.lw (toLAct a) j).2) := by
  have hjl : j < w.cmds.length := lt_of_getElem?_some _ _ _ hs
  unfold mstep
  split
  · rename_i sloti hsi
    have hne : i ≠ j := by intro e; subst e; rw [hs] at hsi; cases hsi
    split
    · split
      · dsimp only
        rw [cmdStepAll_get, cmdStepAll_out, List.getElem?_set_ne hne, hs]
        exact ⟨rfl, fun _ => ⟨ht, rfl⟩, fun e => absurd e hne⟩
      · dsimp only
        rw [cmdStepAll_get, cmdStepAll_out, hs]
        exact ⟨rfl, fun _ => ⟨ht, rfl⟩, fun e => absurd e hne⟩
    · dsimp only
      rw [cmdStepAll_get, cmdStepAll_out, hs]
      exact ⟨rfl, fun _ => ⟨ht, rfl⟩, fun e => absurd e hne⟩
  · rename_i hsi
    dsimp only
    rw [cmdStepAll_get, hs]
    refine ⟨rfl, ?_, ?_⟩
    · intro hne
      refine ⟨(lstep_get w.lw (toLAct a) i j t ht).1 hne, ?_⟩
      rw [List.getD_eq_getElem?_getD, List.getElem?_set_ne hne, ← List.getD_eq_getElem?_getD, cmdStepAll_out, hs]
    · intro e
      subst e
      refine ⟨rfl, ?_⟩
      rw [List.getD_eq_getElem?_getD, List.getElem?_set_self (by simp [cmdStepAll]; exact hjl)]
      rfl
  · rename_i hsi
    have hne : i ≠ j := by intro e; subst e; rw [hs] at hsi; cases hsi
    dsimp only
    rw [cmdStepAll_get, cmdStepAll_out, hs]
    exact ⟨rfl, fun _ => ⟨ht, rfl⟩, fun e => absurd e hne⟩

theorem mstep_len (w : MWorld) (a : MAct) (i : Nat) (_hlen : w.cmds.length = w.lw.timers.length) :
    (mstep w a i).1.cmds.length = w.cmds.length ∧ (mstep w a i).1.lw.timers.length = w.lw.timers.length ∧
    (mstep w a i).2.length = w.cmds.length := by
  unfold mstep
  repeat' split
  all_goals simp [cmdStepAll, lstep_length]

/-- a legacy timer's id, once it has one, is its final id -/
theorem mfinal_lid (j : Nat) (steps : List (MAct × Nat)) : ∀ (w : MWorld) (t : LTimer) (id : Nat),
    w.cmds.length = w.lw.timers.length → w.cmds[j]? = some none → w.lw.timers[j]? = some t → t.id = some id →
    ∀ tf, (mfinal w steps).lw.timers[j]? = some tf → tf.id = some id := by
  induction steps with
  | nil => intro w t id _ _ ht hid tf htf; simp only [mfinal] at htf; rw [ht] at htf; cases htf; exact hid
  | cons s rest ih =>
    intro w t id hlen hs ht hid tf htf
    obtain ⟨a, i⟩ := s
    have htf : (mfinal (mstep w a i).1 rest).lw.timers[j]? = some tf := htf
    obtain ⟨h1, h2, h3⟩ := mstep_leg w a i j t hs ht hlen
    have hl := mstep_len w a i hlen
    have hlen' : (mstep w a i).1.cmds.length = (mstep w a i).1.lw.timers.length := by rw [hl.1, hl.2.1]; exact hlen
    by_cases hij : i = j
    · obtain ⟨e1, _⟩ := h3 hij
      have hg := (lstep_get w.lw (toLAct a) j j t ht).2 rfl
      refine ih _ _ id hlen' h1 (by rw [e1]; exact hg.1) (lstep1_id_some t id hid _ _ _) tf htf
    · exact ih _ t id hlen' h1 (h2 hij).1 hid tf htf

/-- the lenient legacy monitor accepts what the legacy timer at position `j` shows in every mixed run, and it shows
    nothing in steps not addressed to it -/
theorem lverdict1_mrun (j : Nat) (steps : List (MAct × Nat)) : ∀ (w : MWorld) (m : LMon) (t : LTimer),
    MInv w → w.lw.counter + steps.length < 18446744073709551616 → w.cmds[j]? = some none →
    w.lw.timers[j]? = some t → LR m t → ∀ tf, (mfinal w steps).lw.timers[j]? = some tf →
    lverdict1 false t.kind tf.id m (mprojectLeg j (steps.zip (mrun w steps))) = none ∧
    mquietLeg j (steps.zip (mrun w steps)) = true := by
  induction steps with
  | nil => intro w m t _ _ _ _ _ tf _; exact ⟨rfl, rfl⟩
  | cons s rest ih =>
    intro w m t hw hb hs ht hR tf htf
    obtain ⟨a, i⟩ := s
    have htf : (mfinal (mstep w a i).1 rest).lw.timers[j]? = some tf := htf
    simp only [List.length_cons] at hb
    have hstep := minv_step w a i hw (by omega)
    obtain ⟨h1, h2, h3⟩ := mstep_leg w a i j t hs ht hw.len
    simp only [mrun, List.zip_cons_cons, mprojectLeg, mquietLeg, List.filter_cons, List.all_cons]
    by_cases hij : i = j
    · subst hij
      simp only [beq_self_eq_true, if_true, List.map_cons, Bool.true_or, Bool.true_and]
      obtain ⟨e1, e2⟩ := h3 rfl
      obtain ⟨hg1, hg2⟩ := (lstep_get w.lw (toLAct a) i i t ht).2 rfl
      have hnew : (allocId w.lw.counter).1 = w.lw.counter := by simp only [allocId]; omega
      rw [hnew] at hg1 hg2
      have hflag := winv_flag w.lw hw.lwinv i t ht w.lw.counter (Nat.le_refl _)
      have ht' : (mstep w a i).1.lw.timers[i]? =
          some (lstep1 t (w.lw.cleared.contains (t.id.getD w.lw.counter)) w.lw.counter (toLAct a)).1 := by
        rw [e1]; exact hg1
      have hl := mstep_len w a i hw.len
      have hlen' : (mstep w a i).1.cmds.length = (mstep w a i).1.lw.timers.length := hstep.1.len
      have hid : (lstep1 t (w.lw.cleared.contains (t.id.getD w.lw.counter)) w.lw.counter (toLAct a)).1.id = none ∨
          (lstep1 t (w.lw.cleared.contains (t.id.getD w.lw.counter)) w.lw.counter (toLAct a)).1.id = tf.id := by
        cases h : (lstep1 t (w.lw.cleared.contains (t.id.getD w.lw.counter)) w.lw.counter (toLAct a)).1.id with
        | none => exact Or.inl rfl
        | some id => right; exact (mfinal_lid i rest _ _ id hlen' h1 ht' h tf htf).symm
      have hc := lcentral t _ w.lw.counter (toLAct a) m tf.id (hw.lwinv.wf i t ht) hR hflag hid
      simp only [LCentral] at hc
      obtain ⟨c1, c2, _, c4, _⟩ := hc
      simp only [lverdict1]
      rw [e2, hg2]
      simp only [lentry] at c1 c2
      rw [c1]
      simp only []
      have := ih (mstep w a i).1 _ _ hstep.1 (by omega) h1 ht' c2 tf htf
      rw [c4] at this
      exact this
    · have hne : (i == j) = false := by simpa using hij
      obtain ⟨g1, g2⟩ := h2 hij
      simp only [hne, Bool.false_or, g2]
      have := ih (mstep w a i).1 m t hstep.1 (by omega) h1 g1 hR tf htf
      simpa [mprojectLeg, mquietLeg] using this

theorem mfinal_cmd (j : Nat) (steps : List (MAct × Nat)) : ∀ (w : MWorld) (slot : CSlot),
    w.cmds[j]? = some (some slot) → ∃ slot', (mfinal w steps).cmds[j]? = some (some slot') := by
  induction steps with
  | nil => intro w slot h; exact ⟨slot, h⟩
  | cons s rest ih =>
    intro w slot h
    obtain ⟨a, i⟩ := s
    simp only [mfinal]
    cases ht : slot.timer with
    | some t => exact ih _ _ (mstep_created w a i j slot t h ht).1
    | none =>
      by_cases hst : i = j ∧ (a = .start ∨ a = .startClear)
      · exact ih _ _ ((mstep_uncreated w a i j slot h ht).1 hst).1
      · exact ih _ _ ((mstep_uncreated w a i j slot h ht).2 hst).1

theorem mfinal_leg (j : Nat) (steps : List (MAct × Nat)) : ∀ (w : MWorld) (t : LTimer),
    w.cmds.length = w.lw.timers.length → w.cmds[j]? = some none → w.lw.timers[j]? = some t →
    (mfinal w steps).cmds[j]? = some none ∧ ∃ tf, (mfinal w steps).lw.timers[j]? = some tf := by
  induction steps with
  | nil => intro w t _ h ht; exact ⟨h, t, ht⟩
  | cons s rest ih =>
    intro w t hlen h ht
    obtain ⟨a, i⟩ := s
    simp only [mfinal]
    obtain ⟨h1, h2, h3⟩ := mstep_leg w a i j t h ht hlen
    have hl := mstep_len w a i hlen
    have hlen' : (mstep w a i).1.cmds.length = (mstep w a i).1.lw.timers.length := by rw [hl.1, hl.2.1]; exact hlen
    by_cases hij : i = j
    · obtain ⟨e1, _⟩ := h3 hij
      have hg := (lstep_get w.lw (toLAct a) j j t ht).2 rfl
      exact ih _ _ hlen' h1 (by rw [e1]; exact hg.1)
    · exact ih _ t hlen' h1 (h2 hij).1

theorem mrun_length (steps : List (MAct × Nat)) : ∀ w, (mrun w steps).length = steps.length := by
  induction steps with
  | nil => intro w; rfl
  | cons s rest ih => intro w; obtain ⟨a, i⟩ := s; simp [mrun, ih]

theorem mrun_all_length (steps : List (MAct × Nat)) : ∀ w : MWorld, w.cmds.length = w.lw.timers.length →
    ∀ outs ∈ mrun w steps, outs.length = w.cmds.length := by
  induction steps with
  | nil => intro w _ outs h; simp [mrun] at h
  | cons s rest ih =>
    intro w hlen outs h
    obtain ⟨a, i⟩ := s
    have hl := mstep_len w a i hlen
    simp only [mrun, List.mem_cons] at h
    rcases h with h | h
    · rw [h]; exact hl.2.2
    · have := ih _ (by rw [hl.1, hl.2.1]; exact hlen) outs h
      rw [this, hl.1]

/-- the (lenient) oracle accepts every mixed run -/
theorem mverdict_mrun (counter : Nat) (kinds : List (Bool × Kind)) (steps : List (MAct × Nat))
    (hb : counter + steps.length < 18446744073709551616) :
    mverdict false kinds ((List.range kinds.length).map (mfinal (mkMWorld counter kinds) steps).idAt) steps true
      (mrun (mkMWorld counter kinds) steps) = none := by
  have hinit := minv_init counter kinds
  have hclen : (mkMWorld counter kinds).cmds.length = kinds.length := by simp [mkMWorld]
  unfold mverdict
  have hl := mrun_length steps (mkMWorld counter kinds)
  have hall : (mrun (mkMWorld counter kinds) steps).all (fun x => x.length == kinds.length) = true := by
    rw [List.all_eq_true]
    intro outs h
    simp [mrun_all_length steps _ hinit.len outs h, hclen]
  simp only [Bool.not_true, Bool.false_eq_true, if_false, hl, bne_self_eq_false, hall, Bool.or_self]
  rw [List.findSome?_eq_none_iff]
  intro j hj
  have hjn : j < kinds.length := List.mem_range.mp hj
  have hids : ((List.range kinds.length).map (mfinal (mkMWorld counter kinds) steps).idAt).getD j none =
      (mfinal (mkMWorld counter kinds) steps).idAt j := by
    simp [List.getD_eq_getElem?_getD, List.getElem?_map, List.getElem?_range hjn]
  rw [List.getElem?_eq_getElem hjn, hids]
  rcases hk : kinds[j] with ⟨leg, k⟩
  cases leg with
  | true =>
    have hs : (mkMWorld counter kinds).cmds[j]? = some none := by
      simp [mkMWorld, List.getElem?_map, List.getElem?_eq_getElem hjn, hk]
    have ht : (mkMWorld counter kinds).lw.timers[j]? = some { kind := k } := by
      simp [mkMWorld, mkLWorld, List.getElem?_map, List.getElem?_eq_getElem hjn, hk]
    obtain ⟨hfs, tf, htf⟩ := mfinal_leg j steps _ _ hinit.len hs ht
    have hid : (mfinal (mkMWorld counter kinds) steps).idAt j = tf.id := by
      simp [MWorld.idAt, hfs, htf]
    have := lverdict1_mrun j steps _ {} _ hinit hb hs ht (LR_fresh k) tf htf
    simp only [hid, this.2, Bool.not_true, Bool.false_eq_true, if_false]
    exact this.1
  | false =>
    have hs : (mkMWorld counter kinds).cmds[j]? = some (some { kind := k }) := by
      simp [mkMWorld, List.getElem?_map, List.getElem?_eq_getElem hjn, hk]
    obtain ⟨slot', hs'⟩ := mfinal_cmd j steps _ _ hs
    have hid : (mfinal (mkMWorld counter kinds) steps).idAt j = cid (mfinal (mkMWorld counter kinds) steps).cmds j := by
      simp [MWorld.idAt, cid, hs']
    simp only [hid]
    rw [mproject_uncreated k _ j steps _ _ hs rfl rfl (by intro x hx; rw [hx]; rfl)]
    exact verdict1_entries _ {} _ (inv_init k _) (R_init k _)

end Lemmas.Timer
