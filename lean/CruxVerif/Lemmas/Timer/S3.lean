/- `Central` in the control states `completed`, `cleared`, `evicted`. -/
import CruxVerif.Lemmas.Timer.Base
namespace Lemmas.Timer
open M.Timer S.Timer

theorem ra_cases (k : Kind) (id : Nat) (ra : Option Resp) :
    ra = none ∨ ra = some (goodResp k id) ∨ ∃ w, ra = some w ∧ w ≠ goodResp k id := by
  cases ra with
  | none => exact Or.inl rfl
  | some w => by_cases h : w = goodResp k id
              · exact Or.inr (Or.inl (by rw [h]))
              · exact Or.inr (Or.inr ⟨w, rfl, h⟩)

set_option maxHeartbeats 4000000 in
theorem central_completed (k : Kind) (id : Nat) (handle : HandleSt) (woken : Bool) (rs : Shell) (ra : Option Resp)
    (cl : Req) (a : Act) (ran : Bool)
    (hi : inv ⟨k, id, .completed, handle, woken, ⟨rs, ra⟩, cl⟩ = true) :
    Central ⟨k, id, .completed, handle, woken, ⟨rs, ra⟩, cl⟩ a ran := by
  have h : ra = some (goodResp k id) ∧ cl = {} := by
    simp only [inv, Bool.and_eq_true, beq_iff_eq, good_eq] at hi
    exact ⟨hi.2.1.1, hi.2.2⟩
  obtain ⟨rfl, rfl⟩ := h
  cases a with
  | resolveReq v =>
    by_cases hv : v = goodResp k id
    · subst hv; cases ran <;> cases woken <;> cases rs <;> cases handle <;> first | absurd_inv hi | bash
    · cases ran <;> cases woken <;> cases rs <;> cases handle <;> first | absurd_inv hi | bashv hv
  | resolveClr v =>
    by_cases hv : v = Resp.cleared id
    · subst hv; cases ran <;> cases woken <;> cases rs <;> cases handle <;> first | absurd_inv hi | bash
    · cases ran <;> cases woken <;> cases rs <;> cases handle <;> first | absurd_inv hi | bashv hv
  | _ => cases ran <;> cases woken <;> cases rs <;> cases handle <;> first | absurd_inv hi | bash

/-- the two ways to be `cleared`: before the request was ever sent, or after the Clear request was answered -/
theorem inv_cleared (k : Kind) (id : Nat) (handle : HandleSt) (woken : Bool) (rq cl : Req)
    (hi : inv ⟨k, id, .cleared, handle, woken, rq, cl⟩ = true) :
    handle = .cleared ∧ ((rq = {} ∧ cl = {}) ∨ (cl.answer = some (.cleared id))) := by
  simp only [inv, Bool.and_eq_true, Bool.or_eq_true, beq_iff_eq] at hi
  refine ⟨hi.2.1, ?_⟩
  rcases hi.2.2 with h | h
  · exact Or.inl h
  · exact Or.inr h.2

set_option maxHeartbeats 8000000 in
theorem central_cleared (k : Kind) (id : Nat) (handle : HandleSt) (woken : Bool) (rs : Shell) (ra : Option Resp)
    (cs : Shell) (ca : Option Resp) (a : Act) (ran : Bool)
    (hi : inv ⟨k, id, .cleared, handle, woken, ⟨rs, ra⟩, ⟨cs, ca⟩⟩ = true) :
    Central ⟨k, id, .cleared, handle, woken, ⟨rs, ra⟩, ⟨cs, ca⟩⟩ a ran := by
  obtain ⟨rfl, h⟩ := inv_cleared _ _ _ _ _ _ hi
  have hca : (ca = none ∧ ra = none) ∨ ca = some (.cleared id) := by
    rcases h with ⟨h1, h2⟩ | h
    · left
      have := congrArg Req.answer h1; have := congrArg Req.answer h2; simp_all
    · right; simpa using h
  clear h
  rcases hca with ⟨rfl, rfl⟩ | rfl
  · cases a with
    | resolveReq v =>
      by_cases hv : v = goodResp k id
      · subst hv; cases ran <;> cases woken <;> cases rs <;> cases cs <;> first | absurd_inv hi | bash
      · cases ran <;> cases woken <;> cases rs <;> cases cs <;> first | absurd_inv hi | bashv hv
    | resolveClr v =>
      by_cases hv : v = Resp.cleared id
      · subst hv; cases ran <;> cases woken <;> cases rs <;> cases cs <;> first | absurd_inv hi | bash
      · cases ran <;> cases woken <;> cases rs <;> cases cs <;> first | absurd_inv hi | bashv hv
    | _ => cases ran <;> cases woken <;> cases rs <;> cases cs <;> first | absurd_inv hi | bash
  · rcases ra_cases k id ra with rfl | rfl | ⟨w, rfl, hw⟩
    all_goals
      cases a with
      | resolveReq v =>
        by_cases hv : v = goodResp k id
        · subst hv; cases ran <;> cases woken <;> cases rs <;> cases cs <;> first | absurd_inv hi | bash | bashv hw
        · cases ran <;> cases woken <;> cases rs <;> cases cs <;> first | absurd_inv hi | bashv hv | (simp only [hw]; bashv hv)
      | resolveClr v =>
        by_cases hv : v = Resp.cleared id
        · subst hv; cases ran <;> cases woken <;> cases rs <;> cases cs <;> first | absurd_inv hi | bash | bashv hw
        · cases ran <;> cases woken <;> cases rs <;> cases cs <;> first | absurd_inv hi | bashv hv | (simp only [hw]; bashv hv)
      | _ => cases ran <;> cases woken <;> cases rs <;> cases cs <;> first | absurd_inv hi | bash | bashv hw

/-- the two ways to be `evicted` -/
theorem inv_evicted (k : Kind) (id : Nat) (handle : HandleSt) (woken : Bool) (rq cl : Req)
    (hi : inv ⟨k, id, .evicted, handle, woken, rq, cl⟩ = true) :
    (handle = .dropped ∧ rq = ⟨.gone, none⟩ ∧ cl = {}) ∨ (handle = .cleared ∧ cl = ⟨.gone, none⟩) := by
  simp only [inv, Bool.and_eq_true, Bool.or_eq_true, beq_iff_eq, Option.isNone_iff_eq_none] at hi
  rcases hi.2 with h | h
  · left
    refine ⟨h.1.1.1, ?_, h.2⟩
    cases rq; simp_all
  · right
    refine ⟨h.1.1.1, ?_⟩
    cases cl; simp_all

set_option maxHeartbeats 8000000 in
theorem central_evicted (k : Kind) (id : Nat) (handle : HandleSt) (woken : Bool) (rs : Shell) (ra : Option Resp)
    (cl : Req) (a : Act) (ran : Bool)
    (hi : inv ⟨k, id, .evicted, handle, woken, ⟨rs, ra⟩, cl⟩ = true) :
    Central ⟨k, id, .evicted, handle, woken, ⟨rs, ra⟩, cl⟩ a ran := by
  rcases inv_evicted _ _ _ _ _ _ hi with ⟨rfl, h, rfl⟩ | ⟨rfl, rfl⟩
  · injection h with h1 h2
    subst h1 h2
    cases a with
    | resolveReq v =>
      by_cases hv : v = goodResp k id
      · subst hv; cases ran <;> cases woken <;> bash
      · cases ran <;> cases woken <;> bashv hv
    | resolveClr v =>
      by_cases hv : v = Resp.cleared id
      · subst hv; cases ran <;> cases woken <;> bash
      · cases ran <;> cases woken <;> bashv hv
    | _ => cases ran <;> cases woken <;> bash
  · rcases ra_cases k id ra with rfl | rfl | ⟨w, rfl, hw⟩
    all_goals
      cases a with
      | resolveReq v =>
        by_cases hv : v = goodResp k id
        · subst hv; cases ran <;> cases woken <;> cases rs <;> first | absurd_inv hi | bash | bashv hw
        · cases ran <;> cases woken <;> cases rs <;> first | absurd_inv hi | bashv hv | (simp only [hw]; bashv hv)
      | resolveClr v =>
        by_cases hv : v = Resp.cleared id
        · subst hv; cases ran <;> cases woken <;> cases rs <;> first | absurd_inv hi | bash | bashv hw
        · cases ran <;> cases woken <;> cases rs <;> first | absurd_inv hi | bashv hv | (simp only [hw]; bashv hv)
      | _ => cases ran <;> cases woken <;> cases rs <;> first | absurd_inv hi | bash | bashv hw

end Lemmas.Timer
