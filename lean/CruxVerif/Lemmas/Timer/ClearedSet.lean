/-
C13, the process-wide cleared-timer set of the legacy Time capability (crux_time/src/lib.rs, `LIVE_TIMERS`): in every
reachable joint state the set holds only ids of timers whose future is still alive (started, task not completed), each
once — so its size is bounded by the outstanding timers, whatever the length of the history.
-/
import CruxVerif.Lemmas.Timer.LegacyWorld
import CruxVerif.Lemmas.Timer.Mixed
namespace Lemmas.Timer
open M.Timer S.Timer

/-- every remembered id belongs to a timer that is still outstanding -/
def CB (w : LWorld) : Prop :=
  ∀ x ∈ w.cleared, ∃ (j : Nat) (t : LTimer), w.timers[j]? = some t ∧ t.id = some x ∧ t.finished = false

/-- an id is inserted only by a `clear` addressed to a started, unfinished timer, which stays so -/
theorem lstep1_insert (t : LTimer) (inSet : Bool) (newId : Nat) (a : LAct)
    (h : (lstep1 t inSet newId a).2.2.1 = .insert) :
    t.id ≠ none ∧ (lstep1 t inSet newId a).1.id = t.id ∧ (lstep1 t inSet newId a).1.finished = false := by
  rcases t with ⟨k, id, f, rq, c⟩
  cases a <;> cases id <;> cases f <;> simp only [lstep1] at h ⊢ <;> (repeat' split at h) <;> simp_all

/-- a timer whose task completes in this step has its id taken out of the set, or it was not in it -/
theorem lstep1_finishing (t : LTimer) (inSet : Bool) (newId : Nat) (a : LAct)
    (hf : t.finished = false) (hf' : (lstep1 t inSet newId a).1.finished = true) :
    (lstep1 t inSet newId a).2.2.1 = .erase ∨ inSet = false := by
  rcases t with ⟨k, id, f, rq, c⟩
  simp only at hf; subst hf
  cases a <;> cases id <;> cases inSet <;> simp only [lstep1] at hf' ⊢ <;> (repeat' split) <;> simp_all

theorem nodup_not_mem_erase (s : List Nat) (x : Nat) (hn : s.Nodup) : x ∉ s.erase x :=
  fun h => ((List.Nodup.mem_erase_iff hn).mp h).1 rfl

/-- one case step keeps the set within the outstanding timers -/
theorem cb_step (w : LWorld) (a : LAct) (i : Nat) (h : WInv w) (hc : CB w) : CB (lstep w a i).1 := by
  cases ht : w.timers[i]? with
  | none => rw [lstep_none w a i ht]; exact hc
  | some t =>
    rw [lstep_timers w a i t ht]
    simp only
    generalize hnew : (allocId w.counter).1 = newId
    generalize hr : lstep1 t (w.cleared.contains (t.id.getD newId)) newId a = r
    have hil : i < w.timers.length := by
      rcases Nat.lt_or_ge i w.timers.length with h' | h'
      · exact h'
      · rw [List.getElem?_eq_none h'] at ht; cases ht
    have hins := lstep1_insert t (w.cleared.contains (t.id.getD newId)) newId a
    have hfin := lstep1_finishing t (w.cleared.contains (t.id.getD newId)) newId a
    have hshape := lstep1_shape t (w.cleared.contains (t.id.getD newId)) newId a
    rw [hr] at hins hfin hshape
    -- the addressed timer is a witness after the step whenever it was one before and its id survives in the set
    have old : ∀ x, x ∈ w.cleared → x ∈ applyOp r.2.2.1 (t.id.getD newId) w.cleared →
        ∃ (j : Nat) (t' : LTimer), (w.timers.set i r.1)[j]? = some t' ∧ t'.id = some x ∧ t'.finished = false := by
      intro x hx hx'
      obtain ⟨j, tj, hj, hid, hfj⟩ := hc x hx
      by_cases hji : j = i
      · subst hji
        rw [ht] at hj; cases hj
        have hsame : r.1.id = some x := by
          rcases hshape with ⟨_, hn, _⟩ | ⟨_, hs, _⟩
          · rw [hid] at hn; cases hn
          · rw [hs, hid]
        cases hrf : r.1.finished with
        | false => exact ⟨j, r.1, by simp [hil], hsame, hrf⟩
        | true =>
          exfalso
          have hgd : t.id.getD newId = x := by rw [hid]; rfl
          rcases hfin hfj hrf with he | he
          · rw [he, hgd] at hx'
            exact nodup_not_mem_erase _ _ h.nodup hx'
          · rw [hgd] at he
            simp only [List.contains_eq_mem, decide_eq_false_iff_not] at he
            exact he hx
      · exact ⟨j, tj, by rw [List.getElem?_set_ne (fun e => hji e.symm)]; exact hj, hid, hfj⟩
    intro x hx
    change x ∈ applyOp r.2.2.1 (t.id.getD newId) w.cleared at hx
    by_cases hxo : x ∈ w.cleared
    · exact old x hxo hx
    · -- a new member: only an insert creates one
      have hop : r.2.2.1 = .insert := by
        cases hop : r.2.2.1 with
        | keep => rw [hop] at hx; exact absurd hx hxo
        | insert => rfl
        | erase => rw [hop] at hx; exact absurd (List.mem_of_mem_erase hx) hxo
      have hxid : x = t.id.getD newId := by
        rcases mem_applyOp _ _ _ _ hx with e | e
        · exact e
        · exact absurd e hxo
      obtain ⟨hne, hsame, hrf⟩ := hins hop
      cases hid : t.id with
      | none => exact absurd hid hne
      | some id =>
        rw [hid] at hxid hsame
        exact ⟨i, r.1, by simp [hil], by rw [hsame]; simp [hxid], hrf⟩

theorem cb_init (counter : Nat) (kinds : List Kind) : CB (mkLWorld counter kinds) := by
  intro x hx; cases hx

theorem cb_lfinal (steps : List (LAct × Nat)) : ∀ w : LWorld, WInv w → CB w →
    w.counter + steps.length < 18446744073709551616 → CB (lfinal w steps) := by
  induction steps with
  | nil => intro w _ hc _; exact hc
  | cons s rest ih =>
    intro w h hc hb
    obtain ⟨a, i⟩ := s
    simp only [List.length_cons] at hb
    have hs := winv_step w a i h (by omega)
    exact ih _ hs.1 (cb_step w a i h hc) (by omega)

/-! counting: a duplicate-free list inside another list is no longer than it -/

theorem nodup_subset_length : ∀ (l l' : List Nat), l.Nodup → (∀ x ∈ l, x ∈ l') → l.length ≤ l'.length := by
  intro l
  induction l with
  | nil => intro l' _ _; exact Nat.zero_le _
  | cons a l ih =>
    intro l' hn hs
    have ha : a ∈ l' := hs a (List.mem_cons_self ..)
    have hn' := List.nodup_cons.mp hn
    have := ih (l'.erase a) hn'.2 (fun x hx => (List.mem_erase_of_ne (fun (e : x = a) => hn'.1 (by subst e; exact hx))).mpr (hs x (List.mem_cons_of_mem _ hx)))
    rw [List.length_erase_of_mem ha] at this
    have hpos : 0 < l'.length := List.length_pos_of_mem ha
    simp only [List.length_cons]
    omega

/-- the ids of the outstanding timers (started, task not completed) -/
def outstandingIds (w : LWorld) : List Nat :=
  w.timers.filterMap fun t => if t.finished then none else t.id

theorem cb_subset (w : LWorld) (hc : CB w) : ∀ x ∈ w.cleared, x ∈ outstandingIds w := by
  intro x hx
  obtain ⟨j, t, hj, hid, hf⟩ := hc x hx
  simp only [outstandingIds, List.mem_filterMap]
  exact ⟨t, List.mem_of_getElem? hj, by simp [hf, hid]⟩

theorem outstandingIds_length (w : LWorld) :
    (outstandingIds w).length ≤ (w.timers.filter fun t => t.id.isSome && !t.finished).length := by
  unfold outstandingIds
  induction w.timers with
  | nil => simp
  | cons t ts ih =>
    rcases t with ⟨k, id, f, rq, c⟩
    cases id <;> cases f <;> simp <;> omega

/-! the same in an app that uses both APIs (one counter, one set; command-API timers never touch the set) -/

theorem cb_mstep (w : MWorld) (a : MAct) (i : Nat) (h : MInv w) (hc : CB w.lw) : CB (mstep w a i).1.lw := by
  unfold mstep
  split
  · split
    · split
      · exact hc
      · exact hc
    · exact hc
  · exact cb_step w.lw (toLAct a) i h.lwinv hc
  · exact hc

theorem cb_mfinal (steps : List (MAct × Nat)) : ∀ w : MWorld, MInv w → CB w.lw →
    w.lw.counter + steps.length < 18446744073709551616 → CB (mfinal w steps).lw := by
  induction steps with
  | nil => intro w _ hc _; exact hc
  | cons s rest ih =>
    intro w h hc hb
    obtain ⟨a, i⟩ := s
    simp only [List.length_cons] at hb
    have hs := minv_step w a i h (by omega)
    exact ih _ hs.1 (cb_mstep w a i h hc) (by omega)

end Lemmas.Timer
