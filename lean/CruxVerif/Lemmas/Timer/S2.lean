/- `Central` in the control state `clearPending`. -/
import CruxVerif.Lemmas.Timer.Base
namespace Lemmas.Timer
open M.Timer S.Timer

set_option maxHeartbeats 8000000 in
theorem central_clearPending (k : Kind) (id : Nat) (handle : HandleSt) (woken : Bool) (rs : Shell) (ra : Option Resp)
    (cs : Shell) (ca : Option Resp) (a : Act) (ran : Bool)
    (hi : inv ⟨k, id, .clearPending, handle, woken, ⟨rs, ra⟩, ⟨cs, ca⟩⟩ = true)
    (hp : poisonedSt ⟨k, id, .clearPending, handle, woken, ⟨rs, ra⟩, ⟨cs, ca⟩⟩ = false) :
    Central ⟨k, id, .clearPending, handle, woken, ⟨rs, ra⟩, ⟨cs, ca⟩⟩ a ran := by
  have hh : handle = .cleared := by
    simp only [inv, Bool.and_eq_true, beq_iff_eq] at hi
    exact hi.2.1.1.1
  subst hh
  have hca : ca = none ∨ ca = some (.cleared id) := by
    cases ca with
    | none => exact Or.inl rfl
    | some v => right; simpa [poisonedSt] using hp
  clear hp
  have hra : ra = none ∨ ra = some (goodResp k id) ∨ ∃ w, ra = some w ∧ w ≠ goodResp k id := by
    cases ra with
    | none => exact Or.inl rfl
    | some w => by_cases h : w = goodResp k id
                · exact Or.inr (Or.inl (by rw [h]))
                · exact Or.inr (Or.inr ⟨w, rfl, h⟩)
  rcases hca with rfl | rfl <;> rcases hra with rfl | rfl | ⟨w, rfl, hw⟩
  all_goals
    cases a with
    | resolveReq v =>
      by_cases hv : v = goodResp k id
      · subst hv; cases ran <;> cases woken <;> cases rs <;> cases cs <;> first | absurd_inv hi | bash | bashv hw
      · cases ran <;> cases woken <;> cases rs <;> cases cs <;> first | absurd_inv hi | bashv hv | (simp only [hw]; bashv hv)
    | resolveClr v =>
      by_cases hv : v = Resp.cleared id
      · subst hv; cases ran <;> cases woken <;> cases rs <;> cases cs <;> first | absurd_inv hi | bash | bashv hw
      · cases ran <;> cases woken <;> cases rs <;> cases cs <;> first | absurd_inv hi | bashv hv | (simp only [hw]; bashv hv)
    | _ => cases ran <;> cases woken <;> cases rs <;> cases cs <;> first | absurd_inv hi | bash | bashv hw

end Lemmas.Timer
