/-
Helper lemmas for C11: the order `bytesLe` on header names, commutation of stable insertion for different names,
independence of the emitted header list from the iteration order; timer-id numbering and renaming by rank.
-/
import CruxVerif.Lemmas.Http
import CruxVerif.Spec.Det
namespace Lemmas.Det
open M.Http M.Det
set_option linter.unusedSimpArgs false
set_option linter.unnecessarySimpa false

theorem bytesLe_total (a b : Bytes) : bytesLe a b = true ∨ bytesLe b a = true := by
  induction a generalizing b with
  | nil => left; cases b <;> rfl
  | cons x s ih =>
    cases b with
    | nil => right; rfl
    | cons y t =>
      simp only [bytesLe, Bool.or_eq_true, Bool.and_eq_true, decide_eq_true_eq, beq_iff_eq]
      rcases Nat.lt_trichotomy x y with h | h | h
      · left; left; exact h
      · subst h
        rcases ih t with h' | h'
        · left; right; exact ⟨rfl, h'⟩
        · right; right; exact ⟨rfl, h'⟩
      · right; left; exact h

theorem bytesLe_antisymm (a b : Bytes) (h1 : bytesLe a b = true) (h2 : bytesLe b a = true) : a = b := by
  induction a generalizing b with
  | nil => cases b with
    | nil => rfl
    | cons y t => simp [bytesLe] at h2
  | cons x s ih =>
    cases b with
    | nil => simp [bytesLe] at h1
    | cons y t =>
      simp only [bytesLe, Bool.or_eq_true, Bool.and_eq_true, decide_eq_true_eq, beq_iff_eq] at h1 h2
      rcases h1 with h1 | ⟨h1, h1'⟩
      · rcases h2 with h2 | ⟨h2, _⟩ <;> omega
      · subst h1
        rcases h2 with h2 | ⟨_, h2'⟩
        · omega
        · rw [ih t h1' h2']

theorem bytesLe_trans (a b c : Bytes) (h1 : bytesLe a b = true) (h2 : bytesLe b c = true) : bytesLe a c = true := by
  induction a generalizing b c with
  | nil => cases c <;> rfl
  | cons x s ih =>
    cases b with
    | nil => simp [bytesLe] at h1
    | cons y t =>
      cases c with
      | nil => simp [bytesLe] at h2
      | cons z u =>
        simp only [bytesLe, Bool.or_eq_true, Bool.and_eq_true, decide_eq_true_eq, beq_iff_eq] at h1 h2 ⊢
        rcases h1 with h1 | ⟨h1, h1'⟩ <;> rcases h2 with h2 | ⟨h2, h2'⟩
        · left; omega
        · left; omega
        · left; omega
        · right; exact ⟨by omega, ih t u h1' h2'⟩

/-- inserting two pairs with different names commutes -/
theorem insertByName_comm (p q : Bytes × Bytes) (hne : p.1 ≠ q.1) (l : List (Bytes × Bytes)) :
    insertByName p (insertByName q l) = insertByName q (insertByName p l) := by
  have hnot : ¬ (bytesLe p.1 q.1 = true ∧ bytesLe q.1 p.1 = true) := fun ⟨a, b⟩ => hne (bytesLe_antisymm _ _ a b)
  induction l with
  | nil =>
    simp only [insertByName]
    rcases bytesLe_total p.1 q.1 with h | h
    · have h' : ¬ bytesLe q.1 p.1 = true := fun h' => hnot ⟨h, h'⟩
      simp [h, h', insertByName]
    · have h' : ¬ bytesLe p.1 q.1 = true := fun h' => hnot ⟨h', h⟩
      simp [h, h', insertByName]
  | cons z t ih =>
    simp only [insertByName]
    by_cases hp : bytesLe p.1 z.1 = true <;> by_cases hq : bytesLe q.1 z.1 = true
    · simp only [hp, hq, if_true, insertByName]
      rcases bytesLe_total p.1 q.1 with h | h
      · have h' : ¬ bytesLe q.1 p.1 = true := fun h' => hnot ⟨h, h'⟩
        simp [h, h', hq, insertByName]
      · have h' : ¬ bytesLe p.1 q.1 = true := fun h' => hnot ⟨h', h⟩
        simp [h, h', hp, insertByName]
    · simp only [hp, hq, if_true, if_false, insertByName]
      have : ¬ bytesLe q.1 p.1 = true := fun h => hq (bytesLe_trans _ _ _ h hp)
      simp [this, hq, hp, insertByName]
    · simp only [hp, hq, if_true, if_false, insertByName]
      have : ¬ bytesLe p.1 q.1 = true := fun h => hp (bytesLe_trans _ _ _ h hq)
      simp [this, hq, hp, insertByName]
    · simp only [hp, hq, if_false]
      show insertByName p (z :: insertByName q t) = insertByName q (z :: insertByName p t)
      simp only [insertByName, hp, hq, if_false, ih]
      simp


theorem insert_foldr_comm (p : Bytes × Bytes) (B : List (Bytes × Bytes)) (hB : ∀ q ∈ B, p.1 ≠ q.1)
    (S : List (Bytes × Bytes)) :
    insertByName p (B.foldr insertByName S) = B.foldr insertByName (insertByName p S) := by
  induction B with
  | nil => rfl
  | cons q t ih =>
    simp only [List.foldr_cons]
    rw [insertByName_comm p q (hB q (by simp)), ih (fun x hx => hB x (by simp [hx]))]

theorem foldr_foldr_comm (A B : List (Bytes × Bytes)) (h : ∀ p ∈ A, ∀ q ∈ B, p.1 ≠ q.1)
    (S : List (Bytes × Bytes)) :
    A.foldr insertByName (B.foldr insertByName S) = B.foldr insertByName (A.foldr insertByName S) := by
  induction A with
  | nil => rfl
  | cons p t ih =>
    simp only [List.foldr_cons]
    rw [ih (fun x hx => h x (by simp [hx])), insert_foldr_comm p B (h p (by simp))]

/-- the pairs of one entry -/
def entryFlat (e : Bytes × List Bytes) : List (Bytes × Bytes) := e.2.map (fun v => (e.1, v))

theorem emit_cons (e : Bytes × List Bytes) (h : Headers) :
    emitHeaders (e :: h) = (entryFlat e).foldr insertByName (emitHeaders h) := by
  simp only [emitHeaders, sortByName, Headers.flat, List.flatMap_cons, List.foldr_append, entryFlat]

theorem entryFlat_name (e : Bytes × List Bytes) (p : Bytes × Bytes) (hp : p ∈ entryFlat e) : p.1 = e.1 := by
  simp only [entryFlat, List.mem_map] at hp
  obtain ⟨v, _, rfl⟩ := hp
  rfl

/-- **The emitted header list does not depend on the iteration order of the header map**: for any two orders `h'`, `h`
    of the same entries (distinct names), sorting the flattened pairs by name gives the same list. -/
theorem emitHeaders_perm (h' h : Headers) (hp : h'.Perm h) (hn : (h'.map (·.1)).Nodup) :
    emitHeaders h' = emitHeaders h := by
  induction hp with
  | nil => rfl
  | cons x _ ih =>
    rw [emit_cons, emit_cons, ih (by simp only [List.map_cons, List.nodup_cons] at hn; exact hn.2)]
  | swap x y l =>
    rw [emit_cons, emit_cons, emit_cons, emit_cons]
    apply foldr_foldr_comm
    intro p hp q hq
    rw [entryFlat_name _ _ hp, entryFlat_name _ _ hq]
    simp only [List.map_cons, List.nodup_cons, List.mem_cons, not_or] at hn
    exact hn.1.1
  | trans p1 _ ih1 ih2 =>
    rw [ih1 hn, ih2 ((List.Perm.nodup_iff (p1.map (·.1))).mp hn)]

/-! ### timer ids -/

theorem rankIn_append_new (seen : List Nat) (i : Nat) (h : ¬ i ∈ seen) : rankIn (seen ++ [i]) i = seen.length := by
  induction seen with
  | nil => simp [rankIn]
  | cons j t ih =>
    have hj : j ≠ i := fun e => h (by simp [e])
    have ht : ¬ i ∈ t := fun e => h (by simp [e])
    simp only [List.cons_append, rankIn, List.length_cons]
    simp [hj, ih ht]; omega

/-- renaming by rank, started after `m` ids `k … k+m-1` have been seen, continues the numbering at `m` -/
theorem rankRenameFrom_run (ops : List TOp) : ∀ k m : Nat,
    rankRenameFrom (List.range' k m) (runTimers (k + m) ops) = runTimers m ops := by
  induction ops with
  | nil => intro k m; rfl
  | cons op rest ih =>
    intro k m
    have hnew : ¬ (k + m) ∈ List.range' k m := by simp [List.mem_range']
    have hc : (List.range' k m).contains (k + m) = false := by simpa using hnew
    have hseen : List.range' k m ++ [k + m] = List.range' k (m + 1) := by
      rw [List.range'_concat]; simp
    have hrank : rankIn (List.range' k m ++ [k + m]) (k + m) = m := by
      rw [rankIn_append_new _ _ hnew]; simp
    cases op with
    | now => simp only [runTimers, rankRenameFrom, TReq.id?]; rw [ih k m]
    | after n =>
      simp only [runTimers, rankRenameFrom, TReq.id?, hc, Bool.false_eq_true, if_false, TReq.rename, hrank]
      rw [hseen, show k + m + 1 = k + (m + 1) by omega, ih k (m + 1)]
    | at_ s n =>
      simp only [runTimers, rankRenameFrom, TReq.id?, hc, Bool.false_eq_true, if_false, TReq.rename, hrank]
      rw [hseen, show k + m + 1 = k + (m + 1) by omega, ih k (m + 1)]

theorem rankRename_run (k : Nat) (ops : List TOp) : rankRename (runTimers k ops) = runTimers 0 ops := by
  have := rankRenameFrom_run ops k 0
  simpa [rankRename] using this

theorem run_shift (ops : List TOp) : ∀ k d : Nat,
    runTimers (k + d) ops = (runTimers k ops).map (TReq.rename (· + d)) := by
  induction ops with
  | nil => intro k d; rfl
  | cons op rest ih =>
    intro k d
    cases op <;> simp only [runTimers, List.map_cons, TReq.rename]
    · rw [ih k d]
    · rw [show k + d + 1 = (k + 1) + d by omega, ih (k + 1) d]
    · rw [show k + d + 1 = (k + 1) + d by omega, ih (k + 1) d]

theorem run_ids_ge (ops : List TOp) : ∀ k : Nat, ∀ r ∈ runTimers k ops, ∀ i, r.id? = some i → k ≤ i := by
  induction ops with
  | nil => intro k r hr; cases hr
  | cons op rest ih =>
    intro k r hr i hi
    cases op <;> simp only [runTimers, List.mem_cons] at hr
    · rcases hr with rfl | hr
      · simp [TReq.id?] at hi
      · exact ih k r hr i hi
    · rcases hr with rfl | hr
      · simp [TReq.id?] at hi; omega
      · have := ih (k + 1) r hr i hi; omega
    · rcases hr with rfl | hr
      · simp [TReq.id?] at hi; omega
      · have := ih (k + 1) r hr i hi; omega

theorem rename_rename (f g : Nat → Nat) (r : TReq) : (r.rename g).rename f = r.rename (f ∘ g) := by
  cases r <;> rfl

theorem rename_id (r : TReq) (f : Nat → Nat) (hf : ∀ i, f i = i) : r.rename f = r := by
  cases r <;> simp [TReq.rename, hf]

/-! ### zip-based comparisons -/

theorem valuesEq_iff_of_length (a b : List Bytes) (h : a.length = b.length) : valuesEq a b = true ↔ a = b := by
  induction a generalizing b with
  | nil => cases b with
    | nil => simp [valuesEq]
    | cons y t => simp at h
  | cons x s ih =>
    cases b with
    | nil => simp at h
    | cons y t =>
      simp only [List.length_cons, Nat.add_right_cancel_iff] at h
      have := ih t h
      simp only [valuesEq] at this ⊢
      simp [this]

end Lemmas.Det
