/-
Helper lemmas for C10, direction "what is written decodes to the value written, with nothing lost":
`wt R f v → depth v ≤ fuel → dec fuel R f (enc v ++ rest) = some (v, rest)`, by structural recursion on the value.
-/
import CruxVerif.Lemmas.BincodeSound
namespace Lemmas.Bincode
open M.Schema M.Bincode S.Codec

theorem decC_struct {dn : String → Dec} {c : ContainerFormat} {fs : List Format} (h : structFields c = some fs)
    (bs : Bytes) : decC dn c bs = mapFst Value.tuple (decT dn fs bs) := by
  cases c <;> simp [structFields] at h <;> simp [decC, structFields, h]

theorem decName_succ_struct {R : Registry} {k : Nat} {n : String} {c : ContainerFormat} {fs : List Format}
    (hc : lookup n R = some c) (h : structFields c = some fs) (bs : Bytes) :
    decName R (k + 1) n bs = mapFst Value.tuple (decT (decName R k) fs bs) := by
  simp only [decName, hc, decC_struct h]

theorem decName_succ_enum {R : Registry} {k : Nat} {n : String} {variants : List (Nat × Named VariantFormat)}
    (hc : lookup n R = some (.enum variants)) (bs : Bytes) :
    decName R (k + 1) n bs = decC (decName R k) (.enum variants) bs := by
  simp only [decName, hc]

mutual
theorem decF_complete (R : Registry) : ∀ (v : Value) (f : Format) (k : Nat) (rest : Bytes),
    wt R f v = true → depth v ≤ k → decF (decName R k) f (enc v ++ rest) = some (v, rest)
  | .bool b, f, k, rest, h, _ => by
    cases f <;> simp [wt] at h
    cases b <;> simp [decF, enc]
  | .num t n, f, k, rest, h, _ => by
    cases f <;> simp [wt] at h
    obtain ⟨rfl, h⟩ := h
    simp [decF, enc, decNum_enc _ _ _ h]
  | .char c, f, k, rest, h, _ => by
    cases f <;> simp [wt] at h
    simp [decF, enc, decChar_enc _ _ h]
  | .str s, f, k, rest, h, _ => by
    cases f <;> simp [wt] at h
    simp [decF, enc, decLenBytes_enc _ _ h.2, h.1]
  | .bytes s, f, k, rest, h, _ => by
    cases f <;> simp [wt] at h
    simp [decF, enc, decLenBytes_enc _ _ h, mapFst]
  | .none, f, k, rest, h, _ => by
    cases f <;> simp [wt] at h
    simp [decF, enc]
  | .some v, f, k, rest, h, hk => by
    cases f <;> simp [wt] at h
    rename_i g
    have := decF_complete R v g k rest h (by simp only [depth] at hk; omega)
    simp [decF, enc, this, mapFst]
  | .seq vs, f, k, rest, h, hk => by
    simp only [depth] at hk
    cases f <;> simp [wt] at h
    · rename_i g
      have := decAll_complete R vs g k rest h.2 (by omega)
      simp only [decF, enc, List.append_assoc]
      rw [decNat_enc 8 _ _ (by simpa using h.1)]
      simp only [this, mapFst]
    · rename_i kf vf
      have := decPairs_complete R vs kf vf k rest h.2 (by omega)
      simp only [decF, enc, List.append_assoc]
      rw [decNat_enc 8 _ _ (by simpa using h.1)]
      simp only [this, mapFst]
  | .tuple vs, f, k, rest, h, hk => by
    simp only [depth] at hk
    cases f <;> simp only [wt] at h
    · -- typeName
      rename_i n
      split at h
      · rename_i c hc
        split at h
        · rename_i fs hfs
          obtain ⟨k', rfl⟩ : ∃ k', k = k' + 1 := ⟨k - 1, by omega⟩
          have := decT_complete R vs fs k' rest h (by omega)
          simp only [decF, enc, decName_succ_struct hc hfs, this, mapFst]
        · cases h
      · cases h
    · -- unit
      cases vs <;> simp at h
      simp [decF, enc, encAll]
    all_goals try (cases h; done)
    · -- tuple
      rename_i fs
      have := decT_complete R vs fs k rest h (by omega)
      simp only [decF, enc, this, mapFst]
    · -- tupleArray
      rename_i g n
      simp only [Bool.and_eq_true, decide_eq_true_eq] at h
      obtain ⟨rfl, h⟩ := h
      have := decAll_complete R vs g k rest h (by omega)
      simp only [decF, enc, this, mapFst]
  | .variant i p, f, k, rest, h, hk => by
    cases p <;> (try (cases f <;> simp [wt] at h; done))
    rename_i vs
    cases f <;> simp only [wt] at h <;> (try (cases h; done))
    rename_i n
    simp only [depth] at hk
    split at h
    · rename_i variants hc
      simp only [Bool.and_eq_true, decide_eq_true_eq] at h
      obtain ⟨hi, h⟩ := h
      split at h
      · rename_i vf hvf
        obtain ⟨k', rfl⟩ : ∃ k', k = k' + 1 := ⟨k - 1, by omega⟩
        have := decT_complete R vs vf.value.fields k' rest h (by omega)
        simp only [decF, enc, decName_succ_enum hc, decC, List.append_assoc]
        rw [decNat_enc 4 _ _ (by simpa using hi)]
        simp only [hvf, this, mapFst]
      · cases h
    · cases h
theorem decAll_complete (R : Registry) : ∀ (vs : List Value) (f : Format) (k : Nat) (rest : Bytes),
    wtAll R f vs = true → depthAll vs ≤ k →
      decListWith (decF (decName R k) f) vs.length (encAll vs ++ rest) = some (vs, rest)
  | [], f, k, rest, _, _ => by simp [decListWith, encAll]
  | v :: vs, f, k, rest, h, hk => by
    simp only [wtAll, Bool.and_eq_true] at h
    simp only [depthAll] at hk
    have h1 := decF_complete R v f k (encAll vs ++ rest) h.1 (by omega)
    have h2 := decAll_complete R vs f k rest h.2 (by omega)
    simp only [List.length_cons, decListWith, encAll, List.append_assoc, h1, h2]
theorem decT_complete (R : Registry) : ∀ (vs : List Value) (fs : List Format) (k : Nat) (rest : Bytes),
    wtT R fs vs = true → depthAll vs ≤ k → decT (decName R k) fs (encAll vs ++ rest) = some (vs, rest)
  | [], fs, k, rest, h, _ => by
    cases fs <;> simp [wtT] at h
    simp [decT, encAll]
  | v :: vs, fs, k, rest, h, hk => by
    cases fs <;> simp only [wtT, Bool.and_eq_true] at h
    · cases h
    rename_i f fs
    simp only [depthAll] at hk
    have h1 := decF_complete R v f k (encAll vs ++ rest) h.1 (by omega)
    have h2 := decT_complete R vs fs k rest h.2 (by omega)
    simp only [decT, encAll, List.append_assoc, h1, h2]
theorem decPairs_complete (R : Registry) : ∀ (vs : List Value) (kf vf : Format) (k : Nat) (rest : Bytes),
    wtPairs R kf vf vs = true → depthAll vs ≤ k →
      decListWith (decPair (decF (decName R k) kf) (decF (decName R k) vf)) vs.length (encAll vs ++ rest)
        = some (vs, rest)
  | [], kf, vf, k, rest, _, _ => by simp [decListWith, encAll]
  | .tuple [a, b] :: vs, kf, vf, k, rest, h, hk => by
    simp only [wtPairs, Bool.and_eq_true] at h
    simp only [depthAll, depth] at hk
    have h1 := decF_complete R a kf k (enc b ++ (encAll vs ++ rest)) h.1.1 (by omega)
    have h2 := decF_complete R b vf k (encAll vs ++ rest) h.1.2 (by omega)
    have h3 := decPairs_complete R vs kf vf k rest h.2 (by omega)
    simp only [List.length_cons, decListWith, decPair, encAll, enc, List.append_assoc, List.append_nil, h1, h2, h3]
  | .tuple [] :: _, _, _, _, _, h, _ => by simp [wtPairs] at h
  | .tuple [_] :: _, _, _, _, _, h, _ => by simp [wtPairs] at h
  | .tuple (_ :: _ :: _ :: _) :: _, _, _, _, _, h, _ => by simp [wtPairs] at h
  | .bool _ :: _, _, _, _, _, h, _ => by simp [wtPairs] at h
  | .num _ _ :: _, _, _, _, _, h, _ => by simp [wtPairs] at h
  | .char _ :: _, _, _, _, _, h, _ => by simp [wtPairs] at h
  | .str _ :: _, _, _, _, _, h, _ => by simp [wtPairs] at h
  | .bytes _ :: _, _, _, _, _, h, _ => by simp [wtPairs] at h
  | .none :: _, _, _, _, _, h, _ => by simp [wtPairs] at h
  | .some _ :: _, _, _, _, _, h, _ => by simp [wtPairs] at h
  | .seq _ :: _, _, _, _, _, h, _ => by simp [wtPairs] at h
  | .variant _ _ :: _, _, _, _, _, h, _ => by simp [wtPairs] at h
end

end Lemmas.Bincode
