import CruxVerif.Lemmas.Http
open M.Http

namespace Lemmas.Det
set_option linter.unusedSimpArgs false

theorem bytesLe_total (a b : Bytes) : bytesLe a b = true ∨ bytesLe b a = true := by
  induction a generalizing b with
  | nil => left; cases b <;> rfl
  | cons x s ih =>
    cases b with
    | nil => right; rfl
    | cons y t =>
      simp only [bytesLe, Bool.or_eq_true, Bool.and_eq_true, decide_eq_true_eq, beq_iff_eq]
      rcases Nat.lt_trichotomy x y with h | h | h
      · left; left; exact h
      · subst h
        rcases ih t with h' | h'
        · left; right; exact ⟨rfl, h'⟩
        · right; right; exact ⟨rfl, h'⟩
      · right; left; exact h

theorem bytesLe_antisymm (a b : Bytes) (h1 : bytesLe a b = true) (h2 : bytesLe b a = true) : a = b := by
  induction a generalizing b with
  | nil => cases b with
    | nil => rfl
    | cons y t => simp [bytesLe] at h2
  | cons x s ih =>
    cases b with
    | nil => simp [bytesLe] at h1
    | cons y t =>
      simp only [bytesLe, Bool.or_eq_true, Bool.and_eq_true, decide_eq_true_eq, beq_iff_eq] at h1 h2
      rcases h1 with h1 | ⟨h1, h1'⟩
      · rcases h2 with h2 | ⟨h2, _⟩ <;> omega
      · subst h1
        rcases h2 with h2 | ⟨_, h2'⟩
        · omega
        · rw [ih t h1' h2']

theorem bytesLe_trans (a b c : Bytes) (h1 : bytesLe a b = true) (h2 : bytesLe b c = true) : bytesLe a c = true := by
  induction a generalizing b c with
  | nil => cases c <;> rfl
  | cons x s ih =>
    cases b with
    | nil => simp [bytesLe] at h1
    | cons y t =>
      cases c with
      | nil => simp [bytesLe] at h2
      | cons z u =>
        simp only [bytesLe, Bool.or_eq_true, Bool.and_eq_true, decide_eq_true_eq, beq_iff_eq] at h1 h2 ⊢
        rcases h1 with h1 | ⟨h1, h1'⟩ <;> rcases h2 with h2 | ⟨h2, h2'⟩
        · left; omega
        · left; omega
        · left; omega
        · right; exact ⟨by omega, ih t u h1' h2'⟩

/-- inserting two pairs with different names commutes -/
theorem insertByName_comm (p q : Bytes × Bytes) (hne : p.1 ≠ q.1) (l : List (Bytes × Bytes)) :
    insertByName p (insertByName q l) = insertByName q (insertByName p l) := by
  have hnot : ¬ (bytesLe p.1 q.1 = true ∧ bytesLe q.1 p.1 = true) := fun ⟨a, b⟩ => hne (bytesLe_antisymm _ _ a b)
  induction l with
  | nil =>
    simp only [insertByName]
    rcases bytesLe_total p.1 q.1 with h | h
    · have h' : ¬ bytesLe q.1 p.1 = true := fun h' => hnot ⟨h, h'⟩
      simp [h, h', insertByName]
    · have h' : ¬ bytesLe p.1 q.1 = true := fun h' => hnot ⟨h', h⟩
      simp [h, h', insertByName]
  | cons z t ih =>
    simp only [insertByName]
    by_cases hp : bytesLe p.1 z.1 = true <;> by_cases hq : bytesLe q.1 z.1 = true
    · simp only [hp, hq, if_true, insertByName]
      rcases bytesLe_total p.1 q.1 with h | h
      · have h' : ¬ bytesLe q.1 p.1 = true := fun h' => hnot ⟨h, h'⟩
        simp [h, h', hq, insertByName]
      · have h' : ¬ bytesLe p.1 q.1 = true := fun h' => hnot ⟨h', h⟩
        simp [h, h', hp, insertByName]
    · simp only [hp, hq, if_true, if_false, insertByName]
      have : ¬ bytesLe q.1 p.1 = true := fun h => hq (bytesLe_trans _ _ _ h hp)
      simp [this, hq, hp, insertByName]
    · simp only [hp, hq, if_true, if_false, insertByName]
      have : ¬ bytesLe p.1 q.1 = true := fun h => hp (bytesLe_trans _ _ _ h hq)
      simp [this, hq, hp, insertByName]
    · simp only [hp, hq, if_false]
      show insertByName p (z :: insertByName q t) = insertByName q (z :: insertByName p t)
      simp only [insertByName, hp, hq, if_false, ih]
      simp


end Lemmas.Det
