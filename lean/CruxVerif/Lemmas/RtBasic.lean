/- Helper lemmas about `modifyNth` and the `World` accessors of M.Rt. -/
import CruxVerif.Model.Rt
namespace M.Rt

theorem modifyNth_length {α : Type} (l : List α) (i : Nat) (f : α → α) : (modifyNth l i f).length = l.length := by
  induction l generalizing i with
  | nil => simp [modifyNth]
  | cons a as ih => cases i <;> simp [modifyNth, ih]

theorem modifyNth_get_self {α : Type} (l : List α) (i : Nat) (f : α → α) :
    (modifyNth l i f)[i]? = (l[i]?).map f := by
  induction l generalizing i with
  | nil => simp [modifyNth]
  | cons a as ih => cases i <;> simp [modifyNth, ih]

theorem modifyNth_get_other {α : Type} (l : List α) (i j : Nat) (f : α → α) (h : i ≠ j) :
    (modifyNth l i f)[j]? = l[j]? := by
  induction l generalizing i j with
  | nil => simp [modifyNth]
  | cons a as ih =>
    cases i <;> cases j <;> simp_all [modifyNth]

namespace World

theorem cmd_modCmd_self (w : World) (cid : Nat) (f : CmdSt → CmdSt) :
    (w.modCmd cid f).cmd cid = match w.cmds[cid]? with | some c => f c | none => {} := by
  simp only [cmd, modCmd, modifyNth_get_self]
  cases w.cmds[cid]? <;> simp

theorem cmd_modCmd_other (w : World) (cid c : Nat) (f : CmdSt → CmdSt) (h : cid ≠ c) :
    (w.modCmd cid f).cmd c = w.cmd c := by
  simp only [cmd, modCmd, modifyNth_get_other _ _ _ _ h]

/-- a field that `f` sets to a constant default-compatible value is that value after `modCmd` (in or out of range) -/
theorem cmd_modCmd_ready_nil (w : World) (cid : Nat) (f : CmdSt → CmdSt) (hf : ∀ c, (f c).ready = []) :
    ((w.modCmd cid f).cmd cid).ready = [] := by
  rw [cmd_modCmd_self]; cases w.cmds[cid]? <;> simp [hf]

theorem cmd_modCmd_spawnQ_nil (w : World) (cid : Nat) (f : CmdSt → CmdSt) (hf : ∀ c, (f c).spawnQ = []) :
    ((w.modCmd cid f).cmd cid).spawnQ = [] := by
  rw [cmd_modCmd_self]; cases w.cmds[cid]? <;> simp [hf]

theorem cmd_modCmd_spawnQ_keep (w : World) (cid : Nat) (f : CmdSt → CmdSt) (hf : ∀ c, (f c).spawnQ = c.spawnQ) :
    ((w.modCmd cid f).cmd cid).spawnQ = (w.cmd cid).spawnQ := by
  rw [cmd_modCmd_self]; simp only [cmd]; cases w.cmds[cid]? <;> simp [hf]

theorem cmd_modCmd_tasks_empty (w : World) (cid : Nat) (f : CmdSt → CmdSt) (hf : ∀ c, (f c).tasks = {}) :
    ((w.modCmd cid f).cmd cid).tasks = {} := by
  rw [cmd_modCmd_self]; cases w.cmds[cid]? <;> simp [hf]

end World
end M.Rt
