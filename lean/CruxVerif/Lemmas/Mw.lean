/-
Helper lemmas for Props/C16.lean (middleware stacks and the redirect loop of M.Mw against S.Mw).
-/
import CruxVerif.Spec.Mw
namespace L.Mw
open M.Mw S.Mw
set_option linter.unusedSimpArgs false

/-! ### stacks -/

theorem onReq_url (st : List Mw) (req : Req) : (st.foldl (fun r m => onReq m r) req).url = req.url := by
  induction st generalizing req with
  | nil => rfl
  | cons m rest ih =>
    simp only [List.foldl_cons, ih]
    cases m <;> rfl

/-- a stack of pass-through middleware: enters in order, the endpoint once, exits in reverse order -/
theorem run_passThrough (w : World) (fixed : Bool) (st : List Mw) (req : Req)
    (h : ∀ m ∈ st, passThrough m = true) :
    run w fixed st req =
      (st.map (fun m => Ev.enter (ident m)) ++ [.shell (st.foldl (fun r m => onReq m r) req)] ++
        st.reverse.map (fun m => Ev.exit (ident m)), w.srv req.url) := by
  induction st generalizing req with
  | nil => simp [run, endpoint]
  | cons m rest ih =>
    have hr : ∀ m ∈ rest, passThrough m = true := fun m hm => h m (List.mem_cons_of_mem _ hm)
    have hm := h m List.mem_cons_self
    cases m with
    | pass k => simp [run, ih _ hr, ident, onReq]
    | tag k => simp [run, ih _ hr, ident, onReq, Req.append]
    | short k s => simp [passThrough] at hm
    | fail k => simp [passThrough] at hm
    | twice k => simp [passThrough] at hm
    | issue k u a => simp [passThrough] at hm
    | redirect a => simp [passThrough] at hm

theorem shells_passThrough_trace (st : List Mw) (r : Req) :
    shells (st.map (fun m => Ev.enter (ident m)) ++ [.shell r] ++ st.reverse.map (fun m => Ev.exit (ident m))) = 1 := by
  have h1 : ∀ l : List Mw, List.countP isShell (l.map (fun m => Ev.enter (ident m))) = 0 := by
    intro l; induction l <;> simp_all [isShell]
  have h2 : ∀ l : List Mw, List.countP isShell (l.map (fun m => Ev.exit (ident m))) = 0 := by
    intro l; induction l <;> simp_all [isShell]
  simp only [shells, List.countP_append, h1, h2]
  simp [isShell]

/-- nothing below a short-circuiting middleware matters -/
theorem run_cut_short (w : World) (fixed : Bool) (pre : List Mw) (k s : Nat) (rest : List Mw) (req : Req) :
    run w fixed (pre ++ .short k s :: rest) req = run w fixed (pre ++ [.short k s]) req := by
  induction pre generalizing req with
  | nil => simp [run]
  | cons m pre ih => cases m <;> simp [run, ih]

theorem run_cut_fail (w : World) (fixed : Bool) (pre : List Mw) (k : Nat) (rest : List Mw) (req : Req) :
    run w fixed (pre ++ .fail k :: rest) req = run w fixed (pre ++ [.fail k]) req := by
  induction pre generalizing req with
  | nil => simp [run]
  | cons m pre ih => cases m <;> simp [run, ih]

/-- the endpoint is invoked `mult st` times by a stack of local middleware -/
theorem shells_local (w : World) (fixed : Bool) (st : List Mw) (req : Req)
    (h : ∀ m ∈ st, isLocal m = true) : shells (run w fixed st req).1 = mult st := by
  induction st generalizing req with
  | nil => simp [run, endpoint, shells, mult, isShell]
  | cons m rest ih =>
    have hr : ∀ m ∈ rest, isLocal m = true := fun m hm => h m (List.mem_cons_of_mem _ hm)
    have hm := h m List.mem_cons_self
    have ih' := fun r => ih r hr
    simp only [shells] at ih' ⊢
    cases m with
    | pass k => simp [run, mult, List.countP_cons, List.countP_append, isShell, ih']
    | tag k => simp [run, mult, List.countP_cons, List.countP_append, isShell, ih']
    | short k s => simp [run, mult, isShell]
    | fail k => simp [run, mult, isShell]
    | twice k => simp [run, mult, List.countP_cons, List.countP_append, isShell, ih']; omega
    | issue k u a => simp [isLocal] at hm
    | redirect a => simp [isLocal] at hm

/-! ### the redirect loop -/

/-- one iteration never touches method, headers or body -/
theorem step_next_same (w : World) (fixed : Bool) (req : Req) (base : Url) (req' : Req) (base' : Url)
    (h : redirectStep w fixed req base = .next req' base') : SameButUrl req' req := by
  unfold redirectStep at h
  split at h
  · simp at h
  · split at h
    · split at h
      · simp at h; obtain ⟨rfl, _⟩ := h; exact ⟨rfl, rfl, rfl⟩
      · split at h
        · simp at h
        · simp at h; obtain ⟨rfl, _⟩ := h; exact ⟨rfl, rfl, rfl⟩
        · split at h
          · simp at h
          · simp at h; obtain ⟨rfl, _⟩ := h; exact ⟨rfl, rfl, rfl⟩
          · simp at h
        · simp at h
    · simp at h

/-- the loop is left with `Ok` only through `break`, with the request untouched -/
theorem step_stop_ok (w : World) (fixed : Bool) (req : Req) (base : Url) (r : Req)
    (h : redirectStep w fixed req base = .stop (.ok r)) : r = req ∧ ¬ redirecting w req.url := by
  unfold redirectStep at h
  split at h
  · simp at h
  · rename_i res hres
    split at h
    · split at h
      · simp at h
      · split at h
        · simp at h
        · simp at h
        · split at h <;> simp at h
        · simp at h
    · rename_i hnr
      simp at h
      refine ⟨h.symm, ?_⟩
      rintro ⟨res', hr', hs'⟩
      rw [hres] at hr'
      cases hr'
      exact hnr hs'

/-- another iteration follows only a redirect status -/
theorem step_next_redirecting (w : World) (fixed : Bool) (req : Req) (base : Url) (req' : Req) (base' : Url)
    (h : redirectStep w fixed req base = .next req' base') : redirecting w req.url := by
  unfold redirectStep at h
  split at h
  · simp at h
  · rename_i res hres
    split at h
    · rename_i hs
      exact ⟨res, hres, hs⟩
    · simp at h

theorem SameButUrl.trans {a b c : Req} (h1 : SameButUrl a b) (h2 : SameButUrl b c) : SameButUrl a c :=
  ⟨h1.1.trans h2.1, h1.2.1.trans h2.2.1, h1.2.2.trans h2.2.2⟩

theorem clone_eq_probe (req r : Req) (h : SameButUrl r req) : Ev.shell r.clone = probe req r.url := by
  obtain ⟨h1, h2, _⟩ := h
  cases r; cases req
  simp_all [Req.clone, probe]

theorem loop_length (w : World) (fixed : Bool) (n : Nat) (req : Req) (base : Url) :
    (redirectLoop w fixed n req base).1.length ≤ n := by
  induction n generalizing req base with
  | zero => simp [redirectLoop]
  | succ n ih =>
    unfold redirectLoop
    split
    · simp
    · simp; exact ih _ _

/-- every request the loop sends is a probe of the request it was given; the request it hands on differs from it
    in the URL only -/
theorem loop_probes (w : World) (fixed : Bool) (n : Nat) (orig req : Req) (base : Url) (hs : SameButUrl req orig) :
    (∀ e ∈ (redirectLoop w fixed n req base).1, IsProbeOf orig e) ∧
    (∀ r, (redirectLoop w fixed n req base).2 = .ok r → SameButUrl r orig) := by
  induction n generalizing req base with
  | zero =>
    simp only [redirectLoop]
    exact ⟨by simp, fun r h => by cases h; exact hs⟩
  | succ n ih =>
    unfold redirectLoop
    split
    · rename_i r hstep
      refine ⟨?_, ?_⟩
      · intro e he
        simp at he
        exact ⟨req.url, by rw [he]; exact clone_eq_probe orig req hs⟩
      · intro r' hr'
        simp at hr'
        subst hr'
        rw [(step_stop_ok w fixed req base r' hstep).1]
        exact hs
    · rename_i req' base' hstep
      have hs' : SameButUrl req' orig := SameButUrl.trans (step_next_same w fixed req base req' base' hstep) hs
      obtain ⟨ih1, ih2⟩ := ih req' base' hs'
      refine ⟨?_, ih2⟩
      intro e he
      simp at he
      rcases he with he | he
      · exact ⟨req.url, by rw [he]; exact clone_eq_probe orig req hs⟩
      · exact ih1 e he

/-- no probe after the first answer that is not a redirect (an error answer ends the loop as well) -/
theorem loop_stops (w : World) (fixed : Bool) (n : Nat) (req : Req) (base : Url)
    (pre : Trace) (p : Req) (post : Trace)
    (h : (redirectLoop w fixed n req base).1 = pre ++ .shell p :: post) (hp : ¬ redirecting w p.url) :
    post = [] := by
  induction n generalizing req base pre with
  | zero => simp [redirectLoop] at h
  | succ n ih =>
    unfold redirectLoop at h
    split at h
    · simp at h
      cases pre with
      | nil => simp at h; exact h.2
      | cons a pre => simp at h
    · rename_i req' base' hstep
      simp at h
      cases pre with
      | nil =>
        simp at h
        obtain ⟨h1, _⟩ := h
        have : p.url = req.url := by rw [← h1]; rfl
        exact absurd (step_next_redirecting w fixed req base req' base' hstep) (by rw [← this]; exact hp)
      | cons a pre =>
        simp at h
        exact ih req' base' pre h.2

/-! ### the repaired loop is the documented walk -/

/-- with `base_url` kept equal to the current URL, one iteration of the code is one hop of the specification -/
theorem step_fixed_hop (w : World) (req : Req) :
    redirectStep w true req req.url =
      match hop w req.url with
      | .done => .stop (.ok req)
      | .fail e => .stop (.err e)
      | .stay => .next req req.url
      | .to u => .next { req with url := u } u := by
  unfold redirectStep hop
  cases w.srv req.url with
  | err e => rfl
  | ok res =>
    by_cases hs : isRedirect res.status = true
    · simp only [hs, if_true, Bool.not_true, Bool.false_eq_true, if_false]
      cases res.locs.getLast? with
      | none => rfl
      | some loc =>
        simp only
        cases w.parse loc with
        | none => rfl
        | some p =>
          cases p with
          | abs v => rfl
          | bad => rfl
          | rel =>
            simp only
            cases w.join req.url loc with
            | none => rfl
            | some j => cases j <;> simp
    · simp [hs]

theorem probe_url (req : Req) (u v : Url) : probe { req with url := u } v = probe req v := rfl

theorem loop_fixed_walk (w : World) (n : Nat) (req : Req) :
    redirectLoop w true n req req.url =
      ((walk w n req.url).1.map (probe req),
        match (walk w n req.url).2 with
        | .final u => .ok { req with url := u }
        | .fail e => .err e) := by
  induction n generalizing req with
  | zero => simp [redirectLoop, walk]
  | succ n ih =>
    unfold redirectLoop walk
    rw [step_fixed_hop]
    have hc : Ev.shell req.clone = probe req req.url := clone_eq_probe req req ⟨rfl, rfl, rfl⟩
    cases hop w req.url with
    | done => simp [hc]
    | fail e => simp [hc]
    | stay => simp [hc, ih req]
    | to u =>
      have := ih { req with url := u }
      simp only at this
      simp [hc, this, probe_url]

theorem issued_fixed (w : World) (u : Url) (att : Option Nat) : issued w true u att = issuedReq w u att := by
  cases att with
  | none => rfl
  | some a =>
    have h := loop_fixed_walk w a (getReq u)
    simp only [getReq] at h
    simp only [issued, issuedReq, redirect, getReq, h]
    cases (walk w a u).2 <;> simp

/-- `Next::run` of the repaired code is the right fold of the documented handlers over the endpoint -/
theorem run_fixed_foldr (w : World) (st : List Mw) (req : Req) :
    run w true st req = st.foldr (sem w) (endpoint w) req := by
  induction st generalizing req with
  | nil => rfl
  | cons m rest ih =>
    cases m with
    | pass k => simp [run, sem, ih]
    | tag k => simp [run, sem, ih]
    | short k s => simp [run, sem]
    | fail k => simp [run, sem]
    | twice k => simp [run, sem, ih]
    | issue k u a =>
      simp only [run, List.foldr_cons, sem, issued_fixed]
      cases h : (issuedReq w u a) with
      | mk t r => cases r <;> simp [ih]
    | redirect a =>
      simp only [run, List.foldr_cons, sem, redirect, loop_fixed_walk]
      cases (walk w a req.url).2 <;> simp [ih]

theorem send_fixed_chain (w : World) (client st : List Mw) (req : Req) :
    send w true client st req = chain w client st req := by
  simp [send, chain, run_fixed_foldr, List.foldr_append]

/-! ### the code as it is agrees with the repaired code when no relative hop follows a relative hop -/

/-- `base_url` is the current URL, or the current URL came out of a join -/
def BaseInv (w : World) (req : Req) (base : Url) : Prop :=
  base = req.url ∨ ∃ b loc, w.join b loc = some (.ok req.url)

theorem loop_unfixed_eq (w : World) (hw : NoRelAfterRel w) (n : Nat) (req : Req) (base : Url)
    (hinv : BaseInv w req base) :
    redirectLoop w false n req base = redirectLoop w true n req req.url := by
  induction n generalizing req base with
  | zero => rfl
  | succ n ih =>
    unfold redirectLoop redirectStep
    cases hsrv : w.srv req.url with
    | err e => rfl
    | ok res =>
      by_cases hs : isRedirect res.status = true
      · simp only [hs, if_true]
        cases hl : res.locs.getLast? with
        | none => simp only; rw [ih req base hinv]
        | some loc =>
          simp only
          cases hp : w.parse loc with
          | none => rfl
          | some p =>
            cases p with
            | abs v => simp only; rw [ih _ v (Or.inl rfl)]
            | bad => rfl
            | rel =>
              rcases hinv with hb | ⟨b, l, hj⟩
              · subst hb
                simp only
                cases hj : w.join req.url loc with
                | none => rfl
                | some j =>
                  cases j with
                  | bad => rfl
                  | ok u =>
                    simp only [Bool.false_eq_true, if_false, if_true]
                    rw [ih { req with url := u } req.url (Or.inr ⟨req.url, loc, hj⟩)]
              · exact absurd hp (hw b l req.url hj res hsrv hs loc hl)
      · simp [hs]

theorem issued_unfixed_eq (w : World) (hw : NoRelAfterRel w) (u : Url) (att : Option Nat) :
    issued w false u att = issued w true u att := by
  cases att with
  | none => rfl
  | some a =>
    have := loop_unfixed_eq w hw a (getReq u) u (Or.inl rfl)
    simp only [getReq] at this
    simp only [issued, getReq, this]

theorem run_unfixed_eq (w : World) (hw : NoRelAfterRel w) (st : List Mw) (req : Req) :
    run w false st req = run w true st req := by
  induction st generalizing req with
  | nil => rfl
  | cons m rest ih =>
    cases m with
    | pass k => simp [run, ih]
    | tag k => simp [run, ih]
    | short k s => simp [run]
    | fail k => simp [run]
    | twice k => simp [run, ih]
    | issue k u a => simp [run, ih, issued_unfixed_eq w hw]
    | redirect a => simp [run, ih, loop_unfixed_eq w hw a req req.url (Or.inl rfl)]

end L.Mw
