/- Quiescence over every history of the Core host, flat apps. -/
import CruxVerif.Lemmas.QRun
namespace M.Rt

theorem QI.step_none {k : Core} (hk : QI k none) (w' : World) (q : QS none k.w w') (hs : w'.execSpawn = k.w.execSpawn) :
    QI { k with w := w' } none := by
  refine ⟨hk.wf, fun c => (hk.hf c).of_qs_none q, hk.th, by simp only [hs]; exact hk.sh,
    fun e c hh => by simp only [q.len]; exact hk.host e c hh, fun c hh => by simp only [q.len, hs] at hh ⊢; exact hk.spawnIn c hh, ?_, hk.flat⟩
  intro c hc hal
  simp only [q.len] at hc
  simp only [q.alive c] at hal
  exact Or.inl ((hk.allQ c hc hal).step q (fun e => by cases e))

end M.Rt

namespace M.Hosts
open M.Rt

/-- quiescent: the invariant holds and the executor's queues are empty -/
def Quiet (k : Core) : Prop := QI k none ∧ k.w.execSpawn = [] ∧ k.w.execReady = []

theorem CoreHost.afterCall_q (res : String) (effs : List Eff) (oldLen : Nat) (trigger : Option Ev) (h : CoreHost)
    (o : Obs) (h' : CoreHost) (hc : CoreHost.afterCall res effs oldLen trigger h = some (o, h')) (hw : QI h.k none) :
    Quiet h'.k := by
  unfold CoreHost.afterCall at hc
  simp only [CoreHost.record] at hc
  cases hp : processEvent ⟨probeTag, 0⟩ h.k with
  | none => simp [hp] at hc
  | some p =>
    obtain ⟨peffs, k⟩ := p
    simp [hp] at hc
    obtain ⟨_, rfl⟩ := hc
    exact processEvent_q _ _ _ _ hp hw

theorem CoreHost.step_q (h : CoreHost) (a : Action) (o : Obs) (h' : CoreHost) (hs : h.step a = some (o, h'))
    (hw : QI h.k none) : Quiet h'.k := by
  unfold CoreHost.step at hs
  simp only at hs
  cases a with
  | ev tag v =>
    simp only at hs
    cases hp : processEvent ⟨tag, v⟩ h.k with
    | none => simp [hp] at hs
    | some p =>
      obtain ⟨effs, k⟩ := p
      simp [hp] at hs
      exact CoreHost.afterCall_q _ _ _ _ _ _ _ hs (processEvent_q _ _ _ _ hp hw).1
  | res kk v =>
    simp only at hs
    split at hs
    · exact CoreHost.afterCall_q _ _ _ _ _ _ _ hs hw
    · rename_i reqs res w1 hr
      have k1 : QI { h.k with w := w1 } none := by
        unfold shellResolve at hr
        split at hr
        · cases hr
        · rename_i e _
          simp only [Option.some.injEq, Prod.mk.injEq] at hr
          obtain ⟨_, _, rfl⟩ := hr
          exact hw.step_none _ (resolveReq_qs none e.res v h.k.w) (es_of_X (X_resolveReq e.res v h.k.w))
      split at hs
      · split at hs
        · cases hs
        · rename_i effs k2 hpr
          exact CoreHost.afterCall_q _ _ _ _ _ _ _ hs (process_q _ _ _ hpr k1).1
      · exact CoreHost.afterCall_q _ _ _ _ _ _ _ hs k1
  | drop kk =>
    simp only at hs
    split at hs
    · exact CoreHost.afterCall_q _ _ _ _ _ _ _ hs hw
    · rename_i reqs w1 hr
      refine CoreHost.afterCall_q _ _ _ _ _ _ _ hs ?_
      unfold shellDrop at hr
      split at hr
      · cases hr
      · rename_i e _
        simp only [Option.some.injEq, Prod.mk.injEq] at hr
        obtain ⟨_, rfl⟩ := hr
        exact hw.step_none _ (dropReq_qs none e.res h.k.w) (es_of_X (X_dropReq e.res h.k.w))
  | abort n =>
    simp only at hs
    refine CoreHost.afterCall_q _ _ _ _ _ _ _ hs ?_
    show QI { h.k with w := doAbort n h.k.w } none
    refine hw.step_none _ ?_ (es_of_X (X_doAbort n h.k.w))
    unfold doAbort; split
    · exact abortCmd_qs none _ _
    · exact QS.refl _ _
  | poll => exact CoreHost.afterCall_q _ _ _ _ _ _ _ hs hw
  | rawRes _ _ _ => simp at hs
  | rawEv _ _ => simp at hs

theorem QI_init (prog : Prog) (hp : progFlat prog) : QI ({ prog := prog } : Core) none := by
  refine ⟨Slab.wf_empty, ?_, ?_, ?_, ?_, ?_, ?_, hp⟩
  · intro c; exact ⟨by intro t ht; simp [World.cmd, Slab.values] at ht, by intro t ht; simp [World.cmd] at ht⟩
  · intro t ht; cases ht
  · intro t ht; cases ht
  · intro e c hh; simp [hostedBy, Slab.get?] at hh
  · intro c hh; cases hh
  · intro c hc; simp at hc

/-- **A Core call runs to quiescence (flat apps).** For every app whose `update` returns commands without combinators — any
    task program with `spawn`, `join!`, `select!`, streams, hand-offs, join handles, abort handles, builder chains — plus
    host-free legacy capability tasks, after EVERY history of events, resolutions, drops, aborts and probes: when the call
    returns, the executor's queues are empty and no live, un-aborted command has a ready task, a spawned task waiting to
    start, or a queued effect or event. Nothing that could run was left behind, and no wake-up was lost. -/
theorem runCore_quiescent (prog : Prog) (hp : progFlat prog) (canon : Bool) (acts : List Action) (os : List Obs) (h : CoreHost)
    (hr : runCore prog canon acts = some (os, h)) : QI h.k none := by
  unfold runCore at hr
  exact runSteps_inv CoreHost.step (fun h => QI h.k none) (fun s a o s' hs hq => (CoreHost.step_q s a o s' hs hq).1)
    acts _ os h hr (QI_init prog hp)

end M.Hosts
