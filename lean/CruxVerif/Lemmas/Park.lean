/-
Parking across polls: a task parked at live wake sources stays parked while OTHER tasks are polled (their blocks reference
other channels), and the flag `woken` of a poll's serial implies that the task id is on the ready queue.
-/
import CruxVerif.Lemmas.WPoll
namespace M.Rt

-- parked at LIVE registrations only: like `ParkedB`, but a pending self-wake does not count
mutual
def LPB (wk : Waker) (w : World) : Block → Prop
  | .mk _ cur _ => LPP wk w cur
def LPP (wk : Waker) (w : World) : Pend → Prop
  | .idle => False
  | .req _ l => l < w.leaves.length ∧ (w.leaf l).waker = some wk
  | .reqDead => True
  | .streamWait _ l _ _ _ => l < w.leaves.length ∧ (w.leaf l).waker = some wk
  | .streamBody _ _ _ _ _ inner => LPB wk w inner
  | .await s => wk ∈ (w.getMeta s).joinWakers
  | .join a b ad bd => (ad = false → LPB wk w a) ∧ (bd = false → LPB wk w b)
  | .select a b => LPB wk w a ∧ LPB wk w b
  | .selfwake _ => False
  | .host _ _ => True
end

/-- a parked block whose waker was not woken is parked at live registrations -/
theorem LPB_of_parked (wk : Waker) (w : World) (hnw : ¬ wokenBy wk w) : ∀ (b : Block), ParkedB wk w b → LPB wk w b := by
  have key : ∀ n (b : Block), sizeOf b ≤ n → ParkedB wk w b → LPB wk w b := by
    intro n
    induction n with
    | zero => intro b hb; cases b; simp at hb
    | succ n ih =>
      intro b hb hp
      obtain ⟨env, cur, rest⟩ := b
      simp only [Block.mk.sizeOf_spec] at hb
      simp only [ParkedB] at hp
      simp only [LPB]
      cases cur with
      | idle => simp [ParkedP] at hp
      | reqDead => simp [LPP]
      | await s => simpa [ParkedP, LPP] using hp
      | selfwake s => simp only [ParkedP] at hp; exact absurd hp hnw
      | req x l => simpa [ParkedP, LPP] using hp
      | streamWait x l c lim body => simpa [ParkedP, LPP] using hp
      | streamBody x l c lim body inner =>
        simp only [ParkedP] at hp
        simp only [LPP]
        simp only [Pend.streamBody.sizeOf_spec] at hb
        exact ih inner (by omega) hp
      | join a b ad bd =>
        simp only [ParkedP] at hp
        simp only [LPP]
        simp only [Pend.join.sizeOf_spec] at hb
        exact ⟨fun e => ih a (by omega) (hp.1 e), fun e => ih b (by omega) (hp.2 e)⟩
      | select a b =>
        simp only [ParkedP] at hp
        simp only [LPP]
        simp only [Pend.select.sizeOf_spec] at hb
        exact ⟨ih a (by omega) hp.1, ih b (by omega) hp.2⟩
      | host c m => simp [LPP]
  intro b
  exact key _ b (Nat.le_refl _)

/-- live parking depends only on the leaves the block references and on the join queues -/
theorem LPB.frame (wk : Waker) (w w' : World) (hlen : w.leaves.length ≤ w'.leaves.length)
    (hj : ∀ s, wk ∈ (w.getMeta s).joinWakers → wk ∈ (w'.getMeta s).joinWakers) :
    ∀ (b : Block), (∀ l ∈ refsB b, (w'.leaf l).waker = (w.leaf l).waker) → LPB wk w b → LPB wk w' b := by
  have key : ∀ n (b : Block), sizeOf b ≤ n → (∀ l ∈ refsB b, (w'.leaf l).waker = (w.leaf l).waker) → LPB wk w b → LPB wk w' b := by
    intro n
    induction n with
    | zero => intro b hb; cases b; simp at hb
    | succ n ih =>
      intro b hb hl hp
      obtain ⟨env, cur, rest⟩ := b
      simp only [Block.mk.sizeOf_spec] at hb
      simp only [LPB] at hp ⊢
      simp only [refsB] at hl
      cases cur with
      | idle => simp [LPP] at hp
      | reqDead => simp [LPP]
      | await s => simp only [LPP] at hp ⊢; exact hj s hp
      | selfwake s => simp [LPP] at hp
      | req x l =>
        simp only [LPP] at hp ⊢
        exact ⟨Nat.lt_of_lt_of_le hp.1 hlen, (hl l (by simp [refsP])).trans hp.2⟩
      | streamWait x l c lim body =>
        simp only [LPP] at hp ⊢
        exact ⟨Nat.lt_of_lt_of_le hp.1 hlen, (hl l (by simp [refsP])).trans hp.2⟩
      | streamBody x l c lim body inner =>
        simp only [LPP] at hp ⊢
        simp only [Pend.streamBody.sizeOf_spec] at hb
        exact ih inner (by omega) (fun l' hl' => hl l' (by simp [refsP, hl'])) hp
      | join a b ad bd =>
        simp only [LPP] at hp ⊢
        simp only [Pend.join.sizeOf_spec] at hb
        refine ⟨fun e => ih a (by omega) (fun l' hl' => hl l' ?_) (hp.1 e), fun e => ih b (by omega) (fun l' hl' => hl l' ?_) (hp.2 e)⟩
        · simp [refsP, e, hl']
        · simp [refsP, e, hl']
      | select a b =>
        simp only [LPP] at hp ⊢
        simp only [Pend.select.sizeOf_spec] at hb
        exact ⟨ih a (by omega) (fun l' hl' => hl l' (by simp [refsP, hl'])) hp.1,
          ih b (by omega) (fun l' hl' => hl l' (by simp [refsP, hl'])) hp.2⟩
      | host c m => simp [LPP]
  intro b
  exact key _ b (Nat.le_refl _)

/-- every leaf a live-parked block references exists -/
theorem LPB.refs_lt (wk : Waker) (w : World) : ∀ (b : Block), LPB wk w b → inRangeB w.leaves.length w.metas.length b = true →
    ∀ l ∈ refsB b, l < w.leaves.length := by
  intro b _ hr l hl
  -- from in-range-ness alone
  have key : ∀ n (b : Block), sizeOf b ≤ n → inRangeB w.leaves.length w.metas.length b = true → ∀ l ∈ refsB b, l < w.leaves.length := by
    intro n
    induction n with
    | zero => intro b hb; cases b; simp at hb
    | succ n ih =>
      intro b hb hr l hl
      obtain ⟨env, cur, rest⟩ := b
      simp only [Block.mk.sizeOf_spec] at hb
      simp only [inRangeB, Bool.and_eq_true] at hr
      simp only [refsB] at hl
      cases cur with
      | idle => simp [refsP] at hl
      | reqDead => simp [refsP] at hl
      | await s => simp [refsP] at hl
      | selfwake s => simp [refsP] at hl
      | host c m => simp [refsP] at hl
      | req x l' => simp only [refsP, List.mem_singleton] at hl; subst hl; simpa [inRangeP] using hr.2
      | streamWait x l' c lim body => simp only [refsP, List.mem_singleton] at hl; subst hl; simpa [inRangeP] using hr.2
      | streamBody x l' c lim body inner =>
        simp only [refsP, List.mem_cons] at hl
        simp only [inRangeP, Bool.and_eq_true, decide_eq_true_eq] at hr
        simp only [Pend.streamBody.sizeOf_spec] at hb
        rcases hl with rfl | hl
        · exact hr.2.1
        · exact ih inner (by omega) hr.2.2 l hl
      | join a b ad bd =>
        simp only [refsP, List.mem_append] at hl
        simp only [inRangeP, Bool.and_eq_true] at hr
        simp only [Pend.join.sizeOf_spec] at hb
        rcases hl with hl | hl
        · split at hl
          · cases hl
          · exact ih a (by omega) hr.2.1 l hl
        · split at hl
          · cases hl
          · exact ih b (by omega) hr.2.2 l hl
      | select a b =>
        simp only [refsP, List.mem_append] at hl
        simp only [inRangeP, Bool.and_eq_true] at hr
        simp only [Pend.select.sizeOf_spec] at hb
        rcases hl with hl | hl
        · exact ih a (by omega) hr.2.1 l hl
        · exact ih b (by omega) hr.2.2 l hl
  exact key _ b (Nat.le_refl _) hr l hl

/-- **A poll does not disturb the parking of other tasks.** One poll of a host-free block `b0` (any waker, sink, fuel,
    world): a block `b1` that references none of `b0`'s channels, is in range and is live-parked for waker `wk1` is still
    live-parked for `wk1` afterwards. -/
theorem poll_keeps_others_parked (pn) (f : Nat) (wk0 : Waker) (sink : Sink) (b0 : Block) (w : World) (r : PollRes) (w' : World)
    (h : pollBlock pn f wk0 sink b0 w = some (r, w')) (hf : hostFreeB b0 = true)
    (wk1 : Waker) (b1 : Block) (hr1 : inRangeB w.leaves.length w.metas.length b1 = true)
    (hdis : ∀ l ∈ refsB b1, l ∉ refsB b0) (hp : LPB wk1 w b1) : LPB wk1 w' b1 := by
  have hlt := LPB.refs_lt wk1 w b1 hp hr1
  have hlen : w.leaves.length ≤ w'.leaves.length := by
    have := (pollBlock_linear pn f wk0 sink b0 w r w' h hf).len
    exact this
  refine LPB.frame wk1 w w' hlen ?_ b1 ?_ hp
  · intro s hs
    exact (pollBlock_jrgood pn s wk1 0 0 f wk0 sink b0 w r w' h hf).1 hs
  · intro l hl
    exact congrArg (·.waker) (pollBlock_lfgood pn l f wk0 sink b0 w r w' h hf (hlt l hl) (hdis l hl)).1

end M.Rt

namespace M.Rt

theorem wkB_ok {n : Nat} {k : Waker} (wk0 : Waker) (h : wkB n k) : okW n wk0 k := by
  cases k with
  | root e => exact Or.inr (by simp [serOf])
  | task c t s => exact Or.inr (by simp only [serOf, ne_eq, Option.some.injEq]; simp only [wkB] at h; omega)

/-- in a fresh world nothing carries the next serial: the poll starts in `WP` -/
theorem WP_init (cid tid : Nat) (w : World) (hs : SOk w) (hal : (w.cmd cid).alive = true) (hin : cid < w.cmds.length) :
    WP cid tid w.nextSerial ({ w with nextSerial := w.nextSerial + 1 } : World) := by
  refine ⟨⟨?_, ?_, ?_⟩, ?_, hal, hin⟩
  · intro l k hk
    have := hs.leaf_waker l
    show okW _ _ k
    have e : (({ w with nextSerial := w.nextSerial + 1 } : World).leaf l) = w.leaf l := rfl
    rw [e] at hk
    rw [hk] at this
    exact wkB_ok _ this
  · intro m k hk
    have e : (({ w with nextSerial := w.nextSerial + 1 } : World).getMeta m) = w.getMeta m := rfl
    rw [e] at hk
    simp only [World.getMeta] at hk
    cases hm : w.metas[m]? with
    | none => simp [hm] at hk
    | some x =>
      simp only [hm, Option.getD_some] at hk
      exact wkB_ok _ (hs.metas x (List.mem_of_getElem? hm) k hk)
  · intro c k hk
    have := hs.cmd_waker c
    have e : (({ w with nextSerial := w.nextSerial + 1 } : World).cmd c) = w.cmd c := rfl
    rw [e] at hk
    rw [hk] at this
    exact wkB_ok _ this
  · intro hm
    have := hs.woken _ hm
    omega

/-- **Woken means queued.** In a fresh world, one poll of a host-free task `tid` of the live command `cid` with the waker
    `run_task` hands out: if the poll's serial is flagged `woken` afterwards, the task id is on the command's ready queue —
    whoever woke it (a self-wake, a sibling finishing, an abort that walked the chain). So a task that `run_task` keeps
    as `Suspended` because it was woken during its own poll WILL be polled again. -/
theorem woken_means_queued (pn) (f : Nat) (cid tid : Nat) (w : World) (b : Block) (r : PollRes) (w1 : World)
    (h : pollBlock pn f (.task cid tid w.nextSerial) (.cmd cid) b { w with nextSerial := w.nextSerial + 1 } = some (r, w1))
    (hf : hostFreeB b = true) (hs : SOk w) (hal : (w.cmd cid).alive = true) (hin : cid < w.cmds.length)
    (hw : w.nextSerial ∈ w1.woken) : tid ∈ (w1.cmd cid).ready :=
  (pollBlock_wpgood pn cid tid w.nextSerial f (.cmd cid) b _ r w1 h hf (WP_init cid tid w hs hal hin)).wk hw

end M.Rt
